#!/bin/bash
# vet.sh <ID> [seeds...] — run the quick tier at the given seeds, validate the evidence, print a summary
id=$1; shift; seeds=${@:-1 2}
cd /verif
for s in $seeds; do
  t0=$(date +%s)
  out=$(./vf check $id --seed $s 2>&1); rc=$?
  t1=$(date +%s)
  v=$(python3-vt -c "
import json,jsonschema,sys
try:
    e=json.load(open('evidence/$id.json')); jsonschema.validate(e, json.load(open('/root/.vp/EVIDENCE.schema.json')))
    print('evidence-ok eval=%d dnt=%d bh=%s' % (e['coverage']['evaluations'], e['coverage']['distinct_nontrivial'], e['coverage'].get('budget_hit')))
except Exception as ex:
    print('EVIDENCE-INVALID', str(ex)[:200])
")
  echo "$id seed=$s rc=$rc wall=$((t1-t0))s $v known=$(echo "$out" | grep -c '^KNOWN-FINDING')"
  if [ $rc -ne 0 ]; then echo "$out" | grep -A4 "^VIOLATION\|infrastructure" | cut -c1-600 | head -20; fi
done

#!/bin/bash
# verify_seed.sh <ID> <outdir> [pkg-test-regex]  — independently confirm a seeded change:
#   patch applies + builds; demo fails with it and passes without it; (optionally) package tests pass with it.
# Prints a JSON summary on the last line. Uses a throw-away worktree under /var/tmp.
id=$1; out=$2; runre=$3
wt=$(mktemp -d /var/tmp/seedv-XXXXXX); rmdir $wt
git -C /repo worktree add --detach $wt HEAD -q || exit 2
cleanup() { git -C /repo worktree remove --force $wt 2>/dev/null; rm -rf $wt; }
trap cleanup EXIT
export GOFLAGS=-mod=mod GOPROXY=off
cd $wt
git apply $out/patch.diff || { echo '{"applies": false}'; exit 1; }
pkgs=$(git diff --name-only | xargs -n1 dirname | sort -u | sed 's|^|./|' | tr '\n' ' ')
demo=$(ls $out/*_test.go 2>/dev/null | head -1)
demopkg=$(python3 -c "
import json,sys
m=json.load(open('$out/meta.json'))
print(m.get('demo_package',''))" 2>/dev/null)
build=ok; go build ./... 2>$wt/.build.err || build=fail
res_with=na; res_without=na
if [ -n "$demo" ]; then
  # the demo goes into the package named by its 'package' clause, matched against changed dirs (or demo_package)
  pk=$(grep -m1 '^package ' $demo | awk '{print $2}' | sed 's/_test$//')
  tgt=$demopkg
  if [ -z "$tgt" ]; then for p in $pkgs; do if [ "$(basename $p)" = "$pk" ] || grep -qs "^package $pk" $p/*.go; then tgt=$p; break; fi; done; fi
  [ -z "$tgt" ] && tgt=$(echo $pkgs | awk '{print $1}')
  cp $demo $tgt/zz_seed_demo_test.go
  names=$(grep -o '^func Test[A-Za-z0-9_]*' $demo | sed 's/func //' | paste -sd'|')
  if go test -vet=off -count=1 -run "^($names)\$" $tgt > $wt/.with.log 2>&1; then res_with=pass; else res_with=fail; fi
  git stash -q -- $(git diff --name-only) 2>/dev/null || git checkout -q -- $(git diff --name-only)
  if go test -vet=off -count=1 -run "^($names)\$" $tgt > $wt/.without.log 2>&1; then res_without=pass; else res_without=fail; fi
  git stash pop -q 2>/dev/null || git apply $out/patch.diff
  rm -f $tgt/zz_seed_demo_test.go
fi
suite=skipped
if [ -n "$runre" ]; then
  if [ "$runre" = "ALL" ]; then args=""; else args="-run $runre"; fi
  if go test -vet=off -count=1 -timeout 60m $args $pkgs > $wt/.suite.log 2>&1; then suite=pass; else suite=fail; cp $wt/.suite.log /var/tmp/seedv-$id-suite.log; fi
fi
[ "$res_with" != "fail" ] && cp $wt/.with.log /var/tmp/seedv-$id-with.log 2>/dev/null
[ "$res_without" != "pass" ] && cp $wt/.without.log /var/tmp/seedv-$id-without.log 2>/dev/null
echo "{\"id\": \"$id\", \"applies\": true, \"build\": \"$build\", \"demo_with_patch\": \"$res_with\", \"demo_without_patch\": \"$res_without\", \"package_tests_with_patch\": \"$suite\", \"packages\": \"$pkgs\"}"

#!/usr/bin/env python3
"""Regenerates the machine-written part of DESIGN.md (between the BEGIN/END GENERATED markers):
fix commits, known findings, seeded changes and per-check mutant summaries."""
import json, os, re, subprocess, glob
V='/verif'
kf=json.load(open(V+'/known_findings.json'))['findings']
log=subprocess.run(['git','-C','/repo','log','--reverse','--format=%h %s'],capture_output=True,text=True).stdout.splitlines()
fixes=[l for l in log if l.split(' ',1)[1].startswith('fix:')]
out=[]
out.append('### 11.3 `fix:` commits made in /repo (genuine defects found by the checks and repaired)\n')
out.append('Each is one minimal unguarded commit; the repository\'s own tests of the touched packages were run with it (the full suite was re-run at the end, see §11.7). `known_findings.json` lists each as `status: fixed` (suppresses nothing).\n')
out.append('| commit | summary | found by (property: fingerprint) |\n|---|---|---|')
by_commit={}
for k in kf:
    if k['status']=='fixed':
        by_commit.setdefault(k.get('commit','?')[:7],[]).append('%s: `%s`'%(k['property'],k['fingerprint']))
for l in fixes:
    h,s=l.split(' ',1)
    out.append('| %s | %s | %s |'%(h,s[5:].replace('|','/'),'; '.join(by_commit.get(h[:7],['(side finding reported while building a whole-system check)']))))
out.append('\n### 11.4 Known findings (genuine, recorded, not repaired)\n')
out.append('A `known` entry suppresses exactly its fingerprint: the check prints `KNOWN-FINDING:` and keeps searching with that shape excluded by construction; any other violation of the property is still a `VIOLATION`.\n')
out.append('| property | fingerprint | what fails |\n|---|---|---|')
for k in sorted(kf,key=lambda k:(k['property'],k['fingerprint'])):
    if k['status']=='known':
        out.append('| %s | `%s` | %s |'%(k['property'],k['fingerprint'],k['what_fails'].replace('|','/').replace('\n',' ')[:420]))
out.append('\n### 11.5 Independently seeded changes (fresh sub-agents, property text only) and which check catches them\n')
out.append('Each change was confirmed by the integrator in a throw-away worktree (`tools/verify_seed.sh`: applies, builds, demonstration fails with it and passes without it) and then run against the property\'s quick tier (`./vf mutant`). Stored under `/verif/seeded/<name>/` (patch.diff, demonstration, meta.json).\n')
out.append('| seeded change | property | needs to manifest | confirmed | caught by quick tier | fingerprint(s) |\n|---|---|---|---|---|---|')
for d in sorted(glob.glob(V+'/seeded/*/meta.json')):
    m=json.load(open(d))
    ic=m.get('independent_confirmation',{})
    conf='%s/%s'%(ic.get('demo_with_patch'),ic.get('demo_without_patch'))
    cr=m.get('check_result',{})
    note=' (missed at first; check strengthened, see meta.json)' if m.get('history') else ''
    out.append('| %s | %s | %s | %s | %s%s | %s |'%(m['name'],m['property'],str(m.get('needs_to_manifest','')).replace('|','/').replace('\n',' ')[:260],conf,'yes' if cr.get('caught') else 'NO',note,str(cr.get('caught_by','')).replace('|','/')[:200]))
out.append('\n### 11.6 Hand-written mutants per check (sensitivity runs during development)\n')
out.append('| property | mutant patches | documented in |\n|---|---|---|')
for c in sorted(os.listdir(V+'/checks')):
    n=len(glob.glob(V+'/checks/%s/mutants/*.diff'%c))
    doc='checks/%s/MUTANTS.md'%c if os.path.exists(V+'/checks/%s/MUTANTS.md'%c) else ('checks/%s/MUTANTS-net.md'%c if os.path.exists(V+'/checks/%s/MUTANTS-net.md'%c) else '(see §11.8)')
    out.append('| %s | %d | %s |'%(c,n,doc))
out.append('\n### 11.9 Registered checks as built (from checks/*/check.json)\n')
out.append('| property | level | packages | units (quick cases x shards / thorough cases x shards) | rewrite (E3/E4 shims) |\n|---|---|---|---|---|')
for c in sorted(os.listdir(V+'/checks')):
    f=V+'/checks/%s/check.json'%c
    if not os.path.exists(f): continue
    cfg=json.load(open(f))
    if not cfg.get('registered'): continue
    us=[]
    for u in cfg['units']:
        q=u.get('quick',{}); t=u.get('thorough',{})
        us.append('%s: %sx%s / %sx%s'%(u['run'].split('_',2)[-1],q.get('checks','-'),q.get('shards',1),t.get('checks','-'),t.get('shards',1)))
    pk=sorted({u['pkg'] for u in cfg['units']})
    rw=cfg.get('rewrite')
    rws='-'
    if rw:
        rws='%d file pattern(s)'%len(rw.get('files',[]))+(', consts' if rw.get('consts') else '')+(', %d prologue(s)'%len(rw.get('prologues',[])) if rw.get('prologues') else '')
    out.append('| %s | %s | %s | %s | %s |'%(c,cfg.get('level'),' '.join(pk),'; '.join(us),rws))
gen='\n'.join(out)+'\n'
p=V+'/DESIGN.md'
s=open(p).read()
B='<!-- BEGIN GENERATED -->'; E='<!-- END GENERATED -->'
if B in s:
    s=s[:s.index(B)]+B+'\n'+gen+E+s[s.index(E)+len(E):]
else:
    s+='\n'+B+'\n'+gen+E+'\n'
open(p,'w').write(s)
print('DESIGN.md regenerated: %d fix commits, %d known, %d seeds'%(len(fixes),sum(1 for k in kf if k['status']=='known'),len(glob.glob(V+'/seeded/*/meta.json'))))

#!/bin/bash
# process_seed.sh <ID> <outdir> <name> [pkg-test-regex|ALL]
# Confirms a seeded change independently, runs the property's quick check against it, stores it under /verif/seeded/<name>/.
id=$1; out=$2; name=$3; re=$4
dst=/verif/seeded/$name
mkdir -p $dst
cp $out/patch.diff $dst/patch.diff
cp $out/*_test.go $dst/ 2>/dev/null
cp $out/meta.json $dst/agent_meta.json 2>/dev/null
v=$(/verif/tools/verify_seed.sh $id $out $re | tail -1)
cd /verif
chk=$(./vf mutant $id $dst/patch.diff 2>&1)
rc=$(echo "$chk" | grep -o "check exit code [0-9]*" | awk '{print $4}')
fps=$(echo "$chk" | grep "^  unit=" | sed 's/^  //' | paste -sd';')
python3 - "$id" "$name" "$v" "$rc" "$fps" <<'PY'
import json,sys,os
id,name,v,rc,fps=sys.argv[1:6]
try: ver=json.loads(v)
except Exception: ver={"raw":v}
am={}
p='/verif/seeded/%s/agent_meta.json'%name
if os.path.exists(p):
    try: am=json.load(open(p))
    except Exception: am={}
meta={"property":id,"name":name,
 "what_it_breaks":am.get("what_it_breaks",""),"needs_to_manifest":am.get("needs_to_manifest",""),
 "files_changed":am.get("files_changed",[]),
 "independent_confirmation":ver,
 "what_was_run":["tools/verify_seed.sh (fresh worktree: git apply, go build ./..., demo with patch, demo without patch)","./vf mutant %s seeded/%s/patch.diff (quick tier, seed 1)"%(id,name)],
 "check_result":{"exit_code":int(rc) if rc and rc.isdigit() else None,"caught":rc=="1","caught_by":fps}}
json.dump(meta,open('/verif/seeded/%s/meta.json'%name,'w'),indent=1)
print(name, "confirmed=%s/%s"%(ver.get("demo_with_patch"),ver.get("demo_without_patch")), "check_exit=%s"%rc, fps[:200])
PY

module vfrewrite

go 1.23

// vfrewrite produces import-swapped / constant-shrunk / prologue-injected copies
// of goakt source files for the /verif build overlay. It never writes to the
// repository. Edits are byte-range replacements located with go/parser, so line
// numbers of the copies equal those of the originals.
//
// usage: vfrewrite spec.json   (prints {"replace": {...}, "report": {...}} on stdout)
package main

import (
	"encoding/json"
	"fmt"
	"go/ast"
	"go/parser"
	"go/token"
	"os"
	"path/filepath"
	"sort"
	"strconv"
	"strings"
)

type prologue struct {
	File string `json:"file"`
	Func string `json:"func"` // "name" or "Recv.name" (receiver type without *)
	Code string `json:"code"` // single-line Go statement(s)
}

type spec struct {
	Repo   string `json:"repo"`
	Out    string `json:"out"`
	Module string `json:"module"`
	Tier   string `json:"tier"`
	// Files: repo-relative paths or globs of files whose imports are swapped.
	Files []string `json:"files"`
	// Swap: import path -> helper package name under internal/ (alias keeps the original base name).
	Swap map[string]string `json:"swap"`
	// Consts: tier ("quick"/"thorough"/"all") -> file -> const name -> new literal.
	Consts map[string]map[string]map[string]string `json:"consts"`
	// Prologues: statements inserted at the top of named functions.
	Prologues []prologue `json:"prologues"`
	// ExtraImports: file -> list of import lines to add (e.g. `vfhook "…/internal/vfhook"`)
	ExtraImports map[string][]string `json:"extra_imports"`
}

type edit struct {
	start, end int
	text       string
}

func main() {
	if len(os.Args) != 2 {
		fmt.Fprintln(os.Stderr, "usage: vfrewrite spec.json")
		os.Exit(2)
	}
	b, err := os.ReadFile(os.Args[1])
	if err != nil {
		fail(err)
	}
	var sp spec
	if err := json.Unmarshal(b, &sp); err != nil {
		fail(err)
	}
	if len(sp.Swap) == 0 {
		sp.Swap = map[string]string{"sync/atomic": "vfatomic", "sync": "vfsync"}
	}
	files := map[string]bool{}
	for _, g := range sp.Files {
		m, _ := filepath.Glob(filepath.Join(sp.Repo, g))
		for _, f := range m {
			if strings.HasSuffix(f, "_test.go") {
				continue
			}
			rel, _ := filepath.Rel(sp.Repo, f)
			files[rel] = true
		}
	}
	consts := map[string]map[string]string{}
	for _, tier := range []string{"all", sp.Tier} {
		for f, m := range sp.Consts[tier] {
			if consts[f] == nil {
				consts[f] = map[string]string{}
			}
			for k, v := range m {
				consts[f][k] = v
			}
			files[f] = files[f] // ensure key exists below
		}
	}
	all := map[string]bool{}
	for f := range files {
		all[f] = true
	}
	for f := range consts {
		all[f] = true
	}
	for _, p := range sp.Prologues {
		all[p.File] = true
	}
	for f := range sp.ExtraImports {
		all[f] = true
	}

	replace := map[string]string{}
	report := map[string]any{}
	swapped, constShrunk, prologued, missing := []string{}, map[string]string{}, []string{}, []string{}

	names := make([]string, 0, len(all))
	for f := range all {
		names = append(names, f)
	}
	sort.Strings(names)
	for _, rel := range names {
		src := filepath.Join(sp.Repo, rel)
		data, err := os.ReadFile(src)
		if err != nil {
			missing = append(missing, rel+": "+err.Error())
			continue
		}
		fset := token.NewFileSet()
		af, err := parser.ParseFile(fset, src, data, parser.ParseComments)
		if err != nil {
			missing = append(missing, rel+": "+err.Error())
			continue
		}
		off := func(p token.Pos) int { return fset.Position(p).Offset }
		var edits []edit
		if files[rel] {
			did := false
			for _, im := range af.Imports {
				path, _ := strconv.Unquote(im.Path.Value)
				helper, ok := sp.Swap[path]
				if !ok {
					continue
				}
				alias := path[strings.LastIndex(path, "/")+1:]
				if im.Name != nil {
					alias = im.Name.Name
					edits = append(edits, edit{off(im.Name.Pos()), off(im.Path.End()), alias + " " + strconv.Quote(sp.Module+"/internal/"+helper)})
				} else {
					edits = append(edits, edit{off(im.Path.Pos()), off(im.Path.End()), alias + " " + strconv.Quote(sp.Module+"/internal/"+helper)})
				}
				did = true
			}
			if did {
				swapped = append(swapped, rel)
			}
		}
		if cm := consts[rel]; len(cm) > 0 {
			found := map[string]bool{}
			ast.Inspect(af, func(n ast.Node) bool {
				vs, ok := n.(*ast.ValueSpec)
				if !ok {
					return true
				}
				for i, id := range vs.Names {
					if nv, ok := cm[id.Name]; ok && i < len(vs.Values) {
						edits = append(edits, edit{off(vs.Values[i].Pos()), off(vs.Values[i].End()), nv})
						found[id.Name] = true
						constShrunk[rel+":"+id.Name] = nv
					}
				}
				return true
			})
			for k := range cm {
				if !found[k] {
					missing = append(missing, rel+": const "+k+" not found (real value used)")
				}
			}
		}
		for _, p := range sp.Prologues {
			if p.File != rel {
				continue
			}
			ok := false
			for _, d := range af.Decls {
				fd, isFn := d.(*ast.FuncDecl)
				if !isFn || fd.Body == nil {
					continue
				}
				name := fd.Name.Name
				if fd.Recv != nil && len(fd.Recv.List) == 1 {
					name = recvName(fd.Recv.List[0].Type) + "." + name
				}
				if name == p.Func {
					pos := off(fd.Body.Lbrace) + 1
					edits = append(edits, edit{pos, pos, " " + p.Code + ";"})
					ok = true
				}
			}
			if ok {
				prologued = append(prologued, rel+":"+p.Func)
			} else {
				missing = append(missing, rel+": func "+p.Func+" not found (no prologue)")
			}
		}
		if extra := sp.ExtraImports[rel]; len(extra) > 0 {
			// insert after the package clause, on the same line
			pos := off(af.Name.End())
			txt := ""
			for _, e := range extra {
				txt += "; import " + e
			}
			edits = append(edits, edit{pos, pos, txt})
		}
		if len(edits) == 0 {
			continue
		}
		sort.Slice(edits, func(i, j int) bool { return edits[i].start > edits[j].start })
		out := data
		for _, e := range edits {
			out = append(append(append([]byte{}, out[:e.start]...), e.text...), out[e.end:]...)
		}
		// the copies carry the build tag so they can never leak into an untagged build
		dst := filepath.Join(sp.Out, rel)
		if err := os.MkdirAll(filepath.Dir(dst), 0o755); err != nil {
			fail(err)
		}
		if err := os.WriteFile(dst, out, 0o644); err != nil {
			fail(err)
		}
		replace[filepath.Join(sp.Repo, rel)] = dst
	}
	sort.Strings(swapped)
	report["swapped_files"] = swapped
	report["const_shrunk"] = constShrunk
	report["prologues"] = prologued
	report["notes"] = missing
	json.NewEncoder(os.Stdout).Encode(map[string]any{"replace": replace, "report": report})
}

func recvName(e ast.Expr) string {
	switch t := e.(type) {
	case *ast.StarExpr:
		return recvName(t.X)
	case *ast.Ident:
		return t.Name
	case *ast.IndexExpr:
		return recvName(t.X)
	case *ast.IndexListExpr:
		return recvName(t.X)
	}
	return "?"
}

func fail(err error) {
	fmt.Fprintln(os.Stderr, "vfrewrite:", err)
	os.Exit(2)
}

#!/bin/bash
# process every /tmp/seed/out-<ID>[/alt2] that has patch.diff + meta.json and is not yet stored under /verif/seeded
FILTER=${1:-.}
for d in /tmp/seed/out-C* /tmp/seed/out-C*/alt2; do
  echo $d | grep -Eq "out-($FILTER)" || continue
  [ -f $d/patch.diff ] || continue
  [ -f $d/meta.json ] || continue
  id=$(echo $d | grep -o 'out-C[0-9]*' | sed 's/out-//')
  sha=$(sha1sum $d/patch.diff | cut -c1-8)
  # re-based copies keep the original hash in agent_patch_original.diff
  if grep -qs "$sha" /verif/seeded/*/.sha 2>/dev/null; then continue; fi
  f=$(grep -m1 '^+++ b/' $d/patch.diff | sed 's|^+++ b/||' | xargs basename | sed 's/\.go$//; s/_/-/g')
  name="$id-$f"
  [ -d /verif/seeded/$name ] && name="$name-$sha"
  /verif/tools/process_seed.sh $id $d $name
  echo $sha > /verif/seeded/$name/.sha
done

//go:build verif

package actor

import (
	"bytes"
	"context"
	"errors"
	"fmt"
	"runtime"
	"runtime/debug"
	"strconv"
	"strings"
	"sync"
	"sync/atomic"
	"testing"
	"time"

	"pgregory.net/rapid"

	gerrors "github.com/tochemey/goakt/v4/errors"
	"github.com/tochemey/goakt/v4/internal/vfkit"
	"github.com/tochemey/goakt/v4/internal/vfsched"
	"github.com/tochemey/goakt/v4/log"
	"github.com/tochemey/goakt/v4/reentrancy"
)

// ---- C16: every reentrant request completes exactly once, on the requester's turn ----
//
// A fresh requester actor (reentrancy AllowAll or StashNonReentrant, in-flight limit
// 0/1/2/4) receives a generated command stream: issue Request / RequestName /
// RequestGrain (one or several per turn, optional timeout, optional per-call mode,
// continuation registered at once or by a later command), Cancel (from inside the
// actor or from the driver goroutine), numbered ordinary messages, and optionally a
// shutdown of the requester (from inside or from outside). 1..3 responder actors
// and one grain follow per-request scripts (reply now / late / never / twice / stop
// before replying). Everything the requester does is appended to one log in the
// order it happens on the requester's turn; messages held back by a blocking
// request are logged through a prologue hook in PID.stash. The oracle replays the
// log against a small sequential model.

const (
	c16ViaRequest = iota
	c16ViaName
	c16ViaGrain
)

const (
	c16ScriptNow = iota
	c16ScriptLate
	c16ScriptNever
	c16ScriptTwice
	c16ScriptStop // actor responders only: shut down without replying
)

var c16ScriptNames = [...]string{"now", "late", "never", "twice", "stop"}

const (
	c16TimeoutNone = iota
	c16TimeoutShort
	c16TimeoutLong // 5 s
)

const (
	c16ModeDefault = iota
	c16ModeAllowAll
	c16ModeStash
	c16ModeOff // per-call override reentrancy.Off: the request must be rejected
)

const (
	c16CmdIssue     = iota // issue Issues in one turn
	c16CmdCancel           // cancel request K from inside the actor
	c16CmdThen             // register the continuation of request K (issued with ThenLater)
	c16CmdOrd              // ordinary numbered message
	c16CmdExtCancel        // (driver) cancel request K from the driver goroutine
	c16CmdPause            // (driver) wait PauseUS
)

type c16Issue struct {
	K         int  `json:"k"`
	Via       int  `json:"via"`
	Resp      int  `json:"resp"` // responder index (actors); ignored for the grain
	Script    int  `json:"script"`
	DelayUS   int  `json:"delay_us"`
	Timeout   int  `json:"timeout"`
	TimeoutUS int  `json:"timeout_us"`
	Mode      int  `json:"mode"`
	ThenLater bool `json:"then_later"`
	LingerUS  int  `json:"linger_us"` // the continuation keeps running for this long
}

type c16Cmd struct {
	Kind    int        `json:"kind"`
	Issues  []c16Issue `json:"issues,omitempty"`
	K       int        `json:"k,omitempty"`
	N       int        `json:"n,omitempty"`
	PauseUS int        `json:"pause_us,omitempty"`
	Linger  int        `json:"linger_us,omitempty"` // the handler keeps running for this long
}

type c16Case struct {
	Mode        int      `json:"mode"` // actor default: c16ModeAllowAll / c16ModeStash
	MaxInFlight int      `json:"max_in_flight"`
	Responders  int      `json:"responders"`
	Cmds        []c16Cmd `json:"cmds"`
	Second      []int    `json:"second,omitempty"` // ordinary messages sent by a second goroutine (numbers >= 1000)
	Shutdown    int      `json:"shutdown"`         // 0 no, 1 rctx.Shutdown() as last command, 2 pid.Shutdown from the driver
	NoiseSeed   uint64   `json:"noise_seed"`
	NoiseProb   float64  `json:"noise_prob"`
	NoiseSleep  int      `json:"noise_sleep"`
}

// ---- messages -------------------------------------------------------------------------

type c16Req struct {
	Token   uint64
	Script  int
	DelayUS int
}

type c16Rep struct {
	Token uint64
	Ord   int
}

// c16Msg is every message the harness sends to the requester. id identifies it in
// the log: ordinary message N -> N (second sender: >= 1000); command #i -> 2000+i;
// the stop message -> 9000; the final marker -> 9001.
type c16Msg struct {
	cmd    *c16Cmd
	id     int
	marker chan struct{}
	stop   bool
}

const (
	c16IDCmd    = 2000
	c16IDStop   = 9000
	c16IDMarker = 9001
)

// ---- log --------------------------------------------------------------------------------

const (
	c16EvHandle   = iota // a message (id) starts being handled by the requester's Receive
	c16EvIssue           // request K: accepted / rejected with err
	c16EvCallback        // continuation of K ran
	c16EvHeld            // message (id) held back by PID.stash
	c16EvThen            // Then registered late for K
	c16EvPanic           // the handler panicked (overlap = value and stack)
)

type c16Event struct {
	kind     int
	k, id    int
	accepted bool
	err      error
	token    uint64 // callback: token carried by the reply (0 = none)
	onTurn   bool   // callback: dispatch state was Processing
	overlap  string // callback / handle: another goroutine was inside a handler or continuation
	inFlight int64  // issue: the implementation's own counter right after the call (log only)
}

type c16ReqState struct {
	spec      c16Issue
	token     uint64
	call      RequestCall
	accepted  bool
	callbacks int
	drained   bool // cancelled by the drain
}

type c16Run struct {
	mu        sync.Mutex
	events    []c16Event
	reqs      map[int]*c16ReqState
	thenEarly map[int]bool
	owner     atomic.Int64 // goroutine id currently inside a handler / continuation of the requester (0 = none)
	handled   atomic.Int64 // messages of the harness handled by Receive
	cbTotal   atomic.Int64
	accepted  atomic.Int64
	pid       atomic.Pointer[PID]
	panicked  atomic.Bool
	env       *c16Env
}

func (r *c16Run) log(e c16Event) {
	r.mu.Lock()
	r.events = append(r.events, e)
	r.mu.Unlock()
}

func c16Goid() int64 {
	var buf [64]byte
	b := buf[:runtime.Stack(buf[:], false)]
	b = bytes.TrimPrefix(b, []byte("goroutine "))
	if i := bytes.IndexByte(b, ' '); i > 0 {
		if v, err := strconv.ParseInt(string(b[:i]), 10, 64); err == nil {
			return v
		}
	}
	return -1
}

// enter marks the calling goroutine as running requester code; it reports an
// overlap when another goroutine is already doing so.
func (r *c16Run) enter() (prev int64, overlap string) {
	g := c16Goid()
	prev = r.owner.Swap(g)
	if prev != 0 && prev != g {
		overlap = fmt.Sprintf("goroutine %d entered while goroutine %d was still inside", g, prev)
	}
	return prev, overlap
}

func (r *c16Run) exit(prev int64) { r.owner.Store(prev) }

type c16Env struct {
	responders []*PID
	grain      *GrainIdentity
}

var (
	c16Token atomic.Uint64
	c16Cur   atomic.Pointer[c16Run]
)

// c16OnStash is called at the top of PID.stash (prologue): the message is being held back.
func c16OnStash(pid *PID, ctx *ReceiveContext) {
	r := c16Cur.Load()
	if r == nil || r.pid.Load() != pid {
		return
	}
	if m, ok := ctx.Message().(*c16Msg); ok {
		r.log(c16Event{kind: c16EvHeld, id: m.id})
	}
}

// ---- actors -----------------------------------------------------------------------------

type c16Requester struct{ run *c16Run }

func (a *c16Requester) PreStart(*Context) error { return nil }
func (a *c16Requester) PostStop(*Context) error { return nil }

func (a *c16Requester) Receive(ctx *ReceiveContext) {
	m, ok := ctx.Message().(*c16Msg)
	if !ok {
		return
	}
	run := a.run
	prev, overlap := run.enter()
	defer run.exit(prev)
	run.log(c16Event{kind: c16EvHandle, id: m.id, overlap: overlap})
	defer run.handled.Add(1)
	defer func() {
		if p := recover(); p != nil {
			run.log(c16Event{kind: c16EvPanic, id: m.id, overlap: fmt.Sprintf("%v\n%s", p, debug.Stack())})
			run.panicked.Store(true)
			panic(p)
		}
	}()
	if m.marker != nil {
		close(m.marker)
		return
	}
	if m.stop {
		ctx.Shutdown()
		ctx.Err(nil)
		return
	}
	cmd := m.cmd
	switch cmd.Kind {
	case c16CmdIssue:
		for i := range cmd.Issues {
			a.issue(ctx, cmd.Issues[i])
		}
	case c16CmdCancel:
		run.mu.Lock()
		q := run.reqs[cmd.K]
		run.mu.Unlock()
		if q != nil && q.call != nil {
			_ = q.call.Cancel()
		}
	case c16CmdThen:
		run.mu.Lock()
		q := run.reqs[cmd.K]
		if q == nil {
			// the issuing command was held back and released behind this one: the
			// continuation is registered as soon as the request is issued
			run.thenEarly[cmd.K] = true
		}
		run.mu.Unlock()
		if q != nil && q.call != nil && q.spec.ThenLater {
			run.log(c16Event{kind: c16EvThen, k: cmd.K})
			q.call.Then(a.callback(ctx.Self(), q))
		}
	}
	c16Spin(cmd.Linger)
}

// issue performs one Request / RequestName / RequestGrain through the public
// ReceiveContext API and registers the continuation.
func (a *c16Requester) issue(ctx *ReceiveContext, spec c16Issue) {
	run := a.run
	q := &c16ReqState{spec: spec, token: c16Token.Add(1)}
	var opts []RequestOption
	switch spec.Timeout {
	case c16TimeoutShort:
		opts = append(opts, WithRequestTimeout(time.Duration(spec.TimeoutUS)*time.Microsecond))
	case c16TimeoutLong:
		opts = append(opts, WithRequestTimeout(5*time.Second))
	}
	switch spec.Mode {
	case c16ModeAllowAll:
		opts = append(opts, WithReentrancyMode(reentrancy.AllowAll))
	case c16ModeStash:
		opts = append(opts, WithReentrancyMode(reentrancy.StashNonReentrant))
	case c16ModeOff:
		opts = append(opts, WithReentrancyMode(reentrancy.Off))
	}
	msg := &c16Req{Token: q.token, Script: spec.Script, DelayUS: spec.DelayUS}
	var call RequestCall
	switch spec.Via {
	case c16ViaRequest:
		call = ctx.Request(run.env.responders[spec.Resp], msg, opts...)
	case c16ViaName:
		call = ctx.RequestName(run.env.responders[spec.Resp].Name(), msg, opts...)
	case c16ViaGrain:
		call = ctx.RequestGrain(run.env.grain, msg, opts...)
	}
	err := ctx.getError()
	ctx.Err(nil) // a rejected request is an expected outcome here, not a failure of the message
	var inFlight int64 = -1
	if st := ctx.Self().reentrancy.Load(); st != nil {
		inFlight = st.inFlightCount.Load()
	}
	q.call = call
	q.accepted = call != nil
	run.mu.Lock()
	run.reqs[spec.K] = q
	run.events = append(run.events, c16Event{kind: c16EvIssue, k: spec.K, accepted: q.accepted, err: err, inFlight: inFlight})
	run.mu.Unlock()
	if !q.accepted {
		return
	}
	run.accepted.Add(1)
	run.mu.Lock()
	early := run.thenEarly[spec.K]
	run.mu.Unlock()
	if !spec.ThenLater || early {
		call.Then(a.callback(ctx.Self(), q))
	}
}

func (a *c16Requester) callback(self *PID, q *c16ReqState) func(any, error) {
	run := a.run
	return func(res any, err error) {
		prev, overlap := run.enter()
		defer run.exit(prev)
		ev := c16Event{kind: c16EvCallback, k: q.spec.K, err: err, overlap: overlap}
		ev.onTurn = self.schedState.Load() == dispatchProcessing
		if rep, ok := res.(*c16Rep); ok {
			ev.token = rep.Token
		} else if res != nil {
			ev.token = ^uint64(0)
		}
		run.mu.Lock()
		q.callbacks++
		run.events = append(run.events, ev)
		run.mu.Unlock()
		run.cbTotal.Add(1)
		c16Spin(q.spec.LingerUS)
	}
}

func c16Spin(us int) {
	if us <= 0 {
		return
	}
	d := time.Duration(us) * time.Microsecond
	if d >= 2*time.Millisecond {
		time.Sleep(d)
		return
	}
	end := time.Now().Add(d)
	for time.Now().Before(end) {
		runtime.Gosched()
	}
}

type c16Responder struct{}

func (c16Responder) PreStart(*Context) error { return nil }
func (c16Responder) PostStop(*Context) error { return nil }
func (c16Responder) Receive(ctx *ReceiveContext) {
	m, ok := ctx.Message().(*c16Req)
	if !ok {
		return
	}
	switch m.Script {
	case c16ScriptNow:
		ctx.Response(&c16Rep{Token: m.Token, Ord: 1})
	case c16ScriptLate:
		c16Spin(m.DelayUS)
		ctx.Response(&c16Rep{Token: m.Token, Ord: 1})
	case c16ScriptTwice:
		ctx.Response(&c16Rep{Token: m.Token, Ord: 1})
		c16Spin(m.DelayUS)
		ctx.Response(&c16Rep{Token: m.Token, Ord: 2})
	case c16ScriptStop:
		ctx.Shutdown()
	}
	ctx.Err(nil) // a reply to a requester that is gone is not this actor's failure
}

type c16Grain struct{}

func (*c16Grain) OnActivate(context.Context, *GrainProps) error   { return nil }
func (*c16Grain) OnDeactivate(context.Context, *GrainProps) error { return nil }
func (*c16Grain) OnReceive(gctx *GrainContext) {
	m, ok := gctx.Message().(*c16Req)
	if !ok {
		gctx.Unhandled()
		return
	}
	switch m.Script {
	case c16ScriptNow:
		gctx.Response(&c16Rep{Token: m.Token, Ord: 1})
	case c16ScriptLate:
		c16Spin(m.DelayUS)
		gctx.Response(&c16Rep{Token: m.Token, Ord: 1})
	case c16ScriptTwice:
		gctx.Response(&c16Rep{Token: m.Token, Ord: 1})
		c16Spin(m.DelayUS)
		gctx.Response(&c16Rep{Token: m.Token, Ord: 2})
	}
}

// ---- generator -----------------------------------------------------------------------------

func c16GenIssue(t *rapid.T, c *c16Case, k *int) c16Issue {
	var is c16Issue
	is.K = *k
	*k++
	is.Via = rapid.SampledFrom([]int{c16ViaRequest, c16ViaRequest, c16ViaName, c16ViaGrain}).Draw(t, "via")
	is.Resp = rapid.IntRange(0, c.Responders-1).Draw(t, "resp")
	scripts := []int{c16ScriptNow, c16ScriptNow, c16ScriptLate, c16ScriptLate, c16ScriptNever, c16ScriptTwice}
	if is.Via != c16ViaGrain {
		scripts = append(scripts, c16ScriptStop)
	}
	is.Script = rapid.SampledFrom(scripts).Draw(t, "script")
	if is.Script == c16ScriptLate || is.Script == c16ScriptTwice {
		is.DelayUS = rapid.SampledFrom([]int{0, 100, 500, 1500, 4000}).Draw(t, "delay")
	}
	is.Timeout = rapid.SampledFrom([]int{c16TimeoutNone, c16TimeoutNone, c16TimeoutShort, c16TimeoutShort, c16TimeoutLong}).Draw(t, "timeout")
	if is.Timeout == c16TimeoutShort {
		is.TimeoutUS = rapid.SampledFrom([]int{300, 1000, 2000, 5000, 20000}).Draw(t, "timeoutUS")
	}
	is.Mode = rapid.SampledFrom([]int{c16ModeDefault, c16ModeDefault, c16ModeDefault, c16ModeDefault, c16ModeDefault, c16ModeAllowAll, c16ModeAllowAll, c16ModeStash, c16ModeStash, c16ModeOff}).Draw(t, "mode")
	eff := is.Mode
	if eff == c16ModeDefault {
		eff = c.Mode
	}
	// a continuation registered by a later command: only where the moment of completion
	// does not matter to the model (non-blocking request, no in-flight limit)
	if eff == c16ModeAllowAll && c.MaxInFlight == 0 && rapid.IntRange(0, 5).Draw(t, "thenLater") == 0 {
		is.ThenLater = true
	}
	is.LingerUS = rapid.SampledFrom([]int{0, 0, 0, 200, 1000}).Draw(t, "linger")
	return is
}

func c16Gen(t *rapid.T) c16Case {
	var c c16Case
	c.Mode = rapid.SampledFrom([]int{c16ModeAllowAll, c16ModeStash}).Draw(t, "mode")
	c.MaxInFlight = rapid.SampledFrom([]int{0, 0, 1, 2, 2, 4}).Draw(t, "maxInFlight")
	c.Responders = rapid.IntRange(1, 3).Draw(t, "responders")
	n := rapid.OneOf(rapid.IntRange(2, 8), rapid.IntRange(4, 24)).Draw(t, "cmds")
	k, ord := 0, 0
	var issued []c16Issue
	for i := 0; i < n; i++ {
		var cmd c16Cmd
		kind := rapid.SampledFrom([]int{c16CmdIssue, c16CmdIssue, c16CmdIssue, c16CmdOrd, c16CmdOrd, c16CmdOrd, c16CmdCancel, c16CmdExtCancel, c16CmdThen, c16CmdPause}).Draw(t, "kind")
		if (kind == c16CmdCancel || kind == c16CmdExtCancel || kind == c16CmdThen) && len(issued) == 0 {
			kind = c16CmdIssue
		}
		cmd.Kind = kind
		switch kind {
		case c16CmdIssue:
			m := rapid.SampledFrom([]int{1, 1, 1, 2, 3, 5}).Draw(t, "burst")
			for j := 0; j < m; j++ {
				is := c16GenIssue(t, &c, &k)
				if n := len(issued); n > 0 && issued[n-1].Script == c16ScriptStop && issued[n-1].Via != c16ViaGrain && rapid.IntRange(0, 1).Draw(t, "chaseStop") == 0 {
					// resolve the name of a responder that is being removed right now
					is.Via, is.Resp = c16ViaName, issued[n-1].Resp
					if is.Script == c16ScriptStop {
						is.Script = c16ScriptNow
					}
				}
				cmd.Issues = append(cmd.Issues, is)
				issued = append(issued, is)
			}
			cmd.Linger = rapid.SampledFrom([]int{0, 0, 200, 1000}).Draw(t, "handlerLinger")
		case c16CmdCancel, c16CmdExtCancel:
			cmd.K = issued[rapid.IntRange(0, len(issued)-1).Draw(t, "cancelK")].K
		case c16CmdThen:
			var later []int
			for _, is := range issued {
				if is.ThenLater {
					later = append(later, is.K)
				}
			}
			if len(later) == 0 {
				cmd.Kind = c16CmdOrd
				cmd.N = ord
				ord++
			} else {
				cmd.K = later[rapid.IntRange(0, len(later)-1).Draw(t, "thenK")]
			}
		case c16CmdOrd:
			cmd.N = ord
			ord++
			cmd.Linger = rapid.SampledFrom([]int{0, 0, 0, 300}).Draw(t, "ordLinger")
		case c16CmdPause:
			cmd.PauseUS = rapid.SampledFrom([]int{100, 500, 2000, 6000}).Draw(t, "pause")
		}
		c.Cmds = append(c.Cmds, cmd)
	}
	// every late continuation is registered eventually
	for _, is := range issued {
		if is.ThenLater {
			c.Cmds = append(c.Cmds, c16Cmd{Kind: c16CmdThen, K: is.K})
		}
	}
	ns := rapid.SampledFrom([]int{0, 0, 3, 8}).Draw(t, "second")
	for i := 0; i < ns; i++ {
		c.Second = append(c.Second, 1000+i)
	}
	c.Shutdown = rapid.SampledFrom([]int{0, 0, 0, 0, 1, 2}).Draw(t, "shutdown")
	c.NoiseSeed = rapid.Uint64().Draw(t, "noiseSeed")
	c.NoiseProb = rapid.SampledFrom([]float64{0, 0.01, 0.05, 0.2}).Draw(t, "noiseProb")
	c.NoiseSleep = rapid.SampledFrom([]int{0, 50, 300}).Draw(t, "noiseSleep")
	return c
}

// ---- system under test --------------------------------------------------------------------

var (
	c16Sys     ActorSystem
	c16GrainID *GrainIdentity
	c16Seq     atomic.Int64
)

func c16Start(t *testing.T) {
	ctx := context.Background()
	sys, err := NewActorSystem("vfC16", WithLogger(log.DiscardLogger))
	if err != nil {
		t.Fatalf("NewActorSystem: %v", err)
	}
	if err := sys.Start(ctx); err != nil {
		t.Fatalf("Start: %v", err)
	}
	t.Cleanup(func() { _ = sys.Stop(context.Background()) })
	gid, err := sys.GrainIdentity(ctx, "c16-grain", func(context.Context) (Grain, error) { return &c16Grain{}, nil })
	if err != nil {
		t.Fatalf("GrainIdentity: %v", err)
	}
	c16Sys, c16GrainID = sys, gid
	vfC16StashHook = c16OnStash
}

const (
	c16QuiesceCap   = 20 * time.Second
	c16FpActorOfNil = "requestname-panics-when-target-is-being-removed"
)

func c16ModeOf(m int) reentrancy.Mode {
	if m == c16ModeStash {
		return reentrancy.StashNonReentrant
	}
	return reentrancy.AllowAll
}

type c16Final struct {
	settled            bool // no shutdown, every message handled, every admitted request completed
	stopped            bool // the requester was shut down with the stream still in progress
	inFlight, blocking int64
	table              int
	stashLeft          bool
	stalled            bool // idle with an empty mailbox although work is missing (three consecutive observations)
	sentIDs            []int
}

func c16Exec(x *vfkit.X, c c16Case) {
	ctx := context.Background()
	seq := c16Seq.Add(1)
	run := &c16Run{reqs: map[int]*c16ReqState{}, thenEarly: map[int]bool{}, env: &c16Env{grain: c16GrainID}}
	var spawned []*PID
	defer func() {
		vfsched.SetNoise(0, 0, 0)
		c16Cur.Store(nil)
		for _, p := range spawned {
			if p.IsRunning() {
				_ = p.Shutdown(ctx)
			}
		}
	}()
	for i := 0; i < c.Responders; i++ {
		p, err := c16Sys.Spawn(ctx, fmt.Sprintf("c16-r-%d-%d", seq, i), c16Responder{})
		if err != nil {
			x.Failf("harness-spawn", "spawn responder: %v", err)
		}
		spawned = append(spawned, p)
		run.env.responders = append(run.env.responders, p)
	}
	req, err := c16Sys.Spawn(ctx, fmt.Sprintf("c16-q-%d", seq), &c16Requester{run: run},
		WithReentrancy(reentrancy.New(reentrancy.WithMode(c16ModeOf(c.Mode)), reentrancy.WithMaxInFlight(c.MaxInFlight))))
	if err != nil {
		x.Failf("harness-spawn", "spawn requester: %v", err)
	}
	spawned = append(spawned, req)
	run.pid.Store(req)
	c16Cur.Store(run)
	vfsched.SetNoise(c.NoiseSeed, c.NoiseProb, c.NoiseSleep)

	// ---- drive ----
	var fin c16Final
	var wg sync.WaitGroup
	if len(c.Second) > 0 {
		wg.Add(1)
		go func() {
			defer wg.Done()
			for _, n := range c.Second {
				_ = Tell(ctx, req, &c16Msg{cmd: &c16Cmd{Kind: c16CmdOrd, N: n}, id: n})
				c16Spin(150)
			}
		}()
		fin.sentIDs = append(fin.sentIDs, c.Second...)
	}
	extCancel := func(k int) {
		run.mu.Lock()
		q := run.reqs[k]
		run.mu.Unlock()
		if q != nil && q.call != nil {
			_ = q.call.Cancel()
		}
	}
	sendFailed := false
	for i := range c.Cmds {
		if sendFailed {
			break
		}
		cmd := &c.Cmds[i]
		switch cmd.Kind {
		case c16CmdPause:
			c16Spin(cmd.PauseUS)
		case c16CmdExtCancel:
			extCancel(cmd.K)
		default:
			id := c16IDCmd + i
			if cmd.Kind == c16CmdOrd {
				id = cmd.N
			}
			if err := Tell(ctx, req, &c16Msg{cmd: cmd, id: id}); err != nil {
				// the requester is not running any more (its handler panicked and the
				// supervisor stopped it): the log says why; nothing more is sent
				sendFailed = true
				break
			}
			fin.sentIDs = append(fin.sentIDs, id)
		}
	}
	wg.Wait()
	sent := int64(len(fin.sentIDs))
	if sendFailed {
		vfsched.SetNoise(0, 0, 0)
		for i := 0; run.owner.Load() != 0 && i < 20000; i++ {
			time.Sleep(100 * time.Microsecond)
		}
		x.Class("requester_not_running_mid_stream")
		c16Judge(x, c, run, fin) // judges the log (a panic in the request API is reported there)
		return
	}

	switch c.Shutdown {
	case 2:
		// stop from outside, with whatever is pending
		_ = req.Shutdown(ctx)
		fin.stopped = true
		x.Class("shutdown_from_outside")
	case 1:
		_ = Tell(ctx, req, &c16Msg{stop: true, id: c16IDStop})
		x.Class("shutdown_from_inside")
	}

	// ---- drain: whatever is still outstanding is cancelled from outside until the
	// requester has handled every message and every admitted request has completed
	// (or, with a stop message in the stream, until the requester has stopped) ----
	quiet := func() bool {
		if c.Shutdown != 0 {
			return !req.IsRunning()
		}
		return run.handled.Load() >= sent && run.cbTotal.Load() >= run.accepted.Load()
	}
	deadline := time.Now().Add(c16QuiesceCap)
	grace := time.Now().Add(15 * time.Millisecond)
	stalls := 0
	for !quiet() && time.Now().Before(deadline) && !run.panicked.Load() {
		time.Sleep(500 * time.Microsecond)
		if !time.Now().After(grace) || c.Shutdown == 2 {
			continue
		}
		run.mu.Lock()
		var pend []*c16ReqState
		for _, q := range run.reqs {
			if q.accepted && q.callbacks == 0 && !q.drained {
				q.drained = true
				pend = append(pend, q)
			}
		}
		run.mu.Unlock()
		for _, q := range pend {
			_ = q.call.Cancel()
		}
		// Stall, decided from state only: every pending request has been cancelled (Cancel
		// enqueues the cancellation before it returns), the requester is idle with an empty
		// mailbox and nobody is inside its code, yet messages or completions are missing.
		if c.Shutdown == 0 && len(pend) == 0 && run.owner.Load() == 0 && req.schedState.Load() == dispatchIdle && req.mailbox.IsEmpty() && !quiet() {
			stalls++
			if stalls >= 3 {
				fin.stalled = true
				break
			}
			time.Sleep(2 * time.Millisecond)
		} else {
			stalls = 0
		}
	}
	ok := quiet()
	if ok && c.Shutdown == 0 {
		// one more turn: the requester is idle again afterwards
		mk := make(chan struct{})
		if Tell(ctx, req, &c16Msg{marker: mk, id: c16IDMarker}) == nil {
			select {
			case <-mk:
			case <-time.After(c16QuiesceCap):
				ok = false
			}
		}
		for i := 0; ok && run.owner.Load() != 0 && i < 20000; i++ {
			time.Sleep(100 * time.Microsecond)
		}
	}
	if c.Shutdown != 0 {
		fin.stopped = ok
		// a handler that was running when the stop came from outside may still be finishing
		for i := 0; run.owner.Load() != 0 && i < 20000; i++ {
			time.Sleep(100 * time.Microsecond)
		}
	} else {
		fin.settled = ok
	}
	if !ok {
		x.Class("inconclusive_not_quiescent")
	}
	if fin.settled {
		if st := req.reentrancy.Load(); st != nil {
			fin.inFlight, fin.blocking, fin.table = st.inFlightCount.Load(), st.blockingCount.Load(), st.requestStates.Len()
		}
		if ss := req.stashState; ss != nil && ss.box != nil {
			fin.stashLeft = !ss.box.IsEmpty()
		}
	}
	vfsched.SetNoise(0, 0, 0)
	c16Judge(x, c, run, fin)
}

// ---- oracle -----------------------------------------------------------------------------------
//
// Model (from the property and the doc comments of Request / RequestCall /
// WithReentrancyMode / WithRequestTimeout / reentrancy.WithMaxInFlight):
//   outstanding : admitted requests whose continuation has not run yet. A request is
//                 registered from its admission to its completion, and the completion
//                 (reply, error, timeout, cancellation) runs the continuation in the same
//                 step of the requester's turn, so this is the in-flight set as the
//                 requester can observe it.
//   admission   : with a limit L > 0, a request is admitted iff fewer than L are outstanding,
//                 otherwise rejected with ErrReentrancyInFlightLimit.
//   blocking    : while a request whose effective mode is StashNonReentrant is outstanding,
//                 no message of the harness is handled; such messages are held and, once the
//                 last blocking request has completed, handled in the order they were held.

func c16Judge(x *vfkit.X, c c16Case, run *c16Run, fin c16Final) {
	run.mu.Lock()
	events := append([]c16Event(nil), run.events...)
	reqs := run.reqs
	run.mu.Unlock()
	name := func(id int) string {
		switch {
		case id == c16IDStop:
			return "stop"
		case id == c16IDMarker:
			return "marker"
		case id >= c16IDCmd:
			return fmt.Sprintf("cmd#%d", id-c16IDCmd)
		}
		return fmt.Sprintf("ordinary%d", id)
	}
	dump := func() {
		for i, e := range events {
			switch e.kind {
			case c16EvHandle:
				x.Logf("%03d handle %s %s", i, name(e.id), e.overlap)
			case c16EvIssue:
				q := reqs[e.k]
				x.Logf("%03d   issue k=%d via=%d resp=%d script=%s timeout=%d/%dus mode=%d thenLater=%v accepted=%v err=%v inFlightCounter=%d", i, e.k, q.spec.Via, q.spec.Resp, c16ScriptNames[q.spec.Script], q.spec.Timeout, q.spec.TimeoutUS, q.spec.Mode, q.spec.ThenLater, e.accepted, e.err, e.inFlight)
			case c16EvCallback:
				x.Logf("%03d continuation k=%d token=%d err=%v onTurn=%v %s", i, e.k, e.token, e.err, e.onTurn, e.overlap)
			case c16EvHeld:
				x.Logf("%03d held %s", i, name(e.id))
			case c16EvThen:
				x.Logf("%03d   then k=%d", i, e.k)
			case c16EvPanic:
				x.Logf("%03d PANIC while handling %s: %s", i, name(e.id), e.overlap)
			}
		}
	}
	fail := func(fp, format string, args ...any) {
		dump()
		x.Failf(fp, format, args...)
	}
	effMode := func(q *c16ReqState) int {
		if q.spec.Mode != c16ModeDefault {
			return q.spec.Mode
		}
		return c.Mode
	}
	cancelable := map[int]bool{} // a Cancel command targets the request
	for _, cmd := range c.Cmds {
		if cmd.Kind == c16CmdCancel || cmd.Kind == c16CmdExtCancel {
			cancelable[cmd.K] = true
		}
	}
	stopSeen := map[int]bool{} // the responder was sent a stop script
	outstanding := map[int]bool{}
	var stash []int     // model of the held messages, in the order they were held
	var batches [][]int // released batches, members not seen again yet
	handledN := map[int]int{}
	outcomes := map[string]bool{}
	overlapped, heldWhileBlocking := false, false
	blockingOutstanding := func() int {
		n := 0
		for k := range outstanding {
			if effMode(reqs[k]) == c16ModeStash {
				n++
			}
		}
		return n
	}
	seen := func(id int) {
		// id is handled or held again: it must be the oldest unseen member of its batch
		for bi, b := range batches {
			for j, m := range b {
				if m != id {
					continue
				}
				if j != 0 {
					fail("request-held-messages-released-out-of-order", "%s came back before %s, which was held earlier", name(id), name(b[0]))
				}
				batches[bi] = b[1:]
				return
			}
		}
	}
	// lenient: the requester is being (or has been) shut down. The stop cancels what is
	// pending, resets the counters and lets later calls fail; only the rules that
	// hold regardless are applied from then on. With a stop from outside the moment is
	// unknown, so the whole log is judged leniently (and the turn checks are skipped:
	// an off-turn stop racing a running handler is a listed system-level issue).
	lenient := c.Shutdown == 2
	offTurnJudged := c.Shutdown != 2
	for _, e := range events {
		switch e.kind {
		case c16EvHandle:
			if e.id == c16IDStop {
				lenient = true
			}
			if e.overlap != "" && offTurnJudged {
				fail("request-handler-ran-concurrently", "Receive of the requester started while other requester code was running: %s", e.overlap)
			}
			if e.id == c16IDMarker {
				continue
			}
			if n := blockingOutstanding(); n > 0 && !lenient {
				fail("request-message-handled-while-blocking", "%s was handled while %d blocking request(s) were outstanding", name(e.id), n)
			}
			seen(e.id)
			handledN[e.id]++
			if handledN[e.id] > 1 {
				fail("request-message-handled-twice", "%s was handled %d times", name(e.id), handledN[e.id])
			}
		case c16EvIssue:
			q := reqs[e.k]
			if q.spec.Mode == c16ModeOff && !lenient {
				// documented: "If mode is reentrancy.Off, the request is rejected with ErrReentrancyDisabled"
				targetGone := q.spec.Via != c16ViaGrain && stopSeen[q.spec.Resp] // ErrDead / not found is checked first
				if e.accepted || !(errors.Is(e.err, gerrors.ErrReentrancyDisabled) || (targetGone && e.err != nil)) {
					fail("request-mode-off-not-rejected", "request k=%d carries WithReentrancyMode(Off): accepted=%v err=%v", e.k, e.accepted, e.err)
				}
				x.Class("rejected_mode_off")
				continue
			}
			if e.accepted {
				if c.MaxInFlight > 0 && len(outstanding) >= c.MaxInFlight && !lenient {
					fail("request-in-flight-limit-exceeded", "request k=%d was admitted although %d requests were already in flight (limit %d)", e.k, len(outstanding), c.MaxInFlight)
				}
				outstanding[e.k] = true
				if q.spec.Script == c16ScriptStop {
					stopSeen[q.spec.Resp] = true
				}
				if len(outstanding) >= 2 {
					x.Class("overlapping_requests")
					overlapped = true
				}
				if effMode(q) == c16ModeStash {
					x.Class("blocking_request")
					if q.spec.Mode == c16ModeStash && c.Mode != c16ModeStash {
						x.Class("blocking_by_per_call_mode")
					}
				}
				continue
			}
			switch {
			case lenient && e.err != nil:
				x.Class("rejected_requester_stopping")
			case errors.Is(e.err, gerrors.ErrReentrancyInFlightLimit):
				if c.MaxInFlight == 0 || len(outstanding) < c.MaxInFlight {
					fail("request-rejected-below-in-flight-limit", "request k=%d was rejected with ErrReentrancyInFlightLimit with %d request(s) in flight (limit %d)", e.k, len(outstanding), c.MaxInFlight)
				}
				x.Class("rejected_in_flight_limit")
			case q.spec.Via != c16ViaGrain && stopSeen[q.spec.Resp]:
				x.Class("rejected_target_stopped")
			case e.err == nil:
				fail("request-nil-call-without-error", "Request returned a nil call and recorded no error (k=%d)", e.k)
			default:
				fail("request-rejected-unexpectedly", "request k=%d was rejected with %v", e.k, e.err)
			}
		case c16EvThen:
		case c16EvPanic:
			fp := "request-api-panicked"
			if strings.Contains(e.overlap, ").ActorOf(") && strings.Contains(e.overlap, "nil pointer dereference") {
				fp = c16FpActorOfNil
			}
			if x.Known(fp) {
				// the supervisor has dealt with the requester: nothing else can be judged
				x.Class("excluded_known_actorof_nil_pid")
				return
			}
			fail(fp, "the requester's handler of %s panicked inside the request API: %s", name(e.id), strings.SplitN(e.overlap, "\n", 2)[0])
		case c16EvCallback:
			q := reqs[e.k]
			if !outstanding[e.k] {
				fail("request-continuation-ran-twice", "the continuation of request k=%d ran again (or ran for a request that was never admitted)", e.k)
			}
			delete(outstanding, e.k)
			if e.overlap != "" && offTurnJudged {
				fail("request-continuation-off-turn", "the continuation of k=%d ran while other requester code was running: %s", e.k, e.overlap)
			}
			if !e.onTurn && offTurnJudged {
				fail("request-continuation-off-turn", "the continuation of k=%d ran while the requester was not being processed by a dispatcher worker", e.k)
			}
			switch {
			case e.err == nil:
				if e.token != q.token {
					fail("request-foreign-reply", "the continuation of k=%d (token %d) received token %d", e.k, q.token, e.token)
				}
				if q.spec.Script == c16ScriptNever || q.spec.Script == c16ScriptStop {
					fail("request-reply-never-given", "k=%d completed with a reply although its responder never replies", e.k)
				}
				outcomes["reply"] = true
			case errors.Is(e.err, gerrors.ErrRequestTimeout):
				if q.spec.Timeout == c16TimeoutNone {
					fail("request-timeout-without-timeout", "k=%d has no timeout but completed with ErrRequestTimeout", e.k)
				}
				outcomes["timeout"] = true
			case errors.Is(e.err, gerrors.ErrRequestCanceled):
				if !cancelable[e.k] && !q.drained && !lenient {
					fail("request-canceled-without-cancel", "k=%d completed with ErrRequestCanceled although nobody cancelled it", e.k)
				}
				outcomes["canceled"] = true
			default:
				fail("request-unexpected-error", "k=%d completed with %v", e.k, e.err)
			}
			if blockingOutstanding() == 0 && len(stash) > 0 {
				// the last blocking request completed: everything held is released, in order
				batches = append(batches, stash)
				stash = nil
			}
		case c16EvHeld:
			if blockingOutstanding() == 0 && !lenient {
				fail("request-message-held-without-blocking-request", "%s was held back although no blocking request is outstanding", name(e.id))
			}
			seen(e.id)
			stash = append(stash, e.id)
			heldWhileBlocking = true
		}
	}
	if len(outcomes) >= 2 {
		x.Class("two_outcome_kinds")
	}
	for k := range outcomes {
		x.Class("outcome_" + k)
	}
	if heldWhileBlocking {
		x.Class("message_held_by_blocking_request")
	}
	if (overlapped && len(outcomes) >= 2) || heldWhileBlocking {
		x.NonTrivial()
	}
	if fin.stalled {
		// which of the two is it?
		for k, q := range reqs {
			if !q.accepted || q.callbacks != 0 {
				continue
			}
			if h, ok := q.call.(*requestHandle); ok && h.state != nil {
				h.state.mu.Lock()
				completed, registered := h.state.completed, h.state.callback != nil
				h.state.mu.Unlock()
				if completed && registered {
					fail("request-continuation-never-ran", "request k=%d is completed and has a continuation registered, the requester is idle with an empty mailbox, and the continuation never ran", k)
				}
				fail("request-never-completed", "request k=%d was admitted and cancelled, the requester is idle with an empty mailbox, and the request never completed (completed=%v continuation registered=%v)", k, completed, registered)
			}
		}
		for _, id := range fin.sentIDs {
			if handledN[id] == 0 {
				fail("request-message-lost", "%s was never handled although the requester is idle with an empty mailbox and no request is outstanding", name(id))
			}
		}
	}
	if !fin.settled {
		return
	}
	for k, q := range reqs {
		if q.accepted && q.callbacks != 1 {
			fail("request-continuation-count", "request k=%d was admitted and its continuation ran %d times", k, q.callbacks)
		}
	}
	for _, id := range fin.sentIDs {
		if handledN[id] != 1 {
			fail("request-message-lost", "%s was handled %d times although the requester went quiet", name(id), handledN[id])
		}
	}
	if fin.inFlight != 0 || fin.blocking != 0 || fin.table != 0 {
		fail("request-counters-not-zero-at-quiescence", "every request completed but inFlightCount=%d blockingCount=%d registered=%d", fin.inFlight, fin.blocking, fin.table)
	}
	if fin.stashLeft {
		fail("request-held-messages-left-behind", "every request completed but the stash still holds messages")
	}
}

func TestVF_C16_requests(t *testing.T) {
	c16Start(t)
	vfkit.Run(t, vfkit.Spec[c16Case]{
		ID: "C16", Unit: "requests",
		Rule: "cases = command streams (2..24 commands: bursts of 1..5 Request/RequestName/RequestGrain with timeout none/0.3..20ms/5s, per-call mode, late Then; Cancel from inside and outside; numbered ordinary messages, optionally from two goroutines; optional shutdown of the requester from inside or outside) to a fresh requester (AllowAll or StashNonReentrant, in-flight limit 0/1/2/4) against 1..3 responder actors and a grain with scripts now/late/never/twice/stop; seeded schedule noise; non-trivial = >=2 overlapping requests with two different outcome kinds, or a message held back by a blocking request; distinct = distinct cases",
		Gen:  c16Gen, Exec: c16Exec,
		ReplayReps: 30,
	})
}

//go:build verif

package actor

// vfC16StashHook is called at the top of PID.stash (prologue injected by the build
// overlay of check C16): the dispatcher (blocking request outstanding) or the user
// (ReceiveContext.Stash) is putting the message aside.
var vfC16StashHook func(pid *PID, ctx *ReceiveContext)

//go:build verif

package actor

// Fault / observation hooks of check C43. This file is NOT a test file: the
// prologues the rewriter injects into the reliable-delivery controllers
// (check.json -> rewrite.prologues) land in non-test files and need these
// variables. Both are assigned once, before the actor system starts, and never
// changed afterwards; every call dispatches to the harness of the case that
// owns the calling controller (or passes through when there is none).

// c43TellHook is consulted first thing by producerController.tell (role 0) and
// consumerController.tell (role 1). It returns true when the harness took over
// the send (dropped, duplicated, held or delivered the message itself).
var c43TellHook func(role int, ctrl any, self, to *PID, message any) bool

// c43ObsHook observes controller-internal events on the controller's own turn:
// kind 1 = consumerController.handleConfirmed entry, 2 = producerController.terminate,
// 3 = consumerController.fail, 4 = consumerController.handleTick entry,
// 5 = consumerController.handleSequencedMessage entry.
var c43ObsHook func(kind int, ctrl any, sender *PID, message any)

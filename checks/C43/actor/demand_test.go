//go:build verif

package actor

import (
	"context"
	"encoding/json"
	"fmt"
	"strings"
	"sync"
	"sync/atomic"
	"testing"
	"time"

	"pgregory.net/rapid"

	"github.com/tochemey/goakt/v4/internal/commands"
	"github.com/tochemey/goakt/v4/internal/vfkit"
	"github.com/tochemey/goakt/v4/internal/vfsched"
	"github.com/tochemey/goakt/v4/log"
	"github.com/tochemey/goakt/v4/test/data/testpb"
)

// ---------------------------------------------------------------------------
// C43: the producer never outruns the consumer's demand. Same runs as C42 (a real
// producer endpoint / consumer endpoint pair on a real ActorSystem, generated
// fault plan applied where the two controllers send to each other), judged by a
// separate oracle: at the producer-side hook every outgoing SequencedMessage has
// seq <= the highest RequestUpToSeq the consumer controller has SENT so far
// (received is a subset of sent, so this is necessary whatever was dropped,
// duplicated or delayed), and on the consumer controller's own turns its receive
// buffer never holds more than the configured window. Ordering / liveness
// violations are C42's business and only counted as classes here.
// ---------------------------------------------------------------------------

// decisions of a fault plan entry
const (
	c43Deliver = 0
	c43Drop    = 1
	c43Dup     = 2
	c43Hold    = 10 // c43Hold+k: hold back until k later messages of the same direction have passed
)

// cross-controller message types
const (
	c43TRegister = iota // consumer controller -> producer controller
	c43TRequest
	c43TAck
	c43TRegAck // producer controller -> consumer controller
	c43TSeq
	c43NTypes
)

var c43TypeNames = [c43NTypes]string{"RegisterConsumer", "Request", "Ack", "RegistrationAck", "SequencedMessage"}

// c43FpRegistrationRaise is the fingerprint of finding F-C43-1 (see FINDINGS.md).
const c43FpRegistrationRaise = "registration-reset-raises-demand-beyond-requested"

const (
	c43StallLimit = 300              // fault-free controller messages without progress
	c43WallCap    = 25 * time.Second // per execution; exhausting it is inconclusive
)

type c43Plan struct {
	Register []int `json:"register"`
	Request  []int `json:"request"`
	Ack      []int `json:"ack"`
	RegAck   []int `json:"reg_ack"`
	Seq      []int `json:"seq"`
}

func (p *c43Plan) of(typ int) []int {
	switch typ {
	case c43TRegister:
		return p.Register
	case c43TRequest:
		return p.Request
	case c43TAck:
		return p.Ack
	case c43TRegAck:
		return p.RegAck
	default:
		return p.Seq
	}
}

type c43Case struct {
	N             int     `json:"n"`
	Window        int     `json:"window"`
	Chunking      bool    `json:"chunking"`
	Sizes         []int   `json:"sizes"`      // content bytes of message i
	ResendMs      int     `json:"resend_ms"`  // consumer controller tick
	RetryMs       int     `json:"retry_ms"`   // producer controller tick
	FeedMs        []int   `json:"feed_ms"`    // pause before message i is handed to the producer endpoint
	ConfirmMs     []int   `json:"confirm_ms"` // processing time of message i at the consumer endpoint
	AckMs         []int   `json:"ack_ms"`     // time the producer endpoint takes between Stored and StoredAck for message i (retention handoff)
	Skip          []int   `json:"skip"`       // number of presentations of message i the consumer leaves unconfirmed
	ConsumerFirst bool    `json:"consumer_first"`
	Horizon       int     `json:"horizon"` // faults apply to the first Horizon messages of each direction
	Plan          c43Plan `json:"plan"`
	NoiseSeed     uint64  `json:"noise_seed"`
	NoiseProb     float64 `json:"noise_prob"`
	NoiseSleep    int     `json:"noise_sleep"`
}

func c43GenDecision(t *rapid.T, label string) int {
	switch rapid.IntRange(0, 9).Draw(t, label) {
	case 0, 1, 2, 3:
		return c43Drop
	case 4, 5, 6:
		return c43Dup
	default:
		return c43Hold + rapid.IntRange(1, 6).Draw(t, label+"_k")
	}
}

func c43Gen(t *rapid.T) c43Case {
	var c c43Case
	maxN := 12
	if vfkit.Thorough() {
		maxN = 30
	}
	c.N = rapid.OneOf(rapid.IntRange(1, 6), rapid.IntRange(1, maxN)).Draw(t, "n")
	c.Window = rapid.SampledFrom([]int{1, 2, 2, 5, 5, 50}).Draw(t, "window")
	c.Chunking = rapid.IntRange(0, 1).Draw(t, "chunking") == 0
	maxChunks := 1
	if c.Chunking {
		maxChunks = min(c.Window, 5)
	}
	for i := 0; i < c.N; i++ {
		size := rapid.IntRange(1, 64).Draw(t, "size")
		if maxChunks > 1 && rapid.IntRange(0, 2).Draw(t, "big") == 0 {
			// frame = content + a small header; 1 100 bytes per chunk keeps the count exact
			chunks := rapid.IntRange(2, maxChunks).Draw(t, "chunks")
			size = (chunks-1)*1024 + 200
		}
		c.Sizes = append(c.Sizes, size)
	}
	c.ResendMs = rapid.IntRange(10, 30).Draw(t, "resend_ms")
	c.RetryMs = rapid.IntRange(10, 30).Draw(t, "retry_ms")
	feedMode := rapid.SampledFrom([]int{0, 0, 0, 1, 2}).Draw(t, "feed_mode")
	confMode := rapid.IntRange(0, 3).Draw(t, "confirm_mode")
	ackMode := rapid.IntRange(0, 1).Draw(t, "ack_mode")
	for i := 0; i < c.N; i++ {
		f, d, s, a := 0, 0, 0, 0
		switch feedMode {
		case 1:
			f = rapid.IntRange(0, 3).Draw(t, "feed_ms")
		case 2:
			f = rapid.SampledFrom([]int{0, 0, 0, 1, 5, 20}).Draw(t, "feed_ms")
		}
		switch confMode {
		case 1:
			d = rapid.IntRange(0, 3).Draw(t, "confirm_ms")
		case 2:
			d = rapid.SampledFrom([]int{0, 0, 0, 1, 5, 20}).Draw(t, "confirm_ms")
		}
		if rapid.IntRange(0, 7).Draw(t, "skip") == 0 {
			s = rapid.IntRange(1, 2).Draw(t, "skip_n")
		}
		if ackMode == 1 {
			a = rapid.SampledFrom([]int{0, 0, 1, 5, 15, 30}).Draw(t, "ack_ms")
		}
		c.FeedMs, c.ConfirmMs, c.Skip, c.AckMs = append(c.FeedMs, f), append(c.ConfirmMs, d), append(c.Skip, s), append(c.AckMs, a)
	}
	c.ConsumerFirst = rapid.Bool().Draw(t, "consumer_first")
	c.Horizon = rapid.IntRange(30, 120).Draw(t, "horizon")

	// fault plan: 2..15 faults. One SequencedMessage fault among the first N and one
	// dropped/held Request at an early index are placed by construction (the
	// non-triviality rule); the rest is spread over all five message types.
	budget := rapid.IntRange(2, 15).Draw(t, "faults")
	lens := [c43NTypes]int{6, 8, 6, 6, c.N + 8}
	plans := [c43NTypes][]int{}
	for ty := 0; ty < c43NTypes; ty++ {
		plans[ty] = make([]int, lens[ty])
	}
	plans[c43TSeq][rapid.IntRange(0, c.N-1).Draw(t, "seq_drop_at")] = rapid.SampledFrom([]int{c43Drop, c43Dup, c43Hold + 2}).Draw(t, "seq_fault")
	plans[c43TRequest][rapid.IntRange(0, 5).Draw(t, "req_at")] = rapid.SampledFrom([]int{c43Drop, c43Drop, c43Hold + 1, c43Hold + 3, c43Hold + 6}).Draw(t, "req_fault")
	for i := 2; i < budget; i++ {
		ty := rapid.SampledFrom([]int{c43TRegister, c43TRegister, c43TRequest, c43TRequest, c43TRequest, c43TAck, c43TRegAck, c43TSeq, c43TSeq}).Draw(t, "fault_type")
		at := rapid.IntRange(0, lens[ty]-1).Draw(t, "fault_at")
		if plans[ty][at] == c43Deliver {
			plans[ty][at] = c43GenDecision(t, "fault")
		}
	}
	trim := func(p []int) []int {
		for len(p) > 0 && p[len(p)-1] == c43Deliver {
			p = p[:len(p)-1]
		}
		return p
	}
	c.Plan = c43Plan{Register: trim(plans[c43TRegister]), Request: trim(plans[c43TRequest]), Ack: trim(plans[c43TAck]), RegAck: trim(plans[c43TRegAck]), Seq: trim(plans[c43TSeq])}

	c.NoiseSeed = rapid.Uint64().Draw(t, "noise_seed")
	c.NoiseProb = rapid.SampledFrom([]float64{0, 0, 0.01, 0.05, 0.2}).Draw(t, "noise_prob")
	c.NoiseSleep = rapid.SampledFrom([]int{0, 50, 300}).Draw(t, "noise_sleep")
	return c
}

// ---------------------------------------------------------------------------
// per-execution harness state

type c43Held struct {
	self, to *PID
	msg      any
	left     int
	typ      int
}

type c43Dir struct {
	count int
	held  []c43Held
}

type c43Violation struct {
	fp, msg string
}

type c43Run struct {
	c        *c43Case
	prodName string
	consName string
	ids      []string
	contents []string

	mu          sync.Mutex
	hist        []string
	dirs        [2]c43Dir // 0: producer controller -> consumer controller, 1: the reverse
	typeCount   [c43NTypes]int
	applied     [c43NTypes][3]int // drop, dup, hold actually applied per type
	released    int
	outstanding [2]int // controller->endpoint messages not yet handled (0 producer endpoint, 1 consumer endpoint)
	quiet       int    // fault-free controller messages since the last progress
	backlogged  int    // fault-free controller messages not counted because a controller mailbox was backlogged
	fedSeen     int
	restarted   bool

	// consumer-controller side history
	presented   int   // number of distinct messages presented so far
	curSeq      int64 // seq of the latest first presentation
	anyChunked  bool
	ctrlConf    map[int64]bool // consumer controller handled Confirmed(seq) from its endpoint
	represented int
	presCount   map[int64]int // presentations per seq, as received by the consumer endpoint
	consConf    map[string]bool
	storedSeq   map[string]int64
	prodConf    map[string]int
	prodConfN   int

	// demand oracle
	maxSentUpTo   int64 // highest RequestUpToSeq the consumer controller has sent (before any fault is applied)
	maxEmitted    int64 // highest SequencedMessage seq the producer controller emitted
	raisedTo      int64 // demandUpTo observed right after a registration, when it exceeded everything requested (F-C43-1)
	knownShape    int   // emissions excused because they match the listed finding F-C43-1
	atBound       bool  // a SequencedMessage was emitted with seq == the highest requested sequence at that moment
	demandLimited bool  // the producer endpoint had a backlog while the controller had no demand left
	bufMax        int   // largest consumer-controller buffer observed
	storedN       int
	terminated    string

	viol    *c43Violation
	failCh  chan struct{}
	stallCh chan struct{}
	doneCh  chan struct{}
	stalled bool
	done    bool
}

var c43Runs sync.Map // endpoint name -> *c43Run

func (r *c43Run) logf(format string, args ...any) {
	if len(r.hist) < 1500 {
		r.hist = append(r.hist, fmt.Sprintf(format, args...))
	}
}

// fail records the first violation (mu held).
func (r *c43Run) fail(fp, format string, args ...any) {
	if r.viol != nil {
		return
	}
	r.viol = &c43Violation{fp: fp, msg: fmt.Sprintf(format, args...)}
	r.logf("VIOLATION %s: %s", fp, r.viol.msg)
	close(r.failCh)
}

func (r *c43Run) progress() { r.quiet = 0 }

// quietStep counts one fault-free controller message (mu held). Messages sent
// while a controller mailbox is backlogged are not counted: on an overloaded
// machine a controller that cannot keep up with its peer's ticks answers stale
// registrations for ever, which is starvation, not a protocol stall.
func (r *c43Run) quietStep(self, to *PID) {
	if r.done || r.stalled {
		return
	}
	if self.mailbox.Len() > 2 || to.mailbox.Len() > 2 {
		r.backlogged++
		return
	}
	h := r.c.Horizon
	if r.dirs[0].count <= h || r.dirs[1].count <= h || len(r.dirs[0].held)+len(r.dirs[1].held) > 0 {
		return // the fault budget is not spent yet
	}
	if r.fedSeen < r.c.N || r.outstanding[0] > 0 || r.outstanding[1] > 0 {
		return // an endpoint still has work in its hands
	}
	r.quiet++
	if r.quiet >= c43StallLimit {
		r.stalled = true
		r.logf("STALL: %d fault-free controller messages without progress", r.quiet)
		close(r.stallCh)
	}
}

func c43Classify(message any) int {
	switch message.(type) {
	case *commands.RegisterConsumer:
		return c43TRegister
	case *commands.Request:
		return c43TRequest
	case *commands.Ack:
		return c43TAck
	case *commands.RegistrationAck:
		return c43TRegAck
	case *commands.SequencedMessage:
		return c43TSeq
	}
	return -1
}

func c43Describe(message any) string {
	switch m := message.(type) {
	case *commands.RegisterConsumer:
		return "RegisterConsumer(" + m.Nonce()[:4] + ")"
	case *commands.RegistrationAck:
		return fmt.Sprintf("RegistrationAck(next=%d,%s)", m.NextSeq(), m.Nonce()[:4])
	case *commands.Request:
		return fmt.Sprintf("Request(conf=%d,upTo=%d,timeout=%v,%s)", m.ConfirmedSeq(), m.RequestUpToSeq(), m.ViaTimeout(), m.RegistrationNonce()[:4])
	case *commands.Ack:
		return fmt.Sprintf("Ack(conf=%d,%s)", m.ConfirmedSeq(), m.RegistrationNonce()[:4])
	case *commands.SequencedMessage:
		return fmt.Sprintf("Sequenced(seq=%d,id=%s,chunk=%v/%v/%v)", m.Seq(), m.MessageID(), m.Chunked(), m.FirstChunk(), m.LastChunk())
	case *Delivery:
		return fmt.Sprintf("Delivery(seq=%d,id=%s)", m.Seq(), m.MessageID())
	case *RequestNext:
		return "RequestNext(" + m.Token()[:4] + ")"
	case *Stored:
		return fmt.Sprintf("Stored(seq=%d,id=%s)", m.Seq(), m.MessageID())
	case *DeliveryConfirmed:
		return fmt.Sprintf("DeliveryConfirmed(seq=%d,id=%s)", m.Seq(), m.MessageID())
	}
	return fmt.Sprintf("%T", message)
}

func c43RunOf(ctrl any) *c43Run {
	var ep *PID
	switch c := ctrl.(type) {
	case *producerController:
		ep = c.producer
	case *consumerController:
		ep = c.consumer
	}
	if ep == nil {
		return nil
	}
	if v, ok := c43Runs.Load(ep.Name()); ok {
		return v.(*c43Run)
	}
	return nil
}

func c43Tell(role int, ctrl any, self, to *PID, message any) bool {
	r := c43RunOf(ctrl)
	if r == nil {
		return false
	}
	return r.tell(role, ctrl, self, to, message)
}

func c43Obs(kind int, ctrl any, sender *PID, message any) {
	r := c43RunOf(ctrl)
	if r == nil {
		return
	}
	r.mu.Lock()
	defer r.mu.Unlock()
	switch kind {
	case 1, 4, 5: // consumerController.handleConfirmed / handleTick / handleSequencedMessage entry
		cc := ctrl.(*consumerController)
		if cc.generation > 1 {
			r.restarted = true
		}
		r.checkBuffer(cc)
	case 2: // producerController.terminate (C42 judges it)
		if pc := ctrl.(*producerController); !pc.failed && r.terminated == "" {
			r.terminated = fmt.Sprintf("producer controller: %v", message)
			r.logf("TERMINATED %s", r.terminated)
			if !r.stalled {
				close(r.stallCh)
				r.stalled = true
			}
		}
	case 3: // consumerController.fail (C42 judges it)
		if cc := ctrl.(*consumerController); !cc.failed && r.terminated == "" {
			r.terminated = fmt.Sprintf("consumer controller: %v", message)
			r.logf("TERMINATED %s", r.terminated)
			if !r.stalled {
				close(r.stallCh)
				r.stalled = true
			}
		}
	}
}

// checkBuffer judges the consumer controller's receive buffer on the controller's
// own turn (mu held).
func (r *c43Run) checkBuffer(cc *consumerController) {
	n := len(cc.buffer)
	if n > r.bufMax {
		r.bufMax = n
	}
	if r.restarted {
		return
	}
	if n > r.c.Window || n > MaxReliableFlowControlWindow {
		seqs := []int64{}
		for _, e := range cc.buffer {
			seqs = append(seqs, e.Seq())
		}
		r.fail("consumer-buffer-exceeds-window", "the consumer controller buffers %d sequenced messages, the configured flow-control window is %d (expectedSeq=%d, requestUpToSeq=%d, buffered seqs %v)", n, r.c.Window, cc.expectedSeq, cc.requestUpToSeq, seqs)
	}
}

func (r *c43Run) tell(role int, ctrl any, self, to *PID, message any) bool {
	ctx := context.Background()
	typ := c43Classify(message)
	if typ < 0 {
		// controller -> its own endpoint: never faulted, only observed
		r.mu.Lock()
		r.outstanding[role]++
		if pc, ok := ctrl.(*producerController); ok {
			if pc.generation > 1 {
				r.restarted = true
			}
			r.noteDemand(pc)
		}
		if cc, ok := ctrl.(*consumerController); ok {
			r.checkBuffer(cc)
		}
		if d, ok := message.(*Delivery); ok {
			r.onPresent(d)
		}
		r.mu.Unlock()
		if err := self.Tell(ctx, to, message); err != nil {
			r.mu.Lock()
			r.outstanding[role]--
			r.mu.Unlock()
		}
		return true
	}

	r.mu.Lock()
	switch m := message.(type) {
	case *commands.Request:
		// recorded at the moment the consumer controller sends it, before the fault decision
		if m.RequestUpToSeq() > r.maxSentUpTo {
			r.maxSentUpTo = m.RequestUpToSeq()
		}
	case *commands.SequencedMessage:
		if m.Seq() > r.maxEmitted {
			r.maxEmitted = m.Seq()
		}
		if m.Seq() == r.maxSentUpTo {
			r.atBound = true
		}
		if m.Seq() > r.maxSentUpTo && !r.restarted {
			if m.Seq() <= r.raisedTo {
				// finding F-C43-1: a (re-)registration reset demandUpTo to currentSeq although
				// currentSeq was already beyond everything the consumer had requested
				if vfkit.Known("C43", c43FpRegistrationRaise) {
					r.knownShape++
				} else {
					r.fail(c43FpRegistrationRaise, "the producer controller emitted SequencedMessage seq=%d id=%s, the highest sequence the consumer controller has requested so far is %d; handling RegisterConsumer had set demandUpTo=currentSeq=%d although the stored sequences above %d were never requested", m.Seq(), m.MessageID(), r.maxSentUpTo, r.raisedTo, r.maxSentUpTo)
				}
			} else {
				r.fail("sequenced-message-beyond-requested-demand", "the producer controller emitted SequencedMessage seq=%d id=%s, the highest sequence the consumer controller has requested so far is %d", m.Seq(), m.MessageID(), r.maxSentUpTo)
			}
		}
	case *commands.RegistrationAck:
		// sent right after handleRegisterConsumer (re)set the demand: read it on the controller's turn
		if pc, ok := ctrl.(*producerController); ok && pc.demandUpTo > r.maxSentUpTo && pc.demandUpTo > r.raisedTo {
			r.raisedTo = pc.demandUpTo
			r.logf("PC   registration reset demandUpTo to currentSeq=%d, highest requested so far is %d", pc.demandUpTo, r.maxSentUpTo)
		}
	}
	if cc, ok := ctrl.(*consumerController); ok {
		r.checkBuffer(cc)
	}
	if pc, ok := ctrl.(*producerController); ok {
		r.noteDemand(pc)
	}
	d := &r.dirs[role]
	d.count++
	idx := r.typeCount[typ]
	r.typeCount[typ]++
	dec := c43Deliver
	if plan := r.c.Plan.of(typ); d.count <= r.c.Horizon && idx < len(plan) {
		dec = plan[idx]
	}
	var rel []c43Held
	keep := d.held[:0]
	for _, h := range d.held {
		h.left--
		if h.left <= 0 {
			rel = append(rel, h)
		} else {
			keep = append(keep, h)
		}
	}
	d.held = keep
	sends := 1
	what := ""
	switch {
	case dec == c43Drop:
		sends, what = 0, " DROPPED"
		r.applied[typ][0]++
	case dec == c43Dup:
		sends, what = 2, " DUPLICATED"
		r.applied[typ][1]++
	case dec >= c43Hold:
		sends, what = 0, fmt.Sprintf(" HELD(%d)", dec-c43Hold)
		r.applied[typ][2]++
		d.held = append(d.held, c43Held{self: self, to: to, msg: message, left: dec - c43Hold, typ: typ})
	}
	side := "PC->CC"
	if role == 1 {
		side = "CC->PC"
	}
	r.logf("%s #%d %s[%d]%s", side, d.count, c43Describe(message), idx, what)
	for _, h := range rel {
		r.released++
		r.logf("%s      released %s", side, c43Describe(h.msg))
	}
	if dec == c43Deliver {
		r.quietStep(self, to)
	}
	r.mu.Unlock()

	for i := 0; i < sends; i++ {
		_ = self.Tell(ctx, to, message)
	}
	for _, h := range rel {
		_ = h.self.Tell(ctx, h.to, h.msg)
	}
	return true
}

// noteDemand classifies (never judges): the producer endpoint has messages waiting
// while its controller has used up the demand it was granted (mu held; called on
// the producer controller's turn, so its fields can be read).
func (r *c43Run) noteDemand(pc *producerController) {
	if pc.consumerController != nil && pc.currentSeq >= pc.demandUpTo && r.fedSeen-r.storedN > 0 {
		r.demandLimited = true
	}
}

// onPresent only tracks progress here (C42 judges the order); mu held.
func (r *c43Run) onPresent(d *Delivery) {
	seq := d.Seq()
	switch {
	case seq == r.curSeq && r.presented > 0:
		r.represented++
	case seq > r.curSeq:
		r.logf("CC   presents Delivery(seq=%d,id=%s)", seq, d.MessageID())
		r.presented, r.curSeq = r.presented+1, seq
		r.progress()
	}
}

// ---------------------------------------------------------------------------
// endpoints written to the documented contracts (RELIABLE_DELIVERY.md 5.2 / 5.3)

type c43Submit struct{ idx int }

type c43Producer struct {
	r            *c43Run
	pending      []int
	request      *RequestNext
	ctrl         *PID
	lastToken    string
	lastProduced *Produced
}

func (p *c43Producer) PreStart(*Context) error { return nil }
func (p *c43Producer) PostStop(*Context) error { return nil }

func (p *c43Producer) Receive(ctx *ReceiveContext) {
	r := p.r
	switch msg := ctx.Message().(type) {
	case *c43Submit:
		p.pending = append(p.pending, msg.idx)
		r.mu.Lock()
		r.fedSeen++
		r.progress()
		r.mu.Unlock()
		p.flush(ctx)
	case *RequestNext:
		defer r.localDone(0)
		if !msg.IsAuthorizedFor(ctx.Self(), ctx.Sender()) {
			return
		}
		p.ctrl = ctx.Sender()
		if msg.Token() == p.lastToken && p.lastProduced != nil {
			ctx.Tell(p.ctrl, p.lastProduced) // idempotent answer to a retried grant
			return
		}
		p.request = msg
		p.flush(ctx)
	case *Stored:
		defer r.localDone(0)
		if !msg.IsAuthorizedFor(ctx.Self(), ctx.Sender()) {
			return
		}
		if len(p.pending) > 0 && r.ids[p.pending[0]] == msg.MessageID() {
			if i := p.pending[0]; i < len(r.c.AckMs) && r.c.AckMs[i] > 0 {
				time.Sleep(time.Duration(r.c.AckMs[i]) * time.Millisecond) // durably removing the item takes a while
			}
			p.pending = p.pending[1:] // retention handoff: the head is removed on Stored
			r.mu.Lock()
			r.storedSeq[msg.MessageID()] = msg.Seq()
			r.storedN++
			r.logf("P    Stored(seq=%d,id=%s)", msg.Seq(), msg.MessageID())
			r.progress()
			r.mu.Unlock()
		}
		ack, err := NewStoredAck(msg)
		if err != nil {
			ctx.Err(err)
			return
		}
		ctx.Tell(ctx.Sender(), ack)
	case *DeliveryConfirmed:
		defer r.localDone(0)
		if !msg.IsAuthorizedFor(ctx.Self(), ctx.Sender()) {
			return
		}
		r.onDeliveryConfirmed(msg)
	}
}

func (p *c43Producer) flush(ctx *ReceiveContext) {
	if p.request == nil || len(p.pending) == 0 {
		return
	}
	idx := p.pending[0]
	produced, err := NewProduced(p.request, p.r.ids[idx], &testpb.Reply{Content: p.r.contents[idx]})
	if err != nil {
		ctx.Err(err)
		return
	}
	p.lastToken, p.lastProduced, p.request = p.request.Token(), produced, nil
	ctx.Tell(p.ctrl, produced)
}

func (r *c43Run) localDone(role int) {
	r.mu.Lock()
	r.outstanding[role]--
	r.mu.Unlock()
}

func (r *c43Run) onDeliveryConfirmed(msg *DeliveryConfirmed) {
	r.mu.Lock()
	defer r.mu.Unlock()
	id := msg.MessageID()
	r.logf("P    DeliveryConfirmed(seq=%d,id=%s)", msg.Seq(), id)
	if r.prodConf[id] == 0 {
		r.prodConfN++
		r.progress()
	}
	r.prodConf[id]++
	if r.prodConfN == r.c.N && !r.done {
		r.done = true
		close(r.doneCh)
	}
}

type c43Consumer struct {
	r     *c43Run
	index map[string]int
}

func (c *c43Consumer) PreStart(*Context) error { return nil }
func (c *c43Consumer) PostStop(*Context) error { return nil }

func (c *c43Consumer) Receive(ctx *ReceiveContext) {
	msg, ok := ctx.Message().(*Delivery)
	if !ok {
		return
	}
	r := c.r
	defer r.localDone(1)
	if !msg.IsAuthorizedFor(ctx.Self(), ctx.Sender()) {
		return
	}
	i, known := c.index[msg.MessageID()]
	r.mu.Lock()
	r.presCount[msg.Seq()]++
	n := r.presCount[msg.Seq()]
	r.mu.Unlock()
	if !known {
		return
	}
	if d := r.c.ConfirmMs[i]; d > 0 {
		time.Sleep(time.Duration(d) * time.Millisecond)
	}
	if n <= r.c.Skip[i] {
		r.mu.Lock()
		r.logf("C    leaves presentation %d of seq=%d unconfirmed", n, msg.Seq())
		r.mu.Unlock()
		return // processing failed: the controller must present the message again
	}
	confirmed, err := NewConfirmed(msg)
	if err != nil {
		ctx.Err(err)
		return
	}
	r.mu.Lock()
	if !r.consConf[msg.MessageID()] {
		r.logf("C    sends Confirmed(seq=%d,id=%s)", msg.Seq(), msg.MessageID())
		r.progress()
	}
	r.consConf[msg.MessageID()] = true
	r.mu.Unlock()
	ctx.Tell(ctx.Sender(), confirmed)
}

// ---------------------------------------------------------------------------
// execution

var (
	c43Sys     *actorSystem
	c43Counter atomic.Int64
)

func c43Content(i, size int) string {
	head := fmt.Sprintf("m%03d|", i)
	if size <= len(head) {
		return head[:max(size, 1)]
	}
	return head + strings.Repeat(string(rune('a'+i%26)), size-len(head))
}

const (
	c43Completed = iota
	c43Stalled
	c43Violated
	c43Inconclusive
)

func c43RunOnce(x *vfkit.X, c *c43Case, attempt int) (*c43Run, int) {
	ctx := context.Background()
	n := c43Counter.Add(1)
	r := &c43Run{
		c: c, prodName: fmt.Sprintf("c43-producer-%d", n), consName: fmt.Sprintf("c43-consumer-%d", n),
		ctrlConf: map[int64]bool{}, presCount: map[int64]int{}, consConf: map[string]bool{}, storedSeq: map[string]int64{}, prodConf: map[string]int{},
		failCh: make(chan struct{}), stallCh: make(chan struct{}), doneCh: make(chan struct{}),
	}
	index := map[string]int{}
	for i := 0; i < c.N; i++ {
		r.ids = append(r.ids, fmt.Sprintf("msg-%d-%d", n, i))
		r.contents = append(r.contents, c43Content(i, c.Sizes[i]))
		index[r.ids[i]] = i
	}
	c43Runs.Store(r.prodName, r)
	c43Runs.Store(r.consName, r)
	vfsched.SetNoise(c.NoiseSeed+uint64(attempt), c.NoiseProb, c.NoiseSleep)
	defer vfsched.SetNoise(0, 0, 0)

	popts := []ReliableProducerOption{WithReliableRetryInterval(time.Duration(c.RetryMs) * time.Millisecond), WithReliableDeliveryConfirmation()}
	if c.Chunking {
		popts = append(popts, WithReliableChunking(MinReliableChunkSize))
	}
	copts := []ReliableConsumerOption{WithReliableFlowControlWindow(c.Window), WithReliableResendInterval(time.Duration(c.ResendMs) * time.Millisecond)}
	var producer, consumer *PID
	var err error
	spawnP := func() {
		producer, err = c43Sys.Spawn(ctx, r.prodName, &c43Producer{r: r}, AsReliableProducer(r.consName, popts...))
	}
	spawnC := func() {
		consumer, err = c43Sys.Spawn(ctx, r.consName, &c43Consumer{r: r, index: index}, AsReliableConsumer(r.prodName, copts...))
	}
	first, second := spawnP, spawnC
	if c.ConsumerFirst {
		first, second = spawnC, spawnP
	}
	first()
	if err == nil {
		second()
	}
	defer func() {
		if producer != nil {
			_ = producer.Shutdown(ctx)
		}
		if consumer != nil {
			_ = consumer.Shutdown(ctx)
		}
		c43Runs.Delete(r.prodName)
		c43Runs.Delete(r.consName)
	}()
	if err != nil {
		panic(fmt.Sprintf("c43: spawning the endpoints failed: %v", err))
	}

	stopFeed := make(chan struct{})
	var feeder sync.WaitGroup
	feeder.Add(1)
	go func() {
		defer feeder.Done()
		for i := 0; i < c.N; i++ {
			if d := c.FeedMs[i]; d > 0 {
				select {
				case <-time.After(time.Duration(d) * time.Millisecond):
				case <-stopFeed:
					return
				}
			}
			_ = Tell(ctx, producer, &c43Submit{idx: i})
		}
	}()
	outcome := c43Inconclusive
	timer := time.NewTimer(c43WallCap)
	select {
	case <-r.failCh:
		outcome = c43Violated
	case <-r.doneCh:
		outcome = c43Completed
	case <-r.stallCh:
		outcome = c43Stalled
	case <-timer.C:
	}
	timer.Stop()
	close(stopFeed)
	feeder.Wait()
	if outcome == c43Completed {
		// let the tail of the protocol run (final Ack, late duplicates) and look for late violations
		select {
		case <-r.failCh:
			outcome = c43Violated
		case <-time.After(time.Duration(2*c.ResendMs) * time.Millisecond):
		}
	}
	return r, outcome
}

func c43Exec(x *vfkit.X, c c43Case) {
	// domain guard: a chunked message must fit in the window (otherwise the flow fails by contract)
	chunked := 0
	for i := 0; i < c.N; i++ {
		frame, err := c43Sys.getRemoting().Serializer(&testpb.Reply{}).Serialize(&testpb.Reply{Content: c43Content(i, c.Sizes[i])})
		if err != nil {
			panic(err)
		}
		if c.Chunking && len(frame) > MinReliableChunkSize {
			chunked++
			if (len(frame)+MinReliableChunkSize-1)/MinReliableChunkSize > c.Window {
				x.Class("out_of_domain_chunks_exceed_window")
				return
			}
		}
	}
	x.Class(fmt.Sprintf("window_%d", c.Window))
	if chunked > 0 {
		x.Class("has_chunked_messages")
	}
	if c.ConsumerFirst {
		x.Class("consumer_spawned_first")
	}

	r, outcome := c43RunOnce(x, &c, 0)
	r.mu.Lock()
	defer r.mu.Unlock()
	if r.viol != nil {
		for _, l := range r.hist {
			x.Logf("%s", l)
		}
		x.Failf(r.viol.fp, "%s", r.viol.msg)
	}
	if r.restarted {
		x.Class("out_of_domain_controller_restarted")
		return
	}
	switch {
	case r.terminated != "":
		x.Class("flow_terminated_(judged_by_C42)")
	case outcome == c43Stalled:
		x.Class("stalled_(judged_by_C42)")
		cj, _ := json.Marshal(c)
		fmt.Printf("C43-STALL case=%s\n", cj)
		for _, l := range r.hist[max(0, len(r.hist)-150):] {
			fmt.Println("   ", l)
		}
	case outcome == c43Inconclusive:
		x.Class("inconclusive_wall_cap")
	default:
		x.Class("completed")
	}
	for ty := 0; ty < c43NTypes; ty++ {
		for k, name := range []string{"dropped", "duplicated", "held"} {
			if r.applied[ty][k] > 0 {
				x.Class(c43TypeNames[ty] + "_" + name)
			}
		}
	}
	if r.released > 0 {
		x.Class("held_message_released_later")
	}
	if r.demandLimited {
		x.Class("producer_backlog_while_demand_exhausted")
	}
	if r.knownShape > 0 {
		x.Class("known_finding_F-C43-1_shape_observed_and_excused")
	}
	if r.raisedTo > 0 {
		x.Class("registration_reset_above_requested_demand")
	}
	if r.atBound {
		x.Class("emitted_up_to_the_requested_bound")
	}
	switch {
	case r.bufMax == c.Window:
		x.Class("buffer_reached_window")
	case r.bufMax > 0:
		x.Class("buffer_used")
	}
	reqFault := r.applied[c43TRequest][0] + r.applied[c43TRequest][2]
	if r.demandLimited && reqFault > 0 && r.maxEmitted > 0 {
		x.NonTrivial()
	}
	if r.knownShape > 0 {
		// listed finding: everything else was judged, now let the kit count the hit
		x.Failf(c43FpRegistrationRaise, "listed finding F-C43-1 observed: %d SequencedMessage(s) emitted above the highest requested sequence after a registration reset demandUpTo to currentSeq=%d", r.knownShape, r.raisedTo)
	}
}

func TestVF_C43_demand(t *testing.T) {
	c43TellHook, c43ObsHook = c43Tell, c43Obs
	sys, err := NewActorSystem("c43", WithLogger(log.DiscardLogger))
	if err != nil {
		t.Fatal(err)
	}
	if err := sys.Start(context.Background()); err != nil {
		t.Fatal(err)
	}
	c43Sys = sys.(*actorSystem)
	t.Cleanup(func() { _ = sys.Stop(context.Background()) })

	vfkit.Run(t, vfkit.Spec[c43Case]{
		ID: "C43", Unit: "demand",
		Rule: "same case domain as C42 (workload of 1..30 messages, window in {1,2,5,50} biased to small windows, chunking, feed/confirm delays, tick intervals 10..30 ms, schedule noise, fault plan of 2..15 drop/duplicate/hold-k decisions on the cross-controller messages); non-trivial = at some point the producer endpoint had messages waiting while its controller had used up the granted demand AND a Request was dropped or held back in the same execution AND at least one SequencedMessage was emitted; distinct = distinct case",
		Gen:  c43Gen, Exec: c43Exec, ReplayReps: 20,
	})
}

//go:build verif

package breaker

import (
	"context"
	"fmt"
	"sync/atomic"
	"time"

	"pgregory.net/rapid"
)

// ---- C47: reference state machine of the circuit breaker ---------------------
//
// Written from the property statement and the documentation of the options
// (WithFailureRate, WithMinRequests, WithOpenTimeout, WithWindow,
// WithHalfOpenMaxCalls) and of Execute. It does NOT reproduce the bucket
// arithmetic: the rolling window is bracketed.
//
// Window bracket. With window w split in n buckets of duration g = w/n the
// documentation only promises a granularity of g, so at time `now` an outcome
// recorded at time t
//     must be counted       when t >= now-w+g   (S-)
//     must not be counted   when t <= now-w     (outside S+)
//     may be counted        otherwise,
// and what is counted is always a suffix in time. A verdict ("must be open",
// "must not be open") is only demanded when it holds for every admissible
// suffix.
//
// Resets. The code forgets the window when it enters half-open and when it
// closes again; the documentation is silent. While half-open only the outcomes
// recorded since half-open was entered are evaluated (the property says the
// breaker closes again "when probes succeed", so older failures must not decide
// the fate of a probe). While closed the model accepts every choice of what was
// forgotten at the last recovery (nothing / everything before half-open /
// everything before closing).
//
// Stragglers. An outcome of a call that was admitted in one state period (era)
// and completes in a later one may or may not be counted.
//
// Under min-requests while half-open the documentation does not say whether a
// single successful probe closes or a single failing probe reopens; both the
// "wait for min-requests samples" behaviour and the eager one are accepted.

const (
	c47Closed   = 0
	c47Open     = 1
	c47HalfOpen = 2
)

func c47StateName(s int) string {
	switch s {
	case c47Closed:
		return "closed"
	case c47Open:
		return "open"
	case c47HalfOpen:
		return "half-open"
	}
	return fmt.Sprintf("state(%d)", s)
}

func c47Actual(b *CircuitBreaker) int {
	switch b.State() {
	case Closed:
		return c47Closed
	case Open:
		return c47Open
	case HalfOpen:
		return c47HalfOpen
	}
	return -1
}

// c47Opt is the generated configuration (all values valid for Validate).
type c47Opt struct {
	RateNum       int   `json:"rate_num"` // failure rate threshold = RateNum/RateDen
	RateDen       int   `json:"rate_den"`
	MinReq        int   `json:"min_requests"`
	BucketNs      int64 `json:"bucket_ns"` // window = BucketNs*Buckets (always divisible)
	Buckets       int   `json:"buckets"`
	OpenTimeoutNs int64 `json:"open_timeout_ns"`
	HalfOpenMax   int   `json:"half_open_max"`
}

func (o c47Opt) window() int64 { return o.BucketNs * int64(o.Buckets) }

var c47Rates = [][2]int{{1, 10}, {1, 5}, {1, 4}, {1, 3}, {1, 2}, {1, 2}, {2, 3}, {3, 4}, {9, 10}, {1, 1}, {1, 1}}

func c47GenOpt(t *rapid.T) c47Opt {
	var o c47Opt
	r := rapid.SampledFrom(c47Rates).Draw(t, "rate")
	o.RateNum, o.RateDen = r[0], r[1]
	o.MinReq = rapid.IntRange(1, 6).Draw(t, "min_requests")
	o.BucketNs = rapid.SampledFrom([]int64{int64(time.Millisecond), int64(100 * time.Millisecond), int64(200 * time.Millisecond), int64(time.Second), 1000003}).Draw(t, "bucket")
	o.Buckets = rapid.SampledFrom([]int{1, 2, 2, 3, 5, 5, 10, 10}).Draw(t, "buckets")
	w := o.window()
	switch rapid.IntRange(0, 6).Draw(t, "open_timeout_kind") {
	case 0:
		o.OpenTimeoutNs = o.BucketNs
	case 1:
		o.OpenTimeoutNs = w / 2
	case 2:
		o.OpenTimeoutNs = w
	case 3:
		o.OpenTimeoutNs = 2 * w
	case 4:
		o.OpenTimeoutNs = rapid.Int64Range(1, 3*w).Draw(t, "open_timeout_any")
	case 5:
		o.OpenTimeoutNs = o.BucketNs*int64(rapid.IntRange(1, o.Buckets+1).Draw(t, "open_timeout_k")) + rapid.Int64Range(-1, 1).Draw(t, "open_timeout_off")
	default:
		o.OpenTimeoutNs = 1
	}
	if o.OpenTimeoutNs < 1 {
		o.OpenTimeoutNs = 1
	}
	o.HalfOpenMax = rapid.IntRange(1, 3).Draw(t, "half_open_max")
	return o
}

// c47Clock is the fake clock handed to WithClock.
type c47Clock struct{ ns atomic.Int64 }

const c47Epoch = int64(1_700_000_000) * int64(time.Second)

func c47NewClock() *c47Clock {
	c := &c47Clock{}
	c.ns.Store(c47Epoch)
	return c
}
func (c *c47Clock) Now() time.Time   { return time.Unix(0, c.ns.Load()) }
func (c *c47Clock) now() int64       { return c.ns.Load() }
func (c *c47Clock) advance(d int64)  { c.ns.Add(d) }
func (c *c47Clock) set(abs int64)    { c.ns.Store(abs) }
func c47NewBreaker(o c47Opt, clk *c47Clock) (*CircuitBreaker, error) {
	return NewCircuitBreakerWithValidation(
		WithFailureRate(float64(o.RateNum)/float64(o.RateDen)),
		WithMinRequests(o.MinReq),
		WithWindow(time.Duration(o.window()), o.Buckets),
		WithOpenTimeout(time.Duration(o.OpenTimeoutNs)),
		WithHalfOpenMaxCalls(o.HalfOpenMax),
		WithClock(clk.Now),
	)
}

type c47Outcome struct {
	t        int64
	fail     bool
	optional bool
}

type c47Model struct {
	o     c47Opt
	st    int
	until int64 // end of the open period (valid while st == open)
	era   int   // incremented at every state change
	log   []c47Outcome
	idxHO int // index in log where the last half-open period starts
	idxCl int // index in log where the last recovery (half-open -> closed) happened

	// evidence
	opened, probed, recovered, reopened int
	ambiguous                           int
}

func c47NewModel(o c47Opt) *c47Model { return &c47Model{o: o, st: c47Closed} }

const (
	c47MustRun    = 0
	c47MustReject = 1
	c47Either     = 2
)

// toHalfOpen is applied when a call arrives after the open timeout.
func (m *c47Model) toHalfOpen() {
	m.st = c47HalfOpen
	m.era++
	m.idxHO = len(m.log)
	m.idxCl = len(m.log)
	m.probed++
}

// admit says what must happen to a call arriving at `now` while
// `probesInFlight` admitted probes have not completed yet. If the open timeout
// has passed it moves the model to half-open (the call is the first probe).
func (m *c47Model) admit(now int64, probesInFlight int) int {
	switch m.st {
	case c47Closed:
		return c47MustRun
	case c47Open:
		if now < m.until {
			return c47MustReject
		}
		if now == m.until {
			// "until the open timeout passes": the instant itself is not specified
			return c47Either
		}
		m.toHalfOpen()
	}
	if probesInFlight == 0 {
		return c47MustRun
	}
	if probesInFlight >= m.o.HalfOpenMax {
		return c47MustReject
	}
	return c47Either
}

type c47Verdict struct{ open, healthy, under bool } // which kinds of candidates exist

func (m *c47Model) classify(now int64, starts []int) c47Verdict {
	var v c47Verdict
	w, g := m.o.window(), m.o.BucketNs
	lo := now - w      // t <= lo: never counted
	must := now - w + g // t >= must: always counted
	for _, st := range starts {
		outs := m.log[st:]
		cutoffs := []int64{must}
		for _, o := range outs {
			if o.t > lo && o.t < must {
				cutoffs = append(cutoffs, o.t)
			}
		}
		for _, tau := range cutoffs {
			var ms, mf, os, of int
			for _, o := range outs {
				if o.t < tau {
					continue
				}
				switch {
				case o.optional && o.fail:
					of++
				case o.optional:
					os++
				case o.fail:
					mf++
				default:
					ms++
				}
			}
			for i := 0; i <= os; i++ {
				for j := 0; j <= of; j++ {
					succ, fail := ms+i, mf+j
					total := succ + fail
					switch {
					case total < m.o.MinReq:
						v.under = true
					case fail*m.o.RateDen >= total*m.o.RateNum:
						v.open = true
					default:
						v.healthy = true
					}
				}
			}
		}
	}
	return v
}

// record appends an outcome observed at `now` of a call admitted in era
// `admittedEra` and returns the set of states the breaker may be in afterwards
// (bitmask over c47Closed/c47Open/c47HalfOpen).
func (m *c47Model) record(now int64, fail bool, admittedEra int) (allowed int, v c47Verdict) {
	optional := admittedEra != m.era
	m.log = append(m.log, c47Outcome{t: now, fail: fail, optional: optional})
	bit := func(s int) int { return 1 << uint(s) }
	switch m.st {
	case c47Closed:
		starts := []int{m.idxCl}
		if m.idxHO != m.idxCl {
			starts = append(starts, m.idxHO)
		}
		if m.idxHO != 0 && m.idxCl != 0 {
			starts = append(starts, 0)
		}
		v = m.classify(now, starts)
		if v.open {
			allowed |= bit(c47Open)
		}
		if v.healthy || v.under {
			allowed |= bit(c47Closed)
		}
	case c47HalfOpen:
		v = m.classify(now, []int{m.idxHO})
		if v.open {
			allowed |= bit(c47Open)
		}
		if v.healthy {
			allowed |= bit(c47Closed)
		}
		if v.under {
			allowed |= bit(c47HalfOpen)
			if fail {
				allowed |= bit(c47Open)
			} else {
				allowed |= bit(c47Closed)
			}
		}
	case c47Open:
		allowed = bit(c47Open)
	}
	if optional {
		allowed |= bit(m.st)
	}
	if allowed&(allowed-1) != 0 {
		m.ambiguous++
	}
	return allowed, v
}

// adopt moves the model to the state the breaker actually took (which the
// caller has checked to be allowed).
func (m *c47Model) adopt(actual int, now int64) {
	if actual == m.st {
		return
	}
	prev := m.st
	m.st = actual
	m.era++
	switch actual {
	case c47Open:
		m.until = now + m.o.OpenTimeoutNs
		m.opened++
		if prev == c47HalfOpen {
			m.reopened++
		}
	case c47Closed:
		m.idxCl = len(m.log)
		m.recovered++
	}
}

// idleAllowed is the set of states State() may report between calls.
func (m *c47Model) idleAllowed(now int64) int {
	a := 1 << uint(m.st)
	if m.st == c47Open && now >= m.until {
		// the transition to half-open is lazy in the code; either report is fine
		a |= 1 << uint(c47HalfOpen)
	}
	return a
}

func c47Mask(a int) string {
	s := ""
	for _, st := range []int{c47Closed, c47Open, c47HalfOpen} {
		if a&(1<<uint(st)) != 0 {
			if s != "" {
				s += "|"
			}
			s += c47StateName(st)
		}
	}
	return "{" + s + "}"
}

// c47DeadlineCtx is a context whose deadline "expires" when fire is called: it
// behaves like a context.WithDeadline context expiring while fn is running,
// without any wall-clock dependence.
type c47DeadlineCtx struct {
	context.Context
	fired atomic.Bool
	done  chan struct{}
}

func c47NewDeadlineCtx() *c47DeadlineCtx {
	return &c47DeadlineCtx{Context: context.Background(), done: make(chan struct{})}
}
func (c *c47DeadlineCtx) fire() {
	if c.fired.CompareAndSwap(false, true) {
		close(c.done)
	}
}
func (c *c47DeadlineCtx) Done() <-chan struct{} { return c.done }
func (c *c47DeadlineCtx) Err() error {
	if c.fired.Load() {
		return context.DeadlineExceeded
	}
	return nil
}
func (c *c47DeadlineCtx) Deadline() (time.Time, bool) { return time.Unix(0, c47Epoch), true }

//go:build verif

package breaker

import (
	"context"
	"errors"
	"fmt"
	"testing"

	"pgregory.net/rapid"

	"github.com/tochemey/goakt/v4/internal/vfkit"
)

// ---- C47 unit "machine": sequential histories on a fake clock -----------------

const (
	c47OpSuccess      = 0 // fn returns nil
	c47OpFailure      = 1 // fn returns an error
	c47OpPanic        = 2 // fn panics
	c47OpPreCancelled = 3 // ctx already cancelled when Execute is called
	c47OpCancelDuring = 4 // caller cancels ctx while fn runs, fn returns ctx.Err()
	c47OpDeadline     = 5 // ctx deadline expires while fn runs, fn returns ctx.Err()
	c47OpAdvance      = 6 // the clock advances
	c47OpMetrics      = 7 // Metrics() is read (rotates the window as a side effect)
)

const (
	c47AdvBuckets  = 0 // K buckets + Off ns
	c47AdvDeadline = 1 // to the end of the open period + Off ns (open timeout + Off when not open)
	c47AdvWindow   = 2 // K windows + Off ns
	c47AdvAny      = 3 // Off ns
)

type c47Op struct {
	Kind     int   `json:"kind"`
	Dur      int64 `json:"dur,omitempty"`      // calls: the clock advances by Dur while fn runs
	Fallback bool  `json:"fallback,omitempty"` // calls: a fallback is supplied
	Mode     int   `json:"mode,omitempty"`     // advance
	K        int64 `json:"k,omitempty"`
	Off      int64 `json:"off,omitempty"`
}

type c47MachineCase struct {
	Opt c47Opt  `json:"opt"`
	Ops []c47Op `json:"ops"`
}

func c47GenOp(t *rapid.T, o c47Opt) c47Op {
	var op c47Op
	k := rapid.IntRange(0, 99).Draw(t, "op")
	switch {
	case k < 32:
		op.Kind = c47OpFailure
	case k < 56:
		op.Kind = c47OpSuccess
	case k < 60:
		op.Kind = c47OpPanic
	case k < 63:
		op.Kind = c47OpPreCancelled
	case k < 66:
		op.Kind = c47OpCancelDuring
	case k < 70:
		op.Kind = c47OpDeadline
	case k < 97:
		op.Kind = c47OpAdvance
	default:
		op.Kind = c47OpMetrics
	}
	if op.Kind <= c47OpDeadline {
		if rapid.IntRange(0, 9).Draw(t, "dur_kind") == 0 {
			op.Dur = rapid.SampledFrom([]int64{1, o.BucketNs - 1, o.BucketNs, o.BucketNs + 1, o.window(), o.OpenTimeoutNs}).Draw(t, "dur")
		}
		op.Fallback = rapid.IntRange(0, 4).Draw(t, "fallback") == 0
		return op
	}
	if op.Kind == c47OpAdvance {
		off := rapid.SampledFrom([]int64{0, 0, 0, 0, 0, 0, 0, 1, -1}).Draw(t, "off")
		m := rapid.IntRange(0, 99).Draw(t, "adv_mode")
		switch {
		case m < 45:
			op.Mode = c47AdvBuckets
			op.K = int64(rapid.IntRange(0, o.Buckets+1).Draw(t, "adv_k"))
			op.Off = off
			if op.K == 0 && op.Off < 0 {
				op.Off = 0
			}
		case m < 80:
			op.Mode = c47AdvDeadline
			op.Off = rapid.SampledFrom([]int64{0, 1, 1, 1, -1, o.BucketNs, o.BucketNs + 1, o.window()}).Draw(t, "adv_deadline_off")
		case m < 90:
			op.Mode = c47AdvWindow
			op.K = int64(rapid.IntRange(1, 2).Draw(t, "adv_w"))
			op.Off = off
		default:
			op.Mode = c47AdvAny
			op.Off = rapid.Int64Range(0, 2*o.window()).Draw(t, "adv_any")
		}
	}
	return op
}

func c47GenMachine(t *rapid.T) c47MachineCase {
	var c c47MachineCase
	c.Opt = c47GenOpt(t)
	n := rapid.IntRange(1, 60).Draw(t, "len")
	for len(c.Ops) < n {
		switch r := rapid.IntRange(0, 99).Draw(t, "macro"); {
		case r < 5:
			// trip: min-requests failures in a row
			for i := 0; i < c.Opt.MinReq && len(c.Ops) < n; i++ {
				c.Ops = append(c.Ops, c47Op{Kind: c47OpFailure})
			}
		case r < 13:
			// recover: wait for the open deadline, then probe successfully
			c.Ops = append(c.Ops, c47Op{Kind: c47OpAdvance, Mode: c47AdvDeadline, Off: rapid.SampledFrom([]int64{1, 1, 0, c.Opt.BucketNs}).Draw(t, "recover_off")})
			k := c.Opt.MinReq + rapid.IntRange(-1, 1).Draw(t, "recover_extra")
			for i := 0; i < k && len(c.Ops) < n; i++ {
				c.Ops = append(c.Ops, c47Op{Kind: c47OpSuccess})
			}
		default:
			c.Ops = append(c.Ops, c47GenOp(t, c.Opt))
		}
	}
	return c
}

var errC47Boom = errors.New("c47: boom")

type c47CallResult struct {
	ran        bool
	err        error
	fbCalled   int
	fbErr      error
	escaped    any // panic that escaped Execute
	valueIsFB  bool
	valueIsFn  bool
	returnedOK bool
}

// c47Call performs one Execute with the generated outcome kind.
func c47Call(b *CircuitBreaker, clk *c47Clock, op c47Op) (res c47CallResult) {
	var ctx context.Context = context.Background()
	var cancel context.CancelFunc = func() {}
	var dctx *c47DeadlineCtx
	switch op.Kind {
	case c47OpPreCancelled:
		ctx, cancel = context.WithCancel(ctx)
		cancel()
	case c47OpCancelDuring:
		ctx, cancel = context.WithCancel(ctx)
	case c47OpDeadline:
		dctx = c47NewDeadlineCtx()
		ctx = dctx
	}
	defer cancel()
	fn := func(ctx context.Context) (any, error) {
		res.ran = true
		if op.Dur > 0 {
			clk.advance(op.Dur)
		}
		switch op.Kind {
		case c47OpSuccess:
			return "fn", nil
		case c47OpFailure:
			return nil, errC47Boom
		case c47OpPanic:
			panic("c47: generated panic")
		case c47OpCancelDuring:
			cancel()
			return nil, ctx.Err()
		case c47OpDeadline:
			dctx.fire()
			return nil, ctx.Err()
		default: // pre-cancelled context: fn should not even run; honour the cancellation
			return nil, ctx.Err()
		}
	}
	var fbs []func(context.Context, error) (any, error)
	if op.Fallback {
		fbs = append(fbs, func(_ context.Context, err error) (any, error) {
			res.fbCalled++
			res.fbErr = err
			return "fallback", nil
		})
	}
	defer func() {
		if p := recover(); p != nil {
			res.escaped = p
		}
	}()
	v, err := b.Execute(ctx, fn, fbs...)
	res.err = err
	res.returnedOK = true
	if s, ok := v.(string); ok {
		res.valueIsFB = s == "fallback"
		res.valueIsFn = s == "fn"
	}
	return res
}

// rejection reports whether the call result is a clean rejection with ErrOpen.
func (r c47CallResult) rejectedWithErrOpen(op c47Op) bool {
	if op.Fallback {
		return r.fbCalled == 1 && errors.Is(r.fbErr, ErrOpen)
	}
	return errors.Is(r.err, ErrOpen)
}

func c47ExecMachine(x *vfkit.X, c c47MachineCase) {
	clk := c47NewClock()
	b, err := c47NewBreaker(c.Opt, clk)
	if err != nil {
		x.Failf("harness-invalid-options", "generated options rejected by Validate: %v (%+v)", err, c.Opt)
	}
	m := c47NewModel(c.Opt)
	g := c.Opt.BucketNs
	aligned := true
	calls := 0

	checkIdle := func(i int, when string) {
		act := c47Actual(b)
		if al := m.idleAllowed(clk.now()); al&(1<<uint(act)) == 0 {
			x.Failf("state-changed-without-counted-outcome", "op %d (%s): State()=%s, model %s (no counted outcome since the last check)", i, when, c47StateName(act), c47Mask(al))
		}
	}

	for i, op := range c.Ops {
		checkIdle(i, "before")
		now := clk.now()
		switch op.Kind {
		case c47OpAdvance:
			var d int64
			switch op.Mode {
			case c47AdvBuckets:
				d = op.K*g + op.Off
			case c47AdvDeadline:
				if m.st == c47Open {
					d = m.until + op.Off - now
				} else {
					d = c.Opt.OpenTimeoutNs + op.Off
				}
			case c47AdvWindow:
				d = op.K*c.Opt.window() + op.Off
			default:
				d = op.Off
			}
			if d < 0 {
				d = 0
			}
			if d%g != 0 {
				aligned = false
			}
			clk.advance(d)
			x.Logf("op %d: advance %dns -> t=+%d", i, d, clk.now()-c47Epoch)
			continue
		case c47OpMetrics:
			mt := b.Metrics()
			if mt.Total != mt.Successes+mt.Failures {
				x.Failf("metrics-total-mismatch", "op %d: Metrics total=%d successes=%d failures=%d", i, mt.Total, mt.Successes, mt.Failures)
			}
			continue
		}

		calls++
		if op.Dur%g != 0 {
			aligned = false
		}
		if op.Kind == c47OpPreCancelled {
			// not a call as far as the breaker is concerned: nothing may be counted
			res := c47Call(b, clk, op)
			if res.escaped != nil {
				x.Failf("panic-escaped-execute", "op %d: Execute panicked: %v", i, res.escaped)
			}
			if !op.Fallback && res.err == nil {
				x.Failf("precancelled-call-returned-nil-error", "op %d: Execute with a cancelled context returned a nil error", i)
			}
			x.Logf("op %d: pre-cancelled call ran=%v err=%v", i, res.ran, res.err)
			x.Class("op_precancelled")
			continue
		}

		prevSt := m.st
		exp := m.admit(now, 0)
		res := c47Call(b, clk, op)
		after := clk.now()
		x.Logf("op %d: call kind=%d dur=%d at t=+%d model=%s(%s) -> ran=%v err=%v state=%s", i, op.Kind, op.Dur, now-c47Epoch, c47StateName(prevSt), []string{"must-run", "must-reject", "either"}[exp], res.ran, res.err, b.State())
		if res.escaped != nil {
			x.Failf("panic-escaped-execute", "op %d: Execute panicked: %v", i, res.escaped)
		}
		switch exp {
		case c47MustRun:
			if !res.ran {
				fp := "closed-call-rejected"
				if prevSt == c47Open {
					fp = "open-call-rejected-after-timeout"
				} else if prevSt == c47HalfOpen {
					fp = "halfopen-probe-rejected-none-inflight"
				}
				x.Failf(fp, "op %d: model state %s at t=+%d (open until +%d): the call must run but fn was not invoked (err=%v)", i, c47StateName(prevSt), now-c47Epoch, m.until-c47Epoch, res.err)
			}
		case c47MustReject:
			if res.ran {
				x.Failf("open-call-admitted-before-timeout", "op %d: breaker open until t=+%d, call at t=+%d ran fn", i, m.until-c47Epoch, now-c47Epoch)
			}
		case c47Either:
			x.Class("call_exactly_at_open_deadline")
			if res.ran {
				m.toHalfOpen()
			}
		}
		if !res.ran {
			if !res.rejectedWithErrOpen(op) {
				x.Failf("reject-error-not-ErrOpen", "op %d: rejected call: err=%v fallback calls=%d fallback err=%v; want ErrOpen", i, res.err, res.fbCalled, res.fbErr)
			}
			x.Class("call_rejected")
			continue
		}
		// the call ran: check what came back
		switch op.Kind {
		case c47OpSuccess:
			if res.err != nil || !res.valueIsFn || res.fbCalled != 0 {
				x.Failf("success-result-wrong", "op %d: successful fn: err=%v fallback calls=%d", i, res.err, res.fbCalled)
			}
		default:
			if op.Fallback {
				if res.fbCalled != 1 || res.fbErr == nil || !res.valueIsFB {
					x.Failf("fallback-not-invoked-on-error", "op %d: failing fn with fallback: fallback calls=%d err=%v", i, res.fbCalled, res.fbErr)
				}
			} else if res.err == nil {
				x.Failf("failure-returned-nil-error", "op %d: failing fn (kind %d) returned a nil error", i, op.Kind)
			}
			if op.Kind == c47OpPanic {
				e := res.err
				if op.Fallback {
					e = res.fbErr
				}
				var be *Error
				if !errors.As(e, &be) || be.Type != ErrorTypePanic {
					x.Failf("panic-not-reported-as-panic-error", "op %d: panic in fn reported as %v", i, e)
				}
			}
		}
		if op.Kind == c47OpCancelDuring {
			// caller cancellation is not an outcome
			x.Class("op_cancel_during")
			checkIdle(i, "after a cancelled call")
			continue
		}
		fail := op.Kind != c47OpSuccess
		stBefore := m.st
		allowed, v := m.record(after, fail, m.era)
		act := c47Actual(b)
		if allowed&(1<<uint(act)) == 0 {
			fp := "state-wrong"
			switch {
			case stBefore == c47Closed && act == c47Closed:
				fp = "not-opened-at-threshold"
			case stBefore == c47Closed && act == c47Open:
				fp = "opened-below-threshold"
			case stBefore == c47HalfOpen && act == c47Open && !fail && !v.open:
				fp = "halfopen-reopened-though-probes-healthy"
			case stBefore == c47HalfOpen && act == c47Open:
				fp = "halfopen-reopened-below-threshold"
			case stBefore == c47HalfOpen && act == c47HalfOpen && v.open:
				fp = "halfopen-not-reopened-at-threshold"
			case stBefore == c47HalfOpen && act == c47HalfOpen:
				fp = "halfopen-not-closed-after-healthy-probes"
			case stBefore == c47HalfOpen && act == c47Closed:
				fp = "halfopen-closed-at-threshold"
			}
			x.Failf(fp, "op %d: after %s recorded at t=+%d in model state %s the breaker is %s, allowed %s (rate %d/%d, min %d, window %d x %dns, verdict %+v)\n%s",
				i, map[bool]string{true: "a failure", false: "a success"}[fail], after-c47Epoch, c47StateName(stBefore), c47StateName(act), c47Mask(allowed),
				c.Opt.RateNum, c.Opt.RateDen, c.Opt.MinReq, c.Opt.Buckets, c.Opt.BucketNs, v, c47LogString(m))
		}
		m.adopt(act, after)
	}
	checkIdle(len(c.Ops), "end")

	if m.opened > 0 {
		x.Class("reached_open")
	}
	if m.probed > 0 {
		x.Class("reached_half_open")
	}
	if m.recovered > 0 {
		x.Class("recovered_to_closed")
	}
	if m.reopened > 0 {
		x.Class("reopened_from_half_open")
	}
	if m.opened >= 2 && m.recovered >= 1 {
		x.Class("opened_again_after_recovery")
	}
	if m.ambiguous > 0 {
		x.Class("bracket_or_reset_ambiguity_met")
	}
	if aligned {
		x.Class("bucket_aligned_history")
	}
	if calls == 0 {
		x.Class("no_calls")
	}
	if m.probed > 0 && (m.recovered > 0 || m.reopened > 0) {
		x.NonTrivial()
	}
}

func c47LogString(m *c47Model) string {
	s := fmt.Sprintf("outcome log (idxHalfOpen=%d idxClosed=%d):", m.idxHO, m.idxCl)
	for i, o := range m.log {
		k := "S"
		if o.fail {
			k = "F"
		}
		if o.optional {
			k += "?"
		}
		s += fmt.Sprintf(" %d:%s@+%d", i, k, o.t-c47Epoch)
	}
	return s
}

func TestVF_C47_machine(t *testing.T) {
	vfkit.Run(t, vfkit.Spec[c47MachineCase]{
		ID: "C47", Unit: "machine",
		Rule: "cases = valid options (rate in {0.1..1} as exact fractions, min requests 1-6, window = 1|2|3|5|10 buckets, open timeout, half-open max 1-3) and 1-60 ops {success, failure, panic, pre-cancelled ctx, cancel during call, deadline during call, clock advance (bucket multiples +-1ns, to the open deadline +-1ns, >= window, arbitrary), Metrics()} on a fake clock; non-trivial = the history reaches open, then half-open, then closes or reopens at least once; distinct = distinct (options, op list)",
		Gen:  c47GenMachine, Exec: c47ExecMachine,
	})
}

//go:build verif

package breaker

import (
	"context"
	"errors"
	"sort"
	"testing"
	"time"

	"pgregory.net/rapid"

	"github.com/tochemey/goakt/v4/internal/vfkit"
)

// ---- C47 unit "probes": concurrent bursts of callers ---------------------------
//
// Real goroutines call Execute at the same time. Every admitted caller blocks
// inside fn on a harness channel, every rejected caller returns at once, so each
// caller produces exactly one "first event" (entered fn | returned without
// running fn). The harness waits for as many first events as it launched
// callers: the number admitted is then exact and no timing is involved.
// Outcomes are recorded one at a time (the harness releases one blocked caller
// and waits for its return), so the reference model of model_test.go applies
// step by step; calls that complete in a later state period than the one that
// admitted them are "optional" outcomes for the model.

const (
	c47BBurst   = 0 // launch N concurrent callers
	c47BRelease = 1 // let the K-th blocked caller finish with Outcome
	c47BAdvance = 2 // clock advance (same modes as the machine unit)
)

type c47BStep struct {
	Kind    int   `json:"kind"`
	N       int   `json:"n,omitempty"`
	K       int   `json:"k,omitempty"`
	Outcome int   `json:"outcome,omitempty"` // c47OpSuccess | c47OpFailure | c47OpPanic
	Mode    int   `json:"mode,omitempty"`
	Off     int64 `json:"off,omitempty"`
}

type c47BurstCase struct {
	Opt   c47Opt     `json:"opt"`
	Steps []c47BStep `json:"steps"`
}

func c47GenOutcome(t *rapid.T, failBias int) int {
	k := rapid.IntRange(0, 99).Draw(t, "outcome")
	switch {
	case k < failBias:
		return c47OpFailure
	case k < failBias+5:
		return c47OpPanic
	default:
		return c47OpSuccess
	}
}

func c47GenBurst(t *rapid.T) c47BurstCase {
	var c c47BurstCase
	c.Opt = c47GenOpt(t)
	o := c.Opt
	adv := func(deadlineBias int) c47BStep {
		s := c47BStep{Kind: c47BAdvance}
		if rapid.IntRange(0, 99).Draw(t, "adv_mode") < deadlineBias {
			s.Mode = c47AdvDeadline
			s.Off = rapid.SampledFrom([]int64{1, 1, 1, o.BucketNs, -1, o.window()}).Draw(t, "adv_off")
		} else {
			s.Mode = c47AdvAny
			s.Off = rapid.SampledFrom([]int64{0, 1, o.BucketNs, o.window(), o.OpenTimeoutNs, o.OpenTimeoutNs + 1}).Draw(t, "adv_any")
		}
		return s
	}
	// prologue by construction: a closed-state burst whose failures trip the
	// breaker, the open timeout, then a burst larger than the probe limit
	if rapid.IntRange(0, 9).Draw(t, "prologue") < 8 {
		a := o.MinReq + rapid.IntRange(0, 2).Draw(t, "prologue_extra")
		c.Steps = append(c.Steps, c47BStep{Kind: c47BBurst, N: a})
		for i := 0; i < a; i++ {
			c.Steps = append(c.Steps, c47BStep{Kind: c47BRelease, K: rapid.IntRange(0, 7).Draw(t, "k"), Outcome: c47GenOutcome(t, 85)})
		}
		c.Steps = append(c.Steps, adv(90))
		c.Steps = append(c.Steps, c47BStep{Kind: c47BBurst, N: rapid.IntRange(1, 8).Draw(t, "burst_n")})
	}
	n := rapid.IntRange(0, 14).Draw(t, "tail")
	tailFail := rapid.SampledFrom([]int{5, 25, 45, 70}).Draw(t, "tail_fail_bias")
	for i := 0; i < n; i++ {
		k := rapid.IntRange(0, 99).Draw(t, "step")
		switch {
		case k < 50:
			c.Steps = append(c.Steps, c47BStep{Kind: c47BRelease, K: rapid.IntRange(0, 7).Draw(t, "k"), Outcome: c47GenOutcome(t, tailFail)})
		case k < 80:
			c.Steps = append(c.Steps, c47BStep{Kind: c47BBurst, N: rapid.IntRange(1, 6).Draw(t, "burst_n")})
		default:
			c.Steps = append(c.Steps, adv(60))
		}
	}
	return c
}

type c47Release struct{ outcome int }

type c47Caller struct {
	id      int
	release chan c47Release
	probe   bool // admitted while the breaker was not closed
	era     int
	blocked bool
}

type c47Ev struct {
	id      int
	entered bool // true: entered fn; false: Execute returned
	ran     bool
	err     error
	escaped any
}

const c47WaitLimit = 60 * time.Second

func c47ExecBurst(x *vfkit.X, c c47BurstCase) {
	clk := c47NewClock()
	b, err := c47NewBreaker(c.Opt, clk)
	if err != nil {
		x.Failf("harness-invalid-options", "generated options rejected by Validate: %v (%+v)", err, c.Opt)
	}
	m := c47NewModel(c.Opt)
	events := make(chan c47Ev, 1024)
	callers := map[int]*c47Caller{}
	nextID := 0
	launched, finished := 0, 0
	probesInFlight := 0
	inconclusive := false
	overLimitBursts, releasedProbes := 0, 0

	wait := func() (c47Ev, bool) {
		tm := time.NewTimer(c47WaitLimit)
		defer tm.Stop()
		select {
		case ev := <-events:
			return ev, true
		case <-tm.C:
			return c47Ev{}, false
		}
	}

	// whatever happens, unblock every caller and wait for the goroutines
	defer func() {
		for _, cl := range callers {
			if cl.blocked {
				close(cl.release)
				cl.blocked = false
			}
		}
		for finished < launched && !inconclusive {
			ev, ok := wait()
			if !ok {
				break
			}
			if ev.entered {
				// entered fn but the harness had not seen it yet
				close(callers[ev.id].release)
				continue
			}
			finished++
		}
	}()

	blockedSorted := func() []*c47Caller {
		var l []*c47Caller
		for _, cl := range callers {
			if cl.blocked {
				l = append(l, cl)
			}
		}
		sort.Slice(l, func(i, j int) bool { return l[i].id < l[j].id })
		return l
	}

	launch := func() *c47Caller {
		cl := &c47Caller{id: nextID, release: make(chan c47Release, 1)}
		nextID++
		callers[cl.id] = cl
		launched++
		go func() {
			ev := c47Ev{id: cl.id}
			func() {
				defer func() {
					if p := recover(); p != nil {
						ev.escaped = p
					}
				}()
				_, ev.err = b.Execute(context.Background(), func(context.Context) (any, error) {
					ev.ran = true
					events <- c47Ev{id: cl.id, entered: true}
					r, ok := <-cl.release
					if !ok {
						return "fn", nil
					}
					switch r.outcome {
					case c47OpFailure:
						return nil, errC47Boom
					case c47OpPanic:
						panic("c47: generated panic")
					}
					return "fn", nil
				})
			}()
			events <- ev
		}()
		return cl
	}

	for i, s := range c.Steps {
		if act := c47Actual(b); m.idleAllowed(clk.now())&(1<<uint(act)) == 0 {
			x.Failf("state-changed-without-counted-outcome", "step %d: State()=%s, model %s", i, c47StateName(act), c47Mask(m.idleAllowed(clk.now())))
		}
		switch s.Kind {
		case c47BAdvance:
			now := clk.now()
			var d int64
			if s.Mode == c47AdvDeadline {
				if m.st == c47Open {
					d = m.until + s.Off - now
				} else {
					d = c.Opt.OpenTimeoutNs + s.Off
				}
			} else {
				d = s.Off
			}
			if d < 0 {
				d = 0
			}
			clk.advance(d)
			x.Logf("step %d: advance %d -> t=+%d", i, d, clk.now()-c47Epoch)

		case c47BBurst:
			if m.st == c47Open && clk.now() == m.until {
				// the instant the open timeout ends is unspecified: step over it
				clk.advance(1)
			}
			now := clk.now()
			prevSt := m.st
			// the model decides with the first caller; the others see the same state
			exp := m.admit(now, probesInFlight)
			asProbe := m.st != c47Closed
			before := probesInFlight
			var batch []*c47Caller
			for k := 0; k < s.N; k++ {
				cl := launch()
				cl.probe, cl.era = asProbe, m.era
				batch = append(batch, cl)
			}
			admitted, rejected := 0, 0
			for got := 0; got < s.N; {
				ev, ok := wait()
				if !ok {
					inconclusive = true
					x.Class("inconclusive_wait_limit")
					return
				}
				if ev.entered {
					callers[ev.id].blocked = true
					admitted++
					got++
					continue
				}
				finished++
				if ev.escaped != nil {
					x.Failf("panic-escaped-execute", "step %d: Execute panicked: %v", i, ev.escaped)
				}
				if ev.ran {
					x.Failf("harness-unexpected-return", "step %d: caller %d returned after running fn without being released", i, ev.id)
				}
				if !errors.Is(ev.err, ErrOpen) {
					x.Failf("reject-error-not-ErrOpen", "step %d: rejected caller %d got %v", i, ev.id, ev.err)
				}
				rejected++
				got++
			}
			x.Logf("step %d: burst of %d at t=+%d, model %s->%s, probes in flight before=%d: admitted=%d rejected=%d", i, s.N, now-c47Epoch, c47StateName(prevSt), c47StateName(m.st), before, admitted, rejected)
			switch {
			case !asProbe:
				if rejected > 0 {
					x.Failf("closed-call-rejected", "step %d: breaker closed, %d of %d concurrent callers rejected", i, rejected, s.N)
				}
				x.Class("burst_while_closed")
			case exp == c47MustReject && prevSt == c47Open && m.st == c47Open:
				if admitted > 0 {
					x.Failf("open-call-admitted-before-timeout", "step %d: open until t=+%d, burst at t=+%d admitted %d callers", i, m.until-c47Epoch, now-c47Epoch, admitted)
				}
				x.Class("burst_while_open")
			default:
				probesInFlight += admitted
				if probesInFlight > c.Opt.HalfOpenMax {
					x.Failf("halfopen-probes-exceed-max", "step %d: half-open with halfOpenMaxCalls=%d: %d probes already running, burst of %d admitted %d more (%d concurrent probes)", i, c.Opt.HalfOpenMax, before, s.N, admitted, probesInFlight)
				}
				if before == 0 && admitted == 0 {
					fp := "halfopen-probe-rejected-none-inflight"
					if prevSt == c47Open {
						fp = "open-call-rejected-after-timeout"
					}
					x.Failf(fp, "step %d: no probe running, open timeout passed (model %s), burst of %d: nobody admitted", i, c47StateName(prevSt), s.N)
				}
				want := c.Opt.HalfOpenMax - before
				if s.N < want {
					want = s.N
				}
				if admitted == want {
					x.Class("probe_count_exactly_fills_limit")
				} else {
					x.Class("probe_count_below_limit")
				}
				if before+s.N > c.Opt.HalfOpenMax {
					overLimitBursts++
					x.Class("burst_exceeding_probe_limit")
				}
				if prevSt == c47HalfOpen && before > 0 {
					x.Class("burst_with_probes_already_running")
				}
			}
			for _, cl := range batch {
				cl.probe = asProbe && cl.blocked
			}

		case c47BRelease:
			bl := blockedSorted()
			if len(bl) == 0 {
				x.Class("release_with_nobody_blocked")
				continue
			}
			cl := bl[s.K%len(bl)]
			cl.blocked = false
			cl.release <- c47Release{outcome: s.Outcome}
			var ev c47Ev
			for {
				e, ok := wait()
				if !ok {
					inconclusive = true
					x.Class("inconclusive_wait_limit")
					return
				}
				if e.entered || e.id != cl.id {
					x.Failf("harness-unexpected-event", "step %d: event %+v while waiting for caller %d", i, e, cl.id)
				}
				ev = e
				break
			}
			finished++
			if ev.escaped != nil {
				x.Failf("panic-escaped-execute", "step %d: Execute panicked: %v", i, ev.escaped)
			}
			fail := s.Outcome != c47OpSuccess
			if fail == (ev.err == nil) {
				x.Failf("outcome-result-wrong", "step %d: caller %d outcome %d returned err=%v", i, cl.id, s.Outcome, ev.err)
			}
			if cl.probe {
				probesInFlight--
				releasedProbes++
			}
			now := clk.now()
			stBefore := m.st
			if cl.era != m.era {
				x.Class("straggler_outcome")
			}
			allowed, v := m.record(now, fail, cl.era)
			act := c47Actual(b)
			x.Logf("step %d: caller %d (probe=%v era=%d/%d) finishes fail=%v at t=+%d: model %s allowed %s actual %s", i, cl.id, cl.probe, cl.era, m.era, fail, now-c47Epoch, c47StateName(stBefore), c47Mask(allowed), c47StateName(act))
			if allowed&(1<<uint(act)) == 0 {
				fp := "state-wrong"
				switch {
				case stBefore == c47Closed && act == c47Closed:
					fp = "not-opened-at-threshold"
				case stBefore == c47Closed && act == c47Open:
					fp = "opened-below-threshold"
				case stBefore == c47HalfOpen && act == c47Open && !fail && !v.open:
					fp = "halfopen-reopened-though-probes-healthy"
				case stBefore == c47HalfOpen && act == c47Open:
					fp = "halfopen-reopened-below-threshold"
				case stBefore == c47HalfOpen && act == c47HalfOpen && v.open:
					fp = "halfopen-not-reopened-at-threshold"
				case stBefore == c47HalfOpen && act == c47HalfOpen:
					fp = "halfopen-not-closed-after-healthy-probes"
				case stBefore == c47HalfOpen && act == c47Closed:
					fp = "halfopen-closed-at-threshold"
				case stBefore == c47Open:
					fp = "open-left-by-late-outcome"
				}
				x.Failf(fp, "step %d: caller %d finished (fail=%v) in model state %s: breaker is %s, allowed %s (verdict %+v)\n%s", i, cl.id, fail, c47StateName(stBefore), c47StateName(act), c47Mask(allowed), v, c47LogString(m))
			}
			m.adopt(act, now)
		}
	}

	if m.opened > 0 {
		x.Class("reached_open")
	}
	if m.probed > 0 {
		x.Class("reached_half_open")
	}
	if m.recovered > 0 {
		x.Class("recovered_to_closed")
	}
	if m.reopened > 0 {
		x.Class("reopened_from_half_open")
	}
	if m.probed >= 2 {
		x.Class("half_open_twice")
	}
	if overLimitBursts > 0 && releasedProbes > 0 {
		x.NonTrivial()
	}
}

func TestVF_C47_probes(t *testing.T) {
	vfkit.Run(t, vfkit.Spec[c47BurstCase]{
		ID: "C47", Unit: "probes",
		Rule: "cases = valid options and a script of {burst of 1-8 concurrent callers (real goroutines, admitted ones block inside fn), release of one blocked caller with success|failure|panic, clock advance}, usually starting with a closed-state burst that trips the breaker, the open timeout and a burst above the probe limit; non-trivial = at least one half-open burst with more callers than free probe slots and at least one probe released afterwards; distinct = distinct (options, script)",
		Gen:  c47GenBurst, Exec: c47ExecBurst,
		ReplayReps: 20,
	})
}

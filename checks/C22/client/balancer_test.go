//go:build verif

package client

import (
	"fmt"
	"math"
	"reflect"
	"testing"
	"unsafe"

	"pgregory.net/rapid"

	"github.com/tochemey/goakt/v4/internal/vfkit"
)

// C22: for any number of prior calls, including after the internal counter wraps
// around, the round-robin, random and least-load balancers return one of the
// configured nodes, and round-robin visits the nodes in cyclic order.

const c22Pool = 12 // distinct nodes a case can place in a list

// fingerprints of the defects this check knows how to step over once listed
const (
	c22FpWrapPanic = "rr-counter-wrap-index-negative"
)

func c22Nodes() []*Node {
	// struct literals: a balancer only ever reads the weight; NewNode would also
	// build a remoting client per node, which no balancer touches.
	nodes := make([]*Node, c22Pool)
	for i := range nodes {
		nodes[i] = &Node{address: fmt.Sprintf("10.0.0.%d:%d", i+1, 9000+i)}
	}
	return nodes
}

// c22GenList draws 1..9 distinct pool indices in a generated order.
func c22GenList(t *rapid.T, label string) []int {
	n := rapid.SampledFrom([]int{1, 2, 2, 3, 3, 4, 5, 6, 7, 8, 9}).Draw(t, label+"_n")
	perm := rapid.Permutation([]int{0, 1, 2, 3, 4, 5, 6, 7, 8, 9, 10, 11}).Draw(t, label+"_perm")
	return append([]int(nil), perm[:n]...)
}

func c22Select(pool []*Node, idx []int) []*Node {
	out := make([]*Node, len(idx))
	for i, j := range idx {
		out[i] = pool[j]
	}
	return out
}

func c22Pos(list []*Node, n *Node) int {
	for i, m := range list {
		if m == n {
			return i
		}
	}
	return -1
}

// c22Next calls Next, converting a panic of the code under test into a value.
func c22Next(b Balancer) (n *Node, panicked any) {
	defer func() {
		if p := recover(); p != nil {
			panicked = p
		}
	}()
	return b.Next(), nil
}

// ---- counter access ----------------------------------------------------------
//
// The number of prior calls is represented by the balancer's private counter. A
// case reaches "2^32 prior calls" by presetting it (every value of the counter is
// the state after that many calls). The accessor works on whatever unsigned or
// signed integer type the field has, so that the check still compiles and still
// reaches the wrap after the field's type is changed by a repair.

type c22Counter struct {
	ptr    unsafe.Pointer
	kind   reflect.Kind
	bits   uint
	signed bool
	ok     bool
}

func c22CounterOf(rr *RoundRobin) c22Counter {
	v := reflect.ValueOf(rr).Elem()
	f := v.FieldByName("next")
	if !f.IsValid() {
		return c22Counter{}
	}
	// atomic.Uint32/Uint64/Int64: descend into the value field
	if f.Kind() == reflect.Struct {
		if inner := f.FieldByName("v"); inner.IsValid() {
			f = inner
		}
	}
	c := c22Counter{kind: f.Kind()}
	switch f.Kind() {
	case reflect.Uint32, reflect.Uint64, reflect.Uint, reflect.Uint16, reflect.Uint8, reflect.Uintptr:
		c.ok = true
	case reflect.Int32, reflect.Int64, reflect.Int, reflect.Int16, reflect.Int8:
		c.ok, c.signed = true, true
	default:
		return c22Counter{}
	}
	c.bits = uint(f.Type().Size()) * 8
	c.ptr = unsafe.Pointer(f.UnsafeAddr())
	return c
}

// raw reads the counter's bit pattern, zero-extended.
func (c c22Counter) raw() uint64 {
	switch c.bits {
	case 8:
		return uint64(*(*uint8)(c.ptr))
	case 16:
		return uint64(*(*uint16)(c.ptr))
	case 32:
		return uint64(*(*uint32)(c.ptr))
	default:
		return *(*uint64)(c.ptr)
	}
}

func (c c22Counter) setRaw(v uint64) {
	switch c.bits {
	case 8:
		*(*uint8)(c.ptr) = uint8(v)
	case 16:
		*(*uint16)(c.ptr) = uint16(v)
	case 32:
		*(*uint32)(c.ptr) = uint32(v)
	default:
		*(*uint64)(c.ptr) = v
	}
}

func (c c22Counter) mask() uint64 {
	if c.bits >= 64 {
		return math.MaxUint64
	}
	return (uint64(1) << c.bits) - 1
}

// ---- round robin -------------------------------------------------------------

type c22Op struct {
	Set  []int `json:"set,omitempty"` // non-empty: Set(these pool indices); empty: Next()
	Reps int   `json:"reps,omitempty"`
}

type c22RRCase struct {
	Initial []int `json:"initial"`
	// PresetKind: 0 fresh balancer (0 prior calls); 1 counter = typeMax-Back (wrap of
	// an unsigned counter / overflow of a signed one is Back+1 calls away);
	// 2 counter = 2^(bits-1)-Back (sign boundary); 3 counter = Raw (mod 2^bits);
	// 4 counter = 2^32-Back regardless of width (the boundary named by the property)
	PresetKind int     `json:"preset_kind"`
	Back       uint64  `json:"back"`
	Raw        uint64  `json:"raw"`
	Ops        []c22Op `json:"ops"`
}

func c22GenRR(t *rapid.T) c22RRCase {
	var c c22RRCase
	c.Initial = c22GenList(t, "initial")
	c.PresetKind = rapid.SampledFrom([]int{0, 1, 1, 1, 1, 2, 2, 3, 4, 4}).Draw(t, "preset_kind")
	c.Back = uint64(rapid.SampledFrom([]int{0, 0, 1, 1, 2, 3, 4, 5, 7, 8, 9, 12, 17, 25, 40}).Draw(t, "back"))
	c.Raw = rapid.Uint64().Draw(t, "raw")
	nops := rapid.IntRange(1, 14).Draw(t, "nops")
	for i := 0; i < nops; i++ {
		if rapid.IntRange(0, 9).Draw(t, "op_kind") == 0 {
			c.Ops = append(c.Ops, c22Op{Set: c22GenList(t, "set")})
		} else {
			c.Ops = append(c.Ops, c22Op{Reps: rapid.IntRange(1, 24).Draw(t, "reps")})
		}
	}
	return c
}

func c22ExecRR(x *vfkit.X, c c22RRCase) {
	pool := c22Nodes()
	rr := NewRoundRobin()
	cur := c22Select(pool, c.Initial)
	rr.Set(cur...)

	ctr := c22CounterOf(rr)
	if !ctr.ok {
		x.Class("counter_not_presettable")
	} else {
		switch c.PresetKind {
		case 1:
			max := ctr.mask()
			if ctr.signed {
				max >>= 1
			}
			ctr.setRaw(max - c.Back)
			x.Class("preset_near_type_max")
		case 2:
			ctr.setRaw((uint64(1) << (ctr.bits - 1)) - c.Back)
			x.Class("preset_near_sign_boundary")
		case 3:
			ctr.setRaw(c.Raw & ctr.mask())
			x.Class("preset_arbitrary")
		case 4:
			ctr.setRaw(((uint64(1) << 32) - c.Back) & ctr.mask())
			x.Class("preset_near_2^32")
		default:
			x.Class("preset_none")
		}
	}

	prevPos := -1 // position (in cur) of the previous result; -1 = unconstrained
	run := 0      // consecutive Next calls on the current list
	knownWrapPanic := ""
	calls := 0
	for oi, op := range c.Ops {
		if len(op.Set) > 0 {
			cur = c22Select(pool, op.Set)
			rr.Set(cur...)
			// the specification says nothing about where the cycle resumes after the
			// pool is replaced: the first result on a new list is unconstrained
			prevPos, run = -1, 0
			x.Class("set_interleaved")
			continue
		}
		for r := 0; r < op.Reps; r++ {
			var before uint64
			if ctr.ok {
				before = ctr.raw()
			}
			got, p := c22Next(rr)
			calls++
			wrapCall := false
			if ctr.ok {
				after := ctr.raw()
				half := uint64(1) << (ctr.bits - 1)
				if after < before {
					wrapCall = true
					x.Class("crossed_counter_wrap")
					if len(cur) >= 2 {
						x.NonTrivial()
					}
				}
				if before < half && after >= half {
					x.Class("crossed_sign_boundary")
					if len(cur) >= 2 {
						x.NonTrivial()
					}
				}
				if before < 1<<32 && after >= 1<<32 {
					x.Class("crossed_2^32_wide_counter")
					if len(cur) >= 2 {
						x.NonTrivial()
					}
				}
			}
			if p != nil {
				fp := "rr-next-panic"
				if wrapCall {
					fp = c22FpWrapPanic
				}
				msg := fmt.Sprintf("op %d call %d: RoundRobin.Next panicked with %d nodes, counter before the call = %d (%d-bit): %v", oi, calls, len(cur), before, ctr.bits, p)
				if fp == c22FpWrapPanic && x.Known(fp) {
					// listed defect: accept exactly this behaviour (the panic on the
					// wrapping call), lose the cycle position, keep checking behind it;
					// the hit is reported at the end of the case.
					knownWrapPanic = msg
					prevPos, run = -1, 0
					x.Class("known_wrap_panic_stepped_over")
					continue
				}
				x.Failf(fp, "%s", msg)
			}
			pos := c22Pos(cur, got)
			if got == nil || pos < 0 {
				x.Failf("rr-not-a-configured-node", "op %d call %d: RoundRobin.Next returned %v which is not one of the %d configured nodes (counter before = %d)", oi, calls, c22Addr(got), len(cur), before)
			}
			if prevPos >= 0 {
				want := (prevPos + 1) % len(cur)
				if pos != want {
					fp := "rr-cycle-broken"
					if wrapCall || (ctr.ok && before == 0 && calls > 1) {
						fp = "rr-cycle-broken-at-wrap"
					}
					x.Failf(fp, "op %d call %d: RoundRobin.Next returned position %d of %d after position %d, want %d (counter before the call = %d, %d-bit)", oi, calls, pos, len(cur), prevPos, want, before, ctr.bits)
				}
			}
			prevPos = pos
			run++
			if run == len(cur)+1 && len(cur) >= 2 {
				x.Class("full_cycle_checked")
				x.NonTrivial()
			}
		}
	}
	x.Class(fmt.Sprintf("initial_nodes=%d", len(c.Initial)))
	if knownWrapPanic != "" {
		x.Failf(c22FpWrapPanic, "%s", knownWrapPanic)
	}
}

func c22Addr(n *Node) string {
	if n == nil {
		return "<nil>"
	}
	return n.address
}

func TestVF_C22_roundrobin(t *testing.T) {
	vfkit.Run(t, vfkit.Spec[c22RRCase]{
		ID: "C22", Unit: "roundrobin",
		Rule: "cases = list of 1..9 distinct nodes, the call counter preset to 0 / near its type maximum / near the sign boundary / near 2^32 / arbitrary (= that many prior calls), then 1..14 ops (runs of 1..24 Next calls, occasional Set of a new list); non-trivial = a list of >=2 nodes on which the counter crossed its wrap, the sign boundary or 2^32, or on which more than one full cycle was checked; distinct = distinct (lists, preset, ops)",
		Gen:  c22GenRR, Exec: c22ExecRR,
	})
}

// ---- least load ----------------------------------------------------------------

type c22LLStep struct {
	// Weights to assign (pool index -> weight) before the call; nil = keep
	SetWeights map[int]float64 `json:"set_weights,omitempty"`
	Set        []int           `json:"set,omitempty"` // replace the list first
}

type c22LLCase struct {
	Initial []int       `json:"initial"`
	Weights []float64   `json:"weights"` // initial weight per pool node
	Steps   []c22LLStep `json:"steps"`
}

func c22GenWeight(t *rapid.T) float64 {
	switch rapid.IntRange(0, 5).Draw(t, "w_kind") {
	case 0, 1:
		// few distinct small values: ties are common
		return float64(rapid.IntRange(0, 3).Draw(t, "w_small"))
	case 2:
		// what the client stores: float64 of an integer metric
		return float64(rapid.Uint32().Draw(t, "w_metric"))
	case 3:
		// fractional weights differing by less than 1 (Node.SetWeight / WithWeight take any float64)
		return float64(rapid.IntRange(0, 3).Draw(t, "w_int")) + float64(rapid.IntRange(0, 9).Draw(t, "w_frac"))/10
	case 4:
		return rapid.SampledFrom([]float64{0, 0.5, 1, 1e-9, 1e18, math.MaxFloat64, math.SmallestNonzeroFloat64}).Draw(t, "w_edge")
	default:
		return rapid.Float64Range(0, 1000).Draw(t, "w_any")
	}
}

func c22GenLL(t *rapid.T) c22LLCase {
	var c c22LLCase
	c.Initial = c22GenList(t, "initial")
	c.Weights = make([]float64, c22Pool)
	for i := range c.Weights {
		c.Weights[i] = c22GenWeight(t)
	}
	n := rapid.IntRange(1, 12).Draw(t, "steps")
	for i := 0; i < n; i++ {
		var s c22LLStep
		switch rapid.IntRange(0, 9).Draw(t, "step_kind") {
		case 0:
			s.Set = c22GenList(t, "set")
		case 1, 2, 3, 4:
			k := rapid.IntRange(1, 3).Draw(t, "nw")
			s.SetWeights = map[int]float64{}
			for j := 0; j < k; j++ {
				s.SetWeights[rapid.IntRange(0, c22Pool-1).Draw(t, "w_node")] = c22GenWeight(t)
			}
		}
		c.Steps = append(c.Steps, s)
	}
	return c
}

func c22ExecLL(x *vfkit.X, c c22LLCase) {
	pool := c22Nodes()
	for i, w := range c.Weights {
		pool[i].SetWeight(w)
	}
	ll := NewLeastLoad()
	// the client hands its own slice to Set; keep our own reference copy of the
	// membership (the balancer is allowed to reorder the slice it was given)
	given := c22Select(pool, c.Initial)
	members := append([]*Node(nil), given...)
	ll.Set(given...)
	reweighted := false
	for si, s := range c.Steps {
		if len(s.Set) > 0 {
			given = c22Select(pool, s.Set)
			members = append([]*Node(nil), given...)
			ll.Set(given...)
			x.Class("set_interleaved")
		}
		// apply in a fixed order (never map iteration order)
		for j := 0; j < c22Pool; j++ {
			if w, ok := s.SetWeights[j]; ok {
				pool[j].SetWeight(w)
				if c22Pos(members, pool[j]) >= 0 {
					reweighted = true
				}
			}
		}
		got, p := c22Next(ll)
		if p != nil {
			x.Failf("ll-next-panic", "step %d: LeastLoad.Next panicked with %d nodes: %v", si, len(members), p)
		}
		if got == nil || c22Pos(members, got) < 0 {
			x.Failf("ll-not-a-configured-node", "step %d: LeastLoad.Next returned %v which is not one of the %d configured nodes", si, c22Addr(got), len(members))
		}
		min := math.Inf(1)
		ties := 0
		for _, m := range members {
			w := m.getWeight()
			if w < min {
				min, ties = w, 1
			} else if w == min {
				ties++
			}
		}
		if got.getWeight() != min {
			x.Failf("ll-not-minimal-weight", "step %d: LeastLoad.Next returned %s with weight %v, but the minimal weight among the %d configured nodes is %v", si, got.address, got.getWeight(), len(members), min)
		}
		if ties > 1 {
			x.Class("tie_at_minimum")
		}
		if len(members) >= 2 {
			if reweighted {
				x.Class("min_after_reweight")
			}
			x.NonTrivial()
		}
	}
	// the balancer may reorder the slice it was given but must not lose or duplicate nodes
	seen := map[*Node]int{}
	for _, n := range given {
		seen[n]++
	}
	for _, m := range members {
		if seen[m] != 1 {
			x.Failf("ll-pool-corrupted", "after the calls the configured slice holds node %s %d time(s)", m.address, seen[m])
		}
	}
}

func TestVF_C22_leastload(t *testing.T) {
	vfkit.Run(t, vfkit.Spec[c22LLCase]{
		ID: "C22", Unit: "leastload",
		Rule: "cases = list of 1..9 distinct nodes with generated non-negative weights (tie-heavy small integers, integer metrics, fractional, extreme), 1..12 Next calls interleaved with SetWeight on 1..3 nodes and occasional Set of a new list; non-trivial = a call on a list of >=2 nodes; distinct = distinct (lists, weights, steps)",
		Gen:  c22GenLL, Exec: c22ExecLL,
	})
}

// ---- random --------------------------------------------------------------------

type c22RandCase struct {
	Lists [][]int `json:"lists"`
	Calls []int   `json:"calls"` // calls per list
}

func c22GenRand(t *rapid.T) c22RandCase {
	var c c22RandCase
	n := rapid.IntRange(1, 3).Draw(t, "lists")
	for i := 0; i < n; i++ {
		c.Lists = append(c.Lists, c22GenList(t, "list"))
		c.Calls = append(c.Calls, rapid.IntRange(1, 40).Draw(t, "calls"))
	}
	return c
}

func c22ExecRand(x *vfkit.X, c c22RandCase) {
	pool := c22Nodes()
	b := NewRandom()
	for li, l := range c.Lists {
		cur := c22Select(pool, l)
		b.Set(cur...)
		for k := 0; k < c.Calls[li]; k++ {
			got, p := c22Next(b)
			if p != nil {
				x.Failf("random-next-panic", "list %d call %d: Random.Next panicked with %d nodes: %v", li, k, len(cur), p)
			}
			if got == nil || c22Pos(cur, got) < 0 {
				x.Failf("random-not-a-configured-node", "list %d call %d: Random.Next returned %v which is not one of the %d configured nodes", li, k, c22Addr(got), len(cur))
			}
		}
		if len(cur) >= 2 {
			x.NonTrivial()
		} else {
			x.Class("single_node")
		}
	}
}

func TestVF_C22_random(t *testing.T) {
	vfkit.Run(t, vfkit.Spec[c22RandCase]{
		ID: "C22", Unit: "random",
		Rule: "cases = 1..3 successive lists of 1..9 distinct nodes, 1..40 Next calls on each (membership and no-panic only: the choice itself is unspecified); non-trivial = a list of >=2 nodes; distinct = distinct (lists, call counts)",
		Gen:  c22GenRand, Exec: c22ExecRand,
	})
}

//go:build verif

package actor

import (
	"math"
	"math/big"
	"testing"
	"time"

	"pgregory.net/rapid"

	"github.com/tochemey/goakt/v4/internal/vfkit"
)

// ---- C08: restart backoff arithmetic ---------------------------------------

type c08BackoffCase struct {
	N       int64 `json:"n"`       // fault count
	M       int64 `json:"m"`       // a second, larger fault count (monotonicity)
	Initial int64 `json:"initial"` // ns
	Max     int64 `json:"max"`     // ns
}

func c08Pow2ish(t *rapid.T, label string) int64 {
	k := rapid.IntRange(0, 62).Draw(t, label+"_k")
	base := int64(1) << uint(k)
	switch rapid.IntRange(0, 4).Draw(t, label+"_kind") {
	case 0:
		return base
	case 1:
		if base > 1 {
			return base - 1
		}
		return base
	case 2:
		if base < math.MaxInt64-1 {
			return base + 1
		}
		return base
	case 3:
		// base plus a small odd offset: products wrap to small positive values
		off := rapid.Int64Range(1, 1<<20).Draw(t, label+"_off")
		if base <= math.MaxInt64-off {
			return base + off
		}
		return base
	default:
		// sum of two powers of two
		j := rapid.IntRange(0, 62).Draw(t, label+"_j")
		o := int64(1) << uint(j)
		if base <= math.MaxInt64-o {
			return base + o
		}
		return base
	}
}

func c08GenBackoff(t *rapid.T) c08BackoffCase {
	var c c08BackoffCase
	faults := rapid.OneOf(
		rapid.Int64Range(-3, 3),
		rapid.Int64Range(1, 70),
		rapid.Int64Range(55, 70),
		rapid.SampledFrom([]int64{math.MinInt64, -1, 0, 1, 2, 61, 62, 63, 64, 65, math.MaxInt64 - 1, math.MaxInt64}),
		rapid.Int64(),
	)
	c.N = faults.Draw(t, "n")
	c.M = faults.Draw(t, "m")
	if c.M < c.N {
		c.N, c.M = c.M, c.N
	}
	switch rapid.IntRange(0, 9).Draw(t, "initial_kind") {
	case 0:
		c.Initial = rapid.Int64Range(math.MinInt64, 0).Draw(t, "initial_nonpos")
	case 1:
		c.Initial = rapid.SampledFrom([]int64{0, -1, math.MinInt64}).Draw(t, "initial_b")
	case 2, 3, 4, 5:
		c.Initial = c08Pow2ish(t, "initial")
	case 6:
		c.Initial = rapid.Int64Range(1, math.MaxInt64).Draw(t, "initial_any")
	default:
		// realistic durations: 1µs .. 1h in odd units
		c.Initial = rapid.Int64Range(1, 3600).Draw(t, "initial_u") * rapid.SampledFrom([]int64{int64(time.Microsecond), int64(time.Millisecond), int64(time.Second), 7, 1000003}).Draw(t, "initial_unit")
	}
	// max: callers (supervisor.WithExponentialBackoff) guarantee max >= initial when initial > 0
	lo := c.Initial
	if lo <= 0 {
		c.Max = rapid.Int64().Draw(t, "max_free")
		return c
	}
	switch rapid.IntRange(0, 5).Draw(t, "max_kind") {
	case 0:
		c.Max = lo
	case 1:
		c.Max = math.MaxInt64
	case 2:
		c.Max = rapid.Int64Range(lo, math.MaxInt64).Draw(t, "max_any")
	case 3:
		j := rapid.IntRange(0, 62).Draw(t, "max_shift")
		v := new(big.Int).Lsh(big.NewInt(lo), uint(j))
		if v.IsInt64() {
			c.Max = v.Int64()
		} else {
			c.Max = math.MaxInt64
		}
	default:
		p := c08Pow2ish(t, "max")
		if p < lo {
			p = lo
		}
		c.Max = p
	}
	return c
}

// c08Ref is min(initial*2^(n-1), max) in exact arithmetic.
func c08Ref(n, initial, max int64) int64 {
	if initial <= 0 || n < 1 {
		return 0
	}
	sh := n - 1
	if sh > 200 {
		sh = 200
	}
	v := new(big.Int).Lsh(big.NewInt(initial), uint(sh))
	if v.Cmp(big.NewInt(max)) > 0 {
		return max
	}
	return v.Int64()
}

func c08Call(x *vfkit.X, n, initial, max int64) (d int64) {
	defer func() {
		if p := recover(); p != nil {
			x.Failf("backoff-panic", "backoffDelay(%d, %d, %d) panicked: %v", n, initial, max, p)
		}
	}()
	return int64(backoffDelay(n, time.Duration(initial), time.Duration(max)))
}

func c08ExecBackoff(x *vfkit.X, c c08BackoffCase) {
	for _, n := range []int64{c.N, c.M} {
		got := c08Call(x, n, c.Initial, c.Max)
		want := c08Ref(n, c.Initial, c.Max)
		if c.Initial > 0 && n >= 1 {
			exact := new(big.Int).Lsh(big.NewInt(c.Initial), uint(minI64(n-1, 200)))
			if !exact.IsInt64() {
				x.NonTrivial()
				x.Class("product_overflows_int64")
			}
			if n >= 62 {
				x.NonTrivial()
				x.Class("n>=62")
			}
			if exact.IsInt64() && exact.Int64() <= c.Max {
				x.Class("below_cap")
			} else {
				x.Class("capped")
			}
		} else {
			x.Class("disabled_or_n<1")
		}
		if got < 0 {
			x.Failf("backoff-negative", "backoffDelay(%d, %d, %d) = %d is negative", n, c.Initial, c.Max, got)
		}
		if c.Initial > 0 && got > c.Max {
			x.Failf("backoff-above-max", "backoffDelay(%d, %d, %d) = %d exceeds max", n, c.Initial, c.Max, got)
		}
		if got != want {
			fp := "backoff-wrong-value"
			if c.Initial > 0 && n >= 1 && got < want {
				fp = "backoff-wrapped-shift-below-min"
			}
			x.Failf(fp, "backoffDelay(%d, %d, %d) = %d, want min(initial*2^(n-1), max) = %d", n, c.Initial, c.Max, got, want)
		}
	}
	a, b := c08Call(x, c.N, c.Initial, c.Max), c08Call(x, c.M, c.Initial, c.Max)
	if c.N >= 1 && a > b {
		x.Failf("backoff-not-monotone", "delay decreases as faults accumulate: n=%d -> %d, m=%d -> %d (initial=%d max=%d)", c.N, a, c.M, b, c.Initial, c.Max)
	}
}

func minI64(a, b int64) int64 {
	if a < b {
		return a
	}
	return b
}

func TestVF_C08_backoff(t *testing.T) {
	vfkit.Run(t, vfkit.Spec[c08BackoffCase]{
		ID: "C08", Unit: "backoff",
		Rule: "cases = (n<=m fault counts, initial, max>=initial when initial>0) boundary-biased over all int64; non-trivial = initial*2^(n-1) overflows int64 or n>=62; distinct = distinct (n,m,initial,max)",
		Gen:  c08GenBackoff, Exec: c08ExecBackoff,
	})
}

// ---- C08: consecutive-fault counter ------------------------------------------

type c08FaultStep struct {
	AgeKind int   `json:"age_kind"` // 0: no previous fault, 1: well inside window, 2: well outside window, 3: tiny age
	Frac    int64 `json:"frac"`     // per-mille position inside the chosen region
}

type c08FaultCase struct {
	Window int64          `json:"window"` // ns, may be <= 0
	Steps  []c08FaultStep `json:"steps"`
}

func c08GenFault(t *rapid.T) c08FaultCase {
	var c c08FaultCase
	switch rapid.IntRange(0, 4).Draw(t, "window_kind") {
	case 0:
		c.Window = rapid.SampledFrom([]int64{0, -1, -int64(time.Second), math.MinInt64}).Draw(t, "window_nonpos")
	default:
		c.Window = rapid.Int64Range(int64(time.Second), int64(240*time.Hour)).Draw(t, "window")
	}
	n := rapid.IntRange(1, 12).Draw(t, "steps")
	for i := 0; i < n; i++ {
		c.Steps = append(c.Steps, c08FaultStep{
			AgeKind: rapid.IntRange(1, 3).Draw(t, "age_kind"),
			Frac:    rapid.Int64Range(0, 1000).Draw(t, "frac"),
		})
	}
	return c
}

func c08ExecFault(x *vfkit.X, c c08FaultCase) {
	pid := &PID{}
	model := int64(0)
	resets := 0
	for i, s := range c.Steps {
		now := time.Now().UnixNano()
		w := c.Window
		var age int64
		expectReset := false
		if i == 0 {
			// first fault ever: lastFaultAtNano == 0
			age = -1
		} else {
			eff := w
			if eff <= 0 {
				eff = int64(time.Hour)
			}
			switch s.AgeKind {
			case 1: // clearly inside: age in [0, eff/2]
				age = eff / 2 * s.Frac / 1000
			case 2: // clearly outside: age in [2*eff, 4*eff]
				age = 2*eff + 2*eff*s.Frac/1000
				expectReset = w > 0
			default: // tiny age
				age = s.Frac
			}
			pid.lastFaultAtNano.Store(now - age)
		}
		if expectReset {
			model = 0
			resets++
		}
		model++
		got := pid.recordFault(time.Duration(w))
		if got != model {
			fp := "faultcount-wrong"
			if w <= 0 {
				fp = "faultcount-reset-with-nonpositive-window"
			} else if expectReset {
				fp = "faultcount-not-reset-after-window"
			} else {
				fp = "faultcount-reset-inside-window"
			}
			x.Failf(fp, "step %d: window=%d age=%d: recordFault returned %d, model %d", i, w, age, got, model)
		}
		if last := pid.lastFaultAtNano.Load(); last < now {
			x.Failf("faultcount-timestamp-not-updated", "step %d: lastFaultAtNano=%d < now=%d", i, last, now)
		}
	}
	if resets > 0 && len(c.Steps) >= 3 {
		x.NonTrivial()
	}
	if c.Window <= 0 {
		x.Class("nonpositive_window")
		if len(c.Steps) >= 3 {
			x.NonTrivial()
		}
	}
	if resets > 0 {
		x.Class("has_reset")
	}
}

func TestVF_C08_faultcount(t *testing.T) {
	vfkit.Run(t, vfkit.Spec[c08FaultCase]{
		ID: "C08", Unit: "faultcount",
		Rule: "cases = reset window (positive or not) and 1..12 faults whose age since the previous fault is clearly inside (<=w/2) or clearly outside (>=2w) the window; non-trivial = >=3 faults with a reset or a non-positive window",
		Gen:  c08GenFault, Exec: c08ExecFault,
	})
}

//go:build verif

package actor

import (
	"context"
	"errors"
	"fmt"
	stdnet "net"
	"os"
	"strconv"
	"strings"
	"sync"
	"sync/atomic"
	"testing"
	"time"

	"pgregory.net/rapid"

	gerrors "github.com/tochemey/goakt/v4/errors"
	inet "github.com/tochemey/goakt/v4/internal/net"
	"github.com/tochemey/goakt/v4/internal/vfkit"
	"github.com/tochemey/goakt/v4/log"
	"github.com/tochemey/goakt/v4/remote"
	"github.com/tochemey/goakt/v4/test/data/testpb"
)

// ---------------------------------------------------------------------------
// C28 / actor: two real actor systems with remoting on loopback. Goroutines on
// system A issue concurrent Ask / PID.Ask / PID.BatchAsk calls to echo actors
// on system B (production path: client.RemoteAsk / RemoteBatchAsk -> pooled
// inet.Client -> remoteAskHandler -> actor -> reply). Every message carries a
// unique token and the actor answers with the same token; a message planned
// "slow" is answered only after its caller has given up (50..150 ms timeout).
// Oracle: a call that returns without error returns the token(s) it sent, in
// request order; a call whose messages are all answered at once and that has a
// 30 s timeout must not fail.
// ---------------------------------------------------------------------------

type c28aCall struct {
	Kind      int    `json:"kind"`   // 0 Ask (no sender), 1 PID.Ask, 2 PID.BatchAsk
	Target    int    `json:"target"` // echo actor index
	Slow      []bool `json:"slow"`   // per message: reply withheld until every slow call of the wave has returned
	TimeoutMs int    `json:"timeout_ms"`
}

type c28aCase struct {
	Waves [][]c28aCall `json:"waves"`
}

const c28aTargets = 4

func c28aGen(t *rapid.T) c28aCase {
	var c c28aCase
	nw := rapid.IntRange(1, 3).Draw(t, "waves")
	for w := 0; w < nw; w++ {
		nc := rapid.IntRange(1, 8).Draw(t, "calls")
		var wave []c28aCall
		for i := 0; i < nc; i++ {
			var call c28aCall
			call.Kind = rapid.IntRange(0, 2).Draw(t, "kind")
			call.Target = rapid.IntRange(0, c28aTargets-1).Draw(t, "target")
			n := 1
			if call.Kind == 2 {
				n = rapid.IntRange(1, 5).Draw(t, "n")
			}
			faulty := rapid.IntRange(0, 3).Draw(t, "faulty") == 0
			anySlow := false
			for j := 0; j < n; j++ {
				s := faulty && rapid.Bool().Draw(t, "slow")
				anySlow = anySlow || s
				call.Slow = append(call.Slow, s)
			}
			call.TimeoutMs = 30000
			if anySlow {
				call.TimeoutMs = rapid.SampledFrom([]int{50, 100, 150}).Draw(t, "timeout_ms")
			}
			wave = append(wave, call)
		}
		c.Waves = append(c.Waves, wave)
	}
	return c
}

type c28aState struct {
	nonce   string
	slow    map[string]bool
	wave    map[string]int
	release []chan struct{}
	endCh   chan struct{}

	clock atomic.Int64
	mu    sync.Mutex
	trace map[string][]string // token -> what the echo actor did with it, with logical time
}

func (st *c28aState) note(tok, what string) {
	t := st.clock.Add(1)
	st.mu.Lock()
	st.trace[tok] = append(st.trace[tok], fmt.Sprintf("t%d:%s", t, what))
	st.mu.Unlock()
}

var (
	c28aCur atomic.Pointer[c28aState]
	c28aSeq atomic.Int64
	// tokens of every message whose call returned an error, for the life of the process
	c28aFailedToks sync.Map
)

const fpC28StaleReply = "stale-reply-of-timed-out-ask-delivered-to-later-ask"

type c28aEcho struct{}

func (*c28aEcho) PreStart(*Context) error { return nil }
func (*c28aEcho) PostStop(*Context) error { return nil }
func (*c28aEcho) Receive(ctx *ReceiveContext) {
	m, ok := ctx.Message().(*testpb.Reply)
	if !ok {
		return
	}
	tok := m.GetContent()
	st := c28aCur.Load()
	if st != nil && !strings.HasPrefix(tok, st.nonce+"|") {
		st = nil
	}
	if st != nil {
		st.note(tok, "received")
	}
	if st != nil && st.slow[tok] {
		select {
		case <-st.release[st.wave[tok]]:
			st.note(tok, "released")
		case <-st.endCh:
			st.note(tok, "case-ended")
		case <-time.After(60 * time.Second):
			st.note(tok, "gave-up-60s")
		}
	}
	ctx.Response(&testpb.Reply{Content: tok})
	if st != nil {
		st.note(tok, "responded")
	}
}

type c28aIdle struct{}

func (*c28aIdle) PreStart(*Context) error { return nil }
func (*c28aIdle) PostStop(*Context) error { return nil }
func (*c28aIdle) Receive(*ReceiveContext) {}

type c28aFixture struct {
	a, b    *actorSystem
	sender  *PID
	targets []*PID
	err     error
}

var (
	c28aFixOnce sync.Once
	c28aFix     c28aFixture
)

func c28aStartSystem(name string) (*actorSystem, error) {
	var lastErr error
	for attempt := 0; attempt < 5; attempt++ {
		port := inet.Get(1)[0]
		sys, err := NewActorSystem(name, WithLogger(log.DiscardLogger), WithRemote(remote.NewConfig("127.0.0.1", port)))
		if err != nil {
			return nil, err
		}
		if err := sys.Start(context.Background()); err != nil {
			lastErr = err
			continue
		}
		return sys.(*actorSystem), nil
	}
	return nil, lastErr
}

func c28aFixtures(t *testing.T) *c28aFixture {
	c28aFixOnce.Do(func() {
		f := &c28aFix
		a, err := c28aStartSystem("c28a")
		if err != nil {
			f.err = err
			return
		}
		b, err := c28aStartSystem("c28b")
		if err != nil {
			_ = a.Stop(context.Background())
			f.err = err
			return
		}
		f.a, f.b = a, b
		t.Cleanup(func() {
			_ = a.Stop(context.Background())
			_ = b.Stop(context.Background())
		})
		ctx := context.Background()
		for i := 0; i < c28aTargets; i++ {
			pid, err := b.Spawn(ctx, "c28-echo-"+strconv.Itoa(i), &c28aEcho{}, WithLongLived())
			if err != nil {
				f.err = err
				return
			}
			f.targets = append(f.targets, newRemotePID(pid.getAddress(), a.remoting))
		}
		f.sender, f.err = a.Spawn(ctx, "c28-sender", &c28aIdle{}, WithLongLived())
	})
	return &c28aFix
}

func c28aIsTimeout(err error) bool {
	var ne stdnet.Error
	return errors.Is(err, context.DeadlineExceeded) || errors.Is(err, os.ErrDeadlineExceeded) || errors.Is(err, gerrors.ErrRequestTimeout) ||
		(errors.As(err, &ne) && ne.Timeout()) || strings.Contains(err.Error(), "timed out") || strings.Contains(err.Error(), "timeout")
}

func c28aExec(fix *c28aFixture) func(x *vfkit.X, c c28aCase) {
	return func(x *vfkit.X, c c28aCase) {
		if fix.err != nil {
			x.Class("infra_unavailable")
			x.Logf("fixture: %v", fix.err)
			return
		}
		st := &c28aState{nonce: "c28a-" + strconv.FormatInt(c28aSeq.Add(1), 10), slow: map[string]bool{}, wave: map[string]int{}, endCh: make(chan struct{}), trace: map[string][]string{}}
		toks := make([][][]string, len(c.Waves))
		for w, wave := range c.Waves {
			st.release = append(st.release, make(chan struct{}))
			toks[w] = make([][]string, len(wave))
			for ci, call := range wave {
				for mi, s := range call.Slow {
					tok := fmt.Sprintf("%s|%d|%d|%d", st.nonce, w, ci, mi)
					st.slow[tok] = s
					st.wave[tok] = w
					toks[w][ci] = append(toks[w][ci], tok)
				}
			}
		}
		c28aCur.Store(st)
		defer c28aCur.Store(nil)
		defer close(st.endCh)

		type result struct {
			got  []string
			err  error
			typ  string
			tick int64
		}
		timedOutBefore, okAfterTimeout := false, false
		for w, wave := range c.Waves {
			results := make([]result, len(wave))
			start := make(chan struct{})
			var wg, slowWG sync.WaitGroup
			for ci, call := range wave {
				hasSlow := false
				for _, s := range call.Slow {
					hasSlow = hasSlow || s
				}
				wg.Add(1)
				if hasSlow {
					slowWG.Add(1)
				}
				go func(ci int, call c28aCall, hasSlow bool) {
					defer wg.Done()
					if hasSlow {
						defer slowWG.Done()
					}
					my := toks[w][ci]
					timeout := time.Duration(call.TimeoutMs) * time.Millisecond
					target := fix.targets[call.Target]
					ctx := context.Background()
					var res result
					<-start
					func() {
						defer func() {
							if p := recover(); p != nil {
								res.err = fmt.Errorf("PANIC: %v", p)
							}
						}()
						switch call.Kind {
						case 0, 1:
							var resp any
							if call.Kind == 0 {
								resp, res.err = Ask(ctx, target, &testpb.Reply{Content: my[0]}, timeout)
							} else {
								resp, res.err = fix.sender.Ask(ctx, target, &testpb.Reply{Content: my[0]}, timeout)
							}
							if res.err == nil {
								if r, ok := resp.(*testpb.Reply); ok {
									res.got = []string{r.GetContent()}
								} else {
									res.typ = fmt.Sprintf("%T", resp)
								}
							}
						default:
							msgs := make([]any, len(my))
							for i, tok := range my {
								msgs[i] = &testpb.Reply{Content: tok}
							}
							var ch chan any
							ch, res.err = fix.sender.BatchAsk(ctx, target, msgs, timeout)
							if res.err == nil {
								for v := range ch {
									if r, ok := v.(*testpb.Reply); ok {
										res.got = append(res.got, r.GetContent())
									} else {
										res.typ = fmt.Sprintf("%T", v)
									}
								}
							}
						}
					}()
					res.tick = st.clock.Add(1)
					results[ci] = res
				}(ci, call, hasSlow)
			}
			close(start)
			// the withheld replies are released as soon as every call that waits for one has returned,
			// so that healthy calls queued behind a slow message in the same mailbox can complete
			slowWG.Wait()
			tRelease := st.clock.Add(1)
			close(st.release[w])
			wg.Wait()

			waveTimedOut := false
			for ci, res := range results {
				if res.err != nil {
					for _, t := range toks[w][ci] {
						c28aFailedToks.Store(t, true)
					}
				}
			}
			for ci, res := range results {
				call := wave[ci]
				my := toks[w][ci]
				healthy := call.TimeoutMs >= 30000
				if res.err != nil {
					if strings.HasPrefix(res.err.Error(), "PANIC") {
						x.Failf("ask-panic", "wave %d call %d: %v", w, ci, res.err)
					}
					if c28aIsTimeout(res.err) {
						x.Class("call_timed_out")
						waveTimedOut = true
						if healthy {
							x.Class("inconclusive_healthy_timeout")
						}
						continue
					}
					var oe *stdnet.OpError
					if errors.As(res.err, &oe) && oe.Op == "dial" {
						x.Class("inconclusive_dial")
						continue
					}
					x.Class("call_failed_other")
					x.Logf("wave %d call %d failed: %v", w, ci, res.err)
					if healthy {
						x.Failf("healthy-ask-failed", "wave %d call %d (kind %d, %d message(s), every message answered at once, 30 s timeout) failed: %v", w, ci, call.Kind, len(my), res.err)
					}
					continue
				}
				if res.typ != "" {
					x.Failf("reply-of-wrong-type", "wave %d call %d got a %s", w, ci, res.typ)
				}
				if len(res.got) != len(my) {
					x.Failf("reply-count", "wave %d call %d (kind %d) sent %d message(s) and got %d repl(ies) without error: %v", w, ci, call.Kind, len(my), len(res.got), res.got)
				}
				foreign := 0
				firstBad := -1
				allFromFailedCalls := true
				for i := range my {
					if res.got[i] != my[i] {
						foreign++
						if firstBad < 0 {
							firstBad = i
						}
						if _, ok := c28aFailedToks.Load(res.got[i]); !ok {
							allFromFailedCalls = false
						}
					}
				}
				if foreign > 0 {
					i := firstBad
					detail := fmt.Sprintf("wave %d call %d (kind %d, target %d, %d message(s)): reply %d carries %q, the request carried %q; replies %v", w, ci, call.Kind, call.Target, len(my), i, res.got[i], my[i], res.got)
					own := false
					for _, t := range my {
						if t == res.got[i] {
							own = true
						}
					}
					switch {
					case own:
						x.Failf("batch-replies-out-of-request-order", "%s", detail)
					case len(my) >= 2 && foreign == len(my):
						// the whole response belongs to someone else: a response frame read by the wrong call
						x.Failf("reply-frame-of-another-call", "%s", detail)
					case allFromFailedCalls:
						// the foreign reply answers a message whose own ask had ended with a timeout: the late
						// ReceiveContext.Response landed in a response channel that was already back in the pool
						// and was handed to this ask (system-level finding, listed under C15 as well)
						if x.Known(fpC28StaleReply) {
							x.Class("known_" + fpC28StaleReply + "_tolerated")
						} else {
							x.Failf(fpC28StaleReply, "%s — the foreign token belongs to a message whose own call ended with an error (timeout) earlier in this process", detail)
						}
					default:
						x.Failf("reply-belongs-to-another-request", "%s", detail)
					}
				}
				for _, s := range call.Slow {
					if s {
						// The call got its own token although the echo actor was told to withhold the reply
						// until the call had returned. The property is satisfied (own reply); this is only a
						// harness expectation, seen once in ~140 000 cases and not reproducible: counted, traced.
						st.mu.Lock()
						tr := fmt.Sprintf("%v", st.trace[my[0]])
						st.mu.Unlock()
						x.Class("withheld_reply_arrived_before_release")
						x.Logf("wave %d call %d (kind %d, target %d, timeout %d ms) returned %v without error although a reply was withheld; release at t%d, call returned at t%d; echo actor trace of %s: %s", w, ci, call.Kind, call.Target, call.TimeoutMs, res.got, tRelease, res.tick, my[0], tr)
						break
					}
				}
				x.Class("call_ok")
				x.Class(fmt.Sprintf("call_ok_kind_%d", call.Kind))
				if timedOutBefore {
					okAfterTimeout = true
				}
			}
			if waveTimedOut {
				timedOutBefore = true
			}
		}
		if okAfterTimeout {
			x.Class("success_after_timeout")
			x.NonTrivial()
		}
	}
}

func TestVF_C28_actor(t *testing.T) {
	fix := c28aFixtures(t)
	vfkit.Run(t, vfkit.Spec[c28aCase]{
		ID: "C28", Unit: "actor",
		Rule: "cases = 1..3 waves of 1..8 concurrent Ask / PID.Ask / PID.BatchAsk(1..5 messages) calls from a real actor system A to 4 echo actors on a second real system B over loopback remoting (client.RemoteAsk / RemoteBatchAsk, pooled connections, remoteAskHandler); every message carries a unique token and is answered with the same token; messages planned slow are answered only after their caller (50..150 ms timeout) has returned. A call returning nil error must return exactly its own tokens in request order; a call with only prompt answers and a 30 s timeout must not fail (a timeout there is counted inconclusive). non-trivial = a call timed out in an earlier wave and a later call succeeded; distinct = distinct case",
		Gen:  c28aGen, Exec: c28aExec(fix),
		ReplayReps: 10,
	})
}

//go:build verif

package net

import (
	"context"
	"errors"
	"fmt"
	stdnet "net"
	"os"
	"strconv"
	"strings"
	"sync"
	"sync/atomic"
	"testing"
	"time"

	"google.golang.org/protobuf/proto"
	"pgregory.net/rapid"

	"github.com/tochemey/goakt/v4/internal/vfkit"
	"github.com/tochemey/goakt/v4/test/data/testpb"
)

// ---------------------------------------------------------------------------
// C28 / pool: the real Client (connection pool, SendProto / SendBatchProto)
// against the real ProtoServer on loopback. Every request carries a unique
// token; the server echoes the token following a generated plan per request:
//
//   now   echo immediately
//   late  echo only after the whole wave of concurrent calls has returned
//         (the caller has a 5..30 ms deadline, so it gives up first and the
//         response becomes stale)
//   close close the connection instead of answering
//   cancel-echo  (batch calls, non-final request) cancel the caller's context,
//         then echo: the client notices the cancellation between two reads and
//         abandons a connection that still has responses in flight
//
// Calls come in waves of concurrent goroutines sharing one Client; between two
// waves the harness releases the late responses. Oracle: a call that returns
// without error returns the echo of its own token(s), batch responses in
// request order; a call whose requests are all "now" with a 30 s deadline must
// not fail.
// ---------------------------------------------------------------------------

const (
	c28Now        = 0
	c28Late       = 1
	c28Close      = 2
	c28CancelEcho = 3 // cancel the caller's (deadline-free) context, then echo: only at a non-final position of a batch call
)

type c28Call struct {
	Batch     bool  `json:"batch"`      // SendBatchProto (len(Plan) requests) vs SendProto (1 request)
	Plan      []int `json:"plan"`       // per request
	TimeoutMs int   `json:"timeout_ms"` // 0 = 30 s (healthy calls); >0 the caller's deadline in ms; -1 no deadline, cancellation only
}

type c28Case struct {
	MaxIdle int         `json:"max_idle"`
	Zstd    bool        `json:"zstd"`
	Waves   [][]c28Call `json:"waves"`
}

func c28GenCall(t *rapid.T) c28Call {
	var c c28Call
	n := 1
	if rapid.IntRange(0, 2).Draw(t, "batch") == 0 {
		c.Batch = true
		n = rapid.IntRange(1, 5).Draw(t, "n")
	}
	if c.Batch && n >= 2 && rapid.IntRange(0, 5).Draw(t, "cancel") == 0 {
		// every request answered at once, but the caller cancels after a generated response
		at := rapid.IntRange(0, n-2).Draw(t, "cancel_at")
		for i := 0; i < n; i++ {
			a := c28Now
			if i == at {
				a = c28CancelEcho
			}
			c.Plan = append(c.Plan, a)
		}
		c.TimeoutMs = -1 // cancel-only context, no deadline
		return c
	}
	faulty := rapid.IntRange(0, 2).Draw(t, "faulty") == 0
	late := false
	for i := 0; i < n; i++ {
		a := c28Now
		if faulty {
			a = rapid.SampledFrom([]int{c28Now, c28Late, c28Late, c28Close}).Draw(t, "act")
		}
		if a == c28Late {
			late = true
		}
		c.Plan = append(c.Plan, a)
	}
	// a withheld response needs a caller that gives up; healthy calls sometimes get a short deadline too
	if late || rapid.IntRange(0, 7).Draw(t, "short") == 0 {
		c.TimeoutMs = rapid.SampledFrom([]int{5, 10, 30}).Draw(t, "timeout_ms")
	}
	return c
}

func c28Gen(t *rapid.T) c28Case {
	var c c28Case
	c.MaxIdle = rapid.SampledFrom([]int{0, 1, 1, 2, 2, 4}).Draw(t, "max_idle")
	c.Zstd = rapid.IntRange(0, 5).Draw(t, "zstd") == 0
	nw := rapid.IntRange(1, 4).Draw(t, "waves")
	for w := 0; w < nw; w++ {
		nc := rapid.IntRange(1, 8).Draw(t, "calls")
		var wave []c28Call
		for i := 0; i < nc; i++ {
			wave = append(wave, c28GenCall(t))
		}
		c.Waves = append(c.Waves, wave)
	}
	return c
}

type c28State struct {
	nonce string
	plan  map[string]int
	wave  map[string]int
	late  []chan struct{} // closed when wave w is over
	endCh chan struct{}

	mu      sync.Mutex
	handled map[string]int
	cancels map[string]context.CancelFunc // token of a cancel-echo request -> cancel of its caller's context
}

var (
	c28Cur     atomic.Pointer[c28State]
	c28Seq     atomic.Int64
	c28SrvOnce sync.Once
	c28Ports   [2]int // plain, zstd
	c28ZstdClient ConnWrapper
	c28SrvErr  error
)

func c28Handle(_ context.Context, _ Connection, req proto.Message) (proto.Message, error) {
	r, ok := req.(*testpb.Reply)
	if !ok {
		return nil, errors.New("c28: unexpected request type")
	}
	tok := r.GetContent()
	st := c28Cur.Load()
	if st == nil || !strings.HasPrefix(tok, st.nonce+"|") {
		return &testpb.Reply{Content: tok}, nil
	}
	st.mu.Lock()
	st.handled[tok]++
	st.mu.Unlock()
	switch st.plan[tok] {
	case c28Late:
		select {
		case <-st.late[st.wave[tok]]:
		case <-st.endCh:
		}
		return &testpb.Reply{Content: tok}, nil
	case c28Close:
		return nil, errors.New("c28 planned close")
	case c28CancelEcho:
		st.mu.Lock()
		cancel := st.cancels[tok]
		st.mu.Unlock()
		if cancel != nil {
			cancel()
		}
		return &testpb.Reply{Content: tok}, nil
	default:
		return &testpb.Reply{Content: tok}, nil
	}
}

func c28Servers() error {
	c28SrvOnce.Do(func() {
		if w, err := NewZstdConnWrapper(); err != nil {
			c28SrvErr = err
			return
		} else {
			c28ZstdClient = w
		}
		for i := 0; i < 2; i++ {
			opts := []ProtoServerOption{WithProtoHandler("testpb.Reply", c28Handle)}
			if i == 1 {
				w, err := NewZstdConnWrapper()
				if err != nil {
					c28SrvErr = err
					return
				}
				opts = append(opts, WithProtoServerConnWrapper(w))
			}
			ps, err := NewProtoServer("127.0.0.1:0", opts...)
			if err == nil {
				err = ps.Listen()
			}
			if err != nil {
				c28SrvErr = err
				return
			}
			c28Ports[i] = ps.ListenAddr().Port
			go func() { _ = ps.Serve() }()
		}
	})
	return c28SrvErr
}

type c28Result struct {
	toks  []string
	resps []proto.Message
	err   error
}

func c28IsTimeout(err error) bool {
	var ne stdnet.Error
	return errors.Is(err, context.DeadlineExceeded) || errors.Is(err, os.ErrDeadlineExceeded) || (errors.As(err, &ne) && ne.Timeout())
}

func c28IsDial(err error) bool {
	var oe *stdnet.OpError
	return errors.As(err, &oe) && oe.Op == "dial"
}

func c28Exec(x *vfkit.X, c c28Case) {
	if err := c28Servers(); err != nil {
		x.Class("infra_unavailable")
		x.Logf("servers: %v", err)
		return
	}
	st := &c28State{nonce: "c28-" + strconv.FormatInt(c28Seq.Add(1), 10), plan: map[string]int{}, wave: map[string]int{}, endCh: make(chan struct{}), handled: map[string]int{}, cancels: map[string]context.CancelFunc{}}
	toks := make([][][]string, len(c.Waves))
	for w, wave := range c.Waves {
		st.late = append(st.late, make(chan struct{}))
		toks[w] = make([][]string, len(wave))
		for ci, call := range wave {
			for ri, a := range call.Plan {
				tok := fmt.Sprintf("%s|%d|%d|%d", st.nonce, w, ci, ri)
				st.plan[tok] = a
				st.wave[tok] = w
				toks[w][ci] = append(toks[w][ci], tok)
			}
		}
	}
	c28Cur.Store(st)
	defer c28Cur.Store(nil)
	defer close(st.endCh)

	port := c28Ports[0]
	opts := []ClientOption{WithMaxIdleConns(c.MaxIdle)}
	if c.Zstd {
		port = c28Ports[1]
		// one wrapper per process: its encoder / decoder pools are what keeps zstd connections cheap
		opts = append(opts, WithClientConnWrapper(c28ZstdClient))
	}
	client := NewClient("127.0.0.1:"+strconv.Itoa(port), opts...)
	defer client.Close()

	timedOutBefore, successAfterTimeout := false, false
	for w, wave := range c.Waves {
		results := make([]c28Result, len(wave))
		start := make(chan struct{})
		var wg sync.WaitGroup
		for ci, call := range wave {
			wg.Add(1)
			var cctx context.Context
			var ccancel context.CancelFunc
			if call.TimeoutMs < 0 {
				cctx, ccancel = context.WithCancel(context.Background())
				st.mu.Lock()
				for ri, a := range call.Plan {
					if a == c28CancelEcho {
						st.cancels[toks[w][ci][ri]] = ccancel
					}
				}
				st.mu.Unlock()
			}
			go func(ci int, call c28Call) {
				defer wg.Done()
				d := 30 * time.Second
				if call.TimeoutMs > 0 {
					d = time.Duration(call.TimeoutMs) * time.Millisecond
				}
				<-start
				ctx, cancel := cctx, ccancel
				if ctx == nil {
					ctx, cancel = context.WithTimeout(context.Background(), d)
				}
				defer cancel()
				res := c28Result{toks: toks[w][ci]}
				func() {
					defer func() {
						if p := recover(); p != nil {
							res.err = fmt.Errorf("PANIC: %v", p)
						}
					}()
					if call.Batch {
						reqs := make([]proto.Message, len(res.toks))
						for i, tok := range res.toks {
							reqs[i] = &testpb.Reply{Content: tok}
						}
						res.resps, res.err = client.SendBatchProto(ctx, reqs)
					} else {
						var resp proto.Message
						resp, res.err = client.SendProto(ctx, &testpb.Reply{Content: res.toks[0]})
						if res.err == nil {
							res.resps = []proto.Message{resp}
						}
					}
				}()
				results[ci] = res
			}(ci, call)
		}
		close(start)
		wg.Wait()
		close(st.late[w]) // the withheld responses of this wave are written now: nobody may ever read them

		waveTimedOut := false
		for ci, res := range results {
			call := wave[ci]
			healthy := call.TimeoutMs == 0
			for _, a := range call.Plan {
				if a != c28Now {
					healthy = false
				}
			}
			if res.err != nil {
				if strings.HasPrefix(res.err.Error(), "PANIC") {
					x.Failf("client-panic", "wave %d call %d: %v", w, ci, res.err)
				}
				switch {
				case errors.Is(res.err, context.Canceled):
					x.Class("call_cancelled_between_reads")
					waveTimedOut = true
				case c28IsTimeout(res.err):
					x.Class("call_timed_out")
					waveTimedOut = true
				case c28IsDial(res.err):
					x.Class("inconclusive_dial")
				default:
					x.Class("call_failed_other")
				}
				if healthy && !c28IsTimeout(res.err) && !c28IsDial(res.err) {
					x.Failf("healthy-exchange-failed", "wave %d call %d (%d request(s), all answered immediately, 30 s deadline, maxIdle=%d zstd=%v) failed: %v", w, ci, len(call.Plan), c.MaxIdle, c.Zstd, res.err)
				}
				if healthy {
					x.Class("inconclusive_healthy_timeout")
				}
				continue
			}
			if len(res.resps) != len(res.toks) {
				x.Failf("response-count", "wave %d call %d sent %d request(s) and got %d response(s) without error", w, ci, len(res.toks), len(res.resps))
			}
			for i, m := range res.resps {
				r, ok := m.(*testpb.Reply)
				if !ok {
					x.Failf("response-of-wrong-type", "wave %d call %d response %d is a %T", w, ci, i, m)
				}
				if r.GetContent() != res.toks[i] {
					kind := "foreign"
					if c28OwnIndex(res.toks, r.GetContent()) >= 0 {
						kind = "own-but-out-of-order"
					}
					fp := "response-belongs-to-another-request"
					if kind != "foreign" {
						fp = "batch-responses-out-of-request-order"
					}
					x.Failf(fp, "wave %d call %d (batch=%v, %d requests, maxIdle=%d zstd=%v): response %d carries token %q, the request carried %q (%s; the token was planned as action %d in wave %d)",
						w, ci, call.Batch, len(res.toks), c.MaxIdle, c.Zstd, i, r.GetContent(), res.toks[i], kind, st.plan[r.GetContent()], st.wave[r.GetContent()])
				}
			}
			for _, a := range call.Plan {
				if a == c28Late || a == c28Close {
					x.Failf("success-without-answer", "wave %d call %d returned without error although the server withheld or refused one of its responses (plan %v)", w, ci, call.Plan)
				}
			}
			x.Class("call_ok")
			if timedOutBefore {
				successAfterTimeout = true
			}
		}
		if waveTimedOut {
			timedOutBefore = true
		}
	}
	st.mu.Lock()
	for tok, n := range st.handled {
		if n > 1 {
			st.mu.Unlock()
			x.Failf("request-handled-twice", "the server received request %q %d times", tok, n)
		}
	}
	st.mu.Unlock()
	x.Class(fmt.Sprintf("max_idle_%d", c.MaxIdle))
	if c.Zstd {
		x.Class("zstd")
	}
	if successAfterTimeout {
		x.Class("success_after_timeout")
		if c.MaxIdle <= 2 {
			x.NonTrivial()
		}
	}
}

func c28OwnIndex(toks []string, tok string) int {
	for i, v := range toks {
		if v == tok {
			return i
		}
	}
	return -1
}

func TestVF_C28_pool(t *testing.T) {
	vfkit.Run(t, vfkit.Spec[c28Case]{
		ID: "C28", Unit: "pool",
		Rule: "cases = maxIdleConns in {0,1,2,4} x {plain, zstd} x 1..4 waves of 1..8 concurrent SendProto / SendBatchProto(1..5 requests) calls sharing one real Client against the real ProtoServer on loopback; every request carries a unique token; server plan per request: echo now | echo only after the wave has returned (caller deadline 5..30 ms, so the response turns stale) | close the connection | (batch calls) cancel the caller's deadline-free context then echo, so the client abandons the connection between two reads; after each wave the withheld responses are released. A call returning nil error must return exactly the echoes of its own tokens in request order; an all-'now' call with a 30 s deadline must not fail (a deadline error there is counted inconclusive). non-trivial = at least one call timed out or was cancelled in an earlier wave and a later call succeeded, on a pool of at most 2 idle connections; distinct = distinct case",
		Gen:  c28Gen, Exec: c28Exec,
		ReplayReps: 10,
	})
}

//go:build verif

package actor

import (
	"context"
	"errors"
	"fmt"
	"os"
	"reflect"
	"strings"
	"sync"
	"sync/atomic"
	"testing"
	"time"

	"pgregory.net/rapid"

	gerrors "github.com/tochemey/goakt/v4/errors"
	"github.com/tochemey/goakt/v4/eventstream"
	"github.com/tochemey/goakt/v4/internal/vfkit"
	"github.com/tochemey/goakt/v4/internal/vfsched"
	"github.com/tochemey/goakt/v4/log"
	"github.com/tochemey/goakt/v4/supervisor"
)

// ---- C07: failures are handled by exactly the configured supervision directive ----
//
// A small real actor family (grandparent G -> parent P -> children C0..C2) is
// spawned on a real ActorSystem. The children share one generated supervisor
// configuration, P has its own. A generated program injects failures (ctx.Err of
// a typed error, panic of an error, panic of a non-error, wrapped errors), sends
// state-changing traffic and reinstates suspended actors. After every operation
// the harness waits on positive completion signals (mailbox markers, a FIFO
// barrier through the shared supervision consumer, PostStart of the new
// incarnation) and compares every family member with a reference supervisor model
// written from the documentation of package supervisor, docs/actor/supervision.mdx
// and the doc comments of handleRestartDirective / PID.Restart / PanicSignal.

// directives (same ordinals as supervisor.Directive) + the model-only outcome
// "no directive -> suspend"
const (
	c07Stop     = 0
	c07Resume   = 1
	c07Restart  = 2
	c07Escalate = 3
	c07Suspend  = 4
)

// error types
const (
	c07EA     = 0 // c07ErrA (value type)
	c07EB     = 1 // *c07ErrB (pointer type)
	c07EC     = 2 // c07ErrC (value type)
	c07EPanic = 3 // errors.PanicError
	c07ENil   = 4 // runtime.PanicNilError (rule key only)
	c07EAny   = 5 // errors.AnyError (rule key only)
)

// failure kinds
const (
	c07KErr      = 0 // ctx.Err(typed error)
	c07KPanicErr = 1 // panic(typed error)      -> PanicError
	c07KPanicStr = 2 // panic("text")           -> PanicError
	c07KErrWrap  = 3 // ctx.Err(fmt.Errorf("%w", typed error)) -> no exact rule can match
	c07KPanicNil = 4 // panic(nil): PanicError or runtime.PanicNilError rule (both accepted)
)

// operations
const (
	c07OpFault     = 0
	c07OpInc       = 1
	c07OpReinstate = 2
)

// model states
const (
	c07Running   = 0
	c07Suspended = 1
	c07Stopped   = 2
)

const (
	c07Cap       = 15 * time.Second // completion-signal cap: reaching it is inconclusive
	c07StallCap  = 5 * time.Second  // a restart that the barriers say was decided must show up within this time
	c07FpStall   = "restart-expected-child-stays-suspended"
	c07FpCount   = "restart-count-reset-when-running-actor-restarts"
	c07FpSysDown = "stop-directive-races-deathwatch-system-shuts-down"
	c07FpDropped = "directive-not-applied-restarted-actor-dropped-from-tree"
)

type c07ErrA struct{ N int }

func (e c07ErrA) Error() string { return fmt.Sprintf("errA-%d", e.N) }

type c07ErrB struct{ N int }

func (e *c07ErrB) Error() string { return fmt.Sprintf("errB-%d", e.N) }

type c07ErrC struct{ N int }

func (e c07ErrC) Error() string { return fmt.Sprintf("errC-%d", e.N) }

type c07ErrZ struct{}

func (c07ErrZ) Error() string { return "sentinel" }

func c07ErrOf(i, n int) error {
	switch i {
	case c07EA:
		return c07ErrA{N: n}
	case c07EB:
		return &c07ErrB{N: n}
	case c07EC:
		return c07ErrC{N: n}
	case c07EPanic:
		return gerrors.NewPanicError(fmt.Errorf("inner-%d", n))
	}
	panic("c07: bad error index")
}

// c07TypeKey is the documented rule key: "the concrete (non-pointer) error type
// string as returned by reflect.Type.String()".
func c07TypeKey(i int) string {
	switch i {
	case c07EA:
		return reflect.TypeOf(c07ErrA{}).String()
	case c07EB:
		return reflect.TypeOf(c07ErrB{}).String()
	case c07EC:
		return reflect.TypeOf(c07ErrC{}).String()
	case c07EPanic:
		return reflect.TypeOf(gerrors.PanicError{}).String()
	case c07ENil:
		return "runtime.PanicNilError"
	case c07EAny:
		return reflect.TypeOf(gerrors.AnyError{}).String()
	}
	panic("c07: bad error index")
}

// ---- case ---------------------------------------------------------------------

type c07Rule struct {
	Err int `json:"err"`
	Dir int `json:"dir"`
}

type c07Sup struct {
	OneForAll  bool      `json:"one_for_all"`
	Rules      []c07Rule `json:"rules"`    // WithDirective, in order
	Any        int       `json:"any"`      // WithAnyErrorDirective (-1: none)
	Post       []c07Rule `json:"post"`     // SetDirectiveByType after construction
	PostAny    int       `json:"post_any"` // SetDirectiveByType("errors.AnyError") (-1: none)
	HasRetry   bool      `json:"has_retry"`
	MaxRetries int       `json:"max_retries"`
	TimeoutMs  int       `json:"timeout_ms"` // WithRetry timeout (0 = non-positive)
	Backoff    bool      `json:"backoff"`
	InitMs     int       `json:"init_ms"`
	MaxMs      int       `json:"max_ms"`
	ResetMs    int       `json:"reset_ms"` // 0 -> documented default: maxDelay
}

type c07Failure struct {
	Kind int `json:"kind"`
	Err  int `json:"err"`
}

type c07Step struct {
	Op      int        `json:"op"`
	Pick    int        `json:"pick"` // selects the target among the actors the operation applies to (Pick%4 == 0: P when possible)
	F       c07Failure `json:"f"`
	Repeat  int        `json:"repeat"`   // the fault is injected this many times (crash loop) ...
	Alt     bool       `json:"alt"`      // ... into the same actor, or alternating between the siblings
	LongGap bool       `json:"long_gap"` // sleep >= 4 windows before the fault (windows <= 150 ms only)
	N       int        `json:"n"`
	FromPID bool       `json:"from_pid"` // send with an actor as sender instead of the system
}

type c07Case struct {
	Children   int        `json:"children"`
	Shared     bool       `json:"shared"` // children share ONE *Supervisor instance
	ChildSup   c07Sup     `json:"child_sup"`
	ParentSup  c07Sup     `json:"parent_sup"`
	PReact     bool       `json:"p_react"` // P fails itself when it receives a PanicSignal
	PReactF    c07Failure `json:"p_react_f"`
	Steps      []c07Step  `json:"steps"`
	NoiseSeed  uint64     `json:"noise_seed"`
	NoiseProb  float64    `json:"noise_prob"`
	NoiseSleep int        `json:"noise_sleep"`
}

func c07DirName(d int) string {
	return [...]string{"Stop", "Resume", "Restart", "Escalate", "Suspend(no directive)"}[d]
}

func (f c07Failure) String() string {
	e := [...]string{"ErrA", "*ErrB", "ErrC", "PanicError"}[f.Err]
	switch f.Kind {
	case c07KErr:
		return "ctx.Err(" + e + ")"
	case c07KPanicErr:
		return "panic(" + e + ")"
	case c07KPanicStr:
		return "panic(\"text\")"
	case c07KErrWrap:
		return "ctx.Err(wrap(" + e + "))"
	default:
		return "panic(nil)"
	}
}

// ---- generator ------------------------------------------------------------------

func c07GenDir(t *rapid.T, label string) int {
	return rapid.SampledFrom([]int{c07Stop, c07Resume, c07Resume, c07Restart, c07Restart, c07Restart, c07Escalate}).Draw(t, label)
}

func c07GenSup(t *rapid.T, label string) c07Sup {
	var s c07Sup
	s.OneForAll = rapid.Bool().Draw(t, label+"_ofa")
	if rapid.IntRange(0, 3).Draw(t, label+"_profile") == 0 {
		// crash-loop profile: everything restarts, small budget inside a long window
		// (budget exhaustion, group suspension and alternating siblings are otherwise rare)
		s.Any, s.PostAny = c07Restart, -1
		s.OneForAll = rapid.IntRange(0, 3).Draw(t, label+"_pofa") != 0
		s.HasRetry = true
		s.MaxRetries = rapid.IntRange(1, 3).Draw(t, label+"_pmax")
		s.TimeoutMs = 10000
		if rapid.IntRange(0, 1).Draw(t, label+"_pbackoff") == 0 {
			// resetAfter takes precedence over the WithRetry timeout: with a short
			// one (0 = maxDelay) the loop never exhausts the budget
			s.Backoff = true
			s.InitMs = rapid.IntRange(1, 3).Draw(t, label+"_pinit")
			s.MaxMs = 4 * s.InitMs
			s.ResetMs = rapid.SampledFrom([]int{0, 0, 120, 10000, 10000}).Draw(t, label+"_preset")
		}
		return s
	}
	nr := rapid.IntRange(0, 4).Draw(t, label+"_nrules")
	for i := 0; i < nr; i++ {
		s.Rules = append(s.Rules, c07Rule{
			Err: rapid.SampledFrom([]int{c07EA, c07EB, c07EC, c07EPanic, c07EPanic, c07ENil}).Draw(t, label+"_rerr"),
			Dir: c07GenDir(t, label+"_rdir"),
		})
	}
	s.Any, s.PostAny = -1, -1
	switch rapid.IntRange(0, 5).Draw(t, label+"_anymode") {
	case 0, 1: // constructor catch-all: documented to wipe the specific rules
		s.Any = c07GenDir(t, label+"_any")
	case 2: // catch-all added afterwards: specific rules stay, exact match wins
		s.PostAny = c07GenDir(t, label+"_postany")
	}
	if rapid.IntRange(0, 2).Draw(t, label+"_haspost") == 0 {
		np := rapid.IntRange(1, 2).Draw(t, label+"_npost")
		for i := 0; i < np; i++ {
			s.Post = append(s.Post, c07Rule{
				Err: rapid.SampledFrom([]int{c07EA, c07EB, c07EC, c07EPanic}).Draw(t, label+"_perr"),
				Dir: c07GenDir(t, label+"_pdir"),
			})
		}
	}
	if rapid.IntRange(0, 3).Draw(t, label+"_hasretry") != 0 {
		s.HasRetry = true
		s.MaxRetries = rapid.SampledFrom([]int{0, 1, 1, 2, 2, 3}).Draw(t, label+"_max")
		s.TimeoutMs = rapid.SampledFrom([]int{0, 120, 10000, 10000, 10000}).Draw(t, label+"_timeout")
	}
	if rapid.IntRange(0, 3).Draw(t, label+"_hasbackoff") == 0 {
		s.Backoff = true
		s.InitMs = rapid.IntRange(1, 5).Draw(t, label+"_init")
		s.MaxMs = rapid.SampledFrom([]int{s.InitMs, 2 * s.InitMs, 20}).Draw(t, label+"_maxd")
		s.ResetMs = rapid.SampledFrom([]int{0, 120, 10000, 10000}).Draw(t, label+"_reset")
	}
	return s
}

func c07GenFailure(t *rapid.T, label string) c07Failure {
	k := rapid.SampledFrom([]int{c07KErr, c07KErr, c07KErr, c07KErr, c07KErr, c07KErr, c07KPanicErr, c07KPanicErr, c07KPanicErr, c07KPanicStr, c07KPanicStr, c07KErrWrap, c07KErrWrap, c07KPanicNil}).Draw(t, label+"_kind")
	f := c07Failure{Kind: k}
	switch k {
	case c07KErr, c07KPanicErr:
		f.Err = rapid.SampledFrom([]int{c07EA, c07EA, c07EB, c07EB, c07EC, c07EPanic}).Draw(t, label+"_err")
	case c07KErrWrap:
		f.Err = rapid.SampledFrom([]int{c07EA, c07EB, c07EPanic}).Draw(t, label+"_err")
	}
	return f
}

func c07Gen(t *rapid.T) c07Case {
	var c c07Case
	c.Children = rapid.SampledFrom([]int{1, 2, 2, 3, 3}).Draw(t, "children")
	c.Shared = rapid.Bool().Draw(t, "shared")
	c.ChildSup = c07GenSup(t, "c")
	c.ParentSup = c07GenSup(t, "p")
	c.PReact = rapid.IntRange(0, 2).Draw(t, "preact") != 0
	c.PReactF = c07GenFailure(t, "preactf")
	n := rapid.OneOf(rapid.IntRange(1, 4), rapid.IntRange(3, 10)).Draw(t, "nsteps")
	for i := 0; i < n; i++ {
		var s c07Step
		s.Op = rapid.SampledFrom([]int{c07OpFault, c07OpFault, c07OpFault, c07OpFault, c07OpFault, c07OpInc, c07OpInc, c07OpReinstate, c07OpReinstate}).Draw(t, "op")
		s.Pick = rapid.IntRange(0, 11).Draw(t, "pick")
		s.F = c07GenFailure(t, "f") // a Reinstate with nothing suspended falls back to this fault
		s.Repeat = rapid.SampledFrom([]int{1, 1, 1, 1, 2, 2, 3, 4}).Draw(t, "repeat")
		s.Alt = rapid.IntRange(0, 2).Draw(t, "alt") == 0
		s.LongGap = rapid.IntRange(0, 5).Draw(t, "longgap") == 0
		s.N = rapid.IntRange(1, 3).Draw(t, "n")
		s.FromPID = rapid.Bool().Draw(t, "frompid")
		c.Steps = append(c.Steps, s)
	}
	c.NoiseProb = rapid.SampledFrom([]float64{0, 0, 0.01, 0.05, 0.2}).Draw(t, "noise_prob")
	c.NoiseSleep = rapid.SampledFrom([]int{0, 50, 300}).Draw(t, "noise_sleep")
	c.NoiseSeed = rapid.Uint64().Draw(t, "noise_seed")
	return c
}

// ---- reference model of a supervisor ------------------------------------------------
//
// Written from the documentation:
//   * NewSupervisor defaults: PanicError -> Stop, runtime.PanicNilError -> Restart,
//     strategy one-for-one, no retry budget, no backoff.
//   * WithDirective(err, d) maps the concrete type of err to d (later wins).
//   * WithAnyErrorDirective: "it becomes the sole rule and overrides any
//     error-specific directives".
//   * SetDirectiveByType: "does not clear or override existing rules".
//   * resolution (property C07 / notifyParent comment): exact type, else the
//     any-error rule, else the actor is suspended.

type c07SupModel struct {
	rules     map[int]int
	oneForAll bool
	max       int
	window    time.Duration // reset window; <= 0: budget disabled, counter never resets
	backoff   bool
	initDelay time.Duration
	maxDelay  time.Duration
}

func c07NewSupModel(s c07Sup) *c07SupModel {
	m := &c07SupModel{rules: map[int]int{c07EPanic: c07Stop, c07ENil: c07Restart}, oneForAll: s.OneForAll}
	for _, r := range s.Rules {
		m.rules[r.Err] = r.Dir
	}
	if s.Any >= 0 {
		m.rules = map[int]int{c07EAny: s.Any}
	}
	for _, r := range s.Post {
		m.rules[r.Err] = r.Dir
	}
	if s.PostAny >= 0 {
		m.rules[c07EAny] = s.PostAny
	}
	timeout := time.Duration(-1) // documented default of NewSupervisor: no window
	if s.HasRetry {
		m.max = s.MaxRetries
		timeout = time.Duration(s.TimeoutMs) * time.Millisecond
	}
	m.window = timeout
	if s.Backoff {
		m.backoff = true
		m.initDelay = time.Duration(s.InitMs) * time.Millisecond
		m.maxDelay = time.Duration(s.MaxMs) * time.Millisecond
		if m.maxDelay < m.initDelay {
			m.maxDelay = m.initDelay
		}
		reset := time.Duration(s.ResetMs) * time.Millisecond
		if reset <= 0 {
			reset = m.maxDelay // "When zero it defaults to maxDelay"
		}
		m.window = reset // "backoff's resetAfter ... take precedence over timeout"
	}
	return m
}

func (m *c07SupModel) lookup(key int) int {
	if d, ok := m.rules[key]; ok {
		return d
	}
	if d, ok := m.rules[c07EAny]; ok {
		return d
	}
	return c07Suspend
}

// resolve returns the acceptable outcomes for a failure (one, or two for panic(nil)).
func (m *c07SupModel) resolve(f c07Failure) []int {
	switch f.Kind {
	case c07KErr:
		return []int{m.lookup(f.Err)}
	case c07KPanicErr, c07KPanicStr:
		return []int{m.lookup(c07EPanic)}
	case c07KErrWrap:
		return []int{m.lookup(-1)} // *fmt.wrapError: no exact rule exists
	default:
		a, b := m.lookup(c07EPanic), m.lookup(c07ENil)
		if a == b {
			return []int{a}
		}
		return []int{a, b}
	}
}

// delay is the documented backoff: min(initialDelay << (n-1), maxDelay).
func (m *c07SupModel) delay(n int) time.Duration {
	if !m.backoff || n < 1 {
		return 0
	}
	d := m.initDelay
	for i := 1; i < n; i++ {
		d *= 2
		if d >= m.maxDelay {
			return m.maxDelay
		}
	}
	if d > m.maxDelay {
		d = m.maxDelay
	}
	return d
}

func c07BuildSupervisor(s c07Sup) *supervisor.Supervisor {
	var opts []supervisor.SupervisorOption
	if s.OneForAll {
		opts = append(opts, supervisor.WithStrategy(supervisor.OneForAllStrategy))
	}
	// the catch-all option is placed first on purpose: its documented effect does
	// not depend on its position among the options
	if s.Any >= 0 {
		opts = append(opts, supervisor.WithAnyErrorDirective(supervisor.Directive(s.Any)))
	}
	for _, r := range s.Rules {
		var e error
		if r.Err == c07ENil {
			e = c07PanicNilError()
		} else {
			e = c07ErrOf(r.Err, 0)
		}
		opts = append(opts, supervisor.WithDirective(e, supervisor.Directive(r.Dir)))
	}
	if s.HasRetry {
		opts = append(opts, supervisor.WithRetry(uint32(s.MaxRetries), time.Duration(s.TimeoutMs)*time.Millisecond))
	}
	if s.Backoff {
		opts = append(opts, supervisor.WithExponentialBackoff(time.Duration(s.InitMs)*time.Millisecond, time.Duration(s.MaxMs)*time.Millisecond, time.Duration(s.ResetMs)*time.Millisecond))
	}
	sup := supervisor.NewSupervisor(opts...)
	for _, r := range s.Post {
		sup.SetDirectiveByType(c07TypeKey(r.Err), supervisor.Directive(r.Dir))
	}
	if s.PostAny >= 0 {
		sup.SetDirectiveByType(c07TypeKey(c07EAny), supervisor.Directive(s.PostAny))
	}
	return sup
}

// c07PanicNilError obtains a real *runtime.PanicNilError value.
func c07PanicNilError() (e error) {
	defer func() {
		if r := recover(); r != nil {
			e, _ = r.(error)
		}
	}()
	panic(nil)
}

// ---- instrumented actors --------------------------------------------------------------

type c07Hist struct {
	mu  sync.Mutex
	ts  atomic.Int64
	evs []string
}

func (h *c07Hist) add(format string, args ...any) {
	n := h.ts.Add(1)
	h.mu.Lock()
	if len(h.evs) < 1500 {
		h.evs = append(h.evs, fmt.Sprintf("%04d %s", n, fmt.Sprintf(format, args...)))
	}
	h.mu.Unlock()
}

type c07Sig struct {
	from   string
	reason string
	msg    any
	self   any // the *PanicSignal itself
}

type c07Actor struct {
	name      string
	h         *c07Hist
	preStarts atomic.Int64
	postStops atomic.Int64
	count     atomic.Int64
	postStart atomic.Int64 // incarnation whose PostStart was handled
	marker    atomic.Int64
	react     bool
	reactF    c07Failure

	mu         sync.Mutex
	preStartAt []time.Time
	signals    []c07Sig
}

type c07Fault struct {
	F  c07Failure
	ID int
}
type c07Inc struct{ N int }
type c07Marker struct{ Seq int64 }
type c07Probe struct{}
type c07State struct {
	Inc   int64
	Count int64
}

func (a *c07Actor) PreStart(*Context) error {
	now := time.Now()
	n := a.preStarts.Add(1)
	a.count.Store(0) // fresh state
	a.mu.Lock()
	a.preStartAt = append(a.preStartAt, now)
	a.mu.Unlock()
	a.h.add("%s PreStart #%d", a.name, n)
	return nil
}

func (a *c07Actor) PostStop(*Context) error {
	n := a.postStops.Add(1)
	a.h.add("%s PostStop #%d (incarnation %d)", a.name, n, a.preStarts.Load())
	return nil
}

func c07DoFail(ctx *ReceiveContext, f c07Failure, n int) {
	switch f.Kind {
	case c07KErr:
		ctx.Err(c07ErrOf(f.Err, n))
	case c07KPanicErr:
		panic(c07ErrOf(f.Err, n))
	case c07KPanicStr:
		panic(fmt.Sprintf("text-%d", n))
	case c07KErrWrap:
		ctx.Err(fmt.Errorf("wrapped: %w", c07ErrOf(f.Err, n)))
	default:
		var v any
		panic(v)
	}
}

func (a *c07Actor) Receive(ctx *ReceiveContext) {
	switch m := ctx.Message().(type) {
	case *PostStart:
		a.postStart.Store(a.preStarts.Load())
	case *c07Inc:
		a.count.Add(int64(m.N))
	case *c07Marker:
		a.marker.Store(m.Seq)
	case *c07Probe:
		ctx.Response(&c07State{Inc: a.preStarts.Load(), Count: a.count.Load()})
	case *c07Fault:
		a.h.add("%s (incarnation %d) handles fault #%d %s", a.name, a.preStarts.Load(), m.ID, m.F)
		c07DoFail(ctx, m.F, m.ID)
	case *PanicSignal:
		from := "?"
		if s := ctx.Sender(); s != nil {
			from = s.Name()
		}
		a.mu.Lock()
		a.signals = append(a.signals, c07Sig{from: from, reason: m.Reason(), msg: m.Message(), self: m})
		a.mu.Unlock()
		a.h.add("%s receives PanicSignal from %s reason=%q", a.name, from, m.Reason())
		if a.react {
			c07DoFail(ctx, a.reactF, 1000)
		}
	}
}

// c07Sentinel fails on demand with an error type no supervisor has a rule for.
type c07Sentinel struct{}

func (c07Sentinel) PreStart(*Context) error { return nil }
func (c07Sentinel) PostStop(*Context) error { return nil }
func (c07Sentinel) Receive(ctx *ReceiveContext) {
	if _, ok := ctx.Message().(*c07Fault); ok {
		ctx.Err(c07ErrZ{})
	}
}

// ---- system under test ---------------------------------------------------------------

var (
	c07Sys    ActorSystem
	c07Z      *PID
	c07Seq    atomic.Int64
	c07MSeq   atomic.Int64
	c07SysSeq atomic.Int64
)

// c07Ensure (re)creates the actor system: a case that brought the whole system
// down (see c07FpSysDown) must not poison the cases after it.
func c07Ensure() {
	if c07Sys != nil && c07Sys.Running() && !c07Sys.(*actorSystem).isStopping() {
		return
	}
	ctx := context.Background()
	var lg log.Logger = log.DiscardLogger
	if p := os.Getenv("C07_DEBUG_LOG"); p != "" {
		f, _ := os.OpenFile(p, os.O_CREATE|os.O_APPEND|os.O_WRONLY, 0o644)
		lg = log.NewSlog(log.WarningLevel, f)
	}
	sys, err := NewActorSystem(fmt.Sprintf("vfC07n%d", c07SysSeq.Add(1)), WithLogger(lg))
	if err != nil {
		panic(fmt.Sprintf("NewActorSystem: %v", err))
	}
	if err := sys.Start(ctx); err != nil {
		panic(fmt.Sprintf("Start: %v", err))
	}
	z, err := sys.Spawn(ctx, "c07-sentinel", c07Sentinel{}, WithLongLived())
	if err != nil {
		panic(fmt.Sprintf("spawn sentinel: %v", err))
	}
	c07Sys, c07Z = sys, z
}

func c07Idle(pid *PID) func() bool {
	return func() bool {
		return pid.schedState.Load() == dispatchIdle && pid.mailbox.IsEmpty() && pid.systemMailbox.IsEmpty()
	}
}

// c07SystemDown lets the system actors finish what the case caused (death watch
// notifications, a failure of a system actor travelling to the system guardian)
// and reports whether the actor system shut itself down.
func c07SystemDown() bool {
	sys := c07Sys.(*actorSystem)
	down := func() bool { return sys.isStopping() || !sys.Running() }
	if down() {
		return true
	}
	dw, sg := sys.getDeathWatch(), sys.getSystemGuardian()
	if dw == nil || sg == nil {
		return down()
	}
	c07Wait(5*time.Second, func() bool { return down() || c07Idle(dw)() })
	if down() {
		return true
	}
	if Tell(context.Background(), c07Z, &c07Fault{}) == nil {
		if c07Wait(5*time.Second, func() bool { return down() || c07Z.IsSuspended() }) && !down() {
			c07Z.doReinstate()
		}
	}
	c07Wait(5*time.Second, func() bool { return down() || c07Idle(sg)() })
	return down()
}

// c07Wait polls cond until it holds or the cap expires.
func c07Wait(limit time.Duration, cond func() bool) bool {
	deadline := time.Now().Add(limit)
	for i := 0; ; i++ {
		if cond() {
			return true
		}
		if time.Now().After(deadline) {
			return false
		}
		if sys, ok := c07Sys.(*actorSystem); ok && i%16 == 15 && (sys.isStopping() || !sys.Running()) {
			return cond() // the system is gone: nothing will change any more
		}
		if i < 50 {
			time.Sleep(50 * time.Microsecond)
		} else {
			time.Sleep(500 * time.Microsecond)
		}
	}
}

// ---- model of the family ---------------------------------------------------------------

type c07MActor struct {
	name                   string
	parent                 int // index, -1 for G
	state                  int
	inc                    int // PreStart count
	stopsMin               int // PostStop count bounds
	stopsMax               int
	count                  int   // state counter since PreStart
	restarts               int   // restarts since spawn
	resetSeen              bool  // restarted at least once while running (RestartCount finding)
	lastRunningRestartBase int   // restarts performed since the last restart-while-running (inclusive)
	faults                 []int // possible values of the consecutive fault counter
	hasLast                bool
	lastLo                 time.Time
	lastHi                 time.Time
	signals                []c07ExpSig // expected PanicSignals received
	suspends               int         // number of transitions into suspended that must have been published
}

type c07ExpSig struct {
	from   string
	reason string // exact reason, or "" when only the prefix is checked
	prefix string
	msg    any
}

type c07Run struct {
	x      *vfkit.X
	c      c07Case
	h      *c07Hist
	pids   []*PID
	acts   []*c07Actor
	m      []*c07MActor
	csup   *c07SupModel
	psup   *c07SupModel
	quiet  bool // attempts after the first do not classify
	dumped bool
	faultN int
	// statistics for the non-triviality rule
	nFaults      int
	groupApplied bool
	exhausted    bool
	escalated    bool
	nested       bool
}

type c07Outcome struct {
	inconclusive string
	stall        string
}

func (r *c07Run) class(name string) {
	if !r.quiet {
		r.x.Class(name)
	}
}

func (r *c07Run) supOf(i int) *c07SupModel {
	if i == 1 {
		return r.psup
	}
	return r.csup
}

func (r *c07Run) children(i int) []int {
	var out []int
	for j, a := range r.m {
		if a.parent == i {
			out = append(out, j)
		}
	}
	return out
}

func (r *c07Run) dumpHistory() {
	if r.dumped {
		return
	}
	r.dumped = true
	r.h.mu.Lock()
	evs := append([]string(nil), r.h.evs...)
	r.h.mu.Unlock()
	for _, e := range evs {
		r.x.Logf("%s", e)
	}
}

// dropped names a family member that is alive by the model but no longer
// registered in the actor tree (finding F-C07-3 / F-C10-1: the death watch
// deletes the node of an actor that was restarted while running, after the
// restart has re-attached it). Such an actor has no parent any more
// (PID.Parent() == nil) and is invisible to tree.siblings: directives can no
// longer reach it, and its own failures only suspend it.
func (r *c07Run) dropped() string {
	sys, ok := c07Sys.(*actorSystem)
	if !ok {
		return ""
	}
	for i, mm := range r.m {
		if mm.state == c07Stopped || !mm.resetSeen || i >= len(r.pids) {
			continue
		}
		if _, ok := sys.tree().node(r.pids[i].ID()); !ok {
			// a restart still in flight re-attaches the node within moments; only a
			// node that stays away is the finding
			id := r.pids[i].ID()
			if !c07Wait(time.Second, func() bool { _, ok := sys.tree().node(id); return ok }) {
				return mm.name
			}
		}
	}
	return ""
}

func (r *c07Run) fail(fp, format string, args ...any) {
	r.dumpHistory()
	if name := r.dropped(); name != "" {
		r.x.Failf(c07FpDropped, "%s was restarted while running and is no longer registered in the actor tree (the death watch deleted its node after the restart re-attached it); consequence observed: %s", name, fmt.Sprintf(format, args...))
	}
	r.x.Failf(fp, format, args...)
}

// marker: a message that reports when it is handled. Returning true means that
// every message enqueued before it has been handled (or the actor stopped
// accepting messages / was re-created, which only the supervision path does here).
func (r *c07Run) marker(i int) bool {
	pid, a := r.pids[i], r.acts[i]
	inc := a.preStarts.Load()
	seq := c07MSeq.Add(1)
	if err := Tell(context.Background(), pid, &c07Marker{Seq: seq}); err != nil {
		return true
	}
	return c07Wait(c07Cap, func() bool {
		return a.marker.Load() >= seq || !pid.IsRunning() || a.preStarts.Load() != inc
	})
}

// sentinel: FIFO barrier through the shared supervision consumer
// (actor/supervision.go: "a single shared consumer ... one goroutine drains
// failure signals from every actor"). When the sentinel is suspended, every
// failure signal submitted before its own has been through notifyParent.
func (r *c07Run) sentinel() bool {
	if err := Tell(context.Background(), c07Z, &c07Fault{}); err != nil {
		return false
	}
	ok := c07Wait(c07Cap, func() bool { return c07Z.IsSuspended() })
	if ok {
		c07Z.doReinstate()
	}
	return ok
}

// applies reports whether operation op can be performed on actor i now.
func (r *c07Run) applies(op, i int) bool {
	a := r.m[i]
	switch op {
	case c07OpInc:
		return a.state == c07Running
	case c07OpReinstate:
		return i >= 1 && a.state == c07Suspended && r.m[a.parent].state == c07Running
	default:
		return i >= 1 && a.state == c07Running && r.m[a.parent].state == c07Running
	}
}

// pick selects the target of an operation among the actors it applies to
// (a function of the case and the model only); -1 when there is none.
func (r *c07Run) pick(op, pick int) int {
	var kids []int
	for i := 2; i < len(r.m); i++ {
		if r.applies(op, i) {
			kids = append(kids, i)
		}
	}
	pOK := r.applies(op, 1)
	switch {
	case pOK && (pick%4 == 0 || len(kids) == 0):
		return 1
	case len(kids) > 0:
		return kids[(pick/4+pick)%len(kids)]
	}
	return -1
}

func (r *c07Run) stopSubtree(i int) {
	a := r.m[i]
	if a.state == c07Stopped {
		return
	}
	for _, ch := range r.children(i) {
		r.stopSubtree(ch)
	}
	a.state = c07Stopped
	a.stopsMin++
	a.stopsMax++
}

// restartSubtree: PID.Restart doc: "restarts this actor and all running or
// suspended descendants ... each actor is re-initialized via its PreStart hook.
// Suspended actors are reinitialized without a prior shutdown step; non-running
// descendants are skipped entirely."
func (r *c07Run) restartSubtree(i int, out *[]int) {
	a := r.m[i]
	if a.state == c07Stopped {
		return
	}
	if a.state == c07Running {
		a.stopsMin++ // shut down first
		a.stopsMax++
		a.resetSeen = true
		a.lastRunningRestartBase = 0
	}
	a.state = c07Running
	a.inc++
	a.count = 0
	a.restarts++
	a.lastRunningRestartBase++
	*out = append(*out, i)
	for _, ch := range r.children(i) {
		r.restartSubtree(ch, out)
	}
}

// ---- one execution -----------------------------------------------------------------------

func c07RunOnce(x *vfkit.X, c c07Case, attempt int, last **c07Run) (out c07Outcome) {
	ctx := context.Background()
	r := &c07Run{x: x, c: c, h: &c07Hist{}, quiet: attempt > 0}
	*last = r
	r.csup, r.psup = c07NewSupModel(c.ChildSup), c07NewSupModel(c.ParentSup)

	if c.NoiseProb > 0 {
		vfsched.SetNoise(c.NoiseSeed+uint64(attempt), c.NoiseProb, c.NoiseSleep)
		defer vfsched.SetNoise(0, 0, 0)
		r.class("noise_on")
	}

	sub, err := c07Sys.Subscribe()
	if err != nil {
		panic(fmt.Sprintf("subscribe: %v", err))
	}
	defer func() { _ = c07Sys.Unsubscribe(sub) }()

	id := c07Seq.Add(1)
	mk := func(name string, parent int) *c07Actor {
		a := &c07Actor{name: name, h: r.h}
		r.acts = append(r.acts, a)
		r.m = append(r.m, &c07MActor{name: name, parent: parent, state: c07Running, inc: 1, faults: []int{0}})
		return a
	}
	gname := fmt.Sprintf("c07-%d-G", id)
	g, err := c07Sys.Spawn(ctx, gname, mk(gname, -1), WithLongLived())
	if err != nil {
		panic(fmt.Sprintf("spawn G: %v", err))
	}
	r.pids = append(r.pids, g)
	defer func() {
		vfsched.SetNoise(0, 0, 0)
		_ = g.Shutdown(context.Background())
		c07Wait(c07Cap, func() bool { return !g.isStateSet(runningState) })
	}()
	pname := fmt.Sprintf("c07-%d-P", id)
	pa := mk(pname, 0)
	pa.react, pa.reactF = c.PReact, c.PReactF
	p, err := g.SpawnChild(ctx, pname, pa, WithSupervisor(c07BuildSupervisor(c.ParentSup)), WithLongLived())
	if err != nil {
		panic(fmt.Sprintf("spawn P: %v", err))
	}
	r.pids = append(r.pids, p)
	var shared *supervisor.Supervisor
	if c.Shared {
		shared = c07BuildSupervisor(c.ChildSup)
		r.class("children_share_supervisor_instance")
	}
	for i := 0; i < c.Children; i++ {
		cname := fmt.Sprintf("c07-%d-C%d", id, i)
		sup := shared
		if sup == nil {
			sup = c07BuildSupervisor(c.ChildSup)
		}
		cp, err := p.SpawnChild(ctx, cname, mk(cname, 1), WithSupervisor(sup), WithLongLived())
		if err != nil {
			panic(fmt.Sprintf("spawn child: %v", err))
		}
		r.pids = append(r.pids, cp)
	}
	// every actor has handled PostStart before the program starts
	if !c07Wait(c07Cap, func() bool {
		for _, a := range r.acts {
			if a.postStart.Load() != 1 {
				return false
			}
		}
		return true
	}) {
		return c07Outcome{inconclusive: "inconclusive_start"}
	}

	defer func() {
		if !r.quiet {
			r.classify()
		}
	}()

	for si, s := range c.Steps {
		op := s.Op
		if op == c07OpReinstate && r.pick(c07OpReinstate, s.Pick) < 0 {
			op = c07OpFault
		}
		reps := 1
		if op == c07OpFault && s.Repeat > 1 {
			reps = s.Repeat
		}
		ti := r.pick(op, s.Pick)
		for rep := 0; rep < reps; rep++ {
			if rep > 0 && s.Alt && ti >= 2 {
				// alternate: the next sibling the fault applies to
				n := len(r.m) - 2
				for k := 1; k <= n; k++ {
					if cand := 2 + (ti-2+k)%n; r.applies(op, cand) {
						if cand != ti {
							r.class("crash_loop_alternates_between_siblings")
						}
						ti = cand
						break
					}
				}
			}
			if ti < 0 || (rep > 0 && !r.applies(op, ti)) {
				r.class("step_not_applicable")
				break
			}
			if rep > 0 {
				r.class("crash_loop_repeat")
			}
			ma := r.m[ti]
			par := ma.parent
			switch op {
			case c07OpInc:
				var err error
				if s.FromPID {
					err = g.Tell(ctx, r.pids[ti], &c07Inc{N: s.N})
				} else {
					err = Tell(ctx, r.pids[ti], &c07Inc{N: s.N})
				}
				if err != nil {
					r.fail("tell-to-running-actor-fails", "step %d: Tell(inc) to %s failed: %v (model: running)", si, ma.name, err)
				}
				ma.count += s.N
				r.h.add("step %d: inc %s by %d", si, ma.name, s.N)
			case c07OpReinstate:
				r.h.add("step %d: %s.Reinstate(%s)", si, r.m[par].name, ma.name)
				if err := r.pids[par].Reinstate(r.pids[ti]); err != nil {
					r.fail("reinstate-suspended-child-fails", "step %d: %s.Reinstate(%s) = %v; the child is suspended and its parent is running", si, r.m[par].name, ma.name, err)
				}
				ma.state = c07Running
				r.class("reinstate")
			case c07OpFault:
				sup := r.supOf(ti)
				if sup.window > 0 {
					switch {
					case sup.window <= 30*time.Millisecond:
						time.Sleep(4*sup.window + 5*time.Millisecond)
					case s.LongGap && sup.window <= 150*time.Millisecond:
						time.Sleep(4*sup.window + 10*time.Millisecond)
						r.class("long_gap_slept")
					}
				}
				r.faultN++
				fm := &c07Fault{F: s.F, ID: r.faultN}
				r.h.add("step %d.%d: fault #%d %s -> %s", si, rep, fm.ID, s.F, ma.name)
				if ti == 1 {
					r.class("fault_on_parent")
				} else {
					r.class("fault_on_child")
				}
				t0 := time.Now()
				var err error
				if s.FromPID {
					err = g.Tell(ctx, r.pids[ti], fm)
				} else {
					err = Tell(ctx, r.pids[ti], fm)
				}
				if err != nil {
					r.fail("tell-to-running-actor-fails", "step %d: Tell(fault) to %s failed: %v (model: running)", si, ma.name, err)
				}
				r.nFaults++
				if o := r.settle(si, ti, s.F, fm, t0, 0); o.inconclusive != "" || o.stall != "" {
					return o
				}
			}
			if o := r.verify(fmt.Sprintf("after step %d.%d", si, rep)); o.inconclusive != "" {
				return o
			}
		}
	}
	// late effects (a restart that must not happen is an asynchronous goroutine)
	grace := 5 * time.Millisecond
	for _, s := range []*c07SupModel{r.csup, r.psup} {
		if s.backoff && s.maxDelay+5*time.Millisecond > grace {
			grace = s.maxDelay + 5*time.Millisecond
		}
	}
	time.Sleep(grace)
	if o := r.verify("at the end"); o.inconclusive != "" {
		return o
	}
	return r.verifyEvents(sub)
}

// settle waits for and judges the handling of a failure of actor ti.
func (r *c07Run) settle(si, ti int, f c07Failure, orig any, t0 time.Time, depth int) c07Outcome {
	ma := r.m[ti]
	par := ma.parent
	sup := r.supOf(ti)
	if !r.marker(ti) {
		return c07Outcome{inconclusive: "inconclusive_marker_timeout"}
	}
	if !r.sentinel() {
		return c07Outcome{inconclusive: "inconclusive_sentinel_timeout"}
	}
	// Two markers through the parent: Panicking / PanicSignal travel through the
	// parent's system mailbox, the marker through its user mailbox. runTurn looks
	// at the system mailbox and then at the user mailbox once per iteration, so
	// ONE user message can overtake a control message enqueued before it (the
	// worker may be between the two looks); the iteration after it serves the
	// system mailbox first, so the second marker cannot.
	if !r.marker(par) || !r.marker(par) {
		return c07Outcome{inconclusive: "inconclusive_marker_timeout"}
	}
	t1 := time.Now()

	dirs := sup.resolve(f)
	if len(dirs) > 1 {
		// panic(nil): the PanicError rule and the runtime.PanicNilError rule disagree
		// and the documentation does not say which one a nil panic selects
		r.class("ambiguous_nil_panic_rules_disagree")
		return c07Outcome{inconclusive: "ambiguous_nil_panic_rules_disagree"}
	}
	dir := dirs[0]
	r.class("directive_" + c07DirName(dir))
	if f.Kind == c07KErr && f.Err != c07EPanic {
		if _, exact := sup.rules[f.Err]; exact {
			if _, any := sup.rules[c07EAny]; any {
				r.class("exact_rule_and_any_rule_both_present")
			}
		}
	}
	group := []int{ti}
	if sup.oneForAll {
		for _, sib := range r.children(par) {
			if sib != ti && r.m[sib].state != c07Stopped {
				group = append(group, sib)
			}
		}
	}
	r.h.add("model: %s fails with %s -> %s, group=%v", ma.name, f, c07DirName(dir), group)

	switch dir {
	case c07Suspend:
		ma.state = c07Suspended
		ma.suspends++
	case c07Resume:
		// same incarnation, state kept
	case c07Stop:
		for _, gi := range group {
			r.stopSubtree(gi)
		}
		if len(group) > 1 {
			r.groupApplied = true
		}
	case c07Escalate:
		ma.state = c07Suspended
		ma.suspends++
		r.escalated = true
		exp := c07ExpSig{from: ma.name, msg: orig}
		switch f.Kind {
		case c07KErr:
			exp.reason = c07ErrOf(f.Err, r.idOf(orig)).Error()
		case c07KErrWrap:
			exp.reason = "wrapped: " + c07ErrOf(f.Err, r.idOf(orig)).Error()
		default:
			exp.prefix = "panic: "
		}
		r.m[par].signals = append(r.m[par].signals, exp)
		if par == 1 && r.c.PReact && depth == 0 {
			// P fails itself while handling the PanicSignal: the failure reaches G
			r.nested = true
			r.nFaults++
			sig := r.lastSignal(par)
			r.h.add("model: %s reacts to the PanicSignal with %s", r.m[par].name, r.c.PReactF)
			if o := r.settle(si, par, r.c.PReactF, sig, t0, depth+1); o.inconclusive != "" || o.stall != "" {
				return o
			}
		}
	case c07Restart:
		// "Each fault bumps the consecutive fault counter of every group member"
		ambiguous := false
		for _, gi := range group {
			gm := r.m[gi]
			if sup.window > 0 && gm.hasLast {
				gapMin := t0.Sub(gm.lastHi)
				gapMax := t1.Sub(gm.lastLo)
				switch {
				case gapMin >= 4*sup.window:
					gm.faults = []int{0}
					r.class("window_expired_counter_reset")
				case gapMax <= sup.window/4:
					r.class("fault_inside_window")
				default:
					gm.faults = append([]int{0}, gm.faults...)
					r.class("gap_near_window_boundary")
				}
			}
			seen := map[int]bool{}
			var nf []int
			for _, v := range gm.faults {
				if !seen[v+1] {
					seen[v+1] = true
					nf = append(nf, v+1)
				}
			}
			gm.faults = nf
			gm.hasLast, gm.lastLo, gm.lastHi = true, t0, t1
		}
		exceed, within := false, false
		minFaults := ma.faults[0]
		for _, v := range ma.faults {
			if sup.max > 0 && sup.window > 0 && v > sup.max {
				exceed = true
			} else {
				within = true
			}
			if v < minFaults {
				minFaults = v
			}
		}
		if exceed && within {
			ambiguous = true
		}
		if ambiguous {
			r.class("ambiguous_window_decision")
			return c07Outcome{inconclusive: "ambiguous_window_decision"}
		}
		if len(group) > 1 {
			r.groupApplied = true
		}
		if exceed {
			// "more than maxRetries consecutive faults within the window suspends the
			// child instead of restarting it ... budget exhaustion suspends [the
			// siblings] together with the faulty child"
			r.exhausted = true
			r.class("budget_exhausted")
			ma.state = c07Suspended
			ma.suspends++
			for _, gi := range group {
				if gi != ti && r.m[gi].state == c07Running {
					r.m[gi].state = c07Suspended
					r.m[gi].suspends++
				}
			}
			r.h.add("model: budget exhausted (%v > %d): group suspended", ma.faults, sup.max)
			break
		}
		ma.state = c07Suspended // notifyParent suspends the faulty child first
		var restarted []int
		for _, gi := range group {
			r.restartSubtree(gi, &restarted)
		}
		r.class("restart_applied")
		stalled := -1
		ok := c07Wait(c07StallCap+sup.maxDelay, func() bool {
			for _, ri := range restarted {
				a, mm := r.acts[ri], r.m[ri]
				if a.preStarts.Load() < int64(mm.inc) || a.postStart.Load() < int64(mm.inc) || !r.pids[ri].IsRunning() {
					stalled = ri
					return false
				}
			}
			return true
		})
		if !ok {
			if name := r.dropped(); name != "" {
				// positive evidence instead of a stall: the actor lost its tree node
				if r.x.Known(c07FpDropped) {
					r.class("known_restarted_actor_dropped_from_tree")
					return c07Outcome{inconclusive: "known_restarted_actor_dropped_from_tree"}
				}
				r.fail("restart-not-applied", "step %d: %s failed with %s, directive Restart: %s is not restarted", si, ma.name, f, r.m[stalled].name)
			}
			a, mm := r.acts[stalled], r.m[stalled]
			if a.preStarts.Load() < int64(mm.inc) && r.pids[stalled].IsSuspended() {
				r.h.add("stall: %s is still suspended, PreStart ran %d times, model expects %d", mm.name, a.preStarts.Load(), mm.inc)
				return c07Outcome{stall: fmt.Sprintf("step %d: %s failed with %s; directive Restart, consecutive faults %v, maxRetries %d, window %v: the restart never happened, %s stays suspended", si, ma.name, f, ma.faults, sup.max, sup.window, mm.name)}
			}
			return c07Outcome{inconclusive: "inconclusive_restart_timeout"}
		}
		// backoff: "The nth consecutive restart is delayed by min(initialDelay << (n-1), maxDelay)"
		if d := sup.delay(minFaults); d > 0 {
			r.class("backoff_delay_checked")
			for _, gi := range group {
				a := r.acts[gi]
				a.mu.Lock()
				at := a.preStartAt[len(a.preStartAt)-1]
				a.mu.Unlock()
				if at.Sub(t0) < d {
					r.fail("restart-before-backoff-delay", "step %d: %s re-ran PreStart %v after the fault was SENT; consecutive fault %d requires a delay of at least %v", si, r.m[gi].name, at.Sub(t0), minFaults, d)
				}
			}
		}
	}
	return c07Outcome{}
}

func (r *c07Run) idOf(orig any) int {
	if f, ok := orig.(*c07Fault); ok {
		return f.ID
	}
	return 1000
}

// lastSignal returns the PanicSignal most recently received by actor i (the
// message its reaction failed on), or nil.
func (r *c07Run) lastSignal(i int) any {
	a := r.acts[i]
	a.mu.Lock()
	defer a.mu.Unlock()
	if len(a.signals) == 0 || len(a.signals) != len(r.m[i].signals) {
		return nil
	}
	return a.signals[len(a.signals)-1].self
}

// verify compares every family member with the model.
func (r *c07Run) verify(when string) c07Outcome {
	ctx := context.Background()
	if name := r.dropped(); name != "" && r.x.Known(c07FpDropped) {
		// listed: nothing after this point can be judged for this family
		r.class("known_restarted_actor_dropped_from_tree")
		return c07Outcome{inconclusive: "known_restarted_actor_dropped_from_tree"}
	}
	for i, mm := range r.m {
		pid, a := r.pids[i], r.acts[i]
		running, suspended := pid.IsRunning(), pid.IsSuspended()
		got := c07Stopped
		switch {
		case running:
			got = c07Running
		case suspended:
			got = c07Suspended
		}
		names := [...]string{"running", "suspended", "stopped"}
		if got != mm.state {
			fp := fmt.Sprintf("state-%s-expected-%s", names[got], names[mm.state])
			r.fail(fp, "%s: %s is %s (IsRunning=%v IsSuspended=%v), the supervision model says %s", when, mm.name, names[got], running, suspended, names[mm.state])
		}
		if n := a.preStarts.Load(); n != int64(mm.inc) {
			fp := "prestart-missing"
			if n > int64(mm.inc) {
				fp = "prestart-unexpected"
			}
			r.fail(fp, "%s: PreStart of %s ran %d times, model expects %d", when, mm.name, n, mm.inc)
		}
		if n := a.postStops.Load(); n < int64(mm.stopsMin) || n > int64(mm.stopsMax) {
			fp := "poststop-missing"
			if n > int64(mm.stopsMax) {
				fp = "poststop-unexpected"
			}
			r.fail(fp, "%s: PostStop of %s ran %d times, model expects %d..%d", when, mm.name, n, mm.stopsMin, mm.stopsMax)
		}
		if mm.state == c07Stopped {
			continue
		}
		if rc := pid.RestartCount(); rc != mm.restarts {
			if mm.resetSeen && rc == mm.lastRunningRestartBase && r.x.Known(c07FpCount) {
				r.class("known_restart_count_reset")
			} else if mm.resetSeen && rc == mm.lastRunningRestartBase {
				r.fail(c07FpCount, "%s: %s.RestartCount() = %d after %d restarts: the count starts over whenever the actor is restarted while running (one-for-all sibling / descendant of a restarted parent)", when, mm.name, rc, mm.restarts)
			} else {
				r.fail("restart-count-mismatch", "%s: %s.RestartCount() = %d, model expects %d", when, mm.name, rc, mm.restarts)
			}
		}
		if mm.state != c07Running {
			continue
		}
		resp, err := Ask(ctx, pid, &c07Probe{}, c07Cap)
		if err != nil {
			if errors.Is(err, gerrors.ErrRequestTimeout) {
				return c07Outcome{inconclusive: "inconclusive_probe_timeout"}
			}
			r.fail("probe-running-actor-fails", "%s: Ask(probe) to %s failed: %v (model: running)", when, mm.name, err)
		}
		st, _ := resp.(*c07State)
		if st == nil {
			r.fail("probe-running-actor-fails", "%s: probe of %s answered %v", when, mm.name, resp)
		}
		if st.Inc != int64(mm.inc) {
			r.fail("prestart-unexpected", "%s: %s answers from incarnation %d, model expects %d", when, mm.name, st.Inc, mm.inc)
		}
		if st.Count != int64(mm.count) {
			fp := "state-lost"
			if st.Count > int64(mm.count) {
				fp = "state-not-reset"
			}
			r.fail(fp, "%s: state counter of %s is %d, model expects %d (incarnation %d)", when, mm.name, st.Count, mm.count, mm.inc)
		}
	}
	// PanicSignals: exactly the escalated failures, in order
	for i, mm := range r.m {
		a := r.acts[i]
		a.mu.Lock()
		sigs := append([]c07Sig(nil), a.signals...)
		a.mu.Unlock()
		if len(sigs) != len(mm.signals) {
			fp := "escalate-panicsignal-missing"
			if len(sigs) > len(mm.signals) {
				fp = "panicsignal-unexpected"
			}
			r.fail(fp, "%s: %s received %d PanicSignal(s), model expects %d", when, mm.name, len(sigs), len(mm.signals))
		}
		for j, e := range mm.signals {
			s := sigs[j]
			if s.from != e.from {
				r.fail("panicsignal-wrong-sender", "%s: PanicSignal #%d at %s comes from %s, expected %s", when, j, mm.name, s.from, e.from)
			}
			if e.reason != "" && s.reason != e.reason {
				r.fail("panicsignal-wrong-reason", "%s: PanicSignal #%d at %s has reason %q, expected %q", when, j, mm.name, s.reason, e.reason)
			}
			if e.prefix != "" && !strings.HasPrefix(s.reason, e.prefix) {
				r.fail("panicsignal-wrong-reason", "%s: PanicSignal #%d at %s has reason %q, expected prefix %q", when, j, mm.name, s.reason, e.prefix)
			}
			if e.msg != nil && s.msg != e.msg {
				r.fail("panicsignal-wrong-message", "%s: PanicSignal #%d at %s carries message %T %v, expected the message that failed (%T)", when, j, mm.name, s.msg, s.msg, e.msg)
			}
		}
	}
	return c07Outcome{}
}

// verifyEvents: the events on the system's stream agree with the model.
func (r *c07Run) verifyEvents(sub eventstream.Subscriber) c07Outcome {
	restarted, suspended, stopped := map[string]int{}, map[string]int{}, map[string]int{}
	drain := func() {
		for msg := range sub.Iterator() {
			switch ev := msg.Payload().(type) {
			case *ActorRestarted:
				restarted[ev.ActorPath().Name()]++
			case *ActorSuspended:
				suspended[ev.ActorPath().Name()]++
			case *ActorStopped:
				stopped[ev.ActorPath().Name()]++
			}
		}
	}
	// an event is published by the goroutine that performed the transition right
	// after the state change the harness waited for: give it time to get there
	// (missing after the cap = inconclusive; too many = violation at any time)
	complete := c07Wait(c07Cap, func() bool {
		drain()
		for _, mm := range r.m {
			if restarted[mm.name] < mm.restarts || suspended[mm.name] < mm.suspends || (mm.state == c07Stopped && stopped[mm.name] < 1) {
				return false
			}
		}
		return true
	})
	for _, mm := range r.m {
		if restarted[mm.name] > mm.restarts {
			r.fail("events-restarted-disagree", "event stream: %d ActorRestarted event(s) for %s, the model (and the state queries) say %d restarts", restarted[mm.name], mm.name, mm.restarts)
		}
	}
	if !complete {
		return c07Outcome{inconclusive: "inconclusive_events_timeout"}
	}
	return c07Outcome{}
}

func (r *c07Run) classify() {
	x := r.x
	if r.csup.oneForAll {
		x.Class("child_strategy_one_for_all")
	} else {
		x.Class("child_strategy_one_for_one")
	}
	if r.csup.max > 0 && r.csup.window > 0 {
		x.Class("child_budget_enabled")
	}
	if r.csup.backoff {
		x.Class("child_backoff")
	}
	if r.escalated {
		x.Class("escalated")
	}
	if r.nested {
		x.Class("parent_failed_on_panicsignal")
	}
	if r.groupApplied {
		x.Class("directive_applied_to_group_of_2plus")
	}
	switch {
	case r.nFaults == 0:
		x.Class("faults_0")
	case r.nFaults == 1:
		x.Class("faults_1")
	default:
		x.Class("faults_2plus")
	}
	if r.nFaults >= 2 || r.groupApplied || r.exhausted {
		x.NonTrivial()
	}
}

func c07Exec(x *vfkit.X, c c07Case) {
	c07Ensure()
	var last *c07Run
	defer func() {
		p := recover()
		if c07SystemDown() {
			// takes precedence: whatever else went wrong is a consequence
			if last != nil {
				last.dumpHistory()
			}
			x.Failf(c07FpSysDown, "the actor system shut itself down while this program of user-actor failures was handled (a system actor failed and escalated to the system guardian)")
		}
		if p != nil {
			panic(p)
		}
	}()
	var first string
	for attempt := 0; attempt < 3; attempt++ {
		o := c07RunOnce(x, c, attempt, &last)
		if o.stall == "" {
			if attempt > 0 {
				x.Class("stall_not_reproduced")
			} else if o.inconclusive != "" {
				x.Class(o.inconclusive)
			}
			return
		}
		if first == "" {
			first = o.stall
		}
		x.Logf("attempt %d stalled: %s", attempt, o.stall)
		if c07SystemDown() {
			return // reported by the deferred check
		}
	}
	x.Failf(c07FpStall, "3 of 3 executions: %s", first)
}

func TestVF_C07_directives(t *testing.T) {
	t.Cleanup(func() {
		if c07Sys != nil && c07Sys.Running() {
			_ = c07Sys.Stop(context.Background())
		}
	})
	vfkit.Run(t, vfkit.Spec[c07Case]{
		ID: "C07", Unit: "directives",
		Rule: "cases = a generated child supervisor and parent supervisor (strategy, WithDirective rules over 3 harness error types + PanicError + PanicNilError, constructor any-error rule, SetDirectiveByType rules added afterwards, WithRetry max 0..3 x window {none,0,120ms,10s}, backoff 1..20ms) on a real family G -> P -> 1..3 children, plus a program of 1..10 operations (fault = ctx.Err(typed)/panic(error)/panic(text)/ctx.Err(wrapped)/panic(nil) on a child or on P, state traffic, Reinstate); P optionally fails itself on a PanicSignal; non-trivial = the executed program handles >= 2 failures, or applies a directive to a one-for-all group of >= 2 actors, or exhausts a restart budget; distinct = distinct (configuration, program) pairs",
		Gen:  c07Gen, Exec: c07Exec,
		ReplayReps: 20,
	})
}

//go:build verif

package chunk

import (
	"testing"

	"pgregory.net/rapid"

	"github.com/tochemey/goakt/v4/internal/vfkit"
)

// ---- C32: Chunkify partitions a slice without loss, duplication or reordering ----

type c32ChunkCase struct {
	N    int `json:"n"`    // slice length
	Size int `json:"size"` // chunk size >= 1 (the callers' precondition)
}

func c32GenChunk(t *rapid.T) c32ChunkCase {
	var c c32ChunkCase
	c.N = rapid.OneOf(rapid.IntRange(0, 12), rapid.IntRange(0, 3000), rapid.SampledFrom([]int{0, 1, 499, 500, 501, 999, 1000, 1001, 1500})).Draw(t, "n")
	switch rapid.IntRange(0, 4).Draw(t, "size_kind") {
	case 0:
		c.Size = rapid.IntRange(1, 6).Draw(t, "size_small")
	case 1:
		c.Size = 500 // defaultRelocationBatchSize
	case 2:
		// around a divisor / the length itself
		d := rapid.IntRange(1, 4).Draw(t, "div")
		c.Size = c.N/d + rapid.IntRange(-1, 1).Draw(t, "delta")
	default:
		c.Size = rapid.IntRange(1, 3100).Draw(t, "size_any")
	}
	if c.Size < 1 {
		c.Size = 1
	}
	return c
}

func c32ExecChunk(x *vfkit.X, c c32ChunkCase) {
	in := make([]int, c.N)
	for i := range in {
		in[i] = i
	}
	out := Chunkify(in, c.Size)
	want := (c.N + c.Size - 1) / c.Size
	if len(out) != want {
		x.Failf("chunk-count-wrong", "Chunkify(len=%d, size=%d) returned %d chunks, want %d", c.N, c.Size, len(out), want)
	}
	next := 0
	for i, ch := range out {
		if len(ch) == 0 {
			x.Failf("chunk-empty", "chunk %d is empty (len=%d size=%d)", i, c.N, c.Size)
		}
		if len(ch) > c.Size {
			x.Failf("chunk-too-large", "chunk %d has %d elements, size is %d", i, len(ch), c.Size)
		}
		if i < len(out)-1 && len(ch) != c.Size {
			x.Failf("chunk-unequal", "chunk %d of %d has %d elements, want %d (only the last may be shorter)", i, len(out), len(ch), c.Size)
		}
		for _, v := range ch {
			if v != next {
				x.Failf("chunk-loss-or-dup", "element %d found where %d was expected (len=%d size=%d)", v, next, c.N, c.Size)
			}
			next++
		}
	}
	if next != c.N {
		x.Failf("chunk-loss-or-dup", "chunks carry %d elements, the slice has %d (size=%d)", next, c.N, c.Size)
	}
	for i := range in {
		if in[i] != i {
			x.Failf("chunk-input-modified", "input element %d changed", i)
		}
	}
	if c.N > c.Size && c.N%c.Size != 0 {
		x.NonTrivial()
		x.Class("ragged_tail")
	}
	if c.N > 0 && c.N%c.Size == 0 {
		x.Class("exact_multiple")
		if c.N > c.Size {
			x.NonTrivial()
		}
	}
	if c.N == 0 {
		x.Class("empty")
	}
	if c.N <= c.Size {
		x.Class("single_chunk_or_none")
	}
}

func TestVF_C32_chunk(t *testing.T) {
	vfkit.Run(t, vfkit.Spec[c32ChunkCase]{
		ID: "C32", Unit: "chunk",
		Rule: "cases = (slice length 0..3000, chunk size >= 1) biased to 500 (the relocation batch size), divisors of the length and +-1 around them; non-trivial = more than one chunk; distinct = distinct (n, size)",
		Gen:  c32GenChunk, Exec: c32ExecChunk,
	})
}

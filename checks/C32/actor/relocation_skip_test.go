//go:build verif

package actor

import (
	"context"
	"strconv"
	"testing"
	"time"

	"pgregory.net/rapid"

	"github.com/tochemey/goakt/v4/internal/internalpb"
	"github.com/tochemey/goakt/v4/internal/vfkit"
	"github.com/tochemey/goakt/v4/log"
)

// ---- C32: entries that must not be re-created are skipped by the shared dispatch ----
//
// allocateActors places whatever the departed state lists; the rule "non-relocatable
// and system entries are not assigned" (and "singletons are re-established only through
// the singleton path") is enforced by recreateActorFromWire, the function every target
// runs for each actor of its share. It is exercised on a real local actor system:
// a skipped entry returns nil before the cluster registry is consulted and spawns
// nothing. (Entries that are NOT skipped need a cluster and are out of reach here.)

type c32SkipEntry struct {
	System         bool   `json:"system"`
	Singleton      bool   `json:"singleton"`
	NonRelocatable bool   `json:"non_relocatable"`
	Role           string `json:"role"`
}

type c32SkipCase struct {
	Entries []c32SkipEntry `json:"entries"`
}

func c32GenSkip(t *rapid.T) c32SkipCase {
	var c c32SkipCase
	n := rapid.IntRange(1, 6).Draw(t, "n")
	for i := 0; i < n; i++ {
		var e c32SkipEntry
		// at least one skip reason, all 7 non-empty combinations
		m := rapid.IntRange(1, 7).Draw(t, "reasons")
		e.System, e.Singleton, e.NonRelocatable = m&1 != 0, m&2 != 0, m&4 != 0
		e.Role = rapid.SampledFrom([]string{"", "", "a", "z"}).Draw(t, "role")
		c.Entries = append(c.Entries, e)
	}
	return c
}

type c32Idle struct{}

func (*c32Idle) PreStart(*Context) error { return nil }
func (*c32Idle) Receive(*ReceiveContext) {}
func (*c32Idle) PostStop(*Context) error { return nil }

func c32ExecSkip(x *vfkit.X, c c32SkipCase) {
	ctx := context.Background()
	sys, err := NewActorSystem("vfC32", WithLogger(log.DiscardLogger))
	if err != nil {
		panic(err)
	}
	if err := sys.Start(ctx); err != nil {
		panic(err)
	}
	defer func() {
		sctx, cancel := context.WithTimeout(context.Background(), 30*time.Second)
		defer cancel()
		_ = sys.Stop(sctx)
	}()
	impl := sys.(*actorSystem)
	// one ordinary local actor so that the tree is not empty
	if _, err := sys.Spawn(ctx, "resident", &c32Idle{}); err != nil {
		panic(err)
	}
	before := sys.NumActors()
	departed := c32DepartedHost + ":" + strconv.Itoa(c32DepartedPort)
	for i, e := range c.Entries {
		name := "w-" + strconv.Itoa(i)
		if e.System {
			name = "GoAktVf-" + strconv.Itoa(i)
		}
		props := c32WireActor(name, c32Group{Role: e.Role, Singleton: e.Singleton, NonRelocatable: e.NonRelocatable})
		props.Type = "actor.c32Idle"
		func(props *internalpb.Actor) {
			defer func() {
				if p := recover(); p != nil {
					x.Failf("skip-rule-not-applied", "entry %s (system=%v singleton=%v relocatable=%v) was not skipped: the re-creation path went on to the cluster registry of a non-clustered system (%v)", name, e.System, e.Singleton, !e.NonRelocatable, p)
				}
			}()
			if err := impl.recreateActorFromWire(ctx, props, departed); err != nil {
				x.Failf("skip-rule-error", "entry %s (system=%v singleton=%v relocatable=%v): recreateActorFromWire returned %v, a skipped entry is not a failure", name, e.System, e.Singleton, !e.NonRelocatable, err)
			}
		}(props)
		if _, ok := impl.actors.nodeByName(name); ok {
			x.Failf("skip-entry-spawned", "entry %s (system=%v singleton=%v relocatable=%v) was spawned locally", name, e.System, e.Singleton, !e.NonRelocatable)
		}
		switch {
		case e.System:
			x.Class("system")
		case e.Singleton:
			x.Class("singleton")
		default:
			x.Class("non_relocatable")
		}
	}
	if after := sys.NumActors(); after != before {
		x.Failf("skip-entry-spawned", "actor count changed from %d to %d while only skipped entries were dispatched", before, after)
	}
	if len(c.Entries) >= 2 {
		x.NonTrivial()
	}
}

func TestVF_C32_skip(t *testing.T) {
	vfkit.Run(t, vfkit.Spec[c32SkipCase]{
		ID: "C32", Unit: "skip",
		Rule: "cases = 1..6 wire actors each with at least one skip reason (reserved system name, singleton, non-relocatable without reliable delivery), any role, dispatched through recreateActorFromWire of a started local actor system; non-trivial = at least two entries; distinct = distinct entry lists",
		Gen:  c32GenSkip, Exec: c32ExecSkip,
	})
}

//go:build verif

package actor

import (
	"context"
	"errors"
	"fmt"
	"sort"
	"strconv"
	"sync"
	"testing"

	"pgregory.net/rapid"

	"github.com/tochemey/goakt/v4/internal/address"
	"github.com/tochemey/goakt/v4/internal/cluster"
	"github.com/tochemey/goakt/v4/internal/internalpb"
	"github.com/tochemey/goakt/v4/internal/remoteclient"
	"github.com/tochemey/goakt/v4/internal/vfkit"
	"github.com/tochemey/goakt/v4/log"
)

// ---- C32: relocation plan places every actor and grain exactly once ----------
//
// The oracle is written from the property statement and from the doc comments of
// allocateActors / allocateGrains / relocatableGrains / reassignByRole /
// leastLoadedEligibleSurvivor / buildRelocateBatchRequests / relocateShare. It
// never replays the implementation's loops: placement is judged by
// (a) exactly-once accounting over the effective assignment, (b) eligibility of
// the chosen target, (c) existence of a processing order of the (unordered) actor
// map under which every placement was a least-loaded eligible choice.

const (
	c32DepartedHost = "10.9.9.9"
	c32DepartedPort = 7000
	c32System       = "vfsys"
)

var c32Roles = []string{"a", "b", "c"}

type c32Group struct {
	Count          int    `json:"count"`
	Role           string `json:"role"`     // "" = role-less
	RoleSet        bool   `json:"role_set"` // role pointer set even when Role == ""
	Singleton      bool   `json:"singleton"`
	NonRelocatable bool   `json:"non_relocatable"`
	System         bool   `json:"system"` // reserved (GoAkt...) name
}

type c32GrainGroup struct {
	Count    int  `json:"count"`
	Disabled bool `json:"disabled"`
	Eager    bool `json:"eager"`
}

type c32PlanCase struct {
	Kind        string          `json:"kind"` // small | large
	LeaderRoles []string        `json:"leader_roles"`
	Peers       [][]string      `json:"peers"` // role list of each surviving peer
	Groups      []c32Group      `json:"groups"`
	Grains      []c32GrainGroup `json:"grains"`
	LoadsKind   int             `json:"loads_kind"` // 0 nil, 1 aligned, 2 too short, 3 too long
	Loads       []int           `json:"loads"`
	FailPick    int             `json:"fail_pick"` // which non-empty peer share becomes unreachable
	Sent        int             `json:"sent"`      // batches accepted before the target failed
	ProbeRole   string          `json:"probe_role"`
	ProbeLens   []int           `json:"probe_lens"`
}

func c32GenRoles(t *rapid.T, label string) []string {
	// subset of the role universe, in a drawn order (role lists are tiny, unordered)
	mask := rapid.IntRange(0, 7).Draw(t, label+"_mask")
	var out []string
	for i, r := range c32Roles {
		if mask&(1<<uint(i)) != 0 {
			out = append(out, r)
		}
	}
	if len(out) > 1 && rapid.Bool().Draw(t, label+"_rev") {
		for i, j := 0, len(out)-1; i < j; i, j = i+1, j-1 {
			out[i], out[j] = out[j], out[i]
		}
	}
	return out
}

func c32GenRole(t *rapid.T, label string, universe int) string {
	// "" twice as likely as each concrete role; "z" is a role nobody advertises
	k := rapid.IntRange(0, universe+2).Draw(t, label)
	switch {
	case k <= 1:
		return ""
	case k-2 < universe:
		return c32Roles[k-2]
	default:
		return "z"
	}
}

func c32GenPlan(t *rapid.T) c32PlanCase {
	var c c32PlanCase
	large := rapid.IntRange(0, 19).Draw(t, "size_class") == 0
	universe := 2 // roles {"", a, b} (+ unadvertised z)
	maxGroups, maxCount, maxGrainGroups, maxGrainCount := 4, 1, 3, 2
	c.Kind = "small"
	if large {
		c.Kind = "large"
		universe = 3
		maxGroups, maxGrainGroups = 8, 4
		maxCount = rapid.SampledFrom([]int{3, 40, 700, 1200}).Draw(t, "max_count")
		maxGrainCount = rapid.SampledFrom([]int{3, 40, 700, 1200}).Draw(t, "max_grain_count")
	}
	if universe == 2 {
		// restrict advertised roles to {a, b}
		c.LeaderRoles = c32Restrict(c32GenRoles(t, "leader"))
	} else {
		c.LeaderRoles = c32GenRoles(t, "leader")
	}
	np := rapid.SampledFrom([]int{0, 1, 1, 2, 2, 2, 3, 3, 3}).Draw(t, "peers")
	if large {
		np = rapid.SampledFrom([]int{1, 2, 3, 5, 8, 13, 20}).Draw(t, "peers_large")
	}
	for i := 0; i < np; i++ {
		r := c32GenRoles(t, "peer")
		if universe == 2 {
			r = c32Restrict(r)
		}
		if r == nil {
			r = []string{}
		}
		c.Peers = append(c.Peers, r)
	}
	if c.Peers == nil {
		c.Peers = [][]string{}
	}
	ng := rapid.SampledFrom([]int{0, 1, 2, 2, 3, 3, 4, 4, 4}).Draw(t, "groups")
	if large {
		ng = rapid.IntRange(1, maxGroups).Draw(t, "groups_large")
	}
	total := 0
	for i := 0; i < ng && total < 2000; i++ {
		g := c32Group{Count: 1}
		if maxCount > 1 {
			g.Count = rapid.IntRange(1, maxCount).Draw(t, "count")
		}
		if total+g.Count > 2000 {
			g.Count = 2000 - total
		}
		total += g.Count
		g.Role = c32GenRole(t, "role", universe)
		if g.Role == "" {
			g.RoleSet = rapid.IntRange(0, 5).Draw(t, "role_set") == 0
		}
		switch rapid.IntRange(0, 11).Draw(t, "flavour") {
		case 0, 1:
			g.Singleton = true
		case 2:
			g.NonRelocatable = true
		case 3:
			g.System = true
		}
		c.Groups = append(c.Groups, g)
	}
	ngg := rapid.IntRange(0, maxGrainGroups).Draw(t, "grain_groups")
	gtotal := 0
	for i := 0; i < ngg && gtotal < 2000; i++ {
		g := c32GrainGroup{Count: rapid.IntRange(1, maxGrainCount).Draw(t, "grain_count")}
		if gtotal+g.Count > 2000 {
			g.Count = 2000 - gtotal
		}
		gtotal += g.Count
		g.Disabled = rapid.IntRange(0, 3).Draw(t, "grain_disabled") == 0
		g.Eager = rapid.Bool().Draw(t, "grain_eager")
		c.Grains = append(c.Grains, g)
	}
	targets := np + 1
	c.LoadsKind = rapid.SampledFrom([]int{0, 1, 1, 1, 1, 2, 3}).Draw(t, "loads_kind")
	n := 0
	switch c.LoadsKind {
	case 1:
		n = targets
	case 2:
		n = targets - 1
	case 3:
		n = targets + 1
	}
	hi := 2
	if large {
		hi = rapid.SampledFrom([]int{2, 10, 3000}).Draw(t, "loads_hi")
	}
	for i := 0; i < n; i++ {
		c.Loads = append(c.Loads, rapid.IntRange(0, hi).Draw(t, "load"))
	}
	c.FailPick = rapid.IntRange(0, 31).Draw(t, "fail_pick")
	c.Sent = rapid.IntRange(0, 3).Draw(t, "sent")
	c.ProbeRole = c32GenRole(t, "probe_role", universe)
	for i := 0; i < np; i++ {
		c.ProbeLens = append(c.ProbeLens, rapid.IntRange(0, 3).Draw(t, "probe_len"))
	}
	return c
}

func c32Restrict(in []string) []string {
	var out []string
	for _, r := range in {
		if r == "a" || r == "b" {
			out = append(out, r)
		}
	}
	return out
}

// ---- materialisation ----------------------------------------------------------

type c32World struct {
	leaderRoles []string
	peers       []*cluster.Peer
	state       *internalpb.PeerState
	actors      []*internalpb.Actor // every wire actor of the departed state
	actorIdx    map[*internalpb.Actor]int
	grains      []*internalpb.Grain
	grainIdx    map[*internalpb.Grain]int
	departed    string
}

func c32WireActor(name string, g c32Group) *internalpb.Actor {
	a := &internalpb.Actor{
		Address:     address.NewReference(name, c32System, c32DepartedHost, c32DepartedPort).String(),
		Type:        "vf.Worker",
		Relocatable: !g.NonRelocatable,
	}
	if g.Role != "" || g.RoleSet {
		r := g.Role
		a.Role = &r
	}
	if g.Singleton {
		a.Singleton = &internalpb.SingletonSpec{}
	}
	return a
}

func c32Peer(i int, roles []string) *cluster.Peer {
	return &cluster.Peer{Host: "10.0.0." + strconv.Itoa(i+1), RemotingPort: 9000 + i, PeersPort: 8000 + i, DiscoveryPort: 6000 + i, Roles: roles}
}

func c32Build(leaderRoles []string, peers [][]string, groups []c32Group, grains []c32GrainGroup) *c32World {
	w := &c32World{leaderRoles: leaderRoles, actorIdx: map[*internalpb.Actor]int{}, grainIdx: map[*internalpb.Grain]int{}}
	w.departed = address.FormatHostPort(c32DepartedHost, c32DepartedPort)
	for i, r := range peers {
		w.peers = append(w.peers, c32Peer(i, r))
	}
	w.state = &internalpb.PeerState{Host: c32DepartedHost, RemotingPort: c32DepartedPort, PeersPort: 7001,
		Actors: map[string]*internalpb.Actor{}, Grains: map[string]*internalpb.Grain{}}
	k := 0
	for _, g := range groups {
		for j := 0; j < g.Count; j++ {
			name := "w-" + strconv.Itoa(k)
			if g.System {
				name = "GoAktVf-" + strconv.Itoa(k)
			}
			a := c32WireActor(name, g)
			w.state.Actors[name] = a
			w.actorIdx[a] = len(w.actors)
			w.actors = append(w.actors, a)
			k++
		}
	}
	k = 0
	for _, g := range grains {
		for j := 0; j < g.Count; j++ {
			id := "vf.Grain/g-" + strconv.Itoa(k)
			gr := &internalpb.Grain{
				GrainId:           &internalpb.GrainId{Kind: "vf.Grain", Name: "g-" + strconv.Itoa(k), Value: id},
				Host:              c32DepartedHost,
				Port:              c32DepartedPort,
				DisableRelocation: g.Disabled,
				EagerRelocation:   g.Eager,
			}
			w.state.Grains[id] = gr
			w.grainIdx[gr] = len(w.grains)
			w.grains = append(w.grains, gr)
			k++
		}
	}
	return w
}

// c32Eligible is the property's notion of "advertises its role": a role-less
// actor may go anywhere, a constrained one only where the role is listed.
func c32Eligible(roles []string, role string) bool {
	if role == "" {
		return true
	}
	for _, r := range roles {
		if r == role {
			return true
		}
	}
	return false
}

func (w *c32World) targetRoles() [][]string {
	out := [][]string{w.leaderRoles}
	for _, p := range w.peers {
		out = append(out, p.Roles)
	}
	return out
}

// ---- oracle: allocateActors -----------------------------------------------------

func c32CheckActors(x *vfkit.X, w *c32World, baseLoads []int) (peerShares [][]*internalpb.Actor) {
	leader, shares, unplaceable := allocateActors(w.leaderRoles, w.peers, w.state, baseLoads)
	troles := w.targetRoles()
	nt := len(troles)
	if len(shares) != nt {
		x.Failf("alloc-shares-misaligned", "allocateActors returned %d shares for %d targets (leader + %d peers)", len(shares), nt, len(w.peers))
	}
	// exactly-once accounting over the effective assignment:
	// leader share, peer shares 1..n, unplaceable
	const (
		inLeader = 1 << iota
		inPeer
		inUnplaceable
	)
	seen := make([]int, len(w.actors))
	where := make([]int, len(w.actors)) // target index, -1 = unplaceable
	count := func(a *internalpb.Actor, flag, target int, list string) {
		i, ok := w.actorIdx[a]
		if !ok {
			x.Failf("alloc-foreign-entry", "%s contains an entry that is not part of the departed state: %v", list, a.GetAddress())
		}
		if seen[i] != 0 {
			x.Failf("alloc-actor-duplicated", "actor %s (role=%q singleton=%v) is assigned more than once (again in %s)", a.GetAddress(), a.GetRole(), a.GetSingleton() != nil, list)
		}
		seen[i] = flag
		where[i] = target
	}
	for _, a := range leader {
		count(a, inLeader, 0, "leader share")
	}
	for t := 1; t < len(shares); t++ {
		for _, a := range shares[t] {
			count(a, inPeer, t, "peer share "+strconv.Itoa(t))
		}
	}
	for _, a := range unplaceable {
		count(a, inUnplaceable, -1, "unplaceable")
	}
	for i, a := range w.actors {
		if seen[i] == 0 {
			x.Failf("alloc-actor-missing", "actor %s (role=%q singleton=%v) is neither assigned nor reported unplaceable", a.GetAddress(), a.GetRole(), a.GetSingleton() != nil)
		}
	}
	// leader share == singletons + shares[0]
	inZero := map[*internalpb.Actor]int{}
	for _, a := range shares[0] {
		inZero[a]++
		if inZero[a] > 1 {
			x.Failf("alloc-actor-duplicated", "actor %s appears twice in the leader's balanced share", a.GetAddress())
		}
		if i, ok := w.actorIdx[a]; !ok || seen[i] != inLeader {
			x.Failf("alloc-leader-share-mismatch", "actor %s is in peersShares[0] but not (only) in the leader share", a.GetAddress())
		}
	}
	for _, a := range leader {
		if a.GetSingleton() == nil && inZero[a] == 0 {
			x.Failf("alloc-leader-share-mismatch", "non-singleton actor %s is in the leader share but not in the leader's balanced share peersShares[0]", a.GetAddress())
		}
	}
	// per-actor placement rules
	for i, a := range w.actors {
		role := a.GetRole()
		if a.GetSingleton() != nil {
			if seen[i] != inLeader || inZero[a] != 0 {
				x.Failf("alloc-singleton-not-on-leader", "singleton %s (role=%q) must be in the leader share only; found flag=%d target=%d balanced=%d", a.GetAddress(), role, seen[i], where[i], inZero[a])
			}
			continue
		}
		anyEligible := false
		for _, r := range troles {
			if c32Eligible(r, role) {
				anyEligible = true
				break
			}
		}
		if seen[i] == inUnplaceable {
			if anyEligible {
				x.Failf("alloc-unplaceable-but-role-advertised", "actor %s role=%q reported unplaceable although a surviving target advertises the role", a.GetAddress(), role)
			}
			continue
		}
		if !anyEligible {
			x.Failf("alloc-placed-without-eligible-target", "actor %s role=%q assigned to target %d although nobody advertises the role", a.GetAddress(), role, where[i])
		}
		if !c32Eligible(troles[where[i]], role) {
			x.Failf("alloc-ineligible-target", "actor %s role=%q assigned to target %d with roles %v", a.GetAddress(), role, where[i], troles[where[i]])
		}
	}
	// least-loaded: some processing order of the actor map must make every
	// placement a minimal-load eligible choice.
	loads := make([]int, nt)
	if len(baseLoads) == nt {
		copy(loads, baseLoads)
	}
	c32CheckLeastLoaded(x, troles, shares, loads)
	return shares
}

// c32CheckLeastLoaded decides whether an interleaving of the per-target share
// sequences exists in which each actor, when placed, went to a target whose load
// (base + actors already handed to it) was minimal among the targets eligible for
// its role. Placing an actor on t only raises load[t], which can only make the
// pending heads of other targets valid, so the greedy fixed point is exact.
func c32CheckLeastLoaded(x *vfkit.X, troles [][]string, shares [][]*internalpb.Actor, loads []int) {
	nt := len(troles)
	elig := map[string][]int{}
	eligible := func(role string) []int {
		if e, ok := elig[role]; ok {
			return e
		}
		var e []int
		for t := 0; t < nt; t++ {
			if c32Eligible(troles[t], role) {
				e = append(e, t)
			}
		}
		elig[role] = e
		return e
	}
	pos := make([]int, nt)
	remaining := 0
	for _, s := range shares {
		remaining += len(s)
	}
	for remaining > 0 {
		progressed := false
		for t := 0; t < nt; t++ {
			for pos[t] < len(shares[t]) {
				role := shares[t][pos[t]].GetRole()
				ok := true
				for _, u := range eligible(role) {
					if loads[u] < loads[t] {
						ok = false
						break
					}
				}
				if !ok {
					break
				}
				pos[t]++
				loads[t]++
				remaining--
				progressed = true
			}
		}
		if !progressed {
			fp := "alloc-constrained-not-least-loaded"
			var stuck []string
			for t := 0; t < nt; t++ {
				if pos[t] < len(shares[t]) {
					a := shares[t][pos[t]]
					if a.GetRole() == "" {
						fp = "alloc-roleless-not-least-loaded"
					}
					stuck = append(stuck, fmt.Sprintf("target %d (load %d) next=%s role=%q", t, loads[t], a.GetAddress(), a.GetRole()))
				}
			}
			x.Failf(fp, "no processing order explains the placement as least-loaded eligible choices; loads now %v; blocked heads: %v", loads, stuck)
		}
	}
}

// ---- oracle: grains --------------------------------------------------------------

func c32CheckGrains(x *vfkit.X, w *c32World) (peerShares [][]*internalpb.Grain) {
	rel := relocatableGrains(w.state.GetGrains())
	seen := make([]int, len(w.grains))
	for _, g := range rel {
		i, ok := w.grainIdx[g]
		if !ok {
			x.Failf("grains-foreign-entry", "relocatableGrains returned a grain that is not in the departed state")
		}
		if g.GetDisableRelocation() {
			x.Failf("grains-disabled-relocated", "grain %s opted out of relocation but is returned as relocatable", g.GetGrainId().GetValue())
		}
		seen[i]++
		if seen[i] > 1 {
			x.Failf("grains-duplicated", "grain %s returned twice by relocatableGrains", g.GetGrainId().GetValue())
		}
	}
	nrel := 0
	for i, g := range w.grains {
		if !g.GetDisableRelocation() {
			nrel++
			if seen[i] == 0 {
				x.Failf("grains-relocatable-dropped", "relocatable grain %s is missing from relocatableGrains", g.GetGrainId().GetValue())
			}
		}
	}
	total := len(w.peers) + 1
	leader, shares := allocateGrains(total, rel)
	if len(shares) > total {
		x.Failf("grains-too-many-shares", "allocateGrains(%d targets, %d grains) returned %d shares; share i is sent to peers[i-1]", total, len(rel), len(shares))
	}
	got := make([]int, len(w.grains))
	add := func(g *internalpb.Grain, list string) {
		i, ok := w.grainIdx[g]
		if !ok || g.GetDisableRelocation() {
			x.Failf("grains-foreign-entry", "%s contains a grain that is not relocatable", list)
		}
		got[i]++
		if got[i] > 1 {
			x.Failf("grains-duplicated", "grain %s is assigned more than once (again in %s); targets=%d grains=%d", g.GetGrainId().GetValue(), list, total, len(rel))
		}
	}
	for _, g := range leader {
		add(g, "leader share")
	}
	for t := 1; t < len(shares); t++ {
		for _, g := range shares[t] {
			add(g, "peer share "+strconv.Itoa(t))
		}
	}
	for i, g := range w.grains {
		if !g.GetDisableRelocation() && got[i] == 0 {
			x.Failf("grains-missing", "relocatable grain %s is assigned to nobody; targets=%d grains=%d", g.GetGrainId().GetValue(), total, len(rel))
		}
	}
	if len(shares) > 0 {
		inLeader := map[*internalpb.Grain]bool{}
		for _, g := range leader {
			inLeader[g] = true
		}
		for _, g := range shares[0] {
			if !inLeader[g] {
				x.Failf("grains-leader-share-mismatch", "grain %s is in peersShares[0] (the leader's entry) but not in the leader share", g.GetGrainId().GetValue())
			}
		}
	}
	_ = nrel
	return shares
}

// ---- oracle: batches ---------------------------------------------------------------

func c32CheckBatches(x *vfkit.X, departed string, actors []*internalpb.Actor, grains []*internalpb.Grain) []*internalpb.RelocateBatchRequest {
	reqs := buildRelocateBatchRequests(departed, actors, grains)
	var ga []*internalpb.Actor
	var gg []*internalpb.Grain
	for i, r := range reqs {
		n := len(r.GetActors()) + len(r.GetGrains())
		if n == 0 {
			x.Failf("batch-empty-request", "request %d of %d carries nothing", i, len(reqs))
		}
		if n > defaultRelocationBatchSize {
			x.Failf("batch-too-large", "request %d carries %d items (> %d)", i, n, defaultRelocationBatchSize)
		}
		if r.GetDepartedNode() != departed {
			x.Failf("batch-departed-node-missing", "request %d carries departed node %q, want %q", i, r.GetDepartedNode(), departed)
		}
		ga = append(ga, r.GetActors()...)
		gg = append(gg, r.GetGrains()...)
	}
	if len(ga) != len(actors) || len(gg) != len(grains) {
		x.Failf("batch-loss-or-dup", "batches carry %d actors / %d grains, the share has %d / %d", len(ga), len(gg), len(actors), len(grains))
	}
	for i := range ga {
		if ga[i] != actors[i] {
			x.Failf("batch-loss-or-dup", "actor at position %d of the batches differs from the share", i)
		}
	}
	for i := range gg {
		if gg[i] != grains[i] {
			x.Failf("batch-loss-or-dup", "grain at position %d of the batches differs from the share", i)
		}
	}
	return reqs
}

// ---- oracle: reassignByRole -----------------------------------------------------------

func c32CheckReassign(x *vfkit.X, w *c32World, remaining []*internalpb.RelocateBatchRequest, target *cluster.Peer) {
	survivors := survivingPeersExcept(w.peers, target)
	var want []*cluster.Peer
	for _, p := range w.peers {
		if p != target {
			want = append(want, p)
		}
	}
	if len(survivors) != len(want) {
		x.Failf("survivors-wrong", "survivingPeersExcept returned %d peers, want %d", len(survivors), len(want))
	}
	for i := range want {
		if survivors[i] != want[i] {
			x.Failf("survivors-wrong", "survivor %d is %s:%d, want %s:%d", i, survivors[i].Host, survivors[i].RemotingPort, want[i].Host, want[i].RemotingPort)
		}
	}
	if d := departedNodeOf(remaining); len(remaining) > 0 && d != w.departed {
		x.Failf("batch-departed-node-missing", "departedNodeOf = %q, want %q", d, w.departed)
	}
	failures := &relocationFailures{}
	shares, leaderActors, grains := reassignByRole(remaining, survivors, w.leaderRoles, failures)
	if len(shares) != len(survivors) {
		x.Failf("reassign-shares-misaligned", "%d shares for %d survivors", len(shares), len(survivors))
	}
	// reference model: documented rule, in the (deterministic) order of the requests
	model := make([][]*internalpb.Actor, len(survivors))
	var modelLeader []*internalpb.Actor
	var modelFailed []string
	var modelGrains []*internalpb.Grain
	for _, r := range remaining {
		modelGrains = append(modelGrains, r.GetGrains()...)
		for _, a := range r.GetActors() {
			best := -1
			for i, s := range survivors {
				if !c32Eligible(s.Roles, a.GetRole()) {
					continue
				}
				if best < 0 || len(model[i]) < len(model[best]) {
					best = i
				}
			}
			switch {
			case best >= 0:
				model[best] = append(model[best], a)
			case c32Eligible(w.leaderRoles, a.GetRole()):
				modelLeader = append(modelLeader, a)
			default:
				modelFailed = append(modelFailed, a.GetAddress())
			}
		}
	}
	// specific diagnoses first
	placed := map[*internalpb.Actor]int{}
	for i, s := range shares {
		for _, a := range s {
			placed[a]++
			if !c32Eligible(survivors[i].Roles, a.GetRole()) {
				x.Failf("reassign-ineligible-survivor", "actor %s role=%q redistributed to survivor %d with roles %v", a.GetAddress(), a.GetRole(), i, survivors[i].Roles)
			}
		}
	}
	for _, a := range leaderActors {
		placed[a]++
		if !c32Eligible(w.leaderRoles, a.GetRole()) {
			x.Failf("reassign-leader-fallback-wrong", "actor %s role=%q taken by the leader whose roles are %v", a.GetAddress(), a.GetRole(), w.leaderRoles)
		}
	}
	failedIDs := map[string]int{}
	for _, f := range failures.items() {
		failedIDs[f.GetId()]++
		if f.GetGrain() {
			x.Failf("reassign-failure-wrong", "reassignByRole recorded a grain failure for %s", f.GetId())
		}
	}
	for _, r := range remaining {
		for _, a := range r.GetActors() {
			n := placed[a] + failedIDs[a.GetAddress()]
			if n == 0 {
				x.Failf("reassign-actor-lost", "actor %s role=%q of the unsent remainder is neither redistributed nor recorded as failed", a.GetAddress(), a.GetRole())
			}
			if n > 1 {
				x.Failf("reassign-actor-duplicated", "actor %s role=%q accounted %d times after redistribution", a.GetAddress(), a.GetRole(), n)
			}
		}
	}
	if len(failures.items()) != len(modelFailed) {
		x.Failf("reassign-failure-wrong", "recorded %d failures, exactly %d actors have no eligible host (leader roles %v)", len(failures.items()), len(modelFailed), w.leaderRoles)
	}
	for _, id := range modelFailed {
		if failedIDs[id] != 1 {
			x.Failf("reassign-failure-wrong", "actor %s has no eligible survivor or leader but is recorded %d times", id, failedIDs[id])
		}
	}
	if !c32SameActors(leaderActors, modelLeader) {
		x.Failf("reassign-leader-fallback-wrong", "leader takes %d actors, model (only when no survivor is eligible and the leader is) %d", len(leaderActors), len(modelLeader))
	}
	for i := range shares {
		if !c32SameActors(shares[i], model[i]) {
			x.Failf("reassign-not-least-loaded-lowest-index", "survivor %d receives %d actors, documented rule (least-loaded eligible survivor, ties to the lower index) gives %d; share sizes got=%v", i, len(shares[i]), len(model[i]), c32Lens(shares))
		}
	}
	if len(grains) != len(modelGrains) {
		x.Failf("reassign-grains-lost", "flattened grains: %d, remainder carries %d", len(grains), len(modelGrains))
	}
	for i := range grains {
		if grains[i] != modelGrains[i] {
			x.Failf("reassign-grains-lost", "flattened grain %d differs from the remainder", i)
		}
	}
}

func c32SameActors(a, b []*internalpb.Actor) bool {
	if len(a) != len(b) {
		return false
	}
	for i := range a {
		if a[i] != b[i] {
			return false
		}
	}
	return true
}

func c32Lens(s [][]*internalpb.Actor) []int {
	out := make([]int, len(s))
	for i := range s {
		out[i] = len(s[i])
	}
	return out
}

// ---- Exec: plan ------------------------------------------------------------------------

func c32ExecPlan(x *vfkit.X, c c32PlanCase) {
	w := c32Build(c.LeaderRoles, c.Peers, c.Groups, c.Grains)
	var loads []int
	if c.LoadsKind != 0 {
		loads = append([]int{}, c.Loads...)
	}
	x.Class("kind_" + c.Kind)
	x.Class("loads_kind_" + strconv.Itoa(c.LoadsKind))
	x.Class("peers_" + c32Bucket(len(c.Peers)))
	x.Class("actors_" + c32Bucket(len(w.actors)))
	x.Class("grains_" + c32Bucket(len(w.grains)))

	actorShares := c32CheckActors(x, w, loads)
	grainShares := c32CheckGrains(x, w)

	// non-triviality: >= 2 targets with different role sets and >= 1 constrained actor
	troles := w.targetRoles()
	distinctSets := map[string]bool{}
	for _, r := range troles {
		s := append([]string{}, r...)
		sort.Strings(s)
		distinctSets[fmt.Sprint(s)] = true
	}
	constrained, singles, unplace := 0, 0, 0
	for _, a := range w.actors {
		if a.GetSingleton() != nil {
			singles++
			continue
		}
		if a.GetRole() != "" {
			constrained++
			any := false
			for _, r := range troles {
				if c32Eligible(r, a.GetRole()) {
					any = true
				}
			}
			if !any {
				unplace++
			}
		}
	}
	if len(distinctSets) >= 2 && constrained >= 1 {
		x.NonTrivial()
	}
	if singles > 0 {
		x.Class("has_singleton")
	}
	if unplace > 0 {
		x.Class("has_unplaceable")
	}
	if constrained > 0 {
		x.Class("has_constrained")
	}

	// every peer share is turned into batch requests
	nshares := len(actorShares)
	if len(grainShares) > nshares {
		nshares = len(grainShares)
	}
	type share struct {
		peer int
		reqs []*internalpb.RelocateBatchRequest
	}
	var nonEmpty []share
	for i := 1; i < nshares; i++ {
		var sa []*internalpb.Actor
		var sg []*internalpb.Grain
		if i < len(actorShares) {
			sa = actorShares[i]
		}
		if i < len(grainShares) {
			sg = grainShares[i]
		}
		reqs := c32CheckBatches(x, w.departed, sa, sg)
		if len(reqs) > 1 {
			x.Class("multi_batch_share")
		}
		if len(reqs) > 0 {
			nonEmpty = append(nonEmpty, share{peer: i - 1, reqs: reqs})
		}
	}
	// redistribution after one target became unreachable
	if len(nonEmpty) > 0 {
		s := nonEmpty[c.FailPick%len(nonEmpty)]
		sent := c.Sent % len(s.reqs)
		x.Class("reassign_survivors_" + c32Bucket(len(w.peers)-1))
		if sent > 0 {
			x.Class("reassign_after_partial_send")
		}
		c32CheckReassign(x, w, s.reqs[sent:], w.peers[s.peer])
	} else {
		x.Class("no_peer_share")
	}

	// direct probe of the tie-break rule
	if len(w.peers) > 0 && len(c.ProbeLens) == len(w.peers) {
		probe := make([][]*internalpb.Actor, len(w.peers))
		for i, n := range c.ProbeLens {
			probe[i] = make([]*internalpb.Actor, n)
		}
		got := leastLoadedEligibleSurvivor(w.peers, probe, c.ProbeRole)
		want := -1
		for i, p := range w.peers {
			if !c32Eligible(p.Roles, c.ProbeRole) {
				continue
			}
			if want < 0 || c.ProbeLens[i] < c.ProbeLens[want] {
				want = i
			}
		}
		if got != want {
			x.Failf("lles-wrong", "leastLoadedEligibleSurvivor(role=%q, share sizes %v, roles %v) = %d, want %d (smallest share among eligible, ties to the lower index, -1 when none)", c.ProbeRole, c.ProbeLens, c.Peers, got, want)
		}
	}
}

func c32Bucket(n int) string {
	switch {
	case n <= 0:
		return "0"
	case n == 1:
		return "1"
	case n <= 3:
		return "2-3"
	case n <= 8:
		return "4-8"
	case n <= 100:
		return "9-100"
	case n <= 500:
		return "101-500"
	default:
		return ">500"
	}
}

func TestVF_C32_plan(t *testing.T) {
	vfkit.Run(t, vfkit.Spec[c32PlanCase]{
		ID: "C32", Unit: "plan",
		Rule: "cases = leader roles, 0..3 (small) or 0..20 (large) surviving peers with role subsets of {a,b[,c]}, run-length groups of departed actors (role in {'',a,b,c,unadvertised z}, singleton / non-relocatable / system flavours; <=4 actors small, <=2000 large), grain groups (disabled/eager), baseLoads nil / aligned / mis-sized, one unreachable peer share and a sent-prefix for the redistribution; non-trivial = at least two targets with different role sets and at least one role-constrained non-singleton actor; distinct = distinct case",
		Gen:  c32GenPlan, Exec: c32ExecPlan,
	})
}

// ---- C32: relocateShare end to end against a recording peer double ---------------------
//
// relocateShare is driven with a remoting double that accepts or refuses
// RelocateBatch per target. The worker has no pid (the documented test-double
// construction), so the leader contributes no roles and no local fallback.

type c32ShareCase struct {
	Peers     [][]string      `json:"peers"`  // >= 1; peers[Target] is the share's target
	Target    int             `json:"target"` // modulo len(peers)
	Groups    []c32Group      `json:"groups"` // non-singleton actors of the share (roles are forced eligible for the target)
	Grains    []c32GrainGroup `json:"grains"`
	TargetOK  int             `json:"target_ok"` // batches the target accepts before it becomes unreachable (-1: never fails)
	PeerOK    []int           `json:"peer_ok"`   // per peer: batches accepted before failing, -1 = always reachable
	LiveCtx   bool            `json:"live_ctx"`  // true: real retry/backoff path (slow), false: cancelled context (no backoff sleep)
	BigShare  bool            `json:"big_share"`
	ShareSeed int             `json:"share_seed"`
}

func c32GenShare(t *rapid.T) c32ShareCase {
	var c c32ShareCase
	np := rapid.IntRange(1, 5).Draw(t, "peers")
	for i := 0; i < np; i++ {
		r := c32GenRoles(t, "peer")
		if r == nil {
			r = []string{}
		}
		c.Peers = append(c.Peers, r)
	}
	c.Target = rapid.IntRange(0, np-1).Draw(t, "target")
	c.BigShare = rapid.IntRange(0, 7).Draw(t, "big") == 0
	maxCount := 3
	if c.BigShare {
		maxCount = 600
	}
	ng := rapid.IntRange(0, 4).Draw(t, "groups")
	for i := 0; i < ng; i++ {
		g := c32Group{Count: rapid.IntRange(1, maxCount).Draw(t, "count")}
		// the share of a target only holds actors the target was eligible for
		opts := append([]string{""}, c.Peers[c.Target]...)
		g.Role = rapid.SampledFrom(opts).Draw(t, "role")
		g.NonRelocatable = rapid.IntRange(0, 9).Draw(t, "nonreloc") == 0
		c.Groups = append(c.Groups, g)
	}
	ngg := rapid.IntRange(0, 3).Draw(t, "grain_groups")
	for i := 0; i < ngg; i++ {
		c.Grains = append(c.Grains, c32GrainGroup{Count: rapid.IntRange(1, maxCount).Draw(t, "grain_count"), Eager: rapid.Bool().Draw(t, "eager")})
	}
	c.TargetOK = rapid.SampledFrom([]int{0, 0, 0, 1, 1, 2, -1}).Draw(t, "target_ok")
	for i := 0; i < np; i++ {
		c.PeerOK = append(c.PeerOK, rapid.SampledFrom([]int{-1, -1, -1, -1, 0, 0, 1}).Draw(t, "peer_ok"))
	}
	// rare (rapid favours the ends of a range, so the marker sits in the middle)
	c.LiveCtx = rapid.IntRange(0, 80).Draw(t, "live_ctx") == 37
	return c
}

type c32Remote struct {
	remoteclient.Client // nil: any method other than RelocateBatch must not be reached

	mu        sync.Mutex
	okLeft    map[string]int // target key -> batches still accepted (-1 = unlimited)
	dead      map[string]bool
	delivered map[string][]*internalpb.RelocateBatchRequest
	attempts  map[string]int
}

var errC32Unreachable = errors.New("vf: peer unreachable")

func (r *c32Remote) RelocateBatch(_ context.Context, host string, port int, req *internalpb.RelocateBatchRequest) (*internalpb.RelocateBatchResponse, error) {
	r.mu.Lock()
	defer r.mu.Unlock()
	key := address.FormatHostPort(host, port)
	r.attempts[key]++
	if r.dead[key] {
		return nil, errC32Unreachable
	}
	if left := r.okLeft[key]; left == 0 {
		r.dead[key] = true // once unreachable, stays unreachable for the rest of the case
		return nil, errC32Unreachable
	} else if left > 0 {
		r.okLeft[key] = left - 1
	}
	r.delivered[key] = append(r.delivered[key], req)
	return &internalpb.RelocateBatchResponse{}, nil
}

func c32ExecShare(x *vfkit.X, c c32ShareCase) {
	w := c32Build(nil, c.Peers, c.Groups, c.Grains)
	target := w.peers[c.Target%len(w.peers)]
	// the share in a fixed order (map order of the state is irrelevant here)
	shareActors := append([]*internalpb.Actor{}, w.actors...)
	shareGrains := append([]*internalpb.Grain{}, w.grains...)
	reqs := buildRelocateBatchRequests(w.departed, shareActors, shareGrains)

	key := func(p *cluster.Peer) string { return address.FormatHostPort(p.Host, p.RemotingPort) }
	rem := &c32Remote{okLeft: map[string]int{}, dead: map[string]bool{}, delivered: map[string][]*internalpb.RelocateBatchRequest{}, attempts: map[string]int{}}
	for i, p := range w.peers {
		rem.okLeft[key(p)] = c.PeerOK[i]
	}
	rem.okLeft[key(target)] = c.TargetOK

	ctx, cancel := context.WithCancel(context.Background())
	if !c.LiveCtx {
		cancel() // skips the 300-500 ms retry backoff; placement does not depend on it
	}
	defer cancel()
	worker := &relocationWorker{remoting: rem, logger: log.DiscardLogger}
	failures := &relocationFailures{}
	func() {
		defer func() {
			if p := recover(); p != nil {
				x.Failf("share-panic", "relocateShare panicked: %v", p)
			}
		}()
		worker.relocateShare(ctx, reqs, target, w.peers, failures)
	}()

	targetFails := c.TargetOK >= 0 && c.TargetOK < len(reqs)
	x.Class(fmt.Sprintf("target_fails_%v", targetFails))
	x.Class("survivors_" + c32Bucket(len(w.peers)-1))
	if c.LiveCtx {
		x.Class("live_ctx")
	}
	if len(reqs) > 1 {
		x.Class("multi_batch")
	}

	// accounting
	actorDelivered := map[*internalpb.Actor][]string{}
	grainDelivered := map[*internalpb.Grain][]string{}
	for k, list := range rem.delivered {
		for _, r := range list {
			if len(r.GetActors())+len(r.GetGrains()) > defaultRelocationBatchSize {
				x.Failf("batch-too-large", "a forwarded batch carries %d items", len(r.GetActors())+len(r.GetGrains()))
			}
			if r.GetDepartedNode() != w.departed {
				x.Failf("batch-departed-node-missing", "batch delivered to %s carries departed node %q, want %q", k, r.GetDepartedNode(), w.departed)
			}
			for _, a := range r.GetActors() {
				actorDelivered[a] = append(actorDelivered[a], k)
			}
			for _, g := range r.GetGrains() {
				grainDelivered[g] = append(grainDelivered[g], k)
			}
		}
	}
	failedActors := map[string]int{}
	failedGrains := map[string]int{}
	for _, f := range failures.items() {
		if f.GetGrain() {
			failedGrains[f.GetId()]++
		} else {
			failedActors[f.GetId()]++
		}
	}
	peerByKey := map[string]*cluster.Peer{}
	anyUnreachableSurvivor := false
	survivors := 0
	for i, p := range w.peers {
		peerByKey[key(p)] = p
		if p != target {
			survivors++
			if c.PeerOK[i] >= 0 {
				anyUnreachableSurvivor = true // may become unreachable during the case
			}
		}
	}
	if survivors > 0 && targetFails {
		x.NonTrivial()
	}
	if anyUnreachableSurvivor && targetFails {
		x.Class("survivor_may_fail")
	}
	for _, a := range shareActors {
		d, f := actorDelivered[a], failedActors[a.GetAddress()]
		if len(d)+f == 0 {
			x.Failf("share-actor-lost", "actor %s role=%q is neither delivered to a node nor reported failed (target accepted %d batches, %d survivors)", a.GetAddress(), a.GetRole(), c.TargetOK, survivors)
		}
		if len(d)+f > 1 {
			x.Failf("share-actor-duplicated", "actor %s role=%q delivered to %v and reported failed %d times", a.GetAddress(), a.GetRole(), d, f)
		}
		if len(d) == 1 && !c32Eligible(peerByKey[d[0]].Roles, a.GetRole()) {
			x.Failf("share-ineligible-survivor", "actor %s role=%q delivered to %s whose roles are %v", a.GetAddress(), a.GetRole(), d[0], peerByKey[d[0]].Roles)
		}
		if f == 1 {
			// a failure needs a reason: nobody eligible, or a survivor that may be unreachable
			eligibleSurvivor := false
			for _, p := range w.peers {
				if p != target && c32Eligible(p.Roles, a.GetRole()) {
					eligibleSurvivor = true
				}
			}
			if !targetFails {
				x.Failf("share-failure-without-cause", "actor %s reported failed although the target accepted every batch", a.GetAddress())
			}
			if eligibleSurvivor && !anyUnreachableSurvivor {
				x.Failf("share-failure-without-cause", "actor %s role=%q reported failed although an eligible survivor exists and every survivor is reachable", a.GetAddress(), a.GetRole())
			}
		}
	}
	for _, g := range shareGrains {
		id := g.GetGrainId().GetValue()
		d, f := grainDelivered[g], failedGrains[id]
		if len(d)+f > 1 {
			x.Failf("share-grain-duplicated", "grain %s (eager=%v) delivered to %v and reported failed %d times", id, g.GetEagerRelocation(), d, f)
		}
		if g.GetEagerRelocation() {
			if len(d)+f == 0 {
				x.Failf("share-grain-lost", "eager grain %s is neither delivered nor reported failed", id)
			}
		} else if f != 0 {
			x.Failf("share-lazy-grain-reported", "lazy grain %s is reported failed by a worker that cannot release directory entries (unsent lazy grains are not failures)", id)
		}
		if len(d) == 0 && (!targetFails || (survivors > 0 && !anyUnreachableSurvivor)) {
			x.Failf("share-grain-lost", "grain %s (eager=%v) was not delivered although a reachable node was available (target fails=%v, survivors=%d)", id, g.GetEagerRelocation(), targetFails, survivors)
		}
		if f == 1 && !(targetFails && (survivors == 0 || anyUnreachableSurvivor)) {
			x.Failf("share-failure-without-cause", "grain %s reported failed although a reachable node was available", id)
		}
	}
	// nothing reaches the unreachable target after it failed
	if targetFails && len(rem.delivered[key(target)]) != c.TargetOK {
		x.Failf("share-sent-to-unreachable-target", "target accepted %d batches, model %d", len(rem.delivered[key(target)]), c.TargetOK)
	}
}

func TestVF_C32_share(t *testing.T) {
	vfkit.Run(t, vfkit.Spec[c32ShareCase]{
		ID: "C32", Unit: "share",
		Rule: "cases = 1..5 peers with role subsets, one of them the target of a share of non-singleton actors (roles the target advertises, or none) and eager/lazy grains, split into RelocateBatch requests; a recording remoting double makes the target unreachable after k accepted batches and each survivor always reachable or unreachable after j batches; non-trivial = the target becomes unreachable and at least one survivor exists (redistribution happens)",
		Gen:  c32GenShare, Exec: c32ExecShare,
	})
}

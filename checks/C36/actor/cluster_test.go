//go:build verif

package actor

import (
	"context"
	"fmt"
	"sync"
	"sync/atomic"
	"testing"
	"time"

	natsserver "github.com/nats-io/nats-server/v2/server"
	"pgregory.net/rapid"

	"github.com/tochemey/goakt/v4/discovery"
	"github.com/tochemey/goakt/v4/discovery/nats"
	"github.com/tochemey/goakt/v4/eventstream"
	"github.com/tochemey/goakt/v4/internal/cluster"
	inet "github.com/tochemey/goakt/v4/internal/net"
	"github.com/tochemey/goakt/v4/internal/vfkit"
	"github.com/tochemey/goakt/v4/log"
	"github.com/tochemey/goakt/v4/remote"
)

// ---------------------------------------------------------------------------
// C36 / cluster: a real in-process 3-node cluster (NATS discovery + olric, the way the
// repository's own cluster tests start one). One NATS server per test process; nodes are
// started on demand so that every case begins with three members. A case issues
// concurrent SpawnSingleton calls for one fresh name from generated nodes, optionally
// stops the current coordinator gracefully at a generated point (leader change; the
// relocation machinery re-creates the singleton on the new leader) and issues further
// calls. Oracle: the process-global live-instance table never shows two live instances.
// Start-up failures and caps are inconclusive, never violations.
// ---------------------------------------------------------------------------

type c36RealNode struct {
	sys      *actorSystem
	provider discovery.Provider
	sub      eventstream.Subscriber
	started  []*RelocationStarted
	failed   []*RelocationFailed
}

type c36RealCluster struct {
	mu    sync.Mutex
	srv   *natsserver.Server
	nodes []*c36RealNode
	err   error
}

var (
	c36RealOnce sync.Once
	c36Real     *c36RealCluster
)

func c36RealGet() *c36RealCluster {
	c36RealOnce.Do(func() {
		rc := &c36RealCluster{}
		c36Real = rc
		srv, err := natsserver.NewServer(&natsserver.Options{Host: "127.0.0.1", Port: -1, NoLog: true})
		if err != nil {
			rc.err = err
			return
		}
		go srv.Start()
		if !srv.ReadyForConnections(15 * time.Second) {
			rc.err = fmt.Errorf("nats server not ready")
			return
		}
		rc.srv = srv
	})
	return c36Real
}

func (rc *c36RealCluster) startNode() (*c36RealNode, error) {
	ports := inet.Get(3)
	provider := nats.NewDiscovery(&nats.Config{
		NatsServer: "nats://" + rc.srv.Addr().String(), NatsSubject: "vfc36", Host: "127.0.0.1", DiscoveryPort: ports[0],
	}, nats.WithLogger(log.DiscardLogger))
	cc := NewClusterConfig().
		WithKinds(new(c36KindA)).
		WithPartitionCount(7).
		WithReplicaCount(1).
		WithPeersPort(ports[2]).
		WithMinimumPeersQuorum(1).
		WithDiscoveryPort(ports[0]).
		WithBootstrapTimeout(2 * time.Second).
		WithClusterStateSyncInterval(300 * time.Millisecond).
		WithClusterBalancerInterval(100 * time.Millisecond).
		WithDiscovery(provider)
	sys, err := NewActorSystem(c36SysName, WithLogger(log.DiscardLogger), WithShutdownTimeout(time.Minute), WithCluster(cc), WithRemote(remote.NewConfig("127.0.0.1", ports[1])))
	if err != nil {
		return nil, err
	}
	// NOTE: the cluster engine derives the context of its event-consuming loop from the
	// context handed to Start, so Start must get a context that is never cancelled
	// (a timeout context cancelled after start-up silently stops all membership events).
	done := make(chan error, 1)
	go func() { done <- sys.Start(context.Background()) }()
	select {
	case err := <-done:
		if err != nil {
			return nil, err
		}
	case <-time.After(120 * time.Second):
		return nil, fmt.Errorf("node start-up did not finish within 120 s")
	}
	sub, err := sys.Subscribe()
	if err != nil {
		_ = sys.Stop(context.Background())
		return nil, err
	}
	return &c36RealNode{sys: sys.(*actorSystem), provider: provider, sub: sub}, nil
}

// ensure makes the cluster have n live nodes and a settled membership view.
func (rc *c36RealCluster) ensure(n int) error {
	for len(rc.nodes) < n {
		node, err := rc.startNode()
		if err != nil {
			return err
		}
		rc.nodes = append(rc.nodes, node)
	}
	// every node sees n-1 peers and exactly one node is the leader
	deadline := time.Now().Add(30 * time.Second)
	for {
		ok := true
		leaders := 0
		for _, nd := range rc.nodes {
			peers, err := nd.sys.cluster.Peers(context.Background())
			if err != nil || len(peers) != len(rc.nodes)-1 {
				ok = false
			}
			if nd.sys.cluster.IsLeader(context.Background()) {
				leaders++
			}
		}
		if ok && leaders == 1 {
			return nil
		}
		if time.Now().After(deadline) {
			return fmt.Errorf("membership did not settle (leaders=%d)", leaders)
		}
		time.Sleep(50 * time.Millisecond)
	}
}

func (rc *c36RealCluster) leader() *c36RealNode {
	for _, nd := range rc.nodes {
		if nd.sys.cluster.IsLeader(context.Background()) {
			return nd
		}
	}
	return nil
}

func (rc *c36RealCluster) remove(nd *c36RealNode) {
	for i, n := range rc.nodes {
		if n == nd {
			rc.nodes = append(rc.nodes[:i], rc.nodes[i+1:]...)
			return
		}
	}
}

func (rc *c36RealCluster) stopAll() {
	for _, nd := range rc.nodes {
		ctx, cancel := context.WithTimeout(context.Background(), 60*time.Second)
		_ = nd.sys.Stop(ctx)
		cancel()
		_ = nd.provider.Close()
	}
	rc.nodes = nil
	if rc.srv != nil {
		rc.srv.Shutdown()
	}
}

func (nd *c36RealNode) drain(addr string) {
	for msg := range nd.sub.Iterator() {
		switch ev := msg.Payload().(type) {
		case *RelocationStarted:
			if ev.Address() == addr {
				nd.started = append(nd.started, ev)
			}
		case *RelocationFailed:
			if ev.Address() == addr {
				nd.failed = append(nd.failed, ev)
			}
		}
	}
}

type c36ClusterCase struct {
	Wave1      []c36Call `json:"wave1"`
	StopLeader bool      `json:"stop_leader"`
	StopOffset int       `json:"stop_offset_us"` // when the coordinator is stopped, relative to the start of wave 1 (-1 = after wave 1 completed)
	Wave2      []c36Call `json:"wave2"`          // calls issued from the survivors while / after the leader stops
	Wave2Delay int       `json:"wave2_delay_us"`
	Wave3      []c36Call `json:"wave3"` // calls after the relocation settled
}

func c36ClusterGen(t *rapid.T) c36ClusterCase {
	var c c36ClusterCase
	c.Wave1 = c36GenCalls(t, "w1", 2, 6)
	c.StopLeader = rapid.IntRange(0, 2).Draw(t, "stop_leader") > 0
	if c.StopLeader {
		c.StopOffset = rapid.SampledFrom([]int{-1, -1, 0, 100, 1000, 5000}).Draw(t, "stop_offset")
		c.Wave2 = c36GenCalls(t, "w2", 1, 4)
		c.Wave2Delay = rapid.SampledFrom([]int{0, 1000, 20000, 200000, 1000000}).Draw(t, "w2_delay")
	}
	c.Wave3 = c36GenCalls(t, "w3", 0, 3)
	return c
}

func c36ClusterWave(nodes []*c36RealNode, clock *atomic.Int64, name string, calls []c36Call, extraDelay int) []c36Result {
	res := make([]c36Result, len(calls))
	var wg sync.WaitGroup
	gate := make(chan struct{})
	for i, call := range calls {
		wg.Add(1)
		go func(i int, call c36Call) {
			defer wg.Done()
			<-gate
			if d := call.Offset + extraDelay; d > 0 {
				time.Sleep(time.Duration(d) * time.Microsecond)
			}
			ctx, cancel := context.WithTimeout(context.Background(), 40*time.Second)
			defer cancel()
			r := c36Result{call: call, start: clock.Add(1)}
			nd := nodes[call.Node%len(nodes)]
			pid, err := nd.sys.SpawnSingleton(ctx, name, new(c36KindA), WithSingletonSpawnTimeout(30*time.Second), WithSingletonSpawnWaitInterval(100*time.Millisecond), WithSingletonSpawnRetries(20))
			r.end = clock.Add(1)
			r.err = err
			if err == nil && pid != nil {
				r.addr = pid.ID()
			}
			res[i] = r
		}(i, call)
	}
	close(gate)
	wg.Wait()
	return res
}

func c36ClusterExec(x *vfkit.X, c c36ClusterCase) {
	rc := c36RealGet()
	if rc.err != nil {
		x.Class("inconclusive_nats")
		x.Logf("nats: %v", rc.err)
		return
	}
	rc.mu.Lock()
	defer rc.mu.Unlock()
	ctx := context.Background()
	if err := rc.ensure(3); err != nil {
		x.Class("inconclusive_cluster_start")
		x.Logf("cluster start: %v", err)
		return
	}
	leader := rc.leader()
	if leader == nil {
		x.Class("inconclusive_no_leader")
		return
	}
	id := c36CaseSeq.Add(1)
	name := fmt.Sprintf("cs%d", id)
	all := append([]*c36RealNode(nil), rc.nodes...)
	var survivors []*c36RealNode
	for _, nd := range all {
		if nd != leader {
			survivors = append(survivors, nd)
		}
	}
	leaderAddr := leader.sys.PeersAddress()
	for _, nd := range all {
		nd.started, nd.failed = nil, nil
		nd.drain(leaderAddr)
		nd.started, nd.failed = nil, nil
	}
	defer func() {
		for _, nd := range rc.nodes {
			if node, ok := nd.sys.actors.nodeByName(name); ok {
				if pid := node.value(); pid != nil {
					_ = pid.Shutdown(ctx)
				}
			}
		}
		c36Live.forget(name)
	}()

	var clock atomic.Int64
	var results []c36Result
	var mu sync.Mutex
	add := func(r []c36Result) { mu.Lock(); results = append(results, r...); mu.Unlock() }

	stopLeader := func() bool {
		sctx, cancel := context.WithTimeout(ctx, 90*time.Second)
		err := leader.sys.Stop(sctx)
		cancel()
		_ = leader.provider.Close()
		rc.remove(leader)
		if err != nil {
			x.Logf("leader stop: %v", err)
			return false
		}
		return true
	}

	stopOK := true
	if c.StopLeader && c.StopOffset >= 0 {
		var wg sync.WaitGroup
		wg.Add(3)
		go func() { defer wg.Done(); add(c36ClusterWave(all, &clock, name, c.Wave1, 0)) }()
		go func() {
			defer wg.Done()
			time.Sleep(time.Duration(c.StopOffset) * time.Microsecond)
			stopOK = stopLeader()
		}()
		go func() {
			defer wg.Done()
			add(c36ClusterWave(survivors, &clock, name, c.Wave2, c.StopOffset+c.Wave2Delay))
		}()
		wg.Wait()
		x.Class("leader_stopped_during_calls")
	} else {
		add(c36ClusterWave(all, &clock, name, c.Wave1, 0))
		if c.StopLeader {
			var wg sync.WaitGroup
			wg.Add(2)
			go func() { defer wg.Done(); stopOK = stopLeader() }()
			go func() { defer wg.Done(); add(c36ClusterWave(survivors, &clock, name, c.Wave2, c.Wave2Delay)) }()
			wg.Wait()
			x.Class("leader_stopped_after_first_wave")
		} else {
			x.Class("stable_leader")
		}
	}
	if !stopOK {
		x.Class("inconclusive_leader_stop")
		return
	}
	if c.StopLeader {
		// let the new leader finish relocating the departed leader's singleton (if it had one)
		deadline := time.Now().Add(45 * time.Second)
		quietSince := time.Now()
		seen := false
		for {
			busy := false
			for _, nd := range survivors {
				nd.drain(leaderAddr)
				if len(nd.started) > 0 {
					seen = true
				}
				if _, b := nd.sys.relocationJob(leaderAddr); b {
					busy = true
				}
			}
			if busy {
				quietSince = time.Now()
			}
			inst := c36Live.get(name)
			if !busy && (seen || inst.Live >= 1) && time.Since(quietSince) > 500*time.Millisecond {
				break
			}
			if time.Now().After(deadline) {
				x.Class("relocation_not_observed")
				break
			}
			time.Sleep(5 * time.Millisecond)
		}
		if seen {
			x.Class("singleton_relocated_by_new_leader")
		}
		if err := rc.ensure(3); err != nil {
			x.Class("inconclusive_cluster_start")
			x.Logf("replacement start: %v", err)
			return
		}
	}
	add(c36ClusterWave(rc.nodes, &clock, name, c.Wave3, 0))

	inst := c36Live.get(name)
	okCalls, failed := 0, 0
	for _, r := range results {
		if r.err != nil {
			failed++
			x.Logf("call node=%d offset=%d err=%v", r.call.Node, r.call.Offset, r.err)
		} else {
			okCalls++
			x.Logf("call node=%d offset=%d -> %s", r.call.Node, r.call.Offset, r.addr)
		}
	}
	x.Logf("instances: live=%d max=%d starts=%d trace=%v; leader %s (%s) stopped=%v", inst.Live, inst.Max, inst.Starts, inst.Trace, leaderAddr, c36HostOf(leader.sys), c.StopLeader)
	stopped := map[string]bool{}
	if c.StopLeader {
		stopped[c36HostOf(leader.sys)] = true
	}
	effMax, effLive, leaked := inst.effective(stopped)
	if leaked > 0 {
		// an instance was started on the coordinator while it was shutting down and never got
		// PostStop: it left the cluster with its node, so it is not a second instance "in the
		// cluster"; recorded as an observation (see FINDINGS.md), not as a C36 violation
		x.Class("instance_leaked_on_stopped_coordinator")
	}
	if effMax > 1 || effLive > 1 {
		fp := "real-cluster-singleton-two-live-instances"
		if c.StopLeader {
			fp = "real-cluster-singleton-two-live-instances-coordinator-stop"
		}
		x.Failf(fp, "real cluster: singleton %q: %d instances were alive at the same time on cluster members (live now %d; %d more leaked on the stopped coordinator), PreStart(+)/PostStop(-) order %v; stopped coordinator = %s; %d calls succeeded, %d failed; coordinator stopped: %v", name, effMax, effLive, leaked, inst.Trace, c36HostOf(leader.sys), okCalls, failed, c.StopLeader)
	}
	for _, r := range results {
		if r.err != nil {
			continue
		}
		found := false
		for _, h := range inst.Hosts {
			if containsHost(r.addr, h) {
				found = true
			}
		}
		if !found {
			x.Failf("real-cluster-singleton-success-with-address-of-no-instance", "real cluster: SpawnSingleton(%q) returned %s but an instance of the name was only ever started on %v", name, r.addr, inst.Hosts)
		}
	}
	if okCalls == 0 {
		x.Class("all_calls_failed")
	}
	if failed > 0 {
		x.Class("some_call_failed")
	}
	if inst.Starts > 1 {
		x.Class("restarted_on_new_leader")
	}
	overlap := false
	for i := range results {
		for j := range results {
			if i < j && results[i].start < results[j].end && results[j].start < results[i].end {
				overlap = true
			}
		}
	}
	if overlap {
		x.Class("overlapping_calls")
		x.NonTrivial()
	}
}

func TestVF_C36_cluster(t *testing.T) {
	defer func() {
		if c36Real != nil {
			c36Real.stopAll()
		}
	}()
	vfkit.Run(t, vfkit.Spec[c36ClusterCase]{
		ID: "C36", Unit: "cluster",
		Rule: "cases = 2..6 concurrent SpawnSingleton calls for one fresh name from generated nodes of a real 3-node in-process NATS/olric cluster (start offsets 0..1.5 ms); in 2 of 3 cases the current coordinator is stopped gracefully while those calls run (offset 0..5 ms) or right after them, with 1..4 further calls from the survivors issued 0..1 s into the leader's shutdown; then 0..3 calls after the new leader finished relocating; the stopped member is replaced before the next case; non-trivial = at least two calls overlapped in (logical) time; distinct = distinct case values",
		Gen:  c36ClusterGen, Exec: c36ClusterExec,
		ReplayReps: 3,
	})
}

var _ = cluster.NodeLeft

//go:build verif

package actor

import (
	"context"
	"fmt"
	"testing"
	"time"

	natsserver "github.com/nats-io/nats-server/v2/server"

	"github.com/tochemey/goakt/v4/discovery/nats"
	inet "github.com/tochemey/goakt/v4/internal/net"
	"github.com/tochemey/goakt/v4/log"
	"github.com/tochemey/goakt/v4/remote"
)

type c36ProbeActor struct{}

func (*c36ProbeActor) PreStart(*Context) error { return nil }
func (*c36ProbeActor) Receive(*ReceiveContext) {}
func (*c36ProbeActor) PostStop(*Context) error { return nil }

func TestVF_C36_probe(t *testing.T) {
	t0 := time.Now()
	serv, err := natsserver.NewServer(&natsserver.Options{Host: "127.0.0.1", Port: -1, NoLog: true})
	if err != nil {
		t.Fatal(err)
	}
	go serv.Start()
	if !serv.ReadyForConnections(5 * time.Second) {
		t.Fatal("nats not ready")
	}
	fmt.Println("nats up", time.Since(t0))
	var systems []ActorSystem
	for i := 0; i < 3; i++ {
		ports := inet.Get(3)
		prov := nats.NewDiscovery(&nats.Config{NatsServer: "nats://" + serv.Addr().String(), NatsSubject: "vf", Host: "127.0.0.1", DiscoveryPort: ports[0]}, nats.WithLogger(log.DiscardLogger))
		cc := NewClusterConfig().WithKinds(new(c36ProbeActor)).WithPartitionCount(7).WithReplicaCount(1).WithPeersPort(ports[2]).WithMinimumPeersQuorum(1).WithDiscoveryPort(ports[0]).WithBootstrapTimeout(time.Second).WithClusterStateSyncInterval(300 * time.Millisecond).WithClusterBalancerInterval(100 * time.Millisecond).WithDiscovery(prov)
		sys, err := NewActorSystem("vfsys", WithLogger(log.DiscardLogger), WithShutdownTimeout(time.Minute), WithCluster(cc), WithRemote(remote.NewConfig("127.0.0.1", ports[1])))
		if err != nil {
			t.Fatal(err)
		}
		ts := time.Now()
		if err := sys.Start(context.Background()); err != nil {
			t.Fatal(err)
		}
		fmt.Println("node", i, "started in", time.Since(ts))
		systems = append(systems, sys)
	}
	time.Sleep(time.Second)
	for i, s := range systems {
		ts := time.Now()
		pid, err := s.SpawnSingleton(context.Background(), "single", new(c36ProbeActor))
		fmt.Println("spawn from", i, "->", pid.ID(), err, time.Since(ts))
	}
	for i, s := range systems {
		x := s.(*actorSystem)
		fmt.Println("node", i, "leader", x.cluster.IsLeader(context.Background()), x.PeersAddress())
	}
	for i, s := range systems {
		ts := time.Now()
		err := s.Stop(context.Background())
		fmt.Println("stop", i, err, time.Since(ts))
	}
	serv.Shutdown()
	fmt.Println("total", time.Since(t0))
}

//go:build verif

package actor

import (
	"context"
	"fmt"
	"sync"
	"sync/atomic"
	"testing"
	"time"

	"pgregory.net/rapid"

	"github.com/tochemey/goakt/v4/discovery"
	"github.com/tochemey/goakt/v4/discovery/nats"
	inet "github.com/tochemey/goakt/v4/internal/net"
	"github.com/tochemey/goakt/v4/internal/vfkit"
	"github.com/tochemey/goakt/v4/log"
	"github.com/tochemey/goakt/v4/remote"
)

// ---------------------------------------------------------------------------
// C36 / boot: leadership is established (and may move) while a fresh real cluster forms.
// 2..3 real nodes (own NATS subject per case, so each case is its own cluster) are started
// with generated start offsets; every node calls SpawnSingleton for the same name as soon
// as its Start returned (the usual "every node ensures the singleton at boot" pattern),
// optionally again a little later. Oracle as in the other units: never two live instances.
// This is the real-cluster counterpart of the simulated "coordinator moves while the old
// coordinator keeps running" cases: a node that bootstrapped alone is its own coordinator
// until an older member joins.
// ---------------------------------------------------------------------------

type c36BootNode struct {
	StartOffset int `json:"start_offset_ms"`
	CallDelay   int `json:"call_delay_us"`  // between Start returning and the first SpawnSingleton
	SecondCall  int `json:"second_call_ms"` // 0 = none, else a second call that many ms after the first returned
}

type c36BootCase struct {
	Nodes []c36BootNode `json:"nodes"`
}

func c36BootGen(t *rapid.T) c36BootCase {
	var c c36BootCase
	n := rapid.IntRange(2, 3).Draw(t, "nodes")
	for i := 0; i < n; i++ {
		c.Nodes = append(c.Nodes, c36BootNode{
			StartOffset: rapid.SampledFrom([]int{0, 0, 0, 5, 50, 300, 1000}).Draw(t, "start_offset"),
			CallDelay:   rapid.SampledFrom([]int{0, 0, 100, 5000, 100000}).Draw(t, "call_delay"),
			SecondCall:  rapid.SampledFrom([]int{0, 0, 200, 1500}).Draw(t, "second_call"),
		})
	}
	return c
}

var c36BootSeq atomic.Int64

func c36BootStart(natsAddr, subject string) (*actorSystem, discovery.Provider, error) {
	ports := inet.Get(3)
	provider := nats.NewDiscovery(&nats.Config{NatsServer: "nats://" + natsAddr, NatsSubject: subject, Host: "127.0.0.1", DiscoveryPort: ports[0]}, nats.WithLogger(log.DiscardLogger))
	cc := NewClusterConfig().
		WithKinds(new(c36KindA)).
		WithPartitionCount(7).
		WithReplicaCount(1).
		WithPeersPort(ports[2]).
		WithMinimumPeersQuorum(2). // a lone node is not a cluster: registry operations need two members
		WithDiscoveryPort(ports[0]).
		WithBootstrapTimeout(2 * time.Second).
		WithClusterStateSyncInterval(300 * time.Millisecond).
		WithClusterBalancerInterval(100 * time.Millisecond).
		WithDiscovery(provider)
	sys, err := NewActorSystem(c36SysName, WithLogger(log.DiscardLogger), WithShutdownTimeout(time.Minute), WithCluster(cc), WithRemote(remote.NewConfig("127.0.0.1", ports[1])))
	if err != nil {
		return nil, nil, err
	}
	done := make(chan error, 1)
	go func() { done <- sys.Start(context.Background()) }()
	select {
	case err := <-done:
		if err != nil {
			return nil, nil, err
		}
	case <-time.After(120 * time.Second):
		return nil, nil, fmt.Errorf("node start-up did not finish within 120 s")
	}
	return sys.(*actorSystem), provider, nil
}

func c36BootExec(x *vfkit.X, c c36BootCase) {
	rc := c36RealGet()
	if rc.err != nil {
		x.Class("inconclusive_nats")
		return
	}
	id := c36BootSeq.Add(1)
	subject := fmt.Sprintf("vfc36boot%d", id)
	name := fmt.Sprintf("bs%d", id)
	type started struct {
		sys      *actorSystem
		provider discovery.Provider
	}
	nodes := make([]started, len(c.Nodes))
	errs := make([]error, len(c.Nodes))
	callErrs := make([][]error, len(c.Nodes))
	addrs := make([][]string, len(c.Nodes))
	var wg sync.WaitGroup
	gate := make(chan struct{})
	for i, spec := range c.Nodes {
		wg.Add(1)
		go func(i int, spec c36BootNode) {
			defer wg.Done()
			<-gate
			time.Sleep(time.Duration(spec.StartOffset) * time.Millisecond)
			sys, provider, err := c36BootStart(rc.srv.Addr().String(), subject)
			if err != nil {
				errs[i] = err
				return
			}
			nodes[i] = started{sys: sys, provider: provider}
			call := func() {
				ctx, cancel := context.WithTimeout(context.Background(), 40*time.Second)
				defer cancel()
				pid, err := sys.SpawnSingleton(ctx, name, new(c36KindA), WithSingletonSpawnTimeout(30*time.Second), WithSingletonSpawnWaitInterval(100*time.Millisecond), WithSingletonSpawnRetries(20))
				callErrs[i] = append(callErrs[i], err)
				if err == nil && pid != nil {
					addrs[i] = append(addrs[i], pid.ID())
				}
			}
			if spec.CallDelay > 0 {
				time.Sleep(time.Duration(spec.CallDelay) * time.Microsecond)
			}
			call()
			if spec.SecondCall > 0 {
				time.Sleep(time.Duration(spec.SecondCall) * time.Millisecond)
				call()
			}
		}(i, spec)
	}
	close(gate)
	wg.Wait()
	defer func() {
		for _, nd := range nodes {
			if nd.sys != nil {
				ctx, cancel := context.WithTimeout(context.Background(), 60*time.Second)
				_ = nd.sys.Stop(ctx)
				cancel()
				_ = nd.provider.Close()
			}
		}
		c36Live.forget(name)
	}()
	for i, err := range errs {
		if err != nil {
			x.Class("inconclusive_cluster_start")
			x.Logf("node %d start: %v", i, err)
			return
		}
	}
	// did the nodes end up in ONE cluster? (if they never merge, "cluster-wide" has no meaning)
	merged := false
	deadline := time.Now().Add(10 * time.Second)
	for !merged && time.Now().Before(deadline) {
		merged = true
		for _, nd := range nodes {
			peers, err := nd.sys.cluster.Peers(context.Background())
			if err != nil || len(peers) != len(nodes)-1 {
				merged = false
			}
		}
		if !merged {
			time.Sleep(50 * time.Millisecond)
		}
	}
	inst := c36Live.get(name)
	okCalls, failed := 0, 0
	for i := range c.Nodes {
		for _, err := range callErrs[i] {
			if err != nil {
				failed++
				x.Logf("node %d call error: %v", i, err)
			} else {
				okCalls++
			}
		}
		x.Logf("node %d (%s) got %v", i, c36HostOf(nodes[i].sys), addrs[i])
	}
	x.Logf("instances: live=%d max=%d starts=%d hosts=%v merged=%v", inst.Live, inst.Max, inst.Starts, inst.Hosts, merged)
	if !merged {
		x.Class("inconclusive_never_one_cluster")
		return
	}
	if inst.Max > 1 || inst.Live > 1 {
		x.Failf("singleton-two-live-instances-cluster-formation", "real cluster forming from %d nodes (start offsets %v ms): singleton %q has %d instances alive at the same time (live now %d) on %v although all nodes are members of one cluster; %d calls succeeded, %d failed", len(c.Nodes), c.Nodes, name, inst.Max, inst.Live, inst.Hosts, okCalls, failed)
	}
	if okCalls >= 2 {
		x.NonTrivial()
	}
	if failed > 0 {
		x.Class("some_call_failed")
	}
	x.Class(fmt.Sprintf("nodes_%d", len(c.Nodes)))
}

func TestVF_C36_boot(t *testing.T) {
	defer func() {
		if c36Real != nil {
			c36Real.stopAll()
		}
	}()
	vfkit.Run(t, vfkit.Spec[c36BootCase]{
		ID: "C36", Unit: "boot",
		Rule: "cases = a fresh real NATS/olric cluster of 2..3 nodes per case (minimum members quorum 2, so a node that has not joined anybody yet cannot act as a one-node cluster), nodes started with generated offsets (0..1 s); every node calls SpawnSingleton for the same name 0..100 ms after its Start returned and optionally once more 0.2..1.5 s later; cases whose nodes never become one cluster are inconclusive; non-trivial = at least two calls succeeded; distinct = distinct case values",
		Gen:  c36BootGen, Exec: c36BootExec,
		ReplayReps: 3,
	})
}

//go:build verif

package actor

import (
	"context"
	"fmt"
	"sync"
	"sync/atomic"
	"testing"
	"time"

	"pgregory.net/rapid"

	"github.com/tochemey/goakt/v4/internal/vfkit"
)

// ---------------------------------------------------------------------------
// C36 / race: concurrent SpawnSingleton calls for ONE name from several nodes of the
// simulated cluster (sim_test.go), optionally while the coordinator flag moves to another
// node (the situation a member with an older birth date joining creates: the old
// coordinator keeps running). Oracle: the process-global live-instance table of the
// singleton's actor type (PreStart +1 / PostStop -1) never shows two live instances of
// the name; every successful call returns the address of a node on which an instance of
// the name was started.
// ---------------------------------------------------------------------------

type c36Call struct {
	Node   int `json:"node"`
	Offset int `json:"offset_us"`
}

type c36RaceCase struct {
	Role        string    `json:"role"` // "", "r1" (nodes 0,1), "r2" (nodes 1,2)
	Wave1       []c36Call `json:"wave1"`
	Wave2       []c36Call `json:"wave2"`   // after wave 1 completed
	FlipAt      int       `json:"flip_at"` // the k-th registry operation moves the coordinator (0 = stable leadership)
	FlipTo      int       `json:"flip_to"`
	FlipBetween bool      `json:"flip_between"` // the coordinator moves after wave 1 completed and before wave 2 starts
	Coord       int       `json:"coord"`        // coordinator at the start
	Stale       bool      `json:"stale"`        // one node holds a stale membership view during wave 1 (no coordinator move in this case)
	StaleNode   int       `json:"stale_node"`   // the node with the stale view (never the coordinator)
	StaleTo     int       `json:"stale_to"`     // whom it still believes to be the coordinator (the third node, whose own view is current)
	StaleHeals  bool      `json:"stale_heals"`  // the view is refreshed between the waves (else it stays stale for wave 2)
	NoiseSeed   uint64    `json:"noise_seed"`
	NoiseProb   float64   `json:"noise_prob"`
	NoiseSleep  int       `json:"noise_sleep_us"`
}

func c36GenCalls(t *rapid.T, label string, lo, hi int) []c36Call {
	n := rapid.IntRange(lo, hi).Draw(t, label+"_n")
	var out []c36Call
	for i := 0; i < n; i++ {
		out = append(out, c36Call{
			Node:   rapid.IntRange(0, 2).Draw(t, label+"_node"),
			Offset: rapid.SampledFrom([]int{0, 0, 0, 20, 100, 400, 1500}).Draw(t, label+"_offset"),
		})
	}
	return out
}

func c36RaceGen(t *rapid.T) c36RaceCase {
	var c c36RaceCase
	c.Role = rapid.SampledFrom([]string{"", "", "", "r1", "r2"}).Draw(t, "role")
	c.Wave1 = c36GenCalls(t, "w1", 2, 6)
	c.Wave2 = c36GenCalls(t, "w2", 0, 3)
	c.Coord = rapid.SampledFrom([]int{0, 0, 1, 2}).Draw(t, "coord")
	shape := rapid.IntRange(0, 7).Draw(t, "shape")
	if shape <= 1 {
		c.FlipTo = (c.Coord + rapid.IntRange(1, 2).Draw(t, "flip_by")) % 3
		// While the finding "the coordinator moves while SpawnSingleton calls are in flight and
		// the old coordinator keeps running -> two live instances" is listed as known, the
		// coordinator only moves between the two waves (no call in flight), so that the search
		// goes on behind it; otherwise it moves at the k-th registry operation of the case.
		if vfkit.Known("C36", "singleton-two-live-instances-leader-change") || rapid.IntRange(0, 3).Draw(t, "flip_between") == 0 {
			c.FlipBetween = true
		} else {
			c.FlipAt = rapid.IntRange(1, 14).Draw(t, "flip_at")
		}
	} else if shape <= 4 {
		// Stale view at one delegating caller, leadership itself stable: node StaleNode still
		// names the former coordinator StaleTo (whose own view is current, so exactly one node
		// believes to be the coordinator). The first two calls of wave 1 come from the stale
		// node and from a node with a current view (construction, not rejection).
		c.Stale = true
		c.StaleNode = (c.Coord + rapid.IntRange(1, 2).Draw(t, "stale_node")) % 3
		c.StaleTo = 3 - c.Coord - c.StaleNode
		c.StaleHeals = rapid.Bool().Draw(t, "stale_heals")
		c.Wave1[0].Node = c.StaleNode
		c.Wave1[1].Node = rapid.SampledFrom([]int{c.Coord, c.StaleTo}).Draw(t, "current_caller")
	}
	c.NoiseSeed = rapid.Uint64().Draw(t, "noise_seed")
	c.NoiseProb = rapid.SampledFrom([]float64{0, 0.05, 0.2, 0.5}).Draw(t, "noise_prob")
	c.NoiseSleep = rapid.SampledFrom([]int{0, 50, 300}).Draw(t, "noise_sleep")
	return c
}

var c36CaseSeq atomic.Int64

type c36Result struct {
	call       c36Call
	addr       string
	err        error
	start, end int64
}

func c36RunWave(f *c36Fixture, clock *atomic.Int64, name, role string, calls []c36Call) []c36Result {
	res := make([]c36Result, len(calls))
	var wg sync.WaitGroup
	gate := make(chan struct{})
	for i, call := range calls {
		wg.Add(1)
		go func(i int, call c36Call) {
			defer wg.Done()
			<-gate
			if call.Offset > 0 {
				time.Sleep(time.Duration(call.Offset) * time.Microsecond)
			}
			ctx, cancel := context.WithTimeout(context.Background(), 20*time.Second)
			defer cancel()
			opts := []ClusterSingletonOption{WithSingletonSpawnTimeout(10 * time.Second), WithSingletonSpawnWaitInterval(20 * time.Millisecond), WithSingletonSpawnRetries(5)}
			if role != "" {
				opts = append(opts, WithSingletonRole(role))
			}
			r := c36Result{call: call, start: clock.Add(1)}
			pid, err := f.nodes[call.Node].sys.SpawnSingleton(ctx, name, new(c36KindA), opts...)
			r.end = clock.Add(1)
			r.err = err
			if err == nil && pid != nil {
				r.addr = pid.ID()
			}
			res[i] = r
		}(i, call)
	}
	close(gate)
	wg.Wait()
	return res
}

func c36RaceExec(x *vfkit.X, c c36RaceCase) {
	f := c36GetFixture()
	if f.err != nil {
		x.Class("inconclusive_fixture")
		x.Logf("fixture: %v", f.err)
		return
	}
	ctx := context.Background()
	id := c36CaseSeq.Add(1)
	name := fmt.Sprintf("s%d", id)
	plan := &c36Plan{flipAt: int64(c.FlipAt), flipTo: int32(c.FlipTo), noiseSeed: c.NoiseSeed, noiseProb: c.NoiseProb, noiseSleep: c.NoiseSleep, faults: map[string]int{}, counts: map[string]int{}}
	plan.coord.Store(int32(c.Coord))
	plan.staleNode.Store(-1)
	if c.Stale {
		plan.staleTo = int32(c.StaleTo)
		plan.staleNode.Store(int32(c.StaleNode))
	}
	f.reg.plan.Store(plan)
	defer func() {
		f.reg.plan.Store(nil)
		for _, n := range f.nodes {
			if node, ok := n.sys.actors.nodeByName(name); ok {
				if pid := node.value(); pid != nil {
					_ = pid.Shutdown(ctx)
				}
			}
		}
		f.reg.mu.Lock()
		delete(f.reg.actors, name)
		f.reg.mu.Unlock()
		c36Live.forget(name)
	}()

	var clock atomic.Int64
	r1 := c36RunWave(f, &clock, name, c.Role, c.Wave1)
	flippedDuringWave1 := plan.flipped.Load()
	if c.FlipBetween {
		plan.coord.Store(int32(c.FlipTo))
		x.Class("leader_change_between_waves")
	}
	if c.Stale && c.StaleHeals {
		plan.staleNode.Store(-1)
	}
	r2 := c36RunWave(f, &clock, name, c.Role, c.Wave2)
	all := append(append([]c36Result(nil), r1...), r2...)

	inst := c36Live.get(name)
	okCalls, failed := 0, 0
	for _, r := range all {
		if r.err != nil {
			failed++
			x.Logf("call node=%d offset=%d err=%v", r.call.Node, r.call.Offset, r.err)
		} else {
			okCalls++
			x.Logf("call node=%d offset=%d -> %s", r.call.Node, r.call.Offset, r.addr)
		}
	}
	x.Logf("instances: live=%d max=%d starts=%d trace=%v coordinator %d -> flipped=%v (to %d at op %d); stale view: %v (node %d still names %d); registry ops=%d", inst.Live, inst.Max, inst.Starts, inst.Trace, c.Coord, plan.flipped.Load(), c.FlipTo, c.FlipAt, c.Stale, c.StaleNode, c.StaleTo, plan.ops.Load())

	if inst.Max > 1 || inst.Live > 1 {
		fp := "singleton-two-live-instances"
		if plan.flipped.Load() {
			fp = "singleton-two-live-instances-leader-change"
		} else if c.FlipBetween {
			fp = "singleton-two-live-instances-after-leader-change"
		} else if c.Stale {
			fp = "singleton-two-live-instances-stale-view-at-delegating-caller"
		}
		x.Failf(fp, "singleton %q (role %q): %d instances were alive at the same time (live now %d) on %v; %d calls succeeded, %d failed; coordinator moved during the calls: %v; stale view at node %d (names %d, real coordinator %d): %v", name, c.Role, inst.Max, inst.Live, inst.Trace, okCalls, failed, plan.flipped.Load(), c.StaleNode, c.StaleTo, c.Coord, c.Stale)
	}
	for _, r := range all {
		if r.err != nil {
			continue
		}
		found := false
		for _, h := range inst.Hosts {
			if len(r.addr) > len(h) && containsHost(r.addr, h) {
				found = true
			}
		}
		if !found {
			x.Failf("singleton-success-with-address-of-no-instance", "SpawnSingleton(%q) from node %d returned %s but an instance of the name was only ever started on %v", name, r.call.Node, r.addr, inst.Hosts)
		}
	}
	if okCalls > 0 && inst.Live != 1 {
		x.Failf("singleton-success-but-not-running", "%d SpawnSingleton(%q) calls succeeded but %d instances are running afterwards (started on %v)", okCalls, name, inst.Live, inst.Hosts)
	}

	// ---- classes ----
	if okCalls == 0 {
		x.Class("all_calls_failed")
	}
	if failed > 0 {
		x.Class("some_call_failed")
	}
	if plan.flipped.Load() {
		if flippedDuringWave1 {
			x.Class("leader_change_during_wave1")
		} else {
			x.Class("leader_change_during_wave2")
		}
	} else if c.FlipAt > 0 {
		x.Class("leader_change_never_reached")
	} else if c.FlipBetween {
	} else if c.Stale {
		if c.StaleHeals {
			x.Class("stale_view_at_one_caller_heals_between_waves")
		} else {
			x.Class("stale_view_at_one_caller_both_waves")
		}
	} else {
		x.Class("stable_leader")
	}
	x.Class("role_" + c.Role)
	overlap := false
	for i := range r1 {
		for j := range r1 {
			if i < j && r1[i].call.Node != r1[j].call.Node && r1[i].start < r1[j].end && r1[j].start < r1[i].end {
				overlap = true
			}
		}
	}
	if overlap {
		x.Class("overlapping_calls_from_different_nodes")
		x.NonTrivial()
	}
	if inst.Starts > 1 {
		x.Class("restarted_elsewhere")
	}
}

func containsHost(addr, host string) bool {
	// addr = goakt://system@host:port/name
	for i := 0; i+len(host) <= len(addr); i++ {
		if addr[i:i+len(host)] == host {
			return true
		}
	}
	return false
}

func TestVF_C36_race(t *testing.T) {
	defer c36StopFixture()
	vfkit.Run(t, vfkit.Spec[c36RaceCase]{
		ID: "C36", Unit: "race",
		Rule: "cases = 2..6 concurrent SpawnSingleton calls for one fresh name from generated nodes of a 3-node simulated cluster (start offsets 0..1.5 ms), singleton role none / r1 / r2, initial coordinator, then 0..3 further concurrent calls; in 3 of 8 cases exactly one non-coordinator node holds a stale membership view during wave 1 (it still names the third node, whose own view is current, as coordinator; leadership itself does not move; the view heals between the waves or not) and the first two calls come from the stale node and from a current one; in 2 of 8 cases the coordinator flag moves to another node while the old coordinator keeps running, either between the two waves or (unless the finding singleton-two-live-instances-leader-change is listed as known) at the k-th (1..14) registry operation of the case; every registry operation is a seeded noise point (prob 0..0.5, Gosched or sleep up to 300 us); non-trivial = two first-wave calls issued from different nodes overlapped in (logical) time; distinct = distinct case values",
		Gen:  c36RaceGen, Exec: c36RaceExec,
		ReplayReps: 30,
	})
}

//go:build verif

package actor

import (
	"context"
	"errors"
	"fmt"
	"runtime"
	"sort"
	"strconv"
	"sync"
	"sync/atomic"
	"testing"
	"time"

	"google.golang.org/protobuf/proto"

	"github.com/tochemey/goakt/v4/discovery"
	"github.com/tochemey/goakt/v4/internal/address"
	"github.com/tochemey/goakt/v4/internal/cluster"
	"github.com/tochemey/goakt/v4/internal/internalpb"
	inet "github.com/tochemey/goakt/v4/internal/net"
	"github.com/tochemey/goakt/v4/log"
	"github.com/tochemey/goakt/v4/remote"
)

// ---------------------------------------------------------------------------
// C36 harness, part 1: a simulated cluster (same construction as C33's).
//
// Three REAL actor systems with REAL remoting on loopback share one in-memory,
// linearizable registry implementing cluster.Cluster (one view per node), injected
// in-package into started, remoting-enabled systems (x.cluster, x.clusterStore,
// x.clusterNode, x.clusterEnabled) as DESIGN.md E5 describes; the singleton manager and
// the relocator are then spawned with the production functions. SpawnSingleton,
// spawnSingletonOnLeader / WithRole, RemoteSpawn over loopback, remoteSpawnHandler,
// spawnSingletonOnLocal, runSpawnActivation, checkSpawnPreconditions, completeSpawn are
// production code.
//
// Every registry operation is a schedule-noise point (seeded per case) and a possible
// leadership-change point (the k-th registry operation of the case moves the
// coordinator flag to another node, for all current views at once). Membership views are
// per node: one node can hold a stale view (it still names a former coordinator, never
// itself) while all the others are current.
// ---------------------------------------------------------------------------

const c36SysName = "vfc36"

var errC36Injected = errors.New("vf: injected registry fault")

// ---- live-instance table (process global: all nodes share the test process) ----

type c36Inst struct {
	Live   int
	Max    int
	Starts int
	Hosts  []string
	Trace  []string // "+host" / "-host" in the order PreStart / PostStop ran
}

type c36Table struct {
	mu     sync.Mutex
	m      map[string]*c36Inst
	ignore map[string]bool // host:port of the donor system
}

var c36Live = &c36Table{m: map[string]*c36Inst{}, ignore: map[string]bool{}}

func (t *c36Table) start(name, host string) {
	t.mu.Lock()
	defer t.mu.Unlock()
	if t.ignore[host] {
		return
	}
	in := t.m[name]
	if in == nil {
		in = &c36Inst{}
		t.m[name] = in
	}
	in.Live++
	in.Starts++
	if in.Live > in.Max {
		in.Max = in.Live
	}
	in.Hosts = append(in.Hosts, host)
	in.Trace = append(in.Trace, "+"+host)
}

func (t *c36Table) stop(name, host string) {
	t.mu.Lock()
	defer t.mu.Unlock()
	if t.ignore[host] {
		return
	}
	if in := t.m[name]; in != nil {
		in.Live--
		in.Trace = append(in.Trace, "-"+host)
	}
}

func (t *c36Table) get(name string) c36Inst {
	t.mu.Lock()
	defer t.mu.Unlock()
	if in := t.m[name]; in != nil {
		cp := *in
		cp.Hosts = append([]string(nil), in.Hosts...)
		cp.Trace = append([]string(nil), in.Trace...)
		return cp
	}
	return c36Inst{}
}

// effective recomputes "how many instances were alive at the same time" from the
// PreStart/PostStop order, leaving out instances that were started on a node which has
// since completed Stop() and never ran PostStop: such an instance left the cluster with
// its node at a moment the harness cannot observe, so it is not counted (permissive);
// it is reported separately as leaked.
func (in c36Inst) effective(stopped map[string]bool) (max, live, leaked int) {
	unmatched := map[string]int{}
	for _, ev := range in.Trace {
		if ev[0] == '+' {
			unmatched[ev[1:]]++
		} else {
			unmatched[ev[1:]]--
		}
	}
	skip := map[string]int{}
	for h, n := range unmatched {
		if stopped[h] && n > 0 {
			skip[h] = n
			leaked += n
		}
	}
	// the unmatched starts of a stopped host are its last ones
	remainingStarts := map[string]int{}
	for _, ev := range in.Trace {
		if ev[0] == '+' {
			remainingStarts[ev[1:]]++
		}
	}
	for _, ev := range in.Trace {
		h := ev[1:]
		if ev[0] == '+' {
			remainingStarts[h]--
			if remainingStarts[h] < skip[h] {
				continue // one of the leaked starts
			}
			live++
			if live > max {
				max = live
			}
		} else {
			live--
		}
	}
	return max, live, leaked
}

func (t *c36Table) forget(name string) {
	t.mu.Lock()
	delete(t.m, name)
	t.mu.Unlock()
}

func c36HostOf(sys ActorSystem) string { return sys.Host() + ":" + strconv.Itoa(sys.Port()) }

// two actor kinds: A is registered on every node, B only on some (an unregistered kind
// is the natural "this item cannot be re-created there" failure)
type c36KindA struct{}

func (*c36KindA) PreStart(ctx *Context) error {
	c36Live.start(ctx.ActorName(), c36HostOf(ctx.ActorSystem()))
	return nil
}
func (*c36KindA) Receive(*ReceiveContext) {}
func (*c36KindA) PostStop(ctx *Context) error {
	c36Live.stop(ctx.ActorName(), c36HostOf(ctx.ActorSystem()))
	return nil
}

// ---- the per-case plan ----

type c36Plan struct {
	coord      atomic.Int32 // index of the (real) coordinator
	staleNode  atomic.Int32 // node whose membership view is stale (-1 = every view is current)
	staleTo    int32        // the member that the stale node still believes to be the coordinator
	flipAt     int64        // the flipAt-th registry operation moves the coordinator (0 = never)
	flipTo     int32
	flipped    atomic.Bool
	noiseSeed  uint64
	noiseProb  float64
	noiseSleep int // microseconds
	ops        atomic.Int64
	mu         sync.Mutex
	faults     map[string]int
	counts     map[string]int
}

func (p *c36Plan) count(node int, op string) int {
	p.mu.Lock()
	defer p.mu.Unlock()
	return p.counts[strconv.Itoa(node)+"/"+op]
}

func c36Mix(a, b uint64) uint64 {
	z := a + 0x9e3779b97f4a7c15*(b+1)
	z = (z ^ (z >> 30)) * 0xbf58476d1ce4e5b9
	z = (z ^ (z >> 27)) * 0x94d049bb133111eb
	return z ^ (z >> 31)
}

// ---- the shared registry ----

type c36Reg struct {
	mu     sync.Mutex
	actors map[string]*internalpb.Actor
	grains map[string]*internalpb.Grain
	kv     map[string][]byte
	rr     map[string]int
	nodes  []*c36View
	plan   atomic.Pointer[c36Plan]
}

type c36View struct {
	reg    *c36Reg
	idx    int
	self   cluster.Peer
	events chan *cluster.Event
}

var _ cluster.Cluster = (*c36View)(nil)

// pre is called before every registry operation, outside the registry lock.
func (v *c36View) pre(op, key string) error {
	p := v.reg.plan.Load()
	if p == nil {
		return nil
	}
	n := p.ops.Add(1)
	if p.flipAt > 0 && n == p.flipAt {
		p.coord.Store(p.flipTo)
		p.flipped.Store(true)
	}
	p.mu.Lock()
	p.counts[strconv.Itoa(v.idx)+"/"+op]++
	fk := strconv.Itoa(v.idx) + "/" + op + "/" + key
	fail := false
	if k := p.faults[fk]; k > 0 {
		p.faults[fk] = k - 1
		fail = true
	}
	p.mu.Unlock()
	if p.noiseProb > 0 {
		r := c36Mix(p.noiseSeed, uint64(n))
		if float64(r%10000)/10000.0 < p.noiseProb {
			if p.noiseSleep > 0 && (r>>20)%4 == 0 {
				time.Sleep(time.Duration(1+(r>>24)%uint64(p.noiseSleep)) * time.Microsecond)
			} else {
				runtime.Gosched()
			}
		}
	}
	if fail {
		return errC36Injected
	}
	return nil
}

func c36ActorKey(a *internalpb.Actor) (string, error) {
	addr, err := address.Parse(a.GetAddress())
	if err != nil {
		return "", err
	}
	return addr.Name(), nil
}

func (v *c36View) Start(context.Context) error { return nil }
func (v *c36View) Stop(context.Context) error  { return nil }

func (v *c36View) PutActor(_ context.Context, actor *internalpb.Actor) error {
	key, err := c36ActorKey(actor)
	if err != nil {
		return err
	}
	if err := v.pre("PutActor", key); err != nil {
		return err
	}
	v.reg.mu.Lock()
	v.reg.actors[key] = proto.Clone(actor).(*internalpb.Actor)
	v.reg.mu.Unlock()
	return nil
}

func (v *c36View) PutActorIfAbsent(_ context.Context, actor *internalpb.Actor) error {
	key, err := c36ActorKey(actor)
	if err != nil {
		return err
	}
	if err := v.pre("PutActorIfAbsent", key); err != nil {
		return err
	}
	v.reg.mu.Lock()
	defer v.reg.mu.Unlock()
	if _, ok := v.reg.actors[key]; ok {
		return cluster.ErrActorAlreadyExists
	}
	v.reg.actors[key] = proto.Clone(actor).(*internalpb.Actor)
	return nil
}

func (v *c36View) GetActor(_ context.Context, name string) (*internalpb.Actor, error) {
	if err := v.pre("GetActor", name); err != nil {
		return nil, err
	}
	v.reg.mu.Lock()
	defer v.reg.mu.Unlock()
	a, ok := v.reg.actors[name]
	if !ok {
		return nil, cluster.ErrActorNotFound
	}
	return proto.Clone(a).(*internalpb.Actor), nil
}

func (v *c36View) RemoveActor(_ context.Context, name string) error {
	if err := v.pre("RemoveActor", name); err != nil {
		return err
	}
	v.reg.mu.Lock()
	delete(v.reg.actors, name)
	v.reg.mu.Unlock()
	return nil
}

func (v *c36View) ActorExists(_ context.Context, name string) (bool, error) {
	if err := v.pre("ActorExists", name); err != nil {
		return false, err
	}
	v.reg.mu.Lock()
	_, ok := v.reg.actors[name]
	v.reg.mu.Unlock()
	return ok, nil
}

func (v *c36View) scanActors(keep func(*internalpb.Actor) bool) []*internalpb.Actor {
	v.reg.mu.Lock()
	defer v.reg.mu.Unlock()
	keys := make([]string, 0, len(v.reg.actors))
	for k := range v.reg.actors {
		keys = append(keys, k)
	}
	sort.Strings(keys)
	var out []*internalpb.Actor
	for _, k := range keys {
		if a := v.reg.actors[k]; keep == nil || keep(a) {
			out = append(out, proto.Clone(a).(*internalpb.Actor))
		}
	}
	return out
}

func (v *c36View) Actors(_ context.Context, _ time.Duration) ([]*internalpb.Actor, error) {
	if err := v.pre("Actors", ""); err != nil {
		return nil, err
	}
	return v.scanActors(nil), nil
}

func (v *c36View) ActorsByHost(_ context.Context, host string, port int, _ time.Duration) ([]*internalpb.Actor, error) {
	if err := v.pre("ActorsByHost", address.FormatHostPort(host, port)); err != nil {
		return nil, err
	}
	target := address.FormatHostPort(host, port)
	return v.scanActors(func(a *internalpb.Actor) bool {
		addr, err := address.Parse(a.GetAddress())
		return err == nil && addr.HostPort() == target
	}), nil
}

func (v *c36View) CountActorsByHost(_ context.Context, _ time.Duration) (map[string]int, error) {
	if err := v.pre("CountActorsByHost", ""); err != nil {
		return nil, err
	}
	out := map[string]int{}
	for _, a := range v.scanActors(nil) {
		if addr, err := address.Parse(a.GetAddress()); err == nil {
			out[addr.HostPort()]++
		}
	}
	return out, nil
}

func (v *c36View) PutGrain(_ context.Context, grain *internalpb.Grain) error {
	key := grain.GetGrainId().GetValue()
	if key == "" {
		return fmt.Errorf("grain id value is empty")
	}
	if err := v.pre("PutGrain", key); err != nil {
		return err
	}
	v.reg.mu.Lock()
	v.reg.grains[key] = proto.Clone(grain).(*internalpb.Grain)
	v.reg.mu.Unlock()
	return nil
}

func (v *c36View) GetGrain(_ context.Context, identity string) (*internalpb.Grain, error) {
	if err := v.pre("GetGrain", identity); err != nil {
		return nil, err
	}
	v.reg.mu.Lock()
	defer v.reg.mu.Unlock()
	g, ok := v.reg.grains[identity]
	if !ok {
		return nil, cluster.ErrGrainNotFound
	}
	return proto.Clone(g).(*internalpb.Grain), nil
}

func (v *c36View) RemoveGrain(_ context.Context, identity string) error {
	if err := v.pre("RemoveGrain", identity); err != nil {
		return err
	}
	v.reg.mu.Lock()
	delete(v.reg.grains, identity)
	v.reg.mu.Unlock()
	return nil
}

func (v *c36View) GrainExists(_ context.Context, identity string) (bool, error) {
	if err := v.pre("GrainExists", identity); err != nil {
		return false, err
	}
	v.reg.mu.Lock()
	_, ok := v.reg.grains[identity]
	v.reg.mu.Unlock()
	return ok, nil
}

func (v *c36View) scanGrains(keep func(*internalpb.Grain) bool) []*internalpb.Grain {
	v.reg.mu.Lock()
	defer v.reg.mu.Unlock()
	keys := make([]string, 0, len(v.reg.grains))
	for k := range v.reg.grains {
		keys = append(keys, k)
	}
	sort.Strings(keys)
	var out []*internalpb.Grain
	for _, k := range keys {
		if g := v.reg.grains[k]; keep == nil || keep(g) {
			out = append(out, proto.Clone(g).(*internalpb.Grain))
		}
	}
	return out
}

func (v *c36View) Grains(_ context.Context, _ time.Duration) ([]*internalpb.Grain, error) {
	if err := v.pre("Grains", ""); err != nil {
		return nil, err
	}
	return v.scanGrains(nil), nil
}

func (v *c36View) GrainsByHost(_ context.Context, host string, port int, _ time.Duration) ([]*internalpb.Grain, error) {
	if err := v.pre("GrainsByHost", address.FormatHostPort(host, port)); err != nil {
		return nil, err
	}
	return v.scanGrains(func(g *internalpb.Grain) bool { return g.GetHost() == host && int(g.GetPort()) == port }), nil
}

func (v *c36View) Events() <-chan *cluster.Event { return v.events }

// membership: all three fixture nodes are members; the coordinator flag follows the plan
func (v *c36View) coordinator() int {
	if p := v.reg.plan.Load(); p != nil {
		// per-node view: one node may still see a former coordinator (its view lags behind);
		// every other node, the real coordinator included, sees the real one
		if int(p.staleNode.Load()) == v.idx {
			return int(p.staleTo)
		}
		return int(p.coord.Load())
	}
	return 0
}

func (v *c36View) membership() []*cluster.Peer {
	co := v.coordinator()
	var members []*cluster.Peer
	for i := range v.reg.nodes {
		peer := v.reg.nodes[i].self
		peer.Coordinator = i == co
		members = append(members, &peer)
	}
	return members
}

func (v *c36View) Peers(context.Context) ([]*cluster.Peer, error) {
	if err := v.pre("Peers", ""); err != nil {
		return nil, err
	}
	var out []*cluster.Peer
	for _, m := range v.membership() {
		if m.PeerAddress() != v.self.PeerAddress() {
			out = append(out, m)
		}
	}
	return out, nil
}

func (v *c36View) Members(context.Context) ([]*cluster.Peer, error) {
	if err := v.pre("Members", ""); err != nil {
		return nil, err
	}
	return v.membership(), nil
}

func (v *c36View) IsLeader(context.Context) bool { return v.idx == v.coordinator() }

func (v *c36View) GetPartition(string) uint64    { return 0 }
func (v *c36View) IsRunning() bool               { return true }
func (v *c36View) LastRebalanceEvent() time.Time { return time.Time{} }
func (v *c36View) ClaimScheduleFire(context.Context, string, time.Duration) error {
	return nil
}
func (v *c36View) PutJobKey(_ context.Context, id string, md []byte) error {
	v.reg.mu.Lock()
	v.reg.kv[id] = append([]byte(nil), md...)
	v.reg.mu.Unlock()
	return nil
}
func (v *c36View) DeleteJobKey(_ context.Context, id string) error {
	v.reg.mu.Lock()
	delete(v.reg.kv, id)
	v.reg.mu.Unlock()
	return nil
}
func (v *c36View) JobKey(_ context.Context, id string) ([]byte, error) {
	v.reg.mu.Lock()
	defer v.reg.mu.Unlock()
	return v.reg.kv[id], nil
}
func (v *c36View) NextRoundRobinValue(_ context.Context, key string) (int, error) {
	v.reg.mu.Lock()
	defer v.reg.mu.Unlock()
	v.reg.rr[key]++
	return v.reg.rr[key], nil
}

// ---- peer-state store (decodes a fresh copy on every read, like the bolt store) ----

type c36Store struct {
	mu         sync.Mutex
	m          map[string]*internalpb.PeerState
	failDelete map[string]bool
}

func c36PeerKey(p *internalpb.PeerState) string {
	return p.GetHost() + ":" + strconv.Itoa(int(p.GetPeersPort()))
}

func (s *c36Store) PersistPeerState(_ context.Context, peer *internalpb.PeerState) error {
	s.mu.Lock()
	s.m[c36PeerKey(peer)] = proto.Clone(peer).(*internalpb.PeerState)
	s.mu.Unlock()
	return nil
}

func (s *c36Store) GetPeerState(_ context.Context, addr string) (*internalpb.PeerState, bool) {
	s.mu.Lock()
	defer s.mu.Unlock()
	p, ok := s.m[addr]
	if !ok {
		return nil, false
	}
	return proto.Clone(p).(*internalpb.PeerState), true
}

func (s *c36Store) DeletePeerState(_ context.Context, addr string) error {
	s.mu.Lock()
	defer s.mu.Unlock()
	if s.failDelete[addr] {
		return errC36Injected
	}
	delete(s.m, addr)
	return nil
}

func (s *c36Store) Close() error { return nil }

func (s *c36Store) purge(addr string) {
	s.mu.Lock()
	delete(s.m, addr)
	delete(s.failDelete, addr)
	s.mu.Unlock()
}

// ---- fixture: three simulated-cluster nodes ----

type c36Node struct {
	sys   *actorSystem
	view  *c36View
	store *c36Store
	roles []string
}

type c36Fixture struct {
	reg   *c36Reg
	nodes []*c36Node
	err   error
}

var (
	c36FixOnce sync.Once
	c36Fix     *c36Fixture
)

// node 0 is the oldest member; nodes 0 and 1 advertise role r1, node 2 role r2
var c36NodeRoles = [][]string{{"r1"}, {"r1", "r2"}, {"r2"}}

func c36StartPlain(name string) (*actorSystem, []int, error) {
	ports := inet.Get(3)
	sys, err := NewActorSystem(name, WithLogger(log.DiscardLogger), WithRemote(remote.NewConfig("127.0.0.1", ports[0])))
	if err != nil {
		return nil, nil, err
	}
	ctx, cancel := context.WithTimeout(context.Background(), 60*time.Second)
	defer cancel()
	if err := sys.Start(ctx); err != nil {
		return nil, nil, err
	}
	return sys.(*actorSystem), ports, nil
}

func c36GetFixture() *c36Fixture {
	c36FixOnce.Do(func() {
		f := &c36Fixture{reg: &c36Reg{actors: map[string]*internalpb.Actor{}, grains: map[string]*internalpb.Grain{}, kv: map[string][]byte{}, rr: map[string]int{}}}
		c36Fix = f
		ctx := context.Background()
		for i := 0; i < 3; i++ {
			sys, ports, err := c36StartPlain(c36SysName)
			if err != nil {
				f.err = fmt.Errorf("node %d: %w", i, err)
				return
			}
			view := &c36View{reg: f.reg, idx: i, events: make(chan *cluster.Event, 16),
				self: cluster.Peer{Host: "127.0.0.1", DiscoveryPort: ports[1], PeersPort: ports[2], RemotingPort: ports[0], Roles: c36NodeRoles[i], CreatedAt: int64(1000 + i)}}
			store := &c36Store{m: map[string]*internalpb.PeerState{}, failDelete: map[string]bool{}}
			sys.locker.Lock()
			sys.cluster = view
			sys.clusterStore = store
			sys.clusterNode = &discovery.Node{Name: c36SysName, Host: "127.0.0.1", DiscoveryPort: ports[1], PeersPort: ports[2], RemotingPort: ports[0], Roles: c36NodeRoles[i]}
			sys.locker.Unlock()
			sys.clusterEnabled.Store(true)
			if err := sys.spawnSingletonManager(ctx); err != nil {
				f.err = fmt.Errorf("node %d singleton manager: %w", i, err)
				return
			}
			if err := sys.spawnRelocator(ctx); err != nil {
				f.err = fmt.Errorf("node %d relocator: %w", i, err)
				return
			}
			_ = sys.Register(ctx, new(c36KindA))
			f.reg.nodes = append(f.reg.nodes, view)
			f.nodes = append(f.nodes, &c36Node{sys: sys, view: view, store: store, roles: c36NodeRoles[i]})
		}
		deadline := time.Now().Add(10 * time.Second)
		for _, n := range f.nodes {
			for n.sys.getSingletonManager() == nil || !n.sys.getSingletonManager().IsRunning() {
				if time.Now().After(deadline) {
					f.err = errors.New("singleton manager did not start")
					return
				}
				time.Sleep(5 * time.Millisecond)
			}
		}
		time.Sleep(50 * time.Millisecond)
	})
	return c36Fix
}

func c36StopFixture() {
	f := c36Fix
	if f == nil {
		return
	}
	f.reg.plan.Store(nil)
	for _, n := range f.nodes {
		if n == nil || n.sys == nil {
			continue
		}
		// stop as a plain system: the simulated registry has nothing to leave
		n.sys.clusterEnabled.Store(false)
		ctx, cancel := context.WithTimeout(context.Background(), 30*time.Second)
		_ = n.sys.Stop(ctx)
		cancel()
	}
}

var _ = sort.Strings
var _ = testing.Short

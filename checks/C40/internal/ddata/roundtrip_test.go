//go:build verif

package ddata

// C40 — CRDT values survive encoding.
//
// Values are reachable ones: 2-3 replicas start from New*(), apply generated operations
// under their own node id, merge each other's state (ORSet/ORMap are sometimes compacted);
// every state that ever existed is pooled, v and w are drawn from the pool.
//
// Oracle: dec := DecodeCRDT(unmarshal(marshal(EncodeCRDT(v)))) succeeds; dec has the same
// observable value and the same causal metadata (everything the exported State/RawState
// accessors show) as v; merging dec behaves like merging v, against w as it is and
// against the decoded w, on either side; a second round trip changes nothing; CRDT keys
// round-trip with their type through the wire and unknown types are rejected.

import (
	"fmt"
	"math"
	"reflect"
	"sort"
	"strings"
	"testing"
	"time"

	"google.golang.org/protobuf/proto"
	"pgregory.net/rapid"

	"github.com/tochemey/goakt/v4/crdt"
	"github.com/tochemey/goakt/v4/internal/codec"
	"github.com/tochemey/goakt/v4/internal/internalpb"
	"github.com/tochemey/goakt/v4/internal/types"
	"github.com/tochemey/goakt/v4/internal/vfkit"
	"github.com/tochemey/goakt/v4/remote"
	"github.com/tochemey/goakt/v4/test/data/testpb"
)

const (
	c40TGCounter = iota
	c40TPNCounter
	c40TFlag
	c40TLWW
	c40TMV
	c40TORSet
	c40TORMapGC
	c40TORMapSet
	c40TORMapLWW
	c40NTypes
)

var c40TypeNames = [...]string{"gcounter", "pncounter", "flag", "lww", "mv", "orset", "ormap_gc", "ormap_set", "ormap_lww"}

var c40Nodes = []string{"127.0.0.1:9000", "n10", "nœud-3"}

var c40Amounts = []uint64{1, 2, 0, 5, 1 << 40, 1 << 63, math.MaxUint64}

// c40Rec is a user struct registered for CBOR, the documented way to put custom types into CRDTs.
type c40Rec struct {
	A int
	B string
}

const (
	c40FPStructElem = "struct-element-decoded-as-pointer"
)

func init() {
	// what remote.WithSerializers(new(c40Rec), remote.NewCBORSerializer()) does
	types.RegisterSerializerType(new(c40Rec), remote.NewCBORSerializer())
}

// element / key domains: comparable values the CRDT value serializer supports
const (
	c40DString = iota
	c40DInt
	c40DSized
	c40DFloatBool
	c40DMixed
	c40DStruct // registered struct VALUES as set elements / map keys
	c40NDoms
)

var c40DomNames = [...]string{"string", "int", "sized_ints", "float_bool", "mixed", "struct_value"}

func c40Elem(dom, i int) any {
	i %= 4
	switch dom {
	case c40DString:
		return []any{"", "x", "héllo wörld ✓", strings.Repeat("k", 300)}[i]
	case c40DInt:
		return []any{0, -1, math.MaxInt64, math.MinInt64}[i]
	case c40DSized:
		return []any{int8(-128), uint64(math.MaxUint64), int32(7), uint16(65535)}[i]
	case c40DFloatBool:
		return []any{1.5, math.Inf(-1), float32(0.1), true}[i]
	case c40DMixed:
		return []any{"1", 1, int64(1), uint8(1)}[i]
	default:
		return []any{c40Rec{A: 1, B: "a"}, c40Rec{}, c40Rec{A: -7, B: "ü"}, c40Rec{A: 1, B: "b"}}[i]
	}
}

// register values: everything above plus NaN, pointers to registered structs and proto messages
func c40Val(dom, i int) any {
	i %= 8
	if i < 4 {
		if dom == c40DStruct {
			return []any{&c40Rec{A: 1, B: "a"}, &c40Rec{}, &c40Rec{A: -7, B: "ü"}, &c40Rec{A: 1, B: "b"}}[i]
		}
		return c40Elem(dom, i)
	}
	switch i {
	case 4:
		return math.NaN()
	case 5:
		return &testpb.Account{AccountId: "acc-1", AccountBalance: 12.5}
	case 6:
		return &testpb.Reply{}
	default:
		return math.Copysign(0, -1)
	}
}

// c40Show renders a value with its type; pointers to plain structs are rendered like the struct (the CBOR
// serializer documents that registered structs come back as pointers), proto messages by their fields.
func c40Show(v any) string {
	if m, ok := v.(proto.Message); ok {
		b, _ := proto.MarshalOptions{Deterministic: true}.Marshal(m)
		return fmt.Sprintf("proto:%s:%x", m.ProtoReflect().Descriptor().FullName(), b)
	}
	rv := reflect.ValueOf(v)
	if rv.IsValid() && rv.Kind() == reflect.Pointer && !rv.IsNil() && rv.Elem().Kind() == reflect.Struct {
		return fmt.Sprintf("struct:%T:%+v", rv.Elem().Interface(), rv.Elem().Interface())
	}
	if rv.IsValid() && rv.Kind() == reflect.Struct {
		return fmt.Sprintf("struct:%T:%+v", v, v)
	}
	if f, ok := v.(float64); ok && f == 0 && math.Signbit(f) {
		return "float64:-0"
	}
	return fmt.Sprintf("%T:%v", v, v)
}

// ---- case ----------------------------------------------------------------------------

type c40Op struct {
	Kind int   `json:"k"` // 0 update, 1 merge replica From, 2 compact
	R    int   `json:"r"`
	From int   `json:"from,omitempty"`
	Op   int   `json:"op,omitempty"`
	Elem int   `json:"e,omitempty"`
	Val  int   `json:"v,omitempty"`
	TS   int64 `json:"ts,omitempty"`
}

type c40Case struct {
	Type int     `json:"type"`
	Dom  int     `json:"dom"`
	N    int     `json:"n"`
	Ops  []c40Op `json:"ops"`
	V    int     `json:"vsel"`
	W    int     `json:"wsel"`
}

func c40Gen(t *rapid.T) c40Case {
	var c c40Case
	c.Type = []int{
		c40TORSet, c40TORSet, c40TORSet, c40TORMapGC, c40TORMapSet, c40TORMapSet, c40TORMapLWW,
		c40TMV, c40TMV, c40TLWW, c40TLWW, c40TGCounter, c40TPNCounter, c40TPNCounter, c40TFlag,
	}[rapid.IntRange(0, 14).Draw(t, "type")]
	c.Dom = rapid.IntRange(0, c40NDoms-1).Draw(t, "dom")
	c.N = rapid.IntRange(2, 3).Draw(t, "n")
	n := rapid.OneOf(rapid.IntRange(1, 12), rapid.IntRange(6, 12), rapid.IntRange(9, 12)).Draw(t, "nops")
	tsGen := rapid.OneOf(
		rapid.Int64Range(1, 1000),
		rapid.SampledFrom([]int64{0, -1, 1, 1_700_000_000_123_456_789, math.MaxInt64, math.MinInt64, 999_999, 1_000_000}),
		rapid.Int64(),
	)
	for i := 0; i < n; i++ {
		var o c40Op
		k := rapid.IntRange(0, 19).Draw(t, "kind")
		switch {
		case k < 11:
			o.Kind = 0
		case k < 18:
			o.Kind = 1
		default:
			o.Kind = 2
		}
		o.R = rapid.IntRange(0, c.N-1).Draw(t, "r")
		if o.Kind == 0 {
			o.Op = rapid.IntRange(0, 4).Draw(t, "op")
			o.Elem = rapid.IntRange(0, 3).Draw(t, "elem")
			o.Val = rapid.IntRange(0, 7).Draw(t, "val")
			o.TS = tsGen.Draw(t, "ts")
		} else if o.Kind == 1 {
			o.From = (o.R + 1 + rapid.IntRange(0, c.N-2).Draw(t, "from")) % c.N
		}
		c.Ops = append(c.Ops, o)
	}
	sel := rapid.OneOf(rapid.IntRange(0, 5), rapid.IntRange(0, 5), rapid.IntRange(6, 21))
	c.V = sel.Draw(t, "vsel")
	c.W = sel.Draw(t, "wsel")
	return c
}

// ---- complete exported state ---------------------------------------------------------

func c40U64(m map[string]uint64) string {
	ks := make([]string, 0, len(m))
	for k, v := range m {
		if v != 0 {
			ks = append(ks, k)
		}
	}
	sort.Strings(ks)
	var b strings.Builder
	for _, k := range ks {
		fmt.Fprintf(&b, "%q=%d,", k, m[k])
	}
	return b.String()
}

func c40Dots(ds []crdt.Dot) string {
	strs := make([]string, len(ds))
	for i, d := range ds {
		strs[i] = fmt.Sprintf("%q:%d", d.NodeID, d.Counter)
	}
	sort.Strings(strs)
	return strings.Join(strs, " ")
}

func c40Entries(es []crdt.Entry) string {
	strs := make([]string, len(es))
	for i, e := range es {
		strs[i] = c40Show(e.Element) + "->[" + c40Dots(e.Dots) + "]"
	}
	sort.Strings(strs)
	return strings.Join(strs, ";")
}

// c40Meta renders the observable value and all causal metadata reachable through exported accessors.
func c40Meta(v crdt.ReplicatedData) string {
	switch t := v.(type) {
	case *crdt.GCounter:
		return fmt.Sprintf("GC{%s}=%d", c40U64(t.State()), t.Value())
	case *crdt.PNCounter:
		i, d := t.State()
		return fmt.Sprintf("PN{+%s -%s}=%d", c40U64(i), c40U64(d), t.Value())
	case *crdt.Flag:
		return fmt.Sprintf("Flag{%v}", t.Enabled())
	case *crdt.LWWRegister:
		return fmt.Sprintf("LWW{%s @%d /%q}", c40Show(t.Value()), t.Timestamp(), t.NodeID())
	case *crdt.MVRegister:
		es, clock := t.RawState()
		strs := make([]string, len(es))
		for i, e := range es {
			strs[i] = fmt.Sprintf("%s@%q:%d", c40Show(e.Value), e.Dot.NodeID, e.Dot.Counter)
		}
		sort.Strings(strs)
		vals := t.Values()
		vs := make([]string, len(vals))
		for i, x := range vals {
			vs[i] = c40Show(x)
		}
		sort.Strings(vs)
		return fmt.Sprintf("MV{[%s] clock{%s} values[%s]}", strings.Join(strs, ";"), c40U64(clock), strings.Join(vs, ","))
	case *crdt.ORSet:
		es, clock := t.RawState()
		els := t.Elements()
		vs := make([]string, len(els))
		for i, x := range els {
			vs[i] = c40Show(x)
		}
		sort.Strings(vs)
		return fmt.Sprintf("ORSet{%s clock{%s} elements[%s] len=%d}", c40Entries(es), c40U64(clock), strings.Join(vs, ","), t.Len())
	case *crdt.ORMap:
		st := t.RawState()
		strs := make([]string, 0, len(st.Values))
		for k, val := range st.Values {
			strs = append(strs, c40Show(k)+"=>("+c40Meta(val)+")")
		}
		sort.Strings(strs)
		keys := t.Keys()
		ks := make([]string, len(keys))
		for i, k := range keys {
			val, ok := t.Get(k)
			ks[i] = fmt.Sprintf("%s:%v:%s", c40Show(k), ok, c40Meta(val))
		}
		sort.Strings(ks)
		return fmt.Sprintf("ORMap{keys(%s clock{%s}) values{%s} get[%s] len=%d}", c40Entries(st.KeyEntries), c40U64(st.KeyClock), strings.Join(strs, ";"), strings.Join(ks, ";"), t.Len())
	case nil:
		return "<nil>"
	}
	return fmt.Sprintf("?%T", v)
}

// ---- building reachable values -------------------------------------------------------

type c40State struct {
	v     crdt.ReplicatedData
	label string
}

type c40World struct {
	typ, dom, n int
	cur         []int
	pool        []c40State
}

func c40Initial(typ int) crdt.ReplicatedData {
	switch typ {
	case c40TGCounter:
		return crdt.NewGCounter()
	case c40TPNCounter:
		return crdt.NewPNCounter()
	case c40TFlag:
		return crdt.NewFlag()
	case c40TLWW:
		return crdt.NewLWWRegister()
	case c40TMV:
		return crdt.NewMVRegister()
	case c40TORSet:
		return crdt.NewORSet()
	default:
		return crdt.NewORMap()
	}
}

func (w *c40World) push(v crdt.ReplicatedData, label string) int {
	w.pool = append(w.pool, c40State{v: v, label: label})
	return len(w.pool) - 1
}

func (w *c40World) apply(i int, o c40Op) {
	r := o.R
	cur := w.pool[w.cur[r]].v
	node := c40Nodes[r]
	switch o.Kind {
	case 1:
		w.cur[r] = w.push(cur.Merge(w.pool[w.cur[o.From]].v), fmt.Sprintf("replica %d after op %d (merge)", r, i))
		return
	case 2:
		if cd, ok := cur.(crdt.Compactable); ok {
			w.cur[r] = w.push(cd.CompactData(), fmt.Sprintf("replica %d after op %d (compaction)", r, i))
		}
		return
	}
	var v crdt.ReplicatedData
	amt := c40Amounts[o.Val%len(c40Amounts)]
	switch w.typ {
	case c40TGCounter:
		v = cur.(*crdt.GCounter).Increment(node, amt)
	case c40TPNCounter:
		if o.Op%2 == 0 {
			v = cur.(*crdt.PNCounter).Increment(node, amt)
		} else {
			v = cur.(*crdt.PNCounter).Decrement(node, amt)
		}
	case c40TFlag:
		v = cur.(*crdt.Flag).Enable()
	case c40TLWW:
		v = cur.(*crdt.LWWRegister).Set(c40Val(w.dom, o.Val), time.Unix(0, o.TS), node)
	case c40TMV:
		v = cur.(*crdt.MVRegister).Set(node, c40Val(w.dom, o.Val))
	case c40TORSet:
		if o.Op < 3 {
			v = cur.(*crdt.ORSet).Add(node, c40Elem(w.dom, o.Elem))
		} else {
			v = cur.(*crdt.ORSet).Remove(c40Elem(w.dom, o.Elem))
		}
	default:
		m := cur.(*crdt.ORMap)
		key := c40Elem(w.dom, o.Elem)
		if o.Op >= 3 {
			v = m.Remove(key)
			break
		}
		existing, has := m.Get(key)
		switch w.typ {
		case c40TORMapGC:
			g := crdt.NewGCounter()
			if has {
				g = existing.(*crdt.GCounter)
			}
			v = m.Set(node, key, g.Increment(node, amt))
		case c40TORMapSet:
			s := crdt.NewORSet()
			if has {
				s = existing.(*crdt.ORSet)
			}
			if o.Op == 2 {
				s = s.Remove(c40Elem(w.dom, o.Val))
			} else {
				s = s.Add(node, c40Elem(w.dom, o.Val))
			}
			v = m.Set(node, key, s)
		default:
			reg := crdt.NewLWWRegister()
			if has {
				reg = existing.(*crdt.LWWRegister)
			}
			v = m.Set(node, key, reg.Set(c40Val(w.dom, o.Val), time.Unix(0, o.TS), node))
		}
	}
	if v == cur {
		return
	}
	v.ResetDelta()
	w.cur[r] = w.push(v, fmt.Sprintf("replica %d after op %d (update)", r, i))
}

// c40HasUnwrittenLWW reports whether v is, or (as a raw ORMap value, including values of
// removed keys) contains, an LWWRegister that was never written.
func c40HasUnwrittenLWW(v crdt.ReplicatedData) bool {
	switch t := v.(type) {
	case *crdt.LWWRegister:
		return t.Value() == nil
	case *crdt.ORMap:
		for _, val := range t.RawState().Values {
			if c40HasUnwrittenLWW(val) {
				return true
			}
		}
		for _, val := range t.Entries() {
			if c40HasUnwrittenLWW(val) {
				return true
			}
		}
	}
	return false
}

// ---- the round trip ------------------------------------------------------------------

func c40RoundTrip(x *vfkit.X, ser remote.Serializer, v crdt.ReplicatedData, what string) (crdt.ReplicatedData, bool) {
	pb, err := EncodeCRDT(v, ser)
	if err != nil {
		if c40HasUnwrittenLWW(v) {
			// a register that was never written holds nil, which no serializer accepts: outside the domain
			// (also reached through an ORMap value whose only Set carried a timestamp below the zero
			// state's, which LWW ordering ignores)
			x.Class("lww_never_written_not_encodable")
			return nil, false
		}
		x.Failf("encode-error", "EncodeCRDT(%s = %s) failed: %v", what, c40Meta(v), err)
	}
	raw, err := proto.Marshal(pb)
	if err != nil {
		x.Failf("encode-error", "proto.Marshal of the encoding of %s = %s failed: %v", what, c40Meta(v), err)
	}
	var back internalpb.CRDTData
	if err := proto.Unmarshal(raw, &back); err != nil {
		x.Failf("decode-error", "proto.Unmarshal of the encoding of %s failed: %v", what, err)
	}
	dec, err := DecodeCRDT(&back, ser)
	if err != nil {
		x.Failf("decode-error", "DecodeCRDT of the encoding of %s = %s failed: %v", what, c40Meta(v), err)
	}
	if reflect.TypeOf(dec) != reflect.TypeOf(v) {
		x.Failf("decoded-type-differs", "%s is a %T, decoded as %T", what, v, dec)
	}
	return dec, true
}

func c40NonTrivial(v crdt.ReplicatedData) bool {
	switch t := v.(type) {
	case *crdt.GCounter:
		return len(t.State()) >= 2
	case *crdt.PNCounter:
		i, d := t.State()
		return len(i) >= 1 && len(d) >= 1 && len(i)+len(d) >= 3
	case *crdt.MVRegister:
		es, clock := t.RawState()
		var sum uint64
		for _, c := range clock {
			sum += c
		}
		return len(clock) >= 2 && uint64(len(es)) < sum
	case *crdt.ORSet:
		es, clock := t.RawState()
		var sum uint64
		for _, c := range clock {
			sum += c
		}
		live := 0
		for _, e := range es {
			live += len(e.Dots)
		}
		return len(clock) >= 2 && uint64(live) < sum && len(es) > 0
	case *crdt.ORMap:
		st := t.RawState()
		var sum uint64
		for _, c := range st.KeyClock {
			sum += c
		}
		live := 0
		for _, e := range st.KeyEntries {
			live += len(e.Dots)
		}
		return len(st.KeyClock) >= 2 && uint64(live) < sum && len(st.KeyEntries) > 0
	}
	return false
}

func c40Exec(x *vfkit.X, c c40Case) {
	dom := c.Dom
	setLike := c.Type == c40TORSet || c.Type >= c40TORMapGC
	if dom == c40DStruct && setLike && x.Known(c40FPStructElem) {
		// known finding: struct values used as set elements / map keys come back as pointers;
		// excluded by construction, strings are used instead
		dom = c40DString
		x.Class("struct_elements_replaced_known")
	}
	w := &c40World{typ: c.Type, dom: dom, n: c.N, cur: make([]int, c.N)}
	for r := 0; r < c.N; r++ {
		w.cur[r] = w.push(c40Initial(c.Type), fmt.Sprintf("replica %d, initial", r))
	}
	for i, o := range c.Ops {
		w.apply(i, o)
	}
	n := len(w.pool)
	pick := func(k int) c40State {
		if k < 6 {
			return w.pool[w.cur[k%c.N]]
		}
		return w.pool[n-1-(k-6)%n]
	}
	v, ws := pick(c.V), pick(c.W)
	x.Class("type_" + c40TypeNames[c.Type])
	x.Class("dom_" + c40DomNames[dom])
	fp := func(kind string) string {
		if dom == c40DStruct && setLike {
			return c40FPStructElem
		}
		return kind + "-" + c40TypeNames[c.Type]
	}
	ser := NewCRDTValueSerializer()
	before := c40Meta(v.v)
	dec, ok := c40RoundTrip(x, ser, v.v, "v")
	if !ok {
		return
	}
	if after := c40Meta(v.v); after != before {
		x.Failf("encode-modifies-value", "encoding changed v=%s:\n before %s\n after  %s", v.label, before, after)
	}
	if got := c40Meta(dec); got != before {
		x.Failf(fp("decoded-differs"), "v=%s\n original %s\n decoded  %s", v.label, before, got)
	}
	// merging the decoded value behaves like merging the original
	wdec, wok := c40RoundTrip(x, ser, ws.v, "w")
	others := []struct {
		name string
		val  crdt.ReplicatedData
	}{{"w", ws.v}}
	if wok {
		others = append(others, struct {
			name string
			val  crdt.ReplicatedData
		}{"decoded w", wdec})
	}
	for _, o := range others {
		want1, want2 := c40Meta(v.v.Merge(ws.v)), c40Meta(ws.v.Merge(v.v))
		if got := c40Meta(dec.Merge(o.val)); got != want1 {
			x.Failf(fp("merge-after-decode-differs"), "v=%s, w=%s:\n v.Merge(w)          = %s\n decoded(v).Merge(%s) = %s", v.label, ws.label, want1, o.name, got)
		}
		if got := c40Meta(o.val.Merge(dec)); got != want2 {
			x.Failf(fp("merge-after-decode-differs"), "v=%s, w=%s:\n w.Merge(v)          = %s\n (%s).Merge(decoded(v)) = %s", v.label, ws.label, want2, o.name, got)
		}
	}
	// a second trip is a fixed point
	dec2, _ := c40RoundTrip(x, ser, dec, "decoded v")
	if got := c40Meta(dec2); got != before {
		x.Failf(fp("second-round-trip-differs"), "v=%s\n original     %s\n decoded twice %s", v.label, before, got)
	}
	if c40NonTrivial(v.v) {
		x.NonTrivial()
		x.Class("multi_node_metadata_with_removed_dot")
	}
}

func TestVF_C40_values(t *testing.T) {
	vfkit.Run(t, vfkit.Spec[c40Case]{
		ID: "C40", Unit: "values",
		Rule: "case = CRDT type (ORMap with GCounter/ORSet/LWWRegister values), element/value domain (strings, ints, sized ints, floats/bools, mixed types, registered structs; registers also NaN, -0, struct pointers, proto messages), 2-3 replicas, <=12 operations/merges/compactions; v and w drawn from the pool of all states; non-trivial = v's metadata names >=2 node ids and (set-like types) its clock covers a dot that is no longer live (a removed or superseded element); distinct = distinct case",
		Gen:  c40Gen, Exec: c40Exec,
	})
}

// ---- keys ----------------------------------------------------------------------------

type c40KeyCase struct {
	ID   string `json:"id"`
	Type int    `json:"type"` // crdt.DataType value, possibly outside the defined range
	Via  int    `json:"via"`  // 0: EncodeCRDTKey(id, type); 1: through the crdt.*Key constructor
}

func c40KeyGen(t *rapid.T) c40KeyCase {
	return c40KeyCase{
		ID: rapid.OneOf(
			rapid.SampledFrom([]string{"", "k", "request-count", "a/b:c", "ключ", strings.Repeat("x", 5000), "\x00", " "}),
			rapid.String(),
		).Draw(t, "id"),
		Type: rapid.OneOf(rapid.IntRange(0, 6), rapid.IntRange(-2, 9), rapid.SampledFrom([]int{-1, 7, 8, 100, math.MaxInt32, math.MinInt32})).Draw(t, "type"),
		Via:  rapid.IntRange(0, 1).Draw(t, "via"),
	}
}

func c40KeyExec(x *vfkit.X, c c40KeyCase) {
	valid := c.Type >= int(crdt.GCounterType) && c.Type <= int(crdt.MVRegisterType)
	id, dt := c.ID, crdt.DataType(c.Type)
	if c.Via == 1 && valid {
		ctors := []func(string) crdt.Key{crdt.GCounterKey, crdt.PNCounterKey, crdt.LWWRegisterKey, crdt.ORSetKey, crdt.ORMapKey, crdt.FlagKey, crdt.MVRegisterKey}
		k := ctors[c.Type](c.ID)
		if int(k.Type()) != c.Type || k.ID() != c.ID {
			x.Failf("key-constructor-wrong-type", "constructor %d built key (%q,%d)", c.Type, k.ID(), k.Type())
		}
		id, dt = k.ID(), k.Type()
		x.Class("via_constructor")
	}
	pb := codec.EncodeCRDTKey(id, dt)
	if valid {
		x.Class("valid_type")
		x.NonTrivial()
		// through the wire when the id is transmittable (proto strings must be valid UTF-8)
		if raw, err := proto.Marshal(pb); err == nil {
			var back internalpb.CRDTKey
			if err := proto.Unmarshal(raw, &back); err != nil {
				x.Failf("key-decode-error", "unmarshal of key (%q,%d): %v", id, dt, err)
			}
			pb = &back
		} else {
			x.Class("id_not_valid_utf8")
		}
		gid, gdt, err := codec.DecodeCRDTKey(pb)
		if err != nil {
			x.Failf("key-decode-error", "DecodeCRDTKey(EncodeCRDTKey(%q,%d)) failed: %v", id, dt, err)
		}
		if gid != id || gdt != dt {
			x.Failf("key-round-trip-differs", "key (%q,%d) came back as (%q,%d)", id, dt, gid, gdt)
		}
		return
	}
	x.Class("unknown_type")
	if gid, gdt, err := codec.DecodeCRDTKey(pb); err == nil {
		x.Failf("key-unknown-type-accepted", "key with undefined data type %d decoded without error as (%q,%d)", c.Type, gid, gdt)
	}
}

func TestVF_C40_keys(t *testing.T) {
	vfkit.Run(t, vfkit.Spec[c40KeyCase]{
		ID: "C40", Unit: "keys",
		Rule: "case = (key id: arbitrary string, data type: the 7 defined ones or an undefined integer, built directly or through the crdt.*Key constructor); non-trivial = defined type (round trip through EncodeCRDTKey, proto wire, DecodeCRDTKey); undefined types must be rejected; distinct = distinct (id,type,via)",
		Gen:  c40KeyGen, Exec: c40KeyExec,
	})
}

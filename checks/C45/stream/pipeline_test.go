//go:build verif

package stream

import (
	"context"
	"encoding/json"
	"errors"
	"fmt"
	"os"
	"runtime"
	"sort"
	"strconv"
	"strings"
	"sync"
	"sync/atomic"
	"testing"
	"time"

	"pgregory.net/rapid"

	"github.com/tochemey/goakt/v4/actor"
	"github.com/tochemey/goakt/v4/eventstream"
	"github.com/tochemey/goakt/v4/internal/vfkit"
	"github.com/tochemey/goakt/v4/log"
)

// ---- C45: linear stream pipelines compute exactly their list semantics --------
//
// A case is a program: source kind + finite int64 input + 0..6 stages of a typed
// grammar closed over int64 + optional trailing Batch + sink kind + fusion mode.
// The reference (c45Interpret) evaluates the same program over Go slices, written
// from the stage documentation (stream/flow.go doc comments and
// architecture/REACTIVE_STREAMS.md §3.4, §5.3, §6.4, §7.2).

const (
	c45KMap        = 0 // Map(x -> x*A+B)
	c45KTryMap     = 1 // TryMap(x -> x*A+B), fails on x mod FailMod == FailRem
	c45KFilter     = 2 // Filter: Variant 0 keeps x mod A != B, 1 keeps x < B, 2 keeps x >= B
	c45KFlatMap    = 3 // x -> k copies x, x+1, ..; k = |x| mod (N+1); Variant 1: Map-to-slice then Flatten
	c45KBatchFlat  = 4 // Batch(N, Wait) then Flatten
	c45KScan       = 5 // Scan(zero=B, acc*A + x)
	c45KDedup      = 6 // Deduplicate
	c45KBuffer     = 7 // Buffer(N, BackpressureSource)
	c45KOrderedPar = 8 // OrderedParallelMap(N, x -> x*A+B) with value-dependent delay
	c45KPar        = 9 // ParallelMap(N, x -> x*A+B) with value-dependent delay
	c45NumKinds    = 10
)

var c45KindNames = [...]string{"Map", "TryMap", "Filter", "FlatMap", "BatchFlatten", "Scan", "Deduplicate", "Buffer", "OrderedParallelMap", "ParallelMap"}

const (
	c45StratFailFast = 0
	c45StratResume   = 1
	c45StratRetry    = 2
)

const (
	c45SrcOf       = 0
	c45SrcRange    = 1
	c45SrcChanFull = 2 // FromChannel on a pre-filled, closed channel
	c45SrcChanFeed = 3 // FromChannel fed by a goroutine in chunks
)

const (
	c45SinkCollect = 0
	c45SinkFold    = 1
	c45SinkForEach = 2
)

// fusion: 0 = graph run as built (default mode), 1 = WithFusion(FuseStateless),
// 2 = WithFusion(FuseNone), 3 = WithFusion(FuseAggressive)
const (
	c45FuseDefault    = 0
	c45FuseStateless  = 1
	c45FuseNone       = 2
	c45FuseAggressive = 3
)

type c45Stage struct {
	K           int   `json:"k"`
	A           int64 `json:"a,omitempty"`
	B           int64 `json:"b,omitempty"`
	N           int   `json:"n,omitempty"`
	WaitUs      int   `json:"wait_us,omitempty"`
	Variant     int   `json:"variant,omitempty"`
	Strat       int   `json:"strat,omitempty"`
	FailMod     int64 `json:"fail_mod,omitempty"` // 0: never fails
	FailRem     int64 `json:"fail_rem,omitempty"`
	FailTimes   int   `json:"fail_times,omitempty"` // Retry only: consecutive failures before success; 0 = always fails
	MaxAttempts int   `json:"max_attempts,omitempty"`
	DelayUs     int   `json:"delay_us,omitempty"`
}

type c45Case struct {
	Source      int        `json:"source"`
	Input       []int64    `json:"input"`     // Of / FromChannel
	Start       int64      `json:"start"`     // Range
	Len         int        `json:"len"`       // Range
	ChunkLen    int        `json:"chunk_len"` // FromChannel feeder chunk
	Stages      []c45Stage `json:"stages"`
	FinalBatchN int        `json:"final_batch_n"` // 0: none
	FinalWaitUs int        `json:"final_wait_us"`
	Sink        int        `json:"sink"`
	SinkDelayUs int        `json:"sink_delay_us"`
	Fusion      int        `json:"fusion"`
	Rerun       bool       `json:"rerun"` // run the same Source description a second time with a fresh sink
}

// ---- generator ----------------------------------------------------------------

func c45GenInput(t *rapid.T) []int64 {
	var n int
	switch rapid.IntRange(0, 9).Draw(t, "len_kind") {
	case 0:
		n = rapid.IntRange(0, 2).Draw(t, "len_tiny")
	case 1, 2:
		n = rapid.IntRange(3, 40).Draw(t, "len_small")
	case 3, 4:
		// around the demand-window constants (refill 64, 224-64, initial 224, buffer 256)
		n = rapid.SampledFrom([]int{63, 64, 65, 159, 160, 161, 223, 224, 225, 226, 255, 256, 257, 288, 289, 300}).Draw(t, "len_boundary")
	case 5, 6:
		// several demand windows (224 per window, refill at <= 64 outstanding)
		n = rapid.OneOf(rapid.IntRange(225, 700), rapid.SampledFrom([]int{289, 290, 384, 385, 448, 449, 600, 672, 673, 700})).Draw(t, "len_multi_window")
	default:
		n = rapid.IntRange(10, 300).Draw(t, "len_any")
	}
	out := make([]int64, 0, n)
	style := rapid.IntRange(0, 5).Draw(t, "val_style")
	if style == 4 {
		// ascending: threshold predicates cut it into one long kept and one long dropped run
		start := rapid.Int64Range(-5, 5).Draw(t, "asc_start")
		step := rapid.SampledFrom([]int64{1, 1, 1, -1, 2}).Draw(t, "asc_step")
		for i := 0; i < n; i++ {
			out = append(out, start+int64(i)*step)
		}
		return out
	}
	if style == 5 {
		// long constant runs (65 and more): Deduplicate / empty FlatMap drop whole stretches
		for len(out) < n {
			v := rapid.Int64Range(-2, 6).Draw(t, "v")
			run := rapid.SampledFrom([]int{1, 2, 30, 64, 65, 66, 100, 160, 161, 224, 300, 450}).Draw(t, "long_run")
			for r := 0; r < run && len(out) < n; r++ {
				out = append(out, v)
			}
		}
		return out
	}
	for len(out) < n {
		var v int64
		switch style {
		case 0: // small alphabet, many consecutive duplicates
			v = rapid.Int64Range(-2, 4).Draw(t, "v")
		case 1:
			v = rapid.Int64Range(-20, 60).Draw(t, "v")
		case 2: // runs
			v = rapid.Int64Range(-3, 9).Draw(t, "v")
			run := rapid.IntRange(1, 5).Draw(t, "run")
			for r := 1; r < run && len(out) < n-1; r++ {
				out = append(out, v)
			}
		default:
			v = rapid.Int64Range(-1000, 1000).Draw(t, "v")
		}
		out = append(out, v)
	}
	return out
}

func c45GenStage(t *rapid.T, unordered bool, flatMaps int, failing int) c45Stage {
	var kinds []int
	if unordered {
		// after an unordered ParallelMap only multiset-homomorphic stages keep a decidable reference
		kinds = []int{c45KMap, c45KTryMap, c45KFilter, c45KBatchFlat, c45KBuffer, c45KOrderedPar, c45KPar}
	} else {
		kinds = []int{c45KMap, c45KTryMap, c45KTryMap, c45KFilter, c45KBatchFlat, c45KBatchFlat, c45KScan, c45KDedup, c45KBuffer, c45KOrderedPar, c45KOrderedPar, c45KPar}
	}
	if flatMaps < 2 {
		kinds = append(kinds, c45KFlatMap)
	}
	s := c45Stage{K: rapid.SampledFrom(kinds).Draw(t, "kind")}
	switch s.K {
	case c45KMap, c45KOrderedPar, c45KPar:
		s.A = rapid.Int64Range(-2, 3).Draw(t, "a")
		s.B = rapid.Int64Range(-5, 5).Draw(t, "b")
		if s.K != c45KMap {
			s.N = rapid.SampledFrom([]int{1, 2, 3, 4, 8}).Draw(t, "workers")
			s.DelayUs = rapid.SampledFrom([]int{0, 0, 1, 50, 200}).Draw(t, "delay_us")
		}
	case c45KTryMap:
		s.A = rapid.Int64Range(-2, 3).Draw(t, "a")
		s.B = rapid.Int64Range(-5, 5).Draw(t, "b")
		s.Strat = rapid.IntRange(0, 2).Draw(t, "strat")
		if !unordered && failing < 2 && rapid.IntRange(0, 3).Draw(t, "fails") > 0 {
			s.FailMod = rapid.SampledFrom([]int64{2, 3, 5, 7, 11, 37, 101}).Draw(t, "fail_mod")
			s.FailRem = rapid.Int64Range(0, s.FailMod-1).Draw(t, "fail_rem")
		}
		if s.Strat == c45StratRetry {
			s.MaxAttempts = rapid.IntRange(1, 4).Draw(t, "max_attempts")
			// failures strictly below MaxAttempts must end in success under every reading of the
			// documentation; FailTimes == 0 means the element always fails (must end the stream).
			if s.MaxAttempts > 1 && rapid.Bool().Draw(t, "transient") {
				s.FailTimes = rapid.IntRange(1, s.MaxAttempts-1).Draw(t, "fail_times")
			}
		}
	case c45KFilter:
		s.Variant = rapid.SampledFrom([]int{0, 0, 1, 2}).Draw(t, "filter_variant")
		if s.Variant == 0 { // keep x mod A != B
			s.A = rapid.Int64Range(1, 5).Draw(t, "mod")
			s.B = rapid.Int64Range(0, s.A-1).Draw(t, "rem")
		} else { // threshold: 1 keeps x < B, 2 keeps x >= B
			s.B = rapid.OneOf(rapid.Int64Range(-10, 20), rapid.Int64Range(0, 700), rapid.SampledFrom([]int64{64, 100, 159, 160, 224, 225, 300})).Draw(t, "threshold")
		}
	case c45KFlatMap:
		s.N = rapid.IntRange(1, 3).Draw(t, "max_copies")
		s.Variant = rapid.IntRange(0, 1).Draw(t, "variant")
	case c45KBatchFlat:
		s.N = rapid.SampledFrom([]int{1, 1, 2, 3, 5, 16, 64, 224, 225, 1000}).Draw(t, "batch_n")
		s.WaitUs = rapid.SampledFrom([]int{50, 1000, 20000, 5000000}).Draw(t, "wait_us")
	case c45KScan:
		s.A = rapid.SampledFrom([]int64{1, 1, 1, 2, -1, 0}).Draw(t, "mul")
		s.B = rapid.Int64Range(-3, 3).Draw(t, "zero")
	case c45KBuffer:
		s.N = rapid.SampledFrom([]int{1, 1, 2, 3, 4, 5, 8, 16, 64, 300}).Draw(t, "buffer_n")
	}
	return s
}

// Fingerprints of defects found by this check (FINDINGS.md). While one is listed
// as known the generator avoids exactly its input shape.
const (
	c45FpBatchDrop     = "batch-no-demand-drops-window"
	c45FpBatchOversize = "batch-no-demand-oversize"
	c45FpRetryChain    = "retry-config-lost-in-builder-chain"
	c45FpWireRace      = "run-fails-stage-dead-before-wiring"
	c45FpFloodDeadlock = "deadlock-flooded-parallel-map-before-small-buffer"
)

// c45IgnoresDemand reports whether stage i pushes elements downstream without
// waiting for downstream demand (parallel stages and fused runs do; see
// stage_parallel.go / fusedFlowActor). i == -1 is the source.
func c45IgnoresDemand(c *c45Case, i int) bool {
	if i < 0 {
		return false
	}
	s := c.Stages[i]
	if s.K == c45KPar || s.K == c45KOrderedPar {
		return true
	}
	return c.Fusion != c45FuseNone && c45LastFusable(s) && i > 0 && c45LastFusable(c.Stages[i-1])
}

// c45BatchExposed reports whether the Batch at position i (len(Stages) = trailing
// Batch) can run out of downstream demand: it may receive elements before the first
// demand signal, or emit more batches than the initial demand window of 224.
func c45BatchExposed(c *c45Case, e *c45Expect, i int) bool {
	n := len(e.out)
	if i < len(c.Stages) {
		n = e.inLen[i]
	}
	return n > 223 || c45IgnoresDemand(c, i-1)
}

func c45AnyBatchExposed(c *c45Case, e *c45Expect) bool {
	for i, s := range c.Stages {
		if s.K == c45KBatchFlat && c45BatchExposed(c, e, i) {
			return true
		}
	}
	return c.FinalBatchN > 0 && c45BatchExposed(c, e, len(c.Stages))
}

// c45FloodDeadlockAt reports whether stage i is a (Ordered)ParallelMap that is fed by a
// demand-ignoring stage with more elements than its mailbox holds and is directly
// followed by a small Buffer (whose mailbox is 2*size): the shape of the blocking-enqueue
// cycle described in FINDINGS.md section 5.
func c45FloodDeadlockAt(c *c45Case, e *c45Expect, i int) bool {
	if i+1 >= len(c.Stages) {
		return false
	}
	s := c.Stages[i]
	if s.K != c45KPar && s.K != c45KOrderedPar {
		return false
	}
	nx := c.Stages[i+1]
	return nx.K == c45KBuffer && nx.N <= 64 && e.inLen[i] > 256 && c45IgnoresDemand(c, i-1)
}

func c45FloodDeadlockShape(c *c45Case, e *c45Expect) bool {
	for i := range c.Stages {
		if c45FloodDeadlockAt(c, e, i) {
			return true
		}
	}
	return false
}

// c45AvoidKnown rewrites the case so that it stays clear of the listed findings.
func c45AvoidKnown(c *c45Case) {
	if vfkit.Known("C45", c45FpRetryChain) {
		// WithErrorStrategy(Retry).WithRetryConfig(..) loses the RetryConfig: only
		// permanent failures keep an unambiguous expectation.
		for i := range c.Stages {
			if c.Stages[i].K == c45KTryMap && c.Stages[i].Strat == c45StratRetry {
				c.Stages[i].FailTimes = 0
			}
		}
	}
	if vfkit.Known("C45", c45FpFloodDeadlock) {
		e := c45Interpret(c)
		for i := range c.Stages {
			if c45FloodDeadlockAt(c, &e, i) {
				c.Stages[i+1].N = 300 // a Buffer whose mailbox (600) outlasts the flood window of the check
			}
		}
	}
	if vfkit.Known("C45", c45FpBatchDrop) || vfkit.Known("C45", c45FpBatchOversize) {
		e := c45Interpret(c)
		for i := range c.Stages {
			if c.Stages[i].K == c45KBatchFlat && c45BatchExposed(c, &e, i) {
				c.Stages[i] = c45Stage{K: c45KBuffer, N: 16} // also element-preserving; lengths stay as computed
			}
		}
		if c.FinalBatchN > 0 && c45BatchExposed(c, &e, len(c.Stages)) {
			c.FinalBatchN, c.FinalWaitUs = 0, 0
		}
	}
}

func c45Gen(t *rapid.T) c45Case {
	var c c45Case
	c.Source = rapid.SampledFrom([]int{c45SrcOf, c45SrcOf, c45SrcRange, c45SrcChanFull, c45SrcChanFeed}).Draw(t, "source")
	if c.Source == c45SrcRange {
		c.Start = rapid.Int64Range(-50, 50).Draw(t, "start")
		c.Len = len(c45GenInput(t))
	} else {
		c.Input = c45GenInput(t)
	}
	if c.Source == c45SrcChanFeed {
		c.ChunkLen = rapid.SampledFrom([]int{1, 2, 7, 64, 65, 1000}).Draw(t, "chunk")
	}
	n := rapid.SampledFrom([]int{0, 1, 2, 3, 3, 4, 4, 5, 6}).Draw(t, "n_stages")
	unordered := false
	flatMaps, failing := 0, 0
	for i := 0; i < n; i++ {
		s := c45GenStage(t, unordered, flatMaps, failing)
		if s.K == c45KPar {
			unordered = true
		}
		if s.K == c45KFlatMap {
			flatMaps++
		}
		if s.FailMod > 0 {
			failing++
		}
		c.Stages = append(c.Stages, s)
	}
	c.Fusion = rapid.SampledFrom([]int{c45FuseDefault, c45FuseStateless, c45FuseNone, c45FuseNone, c45FuseAggressive}).Draw(t, "fusion")
	if c.Fusion == c45FuseAggressive {
		// The documentation of FuseAggressive ("including those with buffering") leaves open
		// whether a Buffer joins a fused run; keep per-stage error strategies away from it.
		for i := range c.Stages {
			if c.Stages[i].K != c45KTryMap || c.Stages[i].Strat == c45StratFailFast {
				continue
			}
			if (i > 0 && c.Stages[i-1].K == c45KBuffer) || (i+1 < len(c.Stages) && c.Stages[i+1].K == c45KBuffer) {
				c.Stages[i].Strat = c45StratFailFast
				c.Stages[i].FailTimes = 0
				c.Stages[i].MaxAttempts = 0
			}
		}
	}
	if rapid.IntRange(0, 3).Draw(t, "final_batch") == 0 {
		c.FinalBatchN = rapid.SampledFrom([]int{1, 1, 2, 3, 5, 16, 64, 224, 1000}).Draw(t, "final_batch_n")
		c.FinalWaitUs = rapid.SampledFrom([]int{50, 1000, 20000, 5000000}).Draw(t, "final_wait_us")
		c.Sink = rapid.SampledFrom([]int{c45SinkCollect, c45SinkForEach}).Draw(t, "sink_b")
	} else {
		c.Sink = rapid.IntRange(0, 2).Draw(t, "sink")
	}
	if c.Sink == c45SinkForEach {
		c.SinkDelayUs = rapid.SampledFrom([]int{0, 0, 1, 20, 100}).Draw(t, "sink_delay_us")
	}
	c.Rerun = rapid.IntRange(0, 4).Draw(t, "rerun") == 0
	c45AvoidKnown(&c)
	return c
}

// ---- reference: the same grammar over Go slices ---------------------------------

func c45Mod(x, m int64) int64 {
	r := x % m
	if r < 0 {
		r += m
	}
	return r
}

func c45Keep(s c45Stage, x int64) bool {
	switch s.Variant {
	case 1:
		return x < s.B
	case 2:
		return x >= s.B
	}
	return c45Mod(x, s.A) != s.B
}

func c45Abs(x int64) int64 {
	if x == -1<<63 {
		// -x wraps back to MinInt64 (Scan accumulators do overflow): a negative "count" would make
		// the harness's own stage functions panic, which is not a property of the streams package
		return 1<<63 - 1
	}
	if x < 0 {
		return -x
	}
	return x
}

func c45FirstFusable(s c45Stage) bool {
	return s.K == c45KMap || s.K == c45KTryMap || s.K == c45KFilter || (s.K == c45KFlatMap && s.Variant == 1)
}

func c45LastFusable(s c45Stage) bool {
	return s.K == c45KMap || s.K == c45KTryMap || s.K == c45KFilter
}

// c45InFusedRun reports whether stage i (a TryMap) is part of a run of >= 2 adjacent
// stateless stages that the graph fuses (REACTIVE_STREAMS.md §6.4: "A fused run ...
// always fails fast: per-stage ErrorStrategy, retry ... do not apply").
func c45InFusedRun(c *c45Case, i int) bool {
	if c.Fusion == c45FuseNone {
		return false
	}
	if i > 0 && c45LastFusable(c.Stages[i-1]) {
		return true
	}
	if i+1 < len(c.Stages) && c45FirstFusable(c.Stages[i+1]) {
		return true
	}
	return false
}

type c45Expect struct {
	inLen     []int // number of elements entering stage i (list semantics)
	out       []int64
	ordered   bool
	errStages []int // stages whose failure may be the terminal error (empty: normal completion)
	fusedOver bool  // a fused run overrode a Resume/Retry strategy
}

func c45InputOf(c *c45Case) []int64 {
	if c.Source == c45SrcRange {
		in := make([]int64, c.Len)
		for i := range in {
			in[i] = c.Start + int64(i)
		}
		return in
	}
	return c.Input
}

func c45Interpret(c *c45Case) c45Expect {
	e := c45Expect{ordered: true}
	cur := append([]int64(nil), c45InputOf(c)...)
	for i, s := range c.Stages {
		next := make([]int64, 0, len(cur))
		e.inLen = append(e.inLen, len(cur))
		switch s.K {
		case c45KMap, c45KOrderedPar, c45KPar:
			for _, x := range cur {
				next = append(next, x*s.A+s.B)
			}
			if s.K == c45KPar {
				e.ordered = false
			}
		case c45KTryMap:
			fused := c45InFusedRun(c, i)
			for _, x := range cur {
				if s.FailMod > 0 && c45Mod(x, s.FailMod) == s.FailRem {
					strat := s.Strat
					if fused {
						if strat != c45StratFailFast {
							e.fusedOver = true
						}
						strat = c45StratFailFast
					}
					if strat == c45StratResume {
						continue // the offending element is skipped
					}
					if strat == c45StratRetry && s.FailTimes > 0 && s.FailTimes < s.MaxAttempts {
						next = append(next, x*s.A+s.B) // succeeds on a retry
						continue
					}
					e.errStages = append(e.errStages, i)
					break
				}
				next = append(next, x*s.A+s.B)
			}
		case c45KFilter:
			for _, x := range cur {
				if c45Keep(s, x) {
					next = append(next, x)
				}
			}
		case c45KFlatMap:
			for _, x := range cur {
				k := c45Abs(x) % int64(s.N+1)
				for j := int64(0); j < k; j++ {
					next = append(next, x+j)
				}
			}
		case c45KBatchFlat, c45KBuffer:
			next = append(next, cur...)
		case c45KScan:
			acc := s.B
			for _, x := range cur {
				acc = acc*s.A + x
				next = append(next, acc)
			}
		case c45KDedup:
			for j, x := range cur {
				if j == 0 || cur[j-1] != x {
					next = append(next, x)
				}
			}
		}
		cur = next
	}
	e.out = cur
	return e
}

// ---- running against the real package ------------------------------------------

type c45StageErr struct{ stage int }

func (e *c45StageErr) Error() string { return "c45: stage " + strconv.Itoa(e.stage) + " failed" }

var (
	c45Events      eventstream.Subscriber
	c45System      actor.ActorSystem
	c45QuietWindow = 4 * time.Second   // no counter of any stage moved for this long: one strike
	c45OverallCap  = 120 * time.Second // still progressing after this long: inconclusive, never a strike
)

type c45Fold struct {
	N int
	H int64 // order-sensitive
	S int64 // order-insensitive
}

func c45FoldStep(f c45Fold, x int64) c45Fold {
	return c45Fold{N: f.N + 1, H: f.H*1000003 + x, S: f.S + x*x + 7*x}
}

type c45Sleeper struct{ left atomic.Int64 }

func (s *c45Sleeper) pause(us int, x int64) {
	if us <= 0 {
		return
	}
	k := int(c45Abs(x) % 3)
	if k == 0 {
		runtime.Gosched()
		return
	}
	if s.left.Add(-1) < 0 {
		return
	}
	time.Sleep(time.Duration(us*k) * time.Microsecond)
}

type c45Run struct {
	timedOut  bool
	quiet     bool   // timed out because no stage counter moved for a whole quiet window
	stalled   string // name of the stage a timed-out stream is stuck at
	skipped   bool   // the run hit a listed known finding that makes it undecidable
	err       error
	items     []int64   // flattened elements seen by the sink (Collect / ForEach)
	batches   [][]int64 // when the program ends in Batch
	fold      c45Fold
	changed   bool // sink content changed after Done was closed
	actors    []actor.Actor
	pids      []*actor.PID
	stallDiag string
}

// diag renders the internal ledgers of the stage actors (diagnostics only).
func (r *c45Run) diag() string {
	out := ""
	for i, a := range r.actors {
		switch v := a.(type) {
		case *flowActor:
			out += fmt.Sprintf(" [%d flow in=%d out=%d credit=%d demand=%d buf=%d completing=%v]", i, v.metrics.elementsIn.Load(), v.metrics.elementsOut.Load(), v.upstreamCredit, v.downstreamDemand, v.outputBuf.len(), v.completing)
		case *batchFlowActor[int64]:
			out += fmt.Sprintf(" [%d batch in=%d out=%d credit=%d demand=%d window=%d]", i, v.metrics.elementsIn.Load(), v.metrics.elementsOut.Load(), v.upstreamCredit, v.downstreamDemand, len(v.window))
		case *parallelMapActor[int64, int64]:
			out += fmt.Sprintf(" [%d par inFlight=%d inSeq=%d outSeq=%d pending=%d upstreamDone=%v]", i, v.inFlight, v.inputSeqNo, v.outSeqNo, len(v.pending), v.upstreamDone)
		case *sinkActor:
			out += fmt.Sprintf(" [%d sink in=%d credit=%d termErr=%v]", i, v.metrics.elementsIn.Load(), v.credit, v.termErr)
		case *pullSourceActor:
			out += fmt.Sprintf(" [%d pullSource seq=%d]", i, v.seqNo)
		default:
			out += fmt.Sprintf(" [%d %T]", i, a)
		}
	}
	for i, p := range r.pids {
		out += fmt.Sprintf(" pid%d:running=%v", i, p.IsRunning())
	}
	return out
}

// c45Build assembles the Source[int64] of the program (everything but trailing Batch and sink).
func c45Build(c *c45Case, errs []*c45StageErr, sl *c45Sleeper, stop chan struct{}) Source[int64] {
	var src Source[int64]
	switch c.Source {
	case c45SrcOf:
		src = Of(c.Input...)
	case c45SrcRange:
		src = Range(c.Start, c.Start+int64(c.Len))
	case c45SrcChanFull:
		ch := make(chan int64, len(c.Input)+1)
		for _, v := range c.Input {
			ch <- v
		}
		close(ch)
		src = FromChannel[int64](ch)
	default:
		ch := make(chan int64)
		in := c.Input
		chunk := c.ChunkLen
		if chunk < 1 {
			chunk = 1
		}
		go func() {
			defer close(ch)
			for i, v := range in {
				select {
				case ch <- v:
				case <-stop:
					return
				}
				if (i+1)%chunk == 0 {
					runtime.Gosched()
				}
			}
		}()
		src = FromChannel[int64](ch)
	}
	for i, st := range c.Stages {
		s := st
		switch s.K {
		case c45KMap:
			src = src.Via(Map(func(x int64) int64 { return x*s.A + s.B }))
		case c45KTryMap:
			serr := errs[i]
			var consec atomic.Int64
			f := TryMap(func(x int64) (int64, error) {
				if s.FailMod > 0 && c45Mod(x, s.FailMod) == s.FailRem {
					if s.FailTimes == 0 {
						return 0, serr
					}
					if consec.Load() < int64(s.FailTimes) {
						consec.Add(1)
						return 0, serr
					}
					consec.Store(0)
				}
				return x*s.A + s.B, nil
			})
			switch s.Strat {
			case c45StratResume:
				f = f.WithErrorStrategy(Resume)
			case c45StratRetry:
				f = f.WithErrorStrategy(Retry).WithRetryConfig(RetryConfig{MaxAttempts: s.MaxAttempts})
			}
			src = src.Via(f)
		case c45KFilter:
			src = src.Via(Filter(func(x int64) bool { return c45Keep(s, x) }))
		case c45KFlatMap:
			expand := func(x int64) []int64 {
				k := c45Abs(x) % int64(s.N+1)
				out := make([]int64, 0, k)
				for j := int64(0); j < k; j++ {
					out = append(out, x+j)
				}
				return out
			}
			if s.Variant == 0 {
				src = src.Via(FlatMap(expand))
			} else {
				src = Via(Via(src, Map(expand)), Flatten[int64]())
			}
		case c45KBatchFlat:
			src = Via(Via(src, Batch[int64](s.N, time.Duration(s.WaitUs)*time.Microsecond)), Flatten[int64]())
		case c45KScan:
			src = src.Via(Scan(s.B, func(acc, x int64) int64 { return acc*s.A + x }))
		case c45KDedup:
			src = src.Via(Deduplicate[int64]())
		case c45KBuffer:
			src = src.Via(Buffer[int64](s.N, BackpressureSource))
		case c45KOrderedPar:
			src = src.Via(OrderedParallelMap(s.N, func(x int64) int64 { sl.pause(s.DelayUs, x); return x*s.A + s.B }))
		case c45KPar:
			src = src.Via(ParallelMap(s.N, func(x int64) int64 { sl.pause(s.DelayUs, x); return x*s.A + s.B }))
		}
	}
	return src
}

func c45WithFusion(g RunnableGraph, mode int) RunnableGraph {
	switch mode {
	case c45FuseStateless:
		return g.WithFusion(FuseStateless)
	case c45FuseNone:
		return g.WithFusion(FuseNone)
	case c45FuseAggressive:
		return g.WithFusion(FuseAggressive)
	}
	return g
}

// c45Reap stops the coordinators of every stream materialized since `from`
// (they are long-lived and never stopped by a completed stream).
func c45Reap(from uint64) {
	ctx := context.Background()
	to := atomic.LoadUint64(&streamSeq)
	for id := from + 1; id <= to; id++ {
		if pid, err := c45System.ActorOf(ctx, "stream-supervisor-"+strconv.FormatUint(id, 10)); err == nil && pid != nil {
			_ = pid.Shutdown(ctx)
		}
	}
}

// ---- stage mailboxes ------------------------------------------------------------
//
// Every stage actor gets the default mailbox of the materializer
// (actor.NewBoundedMailbox(BufferSize*2)) behind a thin wrapper. The wrapper
// delegates everything; it only records what is left in the ring when the actor
// disposes it and how often the dispatcher keeps polling it afterwards. That is
// the deterministic signature of the runtime defect
// "stage-self-stop-with-queued-messages-livelock" (see FINDINGS.md). While that
// finding is listed as known the wrapper additionally reports "empty" once
// disposed, which is the minimal masking that lets the search continue behind it.

const c45FpLivelock = "stage-self-stop-with-queued-messages-livelock"

type c45Mailbox struct {
	inner    *actor.BoundedMailbox
	mask     bool
	disposed atomic.Bool
	leftover atomic.Int64
	polls    atomic.Int64 // Dequeue calls after Dispose
}

func (m *c45Mailbox) Enqueue(msg *actor.ReceiveContext) error { return m.inner.Enqueue(msg) }

func (m *c45Mailbox) Dequeue() *actor.ReceiveContext {
	if m.disposed.Load() {
		m.polls.Add(1)
		if m.mask {
			return nil
		}
	}
	return m.inner.Dequeue()
}

func (m *c45Mailbox) IsEmpty() bool {
	if m.mask && m.disposed.Load() {
		return true
	}
	return m.inner.IsEmpty()
}

func (m *c45Mailbox) Len() int64 {
	if m.mask && m.disposed.Load() {
		return 0
	}
	return m.inner.Len()
}

func (m *c45Mailbox) Dispose() {
	m.leftover.Store(m.inner.Len())
	m.disposed.Store(true)
	m.inner.Dispose()
}

// c45Harden returns the graph with one fresh wrapped default mailbox per stage.
func c45Harden(g RunnableGraph, mask bool, rec *[]actor.Actor) (RunnableGraph, []*c45Mailbox) {
	var boxes []*c45Mailbox
	st := make([]*stage, len(g.stages))
	for i, s := range g.stages {
		cp := *s
		if rec != nil {
			orig := s.actorFn
			cp.actorFn = func(cfg StageConfig) actor.Actor {
				a := orig(cfg)
				*rec = append(*rec, a)
				return a
			}
		}
		if cp.config.Mailbox == nil && cp.config.BufferSize > 0 {
			mb := &c45Mailbox{inner: actor.NewBoundedMailbox(cp.config.BufferSize * 2), mask: mask}
			cp.config.Mailbox = mb
			boxes = append(boxes, mb)
		}
		st[i] = &cp
	}
	g.stages = st
	return g, boxes
}

// c45Livelocked reports a stage whose disposed mailbox still holds messages and
// is polled by the dispatcher without end.
func c45Livelocked(boxes []*c45Mailbox) (int, int64, bool) {
	for i, mb := range boxes {
		if !mb.disposed.Load() || mb.leftover.Load() == 0 || mb.mask {
			continue
		}
		p0 := mb.polls.Load()
		time.Sleep(3 * time.Millisecond)
		p1 := mb.polls.Load()
		time.Sleep(3 * time.Millisecond)
		p2 := mb.polls.Load()
		if p2 > p1 && p1 > p0 && p2 > 2000 {
			return i, mb.leftover.Load(), true
		}
	}
	return 0, 0, false
}

// c45StageGroups names the stage actors of the materialized graph in pipeline order
// (source first, sink last), fused runs joined with "+".
func c45StageGroups(c *c45Case) []string {
	type atom struct {
		name string
		fuse bool
	}
	atoms := []atom{{"Source", false}}
	for _, s := range c.Stages {
		switch s.K {
		case c45KMap, c45KTryMap, c45KFilter:
			atoms = append(atoms, atom{c45KindNames[s.K], true})
		case c45KFlatMap:
			if s.Variant == 1 {
				atoms = append(atoms, atom{"Map", true}, atom{"Flatten", false})
			} else {
				atoms = append(atoms, atom{"FlatMap", false})
			}
		case c45KBatchFlat:
			atoms = append(atoms, atom{"Batch", false}, atom{"Flatten", false})
		default:
			atoms = append(atoms, atom{c45KindNames[s.K], false})
		}
	}
	if c.FinalBatchN > 0 {
		atoms = append(atoms, atom{"Batch", false})
	}
	atoms = append(atoms, atom{"Sink", false})
	var out []string
	for i := 0; i < len(atoms); {
		j := i + 1
		if c.Fusion != c45FuseNone && atoms[i].fuse {
			for j < len(atoms) && atoms[j].fuse {
				j++
			}
		}
		name := atoms[i].name
		for k := i + 1; k < j; k++ {
			name += "+" + atoms[k].name
		}
		out = append(out, name)
		i = j
	}
	return out
}

// c45StalledStage names the stage at which a stalled stream is stuck. Preferred
// evidence is the demand ledger: the most downstream flow stage that is alive, holds no
// output, has not seen upstream completion and has no credit outstanding is the one that
// stopped asking. Fallback: the first stage that is still alive, or - when the source
// itself is still waiting for demand - the stage right behind it.
func c45StalledStage(c *c45Case, pids []*actor.PID, actors []actor.Actor) string {
	names := c45StageGroups(c)
	if len(names) != len(pids) || len(pids) < 2 {
		return "unknown"
	}
	// captured actor instances exist for unfused stages only, in pipeline order
	byGroup := make([]actor.Actor, len(names))
	k := 0
	for i, n := range names {
		if strings.Contains(n, "+") {
			continue
		}
		if k < len(actors) {
			byGroup[i] = actors[k]
			k++
		}
	}
	if k == len(actors) {
		for i := len(names) - 2; i >= 1; i-- {
			if pids[i] == nil || !pids[i].IsRunning() {
				continue
			}
			switch v := byGroup[i].(type) {
			case *flowActor:
				if v.upstreamCredit <= 0 && v.outputBuf.empty() && !v.completing {
					return names[i]
				}
			case *batchFlowActor[int64]:
				if v.upstreamCredit <= 0 && len(v.window) == 0 {
					return names[i]
				}
			}
		}
	}
	for i, p := range pids {
		if p != nil && p.IsRunning() {
			if i == 0 {
				i = 1
			}
			return names[i]
		}
	}
	return "unknown"
}

// c45Progress renders every observable counter of the running stream: the demand
// ledgers and element counters of the stage actors and what the sink has seen.
func c45Progress(actors []actor.Actor, snapshot func() ([]int64, [][]int64), fold *FoldResult[c45Fold]) string {
	var b strings.Builder
	for _, a := range actors {
		switch v := a.(type) {
		case *flowActor:
			fmt.Fprintf(&b, "f%d/%d/%d/%d/%d;", v.metrics.elementsIn.Load(), v.metrics.elementsOut.Load(), v.upstreamCredit, v.downstreamDemand, v.outputBuf.len())
		case *batchFlowActor[int64]:
			fmt.Fprintf(&b, "b%d/%d/%d/%d/%d;", v.metrics.elementsIn.Load(), v.metrics.elementsOut.Load(), v.upstreamCredit, v.downstreamDemand, len(v.window))
		case *parallelMapActor[int64, int64]:
			fmt.Fprintf(&b, "p%d/%d/%d/%d;", v.inFlight, v.inputSeqNo, v.outSeqNo, len(v.pending))
		case *sinkActor:
			fmt.Fprintf(&b, "s%d/%d;", v.metrics.elementsIn.Load(), v.credit)
		case *pullSourceActor:
			fmt.Fprintf(&b, "o%d;", v.seqNo)
		case *chanSourceActor[int64]:
			fmt.Fprintf(&b, "c%d/%d/%d;", v.seqNo, v.demand, v.buf.len())
		}
	}
	it, bt := snapshot()
	fmt.Fprintf(&b, "k%d/%d;", len(it), len(bt))
	if fold != nil {
		fold.mu.Lock()
		fmt.Fprintf(&b, "F%d", fold.value.N)
		fold.mu.Unlock()
	}
	return b.String()
}

// c45DrainPanics returns the suspension reasons of stream stage actors published on
// the actor system's event stream since the last call. No stage function of the
// grammar panics, so a suspended stage actor is a defect of the stream runtime.
func c45DrainPanics() []string {
	var out []string
	if c45Events == nil {
		return nil
	}
	for m := range c45Events.Iterator() {
		if ev, ok := m.Payload().(*actor.ActorSuspended); ok && strings.HasPrefix(ev.ActorPath().Name(), "stream-") {
			reason := ev.Reason()
			if len(reason) > 160 {
				reason = reason[:160]
			}
			out = append(out, ev.ActorPath().Name()+": "+reason)
		}
	}
	return out
}

// c45WireRace handles a run in which a stage actor panicked. Every observed instance
// is the materializer's wiring race (traffic from an eagerly pulling stage reaches a
// stage before its stageWire; the stage dereferences a nil neighbour PID).
func c45WireRace(x *vfkit.X, c *c45Case, what string, stalled bool) {
	fp := "stage-actor-panic"
	if strings.Contains(what, "nil pointer") || strings.Contains(what, "index out of range") || strings.Contains(what, "wire stage") {
		fp = c45FpWireRace
	}
	if x.Known(fp) {
		x.Class("known:" + fp)
		if stalled {
			x.Class("known:" + fp + ":stall")
		}
		return
	}
	x.Failf(fp, "%s (program %s, fusion %d)", what, c45Shape(c), c.Fusion)
}

func c45Execute(x *vfkit.X, c *c45Case, src Source[int64], sl *c45Sleeper) c45Run {
	var r c45Run
	ctx := context.Background()
	var mu sync.Mutex
	var seen []int64
	var seenB [][]int64
	snapshot := func() ([]int64, [][]int64) { return nil, nil }
	var g RunnableGraph
	var foldRes *FoldResult[c45Fold]

	if c.FinalBatchN > 0 {
		bsrc := Via(src, Batch[int64](c.FinalBatchN, time.Duration(c.FinalWaitUs)*time.Microsecond))
		if c.Sink == c45SinkCollect {
			col, sink := Collect[[]int64]()
			g = bsrc.To(sink)
			snapshot = func() ([]int64, [][]int64) {
				col.mu.Lock()
				defer col.mu.Unlock()
				return nil, append([][]int64(nil), col.items...)
			}
		} else {
			g = bsrc.To(ForEach(func(b []int64) {
				if len(b) > 0 {
					sl.pause(c.SinkDelayUs, b[0])
				}
				mu.Lock()
				seenB = append(seenB, b)
				mu.Unlock()
			}))
			snapshot = func() ([]int64, [][]int64) {
				mu.Lock()
				defer mu.Unlock()
				return nil, append([][]int64(nil), seenB...)
			}
		}
	} else {
		switch c.Sink {
		case c45SinkCollect:
			col, sink := Collect[int64]()
			g = src.To(sink)
			snapshot = func() ([]int64, [][]int64) {
				col.mu.Lock()
				defer col.mu.Unlock()
				return append([]int64(nil), col.items...), nil
			}
		case c45SinkFold:
			res, sink := Fold(c45Fold{}, c45FoldStep)
			foldRes = res
			g = src.To(sink)
		default:
			g = src.To(ForEach(func(v int64) {
				sl.pause(c.SinkDelayUs, v)
				mu.Lock()
				seen = append(seen, v)
				mu.Unlock()
			}))
			snapshot = func() ([]int64, [][]int64) {
				mu.Lock()
				defer mu.Unlock()
				return append([]int64(nil), seen...), nil
			}
		}
	}
	g = c45WithFusion(g, c.Fusion)
	var actors []actor.Actor
	g, boxes := c45Harden(g, x.Known(c45FpLivelock), &actors)

	from := atomic.LoadUint64(&streamSeq)
	c45DrainPanics()
	h, err := g.Run(ctx, c45System)
	if err != nil {
		c45Reap(from)
		if strings.Contains(err.Error(), "wire stage") {
			time.Sleep(time.Millisecond)
			c45WireRace(x, c, fmt.Sprintf("RunnableGraph.Run of a valid graph failed: %v; stage panics: %s", err, strings.Join(c45DrainPanics(), " | ")), false)
			r.skipped = true
			return r
		}
		x.Failf("run-error", "RunnableGraph.Run failed: %v", err)
	}
	defer c45Reap(from)
	started := time.Now()
	lastChange, lastSig := started, ""
	tick := time.NewTicker(300 * time.Millisecond)
	var panics []string
	panicPolls := 0
wait:
	for {
		select {
		case <-h.Done():
			break wait
		case <-tick.C:
			panics = append(panics, c45DrainPanics()...)
			if len(panics) > 0 {
				// a stage actor panicked and was stopped by its supervisor: nothing will
				// ever close Done() unless that stage was the sink
				if panicPolls++; panicPolls >= 3 {
					r.timedOut = true
					break wait
				}
			}
			// progress-based stall detection: a strike needs a whole window without any
			// change of any stage counter or of what the sink has seen; a stream that is
			// merely slow keeps waiting up to the (inconclusive) overall cap
			if sig := c45Progress(actors, snapshot, foldRes); sig != lastSig {
				lastSig, lastChange = sig, time.Now()
			}
			if time.Since(lastChange) > c45QuietWindow {
				r.timedOut, r.quiet = true, true
				break wait
			}
			if time.Since(started) > c45OverallCap {
				r.timedOut = true
				break wait
			}
		}
	}
	tick.Stop()
	if r.timedOut {
		if dir := os.Getenv("C45_STACKS"); dir != "" {
			buf := make([]byte, 1<<22)
			buf = buf[:runtime.Stack(buf, true)]
			_ = os.WriteFile(dir+"/stall-stacks.txt", buf, 0o644)
		}
		if impl, ok := h.(*streamHandleImpl); ok {
			r.stalled = c45StalledStage(c, impl.stageActors, actors)
			r.pids = impl.stageActors
			r.actors = actors
			r.stallDiag = r.diag()
		}
	}
	panics = append(panics, c45DrainPanics()...)
	if len(panics) > 0 {
		how := "the stream completed 'normally' (Err()==nil) with whatever the sink had consumed"
		if r.timedOut {
			how = "Done() never closes"
			h.Abort()
		} else if h.Err() != nil {
			how = fmt.Sprintf("the stream ended with %v", h.Err())
		}
		c45WireRace(x, c, fmt.Sprintf("%s; stage panics: %s", how, strings.Join(panics, " | ")), r.timedOut)
		r.skipped = true
		return r
	}
	if r.timedOut {
		h.Abort()
		select {
		case <-h.Done():
		case <-time.After(5 * time.Second):
		}
		time.Sleep(2 * time.Millisecond)
	} else {
		r.err = h.Err()
	}
	if idx, left, bad := c45Livelocked(boxes); bad {
		x.Failf(c45FpLivelock, "stage #%d of the graph (0 = source) stopped itself with %d message(s) still in its BoundedMailbox; the dispatcher keeps polling the disposed mailbox forever (IsEmpty()==false, Dequeue()==nil) and the worker never returns (program %s, timed out: %v)", idx, left, c45Shape(c), r.timedOut)
	}
	r.actors = actors
	if impl, ok := h.(*streamHandleImpl); ok {
		r.pids = impl.stageActors
	}
	r.items, r.batches = snapshot()
	if foldRes != nil {
		foldRes.mu.Lock()
		r.fold = foldRes.value
		foldRes.mu.Unlock()
	}
	if !r.timedOut {
		// "Done() closes once and the collected items do not change afterwards"
		runtime.Gosched()
		time.Sleep(200 * time.Microsecond)
		i2, b2 := snapshot()
		if len(i2) != len(r.items) || len(b2) != len(r.batches) {
			r.changed = true
		}
		if foldRes != nil {
			foldRes.mu.Lock()
			if foldRes.value != r.fold {
				r.changed = true
			}
			foldRes.mu.Unlock()
		}
		// the documented accessors agree with what the sink saw
		if foldRes != nil {
			if v := foldRes.Value(); v != r.fold {
				r.changed = true
			}
		}
	}
	return r
}

// ---- oracle ---------------------------------------------------------------------

func c45Multiset(xs []int64) map[int64]int {
	m := make(map[int64]int, len(xs))
	for _, v := range xs {
		m[v]++
	}
	return m
}

// c45SubMultiset reports the first value that occurs more often in got than in want.
func c45SubMultiset(got, want []int64) (int64, bool) {
	w := c45Multiset(want)
	keys := make([]int64, 0)
	g := c45Multiset(got)
	for k := range g {
		keys = append(keys, k)
	}
	sort.Slice(keys, func(i, j int) bool { return keys[i] < keys[j] })
	for _, k := range keys {
		if g[k] > w[k] {
			return k, false
		}
	}
	return 0, true
}

func c45Head(xs []int64, n int) string {
	if len(xs) <= n {
		return fmt.Sprint(xs)
	}
	return fmt.Sprint(xs[:n]) + fmt.Sprintf("…(+%d)", len(xs)-n)
}

func c45Shape(c *c45Case) string {
	s := ""
	for _, st := range c.Stages {
		s += c45KindNames[st.K][:3] + ">"
	}
	if c.FinalBatchN > 0 {
		s += "Batch>"
	}
	return s
}

func c45Judge(x *vfkit.X, c *c45Case, e *c45Expect, r *c45Run, errs []*c45StageErr, tag string) {
	got := r.items
	if c.FinalBatchN > 0 {
		got = got[:0:0]
		for bi, b := range r.batches {
			if len(b) == 0 {
				x.Failf("batch-empty", "%s: final Batch(%d) emitted an empty batch at position %d", tag, c.FinalBatchN, bi)
			}
			if len(b) > c.FinalBatchN {
				fp := "batch-exceeds-n"
				if c45BatchExposed(c, e, len(c.Stages)) {
					fp = c45FpBatchOversize
				}
				x.Failf(fp, "%s: final Batch(%d) emitted a batch of %d elements at position %d (program %s)", tag, c.FinalBatchN, len(b), bi, c45Shape(c))
			}
			got = append(got, b...)
		}
	}
	isFold := c.FinalBatchN == 0 && c.Sink == c45SinkFold
	partial := r.timedOut || len(e.errStages) > 0

	if r.changed {
		x.Failf("sink-changes-after-done", "%s: sink content changed after Done() was closed", tag)
	}
	if !r.timedOut {
		if len(e.errStages) == 0 && r.err != nil {
			fp := "unexpected-stream-error"
			for i, st := range c.Stages {
				if st.K == c45KTryMap && st.Strat == c45StratRetry && st.FailTimes > 0 && errors.Is(r.err, errs[i]) {
					fp = c45FpRetryChain
				}
			}
			x.Failf(fp, "%s: stream ended with error %v but no stage fails in the list semantics (program %s)", tag, r.err, c45Shape(c))
		}
		if len(e.errStages) > 0 {
			if r.err == nil {
				fp := "stage-error-lost"
				if e.fusedOver {
					fp = "stage-error-lost-in-fused-run"
				}
				x.Failf(fp, "%s: a stage fails (candidates %v) but the stream completed with Err()==nil; sink saw %d elements (program %s)", tag, e.errStages, len(got), c45Shape(c))
			}
			ok := false
			for _, si := range e.errStages {
				if errors.Is(r.err, errs[si]) {
					ok = true
				}
			}
			if !ok {
				x.Failf("wrong-stream-error", "%s: stream ended with %v, want the error of one of stages %v", tag, r.err, e.errStages)
			}
		}
	}

	if isFold {
		n := r.fold.N
		if n > len(e.out) || (!partial && n != len(e.out)) {
			fp := "fold-wrong-count"
			if n < len(e.out) && c45AnyBatchExposed(c, e) {
				fp = c45FpBatchDrop
			}
			x.Failf(fp, "%s: Fold saw %d elements, list semantics gives %d (partial allowed: %v; program %s)", tag, n, len(e.out), partial, c45Shape(c))
		}
		if e.ordered {
			want := c45Fold{}
			for _, v := range e.out[:n] {
				want = c45FoldStep(want, v)
			}
			if want != r.fold {
				x.Failf("fold-wrong-value", "%s: Fold over %d elements = %+v, list semantics gives %+v (program %s)", tag, n, r.fold, want, c45Shape(c))
			}
		} else if !partial {
			want := c45Fold{}
			for _, v := range e.out {
				want = c45FoldStep(want, v)
			}
			if want.S != r.fold.S {
				x.Failf("fold-wrong-multiset", "%s: order-insensitive Fold = %d, list semantics gives %d (program %s)", tag, r.fold.S, want.S, c45Shape(c))
			}
		}
		return
	}

	if e.ordered {
		lim := len(got)
		if lim > len(e.out) {
			lim = len(e.out)
		}
		for i := 0; i < lim; i++ {
			if got[i] != e.out[i] {
				fp := "wrong-element"
				if i > 0 && i < len(got) {
					// classify: reordering vs. loss vs. foreign value
					if _, ok := c45SubMultiset(got, e.out); ok {
						fp = "elements-reordered-or-dropped"
					}
				}
				x.Failf(fp, "%s: element %d is %d, list semantics gives %d; got %s want %s (program %s, fusion %d)", tag, i, got[i], e.out[i], c45Head(got[i:], 8), c45Head(e.out[i:], 8), c45Shape(c), c.Fusion)
			}
		}
		if len(got) > len(e.out) {
			x.Failf("extra-elements", "%s: sink saw %d elements, list semantics gives %d; extra %s (program %s)", tag, len(got), len(e.out), c45Head(got[len(e.out):], 8), c45Shape(c))
		}
		if !partial && len(got) < len(e.out) {
			fp := "missing-tail"
			if c45AnyBatchExposed(c, e) {
				fp = c45FpBatchDrop
			}
			x.Failf(fp, "%s: stream completed normally after %d of %d elements; missing %s (program %s, fusion %d)%s", tag, len(got), len(e.out), c45Head(e.out[len(got):], 8), c45Shape(c), c.Fusion, r.diag())
		}
		return
	}
	if v, ok := c45SubMultiset(got, e.out); !ok {
		x.Failf("wrong-multiset", "%s: value %d occurs more often than in the list semantics (got %d elements, want %d; program %s)", tag, v, len(got), len(e.out), c45Shape(c))
	}
	if !partial && len(got) != len(e.out) {
		fp := "missing-elements-unordered"
		if c45AnyBatchExposed(c, e) {
			fp = c45FpBatchDrop
		}
		x.Failf(fp, "%s: stream completed normally with %d of %d elements (program %s, fusion %d)", tag, len(got), len(e.out), c45Shape(c), c.Fusion)
	}
}

func c45Exec(x *vfkit.X, c c45Case) {
	e := c45Interpret(&c)
	stateful, parallel := false, false
	for _, s := range c.Stages {
		x.Class("stage:" + c45KindNames[s.K])
		switch s.K {
		case c45KScan, c45KDedup, c45KBatchFlat:
			stateful = true
		case c45KOrderedPar, c45KPar:
			parallel = true
		}
		if s.K == c45KTryMap && s.FailMod > 0 {
			x.Class("trymap-fails:strat" + strconv.Itoa(s.Strat))
		}
	}
	if c.FinalBatchN > 0 {
		stateful = true
		x.Class("final-batch")
	}
	x.Class("source:" + strconv.Itoa(c.Source))
	x.Class("sink:" + strconv.Itoa(c.Sink))
	x.Class("fusion:" + strconv.Itoa(c.Fusion))
	if len(e.errStages) > 0 {
		x.Class("expects-error")
	}
	if e.fusedOver {
		x.Class("fused-run-overrides-strategy")
	}
	if !e.ordered {
		x.Class("unordered")
	}
	if c45AnyBatchExposed(&c, &e) {
		x.Class("batch-exposed-to-demand-exhaustion")
	}
	switch n := len(e.out); {
	case n == 0:
		x.Class("out:0")
	case n <= 64:
		x.Class("out:1-64")
	case n <= 224:
		x.Class("out:65-224")
	default:
		x.Class("out:>224")
	}
	nStages := len(c.Stages)
	if c.FinalBatchN > 0 {
		nStages++
	}
	if nStages >= 3 && (stateful || parallel) && len(c45InputOf(&c)) >= 10 {
		x.NonTrivial()
	}

	hasRetry := false
	for _, s := range c.Stages {
		if s.K == c45KTryMap && s.Strat == c45StratRetry {
			hasRetry = true
		}
	}
	runs := 1
	if c.Rerun && !hasRetry && (c.Source == c45SrcOf || c.Source == c45SrcRange) {
		runs = 2
		x.Class("rerun-same-description")
	}
	errs := make([]*c45StageErr, len(c.Stages))
	for i := range errs {
		errs[i] = &c45StageErr{stage: i}
	}
	sl := &c45Sleeper{}
	sl.left.Store(150)
	stop := make(chan struct{})
	defer close(stop)
	src := c45Build(&c, errs, sl, stop)
	for k := 0; k < runs; k++ {
		r := c45Execute(x, &c, src, sl)
		if r.skipped {
			return
		}
		if r.timedOut {
			// Three strikes: a stall is a verdict only when no counter of any stage moved for a
			// whole quiet window while Done() stayed open, and the identical program does the
			// same in two further executions with fresh stages, handles and functions; anything
			// less (a slow but progressing stream, scheduling luck, the sporadic wiring race)
			// stays inconclusive.
			strikes := 0
			if r.quiet {
				strikes = 1
			}
			for strikes >= 1 && strikes < 3 {
				errs2 := make([]*c45StageErr, len(c.Stages))
				for i := range errs2 {
					errs2[i] = &c45StageErr{stage: i}
				}
				sl2 := &c45Sleeper{}
				sl2.left.Store(150)
				stop2 := make(chan struct{})
				r2 := c45Execute(x, &c, c45Build(&c, errs2, sl2, stop2), sl2)
				close(stop2)
				if r2.skipped || !r2.quiet {
					break
				}
				strikes++
			}
			if strikes >= 3 {
				fp := "stream-never-completes:" + r.stalled
				if c45FloodDeadlockShape(&c, &e) {
					fp = c45FpFloodDeadlock
				}
				x.Failf(fp, "Done() stayed open and no stage counter moved for %v in 3 of 3 executions of the same program; the stream is stuck at stage %q after delivering %d of %d expected elements (program %s, fusion %d)%s", c45QuietWindow, r.stalled, len(r.items)+len(r.batches)+r.fold.N, len(e.out), c45Shape(&c), c.Fusion, r.stallDiag)
			}
			x.Class("inconclusive-timeout")
			if !r.quiet {
				x.Class("inconclusive-timeout:still-progressing-at-cap")
			}
			x.Class("inconclusive-timeout:" + c45Shape(&c))
			if os.Getenv("C45_DEBUG") != "" {
				b, _ := json.Marshal(c)
				fmt.Printf("C45-TIMEOUT run=%d got=%d want=%d case=%s\n", k+1, len(r.items)+len(r.batches), len(e.out), b)
			}
		}
		c45Judge(x, &c, &e, &r, errs, "run "+strconv.Itoa(k+1))
		if r.timedOut {
			return
		}
	}
}

func c45StartSystem(t *testing.T) {
	name := "vfc45-" + strconv.Itoa(os.Getpid())
	sys, err := actor.NewActorSystem(name, actor.WithLogger(log.DiscardLogger))
	if err != nil {
		t.Fatalf("actor system: %v", err)
	}
	if err := sys.Start(context.Background()); err != nil {
		t.Fatalf("actor system start: %v", err)
	}
	c45System = sys
	if sub, err := sys.Subscribe(); err == nil {
		c45Events = sub
	}
	t.Cleanup(func() { _ = sys.Stop(context.Background()) })
}

func c45ReplayReps() int {
	if n, err := strconv.Atoi(os.Getenv("C45_REPS")); err == nil && n > 0 {
		return n
	}
	return 20
}

func TestVF_C45_pipeline(t *testing.T) {
	c45StartSystem(t)
	vfkit.Run(t, vfkit.Spec[c45Case]{
		ID: "C45", Unit: "pipeline",
		Rule: "cases = source kind x int64 input (0..300, boundary-biased around the demand window) x 0..6 stages of the typed grammar (+ optional trailing Batch) x sink x fusion mode, judged against the slice interpreter; non-trivial = >=3 stages including a stateful (Scan/Deduplicate/Batch) or parallel stage and input length >= 10; distinct = distinct programs+inputs",
		Gen:  c45Gen, Exec: c45Exec,
		ReplayReps: c45ReplayReps(),
	})
}

//go:build verif

package stream

import (
	"context"
	"encoding/json"
	"fmt"
	"os"
	"runtime"
	"strconv"
	"testing"
	"time"

	"github.com/tochemey/goakt/v4/actor"
)

func TestVF_C45_dbg(t *testing.T) {
	c45StartSystem(t)
	var c c45Case
	if err := json.Unmarshal([]byte(os.Getenv("C45_CASE")), &c); err != nil {
		t.Fatal(err)
	}
	iters, _ := strconv.Atoi(os.Getenv("C45_ITERS"))
	n := 0
	for i := 0; i < iters; i++ {
		from := streamSeq
		errs := make([]*c45StageErr, len(c.Stages))
		for i := range errs {
			errs[i] = &c45StageErr{stage: i}
		}
		sl := &c45Sleeper{}
		sl.left.Store(150)
		stop := make(chan struct{})
		src := c45Build(&c, errs, sl, stop)
		var seen []int64
		g := src.To(ForEach(func(v int64) { sl.pause(c.SinkDelayUs, v); seen = append(seen, v) }))
		var actors []actor.Actor
		st := make([]*stage, len(g.stages))
		for j, s := range g.stages {
			cp := *s
			orig := s.actorFn
			cp.actorFn = func(cfg StageConfig) actor.Actor { a := orig(cfg); actors = append(actors, a); return a }
			st[j] = &cp
		}
		g.stages = st
		g = c45WithFusion(g, c.Fusion)
		g, _ = c45Harden(g, true, nil)
		h, err := g.Run(context.Background(), c45System)
		if err != nil {
			t.Fatal(err)
		}
		select {
		case <-h.Done():
		case <-time.After(3 * time.Second):
			n++
			fmt.Printf("iter %d stalled: seen=%d %v\n", i, len(seen), seen)
			impl := h.(*streamHandleImpl)
			for j, p := range impl.stageActors {
				fmt.Printf("  stage %d running=%v\n", j, p.IsRunning())
			}
			for _, a := range actors {
				switch v := a.(type) {
				case *parallelMapActor[int64, int64]:
					fmt.Printf("  par: inFlight=%d inputSeq=%d outSeq=%d nextEmit=%d pending=%d upstreamDone=%v\n", v.inFlight, v.inputSeqNo, v.outSeqNo, v.nextEmit, len(v.pending), v.upstreamDone)
					for _, p := range v.pending {
						fmt.Printf("    pending seq %d\n", p.seqNo)
					}
					for wi, w := range v.workers {
						fmt.Printf("    worker %d running=%v\n", wi, w.IsRunning())
					}
				case *flowActor:
					fmt.Printf("  flow: credit=%d demand=%d buf=%d completing=%v\n", v.upstreamCredit, v.downstreamDemand, v.outputBuf.len(), v.completing)
				case *completionWrapper:
					if s, ok := v.inner.(*sinkActor); ok {
						fmt.Printf("  sink: credit=%d\n", s.credit)
					}
				default:
					fmt.Printf("  %T\n", a)
				}
			}
			if n == 1 {
				buf := make([]byte, 1<<22)
				buf = buf[:runtime.Stack(buf, true)]
				os.WriteFile("/var/tmp/c45-dbg/stacks.txt", buf, 0o644)
			}
			h.Abort()
			if n > 2 {
				return
			}
		}
		close(stop)
		c45Reap(from)
	}
	fmt.Println("stalls:", n)
}

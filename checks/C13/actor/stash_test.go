//go:build verif

package actor

import (
	"context"
	"errors"
	"fmt"
	"sort"
	"sync"
	"sync/atomic"
	"testing"
	"time"

	"pgregory.net/rapid"

	gerrors "github.com/tochemey/goakt/v4/errors"
	"github.com/tochemey/goakt/v4/internal/vfkit"
	"github.com/tochemey/goakt/v4/log"
	"github.com/tochemey/goakt/v4/supervisor"
)

// ---- C13: stashed messages are neither lost, duplicated nor reordered ---------
//
// A real actor (spawned with or without WithStashing) receives a generated stream
// of numbered messages from up to four origins (system Tell, two actor senders,
// Ask). For every delivery of every message the case prescribes which of
// Stash / Unstash / UnstashAll the handler calls (through the public
// ReceiveContext API). The handler reports each delivery as an event; the driver
// replays the events against a list model of the stash buffer.

const (
	c13OpStash      = 0
	c13OpUnstash    = 1
	c13OpUnstashAll = 2

	c13ViaTell    = 0 // actor.Tell (sender = NoSender)
	c13ViaTellA   = 1 // senderA.Tell
	c13ViaTellB   = 2 // senderB.Tell
	c13ViaAsk     = 3 // actor.Ask (sender = NoSender), replied with the message id when finally handled
	c13ViaAskA    = 4 // senderA.Ask
	c13DrainID    = -1
	c13Watchdog   = 20 * time.Second
	c13AskTimeout = 40 * time.Second

	c13FpStaleReply = "stash-clone-stale-response-closed"
)

type c13MsgSpec struct {
	Via  int     `json:"via"`
	Acts [][]int `json:"acts"` // Acts[k] = stash operations performed on the (k+1)-th delivery; none left = just handle it
	Sync bool    `json:"sync"` // (sequential mode) send a marker after this message and wait for it
}

type c13Case struct {
	Stashing   bool         `json:"stashing"`   // spawn WithStashing
	Concurrent bool         `json:"concurrent"` // two goroutines send the Tell messages concurrently
	Msgs       []c13MsgSpec `json:"msgs"`
}

// c13Msg is the message sent to the actor under test.
type c13Msg struct {
	ID    int // >= 0 script message, c13DrainID, < c13DrainID markers
	Acts  [][]int
	IsAsk bool
}

type c13OpRes struct {
	Op     int
	Before error // ctx.getError() before the call
	After  error // ... and right after it
}

type c13Event struct {
	Msg         *c13Msg
	Delivery    int // 1 = first delivery of this message, as counted by the actor
	Ops         []c13OpRes
	Sender      *PID
	Self        *PID
	Final       bool // this delivery did not stash the message again
	HasReplyCh  bool // (Ask messages, final delivery) the reply channel came back with the message
	ReplyClosed bool // (Ask messages, final delivery) the reply path was already marked closed on arrival
}

type c13Actor struct {
	events     chan c13Event
	stashing   bool
	neutralize bool // known finding c13FpStaleReply listed: re-open the reply path so the search goes on
	count      map[int]int
	draining   bool
}

func (a *c13Actor) PreStart(*Context) error { return nil }
func (a *c13Actor) PostStop(*Context) error { return nil }

func (a *c13Actor) Receive(ctx *ReceiveContext) {
	m, ok := ctx.Message().(*c13Msg)
	if !ok {
		return
	}
	a.count[m.ID]++
	n := a.count[m.ID]
	var ops []int
	if !a.draining && n-1 < len(m.Acts) {
		ops = m.Acts[n-1]
	}
	if m.ID == c13DrainID {
		a.draining = true
		ops = []int{c13OpUnstashAll}
	}
	ev := c13Event{Msg: m, Delivery: n, Sender: ctx.Sender(), Self: ctx.Self(), Final: true}
	for _, op := range ops {
		r := c13OpRes{Op: op, Before: ctx.getError()}
		switch op {
		case c13OpStash:
			ctx.Stash()
		case c13OpUnstash:
			ctx.Unstash()
		case c13OpUnstashAll:
			ctx.UnstashAll()
		}
		r.After = ctx.getError()
		if op == c13OpStash && a.stashing && r.After == r.Before {
			ev.Final = false
		}
		ev.Ops = append(ev.Ops, r)
	}
	if ev.Final && m.IsAsk {
		ev.HasReplyCh = ctx.response != nil
		ev.ReplyClosed = ctx.responseClosed.Load()
		if ev.ReplyClosed && a.neutralize {
			ctx.responseClosed.Store(false)
		}
		ctx.Response(m.ID)
	}
	a.events <- ev
}

type c13Nop struct{}

func (c13Nop) PreStart(*Context) error { return nil }
func (c13Nop) PostStop(*Context) error { return nil }
func (c13Nop) Receive(*ReceiveContext) {}

// ---- generator ---------------------------------------------------------------

var c13ActsFirst = [][]int{
	{}, {},
	{c13OpStash}, {c13OpStash}, {c13OpStash}, {c13OpStash}, {c13OpStash},
	{c13OpUnstash}, {c13OpUnstash},
	{c13OpUnstashAll}, {c13OpUnstashAll},
	{c13OpStash, c13OpUnstashAll},
	{c13OpStash, c13OpUnstash},
	{c13OpUnstash, c13OpStash},
	{c13OpUnstashAll, c13OpStash},
	{c13OpUnstash, c13OpUnstash},
	{c13OpUnstash, c13OpUnstashAll},
}

var c13ActsLater = [][]int{
	{}, {}, {},
	{c13OpStash}, {c13OpStash},
	{c13OpUnstash},
	{c13OpUnstashAll},
	{c13OpStash, c13OpUnstash},
	{c13OpUnstash, c13OpStash},
	{c13OpStash, c13OpUnstashAll},
}

func c13Gen(t *rapid.T) c13Case {
	var c c13Case
	c.Stashing = rapid.IntRange(0, 6).Draw(t, "stashing") != 0
	c.Concurrent = rapid.IntRange(0, 3).Draw(t, "concurrent") == 0
	n := rapid.OneOf(rapid.IntRange(1, 8), rapid.IntRange(9, 60), rapid.IntRange(20, 60)).Draw(t, "msgs")
	for i := 0; i < n; i++ {
		var m c13MsgSpec
		m.Via = rapid.SampledFrom([]int{c13ViaTell, c13ViaTell, c13ViaTellA, c13ViaTellA, c13ViaTellB, c13ViaTellB, c13ViaAsk, c13ViaAskA}).Draw(t, "via")
		first := rapid.IntRange(0, len(c13ActsFirst)-1).Draw(t, "act1")
		m.Acts = append(m.Acts, append([]int{}, c13ActsFirst[first]...))
		extra := rapid.IntRange(0, 2).Draw(t, "redeliveries")
		for j := 0; j < extra; j++ {
			k := rapid.IntRange(0, len(c13ActsLater)-1).Draw(t, "actN")
			m.Acts = append(m.Acts, append([]int{}, c13ActsLater[k]...))
		}
		m.Sync = rapid.IntRange(0, 5).Draw(t, "sync") == 0
		c.Msgs = append(c.Msgs, m)
	}
	return c
}

// ---- system under test ---------------------------------------------------------

var (
	c13Sys              ActorSystem
	c13SndA, c13SndB    *PID
	c13Seq              atomic.Int64
	c13ResumeSupervisor = supervisor.NewSupervisor(supervisor.WithAnyErrorDirective(supervisor.ResumeDirective))
)

func c13Start(t *testing.T) {
	ctx := context.Background()
	opts := []Option{WithLogger(log.DiscardLogger)}
	if b := []int{0, 1, 3, 16}[int(uint64(vfkit.Seed())%4)]; b > 0 {
		opts = append(opts, WithThroughputBudget(b))
	}
	sys, err := NewActorSystem("vfC13", opts...)
	if err != nil {
		t.Fatalf("NewActorSystem: %v", err)
	}
	if err := sys.Start(ctx); err != nil {
		t.Fatalf("Start: %v", err)
	}
	t.Cleanup(func() { _ = sys.Stop(context.Background()) })
	a, err := sys.Spawn(ctx, "c13-sender-a", c13Nop{}, WithLongLived())
	if err != nil {
		t.Fatalf("spawn sender: %v", err)
	}
	b, err := sys.Spawn(ctx, "c13-sender-b", c13Nop{}, WithLongLived())
	if err != nil {
		t.Fatalf("spawn sender: %v", err)
	}
	c13Sys, c13SndA, c13SndB = sys, a, b
	// Precondition of every case: the process is in the steady state of a
	// long-running system, i.e. every pooled ReceiveContext has already served an
	// Ask at least once (the pool is a FIFO of contextPoolSize entries, so this
	// takes a little more than contextPoolSize Ask calls). Only the public API is
	// used to get there. A freshly started process hands out never-used contexts
	// for its first contextPoolSize messages, which hides state carried over from
	// a context's previous use.
	echo, err := sys.Spawn(ctx, "c13-echo", c13Echo{}, WithLongLived())
	if err != nil {
		t.Fatalf("spawn echo: %v", err)
	}
	for i := 0; i < contextPoolSize+256; i++ {
		if _, err := Ask(ctx, echo, &c13Ping{}, 30*time.Second); err != nil {
			t.Fatalf("warm-up Ask %d: %v", i, err)
		}
	}
}

type c13Ping struct{}
type c13Echo struct{}

func (c13Echo) PreStart(*Context) error { return nil }
func (c13Echo) PostStop(*Context) error { return nil }
func (c13Echo) Receive(ctx *ReceiveContext) {
	if _, ok := ctx.Message().(*c13Ping); ok {
		ctx.Response("pong")
	}
}

// ---- driver + list model ---------------------------------------------------------
//
// Model (from the property and the doc comments of Stash/Unstash/UnstashAll):
//   stash      : FIFO list of message ids held by the stash buffer
//   Stash      : appends the current message (error instead when there is no buffer)
//   Unstash    : releases the oldest stashed message: it is delivered again, once
//   UnstashAll : releases all stashed messages; they are delivered again, once each,
//                in stash order
//   a released message is delivered before any message that was sent after the
//   releasing handler had been seen to finish ("processed before any newly
//   arriving messages").
// The relative position of two separate releases is NOT prescribed (the docs say
// "prepend", the code appends): only the order inside one UnstashAll batch is.

type c13Batch struct {
	ids       []int
	createdAt int // index of the event whose handler released it
}

type c13AskRes struct {
	id   int
	resp any
	err  error
}

type c13Driver struct {
	x   *vfkit.X
	c   c13Case
	pid *PID
	act *c13Actor

	msgs      map[int]*c13Msg
	expSender map[int]*PID
	sentAfter map[int]int // number of events the driver had consumed when the message was sent

	evCount      int
	deliveries   map[int]int
	firstPending int // messages sent (or being sent) whose first delivery has not been seen
	stash        []int
	batches      []*c13Batch
	markers      int
	sent         map[int]bool // Tell returned / Ask goroutine launched

	stashedTotal, releasedTotal int
}

func (d *c13Driver) pendingRedeliveries() int {
	n := 0
	for _, b := range d.batches {
		n += len(b.ids)
	}
	return n
}

func (d *c13Driver) describe(id int) string {
	switch {
	case id == c13DrainID:
		return "drain"
	case id < c13DrainID:
		return fmt.Sprintf("marker%d", -id-2)
	default:
		return fmt.Sprintf("m%d", id)
	}
}

// next waits for the next event of the actor. ok=false: watchdog expired (inconclusive).
//
// While waiting it looks for the one state that proves, without any timing
// assumption, that the awaited delivery can never happen: the actor is idle, its
// mailbox is empty and no event is queued although a message whose Tell has
// returned (so its enqueue is complete) was not delivered. That is only decidable
// while no other producer can be in the middle of an enqueue (quiet() == true).
func (d *c13Driver) next() (c13Event, bool) {
	deadline := time.Now().Add(c13Watchdog)
	tick := time.NewTicker(2 * time.Millisecond)
	defer tick.Stop()
	for {
		select {
		case ev := <-d.act.events:
			return ev, true
		case <-tick.C:
			if d.quiet() && d.stuck() {
				var missing []string
				for id := range d.sent {
					if d.deliveries[id] == 0 {
						missing = append(missing, d.describe(id))
					}
				}
				sort.Strings(missing)
				d.x.Logf("stash-message-never-delivered: "+"the actor is idle with an empty mailbox, yet %d message(s) whose send had completed were never delivered (first: %s) and %d released message(s) were never re-delivered; stash=%v", len(missing), first(missing), d.pendingRedeliveries(), d.stash)
				d.x.Failf("stash-message-never-delivered", "the actor is idle with an empty mailbox, yet messages whose send had completed (or that were released from the stash) were never delivered (details: last line of the history)")
			}
			if time.Now().After(deadline) {
				d.x.Class("timeout_inconclusive")
				return c13Event{}, false
			}
		}
	}
}

func first(s []string) string {
	if len(s) == 0 {
		return "-"
	}
	return s[0]
}

// quiet: every message that is still to be delivered for the first time was sent
// by a Tell that has returned (next is never called while the sender goroutines of
// the concurrent mode are running).
func (d *c13Driver) quiet() bool {
	for id := range d.sent {
		if d.deliveries[id] == 0 && d.msgs[id].IsAsk {
			return false // its Ask goroutine may be anywhere before/inside the enqueue
		}
	}
	return true
}

func (d *c13Driver) stuck() bool {
	if d.pid.schedState.Load() != dispatchIdle {
		return false
	}
	if !d.pid.mailbox.IsEmpty() {
		return false
	}
	if d.pid.schedState.Load() != dispatchIdle {
		return false
	}
	// a handler emits its event before its turn ends: an idle actor has emitted everything
	return len(d.act.events) == 0
}

// apply judges one delivery event against the model.
func (d *c13Driver) apply(ev c13Event) {
	x := d.x
	idx := d.evCount
	d.evCount++
	id := ev.Msg.ID
	want, okMsg := d.msgs[id]
	if !okMsg || want != ev.Msg {
		x.Logf("stash-foreign-message: "+"delivered message %s is not the object that was sent", d.describe(id))
		x.Failf("stash-foreign-message", "a delivered message is not the object that was sent (details: last line of the history)")
	}
	if ev.Self != d.pid {
		x.Logf("stash-wrong-self: "+"%s delivered with Self()=%v", d.describe(id), ev.Self)
		x.Failf("stash-wrong-self", "a message was delivered with a wrong Self() (details: last line of the history)")
	}
	if ev.Sender != d.expSender[id] {
		fp := "stash-sender-changed"
		if d.deliveries[id] == 0 {
			fp = "delivery-sender-wrong"
		}
		x.Logf(fp+": %s (delivery %d) arrived with Sender()=%v, it was sent by %v", d.describe(id), d.deliveries[id]+1, c13Name(ev.Sender), c13Name(d.expSender[id]))
		x.Failf(fp, "a message arrived with a Sender() different from the PID that sent it (details: last line of the history)")
	}
	if d.deliveries[id] == 0 {
		// first delivery: everything released before this message was sent must already be here
		d.firstPending--
		for _, b := range d.batches {
			if b.createdAt < d.sentAfter[id] && len(b.ids) > 0 {
				x.Logf("stash-redelivery-missing: "+"%s was sent after a handler had been seen to release %v from the stash, yet it is delivered before them (released messages lost, or overtaken by a newer message)", d.describe(id), b.ids)
				x.Failf("stash-redelivery-missing", "a message sent after a handler had been seen to release stashed messages is delivered before them (released messages lost, or overtaken by a newer message) (details: last line of the history)")
			}
		}
	} else {
		found := false
		for bi, b := range d.batches {
			for k, bid := range b.ids {
				if bid != id {
					continue
				}
				if k != 0 {
					x.Logf("stash-redelivery-reordered: "+"m%d re-delivered before %v which were stashed earlier and released by the same UnstashAll", id, b.ids[:k])
					x.Failf("stash-redelivery-reordered", "messages released by one UnstashAll are re-delivered in an order different from the order in which they were stashed (details: last line of the history)")
				}
				b.ids = b.ids[1:]
				if len(b.ids) == 0 {
					d.batches = append(d.batches[:bi], d.batches[bi+1:]...)
				}
				found = true
				break
			}
			if found {
				break
			}
		}
		if !found {
			x.Logf("stash-duplicate-delivery: "+"m%d delivered again (delivery %d) although it is not among the released messages; stash=%v", id, d.deliveries[id]+1, d.stash)
			x.Failf("stash-duplicate-delivery", "a message is delivered again although it was not released from the stash (duplicate) (details: last line of the history)")
		}
	}
	d.deliveries[id]++
	if ev.Delivery != d.deliveries[id] {
		x.Logf("stash-delivery-count: "+"actor counts delivery %d of %s, driver counts %d", ev.Delivery, d.describe(id), d.deliveries[id])
		x.Failf("stash-delivery-count", "actor and driver disagree on the number of deliveries of a message (details: last line of the history)")
	}
	stashedNow := false
	for _, r := range ev.Ops {
		switch r.Op {
		case c13OpStash:
			if d.c.Stashing {
				if r.After != r.Before {
					x.Logf("stash-error-with-buffer: "+"Stash() of m%d reported %v although the actor was spawned WithStashing", id, r.After)
					x.Failf("stash-error-with-buffer", "Stash() reported an error although the actor was spawned WithStashing (details: last line of the history)")
				}
				d.stash = append(d.stash, id)
				d.stashedTotal++
				stashedNow = true
			} else {
				x.Class("stash_without_buffer")
				if r.After == nil || !errors.Is(r.After, gerrors.ErrStashBufferNotSet) {
					x.Logf("stash-without-buffer-silent: "+"Stash() of m%d without a stash buffer recorded error %v, want ErrStashBufferNotSet", id, r.After)
					x.Failf("stash-without-buffer-silent", "Stash() without a stash buffer did not record ErrStashBufferNotSet (message dropped silently) (details: last line of the history)")
				}
			}
		case c13OpUnstash:
			if len(d.stash) > 0 {
				d.batches = append(d.batches, &c13Batch{ids: []int{d.stash[0]}, createdAt: idx})
				d.stash = d.stash[1:]
				d.releasedTotal++
				x.Class("unstash_one")
			} else {
				x.Class("unstash_on_empty_stash")
			}
		case c13OpUnstashAll:
			if len(d.stash) > 0 {
				if len(d.stash) >= 2 {
					x.Class("unstashall_2plus")
				}
				d.releasedTotal += len(d.stash)
				d.batches = append(d.batches, &c13Batch{ids: append([]int(nil), d.stash...), createdAt: idx})
				d.stash = nil
			}
		}
	}
	if ev.Final == stashedNow {
		x.Failf("stash-harness", "actor/driver disagree on whether m%d was stashed", id)
	}
	if ev.Final && ev.Msg.IsAsk {
		if d.deliveries[id] > 1 {
			x.Class("ask_message_answered_after_unstash")
		}
		if !ev.HasReplyCh {
			x.Logf("stash-ask-reply-channel-lost: "+"Ask message m%d came back from the stash without its reply channel", id)
			x.Failf("stash-ask-reply-channel-lost", "an Ask message came back from the stash without its reply channel (details: last line of the history)")
		}
		if ev.ReplyClosed {
			if !d.act.neutralize {
				x.Logf("stale reply flag on m%d delivery %d (event %d)", id, d.deliveries[id], idx)
				x.Failf(c13FpStaleReply, "an Ask message that went through the stash arrives with its reply path already marked closed although the asker is still waiting: ctx.Response is dropped and the Ask can only time out")
			}
			x.Class("known_stale_reply_flag_neutralised")
		}
	}
	d.x.Logf("ev%d %s delivery=%d ops=%v stash=%v pending=%d", idx, d.describe(id), ev.Delivery, c13OpsString(ev.Ops), d.stash, d.pendingRedeliveries())
}

func c13Name(p *PID) string {
	if p == nil {
		return "<nil>"
	}
	return p.Name()
}

func c13OpsString(ops []c13OpRes) string {
	s := ""
	for _, o := range ops {
		s += string("SUA"[o.Op])
	}
	return s
}

// marker sends a driver message and consumes events until it is delivered. By the
// model every message released before the marker was sent is delivered before it.
func (d *c13Driver) marker() bool {
	id := c13DrainID - 1 - d.markers
	d.markers++
	return d.sendAndAwait(id)
}

func (d *c13Driver) sendAndAwait(id int) bool {
	m := &c13Msg{ID: id}
	d.msgs[id] = m
	d.expSender[id] = c13Sys.NoSender()
	d.sentAfter[id] = d.evCount
	d.firstPending++
	if err := Tell(context.Background(), d.pid, m); err != nil {
		panic(fmt.Sprintf("Tell marker: %v", err))
	}
	d.sent[id] = true
	for {
		ev, ok := d.next()
		if !ok {
			return false
		}
		d.apply(ev)
		if ev.Msg.ID == id {
			return true
		}
	}
}

func (d *c13Driver) checkStashSize(where string) {
	if got := d.pid.StashSize(); got != uint64(len(d.stash)) {
		d.x.Logf("stash-size-mismatch: "+"%s: StashSize()=%d, model holds %d stashed messages %v", where, got, len(d.stash), d.stash)
		d.x.Failf("stash-size-mismatch", "StashSize() differs from the number of messages the model holds in the stash while the actor is idle (details: last line of the history)")
	}
}

func c13Exec(x *vfkit.X, c c13Case) {
	ctx, cancel := context.WithCancel(context.Background())
	var askWG sync.WaitGroup
	defer func() {
		cancel() // releases Asks that are still waiting when a case ends early
		askWG.Wait()
	}()
	act := &c13Actor{
		events:     make(chan c13Event, 4096),
		stashing:   c.Stashing,
		neutralize: x.Known(c13FpStaleReply),
		count:      map[int]int{},
	}
	opts := []SpawnOption{WithLongLived(), WithSupervisor(c13ResumeSupervisor)}
	if c.Stashing {
		opts = append(opts, WithStashing())
	} else {
		x.Class("no_stash_buffer")
	}
	pid, err := c13Sys.Spawn(ctx, fmt.Sprintf("c13-%d", c13Seq.Add(1)), act, opts...)
	if err != nil {
		panic(fmt.Sprintf("spawn: %v", err))
	}
	defer func() { _ = pid.Shutdown(context.Background()) }()

	d := &c13Driver{x: x, c: c, pid: pid, act: act,
		msgs: map[int]*c13Msg{}, expSender: map[int]*PID{}, sentAfter: map[int]int{}, deliveries: map[int]int{}, sent: map[int]bool{}}
	defer func() {
		if d.stashedTotal >= 2 && d.releasedTotal >= 1 {
			x.NonTrivial()
		}
		if d.stashedTotal >= 10 {
			x.Class("stashed_10plus")
		}
	}()

	askRes := make(chan c13AskRes, len(c.Msgs))
	asks := 0
	send := func(i int) {
		m := d.msgs[i]
		var err error
		switch c.Msgs[i].Via {
		case c13ViaTell:
			err = Tell(ctx, pid, m)
		case c13ViaTellA:
			err = c13SndA.Tell(ctx, pid, m)
		case c13ViaTellB:
			err = c13SndB.Tell(ctx, pid, m)
		}
		if err != nil {
			panic(fmt.Sprintf("Tell m%d: %v", i, err))
		}
	}
	ask := func(i int) {
		m := d.msgs[i]
		asks++
		askWG.Add(1)
		go func() {
			defer askWG.Done()
			var r any
			var e error
			if c.Msgs[i].Via == c13ViaAskA {
				r, e = c13SndA.Ask(ctx, pid, m, c13AskTimeout)
			} else {
				r, e = Ask(ctx, pid, m, c13AskTimeout)
			}
			askRes <- c13AskRes{id: i, resp: r, err: e}
		}()
	}
	for i, s := range c.Msgs {
		isAsk := s.Via == c13ViaAsk || s.Via == c13ViaAskA
		d.msgs[i] = &c13Msg{ID: i, Acts: s.Acts, IsAsk: isAsk}
		switch s.Via {
		case c13ViaTellA, c13ViaAskA:
			d.expSender[i] = c13SndA
		case c13ViaTellB:
			d.expSender[i] = c13SndB
		default:
			d.expSender[i] = c13Sys.NoSender()
		}
	}
	d.firstPending = len(c.Msgs)

	if c.Concurrent {
		x.Class("concurrent_senders")
		for i := range c.Msgs {
			d.sent[i] = true // events are only consumed after the senders have been joined
		}
		// nothing is known about the relative send times: sentAfter stays 0
		var wg sync.WaitGroup
		for g := 0; g < 2; g++ {
			wg.Add(1)
			go func(g int) {
				defer wg.Done()
				for i, s := range c.Msgs {
					if i%2 == g && s.Via != c13ViaAsk && s.Via != c13ViaAskA {
						send(i)
					}
				}
			}(g)
		}
		for i, s := range c.Msgs {
			if s.Via == c13ViaAsk || s.Via == c13ViaAskA {
				ask(i)
			}
		}
		wg.Wait()
	} else {
		for i, s := range c.Msgs {
			d.sentAfter[i] = d.evCount
			if s.Via == c13ViaAsk || s.Via == c13ViaAskA {
				ask(i) // enqueued at some later time by its own goroutine
			} else {
				send(i)
			}
			d.sent[i] = true
			if s.Sync {
				x.Class("mid_stream_marker")
				if !d.marker() {
					return
				}
				if d.firstPending == 0 && d.pendingRedeliveries() == 0 {
					// nothing in flight: the actor is idle, the buffer can be compared
					d.checkStashSize(fmt.Sprintf("after m%d", i))
				}
			}
		}
	}

	// wait for every first delivery (Ask goroutines enqueue at their own pace)
	for d.firstPending > 0 {
		ev, ok := d.next()
		if !ok {
			return
		}
		d.apply(ev)
	}
	// drain: from here on the actor handles every delivery; release everything
	if !d.sendAndAwait(c13DrainID) {
		return
	}
	for d.pendingRedeliveries() > 0 {
		// every marker must be preceded by all messages released before it was sent
		if !d.marker() {
			return
		}
	}
	if len(d.stash) != 0 {
		x.Failf("stash-harness", "model stash not empty after drain: %v", d.stash)
	}
	d.checkStashSize("after draining")
	for i := range c.Msgs {
		if d.deliveries[i] < 1 {
			x.Logf("stash-message-lost: "+"m%d was never delivered", i)
			x.Failf("stash-message-lost", "a message was never delivered (details: last line of the history)")
		}
	}
	// every Ask message has been handled and answered
	for k := 0; k < asks; k++ {
		select {
		case r := <-askRes:
			if r.err != nil {
				if errors.Is(r.err, gerrors.ErrRequestTimeout) {
					x.Class("timeout_inconclusive")
					return
				}
				x.Logf("stash-ask-error: "+"Ask(m%d) failed: %v", r.id, r.err)
				x.Failf("stash-ask-error", "Ask of a message that was finally handled and answered failed (details: last line of the history)")
			}
			if got, _ := r.resp.(int); got != r.id {
				x.Logf("stash-ask-wrong-reply: "+"Ask(m%d) answered with %v", r.id, r.resp)
				x.Failf("stash-ask-wrong-reply", "Ask answered with a reply that belongs to another message (details: last line of the history)")
			}
		case <-time.After(c13Watchdog):
			x.Class("timeout_inconclusive")
			return
		}
	}
}

func TestVF_C13_stash(t *testing.T) {
	c13Start(t)
	vfkit.Run(t, vfkit.Spec[c13Case]{
		ID: "C13", Unit: "stash",
		Rule: "cases = streams of 1..60 numbered messages (system Tell, two actor senders, Ask) to a fresh real actor with or without a stash buffer; per delivery of each message a generated list of Stash/Unstash/UnstashAll calls; sequential (with markers) or two concurrent senders; ends with a drain (UnstashAll, then handle everything); non-trivial = >=2 messages actually stashed and >=1 released by Unstash/UnstashAll; distinct = distinct cases",
		Gen:  c13Gen, Exec: c13Exec,
		ReplayReps: 5,
	})
}

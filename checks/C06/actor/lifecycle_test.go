//go:build verif

package actor

import (
	"context"
	"errors"
	"fmt"
	"runtime"
	"sort"
	"strings"
	"sync"
	"sync/atomic"
	"testing"
	"time"

	"pgregory.net/rapid"

	"github.com/tochemey/goakt/v4/internal/vfkit"
	"github.com/tochemey/goakt/v4/internal/vfsched"
	"github.com/tochemey/goakt/v4/log"
	"github.com/tochemey/goakt/v4/passivation"
	"github.com/tochemey/goakt/v4/supervisor"
)

// ---- C06: lifecycle hooks are ordered and never overlap message handling -------
//
// A generated family of 1..4 instrumented actors on a real ActorSystem receives
// traffic from 1..3 sender goroutines while 1..3 stop actions (every stop path the
// property names) are fired at generated points of the traffic. Every hook appends
// (logical timestamp from ONE atomic counter, goroutine id, actor, kind) to the
// per-case history; PostStop additionally classifies, from its own call stack, the
// call site that stopped the actor. The oracle is a set of interval invariants over
// that history. No verdict depends on wall-clock time.

const (
	c06KPreEnter = iota
	c06KPreExit
	c06KRecvEnter
	c06KRecvExit
	c06KPostEnter
	c06KPostExit
	c06KStopIssue  // harness: external stop action about to be called (A = target)
	c06KStopReturn // harness: the call returned
	c06KRearm      // (*PID).resetBehavior entered: restartSubtree re-arms Receive before it re-runs PreStart
)

var c06KindName = []string{"PreStart-enter", "PreStart-exit", "Receive-enter", "Receive-exit", "PostStop-enter", "PostStop-exit", "stop-issued", "stop-returned", "behaviour-rearmed"}

// in-handler actions
const (
	c06ActNone          = iota
	c06ActCtxShutdown   // ctx.Shutdown() (on-turn)
	c06ActCtxStopChild  // ctx.Stop(child Arg) from the parent's turn
	c06ActPanic         // panic -> supervisor stop directive
	c06ActShutdownOther // pids[Arg].Shutdown(ctx) called inside this handler
)

// external stop kinds
const (
	c06StopPoison     = iota // Tell(pid, PoisonPill)          (on-turn)
	c06StopKill              // system.Kill(name)
	c06StopShutdown          // pid.Shutdown(ctx)
	c06StopParentStop        // parent.Stop(ctx, child)
	c06StopRestart           // pid.Restart(ctx)
	c06StopKinds
)

var c06StopName = []string{"poison-pill", "kill", "pid-shutdown", "pid-stop", "restart"}

const (
	c06FpOffTurn   = "offturn-stop-overlaps-receive:" // + path
	c06FpPreStart  = "prestart-overlaps-receive:"     // + spawn|restart
	c06FpRearm     = "restart-delivers-backlog-before-prestart"
	c06FpUnserial  = "restart-unserialized:" // + what overlapped
	c06FpSkipped   = "restart-skipped-shutdown:"
	c06Cap         = 10 * time.Second
	c06PkgPrefix   = "github.com/tochemey/goakt/v4/actor."
	c06MaxLogLines = 400
)

var c06ThinkDur = []time.Duration{0, -1 /* yield */, 50 * time.Microsecond, 300 * time.Microsecond, time.Millisecond, 3 * time.Millisecond, 15 * time.Millisecond}

type c06ActorSpec struct {
	Parent    int  `json:"parent"`      // -1: spawned from the system; else index of an earlier actor
	Pass      int  `json:"pass"`        // 0 long-lived, 1 time-based 4ms, 2 time-based 25ms, 3 message-count
	PassN     int  `json:"pass_n"`      // message-count threshold
	OneForAll bool `json:"one_for_all"` // supervisor strategy (directive: stop on any error)
	PreThink  int  `json:"pre_think"`   // think index inside PreStart
	PostThink int  `json:"post_think"`  // think index inside PostStop
}

type c06MsgSpec struct {
	To    int `json:"to"`
	Think int `json:"think"`
	Act   int `json:"act"`
	Arg   int `json:"arg"`
}

type c06StopSpec struct {
	Kind   int `json:"kind"`
	Target int `json:"target"`
	After  int `json:"after"` // issue once the target has entered this many Receives (or all senders are done)
}

type c06Case struct {
	Sys        int            `json:"sys"` // index into c06Budgets
	Actors     []c06ActorSpec `json:"actors"`
	Senders    [][]c06MsgSpec `json:"senders"`
	Stops      []c06StopSpec  `json:"stops"`
	NoiseSeed  uint64         `json:"noise_seed"`
	NoiseProb  int            `json:"noise_prob"`  // index into c06NoiseProbs
	NoiseSleep int            `json:"noise_sleep"` // micros
}

var (
	c06Budgets    = []int{1, 4, 0} // dispatcher throughput budget of the three systems (0 = default 32)
	c06NoiseProbs = []float64{0, 0.01, 0.05, 0.2}
)

// ---- history -------------------------------------------------------------------

type c06Ev struct {
	TS   int64
	G    int64
	A    int
	K    int
	Msg  int    // Receive: message id (-1 = framework message); stop events: stop index
	Path string // PostStop-enter: stop call site; stop events: kind name
	Q    int64  // PostStop-enter / stop-issued: user mailbox length at that moment
}

type c06Hist struct {
	ctr atomic.Int64
	mu  sync.Mutex
	evs []c06Ev
}

func (h *c06Hist) add(e c06Ev) {
	e.TS = h.ctr.Add(1)
	h.mu.Lock()
	h.evs = append(h.evs, e)
	h.mu.Unlock()
}

func (h *c06Hist) snapshot() []c06Ev {
	h.mu.Lock()
	out := append([]c06Ev(nil), h.evs...)
	h.mu.Unlock()
	sort.Slice(out, func(i, j int) bool { return out[i].TS < out[j].TS })
	return out
}

func c06Gid() int64 {
	var buf [64]byte
	n := runtime.Stack(buf[:], false)
	id := int64(0)
	for _, ch := range buf[len("goroutine "):n] {
		if ch < '0' || ch > '9' {
			break
		}
		id = id*10 + int64(ch-'0')
	}
	return id
}

// c06StopPath names the call site that is stopping the actor, read off the stack of
// the goroutine that runs PostStop.
func c06StopPath() string {
	var pcs [96]uintptr
	n := runtime.Callers(2, pcs[:])
	frames := runtime.CallersFrames(pcs[:n])
	inStop := false
	for {
		f, more := frames.Next()
		short := strings.TrimPrefix(f.Function, c06PkgPrefix)
		if !inStop {
			switch short {
			case "(*PID).tryPassivation":
				return "passivation"
			case "(*PID).Shutdown":
				inStop = true
			}
		} else {
			switch {
			case short == "(*PID).Shutdown":
			case short == "(*actorSystem).Kill":
				return "kill"
			case short == "(*PID).Stop":
				return "pid-stop"
			case strings.HasPrefix(short, "(*PID).freeChildren"):
				return "parent-stop"
			case strings.HasPrefix(short, "(*PID).handleStopDirective"):
				return "supervisor-stop"
			case strings.HasPrefix(short, "restartSubtree"):
				return "restart"
			case strings.HasPrefix(short, "(*PID).restartChild"):
				return "restart-failed"
			case short == "(*ReceiveContext).Shutdown":
				return "ctx-shutdown"
			case short == "(*PID).dispatchOne":
				return "poison-pill"
			case strings.Contains(short, "c06"):
				return "pid-shutdown"
			case strings.HasPrefix(short, "(*actorSystem).rollbackSpawn"):
				// a spawn rolled back after the actor was started (e.g. its parent was stopped
				// while SpawnChild was in flight): the stop comes from the spawning goroutine
				return "spawn-rollback"
			case strings.HasPrefix(short, "(*actorSystem)."):
				return "system-stop"
			default:
				return "other(" + short + ")"
			}
		}
		if !more {
			break
		}
	}
	return "unknown"
}

// c06Queued: 1 when the user mailbox holds at least one message, else 0. Deliberately
// not Len(): walking the list is only safe for the consumer, and after the listed
// two-workers-after-Restart defect the list can even be cyclic.
func c06Queued(p *PID) int64 {
	if p.mailbox.IsEmpty() {
		return 0
	}
	return 1
}

func c06OnTurnPath(p string) bool { return p == "poison-pill" || p == "ctx-shutdown" }

// ---- instrumented actor ----------------------------------------------------------

type c06Msg struct {
	ID   int
	Spec c06MsgSpec
}

type c06Env struct {
	pids []*PID // filled before any traffic starts
}

type c06Actor struct {
	idx     int
	spec    c06ActorSpec
	h       *c06Hist
	env     *c06Env
	entered atomic.Int64
	pid     atomic.Pointer[PID]
}

func c06Think(i int) {
	if i < 0 || i >= len(c06ThinkDur) {
		return
	}
	switch d := c06ThinkDur[i]; {
	case d < 0:
		runtime.Gosched()
	case d > 0:
		time.Sleep(d)
	}
}

func (a *c06Actor) PreStart(*Context) error {
	g := c06Gid()
	a.h.add(c06Ev{G: g, A: a.idx, K: c06KPreEnter})
	c06Think(a.spec.PreThink)
	a.h.add(c06Ev{G: g, A: a.idx, K: c06KPreExit})
	return nil
}

func (a *c06Actor) PostStop(*Context) error {
	g := c06Gid()
	q := int64(-1)
	if p := a.pid.Load(); p != nil {
		q = c06Queued(p)
	}
	a.h.add(c06Ev{G: g, A: a.idx, K: c06KPostEnter, Path: c06StopPath(), Q: q})
	c06Think(a.spec.PostThink)
	a.h.add(c06Ev{G: g, A: a.idx, K: c06KPostExit})
	return nil
}

var c06ErrBoom = errors.New("c06 boom")

func (a *c06Actor) Receive(ctx *ReceiveContext) {
	g := c06Gid()
	id := -1
	var spec c06MsgSpec
	if m, ok := ctx.Message().(*c06Msg); ok {
		id, spec = m.ID, m.Spec
	}
	a.entered.Add(1)
	a.h.add(c06Ev{G: g, A: a.idx, K: c06KRecvEnter, Msg: id})
	c06Think(spec.Think)
	switch spec.Act {
	case c06ActCtxShutdown:
		ctx.Shutdown()
	case c06ActCtxStopChild:
		if spec.Arg >= 0 && spec.Arg < len(a.env.pids) && a.env.pids[spec.Arg] != nil {
			ctx.Stop(a.env.pids[spec.Arg])
		}
	case c06ActShutdownOther:
		if spec.Arg >= 0 && spec.Arg < len(a.env.pids) && a.env.pids[spec.Arg] != nil {
			_ = a.env.pids[spec.Arg].Shutdown(context.Background())
		}
	case c06ActPanic:
		a.h.add(c06Ev{G: g, A: a.idx, K: c06KRecvExit, Msg: id})
		panic(c06ErrBoom)
	}
	a.h.add(c06Ev{G: g, A: a.idx, K: c06KRecvExit, Msg: id})
}

// ---- generator ---------------------------------------------------------------------

func c06Gen(t *rapid.T) c06Case {
	var c c06Case
	c.Sys = rapid.IntRange(0, len(c06Budgets)-1).Draw(t, "sys")
	n := rapid.SampledFrom([]int{1, 1, 2, 2, 3, 4}).Draw(t, "actors")
	children := make([][]int, n)
	for i := 0; i < n; i++ {
		var a c06ActorSpec
		a.Parent = -1
		if i > 0 && rapid.IntRange(0, 3).Draw(t, "hasParent") != 0 {
			a.Parent = rapid.IntRange(0, i-1).Draw(t, "parent")
			children[a.Parent] = append(children[a.Parent], i)
		}
		a.Pass = rapid.SampledFrom([]int{0, 0, 0, 0, 1, 2, 3}).Draw(t, "pass")
		a.PassN = rapid.IntRange(1, 5).Draw(t, "passN")
		a.OneForAll = rapid.IntRange(0, 2).Draw(t, "oneForAll") == 0
		a.PreThink = rapid.SampledFrom([]int{0, 0, 1, 3, 4}).Draw(t, "preThink")
		a.PostThink = rapid.SampledFrom([]int{0, 1, 2, 3, 4}).Draw(t, "postThink")
		c.Actors = append(c.Actors, a)
	}
	ns := rapid.IntRange(1, 3).Draw(t, "senders")
	for s := 0; s < ns; s++ {
		k := rapid.OneOf(rapid.IntRange(1, 6), rapid.IntRange(4, 25)).Draw(t, "msgs")
		// each sender mostly talks to one actor, so that mailboxes fill up
		home := rapid.IntRange(0, n-1).Draw(t, "home")
		var list []c06MsgSpec
		for j := 0; j < k; j++ {
			m := c06MsgSpec{To: home, Arg: -1}
			if rapid.IntRange(0, 4).Draw(t, "stray") == 0 {
				m.To = rapid.IntRange(0, n-1).Draw(t, "to")
			}
			m.Think = rapid.SampledFrom([]int{0, 0, 0, 1, 1, 1, 2, 2, 2, 3, 3, 3, 4, 4, 5, 6}).Draw(t, "think")
			list = append(list, m)
		}
		c.Senders = append(c.Senders, list)
	}
	// stop actions: external ones and in-handler ones (attached to a generated message)
	nstops := rapid.SampledFrom([]int{1, 1, 1, 2, 2, 3}).Draw(t, "stops")
	for k := 0; k < nstops; k++ {
		if rapid.IntRange(0, 9).Draw(t, "inHandler") < 4 {
			s := rapid.IntRange(0, ns-1).Draw(t, "stopSender")
			j := rapid.IntRange(0, len(c.Senders[s])-1).Draw(t, "stopMsg")
			m := &c.Senders[s][j]
			act := rapid.SampledFrom([]int{c06ActCtxShutdown, c06ActCtxShutdown, c06ActCtxStopChild, c06ActPanic, c06ActPanic, c06ActShutdownOther}).Draw(t, "act")
			switch act {
			case c06ActCtxStopChild:
				// needs an actor that has children: redirect the message to such a parent
				var parents []int
				for p := range children {
					if len(children[p]) > 0 {
						parents = append(parents, p)
					}
				}
				if len(parents) == 0 {
					act = c06ActCtxShutdown
				} else {
					p := parents[rapid.IntRange(0, len(parents)-1).Draw(t, "stopParent")]
					m.To = p
					m.Arg = children[p][rapid.IntRange(0, len(children[p])-1).Draw(t, "stopChild")]
				}
			case c06ActShutdownOther:
				if n == 1 {
					act = c06ActPanic
				} else {
					m.Arg = rapid.IntRange(0, n-2).Draw(t, "other")
					if m.Arg >= m.To {
						m.Arg++
					}
				}
			}
			m.Act = act
			if m.Think < 2 && rapid.IntRange(0, 1).Draw(t, "slowStopMsg") == 0 {
				m.Think = 3
			}
			continue
		}
		var st c06StopSpec
		st.Kind = rapid.IntRange(0, c06StopKinds-1).Draw(t, "stopKind")
		st.Target = rapid.IntRange(0, n-1).Draw(t, "stopTarget")
		if st.Kind == c06StopParentStop {
			var kids []int
			for i, a := range c.Actors {
				if a.Parent >= 0 {
					kids = append(kids, i)
				}
			}
			if len(kids) == 0 {
				st.Kind = c06StopKill
			} else {
				st.Target = kids[rapid.IntRange(0, len(kids)-1).Draw(t, "stopKid")]
			}
		}
		st.After = rapid.SampledFrom([]int{0, 1, 1, 2, 2, 3, 5, 8, 13}).Draw(t, "after")
		c.Stops = append(c.Stops, st)
	}
	c.NoiseSeed = rapid.Uint64().Draw(t, "noiseSeed")
	c.NoiseProb = rapid.IntRange(0, len(c06NoiseProbs)-1).Draw(t, "noiseProb")
	c.NoiseSleep = rapid.SampledFrom([]int{0, 50, 300}).Draw(t, "noiseSleep")
	return c
}

// ---- systems under test ----------------------------------------------------------------

var (
	c06Sys    []ActorSystem
	c06Seq    atomic.Int64
	c06SysGen atomic.Int64
)

func c06NewSystem(i int) (ActorSystem, error) {
	opts := []Option{WithLogger(log.DiscardLogger)}
	if b := c06Budgets[i]; b > 0 {
		opts = append(opts, WithThroughputBudget(b))
	}
	sys, err := NewActorSystem(fmt.Sprintf("vfC06x%dg%d", i, c06SysGen.Add(1)), opts...)
	if err != nil {
		return nil, err
	}
	if err := sys.Start(context.Background()); err != nil {
		return nil, err
	}
	return sys, nil
}

func c06Start(t *testing.T) {
	c06RearmHook = func(pid *PID) {
		if a, ok := pid.actor.(*c06Actor); ok {
			a.h.add(c06Ev{G: c06Gid(), A: a.idx, K: c06KRearm})
		}
	}
	t.Cleanup(func() { c06RearmHook = nil })
	c06Sys = make([]ActorSystem, len(c06Budgets))
	for i := range c06Budgets {
		sys, err := c06NewSystem(i)
		if err != nil {
			t.Fatalf("actor system: %v", err)
		}
		c06Sys[i] = sys
	}
	t.Cleanup(func() {
		for _, sys := range c06Sys {
			c06StopSystem(sys)
		}
	})
}

func c06StopSystem(sys ActorSystem) { _ = sys.Stop(context.Background()) }

// c06Alive: the system is up. A system can stop itself when one of its own system
// actors panics (the cause seen while this check was built, GoAktDeathWatch
// dereferencing a tree node emptied by a concurrent deleteNode, was repaired by
// 4a14b27). Every later case would silently run on a dead system, so the harness
// replaces a stopped system and does not judge the case in which it died.
func c06Alive(sys ActorSystem) bool { return sys.Running() && !sys.isStopping() }

func c06WaitUntil(cond func() bool, limit time.Duration) bool {
	deadline := time.Now().Add(limit)
	for i := 0; !cond(); i++ {
		if time.Now().After(deadline) {
			return false
		}
		if i < 50 {
			runtime.Gosched()
		} else {
			time.Sleep(50 * time.Microsecond)
		}
	}
	return true
}

// ---- execution ---------------------------------------------------------------------------

func c06Exec(x *vfkit.X, c c06Case) {
	ctx := context.Background()
	sys := c06Sys[c.Sys]
	if !c06Alive(sys) {
		x.Class("system_rebuilt_after_it_stopped_itself")
		c06StopSystem(sys)
		fresh, err := c06NewSystem(c.Sys)
		if err != nil {
			panic(fmt.Sprintf("cannot rebuild the actor system: %v", err))
		}
		sys, c06Sys[c.Sys] = fresh, fresh
	}
	h := &c06Hist{}
	env := &c06Env{pids: make([]*PID, len(c.Actors))}
	actors := make([]*c06Actor, len(c.Actors))
	caseNo := c06Seq.Add(1)

	for i, spec := range c.Actors {
		a := &c06Actor{idx: i, spec: spec, h: h, env: env}
		actors[i] = a
		strategy := supervisor.OneForOneStrategy
		if spec.OneForAll {
			strategy = supervisor.OneForAllStrategy
		}
		opts := []SpawnOption{WithSupervisor(supervisor.NewSupervisor(supervisor.WithStrategy(strategy), supervisor.WithAnyErrorDirective(supervisor.StopDirective)))}
		switch spec.Pass {
		case 0:
			opts = append(opts, WithLongLived())
		case 1:
			opts = append(opts, WithPassivationStrategy(passivation.NewTimeBasedStrategy(4*time.Millisecond)))
		case 2:
			opts = append(opts, WithPassivationStrategy(passivation.NewTimeBasedStrategy(25*time.Millisecond)))
		case 3:
			opts = append(opts, WithPassivationStrategy(passivation.NewMessageCountBasedStrategy(spec.PassN)))
		}
		name := fmt.Sprintf("c06-%d-%d", caseNo, i)
		var pid *PID
		var err error
		if spec.Parent < 0 {
			pid, err = sys.Spawn(ctx, name, a, opts...)
		} else if pp := env.pids[spec.Parent]; pp != nil {
			pid, err = pp.SpawnChild(ctx, name, a, opts...)
		}
		if err != nil || pid == nil {
			// e.g. the parent was passivated before its child could be spawned
			x.Class("spawn_failed")
			continue
		}
		a.pid.Store(pid)
		env.pids[i] = pid
	}
	leaked := false
	defer func() {
		if leaked {
			return // a stop call is stuck: do not queue behind it
		}
		for _, p := range env.pids {
			if p != nil {
				_ = p.Shutdown(ctx)
			}
		}
	}()

	vfsched.SetNoise(c.NoiseSeed, c06NoiseProbs[c.NoiseProb], c.NoiseSleep)
	defer vfsched.SetNoise(0, 0, 0)

	var wg sync.WaitGroup
	var sendersLeft atomic.Int32
	sendersLeft.Store(int32(len(c.Senders)))
	msgID := 0
	for _, list := range c.Senders {
		msgs := make([]*c06Msg, len(list))
		for j, spec := range list {
			msgs[j] = &c06Msg{ID: msgID, Spec: spec}
			msgID++
		}
		wg.Add(1)
		go func() {
			defer wg.Done()
			defer sendersLeft.Add(-1)
			for _, m := range msgs {
				if p := env.pids[m.Spec.To]; p != nil {
					_ = Tell(ctx, p, m) // ErrDead once the target is stopped: expected
				}
			}
		}()
	}
	for si, st := range c.Stops {
		p := env.pids[st.Target]
		if p == nil {
			continue
		}
		wg.Add(1)
		go func() {
			defer wg.Done()
			defer func() {
				if r := recover(); r != nil {
					x.Class("stop_call_panicked_" + c06StopName[st.Kind])
					x.Logf("stop call %s panicked: %v", c06StopName[st.Kind], r)
				}
			}()
			g := c06Gid()
			a := actors[st.Target]
			c06WaitUntil(func() bool { return a.entered.Load() >= int64(st.After) || sendersLeft.Load() == 0 }, c06Cap)
			h.add(c06Ev{G: g, A: st.Target, K: c06KStopIssue, Msg: si, Path: c06StopName[st.Kind], Q: c06Queued(p)})
			switch st.Kind {
			case c06StopPoison:
				_ = Tell(ctx, p, &PoisonPill{})
			case c06StopKill:
				_ = sys.Kill(ctx, p.Name())
			case c06StopShutdown:
				_ = p.Shutdown(ctx)
			case c06StopParentStop:
				if pp := env.pids[c.Actors[st.Target].Parent]; pp != nil {
					_ = pp.Stop(ctx, p)
				}
			case c06StopRestart:
				_ = p.Restart(ctx)
			}
			h.add(c06Ev{G: g, A: st.Target, K: c06KStopReturn, Msg: si, Path: c06StopName[st.Kind]})
		}()
	}
	done := make(chan struct{})
	go func() { wg.Wait(); close(done) }()
	select {
	case <-done:
	case <-time.After(c06Cap):
		x.Class("inconclusive_driver_stalled")
		leaked = true
		return
	}

	// quiesce: every actor's turn has ended (a stopped actor may still be draining
	// its backlog), in-flight passivation attempts are over
	idle := func() bool {
		if !c06Alive(sys) {
			return true
		}
		for _, p := range env.pids {
			if p != nil && (p.schedState.Load() != dispatchIdle || p.isStateSet(passivatingState)) {
				return false
			}
		}
		return true
	}
	if !c06WaitUntil(idle, c06Cap) {
		x.Class("inconclusive_not_quiescent")
	}
	// a panicking actor is stopped by its parent asynchronously: give that a chance
	c06WaitUntil(func() bool {
		for _, p := range env.pids {
			if p != nil && p.isStateSet(suspendedState) {
				return false
			}
		}
		return true
	}, 200*time.Millisecond)
	// stop what is still alive (roots first: a stopping parent takes its children down)
	cleaned := make(chan struct{})
	go func() {
		defer close(cleaned)
		for i, p := range env.pids {
			if p != nil && c.Actors[i].Parent < 0 {
				_ = p.Shutdown(ctx)
			}
		}
		for _, p := range env.pids {
			if p != nil {
				_ = p.Shutdown(ctx)
			}
		}
	}()
	select {
	case <-cleaned:
	case <-time.After(c06Cap):
		// e.g. a stop that never returns after a listed restart defect corrupted the actor
		x.Class("inconclusive_cleanup_stalled")
		leaked = true
		return
	}
	if !c06WaitUntil(idle, c06Cap) {
		x.Class("inconclusive_not_quiescent")
	}
	vfsched.SetNoise(0, 0, 0)
	if !c06Alive(sys) {
		x.Class("inconclusive_system_stopped_itself")
		return
	}

	c06Judge(x, c, h.snapshot())
}

// ---- oracle --------------------------------------------------------------------------------

type c06Iv struct {
	enter, exit int64 // exit = maxInt64 while open
	g           int64
	msg         int
	path        string
	q           int64
}

const c06Open = int64(1) << 62

func c06Judge(x *vfkit.X, c c06Case, evs []c06Ev) {
	nontrivial := false
	var knownFP string
	for ai := range c.Actors {
		var pre, recv, post []*c06Iv
		open := map[[2]int64]*c06Iv{} // (kind group, goroutine) -> open interval
		type stopCall struct {
			issue, ret, g int64
			kind          string
		}
		var calls []*stopCall
		var mine []c06Ev
		var rearms []int64
		// rearmedIn reports whether restartSubtree re-armed the behaviour stack inside (lo, hi)
		rearmedIn := func(lo, hi int64) bool {
			for _, ts := range rearms {
				if lo < ts && ts < hi {
					return true
				}
			}
			return false
		}
		for _, e := range evs {
			if e.A != ai {
				continue
			}
			mine = append(mine, e)
			switch e.K {
			case c06KPreEnter, c06KRecvEnter, c06KPostEnter:
				iv := &c06Iv{enter: e.TS, exit: c06Open, g: e.G, msg: e.Msg, path: e.Path, q: e.Q}
				// ctx.Shutdown nests PostStop inside Receive on one goroutine: key by kind too
				open[[2]int64{int64(e.K), e.G}] = iv
				switch e.K {
				case c06KPreEnter:
					pre = append(pre, iv)
				case c06KRecvEnter:
					recv = append(recv, iv)
				default:
					post = append(post, iv)
				}
			case c06KPreExit, c06KRecvExit, c06KPostExit:
				key := [2]int64{int64(e.K - 1), e.G}
				if iv := open[key]; iv != nil {
					iv.exit = e.TS
					delete(open, key)
				}
			case c06KRearm:
				rearms = append(rearms, e.TS)
			case c06KStopIssue:
				calls = append(calls, &stopCall{issue: e.TS, ret: c06Open, g: e.G, kind: e.Path})
				if e.Q > 0 {
					nontrivial = true
				}
				for _, r := range recv {
					if r.exit == c06Open {
						nontrivial = true // issued while a handler of the target was running
					}
				}
			case c06KStopReturn:
				for _, sc := range calls {
					if sc.g == e.G && sc.ret == c06Open {
						sc.ret = e.TS
					}
				}
			}
		}
		if len(mine) == 0 {
			continue
		}
		fail := func(fp, format string, args ...any) {
			c06Dump(x, ai, mine)
			x.Failf(fp, "actor %d: "+format, append([]any{ai}, args...)...)
		}
		if len(pre) == 0 {
			fail("hook-without-prestart", "hooks ran although PreStart never did")
		}
		tainted := map[int]bool{}
		// concurrentCalls: the harness call that ran this PreStart overlapped, in time,
		// another stop/restart call of the harness on the same actor
		concurrentCalls := func(p *c06Iv) bool {
			for _, own := range calls {
				if own.g != p.g || !(own.issue < p.enter && p.enter < own.ret) {
					continue
				}
				for _, other := range calls {
					if other != own && other.issue < own.ret && own.issue < other.ret {
						return true
					}
				}
			}
			return false
		}
		// twoWorkers: two Receives of this actor overlap on different goroutines inside (lo, hi)
		twoWorkers := func(lo, hi int64) bool {
			for i, r1 := range recv {
				for _, r2 := range recv[i+1:] {
					if r1.g != r2.g && r1.enter > lo && r2.enter > lo && r1.enter < hi && r2.enter < hi && r1.enter < r2.exit && r2.enter < r1.exit {
						return true
					}
				}
			}
			return false
		}
		// (a) PreStart completes before any Receive of its incarnation; no hook or handler
		//     before the first PreStart
		for _, e := range mine {
			if e.TS < pre[0].enter && e.K != c06KStopIssue && e.K != c06KStopReturn && e.K != c06KRearm {
				fail("event-before-prestart", "%s recorded before the first PreStart started", c06KindName[e.K])
			}
		}
		for k, p := range pre {
			// hooks are ordered: the PreStart of a new incarnation never runs while a
			// PostStop (or another PreStart) of the same actor is running
			for _, q := range post {
				if q.enter < p.exit && p.enter < q.exit {
					fp := c06FpUnserial + "prestart-overlaps-poststop"
					nontrivial = true
					if !x.Known(fp) {
						fail(fp, "PreStart #%d [%d,%d] on goroutine %d runs while PostStop (%s) [%d,%s] runs on goroutine %d", k+1, p.enter, p.exit, p.g, q.path, q.enter, c06TS(q.exit), q.g)
					}
					x.Class("known_" + fp)
					knownFP = fp
					tainted[k] = true
					if k > 0 {
						tainted[k-1] = true
					}
				}
			}
			if k > 0 && p.enter < pre[k-1].exit {
				fp := c06FpUnserial + "prestart-overlaps-prestart"
				nontrivial = true
				if !x.Known(fp) {
					fail(fp, "PreStart #%d [%d,%d] on goroutine %d runs while PreStart #%d [%d,%s] runs on goroutine %d", k+1, p.enter, p.exit, p.g, k, pre[k-1].enter, c06TS(pre[k-1].exit), pre[k-1].g)
				}
				x.Class("known_" + fp)
				knownFP = fp
				tainted[k], tainted[k-1] = true, true
			}
		}
		for k, p := range pre {
			which := "spawn"
			if k > 0 {
				which = "restart"
			}
			// the restart that ran this PreStart: where it re-armed the behaviour stack, and
			// whether it stopped the actor itself first (PostStop via restartSubtree on the
			// same goroutine) or found it not running and skipped the shutdown
			rearmAt, clean := c06Open, false
			if k > 0 {
				for _, e := range mine {
					if e.G == p.g && e.TS > pre[k-1].enter && e.TS < p.enter {
						if e.K == c06KRearm {
							rearmAt = e.TS
						}
						if e.K == c06KPostEnter && e.Path == "restart" {
							clean = true
						}
					}
				}
			}
			for _, r := range recv {
				if tainted[k] {
					// this PreStart overlapped a PostStop or another PreStart of the same actor
					// (listed unserialised restart): a Receive overlapping it as well has the
					// same cause and is not judged separately
					break
				}
				if r.enter < p.exit && p.enter < r.exit {
					if r.g == p.g {
						fail("prestart-receive-interleaved-one-goroutine", "PreStart #%d [%d,%d] and Receive [%d,%d] interleave on goroutine %d", k+1, p.enter, p.exit, r.enter, r.exit, p.g)
					}
					fp := c06FpPreStart + which
					switch {
					case k > 0 && r.enter > rearmAt:
						// the Receive started after this restart had re-armed the behaviour stack
						fp = c06FpRearm
					case k > 0 && concurrentCalls(p):
						// this Restart ran while another stop/restart call on the same actor was
						// in progress (listed: unserialised): it skipped the shutdown because
						// IsRunning() was false, or its wait for the worker was defeated by the
						// other restart's schedState.reset()
						fp = c06FpUnserial + "prestart-overlaps-receive"
					case k > 0 && !clean:
						// the Receive was already running: Restart found the actor not running
						// (stopped and still draining, or suspended), skipped the shutdown and
						// re-initialised it without waiting for its turn
						fp = c06FpSkipped + "prestart-overlaps-receive"
					}
					nontrivial = true
					if !x.Known(fp) {
						fail(fp, "PreStart #%d [%d,%d] on goroutine %d overlaps Receive(msg %d) [%d,%s] on goroutine %d: PreStart had not completed when a Receive was running", k+1, p.enter, p.exit, p.g, r.msg, r.enter, c06TS(r.exit), r.g)
					}
					x.Class("known_" + fp)
					knownFP = fp
				}
			}
		}
		// per incarnation k: events in [pre[k].enter, pre[k+1].enter)
		for k, p := range pre {
			if tainted[k] {
				// a listed unserialised restart overlapped this incarnation's hooks: which
				// incarnation a PostStop belongs to is ambiguous, nothing more is judged here
				continue
			}
			end := c06Open
			if k+1 < len(pre) {
				end = pre[k+1].enter
			}
			var ps []*c06Iv
			for _, q := range post {
				if q.enter > p.enter && q.enter < end {
					ps = append(ps, q)
				}
			}
			if len(ps) == 0 {
				continue
			}
			x.Class("path_" + ps[0].path)
			// (b) PostStop at most once per incarnation
			for _, extra := range ps[1:] {
				fp := "poststop-runs-twice:" + extra.path
				nontrivial = true
				if !x.Known(fp) {
					fail(fp, "incarnation %d: PostStop ran %d times (first via %s at %d, again via %s at %d)", k+1, len(ps), ps[0].path, ps[0].enter, extra.path, extra.enter)
				}
				x.Class("known_" + fp)
				knownFP = fp
			}
			P := ps[0]
			if P.q > 0 {
				nontrivial = true
				x.Class("stopped_with_backlog_" + P.path)
			}
			// was the PostStop part of an external stop call made by the harness on that goroutine?
			var owner *stopCall
			for _, sc := range calls {
				if sc.g == P.g && sc.issue < P.enter && P.enter < sc.ret {
					owner = sc
				}
			}
			lateAfterReturn := 0
			for _, r := range recv {
				if r.enter < p.enter || r.enter > end {
					continue
				}
				if r.exit < P.enter {
					continue // finished before PostStop started
				}
				if r.g == P.g && r.enter < P.enter && r.exit > P.exit {
					// PostStop nested inside this Receive on one goroutine: the actor stopped itself
					continue
				}
				// clause (c) (r started after PostStop started) or (d) (r overlaps PostStop on another goroutine)
				nontrivial = true
				kind := "a Receive was still running on another goroutine when PostStop started"
				if r.enter > P.enter {
					kind = "a Receive started after PostStop had started"
				}
				if r.enter > P.enter && rearmedIn(P.enter, r.enter) {
					// not a handler that was in flight when the stopper ran: Restart pushed
					// Receive back (resetBehavior) before re-running PreStart and a worker
					// delivered the old backlog to the stopped, not yet re-initialised actor
					if !x.Known(c06FpRearm) {
						fail(c06FpRearm, "incarnation %d: Receive(msg %d) [%d,%s] on goroutine %d started after PostStop (%s, [%d,%s]) and after Restart re-armed the behaviour stack, before PreStart #%d started", k+1, r.msg, r.enter, c06TS(r.exit), r.g, P.path, P.enter, c06TS(P.exit), k+2)
					}
					x.Class("known_" + c06FpRearm)
					knownFP = c06FpRearm
					continue
				}
				if c06OnTurnPath(P.path) && k > 0 && (r.g != P.g || twoWorkers(p.enter, end)) {
					// this incarnation was started by Restart and two workers ran the actor at
					// once (restartSubtree resets schedState to Idle under a worker that holds
					// the turn, the PostStart that follows schedules a second one): with a single
					// worker no other goroutine can enter Receive while the turn owner is inside
					// its own stop, so the Receive on the other goroutine is the second worker's,
					// not a failure of the on-turn stop
					fp := "restart-two-workers-on-one-actor"
					if !x.Known(fp) {
						fail(fp, "incarnation %d (started by Restart): two dispatcher workers run the actor concurrently; PostStop(%s) [%d,%s] on goroutine %d overlaps Receive(msg %d) [%d,%s] on goroutine %d", k+1, P.path, P.enter, c06TS(P.exit), P.g, r.msg, r.enter, c06TS(r.exit), r.g)
					}
					x.Class("known_" + fp)
					knownFP = fp
					continue
				}
				if c06OnTurnPath(P.path) {
					fail("onturn-stop-overlaps-receive:"+P.path, "incarnation %d: %s: PostStop(%s) [%d,%s] goroutine %d, Receive(msg %d) [%d,%s] goroutine %d", k+1, kind, P.path, P.enter, c06TS(P.exit), P.g, r.msg, r.enter, c06TS(r.exit), r.g)
				}
				if owner != nil && r.enter > owner.ret {
					lateAfterReturn++
				}
				fp := c06FpOffTurn + P.path
				if !x.Known(fp) {
					fail(fp, "incarnation %d: %s: PostStop via %s [%d,%s] on goroutine %d, Receive(msg %d) [%d,%s] on goroutine %d", k+1, kind, P.path, P.enter, c06TS(P.exit), P.g, r.msg, r.enter, c06TS(r.exit), r.g)
				}
				x.Class("known_offturn_overlap_" + P.path)
				knownFP = fp
			}
			// The listed off-turn finding explains handlers that were in flight, or whose
			// behaviour had already been fetched, when the stopper cleared the behaviour
			// stack: at most one Receive can start after the stop call has returned.
			if lateAfterReturn > 1 {
				fail("receive-after-stop-returned", "incarnation %d: %d Receives started after the %s call that ran PostStop had returned", k+1, lateAfterReturn, owner.kind)
			}
		}
	}
	if nontrivial {
		x.NonTrivial()
	}
	if knownFP != "" {
		// every other clause has been judged; let the kit count the listed finding
		x.Failf(knownFP, "listed finding observed (all other clauses of the case held)")
	}
}

func c06TS(v int64) string {
	if v == c06Open {
		return "open"
	}
	return fmt.Sprint(v)
}

func c06Dump(x *vfkit.X, ai int, mine []c06Ev) {
	if len(mine) > c06MaxLogLines {
		mine = mine[len(mine)-c06MaxLogLines:]
	}
	for _, e := range mine {
		x.Logf("ts=%d g=%d actor=%d %s msg=%d %s q=%d", e.TS, e.G, ai, c06KindName[e.K], e.Msg, e.Path, e.Q)
	}
}

func TestVF_C06_lifecycle(t *testing.T) {
	c06Start(t)
	vfkit.Run(t, vfkit.Spec[c06Case]{
		ID: "C06", Unit: "lifecycle",
		Rule: "cases = a family of 1..4 instrumented actors (roots/children, long-lived or time/message-count passivation, stop-on-error supervisor) on one of three real actor systems (throughput budget 1/4/32), 1..3 concurrent senders with handler think times 0..3ms (rarely 15ms), 1..3 stop actions (PoisonPill, ctx.Shutdown, ctx.Stop(child), panic->stop directive, Shutdown of another actor from a handler, Kill, PID.Shutdown, parent.Stop, Restart) fired when the target has entered a generated number of handlers, plus a schedule-noise profile; non-trivial = some stop was issued, or some PostStop started, while the target had a queued message or a handler in flight; distinct = distinct cases",
		Gen:  c06Gen, Exec: c06Exec,
		ReplayReps: 30,
	})
}

//go:build verif

package actor

// c06RearmHook is called (through a prologue injected by the build overlay) at the
// top of (*PID).resetBehavior, the point where restartSubtree pushes the actor's
// Receive back onto the behaviour stack before it re-runs PreStart. Observation only.
var c06RearmHook func(pid *PID)

//go:build verif

package remote

import (
	"fmt"
	"reflect"
	"testing"

	"google.golang.org/protobuf/proto"
	"pgregory.net/rapid"

	"github.com/tochemey/goakt/v4/internal/vfkit"
	"github.com/tochemey/goakt/v4/test/data/testpb"
)

// ---------------------------------------------------------------------------
// C25 / select: Config.Serializer picks the serializer the documented dispatch
// order selects (remote.WithSerializers, "Dispatch order"):
//   1. Exact concrete type — the entry registered with the message's dynamic type.
//   2. Interface match — the first registered interface the message implements.
//   Registration order within each category determines priority.
//   Returns nil when message is nil or no entry matches.
// ---------------------------------------------------------------------------

type c25Tagged interface{ c25Tag() }
type c25Audited interface{ c25Audit() }

type c25SelA struct{ X int } // *c25SelA implements c25Tagged and c25Audited
type c25SelB struct{ Y int } // c25SelB (value) implements c25Tagged
type c25SelC struct{ Z int } // *c25SelC implements c25Audited
type c25SelD struct{ W int } // implements nothing

func (*c25SelA) c25Tag()   {}
func (*c25SelA) c25Audit() {}
func (c25SelB) c25Tag()    {}
func (*c25SelC) c25Audit() {}

// c25Mark is a user-supplied serializer; ID makes instances distinguishable
// (the built-in serializers are zero-size structs, pointer identity is useless).
type c25Mark struct{ ID int }

func (m *c25Mark) Serialize(any) ([]byte, error)   { return []byte{0xC2, 0x5C, byte(m.ID)}, nil }
func (m *c25Mark) Deserialize([]byte) (any, error) { return nil, fmt.Errorf("c25Mark %d", m.ID) }

// registration targets
var c25SelTargets = []string{"A", "B", "C", "D", "Reply", "Ping", "iTagged", "iAudited", "iProto"}

func c25SelTargetValue(name string) any {
	switch name {
	case "A":
		return new(c25SelA)
	case "B":
		return new(c25SelB)
	case "C":
		return new(c25SelC)
	case "D":
		return new(c25SelD)
	case "Reply":
		return new(testpb.Reply)
	case "Ping":
		return new(testpb.TestPing)
	case "iTagged":
		return (*c25Tagged)(nil)
	case "iAudited":
		return (*c25Audited)(nil)
	case "iProto":
		return (*proto.Message)(nil)
	}
	panic("c25: unknown target " + name)
}

// c25SelKey is the type an entry is keyed by, per the option's documentation.
func c25SelKey(name string) reflect.Type {
	t := reflect.TypeOf(c25SelTargetValue(name))
	if name[0] == 'i' {
		return t.Elem()
	}
	return t
}

var c25SelQueries = []string{"&A", "A", "&B", "B", "&C", "C", "&D", "&Reply", "&Ping", "&Count", "nil"}

func c25SelQueryValue(name string) any {
	switch name {
	case "&A":
		return &c25SelA{X: 1}
	case "A":
		return c25SelA{X: 1}
	case "&B":
		return &c25SelB{Y: 2}
	case "B":
		return c25SelB{Y: 2}
	case "&C":
		return &c25SelC{Z: 3}
	case "C":
		return c25SelC{Z: 3}
	case "&D":
		return &c25SelD{}
	case "&Reply":
		return &testpb.Reply{Content: "x"}
	case "&Ping":
		return &testpb.TestPing{}
	case "&Count":
		return &testpb.TestCount{Value: 1}
	}
	return nil
}

type c25SelReg struct {
	Target string `json:"target"`
	Mark   int    `json:"mark"`
}

type c25SelectCase struct {
	Plan    []c25SelReg `json:"plan"`    // distinct targets, registration order
	Queries []string    `json:"queries"` // messages asked for
}

func c25GenSelect(t *rapid.T) c25SelectCase {
	var c c25SelectCase
	n := rapid.IntRange(0, 6).Draw(t, "plan_n")
	perm := rapid.Permutation(c25SelTargets).Draw(t, "targets")
	// bias: exact + interface entries that match the same message
	if n >= 2 && rapid.Bool().Draw(t, "conflict") {
		pairs := [][2]string{{"A", "iTagged"}, {"A", "iAudited"}, {"C", "iAudited"}, {"Reply", "iProto"}, {"Ping", "iProto"}, {"iTagged", "iAudited"}, {"iTagged", "iAudited"}, {"iAudited", "iTagged"}, {"B", "iTagged"}}
		p := rapid.SampledFrom(pairs).Draw(t, "pair")
		if rapid.Bool().Draw(t, "pair_swap") {
			p[0], p[1] = p[1], p[0]
		}
		rest := []string{}
		for _, s := range perm {
			if s != p[0] && s != p[1] {
				rest = append(rest, s)
			}
		}
		at := rapid.IntRange(0, n-2).Draw(t, "pair_at")
		perm = append(append(append([]string{}, rest[:at]...), p[0], p[1]), rest[at:]...)
	}
	for i := 0; i < n; i++ {
		c.Plan = append(c.Plan, c25SelReg{Target: perm[i], Mark: rapid.IntRange(1, 4).Draw(t, "mark")})
	}
	c.Queries = rapid.SliceOfNDistinct(rapid.SampledFrom(c25SelQueries), 3, 8, func(s string) string { return s }).Draw(t, "queries")
	return c
}

// c25SelExpect computes, from the documentation, which serializer identities are acceptable.
// Identity: mark id (>0) for plan entries, 0 for the default ProtoSerializer, -1 for nil.
type c25SelVerdict struct {
	Acceptable map[int]bool // strict, documented order
	Matching   map[int]bool // every entry that matches at all (exact or implemented interface)
	Exact      bool
	NIfaces    int
}

func c25SelExpect(plan []c25SelReg, msg any) c25SelVerdict {
	v := c25SelVerdict{Acceptable: map[int]bool{}, Matching: map[int]bool{}}
	if msg == nil {
		v.Acceptable[-1] = true
		v.Matching[-1] = true
		return v
	}
	mt := reflect.TypeOf(msg)
	protoKey := reflect.TypeFor[proto.Message]()
	type entry struct {
		key reflect.Type
		id  int
	}
	// the default proto.Message entry is registered first by NewConfig; when the
	// plan overrides it (documented: "overrides that default") its position in
	// the "registration order" is not specified: both readings are accepted.
	overridePos := -1
	for i, r := range plan {
		if r.Target == "iProto" {
			overridePos = i
		}
	}
	orders := [][]entry{}
	build := func(protoFirst bool) []entry {
		var es []entry
		if overridePos < 0 {
			es = append(es, entry{protoKey, 0})
		} else if protoFirst {
			es = append(es, entry{protoKey, plan[overridePos].Mark})
		}
		for i, r := range plan {
			if i == overridePos && protoFirst {
				continue
			}
			es = append(es, entry{c25SelKey(r.Target), r.Mark})
		}
		return es
	}
	orders = append(orders, build(true))
	if overridePos >= 0 {
		orders = append(orders, build(false))
	}
	for _, es := range orders {
		picked := -1
		found := false
		for _, e := range es {
			if e.key.Kind() != reflect.Interface && e.key == mt {
				picked, found = e.id, true
				v.Exact = true
				break
			}
		}
		if !found {
			for _, e := range es {
				if e.key.Kind() == reflect.Interface && mt.Implements(e.key) {
					picked, found = e.id, true
					break
				}
			}
		}
		v.Acceptable[picked] = true
	}
	n := 0
	for _, e := range orders[0] {
		if (e.key.Kind() != reflect.Interface && e.key == mt) || (e.key.Kind() == reflect.Interface && mt.Implements(e.key)) {
			v.Matching[e.id] = true
			if e.key.Kind() == reflect.Interface {
				n++
			}
		}
	}
	v.NIfaces = n
	if len(v.Matching) == 0 {
		v.Matching[-1] = true
	}
	return v
}

func c25SelIdentity(s Serializer) int {
	switch v := s.(type) {
	case nil:
		return -1
	case *c25Mark:
		return v.ID
	case *ProtoSerializer:
		return 0
	}
	return -99
}

// c25SelReps: Config.Serializer must return the documented serializer on
// every call; asking repeatedly exposes an answer that depends on anything
// other than the registrations (the oracle itself is deterministic).
const c25SelReps = 64

func c25ExecSelect(x *vfkit.X, c c25SelectCase) {
	opts := []Option{}
	for _, r := range c.Plan {
		opts = append(opts, WithSerializers(c25SelTargetValue(r.Target), &c25Mark{ID: r.Mark}))
	}
	cfg := NewConfig("127.0.0.1", 0, opts...)
	orderKnown := x.Known("config-serializer-exact-loses-to-interface") || x.Known("config-serializer-interface-order")
	for _, q := range c.Queries {
		msg := c25SelQueryValue(q)
		exp := c25SelExpect(c.Plan, msg)
		distinctMatching := len(exp.Matching)
		if exp.Exact && exp.NIfaces >= 1 && distinctMatching >= 2 {
			x.NonTrivial()
			x.Class("exact_and_interface_match")
		} else if exp.NIfaces >= 2 && distinctMatching >= 2 {
			x.NonTrivial()
			x.Class("several_interfaces_match")
		} else if exp.Matching[-1] {
			x.Class("no_match")
		} else {
			x.Class("single_match")
		}
		for rep := 0; rep < c25SelReps; rep++ {
			got := c25SelIdentity(cfg.Serializer(msg))
			if exp.Acceptable[got] {
				continue
			}
			if !exp.Matching[got] {
				x.Failf("config-serializer-nonmatching", "plan %v: Config.Serializer(%s) returned serializer #%d which is not registered for a type the message matches (matching: %v)", c.Plan, q, got, exp.Matching)
			}
			fp := "config-serializer-interface-order"
			if exp.Exact {
				fp = "config-serializer-exact-loses-to-interface"
			}
			if orderKnown && x.Known(fp) {
				// listed finding: any matching entry is accepted, keep checking the rest
				x.Class("known_order_deviation_tolerated")
				continue
			}
			x.Failf(fp, "plan %v: Config.Serializer(%s) returned serializer #%d on call %d, documented order selects %v (exact entry present: %v, matching interface entries: %d)", c.Plan, q, got, rep+1, exp.Acceptable, exp.Exact, exp.NIfaces)
		}
	}
	// Serializers() is documented to hold every entry added via WithSerializers plus the default
	m := cfg.Serializers()
	for _, r := range c.Plan {
		if got := c25SelIdentity(m[c25SelKey(r.Target)]); got != r.Mark {
			x.Failf("config-serializers-map-entry-wrong", "plan %v: Serializers()[%s] is #%d, registered #%d", c.Plan, r.Target, got, r.Mark)
		}
	}
}

func TestVF_C25_select(t *testing.T) {
	vfkit.Run(t, vfkit.Spec[c25SelectCase]{
		ID: "C25", Unit: "select",
		Rule: "cases = registration plan (0..6 distinct targets out of 4 struct types, 2 proto types, 2 user interfaces, proto.Message; generated order; user serializers with ids) given to remote.NewConfig via WithSerializers, and 3..8 query messages (pointer and value forms, unregistered types, nil); every query is asked 64 times; non-trivial = a query matched by an exact entry and an interface entry, or by two interface entries, with different serializers",
		Gen:  c25GenSelect, Exec: c25ExecSelect,
		ReplayReps: 3,
	})
}

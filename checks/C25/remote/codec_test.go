//go:build verif

package remote

import (
	"bytes"
	"encoding/binary"
	"fmt"
	"math"
	"reflect"
	"sort"
	"strings"
	"sync"
	"testing"
	"time"
	"unicode/utf8"

	"google.golang.org/protobuf/proto"
	"google.golang.org/protobuf/reflect/protoreflect"
	"google.golang.org/protobuf/reflect/protoregistry"
	"pgregory.net/rapid"

	_ "github.com/tochemey/goakt/v4/internal/internalpb"
	"github.com/tochemey/goakt/v4/internal/vfkit"
	_ "github.com/tochemey/goakt/v4/test/data/testpb"
)

// ---------------------------------------------------------------------------
// C25 / codec: Deserialize(Serialize(m)) == m for the three built-in
// serializers, over a generated value domain; frames are self-describing
// (documented layout); unsupported messages are refused with an error;
// truncated frames are refused; malformed frames never panic.
// ---------------------------------------------------------------------------

// ---- message types registered with the CBOR / JSON serializers -------------

type c25Flat struct {
	I  int64   `json:"i" cbor:"i"`
	U  uint64  `json:"u,omitempty" cbor:"u,omitempty"`
	S  string  `json:"s"`
	B  bool    // no tags: field name is the key
	F  float64 `json:"f"`
	Bs []byte  `json:"bs"`
}

type c25Nested struct {
	Name string
	Tags []string         `json:"tags" cbor:"tags"`
	M    map[string]int64 `json:"m,omitempty" cbor:"m,omitempty"`
	P    *c25Flat         `json:"p"`
	L    []c25Flat
	T    time.Time `json:"t"`
	D    time.Duration
	I8   int8
	U16  uint16
	F32  float32          `json:"f32"`
	E    c25Flat          `json:"e"`
	MI   map[int32]string `json:"mi"`
}

type (
	c25ID    string
	c25Count int64
	// c25Unreg is never registered anywhere.
	c25Unreg struct{ A int }
)

var c25RegisterOnce sync.Once

// c25Register registers the message family the documented way (through the
// configuration options), which fills the global type registry.
func c25Register() {
	c25RegisterOnce.Do(func() {
		_ = NewConfig("127.0.0.1", 0,
			WithSerializers(new(c25Flat), NewCBORSerializer()),
			WithSerializables(new(c25Nested), new(c25ID)),
			WithJSONSerializables(new(c25Count)),
		)
	})
}

// ---- case -------------------------------------------------------------------

type c25FlatSpec struct {
	I     int64  `json:"i"`
	U     uint64 `json:"u"`
	S     []byte `json:"s"`
	B     bool   `json:"b"`
	FBits uint64 `json:"f_bits"`
	Bs    []byte `json:"bs"`
	BsNil bool   `json:"bs_nil"`
}

type c25NestedSpec struct {
	Name    []byte        `json:"name"`
	Tags    [][]byte      `json:"tags"`
	TagsNil bool          `json:"tags_nil"`
	MK      [][]byte      `json:"mk"`
	MV      []int64       `json:"mv"`
	P       *c25FlatSpec  `json:"p"`
	L       []c25FlatSpec `json:"l"`
	TSec    int64         `json:"t_sec"`
	TOffMin int           `json:"t_off_min"`
	D       int64         `json:"d"`
	I8      int8          `json:"i8"`
	U16     uint16        `json:"u16"`
	F32Bits uint32        `json:"f32_bits"`
	E       c25FlatSpec   `json:"e"`
	MIK     []int32       `json:"mik"`
	MIV     [][]byte      `json:"miv"`
}

type c25ValSpec struct {
	// flat_ptr flat_val nested_ptr id_ptr count_ptr unreg | string bool int int8 int16
	// int32 int64 uint uint8 uint16 uint32 uint64 float32 float64
	Type   string         `json:"type"`
	Flat   *c25FlatSpec   `json:"flat,omitempty"`
	Nested *c25NestedSpec `json:"nested,omitempty"`
	Str    []byte         `json:"str,omitempty"`
	I      int64          `json:"i,omitempty"`
	U      uint64         `json:"u,omitempty"`
	FBits  uint64         `json:"f_bits,omitempty"`
	B      bool           `json:"b,omitempty"`
}

type c25Mut struct {
	Kind int `json:"kind"` // 0 none, 1 truncate to Pos bytes, 2 xor byte at Pos with Val, 3 overwrite header word (Pos&1) with Val32
	Pos  int `json:"pos"`  // per-mille position (resolved against the frame length)
	Val  int `json:"val"`
}

type c25CodecCase struct {
	Codec     string      `json:"codec"` // proto | cbor | json
	Shared    bool        `json:"shared"`
	ProtoName string      `json:"proto_name,omitempty"`
	ProtoWire []byte      `json:"proto_wire,omitempty"`
	Val       *c25ValSpec `json:"val,omitempty"`
	Mut       c25Mut      `json:"mut"`
}

// ---- generators ---------------------------------------------------------------

var c25ProtoNamesOnce sync.Once
var c25ProtoNamesList []string

// c25ProtoNames lists every message of the test protos and the internal protos
// linked into the binary, sorted (deterministic for a given build).
func c25ProtoNames() []string {
	c25ProtoNamesOnce.Do(func() {
		var walk func(mds protoreflect.MessageDescriptors)
		walk = func(mds protoreflect.MessageDescriptors) {
			for i := 0; i < mds.Len(); i++ {
				md := mds.Get(i)
				if md.IsMapEntry() {
					continue
				}
				c25ProtoNamesList = append(c25ProtoNamesList, string(md.FullName()))
				walk(md.Messages())
			}
		}
		protoregistry.GlobalFiles.RangeFiles(func(fd protoreflect.FileDescriptor) bool {
			switch string(fd.Package()) {
			case "testpb", "internalpb", "goaktpb":
				walk(fd.Messages())
			}
			return true
		})
		c25ProtoNamesList = append(c25ProtoNamesList, "google.protobuf.Duration", "google.protobuf.Any", "google.protobuf.Timestamp")
		sort.Strings(c25ProtoNamesList)
	})
	return c25ProtoNamesList
}

func c25GenI64(t *rapid.T, label string) int64 {
	return rapid.OneOf(
		rapid.Int64Range(-30, 30),
		rapid.SampledFrom([]int64{math.MinInt64, math.MinInt64 + 1, -1 << 53, -(1 << 53) - 1, -1 << 32, -1 << 31, -65537, -65536, -257, -256, -25, -24, -1, 0, 1, 23, 24, 255, 256, 65535, 65536, 1<<31 - 1, 1 << 31, 1<<32 - 1, 1 << 32, 1 << 53, 1<<53 + 1, math.MaxInt64 - 1, math.MaxInt64}),
		rapid.Int64(),
	).Draw(t, label)
}

func c25GenU64(t *rapid.T, label string) uint64 {
	return rapid.OneOf(
		rapid.Uint64Range(0, 30),
		rapid.SampledFrom([]uint64{0, 23, 24, 255, 256, 65535, 65536, 1<<32 - 1, 1 << 32, 1 << 53, 1<<53 + 1, 1<<63 - 1, 1 << 63, math.MaxUint64 - 1, math.MaxUint64}),
		rapid.Uint64(),
	).Draw(t, label)
}

// c25GenF64Bits draws float64 bit patterns; nan/inf only when allowed.
func c25GenF64Bits(t *rapid.T, label string, special bool) uint64 {
	k := rapid.IntRange(0, 9).Draw(t, label+"_kind")
	switch {
	case k == 0:
		return math.Float64bits(0)
	case k == 1:
		return math.Float64bits(float64(rapid.Int64Range(-1000, 1000).Draw(t, label+"_int")))
	case k == 2:
		return math.Float64bits(rapid.SampledFrom([]float64{math.Copysign(0, -1), 0.1, -0.1, 1.5, 1e21, 1e-7, 1e20, 123456789.123456789, math.MaxFloat64, -math.MaxFloat64, math.SmallestNonzeroFloat64, math.MaxFloat32, 1 << 53, 1<<53 + 2, 0.30000000000000004, 5e-324, 2.2250738585072014e-308}).Draw(t, label+"_b"))
	case k == 3 && special:
		return math.Float64bits(rapid.SampledFrom([]float64{math.NaN(), math.Inf(1), math.Inf(-1)}).Draw(t, label+"_sp"))
	default:
		f := rapid.Float64().Draw(t, label+"_any")
		if !special && (math.IsNaN(f) || math.IsInf(f, 0)) {
			f = 0
		}
		return math.Float64bits(f)
	}
}

// c25GenStr draws string bytes. Valid UTF-8 unless raw is set (then sometimes arbitrary bytes).
func c25GenStr(t *rapid.T, label string, raw bool) []byte {
	k := rapid.IntRange(0, 9).Draw(t, label+"_kind")
	switch {
	case k == 0:
		return []byte{}
	case k == 1:
		return []byte(rapid.SampledFrom([]string{"\"", "\\", "\x00", "\n\r\t", "  ", "</script>&<>", "é", "日本語", "😀", "\u007f", "a\"b\\c/d", " ", "null", "1", "{}", "�", "\x1f"}).Draw(t, label+"_b"))
	case k == 2 && raw:
		return rapid.SliceOfN(rapid.Byte(), 1, 12).Draw(t, label+"_raw")
	case k == 3:
		n := rapid.SampledFrom([]int{23, 24, 255, 256, 300}).Draw(t, label+"_len")
		return bytes.Repeat([]byte{'x'}, n)
	default:
		return []byte(rapid.StringN(0, 12, 48).Draw(t, label+"_s"))
	}
}

func c25GenFlat(t *rapid.T, label string, special, raw bool) c25FlatSpec {
	var f c25FlatSpec
	if rapid.IntRange(0, 7).Draw(t, label+"_zero") == 0 {
		f.BsNil = true
		return f
	}
	f.I = c25GenI64(t, label+"_i")
	f.U = c25GenU64(t, label+"_u")
	f.S = c25GenStr(t, label+"_s", raw)
	f.B = rapid.Bool().Draw(t, label+"_b")
	f.FBits = c25GenF64Bits(t, label+"_f", special)
	switch rapid.IntRange(0, 3).Draw(t, label+"_bs_kind") {
	case 0:
		f.BsNil = true
	case 1:
		f.Bs = []byte{}
	default:
		f.Bs = rapid.SliceOfN(rapid.Byte(), 1, 40).Draw(t, label+"_bs")
	}
	return f
}

func c25GenNested(t *rapid.T, special, raw bool) c25NestedSpec {
	var n c25NestedSpec
	n.Name = c25GenStr(t, "name", raw)
	switch rapid.IntRange(0, 3).Draw(t, "tags_kind") {
	case 0:
		n.TagsNil = true
	case 1:
		n.Tags = [][]byte{}
	default:
		k := rapid.IntRange(1, 4).Draw(t, "tags_n")
		for i := 0; i < k; i++ {
			n.Tags = append(n.Tags, c25GenStr(t, "tag", raw))
		}
	}
	mk := rapid.IntRange(0, 3).Draw(t, "m_n")
	seen := map[string]bool{}
	for i := 0; i < mk; i++ {
		k := c25GenStr(t, "mk", false)
		if seen[string(k)] {
			continue
		}
		seen[string(k)] = true
		n.MK = append(n.MK, k)
		n.MV = append(n.MV, c25GenI64(t, "mv"))
	}
	if rapid.Bool().Draw(t, "p_set") {
		p := c25GenFlat(t, "p", special, raw)
		n.P = &p
	}
	ln := rapid.IntRange(0, 3).Draw(t, "l_n")
	for i := 0; i < ln; i++ {
		n.L = append(n.L, c25GenFlat(t, "l", special, raw))
	}
	// whole seconds only: the CBOR encoder is configured with TimeUnixDynamic
	// (sub-second values travel as float64), the property does not speak about
	// sub-microsecond precision of timestamps, so that is left out of the domain.
	n.TSec = rapid.OneOf(rapid.Int64Range(0, 7258118400), rapid.SampledFrom([]int64{0, 1, 1700000000, 4102444800, 7258118400, 1<<31 - 1, 1 << 31, 1<<32 - 1, 1 << 32})).Draw(t, "t_sec")
	n.TOffMin = rapid.SampledFrom([]int{0, 0, 60, -300, 330, 765}).Draw(t, "t_off")
	n.D = c25GenI64(t, "d")
	n.I8 = rapid.Int8().Draw(t, "i8")
	n.U16 = rapid.Uint16().Draw(t, "u16")
	f32 := rapid.OneOf(rapid.SampledFrom([]float32{0, 0.1, -0.1, 1.5, 3.4028235e38, 1e-45, 16777216, 16777217}), rapid.Float32()).Draw(t, "f32")
	if !special && (math.IsNaN(float64(f32)) || math.IsInf(float64(f32), 0)) {
		f32 = 0
	}
	n.F32Bits = math.Float32bits(f32)
	n.E = c25GenFlat(t, "e", special, raw)
	mi := rapid.IntRange(0, 3).Draw(t, "mi_n")
	seenI := map[int32]bool{}
	for i := 0; i < mi; i++ {
		k := rapid.OneOf(rapid.Int32Range(-3, 3), rapid.SampledFrom([]int32{math.MinInt32, math.MaxInt32}), rapid.Int32()).Draw(t, "mik")
		if seenI[k] {
			continue
		}
		seenI[k] = true
		n.MIK = append(n.MIK, k)
		n.MIV = append(n.MIV, c25GenStr(t, "miv", raw))
	}
	return n
}

var c25PrimTypes = []string{"string", "bool", "int", "int8", "int16", "int32", "int64", "uint", "uint8", "uint16", "uint32", "uint64", "float32", "float64"}

func c25ClampInt(typ string, v int64) int64 {
	lim := map[string][2]int64{"int8": {math.MinInt8, math.MaxInt8}, "int16": {math.MinInt16, math.MaxInt16}, "int32": {math.MinInt32, math.MaxInt32}}
	if l, ok := lim[typ]; ok {
		span := uint64(l[1]-l[0]) + 1
		return l[0] + int64(uint64(v-l[0])%span)
	}
	return v
}

func c25ClampUint(typ string, v uint64) uint64 {
	switch typ {
	case "uint8":
		return v & 0xff
	case "uint16":
		return v & 0xffff
	case "uint32":
		return v & 0xffffffff
	}
	return v
}

func c25GenVal(t *rapid.T, special, raw bool) *c25ValSpec {
	v := &c25ValSpec{}
	switch rapid.IntRange(0, 11).Draw(t, "val_kind") {
	case 0, 1, 2:
		v.Type = "flat_ptr"
		f := c25GenFlat(t, "flat", special, raw)
		v.Flat = &f
	case 3:
		v.Type = "flat_val"
		f := c25GenFlat(t, "flat", special, raw)
		v.Flat = &f
	case 4, 5, 6:
		v.Type = "nested_ptr"
		n := c25GenNested(t, special, raw)
		v.Nested = &n
	case 7:
		v.Type = "id_ptr"
		v.Str = c25GenStr(t, "id", raw)
	case 8:
		v.Type = "count_ptr"
		v.I = c25GenI64(t, "count")
	default:
		v.Type = rapid.SampledFrom(c25PrimTypes).Draw(t, "prim")
		switch v.Type {
		case "string":
			v.Str = c25GenStr(t, "str", raw)
		case "bool":
			v.B = rapid.Bool().Draw(t, "bool")
		case "float64":
			v.FBits = c25GenF64Bits(t, "f64", special)
		case "float32":
			f := float32(math.Float64frombits(c25GenF64Bits(t, "f32v", special)))
			if !special && (math.IsInf(float64(f), 0) || math.IsNaN(float64(f))) {
				f = 1
			}
			v.FBits = math.Float64bits(float64(f))
		case "int", "int8", "int16", "int32", "int64":
			v.I = c25ClampInt(v.Type, c25GenI64(t, "ival"))
		default:
			v.U = c25ClampUint(v.Type, c25GenU64(t, "uval"))
		}
	}
	return v
}

// c25GenProtoMsg fills a message reflectively: every field kind, lists, maps, oneofs,
// nested messages (bounded depth).
func c25GenProtoMsg(t *rapid.T, m protoreflect.Message, depth int) {
	md := m.Descriptor()
	fds := md.Fields()
	chosenOneof := map[string]int{}
	for i := 0; i < md.Oneofs().Len(); i++ {
		od := md.Oneofs().Get(i)
		chosenOneof[string(od.FullName())] = rapid.IntRange(-1, od.Fields().Len()-1).Draw(t, "oneof")
	}
	for i := 0; i < fds.Len(); i++ {
		fd := fds.Get(i)
		if od := fd.ContainingOneof(); od != nil {
			want := chosenOneof[string(od.FullName())]
			if want < 0 || od.Fields().Get(want) != fd {
				continue
			}
		} else if rapid.IntRange(0, 3).Draw(t, "present") == 0 {
			continue
		}
		isMsg := fd.Kind() == protoreflect.MessageKind || fd.Kind() == protoreflect.GroupKind
		switch {
		case fd.IsMap():
			if depth >= 3 && fd.MapValue().Kind() == protoreflect.MessageKind {
				continue
			}
			mp := m.Mutable(fd).Map()
			n := rapid.IntRange(0, 3).Draw(t, "map_n")
			for j := 0; j < n; j++ {
				k := c25GenProtoScalar(t, fd.MapKey()).MapKey()
				if fd.MapValue().Kind() == protoreflect.MessageKind {
					v := mp.NewValue()
					c25GenProtoMsg(t, v.Message(), depth+1)
					mp.Set(k, v)
				} else {
					mp.Set(k, c25GenProtoScalar(t, fd.MapValue()))
				}
			}
		case fd.IsList():
			if depth >= 3 && isMsg {
				continue
			}
			l := m.Mutable(fd).List()
			n := rapid.IntRange(0, 3).Draw(t, "list_n")
			for j := 0; j < n; j++ {
				if isMsg {
					v := l.NewElement()
					c25GenProtoMsg(t, v.Message(), depth+1)
					l.Append(v)
				} else {
					l.Append(c25GenProtoScalar(t, fd))
				}
			}
		case isMsg:
			if depth >= 3 {
				continue
			}
			c25GenProtoMsg(t, m.Mutable(fd).Message(), depth+1)
		default:
			m.Set(fd, c25GenProtoScalar(t, fd))
		}
	}
}

func c25GenProtoScalar(t *rapid.T, fd protoreflect.FieldDescriptor) protoreflect.Value {
	switch fd.Kind() {
	case protoreflect.BoolKind:
		return protoreflect.ValueOfBool(rapid.Bool().Draw(t, "pb_bool"))
	case protoreflect.EnumKind:
		vals := fd.Enum().Values()
		if rapid.IntRange(0, 5).Draw(t, "pb_enum_unknown") == 0 && fd.Enum().IsClosed() == false {
			return protoreflect.ValueOfEnum(protoreflect.EnumNumber(rapid.Int32Range(-2, 1000).Draw(t, "pb_enum_num")))
		}
		return protoreflect.ValueOfEnum(vals.Get(rapid.IntRange(0, vals.Len()-1).Draw(t, "pb_enum")).Number())
	case protoreflect.Int32Kind, protoreflect.Sint32Kind, protoreflect.Sfixed32Kind:
		return protoreflect.ValueOfInt32(int32(c25ClampInt("int32", c25GenI64(t, "pb_i32"))))
	case protoreflect.Uint32Kind, protoreflect.Fixed32Kind:
		return protoreflect.ValueOfUint32(uint32(c25ClampUint("uint32", c25GenU64(t, "pb_u32"))))
	case protoreflect.Int64Kind, protoreflect.Sint64Kind, protoreflect.Sfixed64Kind:
		return protoreflect.ValueOfInt64(c25GenI64(t, "pb_i64"))
	case protoreflect.Uint64Kind, protoreflect.Fixed64Kind:
		return protoreflect.ValueOfUint64(c25GenU64(t, "pb_u64"))
	case protoreflect.FloatKind:
		return protoreflect.ValueOfFloat32(float32(math.Float64frombits(c25GenF64Bits(t, "pb_f32", true))))
	case protoreflect.DoubleKind:
		return protoreflect.ValueOfFloat64(math.Float64frombits(c25GenF64Bits(t, "pb_f64", true)))
	case protoreflect.StringKind:
		return protoreflect.ValueOfString(string(c25GenStr(t, "pb_str", false)))
	case protoreflect.BytesKind:
		return protoreflect.ValueOfBytes(rapid.SliceOfN(rapid.Byte(), 0, 24).Draw(t, "pb_bytes"))
	}
	panic("c25: unexpected proto kind " + fd.Kind().String())
}

func c25GenMut(t *rapid.T) c25Mut {
	switch rapid.IntRange(0, 9).Draw(t, "mut_kind") {
	case 0, 1:
		return c25Mut{Kind: 1, Pos: rapid.OneOf(rapid.IntRange(0, 1000), rapid.SampledFrom([]int{0, 1, 999, 1000})).Draw(t, "mut_pos"), Val: rapid.IntRange(0, 12).Draw(t, "mut_abs")}
	case 2:
		return c25Mut{Kind: 2, Pos: rapid.IntRange(0, 1000).Draw(t, "mut_pos"), Val: rapid.IntRange(1, 255).Draw(t, "mut_val")}
	case 3:
		return c25Mut{Kind: 3, Pos: rapid.IntRange(0, 1).Draw(t, "mut_word"), Val: rapid.SampledFrom([]int{0, 1, 7, 8, 9, -1, -2, 1 << 31, 1<<31 - 1, 255, 65536, -100}).Draw(t, "mut_val")}
	}
	return c25Mut{}
}

func c25GenCodec(t *rapid.T) c25CodecCase {
	var c c25CodecCase
	c.Codec = rapid.SampledFrom([]string{"proto", "cbor", "cbor", "json", "json"}).Draw(t, "codec")
	c.Shared = rapid.Bool().Draw(t, "shared")
	switch c.Codec {
	case "proto":
		names := c25ProtoNames()
		c.ProtoName = rapid.SampledFrom(names).Draw(t, "proto_name")
		mt, err := protoregistry.GlobalTypes.FindMessageByName(protoreflect.FullName(c.ProtoName))
		if err != nil {
			t.Fatalf("c25: proto type %s not linked: %v", c.ProtoName, err)
		}
		m := mt.New()
		c25GenProtoMsg(t, m, 0)
		wire, err := proto.MarshalOptions{Deterministic: true}.Marshal(m.Interface())
		if err != nil {
			t.Fatalf("c25: generator produced an unmarshalable proto: %v", err)
		}
		c.ProtoWire = wire
	case "cbor":
		// the CBOR decoder is explicitly configured to accept invalid UTF-8
		// text; the encoder may refuse it (accepted) but must not corrupt it.
		c.Val = c25GenVal(t, true, true)
	default:
		// JSON cannot represent NaN/Inf: Serialize may refuse those.
		c.Val = c25GenVal(t, true, false)
	}
	if rapid.IntRange(0, 39).Draw(t, "unreg") == 0 && c.Codec != "proto" {
		c.Val = &c25ValSpec{Type: "unreg", I: rapid.Int64Range(0, 9).Draw(t, "unreg_a")}
	}
	c.Mut = c25GenMut(t)
	return c
}

// ---- building the real message from a spec -----------------------------------

func (f c25FlatSpec) build() c25Flat {
	out := c25Flat{I: f.I, U: f.U, S: string(f.S), B: f.B, F: math.Float64frombits(f.FBits)}
	if !f.BsNil {
		out.Bs = append([]byte{}, f.Bs...)
	}
	return out
}

func (n c25NestedSpec) build() *c25Nested {
	out := &c25Nested{Name: string(n.Name), D: time.Duration(n.D), I8: n.I8, U16: n.U16, F32: math.Float32frombits(n.F32Bits), E: n.E.build()}
	if !n.TagsNil {
		out.Tags = []string{}
		for _, tg := range n.Tags {
			out.Tags = append(out.Tags, string(tg))
		}
	}
	if len(n.MK) > 0 {
		out.M = map[string]int64{}
		for i, k := range n.MK {
			out.M[string(k)] = n.MV[i]
		}
	}
	if n.P != nil {
		p := n.P.build()
		out.P = &p
	}
	for _, l := range n.L {
		out.L = append(out.L, l.build())
	}
	loc := time.UTC
	if n.TOffMin != 0 {
		loc = time.FixedZone("", n.TOffMin*60)
	}
	out.T = time.Unix(n.TSec, 0).In(loc)
	if len(n.MIK) > 0 {
		out.MI = map[int32]string{}
		for i, k := range n.MIK {
			out.MI[k] = string(n.MIV[i])
		}
	}
	return out
}

func (v *c25ValSpec) build() any {
	switch v.Type {
	case "flat_ptr":
		f := v.Flat.build()
		return &f
	case "flat_val":
		return v.Flat.build()
	case "nested_ptr":
		return v.Nested.build()
	case "id_ptr":
		id := c25ID(v.Str)
		return &id
	case "count_ptr":
		n := c25Count(v.I)
		return &n
	case "unreg":
		return &c25Unreg{A: int(v.I)}
	case "string":
		return string(v.Str)
	case "bool":
		return v.B
	case "int":
		return int(v.I)
	case "int8":
		return int8(v.I)
	case "int16":
		return int16(v.I)
	case "int32":
		return int32(v.I)
	case "int64":
		return v.I
	case "uint":
		return uint(v.U)
	case "uint8":
		return uint8(v.U)
	case "uint16":
		return uint16(v.U)
	case "uint32":
		return uint32(v.U)
	case "uint64":
		return v.U
	case "float32":
		return float32(math.Float64frombits(v.FBits))
	case "float64":
		return math.Float64frombits(v.FBits)
	}
	panic("c25: unknown value type " + v.Type)
}

// ---- equality (type-aware; nil and empty containers are not distinguished,
// the property is silent about that; NaN equals NaN; times compare as instants)

func c25EqF(a, b float64) bool { return a == b || (math.IsNaN(a) && math.IsNaN(b)) }

func c25EqFlat(a, b c25Flat) string {
	switch {
	case a.I != b.I:
		return fmt.Sprintf("I %d != %d", a.I, b.I)
	case a.U != b.U:
		return fmt.Sprintf("U %d != %d", a.U, b.U)
	case a.S != b.S:
		return fmt.Sprintf("S %q != %q", a.S, b.S)
	case a.B != b.B:
		return "B differs"
	case !c25EqF(a.F, b.F):
		return fmt.Sprintf("F %v != %v", a.F, b.F)
	case !bytes.Equal(a.Bs, b.Bs):
		return fmt.Sprintf("Bs %x != %x", a.Bs, b.Bs)
	}
	return ""
}

func c25EqNested(a, b *c25Nested) string {
	if a.Name != b.Name {
		return fmt.Sprintf("Name %q != %q", a.Name, b.Name)
	}
	if len(a.Tags) != len(b.Tags) {
		return fmt.Sprintf("len(Tags) %d != %d", len(a.Tags), len(b.Tags))
	}
	for i := range a.Tags {
		if a.Tags[i] != b.Tags[i] {
			return fmt.Sprintf("Tags[%d] %q != %q", i, a.Tags[i], b.Tags[i])
		}
	}
	if len(a.M) != len(b.M) {
		return fmt.Sprintf("len(M) %d != %d", len(a.M), len(b.M))
	}
	for k, v := range a.M {
		if w, ok := b.M[k]; !ok || w != v {
			return fmt.Sprintf("M[%q] %d != %d (present=%v)", k, v, w, ok)
		}
	}
	if (a.P == nil) != (b.P == nil) {
		return "P nil-ness differs"
	}
	if a.P != nil {
		if d := c25EqFlat(*a.P, *b.P); d != "" {
			return "P." + d
		}
	}
	if len(a.L) != len(b.L) {
		return fmt.Sprintf("len(L) %d != %d", len(a.L), len(b.L))
	}
	for i := range a.L {
		if d := c25EqFlat(a.L[i], b.L[i]); d != "" {
			return fmt.Sprintf("L[%d].%s", i, d)
		}
	}
	if !a.T.Equal(b.T) {
		return fmt.Sprintf("T %v != %v", a.T, b.T)
	}
	if a.D != b.D || a.I8 != b.I8 || a.U16 != b.U16 {
		return fmt.Sprintf("D/I8/U16 (%d,%d,%d) != (%d,%d,%d)", a.D, a.I8, a.U16, b.D, b.I8, b.U16)
	}
	if !c25EqF(float64(a.F32), float64(b.F32)) {
		return fmt.Sprintf("F32 %v != %v", a.F32, b.F32)
	}
	if d := c25EqFlat(a.E, b.E); d != "" {
		return "E." + d
	}
	if len(a.MI) != len(b.MI) {
		return fmt.Sprintf("len(MI) %d != %d", len(a.MI), len(b.MI))
	}
	for k, v := range a.MI {
		if w, ok := b.MI[k]; !ok || w != v {
			return fmt.Sprintf("MI[%d] %q != %q (present=%v)", k, v, w, ok)
		}
	}
	return ""
}

// c25EqMsg compares the sent message with the decoded one. Returns "" when equal.
// Registered non-primitive types come back as pointers (documented), primitives as values.
func c25EqMsg(want, got any) string {
	deref := func(v any) any {
		rv := reflect.ValueOf(v)
		if rv.Kind() == reflect.Pointer && !rv.IsNil() {
			return rv.Elem().Interface()
		}
		return v
	}
	w, g := deref(want), deref(got)
	if reflect.TypeOf(w) != reflect.TypeOf(g) {
		return fmt.Sprintf("type %T != %T", want, got)
	}
	switch wv := w.(type) {
	case c25Flat:
		return c25EqFlat(wv, g.(c25Flat))
	case c25Nested:
		gv := g.(c25Nested)
		return c25EqNested(&wv, &gv)
	case float64:
		if !c25EqF(wv, g.(float64)) {
			return fmt.Sprintf("%v != %v", w, g)
		}
		return ""
	case float32:
		if !c25EqF(float64(wv), float64(g.(float32))) {
			return fmt.Sprintf("%v != %v", w, g)
		}
		return ""
	}
	if w != g {
		return fmt.Sprintf("%#v != %#v", w, g)
	}
	return ""
}

func (v *c25ValSpec) hasSpecialFloat() bool {
	sp := func(b uint64) bool { f := math.Float64frombits(b); return math.IsNaN(f) || math.IsInf(f, 0) }
	sp32 := func(b uint32) bool {
		f := float64(math.Float32frombits(b))
		return math.IsNaN(f) || math.IsInf(f, 0)
	}
	switch {
	case v.Flat != nil:
		return sp(v.Flat.FBits)
	case v.Nested != nil:
		n := v.Nested
		if sp32(n.F32Bits) || sp(n.E.FBits) || (n.P != nil && sp(n.P.FBits)) {
			return true
		}
		for _, l := range n.L {
			if sp(l.FBits) {
				return true
			}
		}
		return false
	case v.Type == "float64" || v.Type == "float32":
		return sp(v.FBits)
	}
	return false
}

func (v *c25ValSpec) hasInvalidUTF8() bool {
	bad := func(b []byte) bool { return !utf8.Valid(b) }
	flat := func(f *c25FlatSpec) bool { return f != nil && bad(f.S) }
	if bad(v.Str) || flat(v.Flat) {
		return true
	}
	if n := v.Nested; n != nil {
		if bad(n.Name) || flat(n.P) || flat(&n.E) {
			return true
		}
		for i := range n.L {
			if flat(&n.L[i]) {
				return true
			}
		}
		for _, b := range n.Tags {
			if bad(b) {
				return true
			}
		}
		for _, b := range n.MIV {
			if bad(b) {
				return true
			}
		}
	}
	return false
}

func (v *c25ValSpec) isZero() bool {
	switch {
	case v.Flat != nil:
		f := v.Flat
		return f.I == 0 && f.U == 0 && len(f.S) == 0 && !f.B && f.FBits == 0 && len(f.Bs) == 0
	case v.Nested != nil:
		return false
	}
	return len(v.Str) == 0 && v.I == 0 && v.U == 0 && v.FBits == 0 && !v.B
}

// ---- execution ---------------------------------------------------------------

func c25Serializer(c c25CodecCase) Serializer {
	switch c.Codec {
	case "proto":
		return NewProtoSerializer()
	case "cbor":
		if c.Shared {
			return DefaultCBORSerializer()
		}
		return NewCBORSerializer()
	}
	if c.Shared {
		return DefaultJSONSerializer()
	}
	return NewJSONSerializer()
}

func c25SafeSerialize(x *vfkit.X, codec string, s Serializer, msg any) (data []byte, err error) {
	defer func() {
		if p := recover(); p != nil {
			x.Failf("serialize-panic-"+codec, "%s Serialize(%T) panicked: %v", codec, msg, p)
		}
	}()
	return s.Serialize(msg)
}

func c25SafeDeserialize(x *vfkit.X, codec, what string, s Serializer, data []byte) (msg any, err error) {
	defer func() {
		if p := recover(); p != nil {
			x.Failf("deserialize-panic-"+codec, "%s Deserialize(%s, %d bytes %x) panicked: %v", codec, what, len(data), c25Head(data), p)
		}
	}()
	return s.Deserialize(data)
}

func c25Head(b []byte) []byte {
	if len(b) > 96 {
		return b[:96]
	}
	return b
}

func c25ApplyMut(m c25Mut, data []byte) (out []byte, truncated bool) {
	out = append([]byte{}, data...)
	switch m.Kind {
	case 1:
		n := len(out) * m.Pos / 1000
		if m.Val < 6 { // small absolute cuts around the header
			n = m.Val * 2
		}
		if n >= len(out) {
			n = len(out) - 1
		}
		if n < 0 {
			n = 0
		}
		return out[:n], true
	case 2:
		if len(out) == 0 {
			return out, false
		}
		i := (len(out) - 1) * m.Pos / 1000
		out[i] ^= byte(m.Val)
	case 3:
		if len(out) >= 8 {
			binary.BigEndian.PutUint32(out[(m.Pos&1)*4:], uint32(int32(m.Val)))
		}
	}
	return out, false
}

func c25ExecCodec(x *vfkit.X, c c25CodecCase) {
	c25Register()
	ser := c25Serializer(c)
	x.Class("codec_" + c.Codec)

	var msg any
	var wantName string
	if c.Codec == "proto" {
		mt, err := protoregistry.GlobalTypes.FindMessageByName(protoreflect.FullName(c.ProtoName))
		if err != nil {
			x.Class("proto_type_not_linked")
			return
		}
		pm := mt.New().Interface()
		if err := proto.Unmarshal(c.ProtoWire, pm); err != nil {
			x.Class("proto_case_unreadable")
			return
		}
		msg, wantName = pm, c.ProtoName
	} else {
		msg = c.Val.build()
		x.Class("type_" + c.Val.Type)
		t := reflect.TypeOf(msg)
		if t.Kind() == reflect.Pointer {
			t = t.Elem()
		}
		wantName = strings.ToLower(t.String())
	}

	data, err := c25SafeSerialize(x, c.Codec, ser, msg)

	// -- a message the serializer does not support: an error, never bytes ------
	if c.Codec != "proto" && c.Val.Type == "unreg" {
		if err == nil {
			x.Failf("unregistered-type-serialized-"+c.Codec, "%s Serialize(%T) of a type that was never registered returned %d bytes and no error", c.Codec, msg, len(data))
		}
		// a frame naming the unregistered type must not decode either
		frame := c25Frame(wantName, []byte("\xa1aA\x01"))
		if c.Codec == "json" {
			frame = c25Frame(wantName, []byte(`{"A":1}`))
		}
		if got, derr := c25SafeDeserialize(x, c.Codec, "frame naming an unregistered type", ser, frame); derr == nil {
			x.Failf("unregistered-type-deserialized-"+c.Codec, "%s Deserialize of a frame naming unregistered type %q returned %T and no error", c.Codec, wantName, got)
		}
		// the proto serializer must refuse non-proto values
		if b, perr := c25SafeSerialize(x, "proto", NewProtoSerializer(), msg); perr == nil {
			x.Failf("non-proto-serialized-by-proto", "ProtoSerializer.Serialize(%T) returned %d bytes and no error", msg, len(b))
		}
		x.Class("unregistered_refused")
		x.NonTrivial()
		return
	}

	if err != nil {
		switch {
		case c.Codec == "json" && c.Val.hasSpecialFloat():
			x.Class("json_nan_inf_refused")
			return
		case c.Codec == "cbor" && c.Val.hasInvalidUTF8():
			x.Class("cbor_invalid_utf8_refused")
			return
		}
		x.Failf("serialize-refused-"+c.Codec, "%s Serialize(%T) of a registered, encodable message failed: %v", c.Codec, msg, err)
	}

	// -- documented frame layout: [totalLen|nameLen|name|payload], totalLen covers the frame
	if len(data) < 8 {
		x.Failf("frame-too-short-"+c.Codec, "%s frame has %d bytes", c.Codec, len(data))
	}
	total := int(binary.BigEndian.Uint32(data[0:4]))
	nameLen := int(binary.BigEndian.Uint32(data[4:8]))
	if total != len(data) || nameLen <= 0 || 8+nameLen > len(data) {
		x.Failf("frame-header-inconsistent-"+c.Codec, "%s frame: totalLen=%d nameLen=%d but len(frame)=%d", c.Codec, total, nameLen, len(data))
	}
	// the embedded name identifies the message type: exactly the proto full name for
	// the proto serializer; for the registry-based serializers the registry name,
	// possibly behind a serializer-specific tag (the documentation only says the name
	// is "the lowercased, trimmed reflect.Type string used by the global registry")
	if got := string(data[8 : 8+nameLen]); got != wantName && (c.Codec == "proto" || !strings.HasSuffix(got, wantName)) {
		x.Failf("frame-type-name-wrong-"+c.Codec, "%s frame names %q, message type is %q", c.Codec, got, wantName)
	}
	payloadLen := len(data) - 8 - nameLen

	// -- round trip -------------------------------------------------------------
	snapshot := append([]byte{}, data...)
	got, derr := c25SafeDeserialize(x, c.Codec, "own frame", ser, data)
	if derr != nil {
		if c.Codec == "json" && c.Val.hasSpecialFloat() {
			x.Failf("json-nan-inf-encoded-undecodable", "JSON Serialize accepted a NaN/Inf message but its frame does not decode: %v", derr)
		}
		x.Failf("roundtrip-decode-error-"+c.Codec, "%s Deserialize(Serialize(%T)) failed: %v (frame %x)", c.Codec, msg, derr, c25Head(data))
	}
	if !bytes.Equal(snapshot, data) {
		x.Failf("deserialize-modified-input-"+c.Codec, "%s Deserialize modified the frame it was given", c.Codec)
	}
	if c.Codec == "proto" {
		gm, ok := got.(proto.Message)
		if !ok || reflect.TypeOf(got) != reflect.TypeOf(msg) {
			x.Failf("roundtrip-type-changed-proto", "sent %T, received %T", msg, got)
		}
		if !proto.Equal(gm, msg.(proto.Message)) {
			// proto.Equal treats NaN != NaN in some versions: fall back to bytes
			a, _ := proto.MarshalOptions{Deterministic: true}.Marshal(gm)
			if !bytes.Equal(a, c.ProtoWire) {
				x.Failf("roundtrip-not-equal-proto", "%s: decoded message differs: sent %v got %v", c.ProtoName, msg, got)
			}
		}
		if len(c.ProtoWire) > 0 {
			x.NonTrivial()
			x.Class("proto_populated")
		} else {
			x.Class("proto_empty")
		}
	} else {
		if d := c25EqMsg(msg, got); d != "" {
			kind := "struct"
			switch c.Val.Type {
			case "flat_ptr", "flat_val", "nested_ptr":
			case "id_ptr", "count_ptr":
				kind = "named-scalar"
			default:
				kind = "primitive"
			}
			x.Failf("roundtrip-not-equal-"+c.Codec+"-"+kind, "%s round trip of %s: %s (sent %#v, got %#v)", c.Codec, c.Val.Type, d, msg, got)
		}
		// documented return shape: primitives by value, everything else by pointer
		isPrim := false
		for _, p := range c25PrimTypes {
			isPrim = isPrim || p == c.Val.Type
		}
		if k := reflect.TypeOf(got).Kind(); isPrim == (k == reflect.Pointer) {
			x.Failf("roundtrip-return-shape-"+c.Codec, "%s Deserialize returned %T for a %s message", c.Codec, got, c.Val.Type)
		}
		if !c.Val.isZero() && payloadLen >= 2 {
			x.NonTrivial()
		}
		if c.Val.hasSpecialFloat() {
			x.Class("special_float_roundtripped")
		}
		if c.Val.hasInvalidUTF8() {
			x.Class("invalid_utf8_roundtripped")
		}
	}

	// -- the other built-in serializers must not silently produce bytes for a
	//    message they do not support ------------------------------------------
	if c.Codec == "proto" {
		for name, other := range map[string]Serializer{"cbor": NewCBORSerializer(), "json": NewJSONSerializer()} {
			if b, oerr := c25SafeSerialize(x, name, other, msg); oerr == nil {
				x.Failf("unregistered-type-serialized-"+name, "%s Serialize(%T) (a proto message never registered for it) returned %d bytes and no error", name, msg, len(b))
			}
		}
	} else {
		if b, perr := c25SafeSerialize(x, "proto", NewProtoSerializer(), msg); perr == nil {
			x.Failf("non-proto-serialized-by-proto", "ProtoSerializer.Serialize(%T) returned %d bytes and no error", msg, len(b))
		}
	}

	// -- malformed frames ---------------------------------------------------------
	if c.Mut.Kind != 0 {
		bad, truncated := c25ApplyMut(c.Mut, data)
		if bytes.Equal(bad, data) {
			return
		}
		g, merr := c25SafeDeserialize(x, c.Codec, fmt.Sprintf("mutated frame kind=%d", c.Mut.Kind), ser, bad)
		x.Class(fmt.Sprintf("mut_kind_%d", c.Mut.Kind))
		if truncated && merr == nil {
			x.Failf("truncated-frame-accepted-"+c.Codec, "%s Deserialize accepted a frame truncated from %d to %d bytes and returned %T", c.Codec, len(data), len(bad), g)
		}
		if merr == nil && g == nil {
			x.Failf("nil-message-nil-error-"+c.Codec, "%s Deserialize returned (nil, nil) for a mutated frame", c.Codec)
		}
		if merr != nil {
			x.Class("mut_rejected")
		} else {
			x.Class("mut_decoded_to_some_value")
		}
	}
}

func c25Frame(name string, payload []byte) []byte {
	out := make([]byte, 8, 8+len(name)+len(payload))
	binary.BigEndian.PutUint32(out[0:4], uint32(8+len(name)+len(payload)))
	binary.BigEndian.PutUint32(out[4:8], uint32(len(name)))
	out = append(out, name...)
	return append(out, payload...)
}

func TestVF_C25_codec(t *testing.T) {
	vfkit.Run(t, vfkit.Spec[c25CodecCase]{
		ID: "C25", Unit: "codec",
		Rule: "cases = (serializer in {proto,cbor,json}, message): proto messages filled reflectively over every message of testpb/internalpb (+ Any/Duration/Timestamp), CBOR/JSON messages from a registered family (flat struct, nested struct with slices/maps/pointer/time/duration, named string, named int64, every builtin primitive) with boundary-biased values, plus a never-registered type and a frame mutation (truncate/flip/header word); non-trivial = non-zero message with payload >= 2 bytes that round-trips, or an unregistered type refused in both directions; distinct = distinct case",
		Gen:  c25GenCodec, Exec: c25ExecCodec,
		CrashSafe: true,
	})
}

//go:build verif

package remoteclient

import (
	"bytes"
	"encoding/binary"
	stdjson "encoding/json"
	"fmt"
	"math"
	"reflect"
	"testing"

	"google.golang.org/protobuf/encoding/protojson"
	"google.golang.org/protobuf/proto"
	"google.golang.org/protobuf/reflect/protoreflect"
	"google.golang.org/protobuf/types/known/durationpb"
	"google.golang.org/protobuf/types/known/timestamppb"
	"pgregory.net/rapid"

	"github.com/tochemey/goakt/v4/internal/vfkit"
	"github.com/tochemey/goakt/v4/remote"
	"github.com/tochemey/goakt/v4/test/data/testpb"
)

// ---------------------------------------------------------------------------
// C25 / resolve: Client.Serializer(msg) returns "the most-specific registered
// serializer for its dynamic type" (Client.Serializer), with the dispatch order
// documented on WithClientSerializers:
//   1. Exact concrete type — the entry registered with the message's dynamic type.
//   2. Interface match — the first registered interface the message implements.
// Both construction paths are exercised: WithClientSerializers directly, and
// remote.Config + ClientSerializerOptions (what the actor system and the
// cluster client do: "both the server and the client use the same set of
// serializers").
// ---------------------------------------------------------------------------

type c25Tagged interface{ c25Tag() }
type c25Audited interface{ c25Audit() }

type c25SelA struct{ X int } // *c25SelA implements c25Tagged and c25Audited
type c25SelB struct{ Y int } // c25SelB (value) implements c25Tagged
type c25SelC struct{ Z int } // *c25SelC implements c25Audited
type c25SelD struct{ W int } // implements nothing

func (*c25SelA) c25Tag()   {}
func (*c25SelA) c25Audit() {}
func (c25SelB) c25Tag()    {}
func (*c25SelC) c25Audit() {}

// c25Opaque is a message only the user serializer c25Mark understands.
type c25Opaque struct{ Body []byte }

// c25Mark is a user-supplied serializer. ID makes instances distinguishable
// (the built-in serializers are zero-size structs: pointer identity is useless).
type c25Mark struct{ ID int }

var c25MarkMagic = []byte{0xC2, 0x5C, 0x25, 0xAA}

func (m *c25Mark) Serialize(msg any) ([]byte, error) {
	o, ok := msg.(*c25Opaque)
	if !ok || o == nil {
		return nil, fmt.Errorf("c25Mark %d: unsupported message %T", m.ID, msg)
	}
	out := append(append([]byte{}, c25MarkMagic...), byte(m.ID))
	return append(out, o.Body...), nil
}

func (m *c25Mark) Deserialize(data []byte) (any, error) {
	if len(data) < 5 || !bytes.Equal(data[:4], c25MarkMagic) || data[4] != byte(m.ID) {
		return nil, fmt.Errorf("c25Mark %d: not my frame", m.ID)
	}
	return &c25Opaque{Body: append([]byte{}, data[5:]...)}, nil
}

var c25SelTargets = []string{"A", "B", "C", "D", "Reply", "Ping", "iTagged", "iAudited", "iProto"}

func c25SelTargetValue(name string) any {
	switch name {
	case "A":
		return new(c25SelA)
	case "B":
		return new(c25SelB)
	case "C":
		return new(c25SelC)
	case "D":
		return new(c25SelD)
	case "Reply":
		return new(testpb.Reply)
	case "Ping":
		return new(testpb.TestPing)
	case "iTagged":
		return (*c25Tagged)(nil)
	case "iAudited":
		return (*c25Audited)(nil)
	case "iProto":
		return (*proto.Message)(nil)
	}
	panic("c25: unknown target " + name)
}

func c25SelKey(name string) reflect.Type {
	t := reflect.TypeOf(c25SelTargetValue(name))
	if name[0] == 'i' {
		return t.Elem()
	}
	return t
}

var c25SelQueries = []string{"&A", "A", "&B", "B", "&C", "C", "&D", "&Reply", "&Ping", "&Count"}

func c25SelQueryValue(name string) any {
	switch name {
	case "&A":
		return &c25SelA{X: 1}
	case "A":
		return c25SelA{X: 1}
	case "&B":
		return &c25SelB{Y: 2}
	case "B":
		return c25SelB{Y: 2}
	case "&C":
		return &c25SelC{Z: 3}
	case "C":
		return c25SelC{Z: 3}
	case "&D":
		return &c25SelD{}
	case "&Reply":
		return &testpb.Reply{Content: "x"}
	case "&Ping":
		return &testpb.TestPing{}
	case "&Count":
		return &testpb.TestCount{Value: 1}
	}
	panic("c25: unknown query " + name)
}

type c25SelReg struct {
	Target string `json:"target"`
	Mark   int    `json:"mark"`
}

type c25ResolveCase struct {
	Path    string      `json:"path"` // "client": WithClientSerializers; "config": remote.WithSerializers + ClientSerializerOptions
	Plan    []c25SelReg `json:"plan"`
	Queries []string    `json:"queries"`
}

func c25GenResolve(t *rapid.T) c25ResolveCase {
	var c c25ResolveCase
	c.Path = rapid.SampledFrom([]string{"client", "config"}).Draw(t, "path")
	n := rapid.IntRange(0, 6).Draw(t, "plan_n")
	perm := rapid.Permutation(c25SelTargets).Draw(t, "targets")
	if n >= 2 && rapid.Bool().Draw(t, "conflict") {
		pairs := [][2]string{{"A", "iTagged"}, {"A", "iAudited"}, {"C", "iAudited"}, {"Reply", "iProto"}, {"Ping", "iProto"}, {"iTagged", "iAudited"}, {"iTagged", "iAudited"}, {"iAudited", "iTagged"}, {"B", "iTagged"}}
		p := rapid.SampledFrom(pairs).Draw(t, "pair")
		if rapid.Bool().Draw(t, "pair_swap") {
			p[0], p[1] = p[1], p[0]
		}
		rest := []string{}
		for _, s := range perm {
			if s != p[0] && s != p[1] {
				rest = append(rest, s)
			}
		}
		at := rapid.IntRange(0, n-2).Draw(t, "pair_at")
		perm = append(append(append([]string{}, rest[:at]...), p[0], p[1]), rest[at:]...)
	}
	for i := 0; i < n; i++ {
		c.Plan = append(c.Plan, c25SelReg{Target: perm[i], Mark: rapid.IntRange(1, 4).Draw(t, "mark")})
	}
	c.Queries = rapid.SliceOfNDistinct(rapid.SampledFrom(c25SelQueries), 3, 8, func(s string) string { return s }).Draw(t, "queries")
	return c
}

type c25SelVerdict struct {
	Acceptable map[int]bool // documented order (both readings where the docs are ambiguous)
	FirstMatch int          // first matching entry in plain registration order (default proto entry first)
	Matching   map[int]bool // every entry that matches at all
	Exact      bool
	NIfaces    int
}

// c25SelExpect is the reference model, written from the documentation only.
// Identity: mark id (>0) for plan entries, 0 for the default ProtoSerializer, -1 for nil.
func c25SelExpect(plan []c25SelReg, msg any) c25SelVerdict {
	v := c25SelVerdict{Acceptable: map[int]bool{}, Matching: map[int]bool{}, FirstMatch: -1}
	mt := reflect.TypeOf(msg)
	protoKey := reflect.TypeFor[proto.Message]()
	type entry struct {
		key reflect.Type
		id  int
	}
	matches := func(e entry) bool {
		if e.key.Kind() == reflect.Interface {
			return mt.Implements(e.key)
		}
		return e.key == mt
	}
	// NewClient seeds the default proto.Message entry first. A plan entry for
	// proto.Message itself is, depending on the reading, an override of the
	// default or a second, later interface entry: both are accepted.
	hasOverride := false
	for _, r := range plan {
		hasOverride = hasOverride || r.Target == "iProto"
	}
	var orders [][]entry
	withDefault := []entry{{protoKey, 0}}
	var withoutDefault []entry
	for _, r := range plan {
		withDefault = append(withDefault, entry{c25SelKey(r.Target), r.Mark})
		withoutDefault = append(withoutDefault, entry{c25SelKey(r.Target), r.Mark})
	}
	orders = append(orders, withDefault)
	if hasOverride {
		orders = append(orders, withoutDefault)
		// override takes the default's (first) position
		first := []entry{}
		for _, r := range plan {
			if r.Target == "iProto" {
				first = append(first, entry{protoKey, r.Mark})
			}
		}
		for _, r := range plan {
			if r.Target != "iProto" {
				first = append(first, entry{c25SelKey(r.Target), r.Mark})
			}
		}
		orders = append(orders, first)
	}
	for _, es := range orders {
		picked, found := -1, false
		for _, e := range es {
			if e.key.Kind() != reflect.Interface && matches(e) {
				picked, found, v.Exact = e.id, true, true
				break
			}
		}
		if !found {
			for _, e := range es {
				if e.key.Kind() == reflect.Interface && matches(e) {
					picked = e.id
					break
				}
			}
		}
		v.Acceptable[picked] = true
	}
	for _, e := range withDefault {
		if matches(e) {
			if len(v.Matching) == 0 {
				v.FirstMatch = e.id
			}
			v.Matching[e.id] = true
			if e.key.Kind() == reflect.Interface {
				v.NIfaces++
			}
		}
	}
	if len(v.Matching) == 0 {
		v.Matching[-1] = true
	}
	return v
}

func c25SelIdentity(s remote.Serializer) int {
	switch v := s.(type) {
	case nil:
		return -1
	case *c25Mark:
		return v.ID
	case *remote.ProtoSerializer:
		return 0
	}
	return -99
}

func c25BuildClient(c c25ResolveCase) Client {
	var opts []ClientOption
	if c.Path == "client" {
		for _, r := range c.Plan {
			opts = append(opts, WithClientSerializers(c25SelTargetValue(r.Target), &c25Mark{ID: r.Mark}))
		}
	} else {
		var ropts []remote.Option
		for _, r := range c.Plan {
			ropts = append(ropts, remote.WithSerializers(c25SelTargetValue(r.Target), &c25Mark{ID: r.Mark}))
		}
		opts = ClientSerializerOptions(remote.NewConfig("127.0.0.1", 0, ropts...))
	}
	return NewClient(opts...)
}

const (
	fpC25ExactLoses     = "client-resolve-exact-loses-to-interface"
	fpC25IfaceOrderCfg  = "client-options-interface-order-from-map"
	fpC25IfaceOrderPlan = "client-resolve-interface-order"
	fpC25NonMatching    = "client-resolve-nonmatching"
)

func c25ExecResolve(x *vfkit.X, c c25ResolveCase) {
	x.Class("path_" + c.Path)
	// The config path forwards a Go map: the resulting entry order is fixed when
	// the client is built, so the client is built several times. The oracle is
	// deterministic: every client must answer as documented.
	builds := 1
	if c.Path == "config" {
		builds = 24
	}
	for b := 0; b < builds; b++ {
		cl := c25BuildClient(c)
		for _, q := range c.Queries {
			msg := c25SelQueryValue(q)
			exp := c25SelExpect(c.Plan, msg)
			if b == 0 {
				switch {
				case exp.Exact && exp.NIfaces >= 1 && len(exp.Matching) >= 2:
					x.NonTrivial()
					x.Class("exact_and_interface_match")
				case exp.NIfaces >= 2 && len(exp.Matching) >= 2:
					x.NonTrivial()
					x.Class("several_interfaces_match")
				case exp.Matching[-1]:
					x.Class("no_match")
				default:
					x.Class("single_match")
				}
			}
			got := c25SelIdentity(cl.Serializer(msg))
			if exp.Acceptable[got] {
				continue
			}
			if !exp.Matching[got] {
				cl.Close()
				x.Failf(fpC25NonMatching, "path=%s plan %v: Serializer(%s) returned serializer #%d, which is not registered for a type the message matches (matching: %v)", c.Path, c.Plan, q, got, exp.Matching)
			}
			fp := fpC25IfaceOrderPlan
			switch {
			case exp.Exact:
				fp = fpC25ExactLoses
			case c.Path == "config":
				fp = fpC25IfaceOrderCfg
			}
			if x.Known(fp) {
				// listed finding, excluded exactly: on the direct path an exact entry may lose
				// to the entry that comes first in plain registration order; on the config
				// path the forwarded order is arbitrary, so any matching entry is tolerated.
				tolerated := false
				switch fp {
				case fpC25ExactLoses:
					tolerated = c.Path == "config" || got == exp.FirstMatch
				case fpC25IfaceOrderCfg:
					tolerated = true
				}
				if tolerated {
					x.Class("known_deviation_tolerated")
					continue
				}
			}
			cl.Close()
			x.Failf(fp, "path=%s plan %v: Serializer(%s) returned serializer #%d (client build %d), documented order selects %v (exact entry present: %v, matching interface entries incl. default proto: %d)", c.Path, c.Plan, q, got, b+1, exp.Acceptable, exp.Exact, exp.NIfaces)
		}
		cl.Close()
	}
}

func TestVF_C25_resolve(t *testing.T) {
	vfkit.Run(t, vfkit.Spec[c25ResolveCase]{
		ID: "C25", Unit: "resolve",
		Rule: "cases = construction path (WithClientSerializers | remote.WithSerializers+ClientSerializerOptions), registration plan (0..6 distinct targets out of 4 struct types, 2 proto types, 2 user interfaces, proto.Message; generated order; user serializers with ids), 3..8 query messages (pointer/value forms, unregistered types); config path builds 24 clients; non-trivial = a query matched by an exact entry and an interface entry, or by two interface entries, with different serializers",
		Gen:  c25GenResolve, Exec: c25ExecResolve,
		ReplayReps: 3,
	})
}

// ---------------------------------------------------------------------------
// C25 / dispatch: send path + receive path of one client:
//   data := cl.Serializer(msg).Serialize(msg); cl.Serializer(nil).Deserialize(data) == msg
// for messages registered with CBOR, JSON, a user serializer or the default
// proto serializer in a generated registration order; unregistered messages
// have no serializer; foreign frames are refused.
// ---------------------------------------------------------------------------

type c25Doc struct {
	ID    int64             `json:"id" cbor:"id"`
	Title string            `json:"title"`
	Tags  []string          `json:"tags,omitempty"`
	Attrs map[string]string `json:"attrs,omitempty"`
	Score float64
	Raw   []byte
	Next  *c25Doc `json:"next,omitempty" cbor:"next,omitempty"`
}

type (
	c25Tick  int64
	c25Ratio float64
	c25Label string
	c25Never struct{ A int } // never registered
)

// registration slots: message kind -> codec
var c25DispKinds = []string{"doc", "tick", "ratio", "label", "int64", "int", "uint8", "float64", "string", "bool", "opaque", "pjdur", "pjts", "span"}

// ---- user serializers that follow the shared frame layout ("a custom implementation
// can interoperate by following the same pattern", remote.Serializer) ----------------

// c25ProtoJSON is a user serializer registered for ONE concrete proto message type
// (WithClientSerializers: "Pass any value of the target type to bind a serializer to
// that exact type"). Its frames use the shared [totalLen|nameLen|name|payload] layout
// with the proto full name, but the payload is protojson text, not protobuf wire
// format. The receive-side dispatcher documents this shape: "A registry hit with a
// failed decode ... (e.g. a non-proto payload under a colliding name); fall through
// to the ordered loop" and "everything else tries each registered serializer in
// registration order".
type c25ProtoJSON struct{ Name protoreflect.FullName }

func (p *c25ProtoJSON) Serialize(msg any) ([]byte, error) {
	pm, ok := msg.(proto.Message)
	if !ok || pm == nil || pm.ProtoReflect().Descriptor().FullName() != p.Name {
		return nil, fmt.Errorf("c25ProtoJSON(%s): unsupported message %T", p.Name, msg)
	}
	payload, err := protojson.Marshal(pm)
	if err != nil {
		return nil, err
	}
	return c25SharedFrame(string(p.Name), payload), nil
}

func (p *c25ProtoJSON) Deserialize(data []byte) (any, error) {
	name, payload, ok := c25SplitSharedFrame(data)
	if !ok || name != string(p.Name) {
		return nil, fmt.Errorf("c25ProtoJSON(%s): not my frame", p.Name)
	}
	var out proto.Message
	switch p.Name {
	case "google.protobuf.Duration":
		out = new(durationpb.Duration)
	case "google.protobuf.Timestamp":
		out = new(timestamppb.Timestamp)
	default:
		return nil, fmt.Errorf("c25ProtoJSON: unknown type %s", p.Name)
	}
	if err := protojson.Unmarshal(payload, out); err != nil {
		return nil, err
	}
	return out, nil
}

// c25Spanner is a user interface; c25XorJSON is registered for it
// (WithClientSerializers((*c25Spanner)(nil), ...)). Frames: shared layout, the type's
// lower-cased Go name, payload = JSON xor 0x5A (neither CBOR nor JSON nor protobuf).
type c25Spanner interface{ c25SpanMark() }

type c25Span struct {
	Seconds int64
	Label   string
}

func (*c25Span) c25SpanMark() {}

type c25XorJSON struct{ Key byte }

const c25SpanWireName = "remoteclient.c25span"

func (x *c25XorJSON) Serialize(msg any) ([]byte, error) {
	sp, ok := msg.(*c25Span)
	if !ok || sp == nil {
		return nil, fmt.Errorf("c25XorJSON: unsupported message %T", msg)
	}
	b, err := stdjson.Marshal(sp)
	if err != nil {
		return nil, err
	}
	for i := range b {
		b[i] ^= x.Key
	}
	return c25SharedFrame(c25SpanWireName, b), nil
}

func (x *c25XorJSON) Deserialize(data []byte) (any, error) {
	name, payload, ok := c25SplitSharedFrame(data)
	if !ok || name != c25SpanWireName {
		return nil, fmt.Errorf("c25XorJSON: not my frame")
	}
	b := append([]byte{}, payload...)
	for i := range b {
		b[i] ^= x.Key
	}
	out := new(c25Span)
	if err := stdjson.Unmarshal(b, out); err != nil {
		return nil, err
	}
	return out, nil
}

func c25SharedFrame(name string, payload []byte) []byte {
	out := make([]byte, 8, 8+len(name)+len(payload))
	binary.BigEndian.PutUint32(out[0:4], uint32(8+len(name)+len(payload)))
	binary.BigEndian.PutUint32(out[4:8], uint32(len(name)))
	out = append(out, name...)
	return append(out, payload...)
}

func c25SplitSharedFrame(data []byte) (name string, payload []byte, ok bool) {
	if len(data) < 8 {
		return "", nil, false
	}
	total := int(binary.BigEndian.Uint32(data[0:4]))
	nameLen := int(binary.BigEndian.Uint32(data[4:8]))
	if total != len(data) || nameLen <= 0 || 8+nameLen > total {
		return "", nil, false
	}
	return string(data[8 : 8+nameLen]), data[8+nameLen : total], true
}

type c25DispReg struct {
	Kind  string `json:"kind"`
	Codec string `json:"codec"` // cbor | json | mark
}

type c25DispMsg struct {
	Kind  string   `json:"kind"` // one of c25DispKinds, or reply | count | never
	I     int64    `json:"i,omitempty"`
	FBits uint64   `json:"f_bits,omitempty"`
	S     string   `json:"s,omitempty"`
	B     bool     `json:"b,omitempty"`
	Bytes []byte   `json:"bytes,omitempty"`
	Tags  []string `json:"tags,omitempty"`
	AK    []string `json:"ak,omitempty"`
	AV    []string `json:"av,omitempty"`
	Depth int      `json:"depth,omitempty"`
	Nanos int32    `json:"nanos,omitempty"`
}

type c25DispatchCase struct {
	Plan    []c25DispReg `json:"plan"`
	Msgs    []c25DispMsg `json:"msgs"`
	Garbage []byte       `json:"garbage"`
}

func c25GenSmallI64(t *rapid.T, label string) int64 {
	return rapid.OneOf(
		rapid.Int64Range(-30, 30),
		rapid.Int64Range(-100, 100),
		rapid.SampledFrom([]int64{-12337, -49, -26, -25, -24, -18, -17, -1, 0, 1, 9, 10, 23, 24, 80, 255, 256, math.MaxInt64, math.MinInt64}),
		rapid.Int64(),
	).Draw(t, label)
}

func c25GenDispMsg(t *rapid.T, kinds []string) c25DispMsg {
	m := c25DispMsg{Kind: rapid.SampledFrom(kinds).Draw(t, "msg_kind")}
	switch m.Kind {
	case "doc":
		m.I = c25GenSmallI64(t, "doc_id")
		m.S = rapid.StringN(0, 10, 40).Draw(t, "doc_title")
		m.Tags = rapid.SliceOfN(rapid.StringN(0, 5, 20), 0, 3).Draw(t, "doc_tags")
		m.AK = rapid.SliceOfNDistinct(rapid.StringN(0, 4, 16), 0, 3, func(s string) string { return s }).Draw(t, "doc_ak")
		for range m.AK {
			m.AV = append(m.AV, rapid.StringN(0, 4, 16).Draw(t, "doc_av"))
		}
		m.FBits = math.Float64bits(float64(rapid.Int64Range(-50, 50).Draw(t, "doc_score")) / 4)
		m.Bytes = rapid.SliceOfN(rapid.Byte(), 0, 12).Draw(t, "doc_raw")
		m.Depth = rapid.IntRange(0, 2).Draw(t, "doc_depth")
	case "tick", "int64", "int", "count":
		m.I = c25GenSmallI64(t, "ival")
		if m.Kind == "count" {
			m.I = int64(int32(m.I))
		}
	case "uint8":
		m.I = int64(rapid.Uint8().Draw(t, "u8"))
	case "ratio", "float64":
		m.FBits = math.Float64bits(rapid.OneOf(
			rapid.SampledFrom([]float64{0, 1, 5, 9, -1, 0.5, 1.5, 80, 1e21, -0.25}),
			rapid.Float64Range(-1e6, 1e6),
		).Draw(t, "fval"))
	case "label", "string", "reply":
		m.S = rapid.OneOf(rapid.SampledFrom([]string{"", "1", "0", "\"", "null", "true", "a"}), rapid.StringN(0, 10, 40)).Draw(t, "sval")
	case "bool":
		m.B = rapid.Bool().Draw(t, "bval")
	case "opaque":
		m.Bytes = rapid.SliceOfN(rapid.Byte(), 0, 16).Draw(t, "opaque")
	case "pjdur":
		// valid durations only (protojson refuses the others): |seconds| <= 315576000000, nanos of the same sign
		m.I = rapid.OneOf(rapid.Int64Range(-100, 100), rapid.SampledFrom([]int64{0, 1, -1, 315576000000, -315576000000}), rapid.Int64Range(-315576000000, 315576000000)).Draw(t, "dur_s")
		n := rapid.OneOf(rapid.SampledFrom([]int32{0, 1, 500000000, 999999999, 1000, 1000000}), rapid.Int32Range(0, 999999999)).Draw(t, "dur_n")
		if m.I < 0 || (m.I == 0 && rapid.Bool().Draw(t, "dur_neg")) {
			n = -n
		}
		m.Nanos = n
	case "pjts":
		m.I = rapid.OneOf(rapid.Int64Range(0, 4102444800), rapid.SampledFrom([]int64{-62135596800, 253402300799, 0, -1}), rapid.Int64Range(-62135596800, 253402300799)).Draw(t, "ts_s")
		m.Nanos = rapid.OneOf(rapid.SampledFrom([]int32{0, 1, 999999999, 1000000}), rapid.Int32Range(0, 999999999)).Draw(t, "ts_n")
	case "span":
		m.I = c25GenSmallI64(t, "span_s")
		m.S = rapid.StringN(0, 10, 40).Draw(t, "span_label")
	case "never":
		m.I = rapid.Int64Range(0, 9).Draw(t, "never")
	}
	return m
}

func c25GenDispatch(t *rapid.T) c25DispatchCase {
	var c c25DispatchCase
	kinds := rapid.Permutation(c25DispKinds).Draw(t, "kinds")
	n := rapid.IntRange(1, len(kinds)).Draw(t, "plan_n")
	mode := rapid.SampledFrom([]string{"mixed", "mixed", "cbor", "json"}).Draw(t, "mode")
	var registered []string
	for _, k := range kinds[:n] {
		r := c25DispReg{Kind: k}
		switch {
		case k == "opaque":
			r.Codec = "mark"
		case k == "pjdur" || k == "pjts":
			r.Codec = "protojson"
		case k == "span":
			r.Codec = "xorjson"
		case mode == "mixed":
			r.Codec = rapid.SampledFrom([]string{"cbor", "json"}).Draw(t, "codec")
		default:
			r.Codec = mode
		}
		c.Plan = append(c.Plan, r)
		registered = append(registered, k)
	}
	pool := append(append([]string{}, registered...), registered...)
	pool = append(pool, "reply", "count", "never")
	nm := rapid.IntRange(1, 6).Draw(t, "msgs_n")
	for i := 0; i < nm; i++ {
		c.Msgs = append(c.Msgs, c25GenDispMsg(t, pool))
	}
	c.Garbage = rapid.OneOf(
		rapid.SliceOfN(rapid.Byte(), 0, 24),
		rapid.SampledFrom([][]byte{{}, {0, 0, 0, 8, 0, 0, 0, 0}, {0, 0, 0, 9, 0, 0, 0, 1, 'x'}, {0xFF, 0xFF, 0xFF, 0xFF, 'R', 'D', 'E', 'L'}, {0xDE, 0xAD, 0xBE, 0xEF, 0xCA, 0xFE, 0xBA, 0xBE}}),
	).Draw(t, "garbage")
	return c
}

func c25DispTarget(kind string) any {
	switch kind {
	case "doc":
		return new(c25Doc)
	case "tick":
		return new(c25Tick)
	case "ratio":
		return new(c25Ratio)
	case "label":
		return new(c25Label)
	case "int64":
		return int64(0)
	case "int":
		return int(0)
	case "uint8":
		return uint8(0)
	case "float64":
		return float64(0)
	case "string":
		return ""
	case "bool":
		return false
	case "opaque":
		return new(c25Opaque)
	case "pjdur":
		return new(durationpb.Duration)
	case "pjts":
		return new(timestamppb.Timestamp)
	case "span":
		return (*c25Spanner)(nil)
	}
	panic("c25: unknown kind " + kind)
}

func (m c25DispMsg) build() any {
	switch m.Kind {
	case "doc":
		var mk func(d int) *c25Doc
		mk = func(d int) *c25Doc {
			doc := &c25Doc{ID: m.I + int64(d), Title: m.S, Score: math.Float64frombits(m.FBits), Raw: append([]byte{}, m.Bytes...)}
			doc.Tags = append(doc.Tags, m.Tags...)
			if len(m.AK) > 0 {
				doc.Attrs = map[string]string{}
				for i, k := range m.AK {
					doc.Attrs[k] = m.AV[i]
				}
			}
			if d < m.Depth {
				doc.Next = mk(d + 1)
			}
			return doc
		}
		return mk(0)
	case "tick":
		v := c25Tick(m.I)
		return &v
	case "ratio":
		v := c25Ratio(math.Float64frombits(m.FBits))
		return &v
	case "label":
		v := c25Label(m.S)
		return &v
	case "int64":
		return m.I
	case "int":
		return int(m.I)
	case "uint8":
		return uint8(m.I)
	case "float64":
		return math.Float64frombits(m.FBits)
	case "string":
		return m.S
	case "bool":
		return m.B
	case "opaque":
		return &c25Opaque{Body: append([]byte{}, m.Bytes...)}
	case "pjdur":
		return &durationpb.Duration{Seconds: m.I, Nanos: m.Nanos}
	case "pjts":
		return &timestamppb.Timestamp{Seconds: m.I, Nanos: m.Nanos}
	case "span":
		return &c25Span{Seconds: m.I, Label: m.S}
	case "reply":
		return &testpb.Reply{Content: m.S}
	case "count":
		return &testpb.TestCount{Value: int32(m.I)}
	case "never":
		return &c25Never{A: int(m.I)}
	}
	panic("c25: unknown msg kind " + m.Kind)
}

func c25DocEq(a, b *c25Doc) bool {
	for a != nil && b != nil {
		if a.ID != b.ID || a.Title != b.Title || a.Score != b.Score || !bytes.Equal(a.Raw, b.Raw) || len(a.Tags) != len(b.Tags) || len(a.Attrs) != len(b.Attrs) {
			return false
		}
		for i := range a.Tags {
			if a.Tags[i] != b.Tags[i] {
				return false
			}
		}
		for k, v := range a.Attrs {
			if w, ok := b.Attrs[k]; !ok || w != v {
				return false
			}
		}
		a, b = a.Next, b.Next
	}
	return a == nil && b == nil
}

// c25DispEq: "" when the received message equals the sent one.
func c25DispEq(want, got any) string {
	if reflect.TypeOf(want) != reflect.TypeOf(got) {
		return fmt.Sprintf("sent %T, received %T", want, got)
	}
	switch w := want.(type) {
	case *c25Doc:
		if !c25DocEq(w, got.(*c25Doc)) {
			return fmt.Sprintf("sent %+v, received %+v", *w, *got.(*c25Doc))
		}
	case *c25Span:
		if *w != *got.(*c25Span) {
			return fmt.Sprintf("sent %+v, received %+v", *w, *got.(*c25Span))
		}
	case *c25Opaque:
		if !bytes.Equal(w.Body, got.(*c25Opaque).Body) {
			return fmt.Sprintf("sent %x, received %x", w.Body, got.(*c25Opaque).Body)
		}
	case proto.Message:
		if !proto.Equal(w, got.(proto.Message)) {
			return fmt.Sprintf("sent %v, received %v", w, got)
		}
	case *c25Tick:
		if *w != *got.(*c25Tick) {
			return fmt.Sprintf("sent c25Tick(%d), received c25Tick(%d)", *w, *got.(*c25Tick))
		}
	case *c25Ratio:
		if *w != *got.(*c25Ratio) {
			return fmt.Sprintf("sent c25Ratio(%v), received c25Ratio(%v)", *w, *got.(*c25Ratio))
		}
	case *c25Label:
		if *w != *got.(*c25Label) {
			return fmt.Sprintf("sent c25Label(%q), received c25Label(%q)", *w, *got.(*c25Label))
		}
	default:
		if want != got {
			return fmt.Sprintf("sent %#v, received %#v", want, got)
		}
	}
	return ""
}

const fpC25Ambiguous = "dispatch-cbor-json-frame-ambiguity"

func c25ExecDispatch(x *vfkit.X, c c25DispatchCase) {
	cbor, json := remote.NewCBORSerializer(), remote.NewJSONSerializer()
	var opts []ClientOption
	codecOf := map[string]string{}
	hasCodec := map[string]bool{}
	userSer := map[string]remote.Serializer{}
	for _, r := range c.Plan {
		var s remote.Serializer
		switch r.Codec {
		case "cbor":
			s = cbor
		case "json":
			s = json
		case "protojson":
			name := protoreflect.FullName("google.protobuf.Duration")
			if r.Kind == "pjts" {
				name = "google.protobuf.Timestamp"
			}
			s = &c25ProtoJSON{Name: name}
		case "xorjson":
			s = &c25XorJSON{Key: 0x5A}
		default:
			s = &c25Mark{ID: 7}
		}
		userSer[r.Kind] = s
		opts = append(opts, WithClientSerializers(c25DispTarget(r.Kind), s))
		codecOf[r.Kind] = r.Codec
		hasCodec[r.Codec] = true
	}
	cl := NewClient(opts...)
	defer cl.Close()
	both := hasCodec["cbor"] && hasCodec["json"]
	if both {
		x.Class("plan_cbor_and_json")
	} else {
		x.Class("plan_single_format")
	}
	recv := cl.Serializer(nil)
	if recv == nil {
		x.Failf("dispatch-no-receive-serializer", "Serializer(nil) returned nil")
	}

	for i, m := range c.Msgs {
		msg := m.build()
		send := cl.Serializer(msg)
		if m.Kind == "never" {
			// a message no serializer is registered for: no serializer, or an error, never bytes
			if send != nil {
				if b, err := send.Serialize(msg); err == nil {
					x.Failf("dispatch-unregistered-serialized", "plan %v: Serializer(%T) = %T produced %d bytes for a type that was never registered", c.Plan, msg, send, len(b))
				}
			}
			if b, err := recv.Serialize(msg); err == nil {
				x.Failf("dispatch-unregistered-serialized", "plan %v: composite Serialize(%T) produced %d bytes for a type that was never registered", c.Plan, msg, len(b))
			}
			x.Class("unregistered_refused")
			continue
		}
		if send == nil {
			x.Failf("dispatch-registered-type-no-serializer", "plan %v: Serializer(%T) returned nil for a registered type", c.Plan, msg)
		}
		codec := codecOf[m.Kind]
		if codec == "" {
			codec = "proto"
		}
		numeric := false
		switch m.Kind {
		case "tick", "ratio", "int64", "int", "uint8", "float64":
			numeric = true
		}
		if both && numeric && x.Known(fpC25Ambiguous) {
			// listed finding: top-level numeric payloads are valid in both formats
			x.Class("excluded_known_ambiguity")
			continue
		}
		if codec == "protojson" {
			// an exact-type entry for a concrete proto message: the documented order selects it
			// ("1. Exact concrete type"). While the exact-loses-to-interface finding is listed,
			// Serializer(msg) may answer with the default proto serializer: that frame is
			// checked too, then the message is sent with the serializer the documentation selects.
			if _, isUser := send.(*c25ProtoJSON); !isUser {
				if !x.Known(fpC25ExactLoses) {
					x.Failf(fpC25ExactLoses, "plan %v: Serializer(%T) returned %T, documented order selects the exact-type entry (c25ProtoJSON)", c.Plan, msg, send)
				}
				pdata, perr := send.Serialize(msg)
				if perr != nil {
					x.Failf("dispatch-serialize-refused-proto", "plan %v: %T.Serialize(%v) failed: %v", c.Plan, send, msg, perr)
				}
				pgot, perr := recv.Deserialize(pdata)
				if perr != nil {
					x.Failf("dispatch-roundtrip-decode-error-proto", "plan %v: %v sent with %T does not decode on the receive path: %v", c.Plan, msg, send, perr)
				}
				if d := c25DispEq(msg, pgot); d != "" {
					x.Failf("dispatch-roundtrip-not-equal-proto", "plan %v: %s via %T: %s", c.Plan, m.Kind, send, d)
				}
				x.Class("known_exact_loses_sent_with_documented_serializer")
				send = userSer[m.Kind]
			}
			x.Class("user_serializer_proto_name_non_proto_payload")
		}
		data, err := send.Serialize(msg)
		if err != nil {
			x.Failf("dispatch-serialize-refused-"+codec, "plan %v: %T.Serialize(%#v) failed: %v", c.Plan, send, msg, err)
		}
		got, err := func() (g any, e error) {
			defer func() {
				if p := recover(); p != nil {
					x.Failf("dispatch-deserialize-panic", "plan %v msg %d: composite Deserialize panicked on a %s frame: %v", c.Plan, i, codec, p)
				}
			}()
			return recv.Deserialize(data)
		}()
		if err != nil {
			x.Failf("dispatch-roundtrip-decode-error-"+codec, "plan %v: message %#v sent with %s does not decode on the receive path: %v", c.Plan, msg, codec, err)
		}
		if d := c25DispEq(msg, got); d != "" {
			if both && numeric {
				x.Failf(fpC25Ambiguous, "plan %v: %s sent as a %s frame (payload %q) is decoded by the other format's serializer on the receive path: %s", c.Plan, m.Kind, codec, data[len(data)-c25PayloadLen(data):], d)
			}
			x.Failf("dispatch-roundtrip-not-equal-"+codec, "plan %v: %s via %s: %s", c.Plan, m.Kind, codec, d)
		}
		x.Class("sent_" + codec)
		if both && (codec == "cbor" || codec == "json") {
			x.NonTrivial()
			if numeric {
				x.Class("numeric_scalar_with_both_formats")
			}
		} else if len(c.Plan) >= 2 {
			x.NonTrivial()
		}
	}

	// foreign / garbage frames: an error or some value, never a panic, never (nil, nil)
	func() {
		defer func() {
			if p := recover(); p != nil {
				x.Failf("dispatch-deserialize-panic", "plan %v: composite Deserialize(%x) panicked: %v", c.Plan, c.Garbage, p)
			}
		}()
		g, err := recv.Deserialize(c.Garbage)
		if err == nil && g == nil {
			x.Failf("dispatch-nil-message-nil-error", "plan %v: composite Deserialize(%x) returned (nil, nil)", c.Plan, c.Garbage)
		}
		if err != nil {
			x.Class("garbage_rejected")
		} else {
			x.Class("garbage_decoded")
		}
	}()
}

func c25PayloadLen(frame []byte) int {
	if len(frame) < 8 {
		return len(frame)
	}
	nameLen := int(uint32(frame[4])<<24 | uint32(frame[5])<<16 | uint32(frame[6])<<8 | uint32(frame[7]))
	if 8+nameLen > len(frame) {
		return 0
	}
	return len(frame) - 8 - nameLen
}

func TestVF_C25_dispatch(t *testing.T) {
	vfkit.Run(t, vfkit.Spec[c25DispatchCase]{
		ID: "C25", Unit: "dispatch",
		Rule: "cases = registration plan (1..14 message kinds: struct, named int64/float64/string, builtin primitives, opaque user type, *durationpb.Duration / *timestamppb.Timestamp bound to a user serializer whose shared-layout frames carry the proto full name and a protojson payload, a user interface bound to a user serializer with an xor'ed JSON payload; the others bound to CBOR, JSON or a magic-framed user serializer; generated order) given to NewClient, 1..6 messages of registered kinds (+ proto messages, + a never-registered type) sent through Serializer(msg).Serialize and received through Serializer(nil).Deserialize, plus one garbage frame; non-trivial = a CBOR/JSON message round-tripped on a client that has both formats registered, or any round trip with >= 2 registrations",
		Gen:  c25GenDispatch, Exec: c25ExecDispatch,
	})
}

//go:build verif

package commands

import (
	"bytes"
	"fmt"
	"math"
	"testing"

	"pgregory.net/rapid"

	"github.com/tochemey/goakt/v4/internal/vfkit"
	"github.com/tochemey/goakt/v4/remote"
	"github.com/tochemey/goakt/v4/test/data/testpb"
)

// ---------------------------------------------------------------------------
// C25 / delivery: the reliable-delivery command serializer round-trips every
// valid command (all getters equal), refuses invalid commands and foreign
// messages with an error (never bytes), refuses foreign frames, and the
// reliable payload helpers restore an equal application message.
// ---------------------------------------------------------------------------

type c25DeliveryCase struct {
	Kind      string `json:"kind"` // register | regack | request | ack | seq | chunk
	Session   string `json:"session"`
	Nonce     string `json:"nonce"`
	MessageID string `json:"message_id"`
	A         int64  `json:"a"` // nextSeq / confirmedSeq / seq
	B         int64  `json:"b"` // requestUpToSeq
	Flag1     bool   `json:"flag1"`
	Flag2     bool   `json:"flag2"`
	Payload   []byte `json:"payload"`
	Invalid   int    `json:"invalid"` // 0: valid command; >0: which precondition the zero-built command violates
	Foreign   []byte `json:"foreign"`
	Cut       int    `json:"cut"`
}

func c25GenNonBlank(t *rapid.T, label string) string {
	return rapid.OneOf(
		rapid.SampledFrom([]string{"a", "0", "3f0c5a9e-7d1b-4c1f-9a57-2f6f1f0e7a11", " x", "x ", "é", "日本", "\"", "a/b", "\x00", "-"}),
		rapid.StringN(1, 12, 48).Filter(func(s string) bool {
			for _, r := range s {
				if r != ' ' && r != '\t' && r != '\n' && r != '\r' && r != '\v' && r != '\f' && r != 0x85 && r != 0xA0 && r != 0x1680 && !(r >= 0x2000 && r <= 0x200a) && r != 0x2028 && r != 0x2029 && r != 0x202f && r != 0x205f && r != 0x3000 {
					return true
				}
			}
			return false
		}),
	).Draw(t, label)
}

func c25GenSeq(t *rapid.T, label string, min int64) int64 {
	hi := int64(math.MaxInt64)
	near := min
	if min <= hi-20 {
		near = min + 20
	} else {
		near = hi
	}
	var bounds []int64
	for _, b := range []int64{min, 127, 128, 1<<31 - 1, 1 << 31, 1 << 32, 1<<53 + 1, math.MaxInt64 - 1, math.MaxInt64} {
		if b >= min {
			bounds = append(bounds, b)
		}
	}
	return rapid.OneOf(
		rapid.Int64Range(min, near),
		rapid.SampledFrom(bounds),
		rapid.Int64Range(min, hi),
	).Draw(t, label)
}

func c25GenDelivery(t *rapid.T) c25DeliveryCase {
	var c c25DeliveryCase
	c.Kind = rapid.SampledFrom([]string{"register", "regack", "request", "ack", "seq", "chunk"}).Draw(t, "kind")
	c.Session = c25GenNonBlank(t, "session")
	c.Nonce = c25GenNonBlank(t, "nonce")
	c.MessageID = c25GenNonBlank(t, "message_id")
	switch c.Kind {
	case "regack", "seq", "chunk":
		c.A = c25GenSeq(t, "a", 1)
	default:
		c.A = c25GenSeq(t, "a", 0)
	}
	c.B = c25GenSeq(t, "b", c.A)
	c.Flag1 = rapid.Bool().Draw(t, "flag1")
	c.Flag2 = rapid.Bool().Draw(t, "flag2")
	c.Payload = rapid.OneOf(
		rapid.SliceOfN(rapid.Byte(), 1, 48),
		rapid.SampledFrom([][]byte{{0}, {0xFF, 0xFF, 0xFF, 0xFF, 'R', 'D', 'E', 'L'}, bytes.Repeat([]byte{0xAB}, 300)}),
	).Draw(t, "payload")
	if rapid.IntRange(0, 7).Draw(t, "invalid_sel") == 0 {
		c.Invalid = rapid.IntRange(1, 3).Draw(t, "invalid")
	}
	c.Foreign = rapid.OneOf(
		rapid.SliceOfN(rapid.Byte(), 0, 32),
		rapid.SampledFrom([][]byte{{}, deliveryFrameMagic[:], {0xFF, 0xFF, 0xFF, 0xFF, 'A', 'R', 'E', 'Q'}, {0xDE, 0xAD, 0xBE, 0xEF, 0xCA, 0xFE, 0xBA, 0xBE}, append(append([]byte{}, deliveryFrameMagic[:]...), 0xFF)}),
	).Draw(t, "foreign")
	c.Cut = rapid.IntRange(0, 7).Draw(t, "cut")
	return c
}

// c25BuildCommand builds the command through the public constructors (what the
// controllers do), or a struct literal violating one precondition.
func c25BuildCommand(c c25DeliveryCase) (any, error) {
	if c.Invalid > 0 {
		switch c.Kind {
		case "register":
			return &RegisterConsumer{nonce: "  "}, nil
		case "regack":
			switch c.Invalid {
			case 1:
				return &RegistrationAck{sessionID: "", nextSeq: c.A, nonce: c.Nonce}, nil
			case 2:
				return &RegistrationAck{sessionID: c.Session, nextSeq: 0, nonce: c.Nonce}, nil
			}
			return &RegistrationAck{sessionID: c.Session, nextSeq: c.A, nonce: "\t"}, nil
		case "request":
			switch c.Invalid {
			case 1:
				return &Request{sessionID: " ", registrationNonce: c.Nonce, confirmedSeq: c.A, requestUpToSeq: c.B}, nil
			case 2:
				return &Request{sessionID: c.Session, registrationNonce: c.Nonce, confirmedSeq: -1, requestUpToSeq: c.B}, nil
			}
			return &Request{sessionID: c.Session, registrationNonce: c.Nonce, confirmedSeq: c.A + 1, requestUpToSeq: c.A}, nil
		case "ack":
			if c.Invalid == 1 {
				return &Ack{sessionID: c.Session, registrationNonce: "", confirmedSeq: c.A}, nil
			}
			return &Ack{sessionID: c.Session, registrationNonce: c.Nonce, confirmedSeq: -5}, nil
		default:
			switch c.Invalid {
			case 1:
				return &SequencedMessage{sessionID: c.Session, messageID: c.MessageID, seq: c.A, payload: nil}, nil
			case 2:
				return &SequencedMessage{sessionID: c.Session, messageID: c.MessageID, seq: 0, payload: c.Payload}, nil
			}
			return &SequencedMessage{sessionID: c.Session, messageID: " ", seq: c.A, payload: c.Payload}, nil
		}
	}
	switch c.Kind {
	case "register":
		return NewRegisterConsumer(c.Nonce)
	case "regack":
		return NewRegistrationAck(c.Session, c.A, c.Nonce)
	case "request":
		return NewRequest(c.Session, c.Nonce, c.A, c.B, c.Flag1)
	case "ack":
		return NewAck(c.Session, c.Nonce, c.A)
	case "seq":
		return NewSequencedMessage(c.Session, c.MessageID, c.A, c.Payload)
	default:
		return NewChunkedSequencedMessage(c.Session, c.MessageID, c.A, c.Payload, c.Flag1, c.Flag2)
	}
}

func c25DeliveryDiff(want, got any) string {
	switch w := want.(type) {
	case *RegisterConsumer:
		g, ok := got.(*RegisterConsumer)
		if !ok {
			return fmt.Sprintf("type %T", got)
		}
		if w.Nonce() != g.Nonce() {
			return fmt.Sprintf("nonce %q != %q", w.Nonce(), g.Nonce())
		}
	case *RegistrationAck:
		g, ok := got.(*RegistrationAck)
		if !ok {
			return fmt.Sprintf("type %T", got)
		}
		if w.SessionID() != g.SessionID() || w.NextSeq() != g.NextSeq() || w.Nonce() != g.Nonce() {
			return fmt.Sprintf("(%q,%d,%q) != (%q,%d,%q)", w.SessionID(), w.NextSeq(), w.Nonce(), g.SessionID(), g.NextSeq(), g.Nonce())
		}
	case *Request:
		g, ok := got.(*Request)
		if !ok {
			return fmt.Sprintf("type %T", got)
		}
		if w.SessionID() != g.SessionID() || w.RegistrationNonce() != g.RegistrationNonce() || w.ConfirmedSeq() != g.ConfirmedSeq() || w.RequestUpToSeq() != g.RequestUpToSeq() || w.ViaTimeout() != g.ViaTimeout() {
			return fmt.Sprintf("%+v != %+v", *w, *g)
		}
	case *Ack:
		g, ok := got.(*Ack)
		if !ok {
			return fmt.Sprintf("type %T", got)
		}
		if w.SessionID() != g.SessionID() || w.RegistrationNonce() != g.RegistrationNonce() || w.ConfirmedSeq() != g.ConfirmedSeq() {
			return fmt.Sprintf("%+v != %+v", *w, *g)
		}
	case *SequencedMessage:
		g, ok := got.(*SequencedMessage)
		if !ok {
			return fmt.Sprintf("type %T", got)
		}
		if w.SessionID() != g.SessionID() || w.MessageID() != g.MessageID() || w.Seq() != g.Seq() || !bytes.Equal(w.Payload(), g.Payload()) || w.PayloadSize() != g.PayloadSize() ||
			w.Chunked() != g.Chunked() || w.FirstChunk() != g.FirstChunk() || w.LastChunk() != g.LastChunk() {
			return fmt.Sprintf("(%q,%q,%d,%x,chunked=%v,first=%v,last=%v) != (%q,%q,%d,%x,chunked=%v,first=%v,last=%v)",
				w.SessionID(), w.MessageID(), w.Seq(), w.Payload(), w.Chunked(), w.FirstChunk(), w.LastChunk(),
				g.SessionID(), g.MessageID(), g.Seq(), g.Payload(), g.Chunked(), g.FirstChunk(), g.LastChunk())
		}
	default:
		return fmt.Sprintf("unexpected sent type %T", want)
	}
	return ""
}

func c25Safe[T any](x *vfkit.X, fp, what string, f func() (T, error)) (v T, err error) {
	defer func() {
		if p := recover(); p != nil {
			x.Failf(fp, "%s panicked: %v", what, p)
		}
	}()
	return f()
}

func c25ExecDelivery(x *vfkit.X, c c25DeliveryCase) {
	ser := new(DeliverySerializer)
	x.Class("kind_" + c.Kind)
	cmd, err := c25BuildCommand(c)
	if err != nil {
		// the generator only produces fields the constructors document as valid
		x.Failf("delivery-constructor-refused-valid", "constructor for %s refused %+v: %v", c.Kind, c, err)
	}
	data, err := c25Safe(x, "delivery-serialize-panic", "Serialize", func() ([]byte, error) { return ser.Serialize(cmd) })
	if c.Invalid > 0 {
		if err == nil {
			x.Failf("delivery-invalid-command-serialized", "%s violating precondition %d was serialized to %d bytes: %+v", c.Kind, c.Invalid, len(data), cmd)
		}
		x.Class("invalid_refused")
		x.NonTrivial()
	} else {
		if err != nil {
			x.Failf("delivery-serialize-refused", "Serialize(%T %+v) failed: %v", cmd, cmd, err)
		}
		got, err := c25Safe(x, "delivery-deserialize-panic", "Deserialize", func() (any, error) { return ser.Deserialize(append([]byte{}, data...)) })
		if err != nil {
			x.Failf("delivery-roundtrip-decode-error", "Deserialize(Serialize(%T %+v)) failed: %v", cmd, cmd, err)
		}
		if d := c25DeliveryDiff(cmd, got); d != "" {
			x.Failf("delivery-roundtrip-not-equal-"+c.Kind, "%s: %s", c.Kind, d)
		}
		x.NonTrivial()
		// the proto serializer must not be able to read a delivery frame as its generated wire type
		if m, perr := remote.NewProtoSerializer().Deserialize(data); perr == nil {
			x.Failf("delivery-frame-read-as-proto", "ProtoSerializer decoded a delivery frame as %T", m)
		}
		// truncated frames: an error or a command, never a panic, never (nil, nil)
		if c.Cut > 0 && c.Cut < len(data) {
			g, terr := c25Safe(x, "delivery-deserialize-panic", "Deserialize(truncated)", func() (any, error) { return ser.Deserialize(data[:len(data)-c.Cut]) })
			if terr == nil && g == nil {
				x.Failf("delivery-nil-message-nil-error", "Deserialize(truncated frame) returned (nil, nil)")
			}
			if len(data)-c.Cut < len(deliveryFrameMagic) && terr == nil {
				x.Failf("delivery-foreign-frame-accepted", "a frame shorter than the sentinel was accepted")
			}
		}
	}

	// foreign messages: an error, never bytes
	for _, wrong := range []any{&testpb.Reply{Content: "x"}, "s", 7, nil, (*Ack)(nil), Ack{}, struct{}{}} {
		if b, werr := c25Safe(x, "delivery-serialize-panic", fmt.Sprintf("Serialize(%T)", wrong), func() ([]byte, error) { return ser.Serialize(wrong) }); werr == nil {
			x.Failf("delivery-unsupported-message-serialized", "Serialize(%T) returned %d bytes and no error", wrong, len(b))
		}
	}
	// foreign frames: no panic; frames without the sentinel must be refused
	g, ferr := c25Safe(x, "delivery-deserialize-panic", fmt.Sprintf("Deserialize(%x)", c.Foreign), func() (any, error) { return ser.Deserialize(c.Foreign) })
	if ferr == nil && g == nil {
		x.Failf("delivery-nil-message-nil-error", "Deserialize(%x) returned (nil, nil)", c.Foreign)
	}
	if ferr == nil && !bytes.HasPrefix(c.Foreign, deliveryFrameMagic[:]) {
		x.Failf("delivery-foreign-frame-accepted", "Deserialize(%x) accepted a frame without the sentinel: %T", c.Foreign, g)
	}

	// reliable payload snapshot helpers, with the proto serializer as in production
	if c.Invalid == 0 {
		ps := remote.NewProtoSerializer()
		app := &testpb.Reply{Content: c.MessageID}
		snap, err := EncodeReliablePayload(app, ps)
		if err != nil {
			x.Failf("delivery-payload-encode-refused", "EncodeReliablePayload(%v) failed: %v", app, err)
		}
		back, err := DecodeReliablePayload(snap, ps)
		if err != nil {
			x.Failf("delivery-payload-decode-error", "DecodeReliablePayload failed: %v", err)
		}
		if r, ok := back.(*testpb.Reply); !ok || r.GetContent() != c.MessageID {
			x.Failf("delivery-payload-not-equal", "sent Reply(%q), restored %v", c.MessageID, back)
		}
	}
}

func TestVF_C25_delivery(t *testing.T) {
	vfkit.Run(t, vfkit.Spec[c25DeliveryCase]{
		ID: "C25", Unit: "delivery",
		Rule: "cases = one reliable-delivery command (RegisterConsumer, RegistrationAck, Request, Ack, SequencedMessage, chunked SequencedMessage) built through its constructor from generated non-blank ids, boundary-biased sequences (confirmed <= requestUpTo), payload 1..300 bytes, flags; 1/8 of the cases instead violate one documented precondition; plus a foreign frame and a truncation; non-trivial = a valid command round-tripped with all getters equal, or an invalid one refused",
		Gen:  c25GenDelivery, Exec: c25ExecDelivery,
	})
}

//go:build verif

package actor

import (
	"bytes"
	"fmt"
	"math"
	"strings"
	"testing"
	"time"

	"pgregory.net/rapid"

	"github.com/tochemey/goakt/v4/internal/address"
	"github.com/tochemey/goakt/v4/internal/commands"
	"github.com/tochemey/goakt/v4/internal/remoteclient"
	"github.com/tochemey/goakt/v4/internal/vfkit"
	"github.com/tochemey/goakt/v4/remote"
	"github.com/tochemey/goakt/v4/test/data/testpb"
)

// ---------------------------------------------------------------------------
// C25 / internal: the Terminated and PoisonPill serializers round-trip, are
// the ones chosen for their types by a client configured like
// actorSystem.setupRemoting, survive the composite receive-side dispatcher,
// and refuse every frame / message that is not theirs (documented on each
// Serialize / Deserialize).
// ---------------------------------------------------------------------------

type c25PathSpec struct {
	System string `json:"system"`
	Host   string `json:"host"`
	Port   int    `json:"port"`
	Name   string `json:"name"`
	Parent string `json:"parent,omitempty"`
}

type c25InternalCase struct {
	Kind    string       `json:"kind"` // terminated | poison
	Path    *c25PathSpec `json:"path,omitempty"`
	Nanos   int64        `json:"nanos"`
	Cut     int          `json:"cut"`     // truncate the frame to Cut per-mille of its length (1000 = no cut)
	Extra   []byte       `json:"extra"`   // bytes appended to the frame
	Foreign []byte       `json:"foreign"` // a frame that is not ours
}

func c25GenIdent(t *rapid.T, label string) string {
	first := "abcdefghijklmnopqrstuvwxyzABCDEFGHIJKLMNOPQRSTUVWXYZ0123456789"
	rest := first + "-_."
	n := rapid.OneOf(rapid.IntRange(1, 12), rapid.SampledFrom([]int{1, 2, 63, 254, 255})).Draw(t, label+"_len")
	var sb strings.Builder
	sb.WriteByte(first[rapid.IntRange(0, len(first)-1).Draw(t, label+"_c0")])
	if n > 16 {
		// long names: one drawn filler character, keeps cases small
		ch := rest[rapid.IntRange(0, len(rest)-1).Draw(t, label+"_fill")]
		sb.WriteString(strings.Repeat(string(ch), n-1))
		return sb.String()
	}
	for i := 1; i < n; i++ {
		sb.WriteByte(rest[rapid.IntRange(0, len(rest)-1).Draw(t, label+"_c")])
	}
	return sb.String()
}

func c25GenHost(t *rapid.T) string {
	switch rapid.IntRange(0, 3).Draw(t, "host_kind") {
	case 0:
		return fmt.Sprintf("%d.%d.%d.%d", rapid.IntRange(0, 255).Draw(t, "ip_a"), rapid.IntRange(0, 255).Draw(t, "ip_b"), rapid.IntRange(0, 255).Draw(t, "ip_c"), rapid.IntRange(0, 255).Draw(t, "ip_d"))
	case 1:
		return rapid.SampledFrom([]string{"127.0.0.1", "localhost", "0.0.0.0", "node-1.cluster.local", "a", "10.0.0.12", "::1", "2001:db8::1", "fe80::1ff:fe23:4567:890a"}).Draw(t, "host_b")
	default:
		// hostname: labels of letters/digits/hyphens separated by dots (IPv6 literals are in the
		// sampled hosts above: address.Parse accepts them since /repo c370f6a, property C26)
		n := rapid.IntRange(1, 3).Draw(t, "host_labels")
		var parts []string
		for i := 0; i < n; i++ {
			parts = append(parts, strings.ToLower(strings.NewReplacer("_", "-", ".", "-").Replace(c25GenIdent(t, "host_label"))))
		}
		return strings.Join(parts, ".")
	}
}

func c25GenInternal(t *rapid.T) c25InternalCase {
	var c c25InternalCase
	c.Kind = rapid.SampledFrom([]string{"terminated", "terminated", "terminated", "poison"}).Draw(t, "kind")
	if c.Kind == "terminated" {
		if rapid.IntRange(0, 9).Draw(t, "has_path") > 0 {
			p := &c25PathSpec{System: c25GenIdent(t, "system"), Host: c25GenHost(t), Name: c25GenIdent(t, "name")}
			p.Port = rapid.OneOf(rapid.IntRange(0, 65535), rapid.SampledFrom([]int{0, 1, 80, 9000, 65535})).Draw(t, "port")
			if rapid.Bool().Draw(t, "has_parent") {
				p.Parent = c25GenIdent(t, "parent")
				if p.Parent == p.Name {
					p.Parent += "p"
				}
			}
			c.Path = p
		}
		c.Nanos = rapid.OneOf(
			rapid.Int64Range(1_600_000_000_000_000_000, 2_000_000_000_000_000_000),
			rapid.SampledFrom([]int64{0, 1, -1, 999_999_999, 1_000_000_000, math.MaxInt64, math.MinInt64, math.MaxInt64 - 1, 1 << 32, 1<<32 - 1, -1 << 32, 1 << 62}),
			rapid.Int64(),
		).Draw(t, "nanos")
	}
	c.Cut = rapid.OneOf(rapid.Just(1000), rapid.IntRange(0, 999), rapid.SampledFrom([]int{0, 500, 999})).Draw(t, "cut")
	if rapid.IntRange(0, 3).Draw(t, "has_extra") == 0 {
		c.Extra = rapid.SliceOfN(rapid.Byte(), 1, 9).Draw(t, "extra")
	}
	c.Foreign = rapid.OneOf(
		rapid.SliceOfN(rapid.Byte(), 0, 40),
		rapid.SampledFrom([][]byte{
			{}, poisonPillMagic[:], terminatedMagic[:],
			append(append([]byte{}, terminatedMagic[:]...), 0, 0, 0, 0, 0, 0, 0, 0, 0, 0, 0, 0),
			append(append([]byte{}, terminatedMagic[:]...), 0xFF, 0xFF, 0xFF, 0xFF, 0, 0, 0, 0, 0, 0, 0, 0),
			append(append([]byte{}, terminatedMagic[:]...), 0, 0, 0, 3, 'a', 'b', 'c', 0, 0, 0, 0, 0, 0, 0, 1),
			{0xFF, 0xFF, 0xFF, 0xFF, 'R', 'D', 'E', 'L'},
		}),
	).Draw(t, "foreign")
	return c
}

func c25SafeCall[T any](x *vfkit.X, fp, what string, f func() (T, error)) (v T, err error) {
	defer func() {
		if p := recover(); p != nil {
			x.Failf(fp, "%s panicked: %v", what, p)
		}
	}()
	return f()
}

// c25SystemLikeClient registers the built-in serializers the way
// actorSystem.setupRemoting does.
func c25SystemLikeClient() remoteclient.Client {
	ds := new(commands.DeliverySerializer)
	return remoteclient.NewClient(
		remoteclient.WithClientSerializers(new(PoisonPill), &poisonPillSerializer{}),
		remoteclient.WithClientSerializers(new(Terminated), &terminatedSerializer{}),
		remoteclient.WithClientSerializers(new(commands.AsyncRequest), &commands.AsyncRequestSerializer{}),
		remoteclient.WithClientSerializers(new(commands.AsyncResponse), &commands.AsyncResponseSerializer{}),
		remoteclient.WithClientSerializers(new(commands.RegisterConsumer), ds),
		remoteclient.WithClientSerializers(new(commands.RegistrationAck), ds),
		remoteclient.WithClientSerializers(new(commands.Request), ds),
		remoteclient.WithClientSerializers(new(commands.Ack), ds),
		remoteclient.WithClientSerializers(new(commands.SequencedMessage), ds),
	)
}

func c25ExecInternal(x *vfkit.X, c c25InternalCase) {
	ts, ps := &terminatedSerializer{}, &poisonPillSerializer{}
	cl := c25SystemLikeClient()
	defer cl.Close()
	recv := cl.Serializer(nil)
	x.Class("kind_" + c.Kind)

	var msg any
	var own remote.Serializer
	var want *Terminated
	if c.Kind == "poison" {
		msg, own = new(PoisonPill), ps
	} else {
		want = &Terminated{terminatedAt: time.Unix(0, c.Nanos).UTC()}
		if c.Path != nil {
			p := c.Path
			var addr *address.Address
			if p.Parent != "" {
				addr = address.NewWithParent(p.Name, p.System, p.Host, p.Port, address.New(p.Parent, p.System, p.Host, p.Port))
				x.Class("path_with_parent")
			} else {
				addr = address.New(p.Name, p.System, p.Host, p.Port)
				x.Class("path_no_parent")
			}
			want.actorPath = newPath(addr)
		} else {
			x.Class("path_nil")
		}
		msg, own = want, ts
	}

	// -- chosen by type ------------------------------------------------------------
	chosen := cl.Serializer(msg)
	switch c.Kind {
	case "poison":
		if _, ok := chosen.(*poisonPillSerializer); !ok {
			x.Failf("internal-wrong-serializer-chosen", "Serializer(*PoisonPill) = %T", chosen)
		}
	default:
		if _, ok := chosen.(*terminatedSerializer); !ok {
			x.Failf("internal-wrong-serializer-chosen", "Serializer(*Terminated) = %T", chosen)
		}
	}

	// -- round trip, directly and through the receive-side dispatcher ----------------
	data, err := c25SafeCall(x, "internal-serialize-panic", "Serialize", func() ([]byte, error) { return own.Serialize(msg) })
	if err != nil {
		x.Failf("internal-serialize-refused-"+c.Kind, "Serialize(%T) failed: %v", msg, err)
	}
	for _, via := range []struct {
		name string
		s    remote.Serializer
	}{{"own", own}, {"dispatcher", recv}} {
		got, err := c25SafeCall(x, "internal-deserialize-panic", "Deserialize via "+via.name, func() (any, error) { return via.s.Deserialize(append([]byte{}, data...)) })
		if err != nil {
			x.Failf("internal-roundtrip-decode-error-"+c.Kind, "%s: Deserialize(Serialize(msg)) via %s failed: %v (case %+v)", c.Kind, via.name, err, c)
		}
		if c.Kind == "poison" {
			if _, ok := got.(*PoisonPill); !ok {
				x.Failf("internal-roundtrip-type-changed", "sent *PoisonPill, received %T via %s", got, via.name)
			}
			continue
		}
		g, ok := got.(*Terminated)
		if !ok || g == nil {
			x.Failf("internal-roundtrip-type-changed", "sent *Terminated, received %T via %s", got, via.name)
		}
		if g.TerminatedAt().UnixNano() != c.Nanos || !g.TerminatedAt().Equal(want.TerminatedAt()) {
			x.Failf("terminated-timestamp-not-equal", "via %s: terminatedAt sent %v (%d ns), received %v (%d ns)", via.name, want.TerminatedAt(), c.Nanos, g.TerminatedAt(), g.TerminatedAt().UnixNano())
		}
		wp, gp := want.ActorPath(), g.ActorPath()
		if (wp == nil) != (gp == nil) {
			x.Failf("terminated-path-not-equal", "via %s: path sent %v, received %v", via.name, wp, gp)
		}
		if wp != nil {
			wpar, gpar := "", ""
			if wp.Parent() != nil {
				wpar = wp.Parent().Name()
			}
			if gp.Parent() != nil {
				gpar = gp.Parent().Name()
			}
			if wp.String() != gp.String() || !wp.Equals(gp) || wp.Host() != gp.Host() || wp.Port() != gp.Port() || wp.Name() != gp.Name() || wp.System() != gp.System() || wp.HostPort() != gp.HostPort() || wpar != gpar {
				x.Failf("terminated-path-not-equal", "via %s: path sent %s (host=%s port=%d name=%s system=%s parent=%s), received %s (host=%s port=%d name=%s system=%s parent=%s)", via.name,
					wp.String(), wp.Host(), wp.Port(), wp.Name(), wp.System(), wpar, gp.String(), gp.Host(), gp.Port(), gp.Name(), gp.System(), gpar)
			}
		}
	}
	if c.Kind == "terminated" && c.Path != nil {
		x.NonTrivial()
	}

	// -- frames that are not exactly ours are refused (documented on both Deserialize) --
	bad := append([]byte{}, data...)
	if c.Cut < 1000 {
		bad = bad[:len(bad)*c.Cut/1000]
	}
	bad = append(bad, c.Extra...)
	if !bytes.Equal(bad, data) {
		got, err := c25SafeCall(x, "internal-deserialize-panic", "Deserialize(altered frame)", func() (any, error) { return own.Deserialize(bad) })
		// documented acceptance condition, checked structurally: PoisonPill = exactly the
		// sentinel; Terminated = sentinel + declared path length matching the remaining payload
		wellFormed := false
		if c.Kind == "poison" {
			wellFormed = bytes.Equal(bad, poisonPillMagic[:])
		} else if len(bad) >= 20 && bytes.Equal(bad[:8], terminatedMagic[:]) {
			pl := uint64(bad[8])<<24 | uint64(bad[9])<<16 | uint64(bad[10])<<8 | uint64(bad[11])
			wellFormed = 12+pl+8 == uint64(len(bad))
		}
		if err == nil && !wellFormed {
			x.Failf("internal-altered-frame-accepted-"+c.Kind, "%s frame of %d bytes altered to %d bytes (cut=%d extra=%d) is not a well-formed frame but was accepted as %T", c.Kind, len(data), len(bad), c.Cut, len(c.Extra), got)
		}
		if wellFormed {
			x.Class("altered_frame_still_well_formed")
		} else {
			x.Class("altered_frame_refused")
		}
		_, _ = c25SafeCall(x, "internal-deserialize-panic", "dispatcher Deserialize(altered frame)", func() (any, error) { return recv.Deserialize(bad) })
	}
	// the other internal serializer must not accept our frame
	other := remote.Serializer(ps)
	if c.Kind == "poison" {
		other = ts
	}
	if got, err := c25SafeCall(x, "internal-deserialize-panic", "other.Deserialize", func() (any, error) { return other.Deserialize(data) }); err == nil {
		x.Failf("internal-foreign-frame-accepted", "%T accepted a %s frame and returned %T", other, c.Kind, got)
	}
	// foreign bytes: never a panic; an error unless they happen to be a well-formed frame
	for _, s := range []remote.Serializer{ts, ps, recv} {
		got, err := c25SafeCall(x, "internal-deserialize-panic", fmt.Sprintf("%T.Deserialize(%x)", s, c.Foreign), func() (any, error) { return s.Deserialize(c.Foreign) })
		if err == nil && got == nil {
			x.Failf("internal-nil-message-nil-error", "%T.Deserialize(%x) returned (nil, nil)", s, c.Foreign)
		}
		if _, isPoison := s.(*poisonPillSerializer); isPoison && err == nil && !bytes.Equal(c.Foreign, poisonPillMagic[:]) {
			x.Failf("internal-foreign-frame-accepted", "poisonPillSerializer accepted %x", c.Foreign)
		}
	}

	// -- messages that are not theirs are refused with an error, never bytes -----------
	for _, wrong := range []any{&testpb.Reply{Content: "x"}, (*Terminated)(nil), "str", 42, struct{}{}} {
		if b, err := c25SafeCall(x, "internal-serialize-panic", fmt.Sprintf("terminatedSerializer.Serialize(%T)", wrong), func() ([]byte, error) { return ts.Serialize(wrong) }); err == nil {
			x.Failf("internal-unsupported-message-serialized", "terminatedSerializer.Serialize(%T) returned %d bytes", wrong, len(b))
		}
		if b, err := c25SafeCall(x, "internal-serialize-panic", fmt.Sprintf("poisonPillSerializer.Serialize(%T)", wrong), func() ([]byte, error) { return ps.Serialize(wrong) }); err == nil {
			x.Failf("internal-unsupported-message-serialized", "poisonPillSerializer.Serialize(%T) returned %d bytes", wrong, len(b))
		}
	}
	if b, err := ts.Serialize(new(PoisonPill)); err == nil {
		x.Failf("internal-unsupported-message-serialized", "terminatedSerializer.Serialize(*PoisonPill) returned %d bytes", len(b))
	}
	if b, err := ps.Serialize(want); err == nil && want != nil {
		x.Failf("internal-unsupported-message-serialized", "poisonPillSerializer.Serialize(*Terminated) returned %d bytes", len(b))
	}
}

func TestVF_C25_internal(t *testing.T) {
	vfkit.Run(t, vfkit.Spec[c25InternalCase]{
		ID: "C25", Unit: "internal",
		Rule: "cases = *Terminated (nil path or address from generated system/host(IPv4|IPv6 literal|hostname)/port/name/optional parent; terminatedAt = any int64 unix-nano instant in UTC) or *PoisonPill, plus a frame alteration (truncate per-mille, append bytes) and a foreign frame; serialized with the serializer a setupRemoting-like client chooses, decoded directly and via the composite dispatcher; non-trivial = Terminated with a non-nil path round-tripped both ways",
		Gen:  c25GenInternal, Exec: c25ExecInternal,
	})
}

//go:build verif

package stream

import (
	"context"
	"encoding/json"
	"fmt"
	"os"
	"runtime"
	"strconv"
	"strings"
	"sync"
	"sync/atomic"
	"testing"
	"time"

	"pgregory.net/rapid"

	"github.com/tochemey/goakt/v4/actor"
	"github.com/tochemey/goakt/v4/eventstream"
	"github.com/tochemey/goakt/v4/internal/vfkit"
	"github.com/tochemey/goakt/v4/log"
)

// ---- C46: stream junctions preserve elements and per-branch order ---------------
//
// Elements are tagged: value = source*c46Base + index, so the origin and the
// position of every delivered element can be read back. The oracle is written from
// the doc comments of Merge / Concat / Zip / Broadcast / Balance / Partition in
// stream/source.go and REACTIVE_STREAMS.md §3.6 / §5.3.

const c46Base = 100000

const (
	c46Merge     = 0
	c46Concat    = 1
	c46Zip       = 2
	c46Broadcast = 3
	c46Balance   = 4
	c46Partition = 5
	// fan-out followed by Merge of the (branch-tagged) branches: the diamond of §5.3
	c46BroadcastMerge = 6
	c46BalanceMerge   = 7
	c46PartitionMerge = 8
)

var c46KindNames = [...]string{"Merge", "Concat", "Zip", "Broadcast", "Balance", "Partition", "Broadcast+Merge", "Balance+Merge", "Partition+Merge"}

const c46BranchTag = 10000000 // added per branch in the diamond kinds

type c46Case struct {
	Kind    int   `json:"kind"`
	Lens    []int `json:"lens"`     // fan-in: one length per source; fan-out: Lens[0]
	SrcKind []int `json:"src_kind"` // 0 Of, 1 Range, 2 FromChannel (per source)
	PreMaps int   `json:"pre_maps"` // identity-preserving Map stages attached to every source (0..2)
	N       int   `json:"n"`        // fan-out branches
	PartA   int64 `json:"part_a"`   // partition function: ((idx*A + B) mod M) + Off
	PartB   int64 `json:"part_b"`
	PartM   int64 `json:"part_m"`
	PartOff int64 `json:"part_off"`
	Delays  []int `json:"delays_us"` // consumer speed per branch (fan-out) / of the single sink (fan-in)
	Sink    int   `json:"sink"`      // 0 Collect, 1 ForEach
	Fusion  int   `json:"fusion"`    // 0 default, 1 FuseNone
	Tag     bool  `json:"tag"`       // diamond kinds: tag each branch with a Map before merging
}

const (
	c46FpLivelock    = "stage-self-stop-with-queued-messages-livelock"
	c46FpWireRace    = "run-fails-stage-dead-before-wiring"
)

func c46FanOut(kind int) bool { return kind >= c46Broadcast }

// ---- generator ------------------------------------------------------------------

func c46GenLen(t *rapid.T, label string, max int) int {
	switch rapid.IntRange(0, 7).Draw(t, label+"_kind") {
	case 0:
		return rapid.IntRange(0, 2).Draw(t, label+"_tiny")
	case 1, 2, 3:
		return rapid.IntRange(0, 100).Draw(t, label)
	case 4:
		b := rapid.SampledFrom([]int{63, 64, 65, 100, 159, 160, 161, 223, 224, 225, 256, 300, 448, 449}).Draw(t, label+"_b")
		if b > max {
			b = max
		}
		return b
	default:
		return rapid.IntRange(3, max).Draw(t, label+"_any")
	}
}

func c46Gen(t *rapid.T) c46Case {
	var c c46Case
	c.Kind = rapid.SampledFrom([]int{0, 0, 1, 1, 2, 2, 3, 3, 4, 4, 4, 5, 5, 6, 7, 8}).Draw(t, "kind")
	maxLen := 460
	if vfkit.Known("C46", c46FpLivelock) {
		// a branch that never refills its demand (< 160 elements) keeps the hub of a fan-out
		// from stopping with queued slotDemand messages: see FINDINGS.md
		maxLen = 150
	}
	nSrc := 1
	if !c46FanOut(c.Kind) {
		nSrc = rapid.SampledFrom([]int{0, 1, 2, 2, 3, 3, 4}).Draw(t, "n_sources")
	}
	for i := 0; i < nSrc; i++ {
		c.Lens = append(c.Lens, c46GenLen(t, "len", maxLen))
		c.SrcKind = append(c.SrcKind, rapid.SampledFrom([]int{0, 0, 1, 2}).Draw(t, "src_kind"))
	}
	if rapid.IntRange(0, 3).Draw(t, "equal_lens") == 0 && nSrc > 1 {
		for i := range c.Lens {
			c.Lens[i] = c.Lens[0]
		}
	}
	c.PreMaps = rapid.SampledFrom([]int{0, 0, 0, 1, 2, 2}).Draw(t, "pre_maps")
	c.Fusion = rapid.SampledFrom([]int{0, 0, 1}).Draw(t, "fusion")
	branches := 1
	if c46FanOut(c.Kind) {
		c.N = rapid.IntRange(1, 4).Draw(t, "n")
		branches = c.N
		if c.Kind == c46Partition || c.Kind == c46PartitionMerge {
			c.PartA = rapid.Int64Range(0, 5).Draw(t, "part_a")
			c.PartB = rapid.Int64Range(0, 5).Draw(t, "part_b")
			switch rapid.IntRange(0, 3).Draw(t, "part_range") {
			case 0: // some results out of range (documented: dropped silently)
				c.PartM = int64(c.N) + rapid.Int64Range(1, 2).Draw(t, "part_over")
				c.PartOff = rapid.Int64Range(-1, 0).Draw(t, "part_off")
			default:
				c.PartM = int64(c.N)
			}
		}
	}
	if c.Kind >= c46BroadcastMerge {
		branches = 1
	}
	for i := 0; i < branches; i++ {
		c.Delays = append(c.Delays, rapid.SampledFrom([]int{0, 0, 0, 1, 20, 200}).Draw(t, "delay_us"))
	}
	c.Sink = rapid.IntRange(0, 1).Draw(t, "sink")
	c.Tag = c.Kind >= c46BroadcastMerge && rapid.IntRange(0, 3).Draw(t, "tag") > 0
	rare := rapid.IntRange(0, 3).Draw(t, "rare") == 0
	if vfkit.Known("C46", c46FpLivelock) && c.Kind == c46Zip && !rare {
		// Zip over inputs of unequal length leaves the longer inputs' internal sinks failing on
		// the stopped zip actor with elements still queued: each such run can cost a dispatcher
		// worker for the rest of the process (FINDINGS.md), so keep it to a quarter of the Zip cases.
		for i := range c.Lens {
			c.Lens[i] = c.Lens[0]
		}
	}
	c46AvoidKnown(&c)
	return c
}

func c46AvoidKnown(c *c46Case) {
	if vfkit.Known("C46", c46FpLivelock) {
		// Junctions materialize their sub-pipelines unfused, so a Map in front of a junction
		// is a flowActor; it signals completion twice, which leaves a message in the
		// internal (unmaskable) mailbox of the junction's collecting sink / hub.
		c.PreMaps = 0
		c.Tag = false // the tagging Map is a flowActor in front of Merge's internal sink, too
	}
}

// ---- reference ------------------------------------------------------------------

func c46Elems(src, n int) []int64 {
	out := make([]int64, n)
	for i := range out {
		out[i] = int64(src)*c46Base + int64(i)
	}
	return out
}

func c46PartFn(c *c46Case) func(int64) int {
	a, b, m, off := c.PartA, c.PartB, c.PartM, c.PartOff
	return func(v int64) int {
		idx := v % c46Base
		return int((idx*a+b)%m + off)
	}
}

// ---- runtime plumbing -------------------------------------------------------------

type c46Mailbox struct {
	inner    *actor.BoundedMailbox
	mask     bool
	disposed atomic.Bool
	leftover atomic.Int64
	polls    atomic.Int64
}

func (m *c46Mailbox) Enqueue(msg *actor.ReceiveContext) error { return m.inner.Enqueue(msg) }
func (m *c46Mailbox) Dequeue() *actor.ReceiveContext {
	if m.disposed.Load() {
		m.polls.Add(1)
		if m.mask {
			return nil
		}
	}
	return m.inner.Dequeue()
}
func (m *c46Mailbox) IsEmpty() bool {
	if m.mask && m.disposed.Load() {
		return true
	}
	return m.inner.IsEmpty()
}
func (m *c46Mailbox) Len() int64 {
	if m.mask && m.disposed.Load() {
		return 0
	}
	return m.inner.Len()
}
func (m *c46Mailbox) Dispose() {
	m.leftover.Store(m.inner.Len())
	m.disposed.Store(true)
	m.inner.Dispose()
}

type c46Env struct {
	mask  bool
	boxes []*c46Mailbox
}

// hardenStages gives every stage description a fresh wrapped default mailbox
// (actor.NewBoundedMailbox(BufferSize*2), what the materializer would create).
func (e *c46Env) hardenStages(in []*stage) []*stage {
	st := make([]*stage, len(in))
	for i, s := range in {
		cp := *s
		if cp.config.Mailbox == nil && cp.config.BufferSize > 0 {
			mb := &c46Mailbox{inner: actor.NewBoundedMailbox(cp.config.BufferSize * 2), mask: e.mask}
			cp.config.Mailbox = mb
			e.boxes = append(e.boxes, mb)
		}
		st[i] = &cp
	}
	return st
}

func c46HardenSource[T any](e *c46Env, s Source[T]) Source[T] {
	return Source[T]{stages: e.hardenStages(s.stages)}
}

func (e *c46Env) hardenGraph(g RunnableGraph) RunnableGraph {
	g.stages = e.hardenStages(g.stages)
	return g
}

func (e *c46Env) livelocked() (int64, bool) {
	for _, mb := range e.boxes {
		if mb.mask || !mb.disposed.Load() || mb.leftover.Load() == 0 {
			continue
		}
		p0 := mb.polls.Load()
		time.Sleep(3 * time.Millisecond)
		p1 := mb.polls.Load()
		time.Sleep(3 * time.Millisecond)
		p2 := mb.polls.Load()
		if p2 > p1 && p1 > p0 && p2 > 2000 {
			return mb.leftover.Load(), true
		}
	}
	return 0, false
}

var (
	c46LastKind string
	c46LastCase string
	c46System   actor.ActorSystem
	c46Events   eventstream.Subscriber
	c46SysCases int
	c46SysSeq   int
	c46StallMax = 12 * time.Second
)

func c46StartSystem() error {
	c46SysSeq++
	name := "vfc46-" + strconv.Itoa(os.Getpid()) + "-" + strconv.Itoa(c46SysSeq)
	sys, err := actor.NewActorSystem(name, actor.WithLogger(log.DiscardLogger))
	if err != nil {
		return err
	}
	if err := sys.Start(context.Background()); err != nil {
		return err
	}
	c46System = sys
	c46Events = nil
	if sub, err := sys.Subscribe(); err == nil {
		c46Events = sub
	}
	c46SysCases = 0
	return nil
}

func c46StopSystem() {
	if c46System != nil {
		// a system that lost workers to the livelock finding may never finish stopping:
		// do not wait for it longer than 25 s
		sys := c46System
		done := make(chan struct{})
		go func() {
			ctx, cancel := context.WithTimeout(context.Background(), 20*time.Second)
			_ = sys.Stop(ctx)
			cancel()
			close(done)
		}()
		select {
		case <-done:
		case <-time.After(25 * time.Second):
		}
		c46System = nil
	}
}

// c46Recycle replaces the shared actor system. Junction-internal stages (hubs,
// collecting sinks) cannot be given a masking mailbox, so while the livelock finding
// is open a dispatcher worker may be lost now and then; a fresh system bounds that.
func c46Recycle(x *vfkit.X) {
	c46StopSystem()
	if err := c46StartSystem(); err != nil {
		panic("c46: cannot restart actor system: " + err.Error())
	}
	if x != nil {
		x.Class("actor-system-recycled")
	}
}

// c46Spinning detects dispatcher workers lost to the livelock finding in a
// junction-internal stage: goroutines that, in three dumps taken 1 ms apart, are inside
// PID.runTurn without being inside a message handler (an idle system has all its
// workers parked in readyQueue.parkAndTake). Workers already known to be lost (they
// survive ActorSystem.Stop) are ignored. Returns the number of newly lost workers.
func c46Spinning() int {
	buf := make([]byte, 1<<20)
	var cand map[string]bool
	for i := 0; i < 3; i++ {
		n := runtime.Stack(buf, true)
		cur := map[string]bool{}
		for _, g := range strings.Split(string(buf[:n]), "\n\n") {
			if strings.Contains(g, "actor.(*PID).runTurn") && !strings.Contains(g, "handleReceived") && !strings.Contains(g, "dispatchOne") {
				if f := strings.Fields(g); len(f) > 1 && !c46LostWorkers[f[1]] {
					cur[f[1]] = true
				}
			}
		}
		if cand == nil {
			cand = cur
		} else {
			for id := range cand {
				if !cur[id] {
					delete(cand, id)
				}
			}
		}
		if len(cand) == 0 {
			return 0
		}
		time.Sleep(time.Millisecond)
	}
	for id := range cand {
		c46LostWorkers[id] = true
	}
	return len(cand)
}

var c46LostWorkers = map[string]bool{}

func c46DrainPanics() []string {
	var out []string
	if c46Events == nil {
		return nil
	}
	for m := range c46Events.Iterator() {
		if ev, ok := m.Payload().(*actor.ActorSuspended); ok && strings.HasPrefix(ev.ActorPath().Name(), "stream-") {
			reason := ev.Reason()
			if len(reason) > 160 {
				reason = reason[:160]
			}
			out = append(out, ev.ActorPath().Name()+": "+reason)
		}
	}
	return out
}

func c46Reap(from uint64) {
	ctx := context.Background()
	to := atomic.LoadUint64(&streamSeq)
	for id := from + 1; id <= to; id++ {
		if pid, err := c46System.ActorOf(ctx, "stream-supervisor-"+strconv.FormatUint(id, 10)); err == nil && pid != nil {
			_ = pid.Shutdown(ctx)
		}
	}
}

type c46Sleeper struct{ left atomic.Int64 }

func (s *c46Sleeper) pause(us int, v int64) {
	if us <= 0 {
		return
	}
	if v%3 == 0 {
		runtime.Gosched()
		return
	}
	if s.left.Add(-1) < 0 {
		return
	}
	time.Sleep(time.Duration(us) * time.Microsecond)
}

// c46Recorder is one consumer (sink) and what it saw.
type c46Recorder struct {
	mu    sync.Mutex
	items []int64
	tups  [][]int64
	col   *Collector[int64] // set when the consumer is a Collect sink
}

func (r *c46Recorder) snapshot() ([]int64, [][]int64) {
	r.mu.Lock()
	defer r.mu.Unlock()
	return append([]int64(nil), r.items...), append([][]int64(nil), r.tups...)
}

func c46IntSink(c *c46Case, rec *c46Recorder, delay int, sl *c46Sleeper) Sink[int64] {
	if c.Sink == 0 && delay == 0 {
		col, sink := Collect[int64]()
		rec.col = col
		return sink
	}
	return ForEach(func(v int64) {
		sl.pause(delay, v)
		rec.mu.Lock()
		rec.items = append(rec.items, v)
		rec.mu.Unlock()
	})
}

// c46Items returns what the consumer has seen so far (also for a stream that was aborted).
func c46Items(rec *c46Recorder) []int64 {
	if rec.col != nil {
		rec.col.mu.Lock()
		defer rec.col.mu.Unlock()
		return append([]int64(nil), rec.col.items...)
	}
	it, _ := rec.snapshot()
	return it
}

func c46Source(c *c46Case, env *c46Env, src int, stop chan struct{}) Source[int64] {
	elems := c46Elems(src, c.Lens[src])
	var s Source[int64]
	switch c.SrcKind[src] {
	case 1:
		s = Range(int64(src)*c46Base, int64(src)*c46Base+int64(len(elems)))
	case 2:
		ch := make(chan int64)
		go func() {
			defer close(ch)
			for i, v := range elems {
				select {
				case ch <- v:
				case <-stop:
					return
				}
				if i%17 == 16 {
					runtime.Gosched()
				}
			}
		}()
		s = FromChannel[int64](ch)
	default:
		s = Of(elems...)
	}
	for i := 0; i < c.PreMaps; i++ {
		s = s.Via(Map(func(v int64) int64 { return v }))
	}
	return c46HardenSource(env, s)
}

type c46Outcome struct {
	timedOut bool
	skipped  bool
	errs     []error
	branches [][]int64 // per consumer
	tuples   [][]int64 // Zip
}

func c46Shape(c *c46Case) string {
	return fmt.Sprintf("%s lens=%v n=%d preMaps=%d fusion=%d", c46KindNames[c.Kind], c.Lens, c.N, c.PreMaps, c.Fusion)
}

func c46Execute(x *vfkit.X, c *c46Case) c46Outcome {
	var out c46Outcome
	ctx := context.Background()
	env := &c46Env{mask: x.Known(c46FpLivelock)}
	sl := &c46Sleeper{}
	sl.left.Store(120)
	stop := make(chan struct{})
	defer close(stop)
	from := atomic.LoadUint64(&streamSeq)
	defer func() { c46Reap(from) }()
	c46DrainPanics()

	var graphs []RunnableGraph
	var recs []*c46Recorder
	var zipRec *c46Recorder

	switch {
	case !c46FanOut(c.Kind):
		srcs := make([]Source[int64], len(c.Lens))
		for i := range srcs {
			srcs[i] = c46Source(c, env, i, stop)
		}
		rec := &c46Recorder{}
		delay := c.Delays[0]
		switch c.Kind {
		case c46Merge:
			graphs = append(graphs, Merge(srcs...).To(c46IntSink(c, rec, delay, sl)))
			recs = append(recs, rec)
		case c46Concat:
			graphs = append(graphs, Concat(srcs...).To(c46IntSink(c, rec, delay, sl)))
			recs = append(recs, rec)
		default:
			zipRec = rec
			graphs = append(graphs, Zip(srcs...).To(ForEach(func(tp []int64) {
				if len(tp) > 0 {
					sl.pause(delay, tp[0])
				}
				rec.mu.Lock()
				rec.tups = append(rec.tups, tp)
				rec.mu.Unlock()
			})))
		}
	default:
		src := c46Source(c, env, 0, stop)
		var branches []Source[int64]
		switch c.Kind {
		case c46Broadcast, c46BroadcastMerge:
			branches = Broadcast(src, c.N)
		case c46Balance, c46BalanceMerge:
			branches = Balance(src, c.N)
		default:
			branches = Partition(src, c.N, c46PartFn(c))
		}
		if c.Kind >= c46BroadcastMerge {
			tagged := make([]Source[int64], len(branches))
			for i, b := range branches {
				tag := int64(i+1) * c46BranchTag
				tb := b
				if c.Tag {
					tb = b.Via(Map(func(v int64) int64 { return v + tag }))
				}
				tagged[i] = c46HardenSource(env, tb)
			}
			rec := &c46Recorder{}
			graphs = append(graphs, Merge(tagged...).To(c46IntSink(c, rec, c.Delays[0], sl)))
			recs = append(recs, rec)
		} else {
			for i, b := range branches {
				rec := &c46Recorder{}
				graphs = append(graphs, b.To(c46IntSink(c, rec, c.Delays[i], sl)))
				recs = append(recs, rec)
			}
		}
	}

	var handles []StreamHandle
	for _, g := range graphs {
		g = env.hardenGraph(g)
		if c.Fusion == 1 {
			g = g.WithFusion(FuseNone)
		}
		h, err, blocked := c46Run(ctx, g)
		if blocked {
			// materialization itself did not return: the actor system no longer processes messages
			for _, hh := range handles {
				hh.Abort()
			}
			x.Class("inconclusive-timeout")
			x.Class("inconclusive-timeout:run-blocked")
			out.skipped = true
			return out
		}
		if err != nil {
			for _, hh := range handles {
				hh.Abort()
			}
			what := fmt.Sprintf("RunnableGraph.Run failed: %v; stage panics: %s", err, strings.Join(c46DrainPanics(), " | "))
			if strings.Contains(err.Error(), "wire stage") {
				c46StagePanic(x, c, what, false)
				out.skipped = true
				return out
			}
			x.Failf("run-error", "%s (%s)", what, c46Shape(c))
		}
		handles = append(handles, h)
	}

	started := time.Now()
	var panics []string
	panicPolls := 0
	for _, h := range handles {
		tick := time.NewTicker(300 * time.Millisecond)
	wait:
		for {
			select {
			case <-h.Done():
				break wait
			case <-tick.C:
				panics = append(panics, c46DrainPanics()...)
				if len(panics) > 0 {
					if panicPolls++; panicPolls >= 3 {
						out.timedOut = true
						break wait
					}
				}
				if time.Since(started) > c46StallMax {
					out.timedOut = true
					break wait
				}
			}
		}
		tick.Stop()
		if out.timedOut {
			break
		}
	}
	panics = append(panics, c46DrainPanics()...)
	if out.timedOut {
		for _, h := range handles {
			h.Abort()
		}
		time.Sleep(2 * time.Millisecond)
	}
	if len(panics) > 0 {
		how := "the stream(s) completed 'normally'"
		if out.timedOut {
			how = "Done() never closes"
		}
		c46StagePanic(x, c, fmt.Sprintf("%s; stage panics: %s", how, strings.Join(panics, " | ")), out.timedOut)
		out.skipped = true
		return out
	}
	if left, bad := env.livelocked(); bad {
		x.Failf(c46FpLivelock, "a stage stopped itself with %d message(s) still in its BoundedMailbox; the dispatcher keeps polling the disposed mailbox forever (%s)", left, c46Shape(c))
	}
	if !out.timedOut {
		for _, h := range handles {
			out.errs = append(out.errs, h.Err())
		}
	}
	for _, r := range recs {
		out.branches = append(out.branches, c46Items(r))
	}
	if zipRec != nil {
		_, out.tuples = zipRec.snapshot()
	}
	return out
}

// c46Run materializes g, giving up after 30 s (only possible when the actor system is wedged).
func c46Run(ctx context.Context, g RunnableGraph) (StreamHandle, error, bool) {
	type res struct {
		h   StreamHandle
		err error
	}
	ch := make(chan res, 1)
	sys := c46System
	go func() {
		h, err := g.Run(ctx, sys)
		ch <- res{h, err}
	}()
	select {
	case r := <-ch:
		return r.h, r.err, false
	case <-time.After(30 * time.Second):
		return nil, nil, true
	}
}

func c46StagePanic(x *vfkit.X, c *c46Case, what string, stalled bool) {
	fp := "stage-actor-panic"
	if strings.Contains(what, "nil pointer") || strings.Contains(what, "index out of range") || strings.Contains(what, "wire stage") {
		fp = c46FpWireRace
	}
	if x.Known(fp) {
		x.Class("known:" + fp)
		if stalled {
			x.Class("known:" + fp + ":stall")
		}
		return
	}
	x.Failf(fp, "%s (%s)", what, c46Shape(c))
}

// ---- oracle -----------------------------------------------------------------------

func c46Head(xs []int64, n int) string {
	if len(xs) <= n {
		return fmt.Sprint(xs)
	}
	return fmt.Sprint(xs[:n]) + fmt.Sprintf("…(+%d)", len(xs)-n)
}

// c46CheckTagged verifies a sequence of tagged elements: every element belongs to one of
// the sources (keyed by tag/c46Base), each source's elements appear in index order
// without gaps or repeats, and (unless partial) exactly want[src] elements of each source
// arrived. want < 0 for a key means "not allowed at all".
func c46CheckTagged(x *vfkit.X, c *c46Case, what string, got []int64, want map[int64]int, partial bool) {
	next := map[int64]int64{}
	for pos, v := range got {
		key, idx := v/c46Base, v%c46Base
		w, ok := want[key]
		if !ok || idx >= int64(w) {
			x.Failf("junction-foreign-element", "%s: element %d at position %d does not belong to the expected streams (%s)", what, v, pos, c46Shape(c))
		}
		if idx != next[key] {
			fp := "junction-order-violated"
			if idx < next[key] {
				fp = "junction-duplicate-element"
			} else if idx > next[key] {
				fp = "junction-element-lost-or-reordered"
			}
			x.Failf(fp, "%s: at position %d got index %d of stream %d, expected index %d next; got %s (%s)", what, pos, idx, key, next[key], c46Head(got[pos:], 8), c46Shape(c))
		}
		next[key] = idx + 1
	}
	if partial {
		return
	}
	for key, w := range want {
		if next[key] != int64(w) {
			x.Failf("junction-elements-missing", "%s: stream %d delivered %d of %d elements before completion (%s)", what, key, next[key], w, c46Shape(c))
		}
	}
}

func c46Judge(x *vfkit.X, c *c46Case, o *c46Outcome) {
	partial := o.timedOut
	for i, err := range o.errs {
		if err != nil {
			x.Failf("junction-unexpected-error", "stream %d ended with %v (%s)", i, err, c46Shape(c))
		}
	}
	switch c.Kind {
	case c46Merge:
		want := map[int64]int{}
		for s, n := range c.Lens {
			want[int64(s)] = n
		}
		c46CheckTagged(x, c, "Merge", o.branches[0], want, partial)
	case c46Concat:
		var exp []int64
		for s, n := range c.Lens {
			exp = append(exp, c46Elems(s, n)...)
		}
		got := o.branches[0]
		for i := 0; i < len(got) && i < len(exp); i++ {
			if got[i] != exp[i] {
				x.Failf("concat-wrong-element", "Concat: element %d is %d, want %d; got %s (%s)", i, got[i], exp[i], c46Head(got[i:], 8), c46Shape(c))
			}
		}
		if len(got) > len(exp) {
			x.Failf("concat-extra-elements", "Concat delivered %d elements, want %d (%s)", len(got), len(exp), c46Shape(c))
		}
		if !partial && len(got) < len(exp) {
			x.Failf("junction-elements-missing", "Concat completed after %d of %d elements (%s)", len(got), len(exp), c46Shape(c))
		}
	case c46Zip:
		minLen := 0
		for i, n := range c.Lens {
			if i == 0 || n < minLen {
				minLen = n
			}
		}
		for i, tp := range o.tuples {
			if i >= minLen {
				x.Failf("zip-extra-tuple", "Zip emitted tuple %d = %v although the shortest input has %d elements (%s)", i, tp, minLen, c46Shape(c))
			}
			if len(tp) != len(c.Lens) {
				x.Failf("zip-wrong-arity", "Zip tuple %d has %d components for %d inputs (%s)", i, len(tp), len(c.Lens), c46Shape(c))
			}
			for s, v := range tp {
				if v != int64(s)*c46Base+int64(i) {
					x.Failf("zip-not-positional", "Zip tuple %d = %v: component %d should be element %d of input %d (%s)", i, tp, s, i, s, c46Shape(c))
				}
			}
		}
		if !partial && len(o.tuples) != minLen {
			x.Failf("zip-tuples-missing", "Zip completed after %d of %d tuples (%s)", len(o.tuples), minLen, c46Shape(c))
		}
	case c46Broadcast:
		for b, got := range o.branches {
			c46CheckTagged(x, c, "Broadcast branch "+strconv.Itoa(b), got, map[int64]int{0: c.Lens[0]}, partial)
		}
	case c46Balance:
		seen := make([]int, c.Lens[0])
		for b, got := range o.branches {
			last := int64(-1)
			for pos, v := range got {
				idx := v % c46Base
				if v/c46Base != 0 || idx >= int64(c.Lens[0]) {
					x.Failf("junction-foreign-element", "Balance branch %d: element %d at position %d is not an input element (%s)", b, v, pos, c46Shape(c))
				}
				if idx <= last {
					x.Failf("balance-branch-order", "Balance branch %d: index %d after %d (%s)", b, idx, last, c46Shape(c))
				}
				last = idx
				seen[idx]++
				if seen[idx] > 1 {
					x.Failf("balance-element-twice", "Balance delivered element %d to more than one branch / more than once (%s)", idx, c46Shape(c))
				}
			}
		}
		if !partial {
			missing := 0
			first := -1
			for i, n := range seen {
				if n == 0 {
					missing++
					if first < 0 {
						first = i
					}
				}
			}
			if missing > 0 {
				x.Failf("balance-element-lost", "Balance: %d of %d elements reached no branch (first missing index %d); branch sizes %v (%s)", missing, len(seen), first, c46Sizes(o.branches), c46Shape(c))
			}
		}
	case c46Partition:
		f := c46PartFn(c)
		exp := make([][]int64, c.N)
		for _, v := range c46Elems(0, c.Lens[0]) {
			if b := f(v); b >= 0 && b < c.N {
				exp[b] = append(exp[b], v)
			}
		}
		for b, got := range o.branches {
			for i := 0; i < len(got) && i < len(exp[b]); i++ {
				if got[i] != exp[b][i] {
					fp := "partition-wrong-element"
					if bb := f(got[i]); bb != b {
						fp = "partition-wrong-branch"
					}
					x.Failf(fp, "Partition branch %d: element %d is %d (f=%d), want %d (%s)", b, i, got[i], f(got[i]), exp[b][i], c46Shape(c))
				}
			}
			if len(got) > len(exp[b]) {
				x.Failf("partition-extra-elements", "Partition branch %d got %d elements, want %d; extra %s (%s)", b, len(got), len(exp[b]), c46Head(got[len(exp[b]):], 6), c46Shape(c))
			}
			if !partial && len(got) < len(exp[b]) {
				x.Failf("junction-elements-missing", "Partition branch %d completed after %d of %d elements (%s)", b, len(got), len(exp[b]), c46Shape(c))
			}
		}
	default: // diamonds: Merge of the fan-out branches
		got := o.branches[0]
		if c.Tag {
			per := make([][]int64, c.N)
			for pos, v := range got {
				b := v/c46BranchTag - 1
				if b < 0 || b >= int64(c.N) {
					x.Failf("junction-foreign-element", "%s: element %d at position %d carries no valid branch tag (%s)", c46KindNames[c.Kind], v, pos, c46Shape(c))
				}
				per[b] = append(per[b], v%c46BranchTag)
			}
			sub := *c
			sub.Kind = c.Kind - 3
			so := c46Outcome{timedOut: o.timedOut, branches: per}
			c46Judge(x, &sub, &so)
			return
		}
		c46JudgeUntagged(x, c, got, partial)
	}
}

// c46JudgeUntagged judges a fan-out whose branches were merged back without branch tags.
func c46JudgeUntagged(x *vfkit.X, c *c46Case, got []int64, partial bool) {
	n := c.Lens[0]
	name := c46KindNames[c.Kind]
	count := make([]int, n+1)
	for pos, v := range got {
		idx := v % c46Base
		if v/c46Base != 0 || idx >= int64(n) {
			x.Failf("junction-foreign-element", "%s: element %d at position %d is not an input element (%s)", name, v, pos, c46Shape(c))
		}
		count[idx]++
	}
	switch c.Kind {
	case c46BroadcastMerge:
		// the merged stream must be an interleaving of N copies of 0..n-1, each in order:
		// at every prefix, index i has been seen at least as often as index i+1, and never more than N times
		seen := make([]int, n+1)
		for pos, v := range got {
			idx := int(v % c46Base)
			seen[idx]++
			if seen[idx] > c.N {
				x.Failf("junction-duplicate-element", "%s: index %d delivered %d times for %d branches (%s)", name, idx, seen[idx], c.N, c46Shape(c))
			}
			if idx > 0 && seen[idx] > seen[idx-1] {
				x.Failf("junction-order-violated", "%s: at position %d index %d has been delivered %d times but index %d only %d times: some branch is out of order (%s)", name, pos, idx, seen[idx], idx-1, seen[idx-1], c46Shape(c))
			}
		}
		if !partial {
			for i := 0; i < n; i++ {
				if count[i] != c.N {
					x.Failf("junction-elements-missing", "%s: index %d delivered %d times, want %d (%s)", name, i, count[i], c.N, c46Shape(c))
				}
			}
		}
	case c46BalanceMerge:
		for i := 0; i < n; i++ {
			if count[i] > 1 {
				x.Failf("balance-element-twice", "%s: index %d delivered %d times (%s)", name, i, count[i], c46Shape(c))
			}
			if !partial && count[i] == 0 {
				x.Failf("balance-element-lost", "%s: index %d reached no branch (%d of %d delivered) (%s)", name, i, len(got), n, c46Shape(c))
			}
		}
	default:
		f := c46PartFn(c)
		last := make([]int64, c.N)
		for i := range last {
			last[i] = -1
		}
		for pos, v := range got {
			idx := v % c46Base
			b := f(v)
			if b < 0 || b >= c.N {
				x.Failf("partition-extra-elements", "%s: element %d (f=%d, out of range) was delivered at position %d (%s)", name, v, b, pos, c46Shape(c))
			}
			if idx <= last[b] {
				x.Failf("junction-order-violated", "%s: branch %d delivered index %d after %d (%s)", name, b, idx, last[b], c46Shape(c))
			}
			last[b] = idx
		}
		if !partial {
			for i := 0; i < n; i++ {
				b := f(int64(i))
				want := 0
				if b >= 0 && b < c.N {
					want = 1
				}
				if count[i] != want {
					x.Failf("junction-elements-missing", "%s: index %d (f=%d) delivered %d times, want %d (%s)", name, i, b, count[i], want, c46Shape(c))
				}
			}
		}
	}
}

func c46Sizes(bs [][]int64) []int {
	out := make([]int, len(bs))
	for i, b := range bs {
		out[i] = len(b)
	}
	return out
}

func c46Exec(x *vfkit.X, c c46Case) {
	recycleEvery := 100000
	if x.Known(c46FpLivelock) {
		recycleEvery = 120
	}
	if c46System == nil || c46SysCases >= recycleEvery {
		c46Recycle(x)
	} else if x.Known(c46FpLivelock) && c46Spinning() > 0 {
		x.Class("actor-system-recycled:cpu-burn")
		x.Class("cpu-burn-after:" + c46LastKind)
		if os.Getenv("C46_DEBUG") != "" {
			fmt.Printf("C46-SPIN after case=%s\n", c46LastCase)
			buf := make([]byte, 1<<20)
			buf = buf[:runtime.Stack(buf, true)]
			_ = os.WriteFile(fmt.Sprintf("/var/tmp/c46-dbg/spin-%d.txt", c46SysSeq), buf, 0o644)
		}
		c46Recycle(x)
	}
	c46SysCases++
	defer func() {
		c46LastKind = c46KindNames[c.Kind] + "/src" + fmt.Sprint(c.SrcKind)
		if os.Getenv("C46_DEBUG") != "" {
			b, _ := json.Marshal(c)
			c46LastCase = string(b)
		}
	}()

	x.Class("kind:" + c46KindNames[c.Kind])
	x.Class("pre_maps:" + strconv.Itoa(c.PreMaps))
	x.Class("fusion:" + strconv.Itoa(c.Fusion))
	unequal := false
	for _, n := range c.Lens {
		if n != c.Lens[0] {
			unequal = true
		}
		switch {
		case n == 0:
			x.Class("len:0")
		case n < 160:
			x.Class("len:1-159")
		case n <= 224:
			x.Class("len:160-224")
		default:
			x.Class("len:>224")
		}
	}
	for _, d := range c.Delays {
		if d != c.Delays[0] {
			unequal = true
		}
	}
	width := len(c.Lens)
	if c46FanOut(c.Kind) {
		width = c.N
		x.Class("branches:" + strconv.Itoa(c.N))
		if c.PartM > int64(c.N) {
			x.Class("partition-out-of-range")
		}
		if c.N >= 2 {
			// with >= 2 branches the consumers always differ in what / when they consume
			unequal = true
		}
	} else {
		x.Class("sources:" + strconv.Itoa(len(c.Lens)))
	}
	total := 0
	for _, n := range c.Lens {
		total += n
	}
	if width >= 2 && unequal && total >= 4 {
		x.NonTrivial()
	}

	o := c46Execute(x, &c)
	if o.skipped {
		c46Recycle(x)
		return
	}
	if o.timedOut {
		x.Class("inconclusive-timeout")
		x.Class("inconclusive-timeout:" + c46KindNames[c.Kind])
		if os.Getenv("C46_DEBUG") != "" {
			b, _ := json.Marshal(c)
			fmt.Printf("C46-TIMEOUT sizes=%v tuples=%d case=%s\n", c46Sizes(o.branches), len(o.tuples), b)
		}
	}
	c46Judge(x, &c, &o)
	if o.timedOut {
		c46Recycle(x)
	}
}

func TestVF_C46_junction(t *testing.T) {
	if err := c46StartSystem(); err != nil {
		t.Fatalf("actor system: %v", err)
	}
	t.Cleanup(c46StopSystem)
	vfkit.Run(t, vfkit.Spec[c46Case]{
		ID: "C46", Unit: "junction",
		Rule: "cases = junction kind (Merge, Concat, Zip, Broadcast, Balance, Partition, and each fan-out followed by Merge) x 0..4 tagged sources / 1..4 branches x lengths (boundary-biased around the demand window) x source kinds x consumer speeds x 0..2 Map stages in front of the junction; non-trivial = >= 2 sources/branches with unequal lengths or consumer speeds (fan-out with >= 2 branches always qualifies) and >= 4 elements; distinct = distinct cases",
		Gen:  c46Gen, Exec: c46Exec,
		ReplayReps: 20,
	})
}

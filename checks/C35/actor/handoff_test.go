//go:build verif

package actor

import (
	"context"
	"errors"
	"fmt"
	"sync"
	"sync/atomic"
	"testing"
	"time"

	"google.golang.org/protobuf/proto"
	"pgregory.net/rapid"

	gerrors "github.com/tochemey/goakt/v4/errors"
	"github.com/tochemey/goakt/v4/internal/address"
	"github.com/tochemey/goakt/v4/internal/cluster"
	"github.com/tochemey/goakt/v4/internal/internalpb"
	inet "github.com/tochemey/goakt/v4/internal/net"
	"github.com/tochemey/goakt/v4/internal/types"
	"github.com/tochemey/goakt/v4/internal/vfkit"
	"github.com/tochemey/goakt/v4/log"
	"github.com/tochemey/goakt/v4/remote"
	"github.com/tochemey/goakt/v4/test/data/testpb"
)

// ---------------------------------------------------------------------------
// C35: relocation handoff masking respects caller deadlines.
//
// System A (the sender) is a started, remoting-enabled actor system whose
// cluster registry is a scripted fake: the target name resolves to a departed
// endpoint D (marked relocating), is not found, or resolves to the live system
// B, as a function of the time elapsed since the call started and of the number
// of resolutions already answered. The four entry points are driven in-package:
//
//   across    pid.deliverAcrossHandoff with a stub delivery (value/error after d, honours ctx)
//   bypass    pid.deliverBypassingHandoff with the same stub
//   sendsync  pid.SendSync  (real remoting Ask to an echo actor on B)
//   sendasync pid.SendAsync (real remoting Tell)
//
// sleepWithinHandoff carries an injected prologue (check.json) that reports
// every sleep request, which makes "the asynchronous path never sleeps" and the
// deadlines handed to the sleeper exact observations instead of timing guesses.
// ---------------------------------------------------------------------------

const (
	c35Slack       = 150 * time.Millisecond
	c35Window      = 3 * time.Second        // documented relocationHandoffWindow
	c35NotFoundCap = 500 * time.Millisecond // documented relocationNotFoundMaskWindow
	c35MinBackoff  = 50 * time.Millisecond
	c35MaxBackoff  = 300 * time.Millisecond
	c35EchoName    = "c35echo"
)

type c35Case struct {
	Path       string `json:"path"`        // across | bypass | sendsync | sendasync
	TimeoutMs  int    `json:"timeout_ms"`  // caller timeout (maxWait); 0 = none (path across only)
	CtxMs      int    `json:"ctx_ms"`      // context deadline; 0 = none
	Mode       string `json:"mode"`        // live | absent | pinned | recovered | gap | pinned_gap
	TauMs      int    `json:"tau_ms"`      // target resolvable on a live endpoint from tau on; -1 = never
	Tau1Ms     int    `json:"tau1_ms"`     // pinned_gap: pinned until tau1, not found in [tau1, tau)
	AfterCalls int    `json:"after_calls"` // ... and not before this many resolutions were answered
	OtherMark  bool   `json:"other_mark"`  // live: an unrelated endpoint is inside its handoff window
	DeliverMs  int    `json:"deliver_ms"`  // stub delivery duration (across / bypass)
	DeliverErr bool   `json:"deliver_err"` // stub returns an error instead of a value
	// sendsync only: the target is pinned to the relocating endpoint for PinPct % of
	// the timeout and then resolves to a per-case survivor actor on system B that
	// replies at once ("fast"), after a full timeout ("late") or never ("never")
	Survivor string `json:"survivor"`
	PinPct   int    `json:"pin_pct"`
}

func (c c35Case) sync() bool { return c.Path == "across" || c.Path == "sendsync" }
func (c c35Case) stub() bool { return c.Path == "across" || c.Path == "bypass" }

// budget is the caller's own bound: min(timeout, context deadline); 0 = none.
func (c c35Case) budget() time.Duration {
	var b time.Duration
	if c.TimeoutMs > 0 {
		b = time.Duration(c.TimeoutMs) * time.Millisecond
	}
	if c.CtxMs > 0 {
		d := time.Duration(c.CtxMs) * time.Millisecond
		if b == 0 || d < b {
			b = d
		}
	}
	return b
}

func c35Gen(t *rapid.T) c35Case {
	var c c35Case
	c.Path = rapid.SampledFrom([]string{"across", "across", "across", "across", "across", "sendsync", "sendsync", "bypass", "sendasync", "sendasync"}).Draw(t, "path")
	if c.sync() {
		// caller timeout: boundary-biased around the cumulative back-off sums 50/150/350 ms
		c.TimeoutMs = rapid.OneOf(
			rapid.SampledFrom([]int{20, 30, 45, 49, 50, 51, 60, 100, 149, 150, 151, 160, 200, 349, 350, 351, 360, 380, 400}),
			rapid.IntRange(20, 400),
		).Draw(t, "timeout_ms")
		if c.Path == "across" && rapid.IntRange(0, 11).Draw(t, "no_timeout") == 0 {
			c.TimeoutMs = 0
		}
		if rapid.IntRange(0, 9).Draw(t, "has_ctx") < 4 {
			c.CtxMs = rapid.OneOf(rapid.SampledFrom([]int{10, 40, 55, 140, 160, 300}), rapid.IntRange(10, 300)).Draw(t, "ctx_ms")
		}
		c.Mode = rapid.SampledFrom([]string{"live", "absent", "pinned", "pinned", "pinned", "pinned", "recovered", "recovered", "gap", "gap", "gap", "pinned_gap", "pinned_gap"}).Draw(t, "mode")
		b := int(c.budget() / time.Millisecond)
		unbounded := b == 0
		if unbounded {
			b = 600
		}
		switch k := rapid.IntRange(0, 11).Draw(t, "tau_kind"); {
		case k <= 2:
			c.TauMs = -1
			if unbounded && rapid.IntRange(0, 5).Draw(t, "full_window") != 0 {
				// an unbounded caller waiting out the whole 3 s window is kept rare
				c.TauMs = rapid.IntRange(30, 1200).Draw(t, "tau_unbounded")
			}
		case k == 3:
			c.TauMs = 0
		case k <= 8:
			off := rapid.SampledFrom([]int{-120, -60, -20, -5, 0, 5, 20, 60, 100}).Draw(t, "tau_off")
			c.TauMs = b + off
		case k == 9:
			c.TauMs = rapid.SampledFrom([]int{b / 4, b / 2, 2 * b}).Draw(t, "tau_frac")
		default:
			c.TauMs = rapid.IntRange(1, 2000).Draw(t, "tau_any")
		}
		if c.TauMs < -1 {
			c.TauMs = 1
		}
		if c.TauMs > 2000 {
			c.TauMs = 2000
		}
		if c.Path == "sendsync" && rapid.IntRange(0, 2).Draw(t, "survivor_variant") == 0 {
			c.Survivor = rapid.SampledFrom([]string{"fast", "late", "never", "never"}).Draw(t, "survivor")
			c.TimeoutMs = rapid.OneOf(rapid.SampledFrom([]int{300, 360, 500, 900}), rapid.IntRange(300, 900)).Draw(t, "survivor_timeout_ms")
			c.PinPct = rapid.IntRange(30, 80).Draw(t, "pin_pct")
			c.CtxMs, c.Mode, c.AfterCalls = 0, "pinned", 0
			c.TauMs = c.TimeoutMs * c.PinPct / 100
			return c
		}
		if c.Mode == "pinned_gap" {
			hi := c.TauMs
			if hi < 0 {
				hi = 400
			}
			c.Tau1Ms = rapid.IntRange(0, hi).Draw(t, "tau1_ms")
		}
		if rapid.IntRange(0, 9).Draw(t, "has_after") < 3 {
			c.AfterCalls = rapid.IntRange(1, 5).Draw(t, "after_calls")
		}
	} else {
		// the asynchronous call is instantaneous: the registry state is fixed before it starts
		c.Mode = rapid.SampledFrom([]string{"live", "absent", "pinned", "pinned", "recovered", "gap"}).Draw(t, "mode")
		c.TauMs = rapid.SampledFrom([]int{-1, -1, 0}).Draw(t, "tau_ms")
		if rapid.IntRange(0, 3).Draw(t, "has_ctx") == 0 {
			c.CtxMs = rapid.IntRange(10, 300).Draw(t, "ctx_ms")
		}
	}
	if c.Mode == "live" {
		c.OtherMark = rapid.Bool().Draw(t, "other_mark")
	}
	if c.stub() {
		c.DeliverMs = rapid.SampledFrom([]int{0, 0, 0, 1, 5, 20, 100, 400}).Draw(t, "deliver_ms")
		c.DeliverErr = rapid.IntRange(0, 3).Draw(t, "deliver_err") == 0
	}
	return c
}

// ---- fixture ---------------------------------------------------------------

type c35Echo struct{ pings atomic.Int64 }

func (*c35Echo) PreStart(*Context) error { return nil }
func (*c35Echo) PostStop(*Context) error { return nil }
func (a *c35Echo) Receive(ctx *ReceiveContext) {
	switch ctx.Message().(type) {
	case *testpb.TestPing:
		a.pings.Add(1)
		ctx.Response(new(testpb.TestPong))
	case *testpb.TestSend:
		a.pings.Add(1)
	}
}

// c35Survivor is the actor the relocated target "re-registers" as on system B.
// It records the context its handler observes for the request.
type c35Survivor struct {
	mode  string
	delay time.Duration
	done  chan struct{}

	mu          sync.Mutex
	saw         bool
	at          time.Time
	hasDeadline bool
	deadline    time.Time
}

func (*c35Survivor) PreStart(*Context) error { return nil }
func (*c35Survivor) PostStop(*Context) error { return nil }
func (a *c35Survivor) Receive(ctx *ReceiveContext) {
	if _, ok := ctx.Message().(*testpb.TestPing); !ok {
		return
	}
	now := time.Now()
	dl, has := ctx.Context().Deadline()
	a.mu.Lock()
	first := !a.saw
	if first {
		a.saw, a.at, a.hasDeadline, a.deadline = true, now, has, dl
	}
	a.mu.Unlock()
	switch a.mode {
	case "fast":
		ctx.Response(new(testpb.TestPong))
	case "late":
		time.Sleep(a.delay)
		ctx.Response(new(testpb.TestPong))
	}
	if first {
		close(a.done)
	}
}

type c35Idle struct{}

func (*c35Idle) PreStart(*Context) error { return nil }
func (*c35Idle) PostStop(*Context) error { return nil }
func (*c35Idle) Receive(*ReceiveContext) {}

type c35Answer struct {
	at   time.Time
	kind string // live | dead | notfound
}

// c35Script is the registry behaviour of one execution.
type c35Script struct {
	name  string
	c     c35Case
	start time.Time
	live  *internalpb.Actor
	dead  *internalpb.Actor

	mu      sync.Mutex
	answers []c35Answer
	sleeps  []c35Sleep
}

type c35Sleep struct {
	at       time.Time
	duration time.Duration
	deadline time.Time
}

func (s *c35Script) resolve() (*internalpb.Actor, error) {
	s.mu.Lock()
	defer s.mu.Unlock()
	now := time.Now()
	e := now.Sub(s.start)
	c := s.c
	resolvable := c.TauMs >= 0 && e >= time.Duration(c.TauMs)*time.Millisecond && len(s.answers) >= c.AfterCalls
	kind := "notfound"
	switch c.Mode {
	case "live", "recovered":
		kind = "live"
	case "absent":
		kind = "notfound"
	case "pinned":
		kind = "dead"
		if resolvable {
			kind = "live"
		}
	case "gap":
		if resolvable {
			kind = "live"
		}
	case "pinned_gap":
		switch {
		case e < time.Duration(c.Tau1Ms)*time.Millisecond:
			kind = "dead"
		case resolvable:
			kind = "live"
		}
	}
	s.answers = append(s.answers, c35Answer{at: now, kind: kind})
	switch kind {
	case "live":
		return s.live, nil
	case "dead":
		return s.dead, nil
	}
	return nil, cluster.ErrActorNotFound
}

// c35Cluster is the simulated registry: only name resolution is scripted, every
// other method of the interface is unreachable from the code under test.
type c35Cluster struct {
	cluster.Cluster
	cur atomic.Pointer[c35Script]
}

func (f *c35Cluster) GetActor(_ context.Context, name string) (*internalpb.Actor, error) {
	s := f.cur.Load()
	if s == nil || name != s.name {
		return nil, cluster.ErrActorNotFound
	}
	return s.resolve()
}

type c35Fixture struct {
	a, b     *actorSystem
	sender   *PID
	echo     *c35Echo
	fake     *c35Cluster
	live     *internalpb.Actor
	dead     *internalpb.Actor
	liveHP   string
	deadHP   string
	deadPort int
	otherHP  string
	startErr error
}

func c35StartSystem(name string) (*actorSystem, int, error) {
	var lastErr error
	for attempt := 0; attempt < 5; attempt++ {
		port := inet.Get(1)[0]
		sys, err := NewActorSystem(name, WithLogger(log.DiscardLogger), WithRemote(remote.NewConfig("127.0.0.1", port)))
		if err != nil {
			return nil, 0, err
		}
		if err := sys.Start(context.Background()); err != nil {
			lastErr = err
			continue
		}
		return sys.(*actorSystem), port, nil
	}
	return nil, 0, lastErr
}

func c35NewFixture(t *testing.T) *c35Fixture {
	ctx := context.Background()
	fix := &c35Fixture{}
	a, _, err := c35StartSystem("c35a")
	if err != nil {
		fix.startErr = err
		return fix
	}
	b, portB, err := c35StartSystem("c35b")
	if err != nil {
		_ = a.Stop(ctx)
		fix.startErr = err
		return fix
	}
	fix.a, fix.b = a, b
	t.Cleanup(func() {
		c35SleepHook = nil
		a.clusterEnabled.Store(false)
		a.cluster = nil
		_ = a.Stop(ctx)
		_ = b.Stop(ctx)
	})
	fix.echo = &c35Echo{}
	echoPID, err := b.Spawn(ctx, c35EchoName, fix.echo, WithLongLived())
	if err != nil {
		fix.startErr = err
		return fix
	}
	fix.sender, err = a.Spawn(ctx, "c35sender", &c35Idle{}, WithLongLived()) // never passivated: thorough runs last minutes
	if err != nil {
		fix.startErr = err
		return fix
	}
	fix.live, err = echoPID.toSerialize()
	if err != nil {
		fix.startErr = err
		return fix
	}
	ports := inet.Get(2)
	deadAddr := address.NewReference(c35EchoName, "c35b", "127.0.0.1", ports[0])
	fix.dead = proto.Clone(fix.live).(*internalpb.Actor)
	fix.dead.Address = deadAddr.String()
	fix.dead.IncarnationId = ""
	fix.liveHP = address.FormatHostPort("127.0.0.1", portB)
	fix.deadHP = address.FormatHostPort("127.0.0.1", ports[0])
	fix.deadPort = ports[0]
	fix.otherHP = address.FormatHostPort("127.0.0.1", ports[1])

	// the simulated registry goes in only now: nothing above must reach it
	fix.fake = &c35Cluster{}
	a.cluster = fix.fake
	a.clusterEnabled.Store(true)
	c35SleepHook = func(_ context.Context, duration time.Duration, deadline time.Time) {
		if s := fix.fake.cur.Load(); s != nil {
			s.mu.Lock()
			s.sleeps = append(s.sleeps, c35Sleep{at: time.Now(), duration: duration, deadline: deadline})
			s.mu.Unlock()
		}
	}
	return fix
}

// ---- one execution -----------------------------------------------------------

type c35StubCall struct {
	at          time.Time
	relocating  bool
	hasDeadline bool
	deadline    time.Time
	target      string
	resp        any
	err         error
}

type c35Outcome struct {
	over    bool
	elapsed time.Duration
	bound   time.Duration
}

var c35ErrStub = errors.New("c35: stub delivery failure")

var c35SurvSeq atomic.Int64

func c35Run(x *vfkit.X, fix *c35Fixture, c c35Case, rep int) c35Outcome {
	sys := fix.a
	if !sys.Running() || !fix.sender.IsRunning() || !fix.b.Running() {
		x.Failf("harness-fixture-down", "fixture not running: a=%v sender=%v b=%v", sys.Running(), fix.sender.IsRunning(), fix.b.Running())
	}
	sys.relocatingEndpoints.Reset()

	target := c35EchoName
	script := &c35Script{name: target, c: c, live: fix.live, dead: fix.dead}
	var surv *c35Survivor
	if c.Survivor != "" {
		target = fmt.Sprintf("c35surv%d", c35SurvSeq.Add(1))
		surv = &c35Survivor{mode: c.Survivor, delay: time.Duration(c.TimeoutMs) * time.Millisecond, done: make(chan struct{})}
		spid, serr := fix.b.Spawn(context.Background(), target, surv, WithLongLived())
		if serr != nil {
			x.Failf("harness-survivor", "spawn survivor: %v", serr)
		}
		live, serr := spid.toSerialize()
		if serr != nil {
			x.Failf("harness-survivor", "serialize survivor: %v", serr)
		}
		dead := proto.Clone(live).(*internalpb.Actor)
		dead.Address = address.NewReference(target, "c35b", "127.0.0.1", fix.deadPort).String()
		dead.IncarnationId = ""
		script.name, script.live, script.dead = target, live, dead
		defer func() {
			// let a request that was delivered finish its handler, then remove the actor
			surv.mu.Lock()
			saw := surv.saw
			surv.mu.Unlock()
			if saw {
				select {
				case <-surv.done:
				case <-time.After(10 * time.Second):
				}
			}
			_ = spid.Shutdown(context.Background())
		}()
	}
	var wg sync.WaitGroup
	var recoverTimer *time.Timer
	markedAt := time.Now()
	switch c.Mode {
	case "pinned", "gap", "pinned_gap":
		sys.relocatingEndpoints.Set(fix.deadHP, types.Unit{})
	case "recovered":
		if c.TauMs != 0 {
			sys.relocatingEndpoints.Set(fix.liveHP, types.Unit{})
		}
	case "live":
		if c.OtherMark {
			sys.relocatingEndpoints.Set(fix.otherHP, types.Unit{})
		}
	}

	var stubMu sync.Mutex
	var stubCalls []c35StubCall
	token := &struct{ n int }{n: rep}
	stub := func(dctx context.Context, to *PID) (any, error) {
		call := c35StubCall{at: time.Now(), relocating: sys.isEndpointRelocating(to.getAddress()), target: address.FormatHostPort(to.getAddress().Host(), to.getAddress().Port())}
		call.deadline, call.hasDeadline = dctx.Deadline()
		timer := time.NewTimer(time.Duration(c.DeliverMs) * time.Millisecond)
		defer timer.Stop()
		select {
		case <-timer.C:
			if c.DeliverErr {
				call.err = c35ErrStub
			} else {
				call.resp = token
			}
		case <-dctx.Done():
			call.err = dctx.Err()
		}
		stubMu.Lock()
		stubCalls = append(stubCalls, call)
		stubMu.Unlock()
		return call.resp, call.err
	}

	ctx := context.Background()
	cancel := func() {}
	var ctxDeadline time.Time
	maxWait := time.Duration(c.TimeoutMs) * time.Millisecond

	// ---- the call -------------------------------------------------------------
	script.start = time.Now()
	if c.Mode == "recovered" && c.TauMs > 0 {
		wg.Add(1)
		recoverTimer = time.AfterFunc(time.Duration(c.TauMs)*time.Millisecond, func() {
			defer wg.Done()
			sys.relocatingEndpoints.Delete(fix.liveHP) // what markEndpointRecovered does
		})
	}
	fix.fake.cur.Store(script)
	if c.CtxMs > 0 {
		ctxDeadline = time.Now().Add(time.Duration(c.CtxMs) * time.Millisecond)
		ctx, cancel = context.WithDeadline(ctx, ctxDeadline)
	}
	var resp any
	var err error
	t0 := time.Now()
	switch c.Path {
	case "across":
		resp, err = fix.sender.deliverAcrossHandoff(ctx, target, maxWait, stub)
	case "bypass":
		resp, err = fix.sender.deliverBypassingHandoff(ctx, target, stub)
	case "sendsync":
		resp, err = fix.sender.SendSync(ctx, target, new(testpb.TestPing), maxWait)
	case "sendasync":
		err = fix.sender.SendAsync(ctx, target, new(testpb.TestSend))
	}
	t1 := time.Now()
	ctxExpired := ctx.Err() != nil
	cancel()
	fix.fake.cur.Store(nil)
	if recoverTimer != nil && recoverTimer.Stop() {
		wg.Done()
	}
	wg.Wait()
	sys.relocatingEndpoints.Reset()

	script.mu.Lock()
	answers := append([]c35Answer(nil), script.answers...)
	sleeps := append([]c35Sleep(nil), script.sleeps...)
	script.mu.Unlock()
	stubMu.Lock()
	calls := append([]c35StubCall(nil), stubCalls...)
	stubMu.Unlock()

	elapsed := t1.Sub(t0)
	x.Logf("rep=%d path=%s elapsed=%s resp=%v err=%v resolutions=%d sleeps=%d deliveries=%d", rep, c.Path, elapsed, resp != nil, err, len(answers), len(sleeps), len(calls))
	for i, a := range answers {
		x.Logf("  resolve[%d] +%s -> %s", i, a.at.Sub(t0), a.kind)
	}
	for i, s := range sleeps {
		x.Logf("  sleep[%d] +%s duration=%s deadline=+%s", i, s.at.Sub(t0), s.duration, s.deadline.Sub(t0))
	}
	for i, d := range calls {
		x.Logf("  deliver[%d] +%s to=%s relocating=%v ctxDeadline=%v(+%s) err=%v", i, d.at.Sub(t0), d.target, d.relocating, d.hasDeadline, d.deadline.Sub(t0), d.err)
	}

	last := "none"
	if len(answers) > 0 {
		last = answers[len(answers)-1].kind
	}
	var firstNF time.Time
	for _, a := range answers {
		if a.kind == "notfound" {
			firstNF = a.at
			break
		}
	}
	retryable := func(e error) bool {
		return isHandoffRetryable(e) && (errors.Is(e, gerrors.ErrRelocationInProgress) || errors.Is(e, gerrors.ErrActorNotFound))
	}

	// ---- observations shared by all paths -------------------------------------
	if len(answers) == 0 {
		x.Failf("name-not-resolved", "the registry was never asked for %q (err=%v)", target, err)
	}
	if len(calls) > 1 {
		x.Failf("deliver-invoked-twice", "delivery ran %d times for one send", len(calls))
	}
	for _, d := range calls {
		if d.relocating {
			x.Failf("dialed-relocating-endpoint", "delivery was attempted on %s while that endpoint was inside its handoff window", d.target)
		}
	}
	if c.stub() && len(calls) == 1 {
		d := calls[0]
		if resp != d.resp || err != d.err {
			x.Failf("deliver-result-altered", "delivery returned (%v,%v) but the send returned (%v,%v)", d.resp, d.err, resp, err)
		}
	}

	out := c35Outcome{elapsed: elapsed}

	// ---- asynchronous paths: exact, no timing ---------------------------------
	if !c.sync() {
		if len(sleeps) != 0 {
			x.Failf("async-send-slept", "%s entered sleepWithinHandoff %d time(s): the asynchronous path must never sleep", c.Path, len(sleeps))
		}
		if len(answers) != 1 {
			x.Failf("async-send-resolved-again", "%s resolved the name %d times (single resolve expected)", c.Path, len(answers))
		}
		// the single resolution pointed at an endpoint that is inside its handoff window
		onRelocating := last == "dead" || (last == "live" && c.Mode == "recovered" && c.TauMs != 0)
		switch {
		case onRelocating:
			if !errors.Is(err, gerrors.ErrRelocationInProgress) || len(calls) != 0 {
				x.Failf("async-send-relocating-endpoint-not-refused", "target on a relocating endpoint: err=%v deliveries=%d, want ErrRelocationInProgress and no delivery", err, len(calls))
			}
			if !isHandoffRetryable(err) {
				x.Failf("async-error-not-retryable", "err=%v is not classified retryable", err)
			}
		case last == "notfound":
			if !errors.Is(err, gerrors.ErrActorNotFound) || len(calls) != 0 {
				x.Failf("async-send-not-found-wrong-outcome", "unresolvable target: err=%v deliveries=%d, want ErrActorNotFound and no delivery", err, len(calls))
			}
		default: // live
			if c.stub() && len(calls) != 1 {
				x.Failf("async-live-target-not-delivered", "target on a live endpoint: deliveries=%d err=%v", len(calls), err)
			}
			if c.Path == "sendasync" && err != nil {
				x.Class("async_live_delivery_error")
			}
		}
		out.bound = time.Duration(c.DeliverMs) * time.Millisecond
		out.over = elapsed > out.bound+c35Slack
		return out
	}

	// ---- synchronous paths -------------------------------------------------------
	// (1) documented fast paths: exact
	if c.Mode == "live" {
		if len(sleeps) != 0 || len(answers) != 1 {
			x.Failf("live-target-masked", "target on a live endpoint: resolutions=%d sleeps=%d, want 1 and 0", len(answers), len(sleeps))
		}
		if c.stub() && len(calls) != 1 {
			x.Failf("live-resolution-not-delivered", "target on a live endpoint but deliveries=%d err=%v", len(calls), err)
		}
	}
	if c.Mode == "absent" {
		if len(sleeps) != 0 || len(calls) != 0 || !errors.Is(err, gerrors.ErrActorNotFound) {
			x.Failf("unknown-name-masked-without-relocation", "nothing is relocating and the name is unknown: sleeps=%d deliveries=%d err=%v, want an immediate ErrActorNotFound", len(sleeps), len(calls), err)
		}
	}

	// (2) what the sleeper was asked to do: exact
	var firstObs time.Time // first observation made after the function computed its start time
	if len(sleeps) > 0 {
		firstObs = sleeps[0].at
	} else if len(calls) > 0 {
		firstObs = calls[0].at
	}
	for i, s := range sleeps {
		if s.duration < c35MinBackoff || s.duration > c35MaxBackoff {
			x.Failf("backoff-outside-documented-bounds", "sleep %d requested %s, documented bounds are [%s, %s]", i, s.duration, c35MinBackoff, c35MaxBackoff)
		}
		if i > 0 && s.duration < sleeps[i-1].duration {
			x.Failf("backoff-not-monotone", "sleep %d requested %s after %s", i, s.duration, sleeps[i-1].duration)
		}
		if maxWait > 0 && s.deadline.Sub(firstObs) > maxWait {
			x.Failf("sleep-deadline-beyond-caller-budget", "sleep %d may last until %s after the send started masking, the caller's timeout is %s", i, s.deadline.Sub(firstObs), maxWait)
		}
		if s.deadline.Sub(firstObs) > c35Window+c35NotFoundCap {
			x.Failf("sleep-deadline-beyond-handoff-window", "sleep %d may last until %s after the send started masking; handoff window %s (+%s for a failed resolution)", i, s.deadline.Sub(firstObs), c35Window, c35NotFoundCap)
		}
	}
	// (3) the delivery is bounded by what is left of the caller's budget: exact
	if c.stub() && len(calls) == 1 && maxWait > 0 {
		d := calls[0]
		if !d.hasDeadline || d.deadline.Sub(firstObs) > maxWait {
			x.Failf("delivery-not-bounded-by-caller-budget", "delivery context deadline=%v (+%s after the send started), caller timeout %s", d.hasDeadline, d.deadline.Sub(firstObs), maxWait)
		}
	}

	// (3b) real SendSync towards a survivor: the context the survivor's handler
	// observes must carry a deadline that is not later than the caller's own
	// deadline. The deadline crosses the wire as "time remaining", so the handler
	// sees it shifted by the transit time, which is bounded by (handler entry -
	// last resolution): exact, no timing guess.
	if surv != nil {
		surv.mu.Lock()
		saw, at, has, dl := surv.saw, surv.at, surv.hasDeadline, surv.deadline
		surv.mu.Unlock()
		if saw {
			x.Class("survivor_saw_request_" + c.Survivor)
			lastAt := answers[len(answers)-1].at
			base := firstObs
			if len(sleeps) == 0 {
				base = at
			}
			allowed := base.Add(maxWait).Add(at.Sub(lastAt)).Add(5 * time.Millisecond)
			x.Logf("  survivor: request at +%s ctxDeadline=%v(+%s) allowed=+%s", at.Sub(t0), has, dl.Sub(t0), allowed.Sub(t0))
			if !has || dl.After(allowed) {
				x.Failf("sendsync-delivery-not-bounded-by-caller-budget", "the survivor's handler saw context deadline=%v at +%s after the send started; the caller's timeout is %s and %s of it were spent masking: the delivery was given a fresh timeout", has, dl.Sub(t0), maxWait, lastAt.Sub(t0))
			}
		} else {
			x.Class("survivor_not_reached")
		}
	}

	// (4) outcome
	delivered := len(calls) == 1
	if c.Path == "sendsync" {
		delivered = err == nil
		if err == nil {
			if _, ok := resp.(*testpb.TestPong); !ok {
				x.Failf("sendsync-wrong-reply", "SendSync returned %T, want the target's reply", resp)
			}
		}
	}
	// SendSync delivers through the real remoting Ask: when the last resolution
	// pointed at the live endpoint an error is the Ask's own outcome (typically
	// the little that was left of the budget ran out), not a masking give-up.
	askFailed := c.Path == "sendsync" && !delivered && last == "live" &&
		(c.Mode != "recovered" || (c.TauMs >= 0 && !errors.Is(err, gerrors.ErrRelocationInProgress)))
	if askFailed {
		x.Class("sendsync_delivery_error_after_resolution")
	}
	if !delivered && !askFailed {
		// the send gave up while the target was unresolvable
		if err == nil {
			x.Failf("no-delivery-no-error", "nothing was delivered and no error was returned")
		}
		if c.Mode != "absent" && !retryable(err) {
			x.Failf("give-up-error-not-retryable", "masking gave up with err=%v, want ErrRelocationInProgress or the masked not-found", err)
		}
		switch {
		case last == "dead", last == "live" && c.Mode == "recovered":
			if !errors.Is(err, gerrors.ErrRelocationInProgress) {
				x.Failf("give-up-on-departing-endpoint-wrong-error", "target left waiting on a departing endpoint, err=%v, want ErrRelocationInProgress", err)
			}
		case last == "notfound":
			if !errors.Is(err, gerrors.ErrActorNotFound) {
				x.Failf("give-up-on-not-found-wrong-error", "target not visible, err=%v, want the not-found error that stalled the send", err)
			}
		case last == "live":
			x.Failf("live-resolution-not-delivered", "last resolution pointed at a live endpoint but nothing was delivered (err=%v)", err)
		}
		// (5) masking must not give up before the documented window unless the
		// caller's own bound ended it (exact in the safe direction: load only
		// makes a send return later)
		if c.Mode != "absent" && !ctxExpired && t1.Sub(markedAt) < c35Window-200*time.Millisecond {
			if errors.Is(err, gerrors.ErrRelocationInProgress) {
				want := c35Window
				if maxWait > 0 && maxWait < want {
					want = maxWait
				}
				if elapsed < want {
					x.Failf("pinned-mask-gave-up-early", "gave up after %s on a departing endpoint; window=%s timeout=%s context not done", elapsed, c35Window, maxWait)
				}
			} else if !firstNF.IsZero() {
				nfEnd := firstNF.Add(c35NotFoundCap)
				if maxWait > 0 && t0.Add(maxWait).Before(nfEnd) {
					nfEnd = t0.Add(maxWait)
				}
				if t1.Before(nfEnd) {
					x.Failf("not-found-mask-gave-up-early", "gave up %s after the first failed resolution (cap %s, timeout %s, elapsed %s), context not done", t1.Sub(firstNF), c35NotFoundCap, maxWait, elapsed)
				}
			}
		}
	}

	// (6) wall time (decided by the caller of c35Run with the 3-of-3 rule)
	b := c.budget()
	if b == 0 {
		switch c.Mode {
		case "pinned", "recovered":
			b = c35Window
		case "gap":
			b = c35NotFoundCap
		case "pinned_gap":
			b = c35Window + c35NotFoundCap
		}
		b += time.Duration(c.DeliverMs) * time.Millisecond
	} else if (c.Mode == "gap" || c.Mode == "absent") && b > c35NotFoundCap+time.Duration(c.DeliverMs)*time.Millisecond {
		// documented: a failed resolution is masked for at most relocationNotFoundMaskWindow
		b = c35NotFoundCap + time.Duration(c.DeliverMs)*time.Millisecond
	}
	out.bound = b
	out.over = elapsed > b+c35Slack
	return out
}

func c35Exec(fix *c35Fixture) func(x *vfkit.X, c c35Case) {
	return func(x *vfkit.X, c c35Case) {
		x.Class("path_" + c.Path)
		x.Class("mode_" + c.Mode)
		b := c.budget()
		if c.sync() {
			switch {
			case b == 0:
				x.Class("budget_none")
			case b < c35MinBackoff:
				x.Class("budget_below_min_backoff")
			default:
				x.Class("budget_regular")
			}
			if c.CtxMs > 0 && (c.TimeoutMs == 0 || c.CtxMs < c.TimeoutMs) {
				x.Class("ctx_is_the_tighter_bound")
			}
			masked := c.Mode != "live" && c.Mode != "absent"
			tau := time.Duration(c.TauMs) * time.Millisecond
			win := b
			if win == 0 {
				win = c35Window
			}
			switch {
			case !masked:
			case c.TauMs < 0:
				x.Class("tau_never")
			case c.TauMs == 0:
				x.Class("tau_zero")
			case tau < win:
				x.Class("tau_inside_budget")
				x.NonTrivial()
			case tau <= win+100*time.Millisecond:
				x.Class("tau_just_after_budget")
				x.NonTrivial()
			default:
				x.Class("tau_far_after_budget")
			}
			if masked && b > 0 && b < c35MinBackoff {
				x.NonTrivial()
			}
			if c.AfterCalls > 0 {
				x.Class("after_calls")
			}
		} else {
			if c.Mode == "pinned" || (c.Mode == "recovered" && c.TauMs != 0) {
				x.Class("async_on_relocating_endpoint")
				x.NonTrivial()
			}
		}

		overs := 0
		var last c35Outcome
		for rep := 0; rep < 3; rep++ {
			last = c35Run(x, fix, c, rep)
			if !last.over {
				break
			}
			overs++
		}
		switch {
		case overs == 3 && c.sync():
			x.Failf("sync-send-overshoots-caller-deadline", "%s returned after %s; bound %s + slack %s; reproduced in 3 of 3 executions", c.Path, last.elapsed, last.bound, c35Slack)
		case overs == 3:
			x.Failf("async-send-blocked", "%s took %s (delivery itself takes %s); reproduced in 3 of 3 executions", c.Path, last.elapsed, last.bound)
		case overs > 0:
			x.Class("overshoot_not_reproduced")
		}
	}
}

func TestVF_C35_handoff(t *testing.T) {
	fix := c35NewFixture(t)
	if fix.startErr != nil {
		t.Fatalf("c35: fixture: %v", fix.startErr)
	}
	vfkit.Run(t, vfkit.Spec[c35Case]{
		ID:   "C35",
		Unit: "handoff",
		Rule: "a case is one name-based send (deliverAcrossHandoff / SendSync / deliverBypassingHandoff / SendAsync) against a scripted registry: caller timeout 0|20..400 ms, context deadline none|10..300 ms, target live / unknown / pinned to a relocating endpoint / endpoint recovering / not found during a relocation / pinned then not found, becoming resolvable at tau (never, 0, around the caller's budget, 1..2000 ms) and optionally only after k resolutions; stub delivery of 0..400 ms returning a value or an error. Non-trivial: a synchronous send whose target is masked and tau falls inside the caller's budget or up to 100 ms after it, or whose budget is below the 50 ms minimum back-off; an asynchronous send whose target sits on a relocating endpoint. Distinct = distinct case value. A wall-clock overshoot (bound + 150 ms) is reported only when the same case overshoots in 3 of 3 executions; every other verdict is exact (sleep requests are observed through an injected prologue in sleepWithinHandoff).",
		Gen:  c35Gen,
		Exec: c35Exec(fix),
		// real timers: replay a stored case several times
		ReplayReps: 5,
	})
}

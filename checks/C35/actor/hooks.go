//go:build verif

package actor

import (
	"context"
	"time"
)

// c35SleepHook is called by the prologue the rewriter injects at the top of
// sleepWithinHandoff (check.json -> rewrite.prologues). It receives the
// function's own parameters before any clamping. It is installed once, before
// the first case, and never changed afterwards.
var c35SleepHook func(ctx context.Context, duration time.Duration, deadline time.Time)

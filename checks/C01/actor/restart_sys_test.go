//go:build verif

package actor

import (
	"context"
	"fmt"
	"sync"
	"sync/atomic"
	"testing"
	"time"

	"pgregory.net/rapid"

	gerrors "github.com/tochemey/goakt/v4/errors"
	"github.com/tochemey/goakt/v4/internal/vfkit"
	"github.com/tochemey/goakt/v4/log"
	"github.com/tochemey/goakt/v4/supervisor"
)

// C01 (system level): a supervised child fails on one message and, still inside the same
// dispatcher turn, keeps handling the messages queued behind it; the supervisor's directive
// (Restart or Resume) is applied concurrently by the parent. No invocation of the child's
// Receive (including PostStart of the new incarnation) may overlap another one.
//
// The case holds the turn open by construction (a gate message parks the handler until the
// whole script is queued; the messages after the failing one have think times), so the
// restart always races an in-flight turn — no timing luck is needed to reach the window.
// Explicit Restart() of a *running* actor is not generated here: that path has known
// findings of its own (C06: restart-two-workers-on-one-actor).

type c01rMsg struct {
	Kind  int `json:"kind"`  // 0 normal, 1 boom (panic)
	Think int `json:"think"` // microseconds spent inside the handler
}

type c01rCase struct {
	Directive int       `json:"directive"` // 0 restart, 1 resume
	Script    []c01rMsg `json:"script"`    // exactly one boom, followed by >=1 message
	Budget    int       `json:"budget"`    // dispatcher throughput (messages per turn)
}

func c01rGen(t *rapid.T) c01rCase {
	c := c01rCase{
		Directive: rapid.SampledFrom([]int{0, 0, 0, 1}).Draw(t, "directive"),
		Budget:    rapid.SampledFrom([]int{32, 32, 4}).Draw(t, "budget"),
	}
	before := rapid.IntRange(0, 2).Draw(t, "before")
	after := rapid.IntRange(1, 3).Draw(t, "after")
	think := func() int { return rapid.SampledFrom([]int{0, 200, 2000, 10000, 30000}).Draw(t, "think") }
	for i := 0; i < before; i++ {
		c.Script = append(c.Script, c01rMsg{Think: think()})
	}
	c.Script = append(c.Script, c01rMsg{Kind: 1})
	for i := 0; i < after; i++ {
		c.Script = append(c.Script, c01rMsg{Think: think()})
	}
	return c
}

type c01rGate struct{}
type c01rUser struct {
	Seq   int
	Boom  bool
	Think time.Duration
}

type c01rChild struct {
	inHandler  atomic.Int32
	overlap    atomic.Int32
	postStarts atomic.Int32
	handled    atomic.Int32
	mu         sync.Mutex
	log        []string
	gateIn     chan struct{}
	gateOut    chan struct{}
}

func (a *c01rChild) note(format string, args ...any) {
	a.mu.Lock()
	if len(a.log) < 200 {
		a.log = append(a.log, fmt.Sprintf(format, args...))
	}
	a.mu.Unlock()
}

func (a *c01rChild) PreStart(*Context) error { return nil }
func (a *c01rChild) PostStop(*Context) error { return nil }
func (a *c01rChild) Receive(ctx *ReceiveContext) {
	n := a.inHandler.Add(1)
	if n > 1 {
		a.overlap.Add(1)
		a.note("OVERLAP: %T entered while %d other invocation(s) in progress", ctx.Message(), n-1)
	}
	defer a.inHandler.Add(-1)
	switch m := ctx.Message().(type) {
	case *PostStart:
		a.postStarts.Add(1)
		a.note("PostStart #%d", a.postStarts.Load())
	case *c01rGate:
		a.gateIn <- struct{}{}
		<-a.gateOut
	case *c01rUser:
		a.note("enter user %d boom=%v", m.Seq, m.Boom)
		if m.Boom {
			panic(gerrors.NewPanicError(fmt.Errorf("boom %d", m.Seq)))
		}
		if m.Think > 0 {
			time.Sleep(m.Think)
		}
		a.handled.Add(1)
		a.note("exit user %d", m.Seq)
	}
}

type c01rParent struct{}

func (c01rParent) PreStart(*Context) error { return nil }
func (c01rParent) PostStop(*Context) error { return nil }
func (c01rParent) Receive(*ReceiveContext) {}

var (
	c01rMu      sync.Mutex
	c01rSystems = map[int]ActorSystem{}
	c01rSeq     atomic.Int64
)

func c01rSystem(budget int) (ActorSystem, error) {
	c01rMu.Lock()
	defer c01rMu.Unlock()
	if s, ok := c01rSystems[budget]; ok && s.Running() {
		return s, nil
	}
	s, err := NewActorSystem(fmt.Sprintf("c01r%d", budget), WithLogger(log.DiscardLogger))
	if err != nil {
		return nil, err
	}
	if err := s.Start(context.Background()); err != nil {
		return nil, err
	}
	// the throughput budget is a dispatcher field: set it before any user actor exists
	if as, ok := s.(*actorSystem); ok && as.dispatcher != nil {
		as.dispatcher.throughput = budget
	}
	c01rSystems[budget] = s
	return s, nil
}

func c01rExec(x *vfkit.X, c c01rCase) {
	ctx := context.Background()
	sys, err := c01rSystem(c.Budget)
	if err != nil {
		x.Class("inconclusive_system_start_failed")
		return
	}
	id := c01rSeq.Add(1)
	parent, err := sys.Spawn(ctx, fmt.Sprintf("p%d", id), c01rParent{})
	if err != nil {
		x.Class("inconclusive_spawn_failed")
		return
	}
	defer func() { _ = parent.Shutdown(ctx) }()
	child := &c01rChild{gateIn: make(chan struct{}, 1), gateOut: make(chan struct{})}
	directive := supervisor.RestartDirective
	if c.Directive == 1 {
		directive = supervisor.ResumeDirective
	}
	sup := supervisor.NewSupervisor(supervisor.WithDirective(&gerrors.PanicError{}, directive))
	cid, err := parent.SpawnChild(ctx, fmt.Sprintf("c%d", id), child, WithSupervisor(sup))
	if err != nil {
		x.Class("inconclusive_spawn_failed")
		return
	}
	wait := func(cond func() bool, d time.Duration) bool {
		deadline := time.Now().Add(d)
		for time.Now().Before(deadline) {
			if cond() {
				return true
			}
			time.Sleep(200 * time.Microsecond)
		}
		return cond()
	}
	if !wait(func() bool { return child.postStarts.Load() == 1 }, 15*time.Second) {
		x.Class("inconclusive_child_never_started")
		return
	}
	if Tell(ctx, cid, new(c01rGate)) != nil {
		x.Class("inconclusive_tell_failed")
		return
	}
	select {
	case <-child.gateIn:
	case <-time.After(15 * time.Second):
		x.Class("inconclusive_gate_never_handled")
		close(child.gateOut)
		return
	}
	after := 0
	seenBoom := false
	for i, m := range c.Script {
		if m.Kind == 1 {
			seenBoom = true
		} else if seenBoom {
			after++
		}
		_ = Tell(ctx, cid, &c01rUser{Seq: i, Boom: m.Kind == 1, Think: time.Duration(m.Think) * time.Microsecond})
	}
	close(child.gateOut)

	// settle: under Restart the new incarnation's PostStart arrives; under Resume every
	// non-failing message is handled. Both are positive signals; the cap only classifies.
	settled := false
	if c.Directive == 0 {
		settled = wait(func() bool { return child.postStarts.Load() >= 2 && child.inHandler.Load() == 0 }, 20*time.Second)
	} else {
		settled = wait(func() bool { return int(child.handled.Load()) == len(c.Script)-1 && child.inHandler.Load() == 0 }, 20*time.Second)
	}
	// leave a little room for a late second worker to show up before judging
	time.Sleep(2 * time.Millisecond)

	longTail := false
	seenBoom = false
	for _, m := range c.Script {
		if m.Kind == 1 {
			seenBoom = true
		} else if seenBoom && m.Think >= 2000 {
			longTail = true
		}
	}
	if c.Directive == 0 {
		x.Class("restart_directive")
	} else {
		x.Class("resume_directive")
	}
	if longTail {
		x.Class("handler_after_failure_outlasts_directive")
		x.NonTrivial()
	}
	if !settled {
		x.Class("inconclusive_not_settled")
	}
	if child.overlap.Load() > 0 {
		child.mu.Lock()
		hist := append([]string(nil), child.log...)
		child.mu.Unlock()
		for _, l := range hist {
			x.Logf("%s", l)
		}
		fp := "handler-overlap:restart-of-failed-child-during-its-turn"
		if c.Directive == 1 {
			fp = "handler-overlap:resume-of-failed-child-during-its-turn"
		}
		// Shape of a separate, known defect of the unchanged tree: the backlog (gate + script)
		// exceeds the dispatcher's per-turn budget, so the turn ends with the actor in the
		// Scheduled state while messages are still queued; restartSubtree only waits while the
		// state is Processing, proceeds, and its final schedState.reset() lets a second worker in.
		if c.Directive == 0 && 1+len(c.Script) >= c.Budget {
			fp += ":turn-yielded-on-budget"
		}
		x.Failf(fp, "Receive of one actor ran concurrently with itself %d time(s) (directive=%d, script=%v); history: %v", child.overlap.Load(), c.Directive, c.Script, hist)
	}
}

func TestVF_C01_restart(t *testing.T) {
	t.Cleanup(func() {
		c01rMu.Lock()
		defer c01rMu.Unlock()
		for _, s := range c01rSystems {
			done := make(chan struct{})
			go func() { _ = s.Stop(context.Background()); close(done) }()
			select {
			case <-done:
			case <-time.After(20 * time.Second):
			}
		}
	})
	vfkit.Run(t, vfkit.Spec[c01rCase]{
		ID: "C01", Unit: "restart",
		Rule: "cases = a supervised child (Restart or Resume directive for PanicError) on a real ActorSystem (throughput 32 or 4) whose handler is parked on a gate while a script of 0-2 messages, one failing message and 1-3 further messages with think times 0-30 ms is queued, so the failure and the following handlers share one turn while the parent applies the directive; oracle = occupancy counter over every Receive invocation incl. PostStart; non-trivial = a handler after the failing message runs >= 2 ms (outlasts the directive); distinct = distinct scripts",
		Gen:  c01rGen, Exec: c01rExec, ReplayReps: 20,
	})
}

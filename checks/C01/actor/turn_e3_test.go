//go:build verif

package actor

import (
	"testing"

	"github.com/tochemey/goakt/v4/internal/vfkit"
	"github.com/tochemey/goakt/v4/internal/vfsched"
)

// C01 (component level, engine E3): no two invocations of an actor's handler are ever in
// progress at the same time, whatever the mailbox kind, the number of producers, workers
// and the throughput budget, under every explored interleaving of the real
// doReceive / TrySchedule / readyQueue / worker.run / runTurn / finishOrReclaim code.
func c01Exec(x *vfkit.X, c vfTurnCase) {
	res := vfTurnExec(x, c)
	for _, th := range res.Sched.Threads() {
		if th.Panic != nil {
			x.Failf("turn:panic", "thread %s panicked: %v\n%s", th.Name, th.Panic, th.Stack)
		}
	}
	perActor := map[int]int{}
	yielding := false
	for _, m := range res.Sent {
		perActor[m.Actor]++
		if m.Yields > 0 {
			yielding = true
		}
	}
	busy := false
	for _, n := range perActor {
		if n >= 2 {
			busy = true
		}
	}
	if res.Sched.Preempts > 0 {
		x.Class("preempted")
	}
	if yielding {
		x.Class("handler_with_scheduling_points")
	}
	x.Class("kind_" + c.Kind)
	if busy && res.Sched.Preempts > 0 && len(c.Producers) >= 2 {
		x.NonTrivial()
	}
	if res.Overlap != "" {
		x.Failf("turn:handler-overlap", "%s (mailbox %s, %d workers, throughput %d)", res.Overlap, c.Kind, c.Workers, c.Throughput)
	}
	if res.Outcome == vfsched.StepBudget {
		x.Class("inconclusive_step_budget")
	}
}

func TestVF_C01_turn(t *testing.T) {
	vfkit.Run(t, vfkit.Spec[vfTurnCase]{
		ID: "C01", Unit: "turn",
		Rule: "cases = 1-2 bare PIDs (one of 9 mailbox kinds) on a real dispatcher with 2-3 real worker loops and throughput in {1,2,32}; 1-3 producer threads x 1-4 doReceive calls (user and control messages; handlers contain 0-2 scheduling points), under a drawn pre-emption-bounded interleaving of every atomic/lock operation; non-trivial = >=2 producers, some actor receives >=2 messages and >=1 forced pre-emption; distinct = distinct (program, schedule)",
		Gen:  vfTurnGen(vfTurnAllKinds), Exec: c01Exec,
	})
}

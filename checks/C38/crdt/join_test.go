//go:build verif

package crdt

// C38 — CRDT merge is a join (commutative, associative, idempotent on the observable
// value), never shrinks what either side knows, and Merge/Clone/Delta never modify
// their receiver or argument.
//
// States are reachable ones only: 2-3 replicas start from New*(), apply generated
// operations under their own node id and merge each other's current state; every state
// that ever existed goes into a pool and the operands a, b, c are drawn from the pool
// (so stale versions, causally ordered and concurrent states all occur).
//
// Oracle: the laws themselves; plus an exact specification of the merge result written
// from the documentation (per-node maximum; logical or; greatest (timestamp,nodeID);
// union of observed adds minus observed removes with add-wins; union of writes minus
// superseded ones); plus byte-for-byte snapshots of the complete internal state of
// every value ever created, compared after all merges/clones/deltas.

import (
	"fmt"
	"sort"
	"strings"
	"testing"
	"time"

	"pgregory.net/rapid"

	"github.com/tochemey/goakt/v4/internal/vfkit"
)

const (
	c38TGCounter = iota
	c38TPNCounter
	c38TFlag
	c38TLWW
	c38TMV
	c38TORSet
	c38TORMapGC
	c38TORMapSet
	c38NTypes
)

var c38TypeNames = [...]string{"gcounter", "pncounter", "flag", "lww", "mv", "orset", "ormap_gc", "ormap_set"}
var c38Nodes = []string{"n1", "n10", "n2"}
var c38Elems = []any{"x", "y", int(7)}
var c38Amounts = []uint64{1, 2, 0, 5, 1 << 40}

const c38FPORMapOld = "ormap-stale-value-of-removed-key-merged"

// ---- case ----------------------------------------------------------------------------

type c38Op struct {
	Kind  int  `json:"k"` // 0 local update, 1 merge the current state of replica From, 2 compact
	R     int  `json:"r"`
	From  int  `json:"from,omitempty"`
	Op    int  `json:"op,omitempty"`
	Elem  int  `json:"e,omitempty"`
	Val   int  `json:"v,omitempty"`
	TSD   int  `json:"tsd,omitempty"`
	Reset bool `json:"reset,omitempty"` // ResetDelta after the update (the replicator does; a library user may not)
}

type c38Case struct {
	Type int     `json:"type"`
	N    int     `json:"n"`
	Ops  []c38Op `json:"ops"`
	A    int     `json:"a"` // operands: <6 -> current state of replica A%N (B: of another replica when A<6 too), else the pool entry A-6 steps before the newest (mod pool size)
	B    int     `json:"b"`
	C    int     `json:"c"`
}

func c38GenOp(t *rapid.T, n int) c38Op {
	var o c38Op
	k := rapid.IntRange(0, 19).Draw(t, "kind")
	switch {
	case k < 12:
		o.Kind = 0
	case k < 18:
		o.Kind = 1
	default:
		o.Kind = 2
	}
	o.R = rapid.IntRange(0, n-1).Draw(t, "r")
	switch o.Kind {
	case 0:
		o.Op = rapid.IntRange(0, 4).Draw(t, "op")
		o.Elem = rapid.IntRange(0, 2).Draw(t, "elem")
		o.Val = rapid.IntRange(0, 4).Draw(t, "val")
		o.TSD = rapid.IntRange(0, 3).Draw(t, "tsd")
		o.Reset = rapid.Bool().Draw(t, "reset")
	case 1:
		o.From = (o.R + 1 + rapid.IntRange(0, n-2).Draw(t, "from")) % n
	}
	return o
}

func c38Gen(t *rapid.T) c38Case {
	var c c38Case
	c.Type = []int{
		c38TORSet, c38TORSet, c38TORSet, c38TORMapGC, c38TORMapGC, c38TORMapSet, c38TORMapSet,
		c38TMV, c38TMV, c38TLWW, c38TLWW, c38TGCounter, c38TPNCounter, c38TPNCounter, c38TFlag,
	}[rapid.IntRange(0, 14).Draw(t, "type")]
	c.N = rapid.IntRange(2, 3).Draw(t, "n")
	n := rapid.IntRange(1, 10).Draw(t, "nops")
	for i := 0; i < n; i++ {
		c.Ops = append(c.Ops, c38GenOp(t, c.N))
	}
	opnd := rapid.OneOf(rapid.IntRange(0, 5), rapid.IntRange(0, 5), rapid.IntRange(6, 21))
	c.A = opnd.Draw(t, "a")
	c.B = opnd.Draw(t, "b")
	c.C = opnd.Draw(t, "c")
	return c
}

// ---- reference model for the dot-based types -----------------------------------------

type c38Dot struct{ R, S int }

type c38Model struct {
	adds map[c38Dot]int       // dot -> element / key / register value
	tomb map[c38Dot]struct{}  // removed / superseded
	kv   map[c38Dot][3]uint64 // ormap_gc: counter stored by the put that created the dot
}

func c38NewModel() *c38Model {
	return &c38Model{adds: map[c38Dot]int{}, tomb: map[c38Dot]struct{}{}, kv: map[c38Dot][3]uint64{}}
}

func (m *c38Model) union(o *c38Model) *c38Model {
	out := c38NewModel()
	for _, s := range []*c38Model{m, o} {
		for d, e := range s.adds {
			out.adds[d] = e
		}
		for d := range s.tomb {
			out.tomb[d] = struct{}{}
		}
		for d, v := range s.kv {
			out.kv[d] = v
		}
	}
	return out
}

func (m *c38Model) live(d c38Dot) bool { _, dead := m.tomb[d]; return !dead }

func (m *c38Model) counterOf(key int) [3]uint64 {
	var v [3]uint64
	for d, e := range m.adds {
		if e != key || !m.live(d) {
			continue
		}
		s := m.kv[d]
		for i := range s {
			if s[i] > v[i] {
				v[i] = s[i]
			}
		}
	}
	return v
}

// ---- observation ---------------------------------------------------------------------

func c38Any(v any) string { return fmt.Sprintf("%T:%v", v, v) }

func c38Slots(state map[string]uint64) string {
	ks := make([]string, 0, len(state))
	for k, v := range state {
		if v != 0 {
			ks = append(ks, k)
		}
	}
	sort.Strings(ks)
	var b strings.Builder
	for _, k := range ks {
		fmt.Fprintf(&b, "%s=%d,", k, state[k])
	}
	return b.String()
}

func c38SlotsArr(v [3]uint64) string {
	m := map[string]uint64{}
	for i, x := range v {
		m[c38Nodes[i]] = x
	}
	return c38Slots(m)
}

// c38Obs renders the observable value; for ORMap the nested values are returned per key.
func c38Obs(v ReplicatedData) (main string, perKey map[string]string, bad string) {
	switch t := v.(type) {
	case *GCounter:
		st := t.State()
		var sum uint64
		for _, x := range st {
			sum += x
		}
		if sum != t.Value() {
			bad = fmt.Sprintf("Value()=%d but the slots sum to %d", t.Value(), sum)
		}
		return fmt.Sprintf("gc{%s}=%d", c38Slots(st), t.Value()), nil, bad
	case *PNCounter:
		i, d := t.State()
		return fmt.Sprintf("pn{+%s -%s}=%d", c38Slots(i), c38Slots(d), t.Value()), nil, ""
	case *Flag:
		return fmt.Sprintf("flag{%v}", t.Enabled()), nil, ""
	case *LWWRegister:
		return fmt.Sprintf("lww{%s@%d/%s}", c38Any(t.Value()), t.Timestamp(), t.NodeID()), nil, ""
	case *MVRegister:
		vals := t.Values()
		strs := make([]string, len(vals))
		for i, e := range vals {
			strs[i] = c38Any(e)
		}
		sort.Strings(strs)
		return "mv{" + strings.Join(strs, ",") + "}", nil, ""
	case *ORSet:
		els := t.Elements()
		strs := make([]string, len(els))
		for i, e := range els {
			strs[i] = c38Any(e)
			if !t.Contains(e) {
				bad = fmt.Sprintf("Elements() lists %v but Contains says no", e)
			}
		}
		sort.Strings(strs)
		if t.Len() != len(els) {
			bad = fmt.Sprintf("Len()=%d but Elements() has %d", t.Len(), len(els))
		}
		return "set{" + strings.Join(strs, ",") + "}", nil, bad
	case *ORMap:
		keys := t.Keys()
		strs := make([]string, len(keys))
		perKey = map[string]string{}
		for i, k := range keys {
			strs[i] = c38Any(k)
			val, ok := t.Get(k)
			if !ok || val == nil {
				bad = fmt.Sprintf("key %v listed by Keys() but Get reports absent", k)
				perKey[strs[i]] = "<absent>"
				continue
			}
			vm, _, vb := c38Obs(val)
			if vb != "" {
				bad = vb
			}
			perKey[strs[i]] = vm
		}
		sort.Strings(strs)
		if t.Len() != len(keys) || len(t.Entries()) != len(keys) {
			bad = fmt.Sprintf("Len()=%d, Entries() has %d, Keys() has %d", t.Len(), len(t.Entries()), len(keys))
		}
		return "map{" + strings.Join(strs, ",") + "}", perKey, bad
	}
	return fmt.Sprintf("?%T", v), nil, ""
}

// ---- complete internal state (for the "inputs are never modified" clause) ------------

func c38DotsStr(ds []dot) string {
	var b strings.Builder
	for _, d := range ds {
		fmt.Fprintf(&b, "%s:%d ", d.nodeID, d.counter)
	}
	return b.String()
}

func c38DotMapStr(m map[any][]dot) string {
	ks := make([]string, 0, len(m))
	by := map[string][]dot{}
	for k, v := range m {
		s := c38Any(k)
		ks = append(ks, s)
		by[s] = v
	}
	sort.Strings(ks)
	var b strings.Builder
	for _, k := range ks {
		fmt.Fprintf(&b, "%s->[%s];", k, c38DotsStr(by[k]))
	}
	return b.String()
}

func c38U64Map(m map[string]uint64) string {
	ks := make([]string, 0, len(m))
	for k := range m {
		ks = append(ks, k)
	}
	sort.Strings(ks)
	var b strings.Builder
	for _, k := range ks {
		fmt.Fprintf(&b, "%s=%d,", k, m[k])
	}
	return b.String()
}

func c38Deep(v ReplicatedData) string {
	switch t := v.(type) {
	case *GCounter:
		return "GC state{" + c38U64Map(t.state) + "} delta{" + c38U64Map(t.delta) + "}"
	case *PNCounter:
		return "PN +(" + c38Deep(t.increments) + ") -(" + c38Deep(t.decrements) + ")"
	case *Flag:
		return fmt.Sprintf("Flag %v dirty=%v", t.enabled, t.dirty)
	case *LWWRegister:
		return fmt.Sprintf("LWW %s@%d/%s dirty=%v", c38Any(t.value), t.timestamp, t.nodeID, t.dirty)
	case *MVRegister:
		var b strings.Builder
		for _, e := range t.entries {
			fmt.Fprintf(&b, "%s@%s:%d ", c38Any(e.value), e.dot.nodeID, e.dot.counter)
		}
		return fmt.Sprintf("MV [%s] clock{%s} dirty=%v", b.String(), c38U64Map(t.clock), t.dirty)
	case *ORSet:
		if t == nil {
			return "ORSet<nil>"
		}
		s := "ORSet entries{" + c38DotMapStr(t.entries) + "} clock{" + c38U64Map(t.clock) + "}"
		if t.delta != nil {
			s += " added{" + c38DotMapStr(t.delta.added) + "} removed{" + c38DotMapStr(t.delta.removed) + "}"
		} else {
			s += " delta<nil>"
		}
		return s
	case *ORMap:
		ks := make([]string, 0, len(t.values))
		by := map[string]ReplicatedData{}
		for k, val := range t.values {
			s := c38Any(k)
			ks = append(ks, s)
			by[s] = val
		}
		sort.Strings(ks)
		var b strings.Builder
		for _, k := range ks {
			fmt.Fprintf(&b, "%s=>(%s);", k, c38Deep(by[k]))
		}
		return fmt.Sprintf("ORMap keys(%s) values{%s} dirty=%v", c38Deep(t.keys), b.String(), t.dirty)
	case nil:
		return "<nil>"
	}
	return fmt.Sprintf("?%T", v)
}

func c38Initial(typ int) ReplicatedData {
	switch typ {
	case c38TGCounter:
		return NewGCounter()
	case c38TPNCounter:
		return NewPNCounter()
	case c38TFlag:
		return NewFlag()
	case c38TLWW:
		return NewLWWRegister()
	case c38TMV:
		return NewMVRegister()
	case c38TORSet:
		return NewORSet()
	default:
		return NewORMap()
	}
}

// ---- building reachable states -------------------------------------------------------

type c38State struct {
	v     ReplicatedData
	m     *c38Model
	seen  uint64 // bit i: local update i is included
	deep  string
	label string
}

type c38World struct {
	x        *vfkit.X
	typ, n   int
	cur      []int // index of the current pool entry of each replica
	pool     []*c38State
	seq      []int
	ownTS    []int64
	nupd     int
	removedK map[int]bool
}

func c38NewWorld(x *vfkit.X, typ, n int) *c38World {
	w := &c38World{x: x, typ: typ, n: n, cur: make([]int, n), seq: make([]int, n), ownTS: make([]int64, n), removedK: map[int]bool{}}
	for r := 0; r < n; r++ {
		w.cur[r] = w.push(c38Initial(typ), c38NewModel(), 0, fmt.Sprintf("replica %d, initial", r))
	}
	return w
}

func (w *c38World) push(v ReplicatedData, m *c38Model, seen uint64, label string) int {
	w.pool = append(w.pool, &c38State{v: v, m: m, seen: seen, deep: c38Deep(v), label: label})
	return len(w.pool) - 1
}

func (w *c38World) apply(i int, o c38Op) {
	r := o.R
	st := w.pool[w.cur[r]]
	node := c38Nodes[r]
	switch o.Kind {
	case 1:
		other := w.pool[w.cur[o.From]]
		v := st.v.Merge(other.v)
		w.cur[r] = w.push(v, st.m.union(other.m), st.seen|other.seen, fmt.Sprintf("replica %d after op %d (merge of replica %d)", r, i, o.From))
		return
	case 2:
		cd, ok := st.v.(Compactable)
		if !ok {
			return
		}
		w.x.Class("compacted")
		w.cur[r] = w.push(cd.CompactData(), st.m, st.seen, fmt.Sprintf("replica %d after op %d (compaction)", r, i))
		return
	}
	m := st.m.union(c38NewModel())
	newDot := func(e int) c38Dot {
		d := c38Dot{R: r, S: w.seq[r]}
		w.seq[r]++
		m.adds[d] = e
		return d
	}
	kill := func(e int, all bool) {
		for d, el := range m.adds {
			if all || el == e {
				m.tomb[d] = struct{}{}
			}
		}
	}
	var v ReplicatedData
	switch w.typ {
	case c38TGCounter:
		v = st.v.(*GCounter).Increment(node, c38Amounts[o.Val%len(c38Amounts)])
	case c38TPNCounter:
		if o.Op%2 == 0 {
			v = st.v.(*PNCounter).Increment(node, c38Amounts[o.Val%len(c38Amounts)])
		} else {
			v = st.v.(*PNCounter).Decrement(node, c38Amounts[o.Val%len(c38Amounts)])
		}
	case c38TFlag:
		v = st.v.(*Flag).Enable()
	case c38TLWW:
		// a node's own timestamps are strictly increasing (so a (timestamp,node) pair names one write);
		// they are unrelated to the timestamps of other nodes
		w.ownTS[r] += int64(1 + o.TSD)
		v = st.v.(*LWWRegister).Set(o.Val, time.Unix(0, w.ownTS[r]), node)
	case c38TMV:
		v = st.v.(*MVRegister).Set(node, o.Val)
		kill(0, true)
		newDot(o.Val)
	case c38TORSet:
		if o.Op < 3 {
			v = st.v.(*ORSet).Add(node, c38Elems[o.Elem])
			newDot(o.Elem)
		} else {
			v = st.v.(*ORSet).Remove(c38Elems[o.Elem])
			kill(o.Elem, false)
		}
	default:
		mp := st.v.(*ORMap)
		key := c38Elems[o.Elem]
		if o.Op < 3 {
			if w.typ == c38TORMapGC {
				amt := c38Amounts[o.Val%len(c38Amounts)]
				g := NewGCounter()
				if cv, ok := mp.Get(key); ok {
					g = cv.(*GCounter)
				}
				v = mp.Set(node, key, g.Increment(node, amt))
				cnt := m.counterOf(o.Elem)
				cnt[r] += amt
				m.kv[newDot(o.Elem)] = cnt
			} else {
				set := NewORSet()
				if cv, ok := mp.Get(key); ok {
					set = cv.(*ORSet)
				}
				el := c38Elems[o.Val%len(c38Elems)]
				if o.Op == 2 {
					set = set.Remove(el)
				} else {
					set = set.Add(node, el)
				}
				v = mp.Set(node, key, set)
				newDot(o.Elem)
			}
		} else {
			if _, ok := mp.Get(key); ok {
				w.removedK[o.Elem] = true
			}
			v = mp.Remove(key)
			kill(o.Elem, false)
		}
	}
	if v == st.v {
		// the operation was a no-op that returned its receiver: no new state
		return
	}
	if o.Reset {
		v.ResetDelta()
	}
	seen := st.seen | 1<<uint(w.nupd%64)
	w.nupd++
	w.cur[r] = w.push(v, m, seen, fmt.Sprintf("replica %d after op %d (update)", r, i))
}

// ---- the laws ------------------------------------------------------------------------

func (w *c38World) keyRemoved(keyStr string) bool {
	for e := range w.removedK {
		if c38Any(c38Elems[e]) == keyStr {
			return true
		}
	}
	return false
}

func (w *c38World) fp(law string) string {
	if (w.typ == c38TORMapGC || w.typ == c38TORMapSet) && len(w.removedK) > 0 {
		return c38FPORMapOld
	}
	return law + "-" + c38TypeNames[w.typ]
}

// sameObs compares two values by observable value; with the ORMap finding listed, nested values of keys
// that were removed somewhere in the case are not compared.
func (w *c38World) sameObs(a, b ReplicatedData) (bool, string, string) {
	am, ak, abad := c38Obs(a)
	bm, bk, bbad := c38Obs(b)
	if abad != "" || bbad != "" {
		w.x.Failf("accessors-disagree-"+c38TypeNames[w.typ], "%s%s", abad, bbad)
	}
	as, bs := am, bm
	keys := make([]string, 0, len(ak))
	for k := range ak {
		keys = append(keys, k)
	}
	sort.Strings(keys)
	known := w.x.Known(c38FPORMapOld)
	eq := am == bm
	for _, k := range keys {
		as += " " + k + "=" + ak[k]
		bs += " " + k + "=" + bk[k]
		if ak[k] != bk[k] {
			if known && w.keyRemoved(k) {
				w.x.Class("ormap_value_of_removed_key_not_compared")
				continue
			}
			eq = false
		}
	}
	return eq, as, bs
}

// spec computes the documented merge result of two pool states as an observable string (main part) and
// per-key values (ormap_gc only).
func (w *c38World) spec(a, b *c38State) (string, map[string]string) {
	switch w.typ {
	case c38TGCounter:
		sa, sb := a.v.(*GCounter).State(), b.v.(*GCounter).State()
		mx, sum := c38MaxMap(sa, sb)
		return fmt.Sprintf("gc{%s}=%d", c38Slots(mx), sum), nil
	case c38TPNCounter:
		ia, da := a.v.(*PNCounter).State()
		ib, db := b.v.(*PNCounter).State()
		mi, si := c38MaxMap(ia, ib)
		md, sd := c38MaxMap(da, db)
		return fmt.Sprintf("pn{+%s -%s}=%d", c38Slots(mi), c38Slots(md), int64(si)-int64(sd)), nil
	case c38TFlag:
		return fmt.Sprintf("flag{%v}", a.v.(*Flag).Enabled() || b.v.(*Flag).Enabled()), nil
	case c38TLWW:
		ra, rb := a.v.(*LWWRegister), b.v.(*LWWRegister)
		win := ra
		if rb.Timestamp() > ra.Timestamp() || (rb.Timestamp() == ra.Timestamp() && rb.NodeID() > ra.NodeID()) {
			win = rb
		}
		return fmt.Sprintf("lww{%s@%d/%s}", c38Any(win.Value()), win.Timestamp(), win.NodeID()), nil
	}
	u := a.m.union(b.m)
	switch w.typ {
	case c38TMV:
		var strs []string
		for d, e := range u.adds {
			if u.live(d) {
				strs = append(strs, c38Any(e))
			}
		}
		sort.Strings(strs)
		return "mv{" + strings.Join(strs, ",") + "}", nil
	default:
		present := map[int]bool{}
		for d, e := range u.adds {
			if u.live(d) {
				present[e] = true
			}
		}
		var strs []string
		perKey := map[string]string{}
		for e := range present {
			ks := c38Any(c38Elems[e])
			strs = append(strs, ks)
			if w.typ == c38TORMapGC {
				cnt := u.counterOf(e)
				perKey[ks] = fmt.Sprintf("gc{%s}=%d", c38SlotsArr(cnt), cnt[0]+cnt[1]+cnt[2])
			}
		}
		sort.Strings(strs)
		if w.typ == c38TORSet {
			return "set{" + strings.Join(strs, ",") + "}", nil
		}
		return "map{" + strings.Join(strs, ",") + "}", perKey
	}
}

func c38MaxMap(a, b map[string]uint64) (map[string]uint64, uint64) {
	out := map[string]uint64{}
	for k, v := range a {
		out[k] = v
	}
	for k, v := range b {
		if v > out[k] {
			out[k] = v
		}
	}
	var sum uint64
	for _, v := range out {
		sum += v
	}
	return out, sum
}

func (w *c38World) unchanged(st *c38State, after string) {
	if now := c38Deep(st.v); now != st.deep {
		w.x.Failf("input-modified-"+c38TypeNames[w.typ], "%s was modified by %s:\n before: %s\n after:  %s", st.label, after, st.deep, now)
	}
}

// pairLaws: commutativity, the documented result, idempotence/absorption, Clone, Delta on (a,b).
func (w *c38World) pairLaws(a, b *c38State) (ab, ba ReplicatedData) {
	x := w.x
	ab = a.v.Merge(b.v)
	ba = b.v.Merge(a.v)
	w.unchanged(a, "Merge")
	w.unchanged(b, "Merge")
	if ok, l, r := w.sameObs(ab, ba); !ok {
		x.Failf(w.fp("merge-not-commutative"), "a=%s, b=%s: a.Merge(b) = %s but b.Merge(a) = %s", a.label, b.label, l, r)
	}
	// the documented result, which also states that nothing either side knows is lost
	wantMain, wantKeys := w.spec(a, b)
	gotMain, gotKeys, _ := c38Obs(ab)
	if gotMain != wantMain {
		x.Failf(w.fp("merge-wrong-result"), "a=%s [%s], b=%s [%s]: a.Merge(b) exposes %s, the documented merge is %s", a.label, a.deep, b.label, b.deep, gotMain, wantMain)
	}
	known := x.Known(c38FPORMapOld)
	for k, want := range wantKeys {
		if gotKeys[k] != want {
			if known && w.keyRemoved(k) {
				continue
			}
			x.Failf(w.fp("merge-wrong-result"), "a=%s, b=%s: a.Merge(b) holds %s under key %s, the documented merge is %s", a.label, b.label, gotKeys[k], k, want)
		}
	}
	// idempotence and absorption
	if a == b {
		if ok, l, r := w.sameObs(ab, a.v); !ok {
			x.Failf(w.fp("merge-not-idempotent"), "a=%s: a.Merge(a) = %s but a = %s", a.label, l, r)
		}
	}
	if ok, l, r := w.sameObs(ab.Merge(b.v), ab); !ok {
		x.Failf(w.fp("merge-not-idempotent"), "a=%s, b=%s: (a.Merge(b)).Merge(b) = %s but a.Merge(b) = %s", a.label, b.label, l, r)
	}
	if ok, l, r := w.sameObs(a.v.Merge(ab), ab); !ok {
		x.Failf(w.fp("merge-not-idempotent"), "a=%s, b=%s: a.Merge(a.Merge(b)) = %s but a.Merge(b) = %s", a.label, b.label, l, r)
	}
	// Clone: equal in every field, independent, and interchangeable as a merge operand
	cl := b.v.Clone()
	if d := c38Deep(cl); d != b.deep {
		x.Failf("clone-differs-"+c38TypeNames[w.typ], "b=%s: Clone() is %s, the original %s", b.label, d, b.deep)
	}
	if ok, l, r := w.sameObs(a.v.Merge(cl), ab); !ok {
		x.Failf(w.fp("merge-with-clone-differs"), "a=%s, b=%s: a.Merge(b.Clone()) = %s but a.Merge(b) = %s", a.label, b.label, l, r)
	}
	if ok, l, r := w.sameObs(cl.Merge(a.v), ba); !ok {
		x.Failf(w.fp("merge-with-clone-differs"), "a=%s, b=%s: b.Clone().Merge(a) = %s but b.Merge(a) = %s", a.label, b.label, l, r)
	}
	cl.ResetDelta()
	w.unchanged(b, "ResetDelta on its clone")
	// Delta does not touch its receiver; using or resetting the returned value does not either
	if d := b.v.Delta(); d != nil {
		w.unchanged(b, "Delta")
		d.ResetDelta()
		_ = d.Merge(a.v)
		w.unchanged(b, "using the value returned by Delta")
	}
	return ab, ba
}

// tripleLaws: associativity, and independence of the order in which three states are folded.
func (w *c38World) tripleLaws(a, b, c *c38State, ab, ba ReplicatedData) {
	x := w.x
	bc := b.v.Merge(c.v)
	l1 := ab.Merge(c.v)
	r1 := a.v.Merge(bc)
	if ok, l, r := w.sameObs(l1, r1); !ok {
		x.Failf(w.fp("merge-not-associative"), "a=%s [%s], b=%s [%s], c=%s [%s]: (a.Merge(b)).Merge(c) = %s but a.Merge(b.Merge(c)) = %s", a.label, a.deep, b.label, b.deep, c.label, c.deep, l, r)
	}
	for _, alt := range []ReplicatedData{c.v.Merge(ba), bc.Merge(a.v), c.v.Merge(a.v).Merge(b.v)} {
		if ok, l, r := w.sameObs(l1, alt); !ok {
			x.Failf(w.fp("merge-order-dependent"), "a=%s, b=%s, c=%s: folding in one order gives %s, in another %s", a.label, b.label, c.label, l, r)
		}
	}
	// results are values of their own: resetting them must not reach back into the operands
	l1.ResetDelta()
	r1.ResetDelta()
}

// laws checks everything on the operand triple (a,b,c).
func (w *c38World) laws(a, b, c *c38State) {
	ab, ba := w.pairLaws(a, b)
	w.pairLaws(a, a)
	w.tripleLaws(a, b, c, ab, ba)
	ab.ResetDelta()
	ba.ResetDelta()
	for _, s := range []*c38State{a, b, c} {
		w.unchanged(s, "Merge/Clone/Delta or by ResetDelta on a merge result")
	}
}

func (w *c38World) classify(a, b *c38State) {
	x := w.x
	conc := a.seen&^b.seen != 0 && b.seen&^a.seen != 0
	if conc {
		x.Class("operands_concurrent")
		x.NonTrivial()
	} else if a.seen != b.seen {
		x.Class("operands_ordered")
	} else {
		x.Class("operands_same_history")
	}
	// a removed an element (it holds a tombstone of one of its dots) that b has re-added with a dot a never saw
	for d, e := range b.m.adds {
		if _, inA := a.m.adds[d]; inA || !b.m.live(d) {
			continue
		}
		for d2, e2 := range a.m.adds {
			if e2 == e && !a.m.live(d2) {
				x.Class("remove_vs_concurrent_readd")
				return
			}
		}
	}
}

func c38Exec(x *vfkit.X, c c38Case) {
	w := c38NewWorld(x, c.Type, c.N)
	x.Class("type_" + c38TypeNames[c.Type])
	for i, o := range c.Ops {
		w.apply(i, o)
	}
	n := len(w.pool)
	pick := func(k int) *c38State {
		if k < 6 {
			return w.pool[w.cur[k%c.N]]
		}
		return w.pool[n-1-(k-6)%n]
	}
	a, cc := pick(c.A), pick(c.C)
	b := pick(c.B)
	if c.A < 6 && c.B < 6 {
		// the current state of a different replica
		b = w.pool[w.cur[(c.A%c.N+1+c.B%(c.N-1))%c.N]]
	}
	w.classify(a, b)
	if len(w.removedK) > 0 {
		x.Class("ormap_key_removed")
	}
	w.laws(a, b, cc)
	// every value ever created is still what it was
	for _, s := range w.pool {
		w.unchanged(s, "a later operation on another value")
	}
}

func TestVF_C38_laws(t *testing.T) {
	vfkit.Run(t, vfkit.Spec[c38Case]{
		ID: "C38", Unit: "laws",
		Rule: "case = CRDT type, 2-3 replicas, <=10 operations (local update under the replica's own node id, merge of another replica's current state, compaction); every state that existed is pooled and three operands are drawn from the pool; non-trivial = operands a and b each include a local update the other has not seen (concurrent histories); distinct = distinct case",
		Gen:  c38Gen, Exec: c38Exec,
	})
}

// ---- bounded-exhaustive unit ---------------------------------------------------------

type c38SmallCase struct {
	Type  int `json:"type"`
	First int `json:"first"` // index of the first operation in the 2-replica alphabet
}

// c38Alphabet: every operation of the type on 2 replicas over a 2-element domain, plus the two merges.
func c38Alphabet(typ int) []c38Op {
	var ops []c38Op
	for r := 0; r < 2; r++ {
		switch typ {
		case c38TGCounter, c38TFlag:
			ops = append(ops, c38Op{R: r, Val: 0, Reset: true})
		case c38TPNCounter:
			ops = append(ops, c38Op{R: r, Op: 0, Val: 1, Reset: true}, c38Op{R: r, Op: 1, Val: 0, Reset: true})
		case c38TLWW, c38TMV:
			ops = append(ops, c38Op{R: r, Val: 0, Reset: true}, c38Op{R: r, Val: 1, TSD: 1, Reset: true})
		default:
			for e := 0; e < 2; e++ {
				ops = append(ops, c38Op{R: r, Op: 0, Elem: e, Val: e, Reset: true}, c38Op{R: r, Op: 4, Elem: e, Reset: true})
			}
		}
		ops = append(ops, c38Op{Kind: 1, R: r, From: 1 - r})
	}
	return ops
}

func c38SmallGen(t *rapid.T) c38SmallCase {
	typ := rapid.IntRange(0, c38NTypes-1).Draw(t, "type")
	return c38SmallCase{Type: typ, First: rapid.IntRange(0, len(c38Alphabet(typ))-1).Draw(t, "first")}
}

func c38SmallExec(x *vfkit.X, c c38SmallCase) {
	alpha := c38Alphabet(c.Type)
	x.Class(fmt.Sprintf("type_%s_first_%d", c38TypeNames[c.Type], c.First))
	x.NonTrivial()
	// all sequences of up to 3 operations starting with alpha[First]; all operand triples from the pool
	var seqs [][]c38Op
	seqs = append(seqs, []c38Op{alpha[c.First]})
	for _, o2 := range alpha {
		seqs = append(seqs, []c38Op{alpha[c.First], o2})
		for _, o3 := range alpha {
			seqs = append(seqs, []c38Op{alpha[c.First], o2, o3})
		}
	}
	for _, seq := range seqs {
		w := c38NewWorld(x, c.Type, 2)
		for i, o := range seq {
			w.apply(i, o)
		}
		// all pairs: commutativity, documented result, idempotence, Clone, Delta
		n := len(w.pool)
		pair := make([][]ReplicatedData, n)
		for i, a := range w.pool {
			pair[i] = make([]ReplicatedData, n)
			for j, b := range w.pool {
				pair[i][j], _ = w.pairLaws(a, b)
			}
		}
		// all triples: associativity (with commutativity on all pairs this covers every folding order)
		for i, a := range w.pool {
			for j, b := range w.pool {
				for k, cc := range w.pool {
					l1 := pair[i][j].Merge(cc.v)
					r1 := a.v.Merge(pair[j][k])
					if ok, l, r := w.sameObs(l1, r1); !ok {
						x.Failf(w.fp("merge-not-associative"), "a=%s [%s], b=%s [%s], c=%s [%s]: (a.Merge(b)).Merge(c) = %s but a.Merge(b.Merge(c)) = %s", a.label, a.deep, b.label, b.deep, cc.label, cc.deep, l, r)
					}
				}
			}
		}
		for _, s := range w.pool {
			w.unchanged(s, "a later operation on another value")
		}
	}
}

func TestVF_C38_small(t *testing.T) {
	vfkit.Run(t, vfkit.Spec[c38SmallCase]{
		ID: "C38", Unit: "small",
		Rule: "case = (CRDT type, first operation); the execution enumerates EVERY sequence of 1-3 operations on 2 replicas that starts with it (alphabet: each operation of the type on a 2-element domain at either replica, and the two merges) and checks every operand triple of the resulting pool; every case is non-trivial; distinct = distinct (type, first operation), the class counters show which blocks were covered",
		Gen:  c38SmallGen, Exec: c38SmallExec,
	})
}

//go:build verif

package actor

import (
	"context"
	"encoding/json"
	"errors"
	"fmt"
	"io/fs"
	"math"
	"net"
	"sort"
	"strings"
	"sync"
	"sync/atomic"
	"testing"
	"time"

	"google.golang.org/protobuf/proto"
	"pgregory.net/rapid"

	gerrors "github.com/tochemey/goakt/v4/errors"
	"github.com/tochemey/goakt/v4/extension"
	"github.com/tochemey/goakt/v4/internal/internalpb"
	inet "github.com/tochemey/goakt/v4/internal/net"
	"github.com/tochemey/goakt/v4/internal/vfkit"
	"github.com/tochemey/goakt/v4/log"
	"github.com/tochemey/goakt/v4/passivation"
	"github.com/tochemey/goakt/v4/reentrancy"
	"github.com/tochemey/goakt/v4/remote"
	"github.com/tochemey/goakt/v4/supervisor"
)

// ---------------------------------------------------------------------------
// C37 / e2e: the configuration an actor gets when it is
//   (a) relocated:  pid.toSerialize() -> proto wire -> wireSpawnOptions -> Spawn on another system
//   (b) spawned remotely: Spawn(..., WithHostAndPort(B)) -> RemoteSpawn RPC -> remoteSpawnHandler -> Spawn on B
//   (c) spawned as a remote child: remotePID.SpawnChild -> RemoteSpawnChild RPC -> remoteSpawnChildHandler
// equals the configuration of the actor spawned locally with the same options.
// Compared on the real PIDs: supervisor (all getters, rules, directive lookup),
// passivation strategy, reentrancy, stash, role, dependencies, init timeout,
// relocatability.
// ---------------------------------------------------------------------------

type c37Actor struct{}

func (*c37Actor) PreStart(*Context) error { return nil }
func (*c37Actor) Receive(*ReceiveContext) {}
func (*c37Actor) PostStop(*Context) error { return nil }

type c37ErrA struct{}
type c37ErrB struct{ N int }
type c37ErrC struct{}

func (*c37ErrA) Error() string { return "a" }
func (c37ErrB) Error() string  { return "b" }
func (*c37ErrC) Error() string { return "c" }

var c37ErrKinds = []string{"A", "B", "C", "panic", "internal", "spawn", "opError", "pathError", "errorString", "wrapped"}

func c37ErrValue(kind string) error {
	switch kind {
	case "A":
		return &c37ErrA{}
	case "B":
		return c37ErrB{N: 1}
	case "C":
		return &c37ErrC{}
	case "panic":
		return gerrors.NewPanicError(errors.New("x"))
	case "internal":
		return gerrors.NewInternalError(errors.New("x"))
	case "spawn":
		return gerrors.NewSpawnError(errors.New("x"))
	case "opError":
		return &net.OpError{Op: "dial"}
	case "pathError":
		return &fs.PathError{Op: "open", Path: "/x", Err: errors.New("x")}
	case "errorString":
		return errors.New("plain")
	case "wrapped":
		return fmt.Errorf("w: %w", errors.New("x"))
	}
	panic("c37: unknown error kind " + kind)
}

type c37Rule struct {
	Err string `json:"err"`
	Dir int    `json:"dir"`
}

type c37SupSpec struct {
	Strategy   int       `json:"strategy"`
	Rules      []c37Rule `json:"rules"`
	AnyErr     int       `json:"any_err"`
	Retry      bool      `json:"retry"`
	MaxRetries uint32    `json:"max_retries"`
	Timeout    int64     `json:"timeout"`
	Backoff    bool      `json:"backoff"`
	Initial    int64     `json:"initial"`
	Max        int64     `json:"max"`
	ResetAfter int64     `json:"reset_after"`
}

type c37DepSpec struct {
	ID    string `json:"id"`
	Value string `json:"value"`
	Count int64  `json:"count"`
	Kind  int    `json:"kind"`
}

type c37E2ECase struct {
	Path        string       `json:"path"` // relocation | remote_spawn | remote_child
	Sup         *c37SupSpec  `json:"sup"`
	PassKind    int          `json:"pass_kind"` // 0 unset, 1 time, 2 count, 3 long-lived
	PassNanos   int64        `json:"pass_nanos"`
	PassCount   int64        `json:"pass_count"`
	Reentrancy  bool         `json:"reentrancy"`
	Mode        int          `json:"mode"`
	MaxInFlight int64        `json:"max_in_flight"`
	Stash       bool         `json:"stash"`
	HasRole     bool         `json:"has_role"`
	Role        string       `json:"role"`
	Deps        []c37DepSpec `json:"deps"`
	InitTimeout int64        `json:"init_timeout"` // 0 = unset
	NoRelocate  bool         `json:"no_relocate"`  // remote_spawn only
}

func c37GenDur(t *rapid.T, label string, allowNonPositive bool) int64 {
	gens := []*rapid.Generator[int64]{
		rapid.Int64Range(1, int64(10*time.Second)),
		rapid.SampledFrom([]int64{1, 999, int64(time.Millisecond), int64(time.Second), int64(time.Second) + 1, int64(time.Minute), math.MaxInt64, 999_999_999, 1_000_000_001}),
		rapid.Int64Range(1, math.MaxInt64),
	}
	if allowNonPositive {
		gens = append(gens, rapid.SampledFrom([]int64{0, -1, -int64(time.Second) - 1, math.MinInt64}))
	}
	return rapid.OneOf(gens...).Draw(t, label)
}

func c37GenE2E(t *rapid.T) c37E2ECase {
	var c c37E2ECase
	c.Path = rapid.SampledFrom([]string{"relocation", "remote_spawn", "remote_child"}).Draw(t, "path")
	if rapid.IntRange(0, 4).Draw(t, "has_sup") > 0 {
		s := &c37SupSpec{AnyErr: -1}
		s.Strategy = rapid.IntRange(0, 1).Draw(t, "strategy")
		n := rapid.IntRange(0, 5).Draw(t, "rules_n")
		kinds := rapid.Permutation(c37ErrKinds).Draw(t, "rule_kinds")
		for i := 0; i < n; i++ {
			s.Rules = append(s.Rules, c37Rule{Err: kinds[i], Dir: rapid.IntRange(0, 3).Draw(t, "rule_dir")})
		}
		if rapid.IntRange(0, 3).Draw(t, "any") == 0 {
			s.AnyErr = rapid.IntRange(0, 3).Draw(t, "any_dir")
		}
		if rapid.Bool().Draw(t, "retry") {
			s.Retry = true
			s.MaxRetries = rapid.OneOf(rapid.Uint32Range(0, 10), rapid.SampledFrom([]uint32{0, 1, math.MaxInt32 + 1, math.MaxUint32})).Draw(t, "max_retries")
			s.Timeout = c37GenDur(t, "timeout", true)
		}
		if rapid.Bool().Draw(t, "backoff") {
			s.Backoff = true
			s.Initial = c37GenDur(t, "initial", false)
			s.Max = rapid.Int64Range(s.Initial, math.MaxInt64).Draw(t, "max")
			s.ResetAfter = c37GenDur(t, "reset_after", true)
		}
		c.Sup = s
	}
	// the actors really run: passivation thresholds are kept far away from what an
	// idle test actor can reach during a case (small values are covered by the codec unit)
	c.PassKind = rapid.IntRange(0, 3).Draw(t, "pass_kind")
	c.PassNanos = rapid.Int64Range(int64(10*time.Minute), math.MaxInt64).Draw(t, "pass_nanos")
	c.PassCount = rapid.Int64Range(1000, math.MaxInt32).Draw(t, "pass_count")
	c.Reentrancy = rapid.Bool().Draw(t, "reentrancy")
	c.Mode = rapid.IntRange(0, 2).Draw(t, "mode")
	c.MaxInFlight = rapid.OneOf(rapid.Int64Range(-2, 64), rapid.SampledFrom([]int64{0, 1, math.MaxInt32 + 1, math.MaxUint32})).Draw(t, "max_in_flight")
	c.Stash = rapid.Bool().Draw(t, "stash")
	if rapid.Bool().Draw(t, "has_role") {
		c.HasRole = true
		c.Role = rapid.SampledFrom([]string{"payments", "api", "a", "Role-1", "ünï", "with space"}).Draw(t, "role")
	}
	nd := rapid.IntRange(0, 3).Draw(t, "deps_n")
	seen := map[string]bool{}
	for i := 0; i < nd; i++ {
		id := rapid.StringMatching(`[a-zA-Z0-9][a-zA-Z0-9_-]{1,12}`).Draw(t, "dep_id")
		if seen[id] {
			continue
		}
		seen[id] = true
		c.Deps = append(c.Deps, c37DepSpec{ID: id, Value: rapid.StringN(0, 12, 48).Draw(t, "dep_value"), Count: rapid.Int64().Draw(t, "dep_count"), Kind: rapid.IntRange(0, 1).Draw(t, "dep_kind")})
	}
	if rapid.Bool().Draw(t, "has_init_timeout") {
		c.InitTimeout = rapid.OneOf(rapid.Int64Range(int64(time.Second), int64(time.Hour)), rapid.SampledFrom([]int64{int64(time.Second), int64(time.Second) + 1, 1_999_999_999, math.MaxInt64})).Draw(t, "init_timeout")
	}
	if c.Path == "remote_spawn" {
		c.NoRelocate = rapid.Bool().Draw(t, "no_relocate")
	}
	return c
}

type c37DepA struct {
	Ident string `json:"id"`
	Value string `json:"value"`
	Count int64  `json:"count"`
}

func (d *c37DepA) ID() string                     { return d.Ident }
func (d *c37DepA) MarshalBinary() ([]byte, error) { return json.Marshal(d) }
func (d *c37DepA) UnmarshalBinary(b []byte) error { return json.Unmarshal(b, d) }

type c37DepB struct {
	Ident string `json:"id"`
	Value string `json:"value"`
	Count int64  `json:"count"`
}

func (d *c37DepB) ID() string                     { return d.Ident }
func (d *c37DepB) MarshalBinary() ([]byte, error) { return json.Marshal(d) }
func (d *c37DepB) UnmarshalBinary(b []byte) error { return json.Unmarshal(b, d) }

var c37Dirs = []supervisor.Directive{supervisor.StopDirective, supervisor.ResumeDirective, supervisor.RestartDirective, supervisor.EscalateDirective}

func (s *c37SupSpec) build() *supervisor.Supervisor {
	var opts []supervisor.SupervisorOption
	if s.Strategy == 1 {
		opts = append(opts, supervisor.WithStrategy(supervisor.OneForAllStrategy))
	}
	for _, r := range s.Rules {
		opts = append(opts, supervisor.WithDirective(c37ErrValue(r.Err), c37Dirs[r.Dir]))
	}
	if s.AnyErr >= 0 {
		opts = append(opts, supervisor.WithAnyErrorDirective(c37Dirs[s.AnyErr]))
	}
	if s.Retry {
		opts = append(opts, supervisor.WithRetry(s.MaxRetries, time.Duration(s.Timeout)))
	}
	if s.Backoff {
		opts = append(opts, supervisor.WithExponentialBackoff(time.Duration(s.Initial), time.Duration(s.Max), time.Duration(s.ResetAfter)))
	}
	return supervisor.NewSupervisor(opts...)
}

func (c c37E2ECase) options() []SpawnOption {
	var opts []SpawnOption
	if c.Sup != nil {
		opts = append(opts, WithSupervisor(c.Sup.build()))
	}
	switch c.PassKind {
	case 1:
		opts = append(opts, WithPassivationStrategy(passivation.NewTimeBasedStrategy(time.Duration(c.PassNanos))))
	case 2:
		opts = append(opts, WithPassivationStrategy(passivation.NewMessageCountBasedStrategy(int(c.PassCount))))
	case 3:
		opts = append(opts, WithLongLived())
	}
	if c.Reentrancy {
		opts = append(opts, WithReentrancy(reentrancy.New(reentrancy.WithMode(reentrancy.Mode(c.Mode)), reentrancy.WithMaxInFlight(int(c.MaxInFlight)))))
	}
	if c.Stash {
		opts = append(opts, WithStashing())
	}
	if c.HasRole {
		opts = append(opts, WithRole(c.Role))
	}
	if len(c.Deps) > 0 {
		var deps []extension.Dependency
		for _, d := range c.Deps {
			if d.Kind == 0 {
				deps = append(deps, &c37DepA{Ident: d.ID, Value: d.Value, Count: d.Count})
			} else {
				deps = append(deps, &c37DepB{Ident: d.ID, Value: d.Value, Count: d.Count})
			}
		}
		opts = append(opts, WithDependencies(deps...))
	}
	if c.InitTimeout > 0 {
		opts = append(opts, WithInitTimeout(time.Duration(c.InitTimeout)))
	}
	if c.NoRelocate {
		opts = append(opts, WithRelocationDisabled())
	}
	return opts
}

func c37RulesString(s *supervisor.Supervisor) string {
	rules := s.Rules()
	out := make([]string, 0, len(rules))
	for _, r := range rules {
		out = append(out, fmt.Sprintf("%s=>%s", r.ErrorType, r.Directive))
	}
	sort.Strings(out)
	return strings.Join(out, ", ")
}

func c37SupDiff(want, got *supervisor.Supervisor) (string, string) {
	if (want == nil) != (got == nil) {
		return "nil-ness", fmt.Sprintf("supervisor nil-ness: local %v, wire %v", want != nil, got != nil)
	}
	if want == nil {
		return "", ""
	}
	if want.Strategy() != got.Strategy() {
		return "strategy", fmt.Sprintf("strategy %v != %v", want.Strategy(), got.Strategy())
	}
	if want.MaxRetries() != got.MaxRetries() {
		return "max-retries", fmt.Sprintf("max retries %d != %d", want.MaxRetries(), got.MaxRetries())
	}
	if want.Timeout() != got.Timeout() {
		return "timeout", fmt.Sprintf("timeout %d != %d", want.Timeout(), got.Timeout())
	}
	if a, b := c37RulesString(want), c37RulesString(got); a != b {
		return "rules", fmt.Sprintf("rules {%s} != {%s}", a, b)
	}
	wd, wok := want.AnyErrorDirective()
	gd, gok := got.AnyErrorDirective()
	if wok != gok || wd != gd {
		return "any-error", fmt.Sprintf("any-error directive (%v,%v) != (%v,%v)", wd, wok, gd, gok)
	}
	for _, k := range c37ErrKinds {
		e := c37ErrValue(k)
		wd, wok := want.Directive(e)
		gd, gok := got.Directive(e)
		if wok != gok || wd != gd {
			return "rules", fmt.Sprintf("Directive(%T) (%v,%v) != (%v,%v)", e, wd, wok, gd, gok)
		}
	}
	if want.InitialDelay() != got.InitialDelay() || want.MaxDelay() != got.MaxDelay() || want.BackoffResetAfter() != got.BackoffResetAfter() {
		return "backoff", fmt.Sprintf("exponential backoff (initial=%v max=%v resetAfter=%v) != (initial=%v max=%v resetAfter=%v)",
			want.InitialDelay(), want.MaxDelay(), want.BackoffResetAfter(), got.InitialDelay(), got.MaxDelay(), got.BackoffResetAfter())
	}
	return "", ""
}

func c37PassString(s passivation.Strategy) string {
	switch v := s.(type) {
	case nil:
		return "nil"
	case *passivation.TimeBasedStrategy:
		return fmt.Sprintf("time(%d)", v.Timeout())
	case *passivation.MessagesCountBasedStrategy:
		return fmt.Sprintf("count(%d)", v.MaxMessages())
	case *passivation.LongLivedStrategy:
		return "long-lived"
	}
	return fmt.Sprintf("%T", s)
}

// ---- fixtures: two started systems with remoting on loopback -------------------

type c37Fixture struct {
	a, b  *actorSystem
	hostB string
	portB int
	err   error
}

var (
	c37FixOnce sync.Once
	c37Fix     c37Fixture
	c37Seq     atomic.Int64
)

func c37StartSystem(name string) (*actorSystem, int, error) {
	var lastErr error
	for attempt := 0; attempt < 5; attempt++ {
		port := inet.Get(1)[0]
		sys, err := NewActorSystem(name, WithLogger(log.DiscardLogger), WithRemote(remote.NewConfig("127.0.0.1", port)))
		if err != nil {
			return nil, 0, err
		}
		if err := sys.Start(context.Background()); err != nil {
			lastErr = err
			continue
		}
		return sys.(*actorSystem), port, nil
	}
	return nil, 0, lastErr
}

func c37Fixtures(t *testing.T) *c37Fixture {
	c37FixOnce.Do(func() {
		a, _, err := c37StartSystem("c37a")
		if err != nil {
			c37Fix.err = err
			return
		}
		b, portB, err := c37StartSystem("c37b")
		if err != nil {
			_ = a.Stop(context.Background())
			c37Fix.err = err
			return
		}
		ctx := context.Background()
		for _, s := range []*actorSystem{a, b} {
			_ = s.Register(ctx, new(c37Actor))
			_ = s.Inject(new(c37DepA), new(c37DepB))
		}
		c37Fix = c37Fixture{a: a, b: b, hostB: "127.0.0.1", portB: portB}
		t.Cleanup(func() {
			_ = a.Stop(context.Background())
			_ = b.Stop(context.Background())
		})
	})
	return &c37Fix
}

const fpC37Backoff = "supervisor-backoff-lost-on-wire"

// c37Compare compares the effective configuration of the locally spawned
// actor (ref) with the one that went over the wire (got).
func c37Compare(x *vfkit.X, c c37E2ECase, ref, got *PID) {
	what, diff := c37SupDiff(ref.supervisor, got.supervisor)
	if what == "backoff" && x.Known(fpC37Backoff) {
		x.Class("known_backoff_loss_tolerated")
		what = ""
	}
	if what != "" {
		fp := "e2e-supervisor-" + what + "-not-equal"
		if what == "backoff" {
			fp = fpC37Backoff
		}
		x.Failf(fp, "path=%s supervisor %+v: %s", c.Path, c.Sup, diff)
	}
	if a, b := c37PassString(ref.PassivationStrategy()), c37PassString(got.PassivationStrategy()); a != b {
		x.Failf("e2e-passivation-not-equal", "path=%s: passivation strategy local %s, over the wire %s", c.Path, a, b)
	}
	reMode := func(p *PID) (reentrancy.Mode, int64) {
		st := p.reentrancy.Load()
		if st == nil {
			return reentrancy.Off, 0
		}
		m := st.getMode()
		if m == reentrancy.Off {
			return m, 0 // the in-flight limit has no effect while async requests are disabled
		}
		return m, st.maxInFlight.Load()
	}
	am, al := reMode(ref)
	bm, bl := reMode(got)
	if am != bm || al != bl {
		x.Failf("e2e-reentrancy-not-equal", "path=%s: reentrancy local (mode=%d maxInFlight=%d), over the wire (mode=%d maxInFlight=%d)", c.Path, am, al, bm, bl)
	}
	hasStash := func(p *PID) bool { return p.stashState != nil && p.stashState.box != nil }
	if hasStash(ref) != hasStash(got) {
		x.Failf("e2e-stash-not-equal", "path=%s: stash local %v, over the wire %v", c.Path, hasStash(ref), hasStash(got))
	}
	role := func(p *PID) string {
		if r := p.Role(); r != nil {
			return *r
		}
		return ""
	}
	if role(ref) != role(got) {
		x.Failf("e2e-role-not-equal", "path=%s: role local %q, over the wire %q", c.Path, role(ref), role(got))
	}
	deps := func(p *PID) string {
		var out []string
		for _, d := range p.Dependencies() {
			b, _ := d.MarshalBinary()
			out = append(out, fmt.Sprintf("%T|%s|%s", d, d.ID(), b))
		}
		sort.Strings(out)
		return strings.Join(out, "\n")
	}
	if a, b := deps(ref), deps(got); a != b {
		x.Failf("e2e-dependencies-not-equal", "path=%s: dependencies local:\n%s\nover the wire:\n%s", c.Path, a, b)
	}
	it := func(p *PID) int64 {
		if d := p.initTimeout.Load(); d != nil {
			return int64(*d)
		}
		return -1
	}
	if it(ref) != it(got) {
		x.Failf("e2e-init-timeout-not-equal", "path=%s: init timeout override local %d, over the wire %d (-1 = unset)", c.Path, it(ref), it(got))
	}
	if ref.IsRelocatable() != got.IsRelocatable() {
		x.Failf("e2e-relocatable-not-equal", "path=%s: relocatable local %v, over the wire %v", c.Path, ref.IsRelocatable(), got.IsRelocatable())
	}
}

func c37ExecE2E(fix *c37Fixture) func(x *vfkit.X, c c37E2ECase) {
	return func(x *vfkit.X, c c37E2ECase) {
		if fix.err != nil {
			x.Class("infra_unavailable")
			x.Logf("fixture: %v", fix.err)
			return
		}
		ctx, cancel := context.WithTimeout(context.Background(), 30*time.Second)
		defer cancel()
		x.Class("path_" + c.Path)
		seq := c37Seq.Add(1)
		refName := fmt.Sprintf("c37-ref-%d", seq)
		wireName := fmt.Sprintf("c37-wire-%d", seq)
		opts := c.options()

		var ref *PID
		var err error
		if c.Path == "remote_child" {
			// reference: a child spawned locally under a local parent with the same options
			parentA, perr := fix.a.Spawn(ctx, refName+"-parent", new(c37Actor), WithLongLived())
			if perr != nil {
				x.Failf("e2e-local-spawn-refused", "local parent Spawn failed: %v", perr)
			}
			defer func() { _ = parentA.Shutdown(context.Background()) }()
			ref, err = parentA.SpawnChild(ctx, refName, new(c37Actor), opts...)
		} else {
			ref, err = fix.a.Spawn(ctx, refName, new(c37Actor), opts...)
		}
		if err != nil {
			x.Failf("e2e-local-spawn-refused", "local spawn with generated (valid) options failed: %v (case %+v)", err, c)
		}
		defer func() { _ = ref.Shutdown(context.Background()) }()

		var got *PID
		switch c.Path {
		case "relocation":
			props, err := ref.toSerialize()
			if err != nil {
				x.Failf("e2e-to-serialize-error", "toSerialize: %v", err)
			}
			raw, err := proto.Marshal(props)
			if err != nil {
				x.Failf("e2e-wire-marshal-error", "proto.Marshal: %v", err)
			}
			back := new(internalpb.Actor)
			if err := proto.Unmarshal(raw, back); err != nil {
				x.Failf("e2e-wire-unmarshal-error", "proto.Unmarshal: %v", err)
			}
			wopts, err := fix.b.wireSpawnOptions(back)
			if err != nil {
				x.Failf("e2e-wire-spawn-options-error", "wireSpawnOptions: %v", err)
			}
			actor, err := fix.b.reflection.instantiateActor(back.GetType())
			if err != nil {
				x.Failf("e2e-instantiate-error", "instantiateActor(%s): %v", back.GetType(), err)
			}
			got, err = fix.b.Spawn(ctx, wireName, actor, wopts...)
			if err != nil {
				x.Failf("e2e-wire-spawn-refused", "Spawn from wire options failed: %v (case %+v)", err, c)
			}
		case "remote_child":
			parentB, perr := fix.b.Spawn(ctx, wireName+"-parent", new(c37Actor), WithLongLived())
			if perr != nil {
				x.Failf("e2e-local-spawn-refused", "parent Spawn on the target system failed: %v", perr)
			}
			defer func() { _ = parentB.Shutdown(context.Background()) }()
			remoteParent := newRemotePID(parentB.address, fix.a.remoting)
			if _, err := remoteParent.SpawnChild(ctx, wireName, new(c37Actor), opts...); err != nil {
				var ne net.Error
				if errors.Is(err, context.DeadlineExceeded) || errors.As(err, &ne) {
					x.Class("inconclusive_transport")
					return
				}
				x.Failf("e2e-remote-spawn-refused", "remote SpawnChild with generated (valid) options failed: %v (case %+v)", err, c)
			}
			node, ok := fix.b.actors.nodeByName(wireName)
			if !ok || node.value() == nil {
				x.Failf("e2e-remote-actor-missing", "remote SpawnChild succeeded but %s is not in the target system", wireName)
			}
			got = node.value()
		default:
			remotePID, err := fix.a.Spawn(ctx, wireName, new(c37Actor), append(append([]SpawnOption{}, opts...), WithHostAndPort(fix.hostB, fix.portB))...)
			if err != nil {
				var ne net.Error
				if errors.Is(err, context.DeadlineExceeded) || errors.As(err, &ne) {
					x.Class("inconclusive_transport")
					return
				}
				x.Failf("e2e-remote-spawn-refused", "remote Spawn with generated (valid) options failed: %v (case %+v)", err, c)
			}
			_ = remotePID
			node, ok := fix.b.actors.nodeByName(wireName)
			if !ok || node.value() == nil {
				x.Failf("e2e-remote-actor-missing", "remote Spawn succeeded but %s is not in the target system", wireName)
			}
			got = node.value()
		}
		defer func() { _ = got.Shutdown(context.Background()) }()

		c37Compare(x, c, ref, got)

		nonDefault := 0
		for _, b := range []bool{c.PassKind != 0, c.Reentrancy, c.Stash, c.HasRole, len(c.Deps) > 0, c.InitTimeout > 0, c.NoRelocate, c.Sup != nil && (c.Sup.Retry || c.Sup.Backoff || c.Sup.Strategy == 1)} {
			if b {
				nonDefault++
			}
		}
		if c.Sup != nil && len(c.Sup.Rules) >= 2 && nonDefault >= 3 {
			x.NonTrivial()
		}
		if c.Sup == nil {
			x.Class("sup_default")
		}
	}
}

func TestVF_C37_e2e(t *testing.T) {
	fix := c37Fixtures(t)
	vfkit.Run(t, vfkit.Spec[c37E2ECase]{
		ID: "C37", Unit: "e2e",
		Rule: "cases = path (relocation: toSerialize -> wire -> wireSpawnOptions -> Spawn on a second system | remote_spawn: Spawn with WithHostAndPort through the real loopback RPC and remoteSpawnHandler | remote_child: SpawnChild on a remote parent PID through RemoteSpawnChild, reference = local SpawnChild) x spawn options (supervisor with 0..5 rules/any-error/retry/backoff or system default; passivation unset/time/count/long-lived; reentrancy; stash; role; 0..3 dependencies; init timeout; relocation disabled); the resulting PID is compared field by field with the PID of a local spawn with the same options; non-trivial = >= 2 directive rules and non-default values in >= 3 other dimensions. Two actor systems with remoting are started once per process (fixture) and stopped at the end; every case stops the actors it spawned",
		Gen:  c37GenE2E, Exec: c37ExecE2E(fix),
	})
}

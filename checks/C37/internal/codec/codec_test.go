//go:build verif

package codec

import (
	"encoding/json"
	"errors"
	"fmt"
	"io/fs"
	"math"
	"net"
	"sort"
	"strings"
	"testing"
	"time"

	"google.golang.org/protobuf/proto"
	"pgregory.net/rapid"

	gerrors "github.com/tochemey/goakt/v4/errors"
	"github.com/tochemey/goakt/v4/extension"
	"github.com/tochemey/goakt/v4/internal/internalpb"
	"github.com/tochemey/goakt/v4/internal/types"
	"github.com/tochemey/goakt/v4/internal/vfkit"
	"github.com/tochemey/goakt/v4/passivation"
	"github.com/tochemey/goakt/v4/reentrancy"
	"github.com/tochemey/goakt/v4/supervisor"
)

// ---------------------------------------------------------------------------
// C37 / codec: Decode(wire(Encode(x))) is observationally equal to x for the
// supervisor (every getter, rules as a set, directive lookup per error type),
// the passivation strategy, the reentrancy configuration and dependencies.
// "wire" is a real proto.Marshal / proto.Unmarshal of the message that carries
// the encoded value (internalpb.Actor, as used by relocation).
// ---------------------------------------------------------------------------

type c37ErrA struct{}
type c37ErrB struct{ N int }
type c37ErrC struct{}

func (*c37ErrA) Error() string { return "a" }
func (c37ErrB) Error() string  { return "b" }
func (*c37ErrC) Error() string { return "c" }

// c37ErrKinds are the error values directive rules are registered for.
var c37ErrKinds = []string{"A", "B", "C", "panic", "internal", "spawn", "opError", "pathError", "errorString", "wrapped", "nilPanic"}

func c37ErrValue(kind string) error {
	switch kind {
	case "A":
		return &c37ErrA{}
	case "B":
		return c37ErrB{N: 1}
	case "C":
		return &c37ErrC{}
	case "panic":
		return gerrors.NewPanicError(errors.New("x"))
	case "internal":
		return gerrors.NewInternalError(errors.New("x"))
	case "spawn":
		return gerrors.NewSpawnError(errors.New("x"))
	case "opError":
		return &net.OpError{Op: "dial"}
	case "pathError":
		return &fs.PathError{Op: "open", Path: "/x", Err: errors.New("x")}
	case "errorString":
		return errors.New("plain")
	case "wrapped":
		return fmt.Errorf("w: %w", errors.New("x"))
	case "nilPanic":
		return new(runtimePanicNil)
	}
	panic("c37: unknown error kind " + kind)
}

// runtimePanicNil stands for an arbitrary additional user type (the name is irrelevant).
type runtimePanicNil struct{}

func (*runtimePanicNil) Error() string { return "nil panic" }

type c37Rule struct {
	Err string `json:"err"`
	Dir int    `json:"dir"` // 0 stop 1 resume 2 restart 3 escalate
}

type c37SupSpec struct {
	Strategy   int       `json:"strategy"` // 0 one-for-one, 1 one-for-all
	Rules      []c37Rule `json:"rules"`    // WithDirective, in order
	AnyErr     int       `json:"any_err"`  // -1 none, else directive
	AnyPos     int       `json:"any_pos"`  // position of WithAnyErrorDirective among the options
	Retry      bool      `json:"retry"`
	MaxRetries uint32    `json:"max_retries"`
	Timeout    int64     `json:"timeout"`
	Backoff    bool      `json:"backoff"`
	Initial    int64     `json:"initial"`
	Max        int64     `json:"max"`
	ResetAfter int64     `json:"reset_after"`
	ByType     []c37Rule `json:"by_type"` // SetDirectiveByType after construction (only without any-error)
}

type c37DepSpec struct {
	ID    string `json:"id"`
	Value string `json:"value"`
	Count int64  `json:"count"`
	Kind  int    `json:"kind"` // 0: c37DepA, 1: c37DepB
}

type c37CodecCase struct {
	Sup         *c37SupSpec  `json:"sup"`
	PassKind    int          `json:"pass_kind"` // 0 nil, 1 time, 2 count, 3 long-lived
	PassNanos   int64        `json:"pass_nanos"`
	PassCount   int64        `json:"pass_count"`
	Reentrancy  bool         `json:"reentrancy"`
	Mode        int          `json:"mode"`
	MaxInFlight int64        `json:"max_in_flight"`
	Deps        []c37DepSpec `json:"deps"`
}

func c37GenDuration(t *rapid.T, label string, allowNonPositive bool) int64 {
	gens := []*rapid.Generator[int64]{
		rapid.Int64Range(1, int64(10*time.Second)),
		rapid.SampledFrom([]int64{1, 999, 1000, int64(time.Millisecond), int64(time.Second), int64(time.Second) + 1, int64(time.Minute), int64(24 * time.Hour), math.MaxInt64, math.MaxInt64 - 1, 1 << 32, 1<<31 - 1, 999_999_999, 1_000_000_001}),
		rapid.Int64Range(1, math.MaxInt64),
	}
	if allowNonPositive {
		gens = append(gens, rapid.SampledFrom([]int64{0, -1, -int64(time.Second), -int64(time.Second) - 1, -999_999_999, math.MinInt64, math.MinInt64 + 1}), rapid.Int64Range(math.MinInt64, 0))
	}
	return rapid.OneOf(gens...).Draw(t, label)
}

func c37GenSup(t *rapid.T) *c37SupSpec {
	s := &c37SupSpec{AnyErr: -1}
	s.Strategy = rapid.IntRange(0, 1).Draw(t, "strategy")
	n := rapid.IntRange(0, 5).Draw(t, "rules_n")
	kinds := rapid.Permutation(c37ErrKinds).Draw(t, "rule_kinds")
	for i := 0; i < n; i++ {
		s.Rules = append(s.Rules, c37Rule{Err: kinds[i], Dir: rapid.IntRange(0, 3).Draw(t, "rule_dir")})
	}
	if rapid.IntRange(0, 3).Draw(t, "any") == 0 {
		s.AnyErr = rapid.IntRange(0, 3).Draw(t, "any_dir")
		s.AnyPos = rapid.IntRange(0, n).Draw(t, "any_pos")
	}
	if rapid.IntRange(0, 2).Draw(t, "retry") > 0 {
		s.Retry = true
		s.MaxRetries = rapid.OneOf(rapid.Uint32Range(0, 10), rapid.SampledFrom([]uint32{0, 1, math.MaxInt32, math.MaxInt32 + 1, math.MaxUint32})).Draw(t, "max_retries")
		s.Timeout = c37GenDuration(t, "timeout", true)
	}
	if rapid.IntRange(0, 2).Draw(t, "backoff") > 0 {
		s.Backoff = true
		s.Initial = c37GenDuration(t, "initial", false)
		switch rapid.IntRange(0, 3).Draw(t, "max_kind") {
		case 0:
			s.Max = s.Initial
		case 1:
			s.Max = c37GenDuration(t, "max_lt", true) // may be < initial: documented to be raised
		default:
			s.Max = rapid.Int64Range(s.Initial, math.MaxInt64).Draw(t, "max")
		}
		s.ResetAfter = c37GenDuration(t, "reset_after", true)
	}
	if s.AnyErr < 0 && rapid.IntRange(0, 3).Draw(t, "by_type") == 0 {
		// configuration-driven rules by type name (documented use of SetDirectiveByType)
		k := rapid.IntRange(1, 2).Draw(t, "by_type_n")
		for i := 0; i < k; i++ {
			name := rapid.SampledFrom([]string{"github.com/acme/pkg.MyError", "net.OpError", "pkg.Err", "codec.c37ErrA", "x", "Ünïcode.Err", "a b"}).Draw(t, "by_type_name")
			s.ByType = append(s.ByType, c37Rule{Err: name, Dir: rapid.IntRange(0, 3).Draw(t, "by_type_dir")})
		}
	}
	return s
}

func c37GenCodec(t *rapid.T) c37CodecCase {
	var c c37CodecCase
	if rapid.IntRange(0, 9).Draw(t, "has_sup") > 0 {
		c.Sup = c37GenSup(t)
	}
	c.PassKind = rapid.IntRange(0, 3).Draw(t, "pass_kind")
	c.PassNanos = c37GenDuration(t, "pass_nanos", true)
	c.PassCount = rapid.OneOf(rapid.Int64Range(0, 100), rapid.SampledFrom([]int64{0, 1, -1, math.MaxInt32, math.MaxInt32 + 1, math.MaxInt64, math.MinInt64}), rapid.Int64()).Draw(t, "pass_count")
	c.Reentrancy = rapid.Bool().Draw(t, "reentrancy")
	c.Mode = rapid.IntRange(0, 2).Draw(t, "mode")
	// the wire field is a uint32 and EncodeReentrancy documents the clamp; limits
	// above 2^32-1 in-flight requests are not a meaningful configuration
	c.MaxInFlight = rapid.OneOf(rapid.Int64Range(-3, 64), rapid.SampledFrom([]int64{0, 1, -1, math.MinInt64, math.MaxInt32, math.MaxInt32 + 1, math.MaxUint32 - 1, math.MaxUint32}), rapid.Int64Range(0, math.MaxUint32)).Draw(t, "max_in_flight")
	nd := rapid.IntRange(0, 3).Draw(t, "deps_n")
	seen := map[string]bool{}
	for i := 0; i < nd; i++ {
		id := rapid.StringMatching(`[a-zA-Z0-9][a-zA-Z0-9_-]{1,12}`).Draw(t, "dep_id")
		if seen[id] {
			continue
		}
		seen[id] = true
		c.Deps = append(c.Deps, c37DepSpec{ID: id, Value: rapid.StringN(0, 12, 48).Draw(t, "dep_value"), Count: rapid.Int64().Draw(t, "dep_count"), Kind: rapid.IntRange(0, 1).Draw(t, "dep_kind")})
	}
	return c
}

// ---- test dependencies ---------------------------------------------------------

type c37DepA struct {
	Ident string `json:"id"`
	Value string `json:"value"`
	Count int64  `json:"count"`
}

func (d *c37DepA) ID() string                       { return d.Ident }
func (d *c37DepA) MarshalBinary() ([]byte, error)   { return json.Marshal(d) }
func (d *c37DepA) UnmarshalBinary(b []byte) error   { return json.Unmarshal(b, d) }

type c37DepB struct {
	Ident string `json:"id"`
	Value string `json:"value"`
	Count int64  `json:"count"`
}

func (d *c37DepB) ID() string                     { return d.Ident }
func (d *c37DepB) MarshalBinary() ([]byte, error) { return json.Marshal(d) }
func (d *c37DepB) UnmarshalBinary(b []byte) error { return json.Unmarshal(b, d) }

var (
	_ extension.Dependency = (*c37DepA)(nil)
	_ extension.Dependency = (*c37DepB)(nil)
)

// ---- building ----------------------------------------------------------------

var c37Dirs = []supervisor.Directive{supervisor.StopDirective, supervisor.ResumeDirective, supervisor.RestartDirective, supervisor.EscalateDirective}

func (s *c37SupSpec) build() *supervisor.Supervisor {
	var opts []supervisor.SupervisorOption
	if s.Strategy == 1 {
		opts = append(opts, supervisor.WithStrategy(supervisor.OneForAllStrategy))
	} else if len(s.Rules)%2 == 0 {
		opts = append(opts, supervisor.WithStrategy(supervisor.OneForOneStrategy))
	}
	for i, r := range s.Rules {
		if s.AnyErr >= 0 && s.AnyPos == i {
			opts = append(opts, supervisor.WithAnyErrorDirective(c37Dirs[s.AnyErr]))
		}
		opts = append(opts, supervisor.WithDirective(c37ErrValue(r.Err), c37Dirs[r.Dir]))
	}
	if s.AnyErr >= 0 && s.AnyPos >= len(s.Rules) {
		opts = append(opts, supervisor.WithAnyErrorDirective(c37Dirs[s.AnyErr]))
	}
	if s.Retry {
		opts = append(opts, supervisor.WithRetry(s.MaxRetries, time.Duration(s.Timeout)))
	}
	if s.Backoff {
		opts = append(opts, supervisor.WithExponentialBackoff(time.Duration(s.Initial), time.Duration(s.Max), time.Duration(s.ResetAfter)))
	}
	sup := supervisor.NewSupervisor(opts...)
	for _, r := range s.ByType {
		sup.SetDirectiveByType(r.Err, c37Dirs[r.Dir])
	}
	return sup
}

func c37RulesString(s *supervisor.Supervisor) string {
	rules := s.Rules()
	out := make([]string, 0, len(rules))
	for _, r := range rules {
		out = append(out, fmt.Sprintf("%s=>%s", r.ErrorType, r.Directive))
	}
	sort.Strings(out)
	return strings.Join(out, ", ")
}

// c37SupDiff compares two supervisors through the public getters only.
// Returns (fingerprint suffix, description) or ("", "").
func c37SupDiff(want, got *supervisor.Supervisor, probe []error) (string, string) {
	if (want == nil) != (got == nil) {
		return "nil-ness", fmt.Sprintf("supervisor nil-ness: sent %v, received %v", want != nil, got != nil)
	}
	if want == nil {
		return "", ""
	}
	if want.Strategy() != got.Strategy() {
		return "strategy", fmt.Sprintf("strategy %v != %v", want.Strategy(), got.Strategy())
	}
	if want.MaxRetries() != got.MaxRetries() {
		return "max-retries", fmt.Sprintf("max retries %d != %d", want.MaxRetries(), got.MaxRetries())
	}
	if want.Timeout() != got.Timeout() {
		return "timeout", fmt.Sprintf("timeout %d != %d", want.Timeout(), got.Timeout())
	}
	if a, b := c37RulesString(want), c37RulesString(got); a != b {
		return "rules", fmt.Sprintf("rules {%s} != {%s}", a, b)
	}
	wd, wok := want.AnyErrorDirective()
	gd, gok := got.AnyErrorDirective()
	if wok != gok || wd != gd {
		return "any-error", fmt.Sprintf("any-error directive (%v,%v) != (%v,%v)", wd, wok, gd, gok)
	}
	for _, e := range probe {
		wd, wok := want.Directive(e)
		gd, gok := got.Directive(e)
		if wok != gok || wd != gd {
			return "rules", fmt.Sprintf("Directive(%T) (%v,%v) != (%v,%v)", e, wd, wok, gd, gok)
		}
	}
	if want.InitialDelay() != got.InitialDelay() || want.MaxDelay() != got.MaxDelay() || want.BackoffResetAfter() != got.BackoffResetAfter() {
		return "backoff", fmt.Sprintf("exponential backoff (initial=%v max=%v resetAfter=%v) != (initial=%v max=%v resetAfter=%v)",
			want.InitialDelay(), want.MaxDelay(), want.BackoffResetAfter(), got.InitialDelay(), got.MaxDelay(), got.BackoffResetAfter())
	}
	return "", ""
}

func c37PassString(s passivation.Strategy) string {
	switch v := s.(type) {
	case nil:
		return "nil"
	case *passivation.TimeBasedStrategy:
		return fmt.Sprintf("time(%d)", v.Timeout())
	case *passivation.MessagesCountBasedStrategy:
		return fmt.Sprintf("count(%d)", v.MaxMessages())
	case *passivation.LongLivedStrategy:
		return "long-lived"
	}
	return fmt.Sprintf("%T", s)
}

const fpC37Backoff = "supervisor-backoff-lost-on-wire"

func c37ExecCodec(x *vfkit.X, c c37CodecCase) {
	actor := &internalpb.Actor{Address: "goakt://sys@127.0.0.1:9000/a", Type: "t"}
	nonDefault := 0

	// ---- encode ----
	var sup *supervisor.Supervisor
	if c.Sup != nil {
		sup = c.Sup.build()
		actor.Supervisor = EncodeSupervisor(sup)
		if actor.Supervisor == nil {
			x.Failf("supervisor-encoded-to-nil", "EncodeSupervisor returned nil for a non-nil supervisor")
		}
		if c.Sup.Retry || c.Sup.Backoff || c.Sup.Strategy == 1 {
			nonDefault++
		}
	} else if EncodeSupervisor(nil) != nil {
		x.Failf("supervisor-nil-ness", "EncodeSupervisor(nil) != nil")
	}
	var pass passivation.Strategy
	switch c.PassKind {
	case 1:
		pass = passivation.NewTimeBasedStrategy(time.Duration(c.PassNanos))
	case 2:
		pass = passivation.NewMessageCountBasedStrategy(int(c.PassCount))
	case 3:
		pass = passivation.NewLongLivedStrategy()
	}
	if c.PassKind != 0 {
		nonDefault++
	}
	actor.PassivationStrategy = EncodePassivationStrategy(pass)
	var re *reentrancy.Reentrancy
	if c.Reentrancy {
		re = reentrancy.New(reentrancy.WithMode(reentrancy.Mode(c.Mode)), reentrancy.WithMaxInFlight(int(c.MaxInFlight)))
		actor.Reentrancy = EncodeReentrancy(re)
		nonDefault++
	}
	var deps []extension.Dependency
	for _, d := range c.Deps {
		if d.Kind == 0 {
			deps = append(deps, &c37DepA{Ident: d.ID, Value: d.Value, Count: d.Count})
		} else {
			deps = append(deps, &c37DepB{Ident: d.ID, Value: d.Value, Count: d.Count})
		}
	}
	if len(deps) > 0 {
		nonDefault++
		enc, err := EncodeDependencies(deps...)
		if err != nil {
			x.Failf("dependencies-encode-error", "EncodeDependencies: %v", err)
		}
		actor.Dependencies = enc
	}

	// ---- the wire ----
	raw, err := proto.Marshal(actor)
	if err != nil {
		x.Failf("wire-marshal-error", "proto.Marshal(internalpb.Actor): %v", err)
	}
	back := new(internalpb.Actor)
	if err := proto.Unmarshal(raw, back); err != nil {
		x.Failf("wire-unmarshal-error", "proto.Unmarshal(internalpb.Actor): %v", err)
	}

	// ---- decode + compare ----
	if c.Sup != nil {
		var probe []error
		for _, k := range c37ErrKinds {
			probe = append(probe, c37ErrValue(k))
		}
		probe = append(probe, new(gerrors.AnyError))
		got := DecodeSupervisor(back.GetSupervisor())
		what, diff := c37SupDiff(sup, got, probe)
		if what == "backoff" && x.Known(fpC37Backoff) {
			// listed finding: the wire format has no backoff fields; compare the rest
			x.Class("known_backoff_loss_tolerated")
			what, diff = "", ""
		}
		if what != "" {
			fp := "supervisor-" + what + "-not-equal"
			if what == "backoff" {
				fp = fpC37Backoff
			}
			x.Failf(fp, "supervisor %+v: %s", *c.Sup, diff)
		}
		if c.Sup.AnyErr >= 0 {
			x.Class("sup_any_error")
		}
		if c.Sup.Backoff {
			x.Class("sup_backoff")
		}
		if c.Sup.Retry {
			x.Class("sup_retry")
		}
		if len(c.Sup.ByType) > 0 {
			x.Class("sup_by_type_rules")
		}
		if len(c.Sup.Rules)+len(c.Sup.ByType) >= 2 && nonDefault >= 3 {
			x.NonTrivial()
		}
	} else {
		if DecodeSupervisor(back.GetSupervisor()) != nil {
			x.Failf("supervisor-nil-ness", "no supervisor sent, one received")
		}
		x.Class("sup_nil")
	}

	if a, b := c37PassString(pass), c37PassString(DecodePassivationStrategy(back.GetPassivationStrategy())); a != b {
		x.Failf("passivation-strategy-not-equal", "passivation strategy sent %s, received %s", a, b)
	}
	x.Class("pass_" + []string{"nil", "time", "count", "long_lived"}[c.PassKind])

	gotRe := DecodeReentrancy(back.GetReentrancy())
	if (re == nil) != (gotRe == nil) {
		x.Failf("reentrancy-nil-ness", "reentrancy sent %v, received %v", re != nil, gotRe != nil)
	}
	if re != nil && (re.Mode() != gotRe.Mode() || re.MaxInFlight() != gotRe.MaxInFlight()) {
		x.Failf("reentrancy-not-equal", "reentrancy sent (mode=%d maxInFlight=%d), received (mode=%d maxInFlight=%d)", re.Mode(), re.MaxInFlight(), gotRe.Mode(), gotRe.MaxInFlight())
	}

	if len(deps) > 0 {
		reg := types.NewRegistry()
		reg.Register(new(c37DepA))
		reg.Register(new(c37DepB))
		gotDeps, err := DecodeDependencies(reg, back.GetDependencies()...)
		if err != nil {
			x.Failf("dependencies-decode-error", "DecodeDependencies: %v", err)
		}
		if len(gotDeps) != len(deps) {
			x.Failf("dependencies-not-equal", "sent %d dependencies, received %d", len(deps), len(gotDeps))
		}
		for i := range deps {
			a, _ := deps[i].MarshalBinary()
			b, _ := gotDeps[i].MarshalBinary()
			if fmt.Sprintf("%T", deps[i]) != fmt.Sprintf("%T", gotDeps[i]) || deps[i].ID() != gotDeps[i].ID() || string(a) != string(b) {
				x.Failf("dependencies-not-equal", "dependency %d: sent %T %s, received %T %s", i, deps[i], a, gotDeps[i], b)
			}
		}
		// an unregistered dependency type is an error, never a silent drop
		empty := types.NewRegistry()
		if g, err := DecodeDependencies(empty, back.GetDependencies()...); err == nil {
			x.Failf("dependencies-unregistered-type-accepted", "DecodeDependencies with an empty registry returned %d dependencies and no error", len(g))
		}
		x.Class("deps")
	}
}

func TestVF_C37_codec(t *testing.T) {
	vfkit.Run(t, vfkit.Spec[c37CodecCase]{
		ID: "C37", Unit: "codec",
		Rule: "cases = supervisor (strategy; 0..5 WithDirective rules over 11 error types incl. overriding the defaults; any-error directive at a generated option position; WithRetry incl. 0/max uint32 and non-positive timeouts; WithExponentialBackoff incl. max<initial and resetAfter<=0; SetDirectiveByType rules) | nil, passivation in {nil,time(d),count(n),long-lived}, reentrancy (mode, maxInFlight<=2^32-1) | nil, 0..3 dependencies; encoded into internalpb.Actor, proto-marshalled, unmarshalled, decoded; non-trivial = >= 2 directive rules and non-default values in >= 3 other dimensions",
		Gen:  c37GenCodec, Exec: c37ExecCodec,
	})
}

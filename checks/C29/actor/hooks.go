//go:build verif

package actor

import "google.golang.org/protobuf/proto"

// c29TellHook is called at the top of actorSystem.remoteTellHandler (prologue
// injected by the /verif build overlay, see checks/C29/check.json). It lets the
// check observe which messages share one wire batch and hold a batch at the
// receiver so that the sender's coalescer accumulates the following messages.
var c29TellHook func(x *actorSystem, req proto.Message)

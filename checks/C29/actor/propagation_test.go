//go:build verif

package actor

import (
	"context"
	"errors"
	"fmt"
	stdnet "net"
	nethttp "net/http"
	"os"
	"sort"
	"strconv"
	"strings"
	"sync"
	"sync/atomic"
	"testing"
	"time"

	"google.golang.org/protobuf/proto"
	"pgregory.net/rapid"

	gerrors "github.com/tochemey/goakt/v4/errors"
	"github.com/tochemey/goakt/v4/internal/address"
	"github.com/tochemey/goakt/v4/internal/internalpb"
	inet "github.com/tochemey/goakt/v4/internal/net"
	"github.com/tochemey/goakt/v4/internal/remoteclient"
	"github.com/tochemey/goakt/v4/internal/vfkit"
	"github.com/tochemey/goakt/v4/log"
	"github.com/tochemey/goakt/v4/remote"
	"github.com/tochemey/goakt/v4/test/data/testpb"
)

// ---------------------------------------------------------------------------
// C29: two real actor systems on loopback, both configured with a test
// ContextPropagator that copies a header map from a context value into the
// carrier (Inject) and stores the received headers in the context (Extract).
// Concurrent callers send messages with their own header map per call through
//   phase 1  RemoteTell on a coalescing client (the system's own client with
//            maxBatch 256, or a client with maxBatch 2 / 8, or coalescing off);
//            the first wire batch of the case is held at the receiver until all
//            tells are enqueued, so later batches mix messages of several callers
//   phase 2  RemoteAsk / RemoteBatchTell / RemoteBatchAsk (request-level metadata)
// The receiving actor records (token, headers found in ReceiveContext.Context()).
// Oracle: for every delivered token the recorded headers equal the map given to
// that call.
// ---------------------------------------------------------------------------

type c29Key struct{}

type c29Prop struct{}

func (c29Prop) Inject(ctx context.Context, headers nethttp.Header) error {
	if m, ok := ctx.Value(c29Key{}).(map[string]string); ok {
		for k, v := range m {
			headers.Set(k, v)
		}
	}
	return nil
}

func (c29Prop) Extract(ctx context.Context, headers nethttp.Header) (context.Context, error) {
	m := make(map[string]string, len(headers))
	for k, vs := range headers {
		m[k] = strings.Join(vs, "\x00")
	}
	return context.WithValue(ctx, c29Key{}, m), nil
}

type c29Header struct {
	K string `json:"k"`
	V string `json:"v"`
}

type c29Call struct {
	Kind    int           `json:"kind"`   // phase 1: 0 RemoteTell; phase 2: 1 RemoteAsk, 2 RemoteBatchTell, 3 RemoteBatchAsk
	Target  int           `json:"target"` // receiver actor 0/1
	N       int           `json:"n"`      // messages of a batch call
	Headers []c29Header   `json:"headers"`
}

type c29Case struct {
	Client  int         `json:"client"` // 0 the sending system's own client (maxBatch 256), 1 maxBatch 2, 2 maxBatch 8, 3 coalescing off
	Tells   [][]c29Call `json:"tells"`  // per caller: its RemoteTell calls (phase 1)
	Others  [][]c29Call `json:"others"` // per caller: its phase 2 calls
	Gate    bool        `json:"gate"`
}

var c29KeyPool = []string{"Traceparent", "Tracestate", "Baggage", "Authorization", "X-Request-Id", "X-Tenant", "X-B3-Traceid", "Uber-Trace-Id", "A", "Z-9"}

func c29GenHeaders(t *rapid.T) []c29Header {
	n := rapid.SampledFrom([]int{0, 1, 1, 2, 3, 6}).Draw(t, "nh")
	seen := map[string]bool{}
	var out []c29Header
	for i := 0; i < n; i++ {
		var k string
		if rapid.Bool().Draw(t, "pool_key") {
			k = rapid.SampledFrom(c29KeyPool).Draw(t, "key")
		} else {
			k = nethttp.CanonicalHeaderKey(rapid.StringMatching(`[A-Za-z][A-Za-z0-9]{0,6}(-[A-Za-z0-9]{1,6}){0,2}`).Draw(t, "key"))
		}
		if seen[k] {
			continue
		}
		seen[k] = true
		v := rapid.OneOf(
			rapid.StringMatching(`[ -~]{0,40}`),
			rapid.StringMatching(`[ -~]{150,200}`),
			rapid.SampledFrom([]string{"", " ", "00-4bf92f3577b34da6a3ce929d0e0e4736-00f067aa0ba902b7-01", "k1=v1,k2=v2;p=1", "ünïcödé ✓", "a\tb"}),
		).Draw(t, "value")
		out = append(out, c29Header{K: k, V: v})
	}
	return out
}

func c29Gen(t *rapid.T) c29Case {
	var c c29Case
	c.Client = rapid.SampledFrom([]int{0, 1, 1, 2, 2, 3}).Draw(t, "client")
	c.Gate = c.Client != 3 && rapid.IntRange(0, 4).Draw(t, "gate") > 0
	callers := rapid.IntRange(1, 8).Draw(t, "callers")
	for i := 0; i < callers; i++ {
		var tells, others []c29Call
		nt := rapid.IntRange(0, 4).Draw(t, "tells")
		for j := 0; j < nt; j++ {
			tells = append(tells, c29Call{Kind: 0, Target: rapid.IntRange(0, 1).Draw(t, "target"), N: 1, Headers: c29GenHeaders(t)})
		}
		no := rapid.IntRange(0, 2).Draw(t, "others")
		for j := 0; j < no; j++ {
			call := c29Call{Kind: rapid.IntRange(1, 3).Draw(t, "kind"), Target: rapid.IntRange(0, 1).Draw(t, "target"), N: 1, Headers: c29GenHeaders(t)}
			if call.Kind >= 2 {
				call.N = rapid.IntRange(1, 4).Draw(t, "n")
			}
			others = append(others, call)
		}
		c.Tells = append(c.Tells, tells)
		c.Others = append(c.Others, others)
	}
	return c
}

type c29State struct {
	nonce string

	mu       sync.Mutex
	cond     *sync.Cond
	seen     map[string]map[string]string // token -> headers at the receiver (nil map when the context carried none)
	seenN    map[string]int
	batches  [][]string // tokens per RemoteTellRequest received by system B
	gateOpen chan struct{}
	gated    bool
	endCh    chan struct{}
}

var (
	c29Cur   atomic.Pointer[c29State]
	c29Seq   atomic.Int64
	c29Codec = remote.NewProtoSerializer()
)

type c29Recv struct{}

func (*c29Recv) PreStart(*Context) error { return nil }
func (*c29Recv) PostStop(*Context) error { return nil }
func (*c29Recv) Receive(ctx *ReceiveContext) {
	m, ok := ctx.Message().(*testpb.Reply)
	if !ok {
		return
	}
	tok := m.GetContent()
	if st := c29Cur.Load(); st != nil && strings.HasPrefix(tok, st.nonce+"|") {
		var hdr map[string]string
		if v, ok := ctx.Context().Value(c29Key{}).(map[string]string); ok {
			hdr = make(map[string]string, len(v))
			for k, val := range v {
				hdr[k] = val
			}
		}
		st.mu.Lock()
		st.seen[tok] = hdr
		st.seenN[tok]++
		st.cond.Broadcast()
		st.mu.Unlock()
	}
	if strings.Contains(tok, "|ask|") {
		ctx.Response(&testpb.Reply{Content: tok})
	}
}

func c29Hook(x *actorSystem, req proto.Message) {
	r, ok := req.(*internalpb.RemoteTellRequest)
	if !ok {
		return
	}
	st := c29Cur.Load()
	if st == nil {
		return
	}
	var toks []string
	for _, m := range r.GetRemoteMessages() {
		if v, err := c29Codec.Deserialize(m.GetMessage()); err == nil {
			if rep, ok := v.(*testpb.Reply); ok {
				toks = append(toks, rep.GetContent())
			}
		}
	}
	if len(toks) == 0 || !strings.HasPrefix(toks[0], st.nonce+"|") {
		return
	}
	st.mu.Lock()
	st.batches = append(st.batches, toks)
	hold := st.gated && len(st.batches) == 1
	st.mu.Unlock()
	if hold {
		select {
		case <-st.gateOpen:
		case <-st.endCh:
		case <-time.After(30 * time.Second):
		}
	}
}

func (st *c29State) waitFor(limit time.Duration, pred func() bool) bool {
	deadline := time.Now().Add(limit)
	timer := time.AfterFunc(limit, func() { st.mu.Lock(); st.cond.Broadcast(); st.mu.Unlock() })
	defer timer.Stop()
	st.mu.Lock()
	defer st.mu.Unlock()
	for !pred() {
		if !time.Now().Before(deadline) {
			return false
		}
		st.cond.Wait()
	}
	return true
}

type c29Fixture struct {
	a, b    *actorSystem
	clients []remoteclient.Client
	from    *address.Address
	targets []*address.Address
	err     error
}

var (
	c29FixOnce sync.Once
	c29Fix     c29Fixture
)

func c29StartSystem(name string) (*actorSystem, error) {
	var lastErr error
	for attempt := 0; attempt < 5; attempt++ {
		port := inet.Get(1)[0]
		sys, err := NewActorSystem(name, WithLogger(log.DiscardLogger), WithRemote(remote.NewConfig("127.0.0.1", port, remote.WithContextPropagator(c29Prop{}))))
		if err != nil {
			return nil, err
		}
		if err := sys.Start(context.Background()); err != nil {
			lastErr = err
			continue
		}
		return sys.(*actorSystem), nil
	}
	return nil, lastErr
}

func c29Fixtures(t *testing.T) *c29Fixture {
	c29FixOnce.Do(func() {
		f := &c29Fix
		c29TellHook = c29Hook
		a, err := c29StartSystem("c29a")
		if err != nil {
			f.err = err
			return
		}
		b, err := c29StartSystem("c29b")
		if err != nil {
			_ = a.Stop(context.Background())
			f.err = err
			return
		}
		f.a, f.b = a, b
		t.Cleanup(func() {
			_ = a.Stop(context.Background())
			_ = b.Stop(context.Background())
		})
		ctx := context.Background()
		for i := 0; i < 2; i++ {
			pid, err := b.Spawn(ctx, "c29-recv-"+strconv.Itoa(i), &c29Recv{}, WithLongLived())
			if err != nil {
				f.err = err
				return
			}
			f.targets = append(f.targets, pid.getAddress())
		}
		sender, err := a.Spawn(ctx, "c29-sender", &c29Recv{}, WithLongLived())
		if err != nil {
			f.err = err
			return
		}
		f.from = sender.getAddress()
		f.clients = []remoteclient.Client{
			a.remoting,
			remoteclient.NewClient(remoteclient.WithClientContextPropagator(c29Prop{}), remoteclient.WithSendCoalescing(2)),
			remoteclient.NewClient(remoteclient.WithClientContextPropagator(c29Prop{}), remoteclient.WithSendCoalescing(8)),
			remoteclient.NewClient(remoteclient.WithClientContextPropagator(c29Prop{})),
		}
		t.Cleanup(func() {
			for _, cl := range f.clients[1:] {
				cl.Close()
			}
		})
	})
	return &c29Fix
}

func c29Map(h []c29Header) map[string]string {
	m := make(map[string]string, len(h))
	for _, e := range h {
		m[e.K] = e.V
	}
	return m
}

func c29Fmt(m map[string]string) string {
	if m == nil {
		return "<no headers in context>"
	}
	keys := make([]string, 0, len(m))
	for k := range m {
		keys = append(keys, k)
	}
	sort.Strings(keys)
	var sb strings.Builder
	sb.WriteString("{")
	for i, k := range keys {
		if i > 0 {
			sb.WriteString(", ")
		}
		fmt.Fprintf(&sb, "%q: %q", k, m[k])
	}
	sb.WriteString("}")
	return sb.String()
}

func c29Equal(want, got map[string]string) bool {
	if len(want) != len(got) {
		return false
	}
	for k, v := range want {
		if g, ok := got[k]; !ok || g != v {
			return false
		}
	}
	return true
}

func c29Transient(err error) bool {
	var ne stdnet.Error
	var oe *stdnet.OpError
	return errors.Is(err, context.DeadlineExceeded) || errors.Is(err, os.ErrDeadlineExceeded) || errors.Is(err, gerrors.ErrRequestTimeout) ||
		(errors.As(err, &ne) && ne.Timeout()) || (errors.As(err, &oe) && oe.Op == "dial")
}

func c29Exec(fix *c29Fixture) func(x *vfkit.X, c c29Case) {
	return func(x *vfkit.X, c c29Case) {
		if fix.err != nil {
			x.Class("infra_unavailable")
			x.Logf("fixture: %v", fix.err)
			return
		}
		st := &c29State{nonce: "c29-" + strconv.FormatInt(c29Seq.Add(1), 10), seen: map[string]map[string]string{}, seenN: map[string]int{}, gateOpen: make(chan struct{}), endCh: make(chan struct{}), gated: c.Gate}
		st.cond = sync.NewCond(&st.mu)
		c29Cur.Store(st)
		var once sync.Once
		open := func() { once.Do(func() { close(st.gateOpen) }) }
		defer func() { open(); close(st.endCh); c29Cur.Store(nil) }()
		cl := fix.clients[c.Client]

		type sent struct {
			tok    string
			caller int
			kind   int
			want   map[string]string
			ok     bool // the call returned nil
		}
		var smu sync.Mutex
		var all []*sent
		record := func(s *sent) { smu.Lock(); all = append(all, s); smu.Unlock() }
		var errs []string

		// ---- phase 1: coalesced tells ---------------------------------------------
		// the held batch is released once every tell is enqueued, or once so many are enqueued
		// that the sender's bounded queue (4*maxBatch) is about to block the callers
		totalTells := 0
		for _, calls := range c.Tells {
			totalTells += len(calls)
		}
		threshold := totalTells
		if mb := []int{256, 2, 8, 0}[c.Client]; mb > 0 && threshold > 4*mb {
			threshold = 4 * mb
		}
		var returned atomic.Int64
		var wg sync.WaitGroup
		start := make(chan struct{})
		for ci, calls := range c.Tells {
			wg.Add(1)
			go func(ci int, calls []c29Call) {
				defer wg.Done()
				<-start
				for j, call := range calls {
					want := c29Map(call.Headers)
					tok := fmt.Sprintf("%s|tell|%d|%d", st.nonce, ci, j)
					ctx := context.WithValue(context.Background(), c29Key{}, want)
					err := cl.RemoteTell(ctx, fix.from, fix.targets[call.Target], &testpb.Reply{Content: tok})
					record(&sent{tok: tok, caller: ci, kind: 0, want: want, ok: err == nil})
					if returned.Add(1) >= int64(threshold) {
						open()
					}
					if err != nil {
						smu.Lock()
						errs = append(errs, err.Error())
						smu.Unlock()
					}
				}
			}(ci, calls)
		}
		close(start)
		wg.Wait()
		open() // every tell is enqueued: let the held batch go, the next ones carry what has piled up

		// ---- phase 2: request/response and explicit batches -------------------------
		start2 := make(chan struct{})
		for ci, calls := range c.Others {
			wg.Add(1)
			go func(ci int, calls []c29Call) {
				defer wg.Done()
				<-start2
				for j, call := range calls {
					want := c29Map(call.Headers)
					ctx := context.WithValue(context.Background(), c29Key{}, want)
					to := fix.targets[call.Target]
					var err error
					var toks []string
					switch call.Kind {
					case 1:
						toks = []string{fmt.Sprintf("%s|ask|%d|%d|0", st.nonce, ci, j)}
						_, err = cl.RemoteAsk(ctx, fix.from, to, &testpb.Reply{Content: toks[0]}, 20*time.Second)
					case 2:
						msgs := make([]any, call.N)
						for k := range msgs {
							toks = append(toks, fmt.Sprintf("%s|btell|%d|%d|%d", st.nonce, ci, j, k))
							msgs[k] = &testpb.Reply{Content: toks[k]}
						}
						err = cl.RemoteBatchTell(ctx, fix.from, to, msgs)
					default:
						msgs := make([]any, call.N)
						for k := range msgs {
							toks = append(toks, fmt.Sprintf("%s|ask|%d|%d|%d", st.nonce, ci, j, k))
							msgs[k] = &testpb.Reply{Content: toks[k]}
						}
						_, err = cl.RemoteBatchAsk(ctx, fix.from, to, msgs, 20*time.Second)
					}
					for _, tok := range toks {
						record(&sent{tok: tok, caller: ci, kind: call.Kind, want: want, ok: err == nil})
					}
					if err != nil {
						smu.Lock()
						errs = append(errs, err.Error())
						smu.Unlock()
					}
				}
			}(ci, calls)
		}
		close(start2)
		wg.Wait()

		// ---- barrier: one last tell per target through the same client --------------
		for ti, to := range fix.targets {
			bar := fmt.Sprintf("%s|bar|%d", st.nonce, ti)
			if err := cl.RemoteTell(context.Background(), fix.from, to, &testpb.Reply{Content: bar}); err != nil {
				x.Class("inconclusive_barrier_refused")
				return
			}
			if !st.waitFor(20*time.Second, func() bool { _, ok := st.seen[bar]; return ok }) {
				x.Class("inconclusive_stall_barrier")
				return
			}
		}
		// explicit batch tells run on their own connections: wait for those whose call succeeded
		if !st.waitFor(20*time.Second, func() bool {
			for _, s := range all {
				if s.ok && s.kind == 2 {
					if _, ok := st.seen[s.tok]; !ok {
						return false
					}
				}
			}
			return true
		}) {
			x.Class("inconclusive_stall_batch_tell")
			return
		}

		// ---- judge ------------------------------------------------------------------
		st.mu.Lock()
		defer st.mu.Unlock()
		x.Logf("case %s: client=%d gate=%v tell batches=%v errors=%v", st.nonce, c.Client, c.Gate, st.batches, errs)
		kinds := []string{"RemoteTell", "RemoteAsk", "RemoteBatchTell", "RemoteBatchAsk"}
		wantOf := map[string]*sent{}
		delivered := 0
		for _, s := range all {
			wantOf[s.tok] = s
			got, ok := st.seen[s.tok]
			if !ok {
				if s.ok {
					x.Class("accepted_not_delivered")
				}
				continue
			}
			delivered++
			if !c29Equal(s.want, got) {
				// whose headers are these?
				whose := "nobody's"
				for _, o := range all {
					if o != s && len(o.want) > 0 && c29Equal(o.want, got) {
						whose = fmt.Sprintf("those of %s (caller %d)", o.tok, o.caller)
						break
					}
				}
				fp := "headers-differ-" + strings.ToLower(kinds[s.kind])
				x.Failf(fp, "%s %q (caller %d, client %d): injected %s, the receiving actor's context carried %s (%s); wire batches of tells: %v",
					kinds[s.kind], s.tok, s.caller, c.Client, c29Fmt(s.want), c29Fmt(got), whose, st.batches)
			}
			x.Class("checked_" + kinds[s.kind])
		}
		// non-trivial: two callers with different maps shared one wire batch of tells
		shared := false
		for _, b := range st.batches {
			for i := 0; i < len(b) && !shared; i++ {
				for j := i + 1; j < len(b); j++ {
					si, sj := wantOf[b[i]], wantOf[b[j]]
					if si != nil && sj != nil && si.caller != sj.caller && !c29Equal(si.want, sj.want) {
						shared = true
						break
					}
				}
			}
			if len(b) > 1 {
				x.Class("wire_batch_gt_1")
			}
		}
		x.Class(fmt.Sprintf("client_%d", c.Client))
		if shared && delivered > 0 {
			x.Class("callers_shared_a_batch")
			x.NonTrivial()
		}
	}
}

func TestVF_C29_propagation(t *testing.T) {
	fix := c29Fixtures(t)
	vfkit.Run(t, vfkit.Spec[c29Case]{
		ID: "C29", Unit: "propagation",
		Rule: "cases = 1..8 concurrent callers x 0..4 RemoteTell calls (phase 1) + 0..2 RemoteAsk / RemoteBatchTell / RemoteBatchAsk calls (phase 2), each call with its own header map (0..6 entries, canonical MIME keys, printable values up to 200 bytes incl. empty, unicode) handed to a test ContextPropagator through the context, sent through the sending system's own client (maxBatch 256) or a remoteclient with maxBatch 2 / 8 / coalescing off to two actors of a second real actor system on loopback; the first wire batch of tells is held inside remoteTellHandler (prologue hook) until all tells are enqueued so that later batches mix callers; the receiving actor records the headers its ReceiveContext.Context() carries per token and they must equal the map of that call. non-trivial = messages of two callers with different maps travelled in one RemoteTellRequest (observed by the hook) and were checked; distinct = distinct case",
		Gen:  c29Gen, Exec: c29Exec(fix),
		ReplayReps: 10,
	})
}

//go:build verif

package xsync

import (
	"fmt"
	"testing"
	"time"

	"pgregory.net/rapid"

	"github.com/tochemey/goakt/v4/internal/vfkit"
)

// C48: for any sequence of Set, Get, Delete and Reset operations and clock
// advances, Get returns the last value Set for a key exactly when that Set
// happened less than the TTL ago and no later Delete or Reset intervened; internal
// eviction and compaction never lose a live entry or revive an expired one.

const c48Keys = 10 // keys 0..9; the first four are used most

const (
	c48OpSet = iota
	c48OpGet
	c48OpDelete
	c48OpReset
	c48OpAdvance
	c48OpLen
	c48OpActiveLen
	c48OpSetRun // Set on Arg consecutive keys starting at Key (a write-once burst)
)

type c48Op struct {
	Kind int   `json:"k"`
	Key  int   `json:"key,omitempty"`
	Arg  int64 `json:"arg,omitempty"` // advance: ticks; set-run: number of keys
}

type c48Case struct {
	TTL int64   `json:"ttl"` // ticks (nanoseconds of the fake clock); may be <= 0
	Ops []c48Op `json:"ops"`
}

func c48GenKey(t *rapid.T) int {
	if rapid.IntRange(0, 3).Draw(t, "key_wide") == 0 {
		return rapid.IntRange(0, c48Keys-1).Draw(t, "key_any")
	}
	return rapid.IntRange(0, 3).Draw(t, "key")
}

func c48Gen(t *rapid.T) c48Case {
	var c c48Case
	c.TTL = rapid.SampledFrom([]int64{1, 2, 10, 10, 10, 1000, 1000, 0, -5}).Draw(t, "ttl")
	ttl := c.TTL
	if ttl < 1 {
		ttl = 1
	}
	n := rapid.IntRange(1, 120).Draw(t, "nops")
	for i := 0; i < n; i++ {
		var op c48Op
		switch rapid.IntRange(0, 19).Draw(t, "op") {
		case 0, 1, 2, 3, 4, 5:
			op = c48Op{Kind: c48OpSet, Key: c48GenKey(t)}
		case 6, 7, 8, 9:
			op = c48Op{Kind: c48OpGet, Key: c48GenKey(t)}
		case 10, 11:
			op = c48Op{Kind: c48OpDelete, Key: c48GenKey(t)}
		case 12, 13, 14, 15:
			var d int64
			switch rapid.IntRange(0, 7).Draw(t, "adv_kind") {
			case 0:
				d = 0
			case 1:
				d = 1
			case 2:
				d = ttl - 1
			case 3:
				d = ttl
			case 4:
				d = ttl + 1
			case 5:
				d = 2*ttl + 1
			case 6:
				d = (ttl + 1) / 2
			default:
				d = rapid.Int64Range(0, 2*ttl).Draw(t, "adv")
			}
			op = c48Op{Kind: c48OpAdvance, Arg: d}
		case 16:
			op = c48Op{Kind: c48OpLen}
		case 17:
			op = c48Op{Kind: c48OpActiveLen}
		case 18:
			op = c48Op{Kind: c48OpSetRun, Key: rapid.IntRange(0, c48Keys-1).Draw(t, "run_from"), Arg: int64(rapid.IntRange(2, c48Keys).Draw(t, "run_n"))}
		default:
			if rapid.IntRange(0, 3).Draw(t, "reset") == 0 {
				op = c48Op{Kind: c48OpReset}
			} else {
				op = c48Op{Kind: c48OpGet, Key: c48GenKey(t)}
			}
		}
		c.Ops = append(c.Ops, op)
	}
	return c
}

// c48Model is the specification: a map with per-key expiry, written from the
// property statement.
type c48Entry struct {
	val   int
	setAt int64
}

type c48Model struct {
	ttl     int64
	now     int64
	entries map[int]c48Entry // keys Set and not Deleted/Reset since
}

func (m *c48Model) live(k int) (int, bool) {
	e, ok := m.entries[k]
	if !ok {
		return 0, false
	}
	// "that Set happened less than the TTL ago"
	if m.now-e.setAt < m.ttl {
		return e.val, true
	}
	return 0, false
}

func (m *c48Model) liveCount() int {
	n := 0
	for k := 0; k < c48Keys; k++ {
		if _, ok := m.live(k); ok {
			n++
		}
	}
	return n
}

func c48Exec(x *vfkit.X, c c48Case) {
	clock := int64(1_000_000)
	tm := NewTTLMap[int, int](time.Duration(c.TTL))
	tm.now = func() int64 { return clock }
	model := &c48Model{ttl: c.TTL, now: clock, entries: map[int]c48Entry{}}

	nextVal := 0
	var (
		compactions, compactionsWithSurvivors, slowCompactions int
		resetLive, deleteThenSet, getAfterExpiry              int
		liveGetsAfterCompaction                                int
	)
	deleted := map[int]bool{}

	// shadow inspects the implementation's state without calling any mutating
	// accessor: for every key the entry the index points at must agree with the model.
	shadow := func(step int, what string) {
		if tm.head < 0 || tm.head > len(tm.order) {
			x.Failf("ttl-head-out-of-range", "step %d (%s): head=%d len(order)=%d", step, what, tm.head, len(tm.order))
		}
		for k := 0; k < c48Keys; k++ {
			idx, mapped := tm.items[k]
			if mapped {
				if idx < 0 || idx >= len(tm.order) {
					x.Failf("ttl-index-dangling", "step %d (%s): items[%d]=%d outside order (len %d)", step, what, k, idx, len(tm.order))
				}
				if tm.order[idx].key != k {
					x.Failf("ttl-index-points-at-other-key", "step %d (%s): items[%d]=%d but that slot holds key %d", step, what, k, idx, tm.order[idx].key)
				}
				if idx < tm.head {
					x.Failf("ttl-index-below-head", "step %d (%s): items[%d]=%d is below head=%d (slot already swept)", step, what, k, idx, tm.head)
				}
			}
			wantVal, wantLive := model.live(k)
			implLive := mapped && clock < tm.order[idx].expireAt
			switch {
			case wantLive && !implLive:
				x.Failf("ttl-live-entry-lost", "step %d (%s): key %d was Set to %d at t=%d (now t=%d, ttl=%d) and must be live, but the map no longer holds a live entry for it (mapped=%v)", step, what, k, wantVal, model.entries[k].setAt, clock, c.TTL, mapped)
			case !wantLive && implLive:
				x.Failf("ttl-dead-entry-revived", "step %d (%s): key %d must be absent (expired, deleted or reset) at t=%d, but the map holds a live entry value=%d expireAt=%d", step, what, k, clock, tm.order[idx].value, tm.order[idx].expireAt)
			case wantLive && tm.order[idx].value != wantVal:
				x.Failf("ttl-stale-value", "step %d (%s): key %d holds value %d, last Set value is %d", step, what, k, tm.order[idx].value, wantVal)
			}
		}
		for k := range tm.items {
			if k < 0 || k >= c48Keys {
				x.Failf("ttl-foreign-key", "step %d (%s): index holds key %d that was never set", step, what, k)
			}
		}
	}

	doSet := func(step, k int) {
		nextVal++
		if _, ok := model.live(k); ok {
			resetLive++
		}
		if deleted[k] {
			deleteThenSet++
			deleted[k] = false
		}
		model.entries[k] = c48Entry{val: nextVal, setAt: clock}
		headBefore, lenBefore := tm.head, len(tm.order)
		tm.Set(k, nextVal)
		// a compaction is visible as the head returning to 0
		if (tm.head == 0 && headBefore > 0) || (headBefore == 0 && tm.head == 0 && len(tm.order) < lenBefore) {
			compactions++
			if len(tm.order) > 0 {
				compactionsWithSurvivors++
			}
			// documented (maybeCompact): compaction rebuilds order from the slots that are
			// still the live mapping of their key, so right after it every slot is mapped
			if len(tm.order) != len(tm.items) {
				x.Failf("ttl-compaction-keeps-unmapped-slot", "step %d: right after a compaction len(order)=%d but only %d keys are mapped: a dead slot survived the compaction", step, len(tm.order), len(tm.items))
			}
		}
		// documented bound (maybeCompact): after a Set the dead prefix never exceeds
		// half of the slice
		if tm.head != 0 && tm.head >= len(tm.order)/2 && len(tm.order) > 1 {
			x.Failf("ttl-compaction-bound", "step %d: after Set head=%d len(order)=%d: dead prefix is at least half of the slice but was not compacted", step, tm.head, len(tm.order))
		}
	}

	for i, op := range c.Ops {
		what := ""
		switch op.Kind {
		case c48OpSet:
			what = fmt.Sprintf("Set(%d)", op.Key)
			// detect the slow compaction path: holes in the live region before the call
			holes := len(tm.items) != len(tm.order)-tm.head
			before := compactions
			doSet(i, op.Key)
			if compactions > before && holes {
				slowCompactions++
			}
		case c48OpSetRun:
			what = fmt.Sprintf("SetRun(%d,%d)", op.Key, op.Arg)
			for j := 0; j < int(op.Arg); j++ {
				holes := len(tm.items) != len(tm.order)-tm.head
				before := compactions
				doSet(i, (op.Key+j)%c48Keys)
				if compactions > before && holes {
					slowCompactions++
				}
				shadow(i, what)
			}
		case c48OpGet:
			what = fmt.Sprintf("Get(%d)", op.Key)
			wantVal, wantOK := model.live(op.Key)
			if _, ok := model.entries[op.Key]; ok && !wantOK && c.TTL > 0 {
				getAfterExpiry++
			}
			got, ok := tm.Get(op.Key)
			if ok != wantOK || (ok && got != wantVal) || (!ok && got != 0) {
				fp := "ttl-get-wrong"
				switch {
				case wantOK && !ok:
					fp = "ttl-get-misses-live-entry"
				case !wantOK && ok:
					fp = "ttl-get-returns-dead-entry"
					if e, has := model.entries[op.Key]; has && clock-e.setAt == c.TTL {
						fp = "ttl-get-live-at-exact-ttl"
					}
				case ok && got != wantVal:
					fp = "ttl-get-stale-value"
				}
				x.Failf(fp, "step %d: Get(%d) at t=%d (ttl=%d) = (%d, %v), want (%d, %v); model entry %+v", i, op.Key, clock, c.TTL, got, ok, wantVal, wantOK, model.entries[op.Key])
			}
			if ok && compactions > 0 {
				liveGetsAfterCompaction++
			}
		case c48OpDelete:
			what = fmt.Sprintf("Delete(%d)", op.Key)
			if _, ok := model.entries[op.Key]; ok {
				deleted[op.Key] = true
			}
			delete(model.entries, op.Key)
			tm.Delete(op.Key)
		case c48OpReset:
			what = "Reset"
			clear(model.entries)
			clear(deleted)
			tm.Reset()
			if len(tm.items) != 0 || tm.Len() != 0 {
				x.Failf("ttl-reset-leaves-entries", "step %d: after Reset Len()=%d", i, tm.Len())
			}
			x.Class("reset")
		case c48OpAdvance:
			what = fmt.Sprintf("advance(%d)", op.Arg)
			clock += op.Arg
			model.now = clock
		case c48OpLen:
			what = "Len"
			got := tm.Len()
			lo, hi := model.liveCount(), len(model.entries)
			// Len counts retained entries "including any that have expired but not yet
			// been evicted": between the live keys and the keys set and not removed since
			if got < lo || got > hi {
				x.Failf("ttl-len-out-of-bounds", "step %d: Len()=%d, want between %d (live keys) and %d (keys set and not deleted/reset)", i, got, lo, hi)
			}
		case c48OpActiveLen:
			what = "ActiveLen"
			got, want := tm.ActiveLen(), model.liveCount()
			if got != want {
				x.Failf("ttl-activelen-wrong", "step %d: ActiveLen()=%d at t=%d, model has %d live keys", i, got, clock, want)
			}
			if tm.Active() != (want > 0) {
				x.Failf("ttl-active-wrong", "step %d: Active()=%v, model has %d live keys", i, tm.Active(), want)
			}
		}
		shadow(i, what)
	}

	// final sweep through the public API: every key
	for k := 0; k < c48Keys; k++ {
		wantVal, wantOK := model.live(k)
		got, ok := tm.Get(k)
		if ok != wantOK || (ok && got != wantVal) {
			fp := "ttl-get-misses-live-entry"
			if ok && !wantOK {
				fp = "ttl-get-returns-dead-entry"
			} else if ok {
				fp = "ttl-get-stale-value"
			}
			x.Failf(fp, "final sweep: Get(%d) at t=%d (ttl=%d) = (%d, %v), want (%d, %v)", k, clock, c.TTL, got, ok, wantVal, wantOK)
		}
	}

	if c.TTL <= 0 {
		x.Class("nonpositive_ttl")
	}
	if compactions > 0 {
		x.Class("compaction")
	}
	if compactionsWithSurvivors > 0 {
		x.Class("compaction_with_survivors")
	}
	if slowCompactions > 0 {
		x.Class("compaction_with_holes")
	}
	if resetLive > 0 {
		x.Class("reset_of_live_key")
	}
	if deleteThenSet > 0 {
		x.Class("delete_then_set")
	}
	if getAfterExpiry > 0 {
		x.Class("get_after_expiry")
	}
	if liveGetsAfterCompaction > 0 {
		x.Class("live_get_after_compaction")
	}
	if compactions > 0 && (resetLive > 0 || deleteThenSet > 0) {
		x.NonTrivial()
	}
}

func TestVF_C48_model(t *testing.T) {
	vfkit.Run(t, vfkit.Spec[c48Case]{
		ID: "C48", Unit: "model",
		Rule: "cases = TTL in {1,2,10,1000,0,-5} ticks of a fake clock and 1..120 ops over 10 keys (4 hot) of Set / Get / Delete / Reset / Len / ActiveLen / write-once Set bursts / clock advances biased to 0, 1, ttl-1, ttl, ttl+1, 2ttl+1; after every op every key's index entry is compared with a reference map-with-expiry; non-trivial = history with >=1 compaction of the order slice (head returning to 0) and a re-Set of a live key or a Delete followed by a Set of the same key; distinct = distinct (ttl, ops)",
		Gen:  c48Gen, Exec: c48Exec,
	})
}

//go:build verif

package actor

// C39 — replicas that apply the same updates converge (replicator-level unit, engine E5).
//
// 2-3 real replicatorActor instances run in one plain actor system (crdt config extension
// registered by the harness, all schedules off). After PostStart every replica's
// topicActor is pointed at a capture actor and its clusterRef / remoting are replaced by
// harness fakes: every delta a replica publishes, every coordinated-write delta, digest
// and full-state reply lands in a harness-owned pool. The generated plan decides which
// pooled message reaches which replica, in which order and how often, and when
// anti-entropy rounds and prune (compaction) ticks happen. At the end every published
// topic delta that has not reached some replica yet is delivered there (the property's
// premise: every replica has seen the same set of updates), in a generated order.
//
// Oracle: after that every replica's Get exposes the same observable value, and that
// value equals the fold of Merge over the originators' full states (the state each
// updating replica exposed right after its last Update, cloned at that moment) — i.e.
// replication by deltas, through the real encode / publish / decode / merge path, loses
// nothing and invents nothing compared with shipping whole states.
//
// The harness is sequential (one message in flight, Ask barriers), so the history is a
// function of the case only.

import (
	"context"
	"errors"
	"fmt"
	"sort"
	"strings"
	"sync"
	"sync/atomic"
	"testing"
	"time"

	"google.golang.org/protobuf/proto"
	"pgregory.net/rapid"

	"github.com/tochemey/goakt/v4/crdt"
	gerrors "github.com/tochemey/goakt/v4/errors"
	"github.com/tochemey/goakt/v4/internal/address"
	"github.com/tochemey/goakt/v4/internal/cluster"
	"github.com/tochemey/goakt/v4/internal/internalpb"
	"github.com/tochemey/goakt/v4/internal/remoteclient"
	"github.com/tochemey/goakt/v4/internal/vfkit"
	"github.com/tochemey/goakt/v4/log"
)

// ---- case ----------------------------------------------------------------------------

const (
	c39nKUpdate = iota
	c39nKDeliver
	c39nKExchange // anti-entropy tick, digest delivered at once, reply delivered at once unless Keep
	c39nKPrune
	c39nKGet
)

const (
	c39nTGCounter = iota
	c39nTPNCounter
	c39nTFlag
	c39nTLWW
	c39nTMV
	c39nTORSet
	c39nTORMap
	c39nNTypes
)

var c39nTypeNames = [...]string{"gcounter", "pncounter", "flag", "lww", "mv", "orset", "ormap_gc"}

// lexicographic order n1 < n10 < n2 differs from the numeric one on purpose (LWW tie-break)
var c39nNodes = [...]string{"n1", "n10", "n2"}
var c39nElems = [...]string{"x", "y", "z"}
var c39nAmounts = [...]uint64{1, 2, 5}

// the ORMap defect listed under C39 (remove + re-add of a map key keeps the stale nested value)
const c39nFPORMap = "ormap-stale-value-of-removed-key-merged"

type c39nSub struct {
	Op   int `json:"op"` // type specific: 0..1 add-like, 2 remove-like (sets / maps / pn-decrement)
	Elem int `json:"e"`
	Val  int `json:"v"`
}

type c39nStep struct {
	Kind  int       `json:"k"`
	R     int       `json:"r"`
	Subs  []c39nSub `json:"subs,omitempty"`
	Co    int       `json:"co,omitempty"`    // update / get: coordination 0 none, 1 Majority, 2 All
	Peers int       `json:"peers,omitempty"` // update / get: bit mask of listed peers; exchange: peer index
	Sel   int       `json:"sel,omitempty"`
	Mode  int       `json:"mode,omitempty"` // deliver: 1 = re-deliver a delta its target already got (duplicate)
	Keep  bool      `json:"keep,omitempty"`
}

type c39nCase struct {
	Type  int        `json:"type"`
	N     int        `json:"n"`
	Skew  []int      `json:"skew"` // LWW: clock offset of each replica
	Steps []c39nStep `json:"steps"`
	Tail  []int      `json:"tail"` // order of the outstanding deliveries at the end
}

func c39nGen(t *rapid.T) c39nCase {
	var c c39nCase
	c.Type = []int{
		c39nTORSet, c39nTORSet, c39nTORSet, c39nTORSet, c39nTORMap, c39nTORMap, c39nTORMap,
		c39nTMV, c39nTMV, c39nTLWW, c39nTLWW, c39nTGCounter, c39nTPNCounter, c39nTPNCounter, c39nTFlag,
	}[rapid.IntRange(0, 14).Draw(t, "type")]
	c.N = rapid.IntRange(2, 3).Draw(t, "n")
	for i := 0; i < c.N; i++ {
		c.Skew = append(c.Skew, []int{0, -25, 25, 7}[rapid.IntRange(0, 3).Draw(t, "skew")])
	}
	ns := rapid.IntRange(2, 16).Draw(t, "nsteps")
	for i := 0; i < ns; i++ {
		var s c39nStep
		w := rapid.IntRange(0, 99).Draw(t, "kind")
		switch {
		case w < 45:
			s.Kind = c39nKUpdate
		case w < 80:
			s.Kind = c39nKDeliver
		case w < 88:
			s.Kind = c39nKExchange
		case w < 95:
			s.Kind = c39nKPrune
		default:
			s.Kind = c39nKGet
		}
		s.R = rapid.IntRange(0, c.N-1).Draw(t, "r")
		switch s.Kind {
		case c39nKUpdate:
			nsub := 1
			if rapid.IntRange(0, 4).Draw(t, "multi") == 0 {
				nsub = rapid.IntRange(2, 3).Draw(t, "nsub")
			}
			for j := 0; j < nsub; j++ {
				s.Subs = append(s.Subs, c39nSub{
					Op:   rapid.IntRange(0, 2).Draw(t, "op"),
					Elem: rapid.IntRange(0, 2).Draw(t, "elem"),
					Val:  rapid.IntRange(0, 2).Draw(t, "val"),
				})
			}
			s.Co = []int{0, 0, 0, 0, 0, 0, 1, 2}[rapid.IntRange(0, 7).Draw(t, "co")]
			if s.Co != 0 {
				s.Peers = rapid.IntRange(0, 1<<c.N-1).Draw(t, "peers")
			}
		case c39nKGet:
			s.Co = rapid.IntRange(0, 2).Draw(t, "co")
			s.Peers = rapid.IntRange(0, 1<<c.N-1).Draw(t, "peers")
		case c39nKDeliver:
			s.Sel = rapid.IntRange(0, 63).Draw(t, "sel")
			s.Keep = rapid.IntRange(0, 2).Draw(t, "keep") == 0
			if rapid.IntRange(0, 4).Draw(t, "mode") == 0 {
				s.Mode = 1
			}
		case c39nKExchange:
			s.Peers = rapid.IntRange(0, c.N-2).Draw(t, "peer")
			s.Keep = rapid.IntRange(0, 3).Draw(t, "xkeep") == 0
		}
		c.Steps = append(c.Steps, s)
	}
	c.Tail = rapid.SliceOfN(rapid.IntRange(0, 63), 8, 8).Draw(t, "tail")
	return c
}

// ---- harness-owned network -----------------------------------------------------------

const c39nPortBase = 9300

const (
	c39nMDelta = iota
	c39nMDirectDelta
	c39nMDigest
	c39nMFull
)

var c39nMsgNames = [...]string{"delta", "direct-delta", "digest", "full-state"}

type c39nRaw struct {
	from int
	to   int
	msg  proto.Message
}

type c39nMsg struct {
	id     int
	kind   int
	origin int
	target int
	pb     proto.Message
	seq    int // topic deltas: publication number of the origin (0,1,2,...)
	// topic deltas: how often each replica got it
	got []int
}

type c39nPair struct {
	m      *c39nMsg
	target int
}

type c39nNet struct {
	n    int
	pids []*PID
	acts []*replicatorActor
	byID map[string]int

	mu     sync.Mutex
	direct []c39nRaw
	topic  []c39nRaw
	views  [][]int
}

var (
	c39nSys     ActorSystem
	c39nCapture *PID
	c39nCur     atomic.Pointer[c39nNet]
	c39nSeq     atomic.Int64
)

const c39nCap = 20 * time.Second

type c39nSync struct{}

type c39nCaptureActor struct{}

func (c39nCaptureActor) PreStart(*Context) error { return nil }
func (c39nCaptureActor) PostStop(*Context) error { return nil }
func (c39nCaptureActor) Receive(ctx *ReceiveContext) {
	switch m := ctx.Message().(type) {
	case c39nSync:
		ctx.Response(c39nSync{})
	case *Publish:
		if pm, ok := m.Message().(proto.Message); ok && m.Topic() == crdtTopic {
			c39nRecord(ctx.Sender(), pm)
		}
	case *internalpb.CRDTFullState:
		c39nRecord(ctx.Sender(), m)
	}
}

func c39nRecord(sender *PID, m proto.Message) {
	net := c39nCur.Load()
	if net == nil || sender == nil {
		return
	}
	idx, ok := net.byID[sender.ID()]
	if !ok {
		return
	}
	net.mu.Lock()
	net.topic = append(net.topic, c39nRaw{from: idx, to: -1, msg: m})
	net.mu.Unlock()
}

type c39nCluster struct {
	cluster.Cluster
	net  *c39nNet
	self int
}

func (f *c39nCluster) Peers(context.Context) ([]*cluster.Peer, error) {
	f.net.mu.Lock()
	view := append([]int(nil), f.net.views[f.self]...)
	f.net.mu.Unlock()
	peers := make([]*cluster.Peer, 0, len(view))
	for _, p := range view {
		peers = append(peers, &cluster.Peer{Host: "127.0.0.1", RemotingPort: c39nPortBase + p})
	}
	return peers, nil
}

func (f *c39nCluster) IsLeader(context.Context) bool { return false }

type c39nRemoting struct {
	remoteclient.Client
	net  *c39nNet
	self int
}

func (f *c39nRemoting) RemoteLookup(_ context.Context, host string, port int, name string) (*address.Address, error) {
	return address.New(name, "vfC39", host, port), nil
}

func (f *c39nRemoting) RemoteTell(_ context.Context, _, to *address.Address, message any) error {
	pm, ok := message.(proto.Message)
	if !ok {
		return fmt.Errorf("c39n: not a proto message: %T", message)
	}
	t := to.Port() - c39nPortBase
	if t < 0 || t >= f.net.n {
		return fmt.Errorf("c39n: unknown peer %s", to.String())
	}
	f.net.mu.Lock()
	f.net.direct = append(f.net.direct, c39nRaw{from: f.self, to: t, msg: proto.Clone(pm)})
	f.net.mu.Unlock()
	return nil
}

func (f *c39nRemoting) RemoteAsk(ctx context.Context, _, to *address.Address, message any, timeout time.Duration) (any, error) {
	pm, ok := message.(proto.Message)
	if !ok {
		return nil, fmt.Errorf("c39n: not a proto message: %T", message)
	}
	t := to.Port() - c39nPortBase
	if t < 0 || t >= f.net.n || t == f.self {
		return nil, fmt.Errorf("c39n: unknown peer %s", to.String())
	}
	resp, err := Ask(context.WithoutCancel(ctx), f.net.pids[t], proto.Clone(pm), timeout)
	if err != nil {
		return nil, err
	}
	if rp, ok := resp.(proto.Message); ok {
		return proto.Clone(rp), nil
	}
	return resp, nil
}

func c39nStart(t *testing.T) {
	ctx := context.Background()
	sys, err := NewActorSystem("vfC39", WithLogger(log.DiscardLogger))
	if err != nil {
		t.Fatalf("NewActorSystem: %v", err)
	}
	if err := sys.Start(ctx); err != nil {
		t.Fatalf("Start: %v", err)
	}
	t.Cleanup(func() { _ = sys.Stop(context.Background()) })
	cfg := crdt.NewConfig(
		crdt.WithAntiEntropyInterval(0),
		crdt.WithPruneInterval(0),
	)
	sys.(*actorSystem).extensions.Set(crdtConfigExtensionID, &crdtConfigExtension{config: cfg})
	cp, err := sys.Spawn(ctx, "c39n-capture", c39nCaptureActor{}, WithLongLived())
	if err != nil {
		t.Fatalf("spawn capture: %v", err)
	}
	c39nSys, c39nCapture = sys, cp
}

func c39nNewNet(n int) (*c39nNet, error) {
	ctx := context.Background()
	net := &c39nNet{n: n, byID: map[string]int{}, views: make([][]int, n)}
	seq := c39nSeq.Add(1)
	for i := 0; i < n; i++ {
		act := newReplicatorActor()
		pid, err := c39nSys.Spawn(ctx, fmt.Sprintf("c39n-%06d-r%d", seq, i), act, WithLongLived())
		if err != nil {
			net.stop()
			return nil, err
		}
		net.pids = append(net.pids, pid)
		net.acts = append(net.acts, act)
		net.byID[pid.ID()] = i
	}
	for i := 0; i < n; i++ {
		if _, err := Ask(ctx, net.pids[i], &crdt.Get{Key: crdt.GCounterKey("c39n-warmup")}, c39nCap); err != nil {
			net.stop()
			return nil, err
		}
	}
	for i := 0; i < n; i++ {
		a := net.acts[i]
		if a.pid == nil || a.nodeID != net.pids[i].ID() {
			net.stop()
			return nil, fmt.Errorf("replica %d not initialised (nodeID=%q)", i, a.nodeID)
		}
		a.topicActor = c39nCapture
		a.clusterRef = &c39nCluster{net: net, self: i}
		a.remoting = &c39nRemoting{net: net, self: i}
	}
	c39nCur.Store(net)
	return net, nil
}

func (net *c39nNet) stop() {
	c39nCur.Store(nil)
	for _, p := range net.pids {
		if p != nil {
			_ = p.Shutdown(context.Background())
		}
	}
}

// ---- values --------------------------------------------------------------------------

func c39nKey(typ int) crdt.Key {
	switch typ {
	case c39nTGCounter:
		return crdt.GCounterKey("k")
	case c39nTPNCounter:
		return crdt.PNCounterKey("k")
	case c39nTFlag:
		return crdt.FlagKey("k")
	case c39nTLWW:
		return crdt.LWWRegisterKey("k")
	case c39nTMV:
		return crdt.MVRegisterKey("k")
	case c39nTORSet:
		return crdt.ORSetKey("k")
	default:
		return crdt.ORMapKey("k")
	}
}

func c39nInitial(typ int) crdt.ReplicatedData {
	switch typ {
	case c39nTGCounter:
		return crdt.NewGCounter()
	case c39nTPNCounter:
		return crdt.NewPNCounter()
	case c39nTFlag:
		return crdt.NewFlag()
	case c39nTLWW:
		return crdt.NewLWWRegister()
	case c39nTMV:
		return crdt.NewMVRegister()
	case c39nTORSet:
		return crdt.NewORSet()
	default:
		return crdt.NewORMap()
	}
}

// c39nApply is the pure Modify function of one Update: it applies the sub-operations of
// the step under the replica's own node id. ts is the replica's clock for this update.
func c39nApply(typ int, node string, subs []c39nSub, ts time.Time, noMapRemove bool) func(crdt.ReplicatedData) crdt.ReplicatedData {
	return func(cur crdt.ReplicatedData) crdt.ReplicatedData {
		for i, s := range subs {
			switch typ {
			case c39nTGCounter:
				cur = cur.(*crdt.GCounter).Increment(node, c39nAmounts[s.Val])
			case c39nTPNCounter:
				if s.Op == 2 {
					cur = cur.(*crdt.PNCounter).Decrement(node, c39nAmounts[s.Val])
				} else {
					cur = cur.(*crdt.PNCounter).Increment(node, c39nAmounts[s.Val])
				}
			case c39nTFlag:
				cur = cur.(*crdt.Flag).Enable()
			case c39nTLWW:
				// a node's own timestamps are strictly increasing, also inside one update
				cur = cur.(*crdt.LWWRegister).Set(c39nElems[s.Elem], ts.Add(time.Duration(i)), node)
			case c39nTMV:
				cur = cur.(*crdt.MVRegister).Set(node, c39nElems[s.Elem])
			case c39nTORSet:
				if s.Op == 2 {
					cur = cur.(*crdt.ORSet).Remove(c39nElems[s.Elem])
				} else {
					cur = cur.(*crdt.ORSet).Add(node, c39nElems[s.Elem])
				}
			default:
				m := cur.(*crdt.ORMap)
				if s.Op == 2 {
					if !noMapRemove {
						cur = m.Remove(c39nElems[s.Elem])
					}
					continue
				}
				// read-modify-write of the nested counter
				gc := crdt.NewGCounter()
				if v, ok := m.Get(c39nElems[s.Elem]); ok {
					if g, ok := v.(*crdt.GCounter); ok {
						gc = g
					}
				}
				cur = m.Set(node, c39nElems[s.Elem], gc.Increment(node, c39nAmounts[s.Val]))
			}
		}
		return cur
	}
}

// c39nObsOf renders what a reader of the key sees; a replica that holds nothing for the
// key exposes the same as one that holds the type's empty value.
func c39nObsOf(typ int, v crdt.ReplicatedData) string {
	if v == nil {
		v = c39nInitial(typ)
	}
	return c39nObs(v)
}

func c39nObs(v crdt.ReplicatedData) string {
	switch t := v.(type) {
	case nil:
		return "<nil>"
	case *crdt.GCounter:
		return fmt.Sprintf("gc=%d", t.Value())
	case *crdt.PNCounter:
		return fmt.Sprintf("pn=%d", t.Value())
	case *crdt.Flag:
		return fmt.Sprintf("flag=%v", t.Enabled())
	case *crdt.LWWRegister:
		return fmt.Sprintf("lww=%v@%d/%s", t.Value(), t.Timestamp(), t.NodeID())
	case *crdt.MVRegister:
		vals := t.Values()
		strs := make([]string, len(vals))
		for i, e := range vals {
			strs[i] = fmt.Sprintf("%T:%v", e, e)
		}
		sort.Strings(strs)
		return "mv{" + strings.Join(strs, ",") + "}"
	case *crdt.ORSet:
		els := t.Elements()
		strs := make([]string, len(els))
		for i, e := range els {
			strs[i] = fmt.Sprintf("%T:%v", e, e)
		}
		sort.Strings(strs)
		return "set{" + strings.Join(strs, ",") + "}"
	case *crdt.ORMap:
		keys := t.Keys()
		strs := make([]string, len(keys))
		for i, k := range keys {
			val, ok := t.Get(k)
			if !ok {
				strs[i] = fmt.Sprintf("%T:%v-><absent>", k, k)
				continue
			}
			strs[i] = fmt.Sprintf("%T:%v->%s", k, k, c39nObs(val))
		}
		sort.Strings(strs)
		return "map{" + strings.Join(strs, ",") + "}"
	}
	return fmt.Sprintf("?%T", v)
}

// ---- execution -----------------------------------------------------------------------

type c39nInconclusive struct{ why string }

type c39nRun struct {
	x      *vfkit.X
	c      c39nCase
	net    *c39nNet
	key    crdt.Key
	pool   []c39nPair
	deltas []*c39nMsg // every topic delta published, in publication order
	done   []c39nPair // topic deltas already delivered to another replica (candidates for duplication)
	nmsg   int
	npub   []int                 // publications per origin
	snap   []crdt.ReplicatedData // full state of each originator after its last update
	step   int
	// last publication number of origin o that replica t has received (-1 none); used for the
	// non-identity-order part of the non-triviality rule
	reordered bool
	duplicate bool
	mapRemove bool
	mapReadd  bool
	removed   [3]bool // ORMap / ORSet: element removed somewhere earlier
	addRemove bool    // an add and a remove of the same element on different replicas
	adder     [3]int  // bit mask of replicas that added element e
	remover   [3]int
}

func (r *c39nRun) inconclusive(why string) { panic(&c39nInconclusive{why: why}) }

func (r *c39nRun) alive(where string) {
	for i, p := range r.net.pids {
		if !p.IsRunning() || p.RestartCount() != 0 {
			r.x.Failf("replicator-crashed-during-"+where, "replica %d running=%v restarts=%d at step %d",
				i, p.IsRunning(), p.RestartCount(), r.step)
		}
	}
}

func (r *c39nRun) ask(i int, msg any) any {
	resp, err := Ask(context.Background(), r.net.pids[i], msg, c39nCap)
	if err != nil {
		if errors.Is(err, gerrors.ErrRequestTimeout) {
			r.inconclusive("timeout")
		}
		r.alive("ask")
		r.inconclusive("ask_error")
	}
	return resp
}

func (r *c39nRun) get(i int) crdt.ReplicatedData {
	resp := r.ask(i, &crdt.Get{Key: r.key})
	gr, ok := resp.(*crdt.GetResponse)
	if !ok {
		r.x.Failf("get-unexpected-response", "step %d: Get at r%d answered %T", r.step, i, resp)
	}
	return gr.Data
}

func (r *c39nRun) settle(i int) {
	r.ask(i, &crdt.Get{Key: r.key})
	if _, err := Ask(context.Background(), c39nCapture, c39nSync{}, c39nCap); err != nil {
		r.inconclusive("capture_timeout")
	}
}

func (r *c39nRun) collect(replyTo int) []*c39nMsg {
	r.net.mu.Lock()
	raws := append(append([]c39nRaw(nil), r.net.direct...), r.net.topic...)
	r.net.direct, r.net.topic = nil, nil
	r.net.mu.Unlock()
	var out []*c39nMsg
	for _, raw := range raws {
		m := &c39nMsg{id: r.nmsg, origin: raw.from, target: raw.to, pb: raw.msg}
		switch raw.msg.(type) {
		case *internalpb.CRDTDelta:
			m.kind = c39nMDelta
			if raw.to >= 0 {
				m.kind = c39nMDirectDelta
			} else {
				m.seq = r.npub[raw.from]
				r.npub[raw.from]++
				m.got = make([]int, r.net.n)
				r.deltas = append(r.deltas, m)
			}
		case *internalpb.CRDTDigest:
			m.kind = c39nMDigest
		case *internalpb.CRDTFullState:
			m.kind = c39nMFull
			m.target = replyTo
			if replyTo < 0 {
				continue
			}
		default:
			r.x.Logf("step %d: unexpected captured message %T from r%d", r.step, raw.msg, raw.from)
			continue
		}
		r.nmsg++
		out = append(out, m)
		r.x.Logf("step %d:   captured #%d %s origin=r%d target=%d", r.step, m.id, c39nMsgNames[m.kind], m.origin, m.target)
		if m.target >= 0 {
			r.pool = append(r.pool, c39nPair{m: m, target: m.target})
		} else {
			for t := 0; t < r.net.n; t++ {
				r.pool = append(r.pool, c39nPair{m: m, target: t})
			}
		}
	}
	return out
}

func (r *c39nRun) setView(i int, mask int) {
	var view []int
	for p := 0; p < r.net.n; p++ {
		if p != i && mask&(1<<p) != 0 {
			view = append(view, p)
		}
	}
	r.net.mu.Lock()
	r.net.views[i] = view
	r.net.mu.Unlock()
}

func (r *c39nRun) deliver(p c39nPair) []*c39nMsg {
	m, t := p.m, p.target
	r.x.Logf("step %d: deliver #%d %s origin=r%d (pub %d) to r%d", r.step, m.id, c39nMsgNames[m.kind], m.origin, m.seq, t)
	if m.kind == c39nMDelta && t != m.origin {
		if m.got[t] > 0 {
			r.duplicate = true
		}
		// out of publication order: a later delta of the same origin got there first
		for _, o := range r.deltas {
			if o.origin == m.origin && o.seq > m.seq && o.got[t] > 0 {
				r.reordered = true
			}
		}
		if m.got[t] == 0 {
			r.done = append(r.done, p)
		}
		m.got[t]++
	}
	if err := c39nCapture.Tell(context.Background(), r.net.pids[t], proto.Clone(m.pb)); err != nil {
		r.alive("deliver")
		r.inconclusive("tell_error")
	}
	r.settle(t)
	replyTo := -1
	if m.kind == c39nMDigest {
		replyTo = m.origin
	}
	out := r.collect(replyTo)
	r.alive("deliver")
	return out
}

func (r *c39nRun) take(m *c39nMsg) (c39nPair, bool) {
	for i, p := range r.pool {
		if p.m == m {
			r.pool = append(r.pool[:i:i], r.pool[i+1:]...)
			return p, true
		}
	}
	return c39nPair{}, false
}

func (r *c39nRun) doUpdate(s c39nStep) {
	x := r.x
	typ := r.c.Type
	noMapRemove := typ == c39nTORMap && x.Known(c39nFPORMap)
	for _, sub := range s.Subs {
		if typ == c39nTORSet || typ == c39nTORMap {
			if sub.Op == 2 {
				if typ == c39nTORMap && noMapRemove {
					x.Class("ormap_remove_skipped_known_finding")
					continue
				}
				r.remover[sub.Elem] |= 1 << s.R
				r.removed[sub.Elem] = true
				if typ == c39nTORMap {
					r.mapRemove = true
				}
			} else {
				r.adder[sub.Elem] |= 1 << s.R
				if typ == c39nTORMap && r.removed[sub.Elem] {
					r.mapReadd = true
				}
			}
			// an adder and a remover of the element that are different replicas
			a, b := r.adder[sub.Elem], r.remover[sub.Elem]
			if a != 0 && b != 0 && (a != b || a&(a-1) != 0) {
				r.addRemove = true
			}
		}
	}
	r.setView(s.R, s.Peers)
	before := c39nObsOf(typ, r.get(s.R))
	ts := time.Unix(1_700_000_000, int64(r.step+1)*100_000+int64(r.c.Skew[s.R])*100_000)
	x.Logf("step %d: update r%d subs=%+v co=%d view=%v", r.step, s.R, s.Subs, s.Co, r.net.views[s.R])
	var co crdt.Coordination
	switch s.Co {
	case 1:
		co = crdt.Majority
	case 2:
		co = crdt.All
	}
	resp := r.ask(s.R, &crdt.Update{
		Key:     r.key,
		Initial: c39nInitial(typ),
		Modify:  c39nApply(typ, c39nNodes[s.R], s.Subs, ts, noMapRemove),
		WriteTo: co,
	})
	if _, ok := resp.(*crdt.UpdateResponse); !ok {
		x.Failf("update-unexpected-response", "step %d: Update at r%d answered %T", r.step, s.R, resp)
	}
	r.settle(s.R)
	published := 0
	for _, m := range r.collect(-1) {
		if m.kind == c39nMDelta {
			published++
		}
	}
	r.alive("update")
	// the originator's full state right after the update
	d := r.get(s.R)
	if d != nil {
		r.snap[s.R] = d.Clone()
		x.Logf("step %d:   r%d now exposes %s", r.step, s.R, c39nObs(d))
	}
	// "The update is always applied locally first and the delta is published" (crdt.Update):
	// an update that changed what the replica exposes must have published a delta
	if after := c39nObsOf(typ, d); after != before {
		x.Class("update_changed_value")
		if published == 0 {
			x.Failf("update-changed-value-but-published-no-delta", "step %d: Update at r%d changed the exposed value from %s to %s and published nothing",
				r.step, s.R, before, after)
		}
	}
	if co != 0 && len(r.net.views[s.R]) > 0 {
		x.Class("coordinated_update")
	}
}

func (r *c39nRun) doExchange(s c39nStep) {
	var others []int
	for p := 0; p < r.net.n; p++ {
		if p != s.R {
			others = append(others, p)
		}
	}
	peer := others[s.Peers%len(others)]
	r.setView(s.R, 1<<peer)
	r.x.Logf("step %d: anti-entropy tick at r%d, peer r%d", r.step, s.R, peer)
	r.x.Class("anti_entropy_exchange")
	if err := c39nCapture.Tell(context.Background(), r.net.pids[s.R], &antiEntropyTick{}); err != nil {
		r.alive("anti-entropy")
		r.inconclusive("tell_error")
	}
	r.settle(s.R)
	for _, m := range r.collect(-1) {
		if m.kind != c39nMDigest {
			continue
		}
		p, ok := r.take(m)
		if !ok {
			continue
		}
		replies := r.deliver(p)
		if s.Keep {
			continue
		}
		for _, rm := range replies {
			if rp, ok := r.take(rm); ok {
				r.x.Class("full_state_delivered")
				r.deliver(rp)
			}
		}
	}
}

func c39nExec(x *vfkit.X, c c39nCase) {
	if c.N < 2 || c.N > 3 || c.Type < 0 || c.Type >= c39nNTypes || len(c.Skew) != c.N {
		x.Class("malformed_case")
		return
	}
	net, err := c39nNewNet(c.N)
	if err != nil {
		x.Class("inconclusive_spawn")
		x.Logf("spawn: %v", err)
		return
	}
	defer net.stop()
	r := &c39nRun{x: x, c: c, net: net, key: c39nKey(c.Type), npub: make([]int, c.N), snap: make([]crdt.ReplicatedData, c.N)}
	defer func() {
		if p := recover(); p != nil {
			if inc, ok := p.(*c39nInconclusive); ok {
				x.Class("inconclusive_" + inc.why)
				return
			}
			panic(p)
		}
	}()
	x.Class("type_" + c39nTypeNames[c.Type])
	for i, s := range c.Steps {
		r.step = i
		if s.R < 0 || s.R >= c.N {
			continue
		}
		switch s.Kind {
		case c39nKUpdate:
			for _, sub := range s.Subs {
				if sub.Elem < 0 || sub.Elem > 2 || sub.Val < 0 || sub.Val > 2 {
					x.Class("malformed_case")
					return
				}
			}
			r.doUpdate(s)
		case c39nKDeliver:
			if len(r.pool) == 0 {
				x.Class("deliver_nothing_pooled")
				continue
			}
			pi := s.Sel % len(r.pool)
			if s.Mode == 1 && len(r.done) > 0 {
				// the same delta reaches the replica again (topic + coordinated write, retries)
				x.Class("deliver_delta")
				r.deliver(r.done[s.Sel%len(r.done)])
				continue
			}
			p := r.pool[pi]
			if !s.Keep {
				r.pool = append(r.pool[:pi:pi], r.pool[pi+1:]...)
			}
			x.Class("deliver_" + strings.ReplaceAll(c39nMsgNames[p.m.kind], "-", "_"))
			r.deliver(p)
		case c39nKExchange:
			r.doExchange(s)
		case c39nKPrune:
			x.Logf("step %d: prune tick at r%d", r.step, s.R)
			x.Class("prune_tick")
			if err := c39nCapture.Tell(context.Background(), net.pids[s.R], &pruneTick{}); err != nil {
				r.alive("prune")
				r.inconclusive("tell_error")
			}
			r.settle(s.R)
			r.collect(-1)
		case c39nKGet:
			r.setView(s.R, s.Peers)
			var co crdt.Coordination
			switch s.Co {
			case 1:
				co = crdt.Majority
			case 2:
				co = crdt.All
			}
			x.Logf("step %d: get r%d co=%d view=%v", r.step, s.R, s.Co, net.views[s.R])
			if co != 0 && len(net.views[s.R]) > 0 {
				x.Class("coordinated_get")
			}
			r.ask(s.R, &crdt.Get{Key: r.key, ReadFrom: co})
			r.settle(s.R)
			r.collect(-1)
		}
	}
	r.step = len(c.Steps)

	// the premise: every published delta reaches every other replica at least once
	var todo []c39nPair
	for _, m := range r.deltas {
		for t := 0; t < c.N; t++ {
			if t != m.origin && m.got[t] == 0 {
				todo = append(todo, c39nPair{m: m, target: t})
			}
		}
	}
	for i := 0; len(todo) > 0; i++ {
		pi := 0
		if len(c.Tail) > 0 {
			pi = c.Tail[i%len(c.Tail)] % len(todo)
		}
		p := todo[pi]
		todo = append(todo[:pi:pi], todo[pi+1:]...)
		r.deliver(p)
	}

	// non-triviality: >= 2 deltas from one originator or an add/remove pair on different
	// replicas, and a delivery order that is not the publication order
	multi := false
	for _, n := range r.npub {
		if n >= 2 {
			multi = true
		}
	}
	if (multi || r.addRemove) && (r.reordered || r.duplicate) {
		x.NonTrivial()
	}
	if multi {
		x.Class("two_or_more_deltas_from_one_originator")
	}
	if r.addRemove {
		x.Class("add_and_remove_on_different_replicas")
	}
	if r.reordered {
		x.Class("delivered_out_of_publication_order")
	}
	if r.duplicate {
		x.Class("duplicate_delivery")
	}
	if len(r.deltas) == 0 {
		x.Class("no_delta_published")
	}

	// reference: fold of Merge over the originators' full states
	var ref crdt.ReplicatedData
	for i := 0; i < c.N; i++ {
		if r.snap[i] == nil {
			continue
		}
		if ref == nil {
			ref = r.snap[i].Clone()
		} else {
			ref = ref.Merge(r.snap[i])
		}
	}
	want := c39nObsOf(c.Type, ref)
	fp := "replicas-diverge-" + c39nTypeNames[c.Type]
	if c.Type == c39nTORMap && r.mapRemove {
		// the listed ORMap defect needs a Remove of a map key (stale nested value on re-add
		// or on a concurrent put); other ORMap histories are judged under their own fingerprint
		fp = c39nFPORMap
	}
	for i := 0; i < c.N; i++ {
		got := c39nObsOf(c.Type, r.get(i))
		x.Logf("final: r%d exposes %s", i, got)
		if got != want {
			x.Failf(fp, "%s, %d replicas: after every published delta reached every replica, r%d exposes %s but the merge of the originators' full states is %s",
				c39nTypeNames[c.Type], c.N, i, got, want)
		}
	}
}

func TestVF_C39_net(t *testing.T) {
	c39nStart(t)
	vfkit.Run(t, vfkit.Spec[c39nCase]{
		ID: "C39", Unit: "net",
		Rule: "cases = plans of 2..16 steps over 2-3 real replicator actors and one key (7 CRDT types incl. ORMap of GCounter): Update with 1-3 sub-operations under the replica's own node id (local or coordinated), delivery of a captured message (topic delta to any replica, coordinated-write delta, digest, full-state reply; any order, consumed or kept for re-delivery), whole anti-entropy round, prune (compaction) tick, Get (local or coordinated); at the end every published delta is delivered to every replica that has not had it, in a generated order; " +
			"non-trivial = (>= 2 deltas from one originator, or an add and a remove of one element on different replicas) and (some delta reached a replica after a later delta of the same originator, or twice); distinct = distinct plans",
		Gen: c39nGen, Exec: c39nExec,
		ReplayReps: 3,
	})
}

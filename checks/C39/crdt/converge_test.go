//go:build verif

package crdt

// C39 — replicas that apply the same updates converge (crdt-level unit).
//
// The replicator's exact recipe (actor/replicator.go) is reproduced on bare maps:
//
//   handleUpdate:    cur := store[k] (or Initial); updated := Modify(cur);
//                    d := updated.Delta(); updated.ResetDelta(); store[k] = updated; publish d if non-nil
//   handleDelta:     ignore own origin; store[k] = d if absent else store[k].Merge(d)
//   handleFullState: store[k] = data if absent else store[k].Merge(data)
//   handlePrune:     store[k] = store[k].CompactData() for Compactable values
//
// Everything that crosses a replica boundary goes through c39Wire, which rebuilds the
// value with the same exported constructors the codec uses (State/RawState ->
// *FromState/*FromRawState), i.e. what a receiver really gets after decode.
//
// The reference is a dot-based model written from the type documentation:
// counters = per-node maximum of cumulative amounts, flag = or, LWW = greatest
// (timestamp,nodeID), OR-Set/ORMap keys = adds identified by harness-issued dots,
// a remove tombstones exactly the dots its replica had observed (add wins),
// MV register = a write supersedes everything its replica had observed.
//
// How much a delta carries beyond the update that produced it is not specified (GCounter
// and ORSet document "only the change", Flag/LWW/MVRegister/ORMap document "the state").
// The model therefore keeps two knowledge sets per replica: lo = what the replica has
// surely seen (the updates themselves; the whole originator state for the "state" types
// and for full-state exchange), hi = what it may have seen (the originator's whole
// possible knowledge at publication). At every step nothing surely seen and not possibly
// removed may be missing ("lost") and nothing may be present that is not possibly seen or
// is surely removed ("resurrected"). Once everything is delivered the replicas must
// expose identical values, identical to the merge of their full states.

import (
	"fmt"
	"sort"
	"strings"
	"testing"
	"time"

	"pgregory.net/rapid"

	"github.com/tochemey/goakt/v4/internal/vfkit"
)

const (
	c39TGCounter = iota
	c39TPNCounter
	c39TFlag
	c39TLWW
	c39TMV
	c39TORSet
	c39TORMapGC
	c39TORMapSet
)

var c39TypeNames = [...]string{"gcounter", "pncounter", "flag", "lww", "mv", "orset", "ormap_gc", "ormap_set"}

// lexicographic order n1 < n10 < n2 differs from the numeric one on purpose (LWW tie-break).
var c39Nodes = []string{"n1", "n10", "n2"}
var c39Elems = []any{"x", "y", int(7)}
var c39Amounts = []uint64{1, 2, 0, 5, 1 << 40}

const (
	c39FPOverclaim = "orset-delta-clock-covers-dots-it-does-not-carry"
	c39FPAddRem    = "orset-delta-readds-element-removed-in-same-update"
	c39FPLWWOlder  = "lww-local-set-below-seen-timestamp-overwrites"
	c39FPORMapOld  = "ormap-stale-value-of-removed-key-merged"
)

// ---- case ----------------------------------------------------------------------------

type c39Sub struct {
	Op   int `json:"op"`
	Elem int `json:"e"`
	Val  int `json:"v"`
}

type c39Step struct {
	Kind int      `json:"k"` // 0 update, 1 deliver a published delta, 2 full-state push, 3 compact (prune)
	R    int      `json:"r"` // acting replica (originator / receiver)
	Subs []c39Sub `json:"subs,omitempty"`
	TSD  int      `json:"tsd,omitempty"`  // LWW: timestamp offset relative to what the replica has seen
	Msg  int      `json:"msg,omitempty"`  // deliver: index into the messages published so far (mod)
	From int      `json:"from,omitempty"` // full-state push: source replica
	Alt  int      `json:"alt,omitempty"`  // deliver: which other replica gets it when R is the originator
}

type c39Case struct {
	Type  int       `json:"type"`
	N     int       `json:"n"`
	Steps []c39Step `json:"steps"`
	Tail  []int     `json:"tail"` // drives the order in which the outstanding deliveries are made at the end
}

func c39Gen(t *rapid.T) c39Case {
	var c c39Case
	// set-like types get most of the weight: that is where delta replication is subtle
	c.Type = []int{
		c39TORSet, c39TORSet, c39TORSet, c39TORSet, c39TORMapGC, c39TORMapGC, c39TORMapSet, c39TORMapSet,
		c39TMV, c39TMV, c39TLWW, c39TLWW, c39TGCounter, c39TPNCounter, c39TPNCounter, c39TFlag,
	}[rapid.IntRange(0, 15).Draw(t, "type")]
	c.N = rapid.IntRange(2, 3).Draw(t, "n")
	ns := rapid.IntRange(1, 14).Draw(t, "nsteps")
	for i := 0; i < ns; i++ {
		var s c39Step
		k := rapid.IntRange(0, 19).Draw(t, "kind")
		switch {
		case k < 9:
			s.Kind = 0
		case k < 16:
			s.Kind = 1
		case k < 18:
			s.Kind = 2
		default:
			s.Kind = 3
		}
		s.R = rapid.IntRange(0, c.N-1).Draw(t, "r")
		switch s.Kind {
		case 0:
			nsub := 1
			if rapid.IntRange(0, 5).Draw(t, "multi") == 0 {
				nsub = rapid.IntRange(2, 3).Draw(t, "nsub")
			}
			for j := 0; j < nsub; j++ {
				s.Subs = append(s.Subs, c39Sub{
					Op:   rapid.IntRange(0, 4).Draw(t, "op"),
					Elem: rapid.IntRange(0, 2).Draw(t, "elem"),
					Val:  rapid.IntRange(0, 4).Draw(t, "val"),
				})
			}
			s.TSD = rapid.IntRange(-3, 6).Draw(t, "tsd")
		case 1:
			s.Msg = rapid.IntRange(0, 15).Draw(t, "msg")
			s.Alt = rapid.IntRange(0, 1).Draw(t, "alt")
		case 2:
			s.From = rapid.IntRange(0, c.N-1).Draw(t, "from")
		}
		c.Steps = append(c.Steps, s)
	}
	c.Tail = rapid.SliceOfN(rapid.IntRange(0, 63), 6, 6).Draw(t, "tail")
	return c
}

// ---- reference model -----------------------------------------------------------------

type c39Dot struct{ R, S int }

type c39Model struct {
	inc, dec [3]uint64
	flag     bool
	has      bool
	ts       int64
	node     string
	val      int
	adds     map[c39Dot]int       // dot -> element / key / register value index
	tomb     map[c39Dot]struct{}  // removed / superseded dots
	kv       map[c39Dot][3]uint64 // ormap_gc: counter value stored by the put that created the dot
}

func c39NewModel() *c39Model {
	return &c39Model{adds: map[c39Dot]int{}, tomb: map[c39Dot]struct{}{}, kv: map[c39Dot][3]uint64{}}
}

func (m *c39Model) clone() *c39Model {
	o := c39NewModel()
	o.merge(m)
	return o
}

func c39LWWLess(ts1 int64, n1 string, ts2 int64, n2 string) bool {
	return ts1 < ts2 || (ts1 == ts2 && n1 < n2)
}

func (m *c39Model) merge(o *c39Model) {
	for i := 0; i < 3; i++ {
		if o.inc[i] > m.inc[i] {
			m.inc[i] = o.inc[i]
		}
		if o.dec[i] > m.dec[i] {
			m.dec[i] = o.dec[i]
		}
	}
	m.flag = m.flag || o.flag
	if o.has && (!m.has || c39LWWLess(m.ts, m.node, o.ts, o.node)) {
		m.has, m.ts, m.node, m.val = true, o.ts, o.node, o.val
	}
	for d, e := range o.adds {
		m.adds[d] = e
	}
	for d := range o.tomb {
		m.tomb[d] = struct{}{}
	}
	for d, v := range o.kv {
		m.kv[d] = v
	}
}

// ---- observation of real values ------------------------------------------------------

func c39Any(v any) string { return fmt.Sprintf("%T:%v", v, v) }

func c39Slots(state map[string]uint64) string {
	ks := make([]string, 0, len(state))
	for k, v := range state {
		if v != 0 {
			ks = append(ks, k)
		}
	}
	sort.Strings(ks)
	var b strings.Builder
	for _, k := range ks {
		fmt.Fprintf(&b, "%s=%d,", k, state[k])
	}
	return b.String()
}

func c39SetObs(s *ORSet) (string, string) {
	els := s.Elements()
	strs := make([]string, len(els))
	for i, e := range els {
		strs[i] = c39Any(e)
	}
	sort.Strings(strs)
	bad := ""
	if s.Len() != len(els) {
		bad = fmt.Sprintf("Len()=%d but Elements() has %d", s.Len(), len(els))
	}
	for _, e := range c39Elems {
		in := false
		for _, x := range els {
			if x == e {
				in = true
			}
		}
		if s.Contains(e) != in {
			bad = fmt.Sprintf("Contains(%v)=%v disagrees with Elements()", e, s.Contains(e))
		}
	}
	return "set{" + strings.Join(strs, ",") + "}", bad
}

// c39Obs renders the observable value. For ORMap it returns the key part and the per-key value part separately.
func c39Obs(v ReplicatedData) (main string, perKey map[string]string, bad string) {
	switch t := v.(type) {
	case *GCounter:
		return fmt.Sprintf("gc{%s}=%d", c39Slots(t.State()), t.Value()), nil, ""
	case *PNCounter:
		i, d := t.State()
		return fmt.Sprintf("pn{+%s -%s}=%d", c39Slots(i), c39Slots(d), t.Value()), nil, ""
	case *Flag:
		return fmt.Sprintf("flag{%v}", t.Enabled()), nil, ""
	case *LWWRegister:
		return fmt.Sprintf("lww{%s@%d/%s}", c39Any(t.Value()), t.Timestamp(), t.NodeID()), nil, ""
	case *MVRegister:
		vals := t.Values()
		strs := make([]string, len(vals))
		for i, e := range vals {
			strs[i] = c39Any(e)
		}
		sort.Strings(strs)
		return "mv{" + strings.Join(strs, ",") + "}", nil, ""
	case *ORSet:
		s, b := c39SetObs(t)
		return s, nil, b
	case *ORMap:
		keys := t.Keys()
		strs := make([]string, len(keys))
		perKey = map[string]string{}
		for i, k := range keys {
			strs[i] = c39Any(k)
			val, ok := t.Get(k)
			if !ok || val == nil {
				bad = fmt.Sprintf("key %v listed by Keys() but Get reports absent", k)
				perKey[strs[i]] = "<absent>"
				continue
			}
			vm, _, vb := c39Obs(val)
			if vb != "" {
				bad = vb
			}
			perKey[strs[i]] = vm
		}
		sort.Strings(strs)
		if t.Len() != len(keys) {
			bad = fmt.Sprintf("Len()=%d but Keys() has %d", t.Len(), len(keys))
		}
		return "map{" + strings.Join(strs, ",") + "}", perKey, bad
	case nil:
		return "<nil>", nil, ""
	}
	return fmt.Sprintf("?%T", v), nil, ""
}

// ---- wire ----------------------------------------------------------------------------

// c39Wire rebuilds a value the way a receiver gets it (internal/ddata codec uses the same constructors).
func c39Wire(v ReplicatedData) ReplicatedData {
	switch t := v.(type) {
	case *GCounter:
		return GCounterFromState(t.State())
	case *PNCounter:
		i, d := t.State()
		return PNCounterFromState(i, d)
	case *Flag:
		if t.Enabled() {
			return NewFlag().Enable()
		}
		return NewFlag()
	case *LWWRegister:
		return LWWRegisterFromState(t.Value(), t.Timestamp(), t.NodeID())
	case *MVRegister:
		e, c := t.RawState()
		return MVRegisterFromRawState(e, c)
	case *ORSet:
		e, c := t.RawState()
		return ORSetFromRawState(e, c)
	case *ORMap:
		st := t.RawState()
		for k, val := range st.Values {
			st.Values[k] = c39Wire(val)
		}
		return ORMapFromRawState(st)
	}
	panic(fmt.Sprintf("c39Wire: unexpected %T", v))
}

func c39Initial(typ int) ReplicatedData {
	switch typ {
	case c39TGCounter:
		return NewGCounter()
	case c39TPNCounter:
		return NewPNCounter()
	case c39TFlag:
		return NewFlag()
	case c39TLWW:
		return NewLWWRegister()
	case c39TMV:
		return NewMVRegister()
	case c39TORSet:
		return NewORSet()
	default:
		return NewORMap()
	}
}

// ---- execution -----------------------------------------------------------------------

type c39Msg struct {
	origin    int
	payload   ReplicatedData
	lo, hi    *c39Model // what the message surely / possibly conveys
	overclaim bool
	addrem    bool
}

type c39World struct {
	x        *vfkit.X
	c        c39Case
	store    []ReplicatedData
	lo, hi   []*c39Model
	seq      []int
	ownTS    []int64
	taintOC  []bool // replica has absorbed an over-claiming OR-Set delta
	taintAR  []bool // replica has absorbed an add-then-remove delta
	msgs     []c39Msg
	got      [][]int // per receiver: message ids in delivery order
	removedK map[int]bool
	lwwOlder bool
	fullPush int
	sameOrig [3]int
	addAt    map[int]int // element -> bitmask of replicas that added it
	remAt    map[int]int
}

func (w *c39World) fingerprint(r int, kind string) string {
	switch w.c.Type {
	case c39TORSet:
		if w.taintOC[r] {
			return c39FPOverclaim
		}
		if w.taintAR[r] {
			return c39FPAddRem
		}
	case c39TLWW:
		if w.lwwOlder {
			return c39FPLWWOlder
		}
	case c39TORMapGC, c39TORMapSet:
		if len(w.removedK) > 0 {
			return c39FPORMapOld
		}
	}
	return kind + "-" + c39TypeNames[w.c.Type]
}

func c39ElemIndex(e any) int {
	for i, x := range c39Elems {
		if x == e {
			return i
		}
	}
	return -1
}

// c39SetBounds: must = elements with a surely-seen add that is not possibly removed;
// may = elements with a possibly-seen add that is not surely removed.
func c39SetBounds(lo, hi *c39Model) (must, may map[int]int) {
	must, may = map[int]int{}, map[int]int{}
	for d, e := range lo.adds {
		if _, t := hi.tomb[d]; !t {
			must[e]++
		}
	}
	for d, e := range hi.adds {
		if _, t := lo.tomb[d]; !t {
			may[e]++
		}
	}
	return
}

func c39CounterBounds(lo, hi *c39Model, key int) (lower, upper [3]uint64) {
	for d, e := range lo.adds {
		if e != key {
			continue
		}
		if _, t := hi.tomb[d]; t {
			continue
		}
		s := lo.kv[d]
		for i := range s {
			if s[i] > lower[i] {
				lower[i] = s[i]
			}
		}
	}
	for d, e := range hi.adds {
		if e != key {
			continue
		}
		if _, t := lo.tomb[d]; t {
			continue
		}
		s := hi.kv[d]
		for i := range s {
			if s[i] > upper[i] {
				upper[i] = s[i]
			}
		}
	}
	return
}

// c39Slotcheck returns ("lost"/"resurrected", description) when a counter state is outside [lo,hi].
func c39SlotCheck(st map[string]uint64, lo, hi [3]uint64) (string, string) {
	for i, n := range c39Nodes {
		v := st[n]
		if v < lo[i] {
			return "lost", fmt.Sprintf("slot %s is %d but the replica has seen %d", n, v, lo[i])
		}
		if v > hi[i] {
			return "resurrected", fmt.Sprintf("slot %s is %d but nobody it heard from ever had more than %d", n, v, hi[i])
		}
	}
	for n, v := range st {
		known := false
		for _, k := range c39Nodes {
			if k == n {
				known = true
			}
		}
		if !known && v != 0 {
			return "resurrected", fmt.Sprintf("slot %q=%d belongs to no replica", n, v)
		}
	}
	return "", ""
}

// check compares replica r with what it has surely / possibly seen.
func (w *c39World) check(r int, phase string) {
	v := w.store[r]
	if v == nil {
		return
	}
	x, typ := w.x, w.c.Type
	lo, hi := w.lo[r], w.hi[r]
	main, _, bad := c39Obs(v)
	if bad != "" {
		x.Failf("accessors-disagree-"+c39TypeNames[typ], "replica %d after %s: %s", r, phase, bad)
	}
	fail := func(kind, what string) {
		x.Failf(w.fingerprint(r, kind), "replica %d after %s exposes %s: %s", r, phase, main, what)
	}
	setCheck := func(els []any, what string) {
		must, may := c39SetBounds(lo, hi)
		have := map[int]bool{}
		for _, e := range els {
			i := c39ElemIndex(e)
			if i < 0 {
				fail("resurrected", fmt.Sprintf("%s %v was never added by anyone", what, e))
			}
			have[i] = true
			if may[i] == 0 {
				fail("resurrected", fmt.Sprintf("%s %v is present but every add of it that the replica can have seen was removed (or it has seen none)", what, e))
			}
		}
		for i := range must {
			if !have[i] {
				fail("lost", fmt.Sprintf("%s %v is missing although the replica has seen an add of it that nobody it heard from has removed", what, c39Elems[i]))
			}
		}
	}
	switch t := v.(type) {
	case *GCounter:
		if k, d := c39SlotCheck(t.State(), lo.inc, hi.inc); k != "" {
			fail(k, d)
		}
	case *PNCounter:
		i, d := t.State()
		if k, s := c39SlotCheck(i, lo.inc, hi.inc); k != "" {
			fail(k, "increments: "+s)
		}
		if k, s := c39SlotCheck(d, lo.dec, hi.dec); k != "" {
			fail(k, "decrements: "+s)
		}
	case *Flag:
		if lo.flag && !t.Enabled() {
			fail("lost", "the replica has seen an enable")
		}
		if t.Enabled() && !hi.flag {
			fail("resurrected", "nobody it heard from enabled the flag")
		}
	case *LWWRegister:
		want := fmt.Sprintf("lww{%s@0/}", c39Any(nil))
		if lo.has {
			want = fmt.Sprintf("lww{%s@%d/%s}", c39Any(lo.val), lo.ts, lo.node)
		}
		if main != want {
			fail("diverged", "the greatest (timestamp,node) write it has seen is "+want)
		}
	case *MVRegister:
		must, may := c39SetBounds(lo, hi)
		cnt := map[int]int{}
		for _, e := range t.Values() {
			i, ok := e.(int)
			if !ok {
				fail("resurrected", fmt.Sprintf("value %v was never written", e))
			}
			cnt[i]++
		}
		for i, n := range cnt {
			if n > may[i] {
				fail("resurrected", fmt.Sprintf("value %d is held %d time(s) but only %d write(s) of it that it can have seen are not superseded", i, n, may[i]))
			}
		}
		for i, n := range must {
			if cnt[i] < n {
				fail("lost", fmt.Sprintf("value %d is held %d time(s) but it has seen %d write(s) of it that nothing supersedes", i, cnt[i], n))
			}
		}
	case *ORSet:
		setCheck(t.Elements(), "element")
	case *ORMap:
		setCheck(t.Keys(), "key")
		if typ == c39TORMapGC {
			knownOld := x.Known(c39FPORMapOld)
			for _, k := range t.Keys() {
				i := c39ElemIndex(k)
				if knownOld && w.removedK[i] {
					x.Class("ormap_value_of_removed_key_not_compared")
					continue
				}
				val, _ := t.Get(k)
				g, ok := val.(*GCounter)
				if !ok {
					fail("diverged", fmt.Sprintf("key %v holds a %T", k, val))
				}
				lower, upper := c39CounterBounds(lo, hi, i)
				if kind, d := c39SlotCheck(g.State(), lower, upper); kind != "" {
					fail(kind, fmt.Sprintf("key %v: %s", k, d))
				}
			}
		}
	}
}

// c39Overclaims reports whether an OR-Set delta's clock covers a dot that the delta neither carries nor removes.
func c39Overclaims(delta *ORSet, removed map[Dot]bool) bool {
	entries, clock := delta.RawState()
	covered := map[Dot]bool{}
	for d := range removed {
		covered[d] = true
	}
	for _, e := range entries {
		for _, d := range e.Dots {
			covered[d] = true
		}
	}
	for node, c := range clock {
		for k := uint64(1); k <= c && k < 1000; k++ {
			if !covered[Dot{NodeID: node, Counter: k}] {
				return true
			}
		}
	}
	return false
}

func (w *c39World) update(s c39Step) {
	x, typ, r := w.x, w.c.Type, s.R
	node := c39Nodes[r]
	cur := w.store[r]
	if cur == nil {
		cur = c39Initial(typ)
	}
	lo, hi := w.lo[r], w.hi[r]
	eff := c39NewModel() // the bare effect of this update
	removedDots := map[Dot]bool{}
	addedHere := map[int]bool{}
	addrem := false
	newDot := func(e int) c39Dot {
		d := c39Dot{R: r, S: w.seq[r]}
		w.seq[r]++
		lo.adds[d], hi.adds[d], eff.adds[d] = e, e, e
		return d
	}
	kill := func(e int, all bool) {
		for d, el := range lo.adds {
			if all || el == e {
				if _, dead := lo.tomb[d]; !dead {
					lo.tomb[d] = struct{}{}
					eff.tomb[d] = struct{}{}
				}
			}
		}
		for d, el := range hi.adds {
			if all || el == e {
				hi.tomb[d] = struct{}{}
			}
		}
	}
	for _, sub := range s.Subs {
		switch typ {
		case c39TGCounter, c39TPNCounter:
			amt := c39Amounts[sub.Val%len(c39Amounts)]
			if typ == c39TGCounter || sub.Op%2 == 0 {
				if typ == c39TGCounter {
					cur = cur.(*GCounter).Increment(node, amt)
				} else {
					cur = cur.(*PNCounter).Increment(node, amt)
				}
				lo.inc[r] += amt
				hi.inc[r] = lo.inc[r]
				eff.inc[r] = lo.inc[r]
			} else {
				cur = cur.(*PNCounter).Decrement(node, amt)
				lo.dec[r] += amt
				hi.dec[r] = lo.dec[r]
				eff.dec[r] = lo.dec[r]
			}
		case c39TFlag:
			cur = cur.(*Flag).Enable()
			lo.flag, hi.flag, eff.flag = true, true, true
		case c39TLWW:
			seen := int64(0)
			if lo.has {
				seen = lo.ts
			}
			base := seen
			if w.ownTS[r] > base {
				base = w.ownTS[r]
			}
			var ts int64
			if s.TSD > 0 {
				ts = base + int64(s.TSD)
			} else {
				cand := seen + int64(s.TSD)
				// a node's own clock is strictly increasing; clocks of different nodes may be skewed
				if cand > w.ownTS[r] && cand >= 1 && !x.Known(c39FPLWWOlder) {
					ts = cand
					if lo.has && c39LWWLess(ts, node, lo.ts, lo.node) {
						w.lwwOlder = true
						x.Class("lww_set_below_seen_timestamp")
					}
				} else {
					ts = base + 1 + int64(-s.TSD)
				}
			}
			w.ownTS[r] = ts
			cur = cur.(*LWWRegister).Set(sub.Val, time.Unix(0, ts), node)
			// the documented rule: the greatest (timestamp,nodeID) wins
			wr := &c39Model{has: true, ts: ts, node: node, val: sub.Val}
			lo.merge(wr)
			hi.merge(wr)
		case c39TMV:
			cur = cur.(*MVRegister).Set(node, sub.Val)
			kill(0, true)
			newDot(sub.Val)
		case c39TORSet:
			set := cur.(*ORSet)
			el := c39Elems[sub.Elem]
			if sub.Op < 3 {
				cur = set.Add(node, el)
				newDot(sub.Elem)
				addedHere[sub.Elem] = true
				w.addAt[sub.Elem] |= 1 << r
			} else {
				if addedHere[sub.Elem] {
					if x.Known(c39FPAddRem) {
						x.Class("orset_add_then_remove_in_one_update_skipped")
						continue
					}
					addrem = true
					x.Class("orset_add_then_remove_in_one_update")
				}
				entries, _ := set.RawState()
				for _, e := range entries {
					if e.Element == el {
						for _, d := range e.Dots {
							removedDots[d] = true
						}
					}
				}
				cur = set.Remove(el)
				kill(sub.Elem, false)
				w.remAt[sub.Elem] |= 1 << r
			}
		case c39TORMapGC, c39TORMapSet:
			m := cur.(*ORMap)
			key := c39Elems[sub.Elem]
			if sub.Op < 3 {
				if typ == c39TORMapGC {
					amt := c39Amounts[sub.Val%len(c39Amounts)]
					g := NewGCounter()
					if v, ok := m.Get(key); ok {
						g = v.(*GCounter)
					}
					cur = m.Set(node, key, g.Increment(node, amt))
					lower, upper := c39CounterBounds(lo, hi, sub.Elem)
					lower[r] += amt
					upper[r] += amt
					d := newDot(sub.Elem)
					lo.kv[d], hi.kv[d], eff.kv[d] = lower, upper, lower
				} else {
					set := NewORSet()
					if v, ok := m.Get(key); ok {
						set = v.(*ORSet)
					}
					el := c39Elems[sub.Val%len(c39Elems)]
					if sub.Op == 2 {
						set = set.Remove(el)
					} else {
						set = set.Add(node, el)
					}
					cur = m.Set(node, key, set)
					newDot(sub.Elem)
				}
				w.addAt[sub.Elem] |= 1 << r
			} else {
				if _, ok := m.Get(key); ok {
					w.removedK[sub.Elem] = true
				}
				cur = m.Remove(key)
				kill(sub.Elem, false)
				w.remAt[sub.Elem] |= 1 << r
			}
		}
	}
	// the recipe of replicatorActor.handleUpdate
	updated := cur
	delta := updated.Delta()
	updated.ResetDelta()
	w.store[r] = updated
	if delta != nil {
		msg := c39Msg{origin: r, payload: delta, lo: eff, hi: hi.clone(), addrem: addrem}
		switch typ {
		case c39TFlag, c39TLWW, c39TMV, c39TORMapGC, c39TORMapSet:
			// documented: "Delta returns the ... state if it has changed" — the whole state is shipped
			msg.lo = lo.clone()
		case c39TORSet:
			if c39Overclaims(delta.(*ORSet), removedDots) {
				if x.Known(c39FPOverclaim) {
					// known finding: such an update is disseminated as full state instead (what anti-entropy
					// does), so that the search goes on behind it
					x.Class("orset_overclaiming_delta_sent_as_full_state")
					msg.payload = c39Wire(updated)
					msg.lo = lo.clone()
				} else {
					msg.overclaim = true
					x.Class("orset_overclaiming_delta")
				}
			} else {
				x.Class("orset_exact_delta")
			}
		}
		w.msgs = append(w.msgs, msg)
		w.sameOrig[r]++
	} else {
		x.Class("update_without_delta")
	}
	w.check(r, "its own update")
}

func (w *c39World) absorb(r int, data ReplicatedData) {
	cur := w.store[r]
	if cur == nil {
		w.store[r] = data
		return
	}
	w.store[r] = cur.Merge(data)
}

func (w *c39World) deliver(r, id int, phase string) {
	m := w.msgs[id]
	w.absorb(r, c39Wire(m.payload))
	w.lo[r].merge(m.lo)
	w.hi[r].merge(m.hi)
	if m.overclaim {
		w.taintOC[r] = true
	}
	if m.addrem {
		w.taintAR[r] = true
	}
	w.got[r] = append(w.got[r], id)
	w.check(r, phase)
}

func c39Exec(x *vfkit.X, c c39Case) {
	w := &c39World{x: x, c: c,
		store: make([]ReplicatedData, c.N), lo: make([]*c39Model, c.N), hi: make([]*c39Model, c.N), seq: make([]int, c.N),
		ownTS: make([]int64, c.N), taintOC: make([]bool, c.N), taintAR: make([]bool, c.N), got: make([][]int, c.N),
		removedK: map[int]bool{}, addAt: map[int]int{}, remAt: map[int]int{}}
	for i := 0; i < c.N; i++ {
		w.lo[i], w.hi[i] = c39NewModel(), c39NewModel()
	}
	x.Class("type_" + c39TypeNames[c.Type])
	for i, s := range c.Steps {
		switch s.Kind {
		case 0:
			w.update(s)
		case 1:
			if len(w.msgs) == 0 {
				continue
			}
			id := s.Msg % len(w.msgs)
			r := s.R
			if o := w.msgs[id].origin; o == r {
				// the replicator ignores deltas of its own origin: hand it to another replica instead
				r = (o + 1 + s.Alt%(c.N-1)) % c.N
			}
			w.deliver(r, id, fmt.Sprintf("step %d (delivery of delta #%d from replica %d)", i, id, w.msgs[id].origin))
		case 2:
			if s.From == s.R || w.store[s.From] == nil {
				continue
			}
			w.fullPush++
			w.absorb(s.R, c39Wire(w.store[s.From]))
			w.lo[s.R].merge(w.lo[s.From])
			w.hi[s.R].merge(w.hi[s.From])
			w.taintOC[s.R] = w.taintOC[s.R] || w.taintOC[s.From]
			w.taintAR[s.R] = w.taintAR[s.R] || w.taintAR[s.From]
			w.check(s.R, fmt.Sprintf("step %d (full state from replica %d)", i, s.From))
		case 3:
			if w.store[s.R] == nil {
				continue
			}
			if cd, ok := w.store[s.R].(Compactable); ok {
				w.store[s.R] = cd.CompactData()
				x.Class("compacted")
				w.check(s.R, fmt.Sprintf("step %d (compaction)", i))
			}
		}
	}
	// the premise of the property: every delta eventually reaches every other replica
	type pair struct{ r, id int }
	var todo []pair
	for id, m := range w.msgs {
		for r := 0; r < c.N; r++ {
			if r == m.origin {
				continue
			}
			seen := false
			for _, g := range w.got[r] {
				if g == id {
					seen = true
				}
			}
			if !seen {
				todo = append(todo, pair{r, id})
			}
		}
	}
	for i := 0; i < len(todo)-1; i++ {
		j := i + c.Tail[i%len(c.Tail)]%(len(todo)-i)
		todo[i], todo[j] = todo[j], todo[i]
	}
	for _, p := range todo {
		w.deliver(p.r, p.id, fmt.Sprintf("final delivery of delta #%d", p.id))
	}

	// all replicas have now seen the same updates: same value everywhere, equal to the merge of the full states
	knownOld := x.Known(c39FPORMapOld)
	first := -1
	var firstMain, firstLabel string
	var firstKeys map[string]string
	same := func(label string, r int, v ReplicatedData) {
		gm, gk, bad := c39Obs(v)
		if bad != "" {
			x.Failf("accessors-disagree-"+c39TypeNames[c.Type], "%s: %s", label, bad)
		}
		if first < 0 {
			first, firstMain, firstKeys, firstLabel = r, gm, gk, label
			return
		}
		if gm != firstMain {
			x.Failf(w.fingerprint(r, "diverged"), "after every delta reached every replica %s exposes %s but %s exposes %s", label, gm, firstLabel, firstMain)
		}
		for k, v1 := range firstKeys {
			if gk[k] != v1 {
				if knownOld && w.keyRemoved(k) {
					continue
				}
				x.Failf(w.fingerprint(r, "diverged"), "after every delta reached every replica %s holds %s under key %s but %s holds %s", label, gk[k], k, firstLabel, v1)
			}
		}
	}
	nstores, tainted := 0, 0
	for r := 0; r < c.N; r++ {
		if w.store[r] != nil {
			nstores++
			same(fmt.Sprintf("replica %d", r), r, w.store[r])
		}
		if w.taintOC[r] || w.taintAR[r] {
			tainted = r
		}
	}
	if nstores >= 2 {
		var fwd, bwd ReplicatedData
		for r := 0; r < c.N; r++ {
			if w.store[r] == nil {
				continue
			}
			if fwd == nil {
				fwd = c39Wire(w.store[r])
			} else {
				fwd = fwd.Merge(c39Wire(w.store[r]))
			}
		}
		for r := c.N - 1; r >= 0; r-- {
			if w.store[r] == nil {
				continue
			}
			if bwd == nil {
				bwd = c39Wire(w.store[r])
			} else {
				bwd = bwd.Merge(c39Wire(w.store[r]))
			}
		}
		same("the merge of all final full states (ascending)", tainted, fwd)
		same("the merge of all final full states (descending)", tainted, bwd)
	}

	// non-triviality: several deltas from one originator or an add/remove pair on different replicas,
	// delivered in a non-identity order (re-ordered, duplicated) or mixed with full-state exchange
	multi := false
	for _, n := range w.sameOrig {
		if n >= 2 {
			multi = true
		}
	}
	cross := false
	for e, a := range w.addAt {
		if rm := w.remAt[e]; rm != 0 && (rm&^a != 0 || a&^rm != 0) {
			cross = true
		}
	}
	reordered := false
	for _, g := range w.got {
		for i := 1; i < len(g); i++ {
			if g[i] <= g[i-1] {
				reordered = true
			}
		}
	}
	if multi {
		x.Class("several_deltas_same_origin")
	}
	if cross {
		x.Class("add_remove_on_different_replicas")
	}
	if reordered {
		x.Class("reordered_or_duplicated_delivery")
	}
	if w.fullPush > 0 {
		x.Class("full_state_exchange")
	}
	if len(w.removedK) > 0 {
		x.Class("ormap_key_removed")
	}
	if (multi || cross) && (reordered || w.fullPush > 0) {
		x.NonTrivial()
	}
}

func (w *c39World) keyRemoved(keyStr string) bool {
	for e := range w.removedK {
		if c39Any(c39Elems[e]) == keyStr {
			return true
		}
	}
	return false
}

func TestVF_C39_crdt(t *testing.T) {
	vfkit.Run(t, vfkit.Spec[c39Case]{
		ID: "C39", Unit: "crdt",
		Rule: "case = CRDT type, 2-3 replicas, <=14 steps (local update of 1-3 operations through the replicator's update recipe, delivery of an already published delta to another replica, full-state push, compaction) followed by delivery of every outstanding delta in a generated order; non-trivial = (>=2 deltas from one originator or an add and a remove of the same element on different replicas) and (some receiver got deltas out of publication order / duplicated, or a full-state exchange happened); distinct = distinct case",
		Gen:  c39Gen, Exec: c39Exec,
	})
}

//go:build verif

package actor

import (
	"fmt"
	"testing"

	"pgregory.net/rapid"

	"github.com/tochemey/goakt/v4/internal/vfe3"
	"github.com/tochemey/goakt/v4/internal/vfkit"
	"github.com/tochemey/goakt/v4/internal/vfsched"
)

// C05 — the dispatcher never loses or duplicates a scheduled actor.
//
// Engine E3 on the real readyQueue / worker.run / dispatcher (import-swapped:
// every atomic, mutex and cond operation is a scheduling point; the shim Cond
// parks cooperatively, so "all workers parked" is an exact end-state predicate).

type c05Ticket struct {
	Local []c05Ticket `json:"local,omitempty"` // tickets pushed to the running worker's local ring when this one runs
}

type c05Case struct {
	Workers   int           `json:"workers"`
	Producers [][]c05Ticket `json:"producers"` // external pushes (global ring)
}

func c05GenTicket(t *rapid.T, depth int) c05Ticket {
	var tk c05Ticket
	if depth >= 2 {
		return tk
	}
	n := rapid.SampledFrom([]int{0, 0, 0, 1, 2, 3, 5, 6}).Draw(t, "locals")
	if depth == 1 && n > 2 {
		n = 2
	}
	for i := 0; i < n; i++ {
		tk.Local = append(tk.Local, c05GenTicket(t, depth+1))
	}
	return tk
}

func c05Gen(t *rapid.T) c05Case {
	c := c05Case{Workers: rapid.IntRange(2, 3).Draw(t, "workers")}
	np := rapid.IntRange(1, 2).Draw(t, "producers")
	for p := 0; p < np; p++ {
		n := rapid.IntRange(1, 4).Draw(t, "pushes")
		var ts []c05Ticket
		for i := 0; i < n; i++ {
			ts = append(ts, c05GenTicket(t, 0))
		}
		c.Producers = append(c.Producers, ts)
	}
	return c
}

type c05State struct {
	x        *vfkit.X
	pushed   int // tickets handed to the queue so far
	runs     map[int]int
	pushedID map[int]bool
	nextID   int
	stolen   bool
	overflow bool
	fail     string
	failFP   string
}

type c05Item struct {
	st     *c05State
	id     int
	spec   c05Ticket
	pusher int // worker id that pushed it locally, -1 for external
}

func (it *c05Item) runTurn(w *worker) {
	st := it.st
	st.runs[it.id]++
	if st.runs[it.id] > 1 && st.fail == "" {
		st.fail = fmt.Sprintf("ticket %d was run %d times for one push", it.id, st.runs[it.id])
		st.failFP = "ticket-run-twice"
	}
	if !st.pushedID[it.id] && st.fail == "" {
		st.fail = fmt.Sprintf("ticket %d ran but was never pushed", it.id)
		st.failFP = "unknown-ticket-run"
	}
	if it.pusher >= 0 && it.pusher != w.id {
		st.stolen = true // ran on another worker: stolen or spilled to the global ring
	}
	if len(it.spec.Local) > localQueueCap {
		st.overflow = true
	}
	for _, child := range it.spec.Local {
		c := &c05Item{st: st, id: st.nextID, spec: child, pusher: w.id}
		st.nextID++
		st.pushedID[c.id] = true
		st.pushed++
		w.reschedule(c)
	}
	vfsched.OpEnd() // a turn is an operation boundary of the worker thread
}

func c05Exec(x *vfkit.X, c c05Case) {
	d := newDispatcher(c.Workers, dispatcherThroughput)
	rq := d.readyQueue
	st := &c05State{x: x, runs: map[int]int{}, pushedID: map[int]bool{}}
	s := vfsched.New()
	s.MaxSteps = 20000
	producersDone := 0
	pushRacedPark := false
	for i := 0; i < c.Workers; i++ {
		w := d.workers[i]
		s.Go(fmt.Sprintf("worker%d", i), func() { w.run() })
	}
	for pi, ts := range c.Producers {
		pi, ts := pi, ts
		s.Go(fmt.Sprintf("producer%d", pi), func() {
			for _, tk := range ts {
				it := &c05Item{st: st, id: st.nextID, spec: tk, pusher: -1}
				st.nextID++
				st.pushedID[it.id] = true
				st.pushed++
				if rq.parked > 0 {
					pushRacedPark = true
				}
				d.schedule(it)
				vfsched.OpEnd()
			}
			producersDone++
		})
	}
	closed := false
	s.Go("closer", func() {
		// quiescence: every producer finished and every worker is parked in the cond
		vfsched.BlockUntil(func() bool { return producersDone == len(c.Producers) && rq.parked == c.Workers && rq.cond.Waiting() == c.Workers })
		if st.fail == "" {
			ran := 0
			for _, n := range st.runs {
				ran += n
			}
			queued := rq.global.size
			for _, l := range rq.locals {
				queued += l.size
			}
			switch {
			case queued > 0:
				st.fail = fmt.Sprintf("all %d workers are parked while %d ticket(s) are still queued (global=%d)", c.Workers, queued, rq.global.size)
				st.failFP = "all-parked-with-work-queued"
			case ran != st.pushed:
				st.fail = fmt.Sprintf("%d tickets pushed, %d runs, queues empty: tickets were lost", st.pushed, ran)
				st.failFP = "ticket-lost"
			}
		}
		closed = true
		d.readyQueue.close()
	})
	// state invariant, evaluated between steps whenever the park mutex is free: work in the
	// global ring together with a parked worker implies that a wake-up is in flight (push
	// signals under the same lock that parkAndTake uses to decide to park)
	s.OnStep = func() {
		if st.fail == "" && !rq.parkMu.Held() && !rq.closed && rq.global.size > 0 && rq.parked > 0 && rq.cond.Waiting() == rq.parked {
			st.fail = fmt.Sprintf("global ring holds %d ticket(s), %d worker(s) are parked and none of them has been signalled", rq.global.size, rq.parked)
			st.failFP = "parked-worker-unsignalled-with-global-work"
		}
	}
	out := s.Run(vfe3.Picker(x))
	for _, th := range s.Threads() {
		if th.Panic != nil {
			x.Failf("panic", "thread %s panicked: %v\n%s", th.Name, th.Panic, th.Stack)
		}
	}
	if st.stolen {
		x.Class("ran_on_other_worker(steal_or_spill)")
	}
	if st.overflow {
		x.Class("local_ring_overflow")
	}
	if pushRacedPark {
		x.Class("push_while_worker_parked")
	}
	if s.Preempts > 0 {
		x.Class("preempted")
	}
	if (st.stolen || st.overflow || pushRacedPark) && s.Preempts > 0 {
		x.NonTrivial()
	}
	x.Note("steps", s.Steps)
	if st.fail != "" {
		x.Failf(st.failFP, "%s", st.fail)
	}
	switch out {
	case vfsched.StepBudget:
		x.Class("inconclusive_step_budget")
	case vfsched.Deadlock:
		if closed {
			x.Failf("worker-did-not-exit-after-close", "dispatcher closed but not every worker exited: %s", s.Describe())
		}
		x.Failf("deadlock-before-quiescence", "no runnable thread before quiescence: %s (parked=%d waiting=%d global=%d)", s.Describe(), rq.parked, rq.cond.Waiting(), rq.global.size)
	}
}

func TestVF_C05_readyqueue(t *testing.T) {
	vfkit.Run(t, vfkit.Spec[c05Case]{
		ID: "C05", Unit: "readyqueue",
		Rule: "cases = 2-3 real worker loops on a real dispatcher/readyQueue (localQueueCap=4, globalQueueInitialCap=2 in the overlay), 1-2 external producers pushing 1-4 tickets whose run pushes 0-6 further tickets on the running worker's local ring (depth<=2), a closer that closes at quiescence; drawn pre-emption-bounded interleaving of every atomic/mutex/cond operation; non-trivial = a ticket ran on a worker other than the one that pushed it locally (steal or spill), or a local ring overflowed, or a push happened while a worker was parked, and >=1 forced pre-emption; distinct = distinct (program, schedule)",
		Gen:  c05Gen, Exec: c05Exec,
	})
}

//go:build verif

package actor

// C41 — deleted CRDT keys stay deleted until their tombstone expires.
//
// E5 replica network: 2-3 real replicatorActor instances are spawned in one plain actor
// system (the crdt config extension is registered by the harness, tombstone TTL = 1 h,
// all schedules off). After PostStart every replica's topicActor is pointed at a capture
// actor and its clusterRef / remoting are replaced by harness fakes, so that
//
//   * everything a replica publishes to the CRDT topic (CRDTDelta, CRDTTombstone),
//   * everything it sends to a peer through remoting (coordinated-write deltas,
//     coordinated-delete tombstones, anti-entropy digests),
//   * every full-state reply to a digest
//
// ends up in the harness-owned pool instead of at a peer. The generated plan decides which
// pooled message reaches which replica, in which order, how often (duplicates) or never
// (drop), when anti-entropy rounds are started and between whom, and which peers a
// coordinated operation sees. Coordinated reads (RemoteAsk) are answered synchronously by
// the real peer replicator (its handleReadRequest), as real remoting does.
//
// The harness is sequential: one message is in flight at a time and every step ends with
// an Ask barrier on the acting replica and on the capture actor, so the history is a
// function of the case only.
//
// Oracle (from the property statement and architecture/CRDTs.md §9.6 "While a tombstone is
// active, updates and deltas for that key are rejected to prevent resurrection"): once
// replica r has processed a tombstone for key k (its own Delete, or a delivered
// CRDTTombstone), then after every later step r's store has no entry for k and a local
// Get(k) at r returns no data; an Update of k at r publishes nothing. The tombstone TTL is
// one hour, so no tombstone expires inside a case (pruneTick is part of the domain and
// must not expire anything).

import (
	"context"
	"errors"
	"fmt"
	"os"
	"sort"
	"strings"
	"sync"
	"sync/atomic"
	"testing"
	"time"

	"google.golang.org/protobuf/proto"
	"pgregory.net/rapid"

	"github.com/tochemey/goakt/v4/crdt"
	gerrors "github.com/tochemey/goakt/v4/errors"
	"github.com/tochemey/goakt/v4/internal/address"
	"github.com/tochemey/goakt/v4/internal/cluster"
	"github.com/tochemey/goakt/v4/internal/codec"
	"github.com/tochemey/goakt/v4/internal/internalpb"
	"github.com/tochemey/goakt/v4/internal/remoteclient"
	"github.com/tochemey/goakt/v4/internal/vfkit"
	"github.com/tochemey/goakt/v4/log"
)

// ---- case ----------------------------------------------------------------------------

const (
	c41KUpdate = iota
	c41KDelete
	c41KGet
	c41KDeliver
	c41KAntiEntropy
	c41KPrune
	c41KExchange // anti-entropy tick + immediate delivery of the digest (+ of the reply unless Keep)
)

const (
	c41TGCounter = iota
	c41TPNCounter
	c41TORSet
	c41TFlag
	c41TLWW
	c41TMV
	c41NTypes
)

var c41TypeNames = [...]string{"gcounter", "pncounter", "orset", "flag", "lww", "mv"}
var c41KeyIDs = [...]string{"k0", "k1"}

// Fingerprint of the one defect found on the unchanged tree (F-C41-1).
//
// What fails: a replica that holds a tombstone for k answers Get{Key: k, ReadFrom:
// Majority|All} with the value a peer still holds AND writes it back into its own store
// (actor/replicator.go handleGet: `r.store[keyID] = merged` after coordinatedRead, the one
// writer of r.store without a tombstone check). Every later local Get(k) there returns the
// deleted key, although the tombstone is active.
// Minimal case (2 replicas, GCounter): r1 Update(k0); r0 Delete(k0); r0 Get(k0, Majority,
// view=[r1]) -> *crdt.GCounter instead of nil, r0.store[k0] set.
// Proposed fix: ../proposed-fix-coordinated-get.diff (answer nil for a tombstoned key at
// the top of handleGet); with it and the finding not listed the check is silent.
// While the fingerprint is listed as known, a coordinated Get at a tombstoned replica whose
// listed peer still holds the key is downgraded to a local Get; everything else is judged.
const c41FPCoordRead = "tombstoned-key-resurrected-by-coordinated-get"

type c41Step struct {
	Kind  int  `json:"k"`
	R     int  `json:"r"`               // acting replica
	Key   int  `json:"key,omitempty"`   // key index
	V     int  `json:"v,omitempty"`     // update: operation selector
	Co    int  `json:"co,omitempty"`    // coordination level: 0 none, 1 Majority, 2 All
	Peers int  `json:"peers,omitempty"` // bit mask: the peers the acting replica's cluster view lists
	Sel   int  `json:"sel,omitempty"`   // deliver: which candidate
	Mode  int  `json:"mode,omitempty"`  // deliver: candidate filter
	Keep  bool `json:"keep,omitempty"`  // deliver: leave the message in the pool (it can be delivered again)
}

type c41Case struct {
	N     int       `json:"n"`
	Types []int     `json:"types"` // data type of key i
	Steps []c41Step `json:"steps"`
}

func c41Gen(t *rapid.T) c41Case {
	var c c41Case
	c.N = rapid.IntRange(2, 3).Draw(t, "n")
	nk := rapid.IntRange(1, 2).Draw(t, "nkeys")
	for i := 0; i < nk; i++ {
		c.Types = append(c.Types, rapid.IntRange(0, c41NTypes-1).Draw(t, "type"))
	}
	ns := rapid.IntRange(3, 30).Draw(t, "nsteps")
	for i := 0; i < ns; i++ {
		var s c41Step
		w := rapid.IntRange(0, 99).Draw(t, "kind")
		switch {
		case w < 22:
			s.Kind = c41KUpdate
		case w < 33:
			s.Kind = c41KDelete
		case w < 40:
			s.Kind = c41KGet
		case w < 78:
			s.Kind = c41KDeliver
		case w < 84:
			s.Kind = c41KAntiEntropy
		case w < 96:
			s.Kind = c41KExchange
		default:
			s.Kind = c41KPrune
		}
		s.R = rapid.IntRange(0, c.N-1).Draw(t, "r")
		switch s.Kind {
		case c41KUpdate, c41KDelete, c41KGet:
			s.Key = rapid.IntRange(0, nk-1).Draw(t, "key")
			if s.Kind == c41KUpdate {
				s.V = rapid.IntRange(0, 5).Draw(t, "v")
			}
			// mostly local-first operations, sometimes coordinated ones
			s.Co = []int{0, 0, 0, 0, 0, 1, 1, 2}[rapid.IntRange(0, 7).Draw(t, "co")]
			if s.Kind == c41KGet {
				s.Co = []int{0, 1, 1, 2}[rapid.IntRange(0, 3).Draw(t, "gco")]
			}
			if s.Co != 0 {
				s.Peers = rapid.IntRange(0, 1<<c.N-1).Draw(t, "peers")
			}
		case c41KDeliver:
			s.Sel = rapid.IntRange(0, 63).Draw(t, "sel")
			s.Mode = []int{0, 0, 0, 0, 1, 1, 1, 2, 2, 3}[rapid.IntRange(0, 9).Draw(t, "mode")]
			s.Keep = rapid.IntRange(0, 3).Draw(t, "keep") == 0
		case c41KAntiEntropy:
			s.Peers = rapid.IntRange(0, c.N-2).Draw(t, "peer") // index into the other replicas
		case c41KExchange:
			s.Peers = rapid.IntRange(0, c.N-2).Draw(t, "peer")
			s.Mode = rapid.IntRange(0, 2).Draw(t, "xmode") // 0: as drawn; else: prefer a tombstoned initiator whose peer holds the key
			s.Keep = rapid.IntRange(0, 3).Draw(t, "xkeep") == 0 // leave the reply pooled
		}
		c.Steps = append(c.Steps, s)
	}
	return c
}

// ---- harness-owned network -----------------------------------------------------------

const c41PortBase = 9100

const (
	c41MDelta       = iota // CRDTDelta published to the topic
	c41MTomb               // CRDTTombstone published to the topic
	c41MDirectDelta        // CRDTDelta sent to one peer (coordinated write)
	c41MDirectTomb         // CRDTTombstone sent to one peer (coordinated delete)
	c41MDigest             // CRDTDigest sent to one peer (anti-entropy)
	c41MFull               // CRDTFullState reply to a digest
)

var c41MsgNames = [...]string{"delta", "tombstone", "direct-delta", "direct-tombstone", "digest", "full-state"}

type c41Raw struct {
	from int
	to   int // -1: topic publication / reply to the capture actor
	msg  proto.Message
}

type c41Msg struct {
	id     int
	kind   int
	origin int
	target int // -1: topic (any replica)
	pb     proto.Message
	keys   []int // key indexes the message carries
	step   int   // step that created it
}

type c41Pair struct {
	m      *c41Msg
	target int
}

type c41Net struct {
	n    int
	pids []*PID
	acts []*replicatorActor
	byID map[string]int

	mu     sync.Mutex
	direct []c41Raw // captured by the remoting fake (synchronously, in the sender's turn)
	topic  []c41Raw // captured by the capture actor
	views  [][]int  // cluster view of each replica (set by the harness before a step)
}

var (
	c41Sys     ActorSystem
	c41Capture *PID
	c41Cur     atomic.Pointer[c41Net]
	c41Seq     atomic.Int64
)

const c41Cap = 20 * time.Second

type c41Sync struct{}

// c41CaptureActor stands in for the topic actor and for the remote sender of digests.
type c41CaptureActor struct{}

func (c41CaptureActor) PreStart(*Context) error { return nil }
func (c41CaptureActor) PostStop(*Context) error { return nil }
func (c41CaptureActor) Receive(ctx *ReceiveContext) {
	switch m := ctx.Message().(type) {
	case c41Sync:
		ctx.Response(c41Sync{})
	case *Publish:
		if pm, ok := m.Message().(proto.Message); ok && m.Topic() == crdtTopic {
			c41Record(ctx.Sender(), pm)
		}
	case *internalpb.CRDTFullState:
		c41Record(ctx.Sender(), m)
	}
}

func c41Record(sender *PID, m proto.Message) {
	net := c41Cur.Load()
	if net == nil || sender == nil {
		return
	}
	idx, ok := net.byID[sender.ID()]
	if !ok {
		return
	}
	net.mu.Lock()
	net.topic = append(net.topic, c41Raw{from: idx, to: -1, msg: m})
	net.mu.Unlock()
}

// c41Cluster is the cluster view of one replica: only Peers is ever called by the replicator
// paths in the domain (IsLeader belongs to the cross-datacenter paths, which are off).
type c41Cluster struct {
	cluster.Cluster
	net  *c41Net
	self int
}

func (f *c41Cluster) Peers(context.Context) ([]*cluster.Peer, error) {
	f.net.mu.Lock()
	view := append([]int(nil), f.net.views[f.self]...)
	f.net.mu.Unlock()
	peers := make([]*cluster.Peer, 0, len(view))
	for _, p := range view {
		peers = append(peers, &cluster.Peer{Host: "127.0.0.1", RemotingPort: c41PortBase + p})
	}
	return peers, nil
}

func (f *c41Cluster) IsLeader(context.Context) bool { return false }

// c41Remoting is the remoting client of one replica.
type c41Remoting struct {
	remoteclient.Client
	net  *c41Net
	self int
}

func (f *c41Remoting) RemoteLookup(_ context.Context, host string, port int, name string) (*address.Address, error) {
	return address.New(name, "vfC41", host, port), nil
}

func (f *c41Remoting) RemoteTell(_ context.Context, _, to *address.Address, message any) error {
	pm, ok := message.(proto.Message)
	if !ok {
		return fmt.Errorf("c41: not a proto message: %T", message)
	}
	t := to.Port() - c41PortBase
	if t < 0 || t >= f.net.n {
		return fmt.Errorf("c41: unknown peer %s", to.String())
	}
	f.net.mu.Lock()
	f.net.direct = append(f.net.direct, c41Raw{from: f.self, to: t, msg: proto.Clone(pm)})
	f.net.mu.Unlock()
	return nil
}

// RemoteAsk is answered by the real peer replicator, synchronously, like real remoting.
func (f *c41Remoting) RemoteAsk(ctx context.Context, _, to *address.Address, message any, timeout time.Duration) (any, error) {
	pm, ok := message.(proto.Message)
	if !ok {
		return nil, fmt.Errorf("c41: not a proto message: %T", message)
	}
	t := to.Port() - c41PortBase
	if t < 0 || t >= f.net.n || t == f.self {
		return nil, fmt.Errorf("c41: unknown peer %s", to.String())
	}
	resp, err := Ask(context.WithoutCancel(ctx), f.net.pids[t], proto.Clone(pm), timeout)
	if err != nil {
		return nil, err
	}
	if rp, ok := resp.(proto.Message); ok {
		return proto.Clone(rp), nil
	}
	return resp, nil
}

func c41Start(t *testing.T) {
	ctx := context.Background()
	sys, err := NewActorSystem("vfC41", WithLogger(log.DiscardLogger))
	if err != nil {
		t.Fatalf("NewActorSystem: %v", err)
	}
	if err := sys.Start(ctx); err != nil {
		t.Fatalf("Start: %v", err)
	}
	t.Cleanup(func() { _ = sys.Stop(context.Background()) })
	// what spawnReplicator does in production, with the schedules switched off (their
	// references are per-system constants) and a TTL no case can outlive
	cfg := crdt.NewConfig(
		crdt.WithTombstoneTTL(time.Hour),
		crdt.WithAntiEntropyInterval(0),
		crdt.WithPruneInterval(0),
	)
	sys.(*actorSystem).extensions.Set(crdtConfigExtensionID, &crdtConfigExtension{config: cfg})
	cp, err := sys.Spawn(ctx, "c41-capture", c41CaptureActor{}, WithLongLived())
	if err != nil {
		t.Fatalf("spawn capture: %v", err)
	}
	c41Sys, c41Capture = sys, cp
}

type c41Inconclusive struct{ why string }

// ---- execution -----------------------------------------------------------------------

type c41Run struct {
	x    *vfkit.X
	c    c41Case
	net  *c41Net
	keys []crdt.Key
	pool []c41Pair
	nmsg int
	tomb [][]bool // tomb[r][k]: replica r has processed a tombstone for key k
	// step at which key k was first deleted anywhere (-1: not yet)
	firstDelete []int
	step        int
}

func c41Key(typ int, id string) crdt.Key {
	switch typ {
	case c41TGCounter:
		return crdt.GCounterKey(id)
	case c41TPNCounter:
		return crdt.PNCounterKey(id)
	case c41TORSet:
		return crdt.ORSetKey(id)
	case c41TFlag:
		return crdt.FlagKey(id)
	case c41TLWW:
		return crdt.LWWRegisterKey(id)
	default:
		return crdt.MVRegisterKey(id)
	}
}

var c41Elems = [...]string{"x", "y", "z"}

// c41Update builds the Update message replica `node` sends for a key of type typ.
func c41Update(key crdt.Key, typ int, node string, v, step int, co crdt.Coordination) *crdt.Update {
	u := &crdt.Update{Key: key, WriteTo: co}
	switch typ {
	case c41TGCounter:
		u.Initial = crdt.NewGCounter()
		u.Modify = func(cur crdt.ReplicatedData) crdt.ReplicatedData {
			return cur.(*crdt.GCounter).Increment(node, uint64(v+1))
		}
	case c41TPNCounter:
		u.Initial = crdt.NewPNCounter()
		u.Modify = func(cur crdt.ReplicatedData) crdt.ReplicatedData {
			if v%2 == 0 {
				return cur.(*crdt.PNCounter).Increment(node, uint64(v+1))
			}
			return cur.(*crdt.PNCounter).Decrement(node, uint64(v))
		}
	case c41TORSet:
		u.Initial = crdt.NewORSet()
		u.Modify = func(cur crdt.ReplicatedData) crdt.ReplicatedData {
			if v < 4 {
				return cur.(*crdt.ORSet).Add(node, c41Elems[v%3])
			}
			return cur.(*crdt.ORSet).Remove(c41Elems[v%3])
		}
	case c41TFlag:
		u.Initial = crdt.NewFlag()
		u.Modify = func(cur crdt.ReplicatedData) crdt.ReplicatedData {
			return cur.(*crdt.Flag).Enable()
		}
	case c41TLWW:
		u.Initial = crdt.NewLWWRegister()
		ts := time.Unix(1_700_000_000, int64(step)*1000)
		u.Modify = func(cur crdt.ReplicatedData) crdt.ReplicatedData {
			return cur.(*crdt.LWWRegister).Set(c41Elems[v%3], ts, node)
		}
	default:
		u.Initial = crdt.NewMVRegister()
		u.Modify = func(cur crdt.ReplicatedData) crdt.ReplicatedData {
			return cur.(*crdt.MVRegister).Set(node, c41Elems[v%3])
		}
	}
	return u
}

func c41Coord(co int) crdt.Coordination {
	switch co {
	case 1:
		return crdt.Majority
	case 2:
		return crdt.All
	}
	return 0
}

func c41NewNet(n int) (*c41Net, error) {
	ctx := context.Background()
	net := &c41Net{n: n, byID: map[string]int{}, views: make([][]int, n)}
	seq := c41Seq.Add(1)
	for i := 0; i < n; i++ {
		act := newReplicatorActor()
		pid, err := c41Sys.Spawn(ctx, fmt.Sprintf("c41-%06d-r%d", seq, i), act, WithLongLived())
		if err != nil {
			net.stop()
			return nil, err
		}
		net.pids = append(net.pids, pid)
		net.acts = append(net.acts, act)
		net.byID[pid.ID()] = i
	}
	// PostStart is the first message of every replica: once a Get has been answered the
	// replica is initialised and idle, and the harness can redirect its outbound paths.
	for i := 0; i < n; i++ {
		if _, err := Ask(ctx, net.pids[i], &crdt.Get{Key: crdt.GCounterKey("c41-warmup")}, c41Cap); err != nil {
			net.stop()
			return nil, err
		}
	}
	for i := 0; i < n; i++ {
		a := net.acts[i]
		if a.pid == nil || a.nodeID != net.pids[i].ID() {
			net.stop()
			return nil, fmt.Errorf("replica %d not initialised (nodeID=%q)", i, a.nodeID)
		}
		a.topicActor = c41Capture
		a.clusterRef = &c41Cluster{net: net, self: i}
		a.remoting = &c41Remoting{net: net, self: i}
	}
	c41Cur.Store(net)
	return net, nil
}

func (net *c41Net) stop() {
	c41Cur.Store(nil)
	for _, p := range net.pids {
		if p != nil {
			_ = p.Shutdown(context.Background())
		}
	}
}

func (r *c41Run) inconclusive(why string) {
	panic(&c41Inconclusive{why: why})
}

// ask sends msg to replica i and waits for the reply. A timeout is never a verdict.
func (r *c41Run) ask(i int, msg any) any {
	resp, err := Ask(context.Background(), r.net.pids[i], msg, c41Cap)
	if err != nil {
		if errors.Is(err, gerrors.ErrRequestTimeout) {
			r.inconclusive("timeout")
		}
		r.alive("ask")
		r.inconclusive("ask_error")
	}
	return resp
}

// alive fails the case when a replica crashed: a restarted replicator has lost its
// tombstones, which would make every later verdict meaningless.
func (r *c41Run) alive(where string) {
	for i, p := range r.net.pids {
		if !p.IsRunning() || p.RestartCount() != 0 {
			r.x.Failf("replicator-crashed-during-"+where, "replica %d running=%v restarts=%d at step %d",
				i, p.IsRunning(), p.RestartCount(), r.step)
		}
	}
}

// settle waits until replica i has handled everything sent to it so far and the capture
// actor has recorded everything the replica sent during that.
func (r *c41Run) settle(i int) {
	r.ask(i, &crdt.Get{Key: r.keys[0]})
	if _, err := Ask(context.Background(), c41Capture, c41Sync{}, c41Cap); err != nil {
		r.inconclusive("capture_timeout")
	}
}

func (r *c41Run) keyIndex(k *internalpb.CRDTKey) int {
	id, _, err := codec.DecodeCRDTKey(k)
	if err != nil {
		return -1
	}
	for i := range r.keys {
		if r.keys[i].ID() == id {
			return i
		}
	}
	return -1
}

// collect turns what the replicas sent during the step into pool entries. replyTo is the
// replica a captured full state is addressed to (the origin of the digest just delivered).
func (r *c41Run) collect(replyTo int) []*c41Msg {
	r.net.mu.Lock()
	raws := append(append([]c41Raw(nil), r.net.direct...), r.net.topic...)
	r.net.direct, r.net.topic = nil, nil
	r.net.mu.Unlock()
	var out []*c41Msg
	for _, raw := range raws {
		m := &c41Msg{id: r.nmsg, origin: raw.from, target: raw.to, pb: raw.msg, step: r.step}
		switch pb := raw.msg.(type) {
		case *internalpb.CRDTDelta:
			m.kind = c41MDelta
			if raw.to >= 0 {
				m.kind = c41MDirectDelta
			}
			m.keys = []int{r.keyIndex(pb.GetKey())}
		case *internalpb.CRDTTombstone:
			m.kind = c41MTomb
			if raw.to >= 0 {
				m.kind = c41MDirectTomb
			}
			m.keys = []int{r.keyIndex(pb.GetKey())}
		case *internalpb.CRDTDigest:
			m.kind = c41MDigest
			for _, e := range pb.GetEntries() {
				m.keys = append(m.keys, r.keyIndex(e.GetKey()))
			}
		case *internalpb.CRDTFullState:
			m.kind = c41MFull
			m.target = replyTo
			for _, e := range pb.GetEntries() {
				m.keys = append(m.keys, r.keyIndex(e.GetKey()))
			}
			if replyTo < 0 {
				r.x.Logf("step %d: unsolicited full state from replica %d ignored", r.step, raw.from)
				continue
			}
		default:
			r.x.Logf("step %d: unexpected captured message %T from replica %d", r.step, raw.msg, raw.from)
			continue
		}
		sort.Ints(m.keys)
		r.nmsg++
		out = append(out, m)
		r.x.Logf("step %d:   captured #%d %s origin=r%d target=%d keys=%v", r.step, m.id, c41MsgNames[m.kind], m.origin, m.target, m.keys)
		if m.target >= 0 {
			r.pool = append(r.pool, c41Pair{m: m, target: m.target})
		} else {
			for t := 0; t < r.net.n; t++ {
				r.pool = append(r.pool, c41Pair{m: m, target: t})
			}
		}
	}
	return out
}

func (r *c41Run) setView(i int, mask int) {
	var view []int
	for p := 0; p < r.net.n; p++ {
		if p != i && mask&(1<<p) != 0 {
			view = append(view, p)
		}
	}
	r.net.mu.Lock()
	r.net.views[i] = view
	r.net.mu.Unlock()
}

// verify is the oracle: every replica that has processed a tombstone for a key holds no
// entry for it and answers a local Get with no data.
func (r *c41Run) verify(cause string) {
	r.alive(cause)
	for i := 0; i < r.net.n; i++ {
		for k := range r.keys {
			if !r.tomb[i][k] {
				continue
			}
			id := r.keys[k].ID()
			// the replica is idle and the last Ask reply orders its writes before this read
			if d, ok := r.net.acts[i].store[id]; ok {
				r.x.Failf("tombstoned-key-resurrected-by-"+cause,
					"step %d: replica r%d processed a tombstone for %s(%s) earlier, but after %s its store holds %T for the key",
					r.step, i, id, c41TypeNames[r.c.Types[k]], cause, d)
			}
			resp := r.ask(i, &crdt.Get{Key: r.keys[k]})
			gr, ok := resp.(*crdt.GetResponse)
			if !ok {
				r.x.Failf("get-unexpected-response", "step %d: Get at r%d answered %T", r.step, i, resp)
			}
			if gr.Data != nil {
				r.x.Failf("tombstoned-key-resurrected-by-"+cause,
					"step %d: replica r%d processed a tombstone for %s earlier, but after %s Get returns %T",
					r.step, i, id, cause, gr.Data)
			}
		}
	}
}

func (r *c41Run) anyTomb(k int) bool {
	for i := range r.tomb {
		if r.tomb[i][k] {
			return true
		}
	}
	return false
}

func (r *c41Run) doUpdate(s c41Step) {
	x := r.x
	co := s.Co
	r.setView(s.R, s.Peers)
	was := r.tomb[s.R][s.Key]
	x.Logf("step %d: update r%d key=%s v=%d co=%d view=%v tombstoned=%v", r.step, s.R, r.keys[s.Key].ID(), s.V, co, r.net.views[s.R], was)
	resp := r.ask(s.R, c41Update(r.keys[s.Key], r.c.Types[s.Key], r.net.pids[s.R].ID(), s.V, r.step, c41Coord(co)))
	if _, ok := resp.(*crdt.UpdateResponse); !ok {
		x.Failf("update-unexpected-response", "step %d: Update at r%d answered %T", r.step, s.R, resp)
	}
	r.settle(s.R)
	msgs := r.collect(-1)
	if was {
		x.Class("update_on_tombstoned_replica")
		if r.firstDelete[s.Key] >= 0 {
			x.Class("update_after_delete")
		}
		if len(msgs) != 0 {
			x.Failf("update-of-tombstoned-key-published", "step %d: replica r%d has a tombstone for %s, yet its Update sent %d message(s), first %s",
				r.step, s.R, r.keys[s.Key].ID(), len(msgs), c41MsgNames[msgs[0].kind])
		}
	} else if r.anyTomb(s.Key) {
		x.Class("update_on_replica_that_missed_the_tombstone")
	}
	if co != 0 && len(r.net.views[s.R]) > 0 {
		x.Class("coordinated_update")
	}
	r.verify("update")
}

func (r *c41Run) doDelete(s c41Step) {
	x := r.x
	r.setView(s.R, s.Peers)
	x.Logf("step %d: delete r%d key=%s co=%d view=%v", r.step, s.R, r.keys[s.Key].ID(), s.Co, r.net.views[s.R])
	_, known := r.net.acts[s.R].keyTypes[r.keys[s.Key].ID()]
	resp := r.ask(s.R, &crdt.Delete{Key: r.keys[s.Key], WriteTo: c41Coord(s.Co)})
	if _, ok := resp.(*crdt.DeleteResponse); !ok {
		x.Failf("delete-unexpected-response", "step %d: Delete at r%d answered %T", r.step, s.R, resp)
	}
	r.settle(s.R)
	r.collect(-1)
	r.tomb[s.R][s.Key] = true
	if r.firstDelete[s.Key] < 0 {
		r.firstDelete[s.Key] = r.step
	}
	if known {
		x.Class("delete_known_key")
	} else {
		x.Class("delete_key_unknown_to_replica")
	}
	if s.Co != 0 && len(r.net.views[s.R]) > 0 && known {
		x.Class("coordinated_delete")
	}
	r.verify("delete")
}

func (r *c41Run) doGet(s c41Step) {
	x := r.x
	co := s.Co
	was := r.tomb[s.R][s.Key]
	r.setView(s.R, s.Peers)
	view := r.net.views[s.R]
	cause := "get"
	if co != 0 && len(view) > 0 {
		cause = "coordinated-get"
		x.Class("coordinated_get")
		if was {
			peerHas := false
			for _, p := range view {
				if _, ok := r.net.acts[p].store[r.keys[s.Key].ID()]; ok {
					peerHas = true
				}
			}
			if peerHas {
				x.Class("coordinated_get_on_tombstoned_replica_peer_has_value")
				if x.Known(c41FPCoordRead) {
					// listed finding: excluded by construction (the read stays local)
					x.Class("coordinated_get_downgraded_known_finding")
					co = 0
					cause = "get"
				} else {
					x.NonTrivial()
				}
			}
		}
	}
	x.Logf("step %d: get r%d key=%s co=%d view=%v tombstoned=%v", r.step, s.R, r.keys[s.Key].ID(), co, view, was)
	resp := r.ask(s.R, &crdt.Get{Key: r.keys[s.Key], ReadFrom: c41Coord(co)})
	gr, ok := resp.(*crdt.GetResponse)
	if !ok {
		x.Failf("get-unexpected-response", "step %d: Get at r%d answered %T", r.step, s.R, resp)
	}
	if was && gr.Data != nil {
		x.Failf("tombstoned-key-resurrected-by-"+cause, "step %d: replica r%d processed a tombstone for %s earlier, but Get(ReadFrom=%d, peers=%v) returns %T",
			r.step, s.R, r.keys[s.Key].ID(), co, view, gr.Data)
	}
	r.settle(s.R)
	r.collect(-1)
	r.verify(cause)
}

// candidates returns the pool indexes the deliver step may pick from.
func (r *c41Run) candidates(mode int) []int {
	var out []int
	for i, p := range r.pool {
		ok := false
		switch mode {
		case 1: // a delta / full-state entry for a key the target has a tombstone for
			if p.m.kind == c41MDelta || p.m.kind == c41MDirectDelta || p.m.kind == c41MFull {
				for _, k := range p.m.keys {
					if k >= 0 && r.tomb[p.target][k] && p.m.origin != p.target {
						ok = true
					}
				}
			}
		case 2: // a tombstone for a replica that has none yet
			if p.m.kind == c41MTomb || p.m.kind == c41MDirectTomb {
				ok = !r.tomb[p.target][p.m.keys[0]]
			}
		case 3: // anti-entropy traffic
			ok = p.m.kind == c41MDigest || p.m.kind == c41MFull
		}
		if ok {
			out = append(out, i)
		}
	}
	if len(out) == 0 {
		for i := range r.pool {
			out = append(out, i)
		}
	}
	return out
}

func (r *c41Run) doDeliver(s c41Step) {
	x := r.x
	cand := r.candidates(s.Mode)
	if len(cand) == 0 {
		x.Class("deliver_nothing_pooled")
		return
	}
	pi := cand[s.Sel%len(cand)]
	p := r.pool[pi]
	if !s.Keep {
		r.pool = append(r.pool[:pi:pi], r.pool[pi+1:]...)
	} else {
		x.Class("deliver_and_keep_for_redelivery")
	}
	r.deliver(p, s.Keep)
}

// deliver hands one pooled message to its target replica and judges the outcome.
func (r *c41Run) deliver(p c41Pair, keep bool) []*c41Msg {
	x := r.x
	m, t := p.m, p.target
	cause := c41MsgNames[m.kind]
	x.Logf("step %d: deliver #%d %s origin=r%d keys=%v (created at step %d) to r%d keep=%v", r.step, m.id, cause, m.origin, m.keys, m.step, t, keep)
	x.Class("deliver_" + strings.ReplaceAll(cause, "-", "_"))
	switch m.kind {
	case c41MDelta, c41MDirectDelta:
		k := m.keys[0]
		if k >= 0 && r.tomb[t][k] && m.origin != t {
			x.NonTrivial()
			if m.step < r.firstDelete[k] {
				x.Class("delta_created_before_delete_reaches_tombstoned_replica")
			} else {
				x.Class("delta_created_after_delete_reaches_tombstoned_replica")
			}
		}
	case c41MFull:
		for _, k := range m.keys {
			if k >= 0 && r.tomb[t][k] {
				x.NonTrivial()
				x.Class("full_state_entry_reaches_tombstoned_replica")
				break
			}
		}
	case c41MTomb, c41MDirectTomb:
		k := m.keys[0]
		if k >= 0 && r.tomb[t][k] {
			x.Class("tombstone_redelivered_or_echoed")
		}
	}
	// the capture actor is the sender, as the topic actor / the remote peer would be; every
	// delivery gets its own copy, like a message that crossed the wire
	if err := c41Capture.Tell(context.Background(), r.net.pids[t], proto.Clone(m.pb)); err != nil {
		r.alive("deliver")
		r.inconclusive("tell_error")
	}
	r.settle(t)
	replyTo := -1
	if m.kind == c41MDigest {
		replyTo = m.origin
	}
	out := r.collect(replyTo)
	if m.kind == c41MTomb || m.kind == c41MDirectTomb {
		if k := m.keys[0]; k >= 0 {
			r.tomb[t][k] = true
		}
	}
	r.verify(cause)
	return out
}

// take removes the pool entry of message m (first match) and returns it.
func (r *c41Run) take(m *c41Msg) (c41Pair, bool) {
	for i, p := range r.pool {
		if p.m == m {
			r.pool = append(r.pool[:i:i], r.pool[i+1:]...)
			return p, true
		}
	}
	return c41Pair{}, false
}

// doExchange is a whole anti-entropy round without anything in between: tick at the
// initiator, the digest reaches the peer at once, and (unless Keep) so does the reply.
func (r *c41Run) doExchange(s c41Step) {
	x := r.x
	init := s.R
	var peer int
	pick := func(i int) int {
		var others []int
		for p := 0; p < r.net.n; p++ {
			if p != i {
				others = append(others, p)
			}
		}
		return others[s.Peers%len(others)]
	}
	peer = pick(init)
	if s.Mode != 0 {
		// prefer an initiator that has a tombstone for a key its peer still holds
	search:
		for d := 0; d < r.net.n; d++ {
			i := (s.R + d) % r.net.n
			for p := 0; p < r.net.n; p++ {
				if p == i {
					continue
				}
				for k := range r.keys {
					if _, has := r.net.acts[p].store[r.keys[k].ID()]; has && r.tomb[i][k] {
						init, peer = i, p
						break search
					}
				}
			}
		}
	}
	x.Class("anti_entropy_exchange")
	msgs := r.antiEntropy(init, peer)
	for _, m := range msgs {
		if m.kind != c41MDigest {
			continue
		}
		p, ok := r.take(m)
		if !ok {
			continue
		}
		replies := r.deliver(p, false)
		if s.Keep {
			continue
		}
		for _, rm := range replies {
			if rp, ok := r.take(rm); ok {
				r.deliver(rp, false)
			}
		}
	}
}

func (r *c41Run) doAntiEntropy(s c41Step) {
	var others []int
	for p := 0; p < r.net.n; p++ {
		if p != s.R {
			others = append(others, p)
		}
	}
	r.x.Class("anti_entropy_tick_only")
	r.antiEntropy(s.R, others[s.Peers%len(others)])
}

// antiEntropy makes replica i run one anti-entropy tick with peer as its only listed peer.
func (r *c41Run) antiEntropy(i, peer int) []*c41Msg {
	x := r.x
	r.setView(i, 1<<peer)
	x.Logf("step %d: anti-entropy tick at r%d, peer r%d", r.step, i, peer)
	if err := c41Capture.Tell(context.Background(), r.net.pids[i], &antiEntropyTick{}); err != nil {
		r.alive("anti-entropy")
		r.inconclusive("tell_error")
	}
	r.settle(i)
	msgs := r.collect(-1)
	for _, m := range msgs {
		if m.kind == c41MDigest {
			for _, k := range m.keys {
				if k >= 0 && r.tomb[i][k] {
					x.Failf("digest-lists-tombstoned-key", "step %d: replica r%d has a tombstone for %s, yet its digest lists the key",
						r.step, i, r.keys[k].ID())
				}
			}
		}
	}
	r.verify("anti-entropy-tick")
	return msgs
}

func (r *c41Run) doPrune(s c41Step) {
	r.x.Logf("step %d: prune tick at r%d", r.step, s.R)
	r.x.Class("prune_tick")
	had := 0
	for k := range r.keys {
		if r.tomb[s.R][k] {
			had++
		}
	}
	if err := c41Capture.Tell(context.Background(), r.net.pids[s.R], &pruneTick{}); err != nil {
		r.alive("prune")
		r.inconclusive("tell_error")
	}
	r.settle(s.R)
	r.collect(-1)
	if had > 0 {
		r.x.Class("prune_tick_with_live_tombstones")
	}
	r.verify("prune-tick")
}

func c41Exec(x *vfkit.X, c c41Case) {
	if c.N < 2 || c.N > 3 || len(c.Types) < 1 || len(c.Types) > len(c41KeyIDs) {
		x.Class("malformed_case")
		return
	}
	net, err := c41NewNet(c.N)
	if err != nil {
		x.Class("inconclusive_spawn")
		x.Logf("spawn: %v", err)
		return
	}
	defer net.stop()
	r := &c41Run{x: x, c: c, net: net}
	for k, typ := range c.Types {
		r.keys = append(r.keys, c41Key(typ, c41KeyIDs[k]))
		r.firstDelete = append(r.firstDelete, -1)
	}
	for i := 0; i < c.N; i++ {
		r.tomb = append(r.tomb, make([]bool, len(r.keys)))
	}
	defer func() {
		if p := recover(); p != nil {
			if inc, ok := p.(*c41Inconclusive); ok {
				x.Class("inconclusive_" + inc.why)
				return
			}
			panic(p)
		}
	}()
	x.Class(fmt.Sprintf("replicas_%d", c.N))
	for i, s := range c.Steps {
		r.step = i
		if s.R < 0 || s.R >= c.N || s.Key < 0 || s.Key >= len(r.keys) {
			continue
		}
		switch s.Kind {
		case c41KUpdate:
			r.doUpdate(s)
		case c41KDelete:
			r.doDelete(s)
		case c41KGet:
			r.doGet(s)
		case c41KDeliver:
			r.doDeliver(s)
		case c41KAntiEntropy:
			r.doAntiEntropy(s)
		case c41KPrune:
			r.doPrune(s)
		case c41KExchange:
			r.doExchange(s)
		}
	}
	// the tombstones themselves must still be there (TTL = 1 h): a replica that lost one
	// would accept the next delta. VF_C41_BEHAVIOURAL_ONLY=1 switches this look at the
	// tombstone map off (used once per mutant to show that the Get/store oracle alone
	// catches it too; never set by the driver).
	if os.Getenv("VF_C41_BEHAVIOURAL_ONLY") == "1" {
		return
	}
	for i := 0; i < c.N; i++ {
		for k := range r.keys {
			if r.tomb[i][k] {
				x.Class("case_ends_with_tombstone")
				if _, ok := net.acts[i].tombstones[r.keys[k].ID()]; !ok {
					x.Failf("tombstone-gone-before-ttl", "replica r%d processed a tombstone for %s during the case, the TTL is 1h, yet its tombstone map has no entry at the end",
						i, r.keys[k].ID())
				}
			}
		}
	}
}

func TestVF_C41_tombstone(t *testing.T) {
	c41Start(t)
	vfkit.Run(t, vfkit.Spec[c41Case]{
		ID: "C41", Unit: "tombstone",
		Rule: "cases = plans of 3..30 steps over 2-3 real replicator actors and 1-2 keys (6 CRDT types): Update / Delete / Get (local, Majority or All with a generated peer view), delivery of a captured message (topic delta or tombstone to any replica, coordinated-write delta, coordinated-delete tombstone, digest, full-state reply; any order, kept for re-delivery or consumed, never delivered = dropped), anti-entropy tick towards a chosen peer (alone, or as a whole round with the digest and optionally the full-state reply delivered at once), prune tick; tombstone TTL 1h; " +
			"non-trivial = a delta or a full-state entry for key k, originated by another replica, is delivered to a replica that has already processed a tombstone for k (or, while the coordinated-read finding is not listed, a coordinated Get is made there while a peer still holds k); distinct = distinct plans",
		Gen: c41Gen, Exec: c41Exec,
		ReplayReps: 3,
	})
}

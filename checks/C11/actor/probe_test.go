//go:build verif

package actor

import (
	"context"
	"fmt"
	"testing"
	"time"

	"github.com/tochemey/goakt/v4/log"
)

type c11pActor struct{ id int }

func (a *c11pActor) PreStart(*Context) error { fmt.Println("prestart", a.id); return nil }
func (a *c11pActor) PostStop(*Context) error { fmt.Println("poststop", a.id); return nil }
func (a *c11pActor) Receive(*ReceiveContext) {}

func TestVF_C11_probe(t *testing.T) {
	ctx := context.Background()
	for i := 0; i < 3; i++ {
		t0 := time.Now()
		sys, err := NewActorSystem("vfC11", WithLogger(log.DiscardLogger))
		if err != nil {
			t.Fatal(err)
		}
		if err := sys.Start(ctx); err != nil {
			t.Fatal(err)
		}
		t1 := time.Now()
		p1, err := sys.Spawn(ctx, "a", &c11pActor{id: 1}, WithLongLived())
		fmt.Println("spawn1", p1 != nil, err, sys.NumActors())
		err = p1.Shutdown(ctx)
		fmt.Println("shutdown", err, p1.IsRunning())
		got, err := sys.ActorOf(ctx, "a")
		fmt.Println("actorOf after shutdown:", got == p1, err)
		p2, err := sys.Spawn(ctx, "a", &c11pActor{id: 2}, WithLongLived())
		fmt.Println("spawn2", err, "same as old:", p2 == p1, "running:", p2 != nil && p2.IsRunning(), sys.NumActors())
		time.Sleep(50 * time.Millisecond)
		_, ok := sys.(*actorSystem).tree().nodeByName("a")
		fmt.Println("after settle node exists:", ok, "numactors", sys.NumActors())
		t2 := time.Now()
		err = sys.Stop(ctx)
		fmt.Println("stop", err, "start", t1.Sub(t0), "stop", time.Since(t2))
	}
}

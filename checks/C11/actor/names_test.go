//go:build verif

package actor

import (
	"context"
	"errors"
	"fmt"
	"os"
	"runtime"
	"runtime/debug"
	"sort"
	"strings"
	"sync"
	"sync/atomic"
	"testing"
	"time"

	"pgregory.net/rapid"

	gerrors "github.com/tochemey/goakt/v4/errors"
	"github.com/tochemey/goakt/v4/internal/vfkit"
	"github.com/tochemey/goakt/v4/internal/vfsched"
	"github.com/tochemey/goakt/v4/log"
)

// ---- C11: a name maps to at most one running actor in a system -----------------
//
// One real ActorSystem per case. A case is 1..3 rounds; in a round 2..8 goroutines
// are released together and each makes ONE call: Spawn / SpawnNamedFromFunc (names
// n0,n1) or SpawnChild (children k0,k1 of a fixed parent) or a stop of one of these
// names (system.Kill(name) or Shutdown of the PID currently registered). Spawn
// contexts are live, already cancelled, or cancelled after a generated delay.
// Every call hands in its OWN actor object ("instance"); instances and calls log
// into one history with logical timestamps from one atomic counter. Schedule noise
// (E4) perturbs every atomic/mutex operation of package actor.

const (
	c11Spawn = iota
	c11SpawnFunc
	c11SpawnChild
	c11Kill     // system.Kill(name)
	c11Shutdown // pid.Shutdown() on the PID registered under the name when the call starts

	c11CtxLive      = 0
	c11CtxCancelled = 1 // cancelled before the call
	c11CtxCancelMid = 2 // cancelled CancelAfter microseconds after the call started

	// F-C11-1: see FINDINGS.md
	c11FpStale = "spawn-while-stopped-predecessor-registered"

	// F-C11-2: "<prefix><function that dereferenced node.value()>"
	c11FpNilPid = "node-cleared-nil-pid:"
	// F-C11-3
	c11FpLateWatch = "stop-before-death-watch-registration-leaves-node"

	c11Cap = 15 * time.Second
)

var c11KindNames = []string{"Spawn", "SpawnNamedFromFunc", "SpawnChild", "Kill", "Shutdown"}

// names 0,1 are top-level (n0,n1); 2,3 are children of "par" (k0,k1)
var c11Names = []string{"n0", "n1", "k0", "k1"}

type c11Call struct {
	Kind        int  `json:"kind"`
	Name        int  `json:"name"`
	Ctx         int  `json:"ctx"`
	CancelAfter int  `json:"cancel_after_us"`
	Delay       int  `json:"delay_us"`  // stagger before the call
	Think       int  `json:"think_us"`  // PreStart duration of the instance this call may create
	HonorCtx    bool `json:"honor_ctx"` // PreStart returns ctx.Err() when its context is done after thinking
}

type c11Round struct {
	Calls  []c11Call `json:"calls"`
	Settle bool      `json:"settle"` // wait until the death watch is idle before the next round
}

type c11Case struct {
	Pre        []int      `json:"pre"` // names spawned (sequentially) before the first round
	Rounds     []c11Round `json:"rounds"`
	NoiseSeed  uint64     `json:"noise_seed"`
	NoiseProb  float64    `json:"noise_prob"`
	NoiseSleep int        `json:"noise_sleep_us"`
}

// ---- generator ----------------------------------------------------------------------

func c11Gen(t *rapid.T) c11Case {
	var c c11Case
	known := vfkit.Known("C11", c11FpStale)
	knownNil := vfkit.Known("C11", c11FpNilPid+"findRunningChild")
	c.NoiseSeed = rapid.Uint64().Draw(t, "noise-seed")
	c.NoiseProb = rapid.SampledFrom([]float64{0, 0.01, 0.05, 0.05, 0.2}).Draw(t, "noise-prob")
	c.NoiseSleep = rapid.SampledFrom([]int{0, 50, 300}).Draw(t, "noise-sleep")
	// the round focuses on one top-level and one child name most of the time
	for n := 0; n < 4; n++ {
		if rapid.IntRange(0, 2).Draw(t, "pre") == 0 {
			c.Pre = append(c.Pre, n)
		}
	}
	nr := rapid.SampledFrom([]int{1, 1, 2, 2, 3}).Draw(t, "rounds")
	for r := 0; r < nr; r++ {
		var rd c11Round
		nc := rapid.IntRange(2, 8).Draw(t, "calls")
		// shape of the round: 0 = spawns of one name, 1 = spawns of both names of one
		// level, 2 = anything incl. stops, 3 = spawns + exactly one stop of the focus name
		shape := rapid.SampledFrom([]int{0, 0, 1, 2, 2, 3, 3}).Draw(t, "shape")
		child := rapid.Bool().Draw(t, "child-level")
		focus := rapid.IntRange(0, 1).Draw(t, "focus")
		base := 0
		if child {
			base = 2
		}
		for i := 0; i < nc; i++ {
			var cl c11Call
			cl.Name = base + focus
			if shape >= 1 && rapid.IntRange(0, 2).Draw(t, "other-name") == 0 {
				cl.Name = base + 1 - focus
			}
			if shape == 2 && rapid.IntRange(0, 3).Draw(t, "other-level") == 0 {
				cl.Name = rapid.IntRange(0, 3).Draw(t, "any-name")
			}
			stop := (shape == 2 && rapid.IntRange(0, 3).Draw(t, "stop") == 0) || (shape == 3 && i == 0)
			switch {
			case stop:
				cl.Kind = rapid.SampledFrom([]int{c11Kill, c11Shutdown}).Draw(t, "stop-kind")
				if shape == 3 {
					cl.Name = base + focus
				}
				if knownNil && cl.Name >= 2 {
					// F-C11-2 while listed: SpawnChild's in-flight findRunningChild panics on
					// the goroutine of the single flight (unrecoverable, it kills the test
					// process) when it races the death watch removing that child. Child names
					// are therefore never stopped; stops go to the top-level name instead.
					cl.Name -= 2
				}
			case cl.Name >= 2:
				cl.Kind = c11SpawnChild
			default:
				cl.Kind = rapid.SampledFrom([]int{c11Spawn, c11Spawn, c11SpawnFunc}).Draw(t, "spawn-kind")
			}
			cl.Delay = rapid.SampledFrom([]int{0, 0, 0, 20, 100, 400}).Draw(t, "delay")
			if cl.Kind <= c11SpawnChild {
				cl.Ctx = rapid.SampledFrom([]int{c11CtxLive, c11CtxLive, c11CtxLive, c11CtxLive, c11CtxCancelMid, c11CtxCancelMid, c11CtxCancelled}).Draw(t, "ctx")
				cl.Think = rapid.SampledFrom([]int{0, 0, 50, 300, 1000}).Draw(t, "think")
				cl.HonorCtx = rapid.IntRange(0, 3).Draw(t, "honor") > 0
				if cl.Ctx == c11CtxCancelMid {
					cl.CancelAfter = rapid.SampledFrom([]int{0, 20, 100, 300, 1000}).Draw(t, "cancel-after")
				}
			}
			rd.Calls = append(rd.Calls, cl)
		}
		// While F-C11-1 is listed, half of the rounds settle (the window of the
		// finding is closed before the next round); the other half keeps the window
		// open and relies on the exact acceptance rule in the oracle.
		if known {
			rd.Settle = rapid.IntRange(0, 3).Draw(t, "settle") > 0
		} else {
			rd.Settle = rapid.Bool().Draw(t, "settle")
		}
		c.Rounds = append(c.Rounds, rd)
	}
	return c
}

// ---- history --------------------------------------------------------------------------

type c11Inst struct {
	id       int
	name     int
	call     int // global call index that owns the instance (-1: pre-spawn)
	think    time.Duration
	honorCtx bool

	mu          sync.Mutex
	attempts    int
	preEnter    int64 // logical time of the first PreStart entry
	preExitOK   int64 // logical time PreStart returned nil (0: never)
	stale       bool  // at PreStart the tree held a non-running predecessor under this ID
	staleHow    string
	postEnter   int64
	postExit    int64
	postStops   int
	preStartErr error
}

type c11Env struct {
	sys *actorSystem
	par *PID
	ids []string // name index -> PID.ID()
	// single-flight keys of the four names (Spawn/SpawnNamedFromFunc: the actor
	// reference; SpawnChild: the child address)
	flightKeys []string
	dwBase     int64 // messages the death watch had handled before the first spawn
	clock      atomic.Int64
	mu         sync.Mutex
	insts      []*c11Inst
	x          *vfkit.X
}

func (e *c11Env) tick() int64 { return e.clock.Add(1) }

func (e *c11Env) newInst(name, call int, think int, honor bool) *c11Inst {
	e.mu.Lock()
	defer e.mu.Unlock()
	in := &c11Inst{id: len(e.insts), name: name, call: call, think: time.Duration(think) * time.Microsecond, honorCtx: honor}
	e.insts = append(e.insts, in)
	return in
}

func c11Busy(d time.Duration) {
	if d <= 0 {
		return
	}
	if d >= 200*time.Microsecond {
		time.Sleep(d)
		return
	}
	end := time.Now().Add(d)
	for time.Now().Before(end) {
		runtime.Gosched()
	}
}

func (e *c11Env) preStart(in *c11Inst, ctx context.Context) error {
	now := e.tick()
	// is a non-running predecessor still registered under my ID?
	stale, how := false, ""
	if node, ok := e.sys.tree().node(e.ids[in.name]); ok {
		if v := node.value(); v != nil && !v.IsRunning() {
			stale = true
			if v.IsStopping() {
				how = "predecessor stopping"
			} else {
				how = "predecessor stopped"
			}
		}
	}
	in.mu.Lock()
	in.attempts++
	if in.preEnter == 0 {
		in.preEnter = now
	}
	if stale {
		in.stale, in.staleHow = true, how
	}
	in.mu.Unlock()
	c11Busy(in.think)
	if in.honorCtx {
		if err := ctx.Err(); err != nil {
			in.mu.Lock()
			in.preStartErr = err
			in.mu.Unlock()
			return err
		}
	}
	in.mu.Lock()
	in.preExitOK = e.tick()
	in.mu.Unlock()
	return nil
}

func (e *c11Env) postStop(in *c11Inst) error {
	in.mu.Lock()
	in.postStops++
	if in.postEnter == 0 {
		in.postEnter = e.tick()
	}
	in.mu.Unlock()
	runtime.Gosched()
	in.mu.Lock()
	if in.postExit == 0 {
		in.postExit = e.tick()
	}
	in.mu.Unlock()
	return nil
}

type c11Actor struct {
	env *c11Env
	in  *c11Inst
}

func (a *c11Actor) PreStart(ctx *Context) error { return a.env.preStart(a.in, ctx.Context()) }
func (a *c11Actor) PostStop(*Context) error     { return a.env.postStop(a.in) }
func (a *c11Actor) Receive(*ReceiveContext)     {}

type c11Nop struct{}

func (c11Nop) PreStart(*Context) error { return nil }
func (c11Nop) PostStop(*Context) error { return nil }
func (c11Nop) Receive(*ReceiveContext) {}

// c11Box tags the mailbox of a function actor with its instance (a function
// actor's PID gives no other handle on the closure set it was built from).
type c11Box struct {
	Mailbox
	in *c11Inst
}

func c11InstOf(pid *PID) *c11Inst {
	if pid == nil {
		return nil
	}
	switch a := pid.Actor().(type) {
	case *c11Actor:
		return a.in
	case *FuncActor:
		if b, ok := pid.mailbox.(*c11Box); ok {
			return b.in
		}
	}
	return nil
}

type c11Result struct {
	call      c11Call
	idx       int // global call index
	round     int
	begin     int64
	end       int64
	sampled   int64 // logical time after the IsRunning sample
	err       error
	pid       *PID
	running   bool
	inst      *c11Inst // instance handed in (spawn calls)
	target    *PID     // Shutdown: the PID the stop was aimed at
	panicked  any
	ctxIsLive bool
}

// ---- execution --------------------------------------------------------------------------

func (e *c11Env) doSpawn(ctx context.Context, cl c11Call, in *c11Inst) (*PID, error) {
	name := c11Names[cl.Name]
	switch cl.Kind {
	case c11Spawn:
		return e.sys.Spawn(ctx, name, &c11Actor{env: e, in: in}, WithLongLived())
	case c11SpawnFunc:
		return e.sys.SpawnNamedFromFunc(ctx, name,
			func(context.Context, any) error { return nil },
			WithPreStart(func(c context.Context) error { return e.preStart(in, c) }),
			WithPostStop(func(context.Context) error { return e.postStop(in) }),
			WithFuncMailbox(&c11Box{Mailbox: NewUnboundedMailbox(), in: in}))
	default:
		return e.par.SpawnChild(ctx, name, &c11Actor{env: e, in: in}, WithLongLived())
	}
}

// settle waits until the death watch has consumed every Terminated message. Every
// stop call has returned, so every Terminated is already in its mailbox. The death
// watch handles one PostStart plus one Terminated per stopped actor it watches, so
// the primary criterion is its processed-message count reaching its count before the
// case's first spawn + the number of PostStop runs, with its turn finished. (Its mailboxes cannot be read reliably from
// outside the consumer: IsEmpty is documented as consumer-only, and "idle" is also
// visible for an instant inside finishOrReclaim while a message is pending.) When a
// Terminated was never sent (an actor outside the tree, or the finding
// stop-before-death-watch-registration) the count is never reached: then idle +
// empty + an unchanged count for two seconds without interruption is accepted.
func (e *c11Env) settle(postStops func() int64) (ok, complete bool) {
	dw := e.sys.getDeathWatch()
	if dw == nil {
		return true, true
	}
	deadline := time.Now().Add(c11Cap)
	var stableSince time.Time
	last := -1
	for {
		n := dw.ProcessedCount()
		idle := dw.schedState.Load() == dispatchIdle
		if idle && int64(n) >= e.dwBase+postStops() {
			return true, true
		}
		if idle && n == last && dw.mailbox.IsEmpty() && dw.systemMailbox.IsEmpty() {
			if stableSince.IsZero() {
				stableSince = time.Now()
			} else if time.Since(stableSince) > 2*time.Second {
				return true, false
			}
		} else {
			stableSince = time.Time{}
		}
		last = n
		if time.Now().After(deadline) {
			return false, false
		}
		time.Sleep(200 * time.Microsecond)
	}
}

// c11Stack returns the frames of package actor of the panicking goroutine.
func c11Stack() string {
	var keep []string
	lines := strings.Split(string(debug.Stack()), "\n")
	for i := 0; i+1 < len(lines); i++ {
		if strings.Contains(lines[i], "goakt/v4/actor.") && !strings.Contains(lines[i], "c11") {
			keep = append(keep, strings.TrimSpace(lines[i])+" @ "+strings.TrimSpace(lines[i+1]))
		}
	}
	if len(keep) > 8 {
		keep = keep[:8]
	}
	return strings.Join(keep, "\n")
}

// c11AwaitGuardians waits until the root, system and user guardians have handled
// their PostStart. Their handlers use fields that are only set there, while a
// Terminated (control message, system mailbox) can overtake PostStart: a top-level
// actor that stops before the user guardian's first turn makes the guardian panic
// and the system shut itself down (defect outside this property, reported
// separately). The check keeps out of that window by construction.
func c11AwaitGuardians(sys *actorSystem) bool {
	deadline := time.Now().Add(15 * time.Second)
	for {
		ready := true
		for _, g := range []*PID{sys.getRootGuardian(), sys.getSystemGuardian(), sys.getUserGuardian()} {
			if g == nil || g.ProcessedCount() < 1 || g.schedState.Load() != dispatchIdle {
				ready = false
			}
		}
		if ready {
			return true
		}
		if time.Now().After(deadline) {
			return false
		}
		time.Sleep(50 * time.Microsecond)
	}
}

func c11IsCancel(err error) bool {
	return errors.Is(err, context.Canceled) || errors.Is(err, context.DeadlineExceeded)
}

func c11Exec(x *vfkit.X, c c11Case) {
	ctx := context.Background()
	var logger log.Logger = log.DiscardLogger
	if os.Getenv("VF_C11_LOG") != "" {
		logger = log.NewZap(log.WarningLevel, os.Stderr) // diagnosis of a replayed case
	}
	sysI, err := NewActorSystem("vfC11", WithLogger(logger))
	if err != nil {
		panic(err)
	}
	if err := sysI.Start(ctx); err != nil {
		panic(err)
	}
	sys := sysI.(*actorSystem)
	e := &c11Env{sys: sys, x: x}
	defer func() {
		vfsched.SetNoise(0, 0, 0)
		_ = sys.Stop(context.Background())
	}()
	if !c11AwaitGuardians(sys) {
		x.Class("inconclusive_guardians_not_started")
		return
	}
	{
		dw := sys.getDeathWatch()
		deadline := time.Now().Add(5 * time.Second)
		for (dw.ProcessedCount() < 1 || dw.schedState.Load() != dispatchIdle) && time.Now().Before(deadline) {
			time.Sleep(50 * time.Microsecond)
		}
		e.dwBase = int64(dw.ProcessedCount())
	}
	par, err := sys.Spawn(ctx, "par", c11Nop{}, WithLongLived())
	if err != nil {
		panic(err)
	}
	e.par = par
	e.ids = []string{sys.actorAddress("n0").String(), sys.actorAddress("n1").String(), par.childAddress("k0").String(), par.childAddress("k1").String()}
	e.flightKeys = []string{sys.actorReference("n0").String(), sys.actorReference("n1").String(), e.ids[2], e.ids[3]}
	known := x.Known(c11FpStale)

	var results []*c11Result
	callIdx := 0
	for _, n := range c.Pre {
		in := e.newInst(n, -1, 0, false)
		kind := c11Spawn
		if n >= 2 {
			kind = c11SpawnChild
		}
		if _, err := e.doSpawn(ctx, c11Call{Kind: kind, Name: n}, in); err != nil {
			panic(fmt.Sprintf("pre-spawn %s: %v", c11Names[n], err))
		}
	}

	vfsched.SetNoise(c.NoiseSeed, c.NoiseProb, c.NoiseSleep)
	inconclusive, unaccounted := false, false
	for ri, rd := range c.Rounds {
		start := make(chan struct{})
		var wg sync.WaitGroup
		round := make([]*c11Result, len(rd.Calls))
		for i, cl := range rd.Calls {
			res := &c11Result{call: cl, idx: callIdx, round: ri}
			callIdx++
			round[i] = res
			if cl.Kind <= c11SpawnChild {
				res.inst = e.newInst(cl.Name, res.idx, cl.Think, cl.HonorCtx)
			}
			wg.Add(1)
			go func() {
				defer wg.Done()
				defer func() {
					if p := recover(); p != nil {
						res.panicked = fmt.Sprintf("%v\n%s", p, c11Stack())
						res.end = e.tick()
					}
				}()
				<-start
				c11Busy(time.Duration(cl.Delay) * time.Microsecond)
				cctx, cancel := context.WithCancel(context.Background())
				defer cancel()
				switch cl.Ctx {
				case c11CtxCancelled:
					cancel()
				case c11CtxCancelMid:
					d := time.Duration(cl.CancelAfter) * time.Microsecond
					go func() { c11Busy(d); cancel() }()
				}
				res.ctxIsLive = cl.Ctx == c11CtxLive
				switch cl.Kind {
				case c11Kill:
					res.begin = e.tick()
					res.err = sys.Kill(cctx, c11Names[cl.Name])
					res.end = e.tick()
				case c11Shutdown:
					if node, ok := sys.tree().node(e.ids[cl.Name]); ok {
						res.target = node.value()
					}
					res.begin = e.tick()
					if res.target != nil {
						res.err = res.target.Shutdown(cctx)
					}
					res.end = e.tick()
				default:
					res.begin = e.tick()
					res.pid, res.err = e.doSpawn(cctx, cl, res.inst)
					res.end = e.tick()
					if res.pid != nil {
						res.running = res.pid.IsRunning()
					}
					res.sampled = e.tick()
				}
			}()
		}
		close(start)
		done := make(chan struct{})
		go func() { wg.Wait(); close(done) }()
		select {
		case <-done:
		case <-time.After(c11Cap):
			// a call that never returns: nothing can be judged (and the goroutines
			// are still using the system); reported as inconclusive, never as a violation
			x.Class("inconclusive_call_did_not_return")
			vfsched.SetNoise(0, 0, 0)
			return // the stuck goroutines are abandoned; the deferred Stop tears the system down
		}
		results = append(results, round...)
		if ri == len(c.Rounds)-1 {
			// A caller whose context was cancelled leaves its spawn running in the
			// background ("the in-flight spawn completes undisturbed"): join every
			// flight that may still be in progress before looking at the final state.
			for _, key := range e.flightKeys {
				select {
				case <-sys.spawnActivation.DoChan(key, func() (any, error) { return nil, nil }):
				case <-time.After(c11Cap):
					inconclusive = true
					x.Class("inconclusive_spawn_flight_still_running")
				}
			}
		}
		if rd.Settle || ri == len(c.Rounds)-1 {
			if ok, complete := e.settle(func() int64 {
				e.mu.Lock()
				defer e.mu.Unlock()
				var total int64
				for _, in := range e.insts {
					in.mu.Lock()
					total += int64(in.postStops)
					in.mu.Unlock()
				}
				return total
			}); !ok {
				inconclusive = true
				x.Class("inconclusive_deathwatch_not_idle")
				break
			} else if !complete {
				unaccounted = true
			}
		}
	}
	vfsched.SetNoise(0, 0, 0)

	c11Judge(x, e, c, results, known, inconclusive, unaccounted)
}

// ---- oracle --------------------------------------------------------------------------------

func c11Judge(x *vfkit.X, e *c11Env, c c11Case, results []*c11Result, known, inconclusive, unaccounted bool) {
	// history for the replay file
	for _, r := range results {
		who := ""
		if in := c11InstOf(r.pid); in != nil {
			who = fmt.Sprintf(" -> instance %d running=%v", in.id, r.running)
		} else if r.pid != nil {
			who = " -> unknown pid"
		}
		own := ""
		if r.inst != nil {
			own = fmt.Sprintf(" own-instance=%d", r.inst.id)
		}
		x.Logf("round %d call %d %s(%s) ctx=%d [%d..%d] err=%v%s%s panic=%v", r.round, r.idx, c11KindNames[r.call.Kind], c11Names[r.call.Name], r.call.Ctx, r.begin, r.end, r.err, who, own, r.panicked)
	}
	for _, in := range e.insts {
		x.Logf("instance %d name=%s call=%d attempts=%d prestart=[%d..%d] stale=%v(%s) poststop=[%d..%d] x%d", in.id, c11Names[in.name], in.call, in.attempts, in.preEnter, in.preExitOK, in.stale, in.staleHow, in.postEnter, in.postExit, in.postStops)
	}
	desc := func() string {
		var b strings.Builder
		for ri, rd := range c.Rounds {
			fmt.Fprintf(&b, "round %d (settle=%v):", ri, rd.Settle)
			for _, cl := range rd.Calls {
				fmt.Fprintf(&b, " %s(%s,ctx=%d)", c11KindNames[cl.Kind], c11Names[cl.Name], cl.Ctx)
			}
			b.WriteString("; ")
		}
		return fmt.Sprintf("pre=%v %s", c.Pre, b.String())
	}

	// classification
	c11Classify(x, c, results)

	for _, r := range results {
		if r.panicked == nil {
			continue
		}
		// F-C11-2: a lookup takes the node from the tree and dereferences node.value()
		// without a nil check; the death watch clears the node in between.
		msg := fmt.Sprint(r.panicked)
		fp := "spawn-or-stop-call-panics"
		if strings.Contains(msg, "nil pointer dereference") {
			for _, site := range []string{"findRunningChild", "Kill", "ActorOf", "ActorExists", "Child", "ReSpawn"} {
				if strings.Contains(msg, ")."+site+"(") {
					fp = c11FpNilPid + site
					break
				}
			}
		}
		if !x.Known(fp) {
			x.Failf(fp, "%s(%s) panicked: %v\n%s", c11KindNames[r.call.Kind], c11Names[r.call.Name], r.panicked, desc())
		}
		// accepted while listed: the call counts as failed, everything else is still judged
		x.Class("known_nil_pid_panic")
		r.err = errors.New("panicked (known finding)")
		r.pid = nil
		r.ctxIsLive = false
	}

	stops := func(name int) []*c11Result {
		var out []*c11Result
		for _, r := range results {
			if r.call.Kind >= c11Kill && r.call.Name == name {
				out = append(out, r)
			}
		}
		return out
	}

	// tolerated: live instances that were created while a non-running predecessor was
	// still registered (exactly the shape of F-C11-1) and ended up outside the tree
	tolerated := map[*c11Inst]bool{}
	registered := func(in *c11Inst) bool {
		node, ok := e.sys.tree().node(e.ids[in.name])
		return ok && c11InstOf(node.value()) == in
	}

	// O2: what a successful spawn call returns
	for _, r := range results {
		if r.call.Kind > c11SpawnChild {
			// stops: any error other than "not found"/"dead" is unexpected (PostStop returns nil)
			if r.err != nil && r.panicked == nil && !errors.Is(r.err, gerrors.ErrActorNotFound) && !errors.Is(r.err, gerrors.ErrDead) && !c11IsCancel(r.err) {
				x.Failf("stop-call-fails-without-cause", "%s(%s) returned %v\n%s", c11KindNames[r.call.Kind], c11Names[r.call.Name], r.err, desc())
			}
			continue
		}
		if r.err != nil {
			if r.pid != nil {
				x.Failf("spawn-returns-pid-and-error", "%s(%s) returned a PID together with error %v", c11KindNames[r.call.Kind], c11Names[r.call.Name], r.err)
			}
			if !r.ctxIsLive {
				continue // a caller whose own context is (being) cancelled may fail
			}
			if c11IsCancel(r.err) {
				// the documented single retry: a waiter inherits a foreign cancellation at
				// most when two flights it joined were cancelled by their owners
				n := 0
				for _, o := range results {
					// flights abandoned by a cancelled caller of an earlier round may still be running
					if o.round <= r.round && o.call.Kind <= c11SpawnChild && o.call.Name == r.call.Name && o.call.Ctx == c11CtxCancelMid {
						n++
					}
				}
				if n < 2 {
					x.Failf("live-waiter-inherits-foreign-cancellation", "%s(%s) with a live context failed with %v although only %d caller(s) of that name had a cancelled context\n%s", c11KindNames[r.call.Kind], c11Names[r.call.Name], r.err, n, desc())
				}
				x.Class("live_waiter_failed_after_two_foreign_cancellations")
				continue
			}
			x.Failf("spawn-fails-without-cause", "%s(%s) with a live context on a running system returned %v\n%s", c11KindNames[r.call.Kind], c11Names[r.call.Name], r.err, desc())
		}
		if r.pid == nil {
			x.Failf("spawn-returns-nil-pid", "%s(%s) returned (nil, nil)", c11KindNames[r.call.Kind], c11Names[r.call.Name])
		}
		in := c11InstOf(r.pid)
		if in == nil || in.name != r.call.Name {
			x.Failf("spawn-returns-foreign-pid", "%s(%s) returned the PID of %v", c11KindNames[r.call.Kind], c11Names[r.call.Name], r.pid.ID())
		}
		in.mu.Lock()
		preOK, postEnter, postExit := in.preExitOK, in.postEnter, in.postExit
		in.mu.Unlock()
		if preOK == 0 || preOK > r.end {
			x.Failf("spawn-returns-unstarted-instance", "%s(%s) returned instance %d whose PreStart had not completed", c11KindNames[r.call.Kind], c11Names[r.call.Name], in.id)
		}
		if !r.running {
			// allowed only when a stop of that name overlaps [call begin, sample]
			excused := false
			for _, s := range stops(r.call.Name) {
				if s.begin < r.sampled && s.end > r.begin {
					excused = true
				}
			}
			if !excused {
				_ = postEnter
				staleShape := postExit != 0 && postExit < r.begin
				if r.inst != nil {
					r.inst.mu.Lock()
					staleShape = staleShape || r.inst.stale
					r.inst.mu.Unlock()
				}
				if staleShape {
					if !known {
						x.Failf(c11FpStale, "%s(%s) returned err=nil and the PID of instance %d, which was stopped before the call began (its PostStop ended at t=%d, the call began at t=%d); the call's own instance %d ran PreStart and is left running outside the tree\n%s",
							c11KindNames[r.call.Kind], c11Names[r.call.Name], in.id, postExit, r.begin, r.inst.id, desc())
					}
					x.Class("known_stale_predecessor_returned")
				} else {
					x.Failf("spawn-returns-non-running-pid", "%s(%s) returned instance %d which is not running, and no stop of that name overlaps the call\n%s", c11KindNames[r.call.Kind], c11Names[r.call.Name], in.id, desc())
				}
			}
		}
	}

	// O3: without any stop of a name, every successful caller receives the identical PID
	for n := range c11Names {
		if len(stops(n)) > 0 {
			continue
		}
		var first *c11Result
		for _, r := range results {
			if r.call.Kind <= c11SpawnChild && r.call.Name == n && r.err == nil {
				if first == nil {
					first = r
				} else if first.pid != r.pid {
					x.Failf("concurrent-spawn-different-pids", "two successful spawns of %s returned different PIDs (instances %d and %d) although the name was never stopped\n%s", c11Names[n], c11InstOf(first.pid).id, c11InstOf(r.pid).id, desc())
				}
			}
		}
		if first != nil {
			// and it is the pre-spawned one when there was one
			for _, in := range e.insts {
				if in.name == n && in.call == -1 && c11InstOf(first.pid) != in {
					x.Failf("spawn-replaces-running-actor", "%s was running, a later spawn returned a different instance\n%s", c11Names[n], desc())
				}
			}
		}
	}

	if inconclusive {
		return
	}

	// O1 + O4: after the death watch is idle
	// first pass: live instances outside the tree
	for _, in := range e.insts {
		in.mu.Lock()
		live := in.preExitOK != 0 && in.postEnter == 0
		stale, how := in.stale, in.staleHow
		in.mu.Unlock()
		if !live || registered(in) {
			continue
		}
		if stale {
			if !known {
				x.Failf(c11FpStale, "instance %d of %s ran PreStart while the tree still held its non-running predecessor (%s); it is running, PostStop never ran, and it is not registered (the name resolves to %s)\n%s",
					in.id, c11Names[in.name], how, c11Resolve(e, in.name), desc())
			}
			tolerated[in] = true
			x.Class("known_stale_predecessor_leak")
			continue
		}
		x.Failf("live-instance-not-registered", "instance %d of %s completed PreStart, never stopped, and is not the registered actor (the name resolves to %s)\n%s", in.id, c11Names[in.name], c11Resolve(e, in.name), desc())
	}
	// O1: lifetimes [PreStart ok, PostStop enter) of one path never overlap
	byName := map[int][]*c11Inst{}
	for _, in := range e.insts {
		if in.preExitOK != 0 && !tolerated[in] {
			byName[in.name] = append(byName[in.name], in)
		}
	}
	liveTotal := 0
	for n, list := range byName {
		sort.Slice(list, func(i, j int) bool { return list[i].preExitOK < list[j].preExitOK })
		for i := 0; i+1 < len(list); i++ {
			a, b := list[i], list[i+1]
			if a.postEnter == 0 || a.postEnter > b.preExitOK {
				if b.stale || a.stale {
					if !known {
						x.Failf(c11FpStale, "instances %d and %d of %s were alive at the same time: %d finished PreStart at t=%d while %d had not entered PostStop (t=%d); the later one was created while the tree held a non-running predecessor\n%s", a.id, b.id, c11Names[n], b.id, b.preExitOK, a.id, a.postEnter, desc())
					}
					x.Class("known_stale_predecessor_overlap")
					continue
				}
				x.Failf("two-live-instances-same-path", "instances %d and %d of %s were alive at the same time: %d finished PreStart at t=%d, %d entered PostStop at t=%d (0 = never)\n%s", a.id, b.id, c11Names[n], b.id, b.preExitOK, a.id, a.postEnter, desc())
			}
		}
		for _, in := range list {
			if in.postStops > 1 {
				x.Failf("poststop-ran-twice", "instance %d of %s: PostStop ran %d times", in.id, c11Names[n], in.postStops)
			}
			if in.postEnter == 0 {
				liveTotal++
			}
		}
	}
	// O4: registry and counter agree with the live instances
	lateWatch := 0
	staleUnjudged := false
	for n := range c11Names {
		node, ok := e.sys.tree().node(e.ids[n])
		if !ok {
			continue
		}
		v := node.value()
		if v == nil {
			continue
		}
		in := c11InstOf(v)
		if in == nil {
			x.Failf("registry-holds-foreign-pid", "%s resolves to a PID that is none of the spawned instances", c11Names[n])
		}
		if !v.IsRunning() || in.postEnter != 0 {
			dw := e.sys.getDeathWatch()
			var ws []string
			dwStillWatching := false
			for _, w := range e.sys.tree().watchers(v) {
				ws = append(ws, w.Name())
				if w == dw {
					dwStillWatching = true
				}
			}
			if dwStillWatching {
				// F-C11-3: the stop ran between tree.addNode and addWatcher(deathWatch) of the
				// spawn that created this instance: the death watch was not yet a watcher when
				// freeWatchers listed the watchers, was added afterwards, and never hears of
				// the stop. Shape: a stopped PID whose node still lists the death watch.
				if !x.Known(c11FpLateWatch) {
					x.Failf(c11FpLateWatch, "%s resolves to the stopped instance %d for ever: its node still lists the death watch as a watcher, i.e. the stop listed the watchers before attachAndPublish registered the death watch (tree.addNode and addWatcher are two critical sections), so no Terminated was ever sent to it (death watch processed=%d)\n%s", c11Names[n], in.id, dw.ProcessedCount(), desc())
				}
				x.Class("known_stop_before_death_watch_registration")
				lateWatch++
				continue
			}
			if unaccounted {
				// the death watch handled fewer Terminated messages than instances were
				// stopped although it had been sent one (it is no longer listed as a
				// watcher): a delivery matter, not judged here
				x.Class("inconclusive_terminated_not_accounted_for")
				staleUnjudged = true
				continue
			}
			x.Failf("stopped-actor-registered-after-settle", "after the death watch went idle %s still resolves to the stopped instance %d (watchers of the node=%v; death watch: running=%v suspended=%v processed=%d)\n%s", c11Names[n], in.id, ws, dw.IsRunning(), dw.IsSuspended(), dw.ProcessedCount(), desc())
		}
	}
	if got := e.sys.NumActors(); got != uint64(liveTotal+1) && !staleUnjudged {
		// third symptom of F-C11-1: addNode fails on the stale node, the death watch
		// removes it before attachAndPublish looks the canonical instance up, and the
		// fresh instance is returned counted but unregistered (one count per such instance)
		if lateWatch > 0 && got > uint64(liveTotal+1) && got <= uint64(liveTotal+1+len(tolerated)+lateWatch) {
			// the stale node of F-C11-3 keeps its count
			x.Failf(c11FpLateWatch, "accepted shape of the listed finding (counter keeps the stale node)")
		}
		if known && got > uint64(liveTotal+1) && got <= uint64(liveTotal+1+len(tolerated)) {
			x.Class("known_stale_predecessor_count_drift")
			c11KnownHit(x, known, len(tolerated))
			return
		}
		x.Failf("actor-count-mismatch", "NumActors()=%d, running user actors=%d (the parent and %d spawned instances)\n%s", got, liveTotal+1, liveTotal, desc())
	}
	if lateWatch > 0 {
		x.Failf(c11FpLateWatch, "accepted shape of the listed finding seen %d time(s)", lateWatch)
	}
	c11KnownHit(x, known, len(tolerated))
}

// c11KnownHit makes a case in which the accepted shape of F-C11-1 occurred (and
// nothing else went wrong) count as an observation of the known finding.
func c11KnownHit(x *vfkit.X, known bool, tolerated int) {
	if known && tolerated > 0 {
		x.Failf(c11FpStale, "%d instance(s) started while the non-running predecessor was still registered and were left running outside the tree", tolerated)
	}
}

func c11Resolve(e *c11Env, name int) string {
	node, ok := e.sys.tree().node(e.ids[name])
	if !ok {
		return "nothing"
	}
	v := node.value()
	if v == nil {
		return "a cleared node"
	}
	if in := c11InstOf(v); in != nil {
		return fmt.Sprintf("instance %d (running=%v)", in.id, v.IsRunning())
	}
	return "an unknown PID"
}

func c11Classify(x *vfkit.X, c c11Case, results []*c11Result) {
	nontrivial := false
	for ri := range c.Rounds {
		var rs []*c11Result
		for _, r := range results {
			if r.round == ri {
				rs = append(rs, r)
			}
		}
		for i, a := range rs {
			for _, b := range rs[i+1:] {
				if a.call.Name != b.call.Name {
					continue
				}
				overlap := a.begin < b.end && b.begin < a.end
				if !overlap {
					continue
				}
				as, bs := a.call.Kind <= c11SpawnChild, b.call.Kind <= c11SpawnChild
				switch {
				case as && bs:
					x.Class("overlapping_spawns_same_name")
					if a.call.Kind != b.call.Kind {
						x.Class("overlapping_spawn_and_spawnfunc")
					}
					nontrivial = true
				case as != bs:
					x.Class("spawn_overlapping_stop")
					nontrivial = true
				default:
					x.Class("overlapping_stops")
				}
			}
		}
	}
	for _, r := range results {
		if r.call.Kind <= c11SpawnChild {
			if r.err != nil && c11IsCancel(r.err) {
				x.Class("spawn_cancelled")
			}
			if r.inst != nil && r.inst.preStartErr != nil {
				x.Class("prestart_failed_on_cancelled_context")
			}
			if r.inst != nil && r.inst.attempts > 0 {
				x.Class("call_created_an_instance")
			}
			if r.inst != nil && r.inst.attempts == 0 && r.err == nil {
				x.Class("call_coalesced_or_found_running")
			}
		}
		if r.call.Kind >= c11Kill && r.err != nil {
			x.Class("stop_returned_error")
		}
	}
	if len(c.Rounds) > 1 {
		x.Class("several_rounds")
	}
	if c.NoiseProb > 0 {
		x.Class("noise_on")
	}
	if nontrivial {
		x.NonTrivial()
	}
}

func TestVF_C11_names(t *testing.T) {
	vfkit.Run(t, vfkit.Spec[c11Case]{
		ID: "C11", Unit: "names",
		Rule: "cases = one real ActorSystem, 0..4 names pre-spawned, then 1..3 rounds of 2..8 goroutines released together, each making one call of Spawn/SpawnNamedFromFunc (names n0,n1), SpawnChild (k0,k1 under one parent), Kill(name) or PID.Shutdown, with live / cancelled / cancelled-mid-call contexts, staggering, PreStart think times and E4 schedule noise; non-trivial = in some round two spawns of the same name, or a spawn and a stop of the same name, overlap (measured call intervals); distinct = distinct generated programs (incl. noise profile)",
		Gen:  c11Gen, Exec: c11Exec,
		ReplayReps: 30,
		CrashSafe:  true,
	})
}

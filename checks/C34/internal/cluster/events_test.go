//go:build verif

package cluster

import (
	"fmt"
	"sort"
	"testing"
	"time"

	goset "github.com/deckarep/golang-set/v2"
	"github.com/tochemey/olric/events"
	"go.uber.org/atomic"
	"pgregory.net/rapid"

	"github.com/tochemey/goakt/v4/discovery"
	"github.com/tochemey/goakt/v4/internal/vfkit"
	"github.com/tochemey/goakt/v4/log"
)

// ---- C34: membership events are emitted once and only after rebalancing settles
//
// A bare cluster value (no engine, client == nil so the leader probe is a
// no-op) is fed through handleClusterEvent with the JSON payloads olric
// publishes on "cluster.events". The engine publishes every notification from a
// goroutine of its own and every member publishes its own copy of a join /
// leave, so duplicates and reorderings are part of the real input domain.
//
// Safety-only oracle, deliberately weaker than the implementation:
//   (S)  no NodeJoined / NodeLeft carries the local address;
//   (J)  #NodeJoined(p) emitted so far <= #arrivals of p notified so far, where a
//        node-join notification counts as a NEW arrival only if it is the first
//        one since the start or since an "opposite event" (a node-left
//        notification for p or an emitted NodeLeft(p)); duplicates in between
//        are the same arrival;
//   (L)  symmetric for NodeLeft(p) and departures (opposite event = node-join
//        notification for p or an emitted NodeJoined(p));
//   (G)  a NodeLeft(p) that is not emitted by the overdue (timeout) action needs,
//        in the history up to and including the current step, some epoch e with
//        both RebalanceStart(reason=node-left, e) and RebalanceComplete(e).
// Nothing is demanded about liveness (an event may never be emitted), about which
// epoch "covers" which departure, about NodeJoined gating, or about order within
// one step.

const (
	c34Join     = 0 // node-join-event(node)
	c34Left     = 1 // node-left-event(node)
	c34Start    = 2 // rebalance-start-event(epoch, reason, node)
	c34Complete = 3 // rebalance-complete-event(epoch)
	c34Overdue  = 4 // the 30 s nodeLeftEmitTimeout timer of `node` fires
)

const (
	c34ReasonLeft   = 0
	c34ReasonJoin   = 1
	c34ReasonUpdate = 2
	c34ReasonOther  = 3
)

var c34Reasons = []string{"node-left", "node-join", "node-update", "unknown"}

// node 0 is the local node; the peers deliberately share its host or its port
var c34Nodes = []string{"127.0.0.1:3322", "127.0.0.1:3323", "127.0.0.2:3322", "10.0.0.7:4000"}

type c34Op struct {
	Kind   int   `json:"kind"`
	Node   int   `json:"node,omitempty"`   // index in c34Nodes
	Epoch  int   `json:"epoch,omitempty"`  // index in Case.Epochs
	Reason int   `json:"reason,omitempty"` // index in c34Reasons
	Src    int   `json:"src,omitempty"`    // publishing member
	TS     int64 `json:"ts,omitempty"`
}

type c34Case struct {
	Epochs []uint64 `json:"epochs"` // distinct, non-zero (olric never starts epoch 0)
	Ops    []c34Op  `json:"ops"`
}

type c34Keyed struct {
	key float64
	seq int
	op  c34Op
}

func c34Jitter(t *rapid.T) float64 {
	switch k := rapid.IntRange(0, 99).Draw(t, "jitter_kind"); {
	case k < 62:
		return 0
	case k < 90:
		return float64(rapid.IntRange(-6, 6).Draw(t, "jitter_small"))
	default:
		return float64(rapid.IntRange(-40, 40).Draw(t, "jitter_large"))
	}
}

func c34Gen(t *rapid.T) c34Case {
	var c c34Case
	// epoch identifiers: olric uses the routing table signature (an arbitrary
	// uint64); small numbers and large ones are both generated
	ne := rapid.IntRange(1, 4).Draw(t, "epochs")
	seen := map[uint64]bool{}
	for len(c.Epochs) < ne {
		var e uint64
		if rapid.IntRange(0, 3).Draw(t, "epoch_kind") == 0 {
			e = rapid.Uint64Range(1<<53, ^uint64(0)).Draw(t, "epoch_big")
		} else {
			e = rapid.Uint64Range(1, 9).Draw(t, "epoch_small")
		}
		if e == 0 || seen[e] {
			continue
		}
		seen[e] = true
		c.Epochs = append(c.Epochs, e)
	}
	npeers := rapid.IntRange(1, 3).Draw(t, "peers")
	var ks []c34Keyed
	add := func(key float64, op c34Op) {
		op.TS = int64(1_700_000_000_000_000_000) + int64(len(ks))*1_000_003
		ks = append(ks, c34Keyed{key: key, seq: len(ks), op: op})
	}
	copies := func(label string) int {
		switch k := rapid.IntRange(0, 9).Draw(t, label); {
		case k < 5:
			return 1
		case k < 8:
			return 2
		case k < 9:
			return 3
		default:
			return 0
		}
	}
	once := func(label string) int {
		switch k := rapid.IntRange(0, 19).Draw(t, label); {
		case k < 15:
			return 1
		case k < 18:
			return 0
		default:
			return 2
		}
	}
	// the "true" membership changes, each with its own rebalance epoch
	changes := rapid.IntRange(1, 5).Draw(t, "changes")
	chain := rapid.IntRange(0, 3).Draw(t, "chain") == 0
	chainNode := rapid.IntRange(1, npeers).Draw(t, "chain_node")
	chainPhase := rapid.IntRange(0, 1).Draw(t, "chain_phase")
	prevNode := 0
	pick := func(label string, lo int) int {
		// half of the time the change is about the peer of the previous change
		// (leave -> rejoin -> leave again chains)
		if prevNode >= lo && prevNode <= npeers && (chain || rapid.IntRange(0, 1).Draw(t, label+"_same") == 0) {
			return prevNode
		}
		prevNode = rapid.IntRange(lo, npeers).Draw(t, label)
		return prevNode
	}
	for ci := 0; ci < changes; ci++ {
		base := float64(ci * 12)
		ep := ci % ne
		if rapid.IntRange(0, 9).Draw(t, "epoch_reuse") == 0 {
			ep = rapid.IntRange(0, ne-1).Draw(t, "epoch_idx")
		}
		kind := rapid.IntRange(0, 9).Draw(t, "change_kind")
		if chain {
			// one peer alternately joins and leaves
			prevNode = chainNode
			kind = 0
			if (ci+chainPhase)%2 == 0 {
				kind = 5
			}
		}
		switch {
		case kind < 5: // a peer leaves
			p := pick("left_node", 1)
			for i, n := 0, copies("left_copies"); i < n; i++ {
				add(base+float64(i)+c34Jitter(t), c34Op{Kind: c34Left, Node: p, Src: rapid.IntRange(0, 3).Draw(t, "src")})
			}
			for i, n := 0, once("start_copies"); i < n; i++ {
				add(base+4+c34Jitter(t), c34Op{Kind: c34Start, Epoch: ep, Reason: c34ReasonLeft, Node: p})
			}
			for i, n := 0, once("complete_copies"); i < n; i++ {
				add(base+8+c34Jitter(t), c34Op{Kind: c34Complete, Epoch: ep})
			}
			if rapid.IntRange(0, 3).Draw(t, "overdue") == 0 {
				add(base+10+c34Jitter(t), c34Op{Kind: c34Overdue, Node: p})
			}
		case kind < 9: // a node joins (the local node included: it hears about its own join)
			p := pick("join_node", 0)
			for i, n := 0, copies("join_copies"); i < n; i++ {
				add(base+float64(i)+c34Jitter(t), c34Op{Kind: c34Join, Node: p, Src: rapid.IntRange(0, 3).Draw(t, "src")})
			}
			for i, n := 0, once("start_copies"); i < n; i++ {
				add(base+4+c34Jitter(t), c34Op{Kind: c34Start, Epoch: ep, Reason: c34ReasonJoin, Node: p})
			}
			for i, n := 0, once("complete_copies"); i < n; i++ {
				add(base+8+c34Jitter(t), c34Op{Kind: c34Complete, Epoch: ep})
			}
		default: // a rebalance for another reason
			add(base+4+c34Jitter(t), c34Op{Kind: c34Start, Epoch: ep, Reason: rapid.IntRange(c34ReasonUpdate, c34ReasonOther).Draw(t, "reason"), Node: rapid.IntRange(0, npeers).Draw(t, "node")})
			add(base+8+c34Jitter(t), c34Op{Kind: c34Complete, Epoch: ep})
		}
	}
	// unconstrained noise
	for i, n := 0, rapid.IntRange(0, 4).Draw(t, "noise"); i < n; i++ {
		key := float64(rapid.IntRange(-2, changes*12+2).Draw(t, "noise_key"))
		switch rapid.IntRange(0, 4).Draw(t, "noise_kind") {
		case 0:
			add(key, c34Op{Kind: c34Join, Node: rapid.IntRange(0, npeers).Draw(t, "node"), Src: rapid.IntRange(0, 3).Draw(t, "src")})
		case 1:
			add(key, c34Op{Kind: c34Left, Node: rapid.IntRange(1, npeers).Draw(t, "node"), Src: rapid.IntRange(0, 3).Draw(t, "src")})
		case 2:
			r := rapid.IntRange(0, 3).Draw(t, "reason")
			lo := 0
			if r == c34ReasonLeft {
				lo = 1
			}
			add(key, c34Op{Kind: c34Start, Epoch: rapid.IntRange(0, ne-1).Draw(t, "epoch_idx"), Reason: r, Node: rapid.IntRange(lo, npeers).Draw(t, "node")})
		case 3:
			add(key, c34Op{Kind: c34Complete, Epoch: rapid.IntRange(0, ne-1).Draw(t, "epoch_idx")})
		default:
			add(key, c34Op{Kind: c34Overdue, Node: rapid.IntRange(1, npeers).Draw(t, "node")})
		}
	}
	sort.SliceStable(ks, func(i, j int) bool {
		if ks[i].key != ks[j].key {
			return ks[i].key < ks[j].key
		}
		return ks[i].seq < ks[j].seq
	})
	if len(ks) > 30 {
		ks = ks[:30]
	}
	for _, k := range ks {
		c.Ops = append(c.Ops, k.op)
	}
	if len(c.Ops) == 0 {
		c.Ops = append(c.Ops, c34Op{Kind: c34Complete, Epoch: 0, TS: 1})
	}
	return c
}

func c34NewCluster() *cluster {
	return &cluster{
		node:                    &discovery.Node{Host: "127.0.0.1", PeersPort: 3322},
		events:                  make(chan *Event, 128),
		nodeJoinedEventsFilter:  goset.NewSet[string](),
		nodeLeftEventsFilter:    goset.NewSet[string](),
		nodeJoinTimestamps:      make(map[string]int64),
		nodeLeftTimestamps:      make(map[string]int64),
		rebalanceJoinNodeEpochs: make(map[string]uint64),
		rebalanceLeftNodeEpochs: make(map[string]uint64),
		rebalanceStartSeen:      make(map[uint64]struct{}),
		rebalanceCompleteSeen:   make(map[uint64]struct{}),
		logger:                  log.DiscardLogger,
		shutdownTimeout:         time.Second,
		running:                 atomic.NewBool(true),
	}
}

func c34Payload(c c34Case, op c34Op) (string, error) {
	src := c34Nodes[op.Src%len(c34Nodes)]
	switch op.Kind {
	case c34Join:
		ev := events.NodeJoinEvent{Kind: events.KindNodeJoinEvent, Source: src, NodeJoin: c34Nodes[op.Node], NodeMeta: "{}", Timestamp: op.TS}
		return ev.Encode()
	case c34Left:
		ev := events.NodeLeftEvent{Kind: events.KindNodeLeftEvent, Source: src, NodeLeft: c34Nodes[op.Node], NodeMeta: "{}", Timestamp: op.TS}
		return ev.Encode()
	case c34Start:
		ev := events.RebalanceStartEvent{Kind: events.KindRebalanceStartEvent, Source: src, Epoch: c.Epochs[op.Epoch], Reason: c34Reasons[op.Reason], Node: c34Nodes[op.Node], Timestamp: op.TS}
		return ev.Encode()
	case c34Complete:
		ev := events.RebalanceCompleteEvent{Kind: events.KindRebalanceCompleteEvent, Source: src, Epoch: c.Epochs[op.Epoch], Timestamp: op.TS}
		return ev.Encode()
	}
	return "", fmt.Errorf("no payload for kind %d", op.Kind)
}

type c34NodeModel struct {
	joinNotifs, leftNotifs   int
	arrivals, departures     int  // distinct arrivals / departures under the weakest reading
	armedJoin, armedLeft     bool // the next notification starts a new arrival / departure
	emittedJoin, emittedLeft int
	overdueFired             int
}

func c34Describe(c c34Case, op c34Op) string {
	switch op.Kind {
	case c34Join:
		return "node-join(" + c34Nodes[op.Node] + ")"
	case c34Left:
		return "node-left(" + c34Nodes[op.Node] + ")"
	case c34Start:
		return fmt.Sprintf("rebalance-start(epoch=%d, reason=%s, node=%s)", c.Epochs[op.Epoch], c34Reasons[op.Reason], c34Nodes[op.Node])
	case c34Complete:
		return fmt.Sprintf("rebalance-complete(epoch=%d)", c.Epochs[op.Epoch])
	case c34Overdue:
		return "overdue-timer(" + c34Nodes[op.Node] + ")"
	}
	return "?"
}

func c34Exec(x *vfkit.X, c c34Case) {
	started := time.Now()
	cl := c34NewCluster()
	self := cl.node.PeersAddress()
	if self != c34Nodes[0] {
		x.Failf("harness-self-address", "local address %q != %q", self, c34Nodes[0])
	}
	defer func() {
		// the 30 s safety-net timers of this case cannot be stopped (they are not
		// kept by the code); make them no-ops and let them release the value
		cl.eventsLock.Lock()
		cl.events = nil
		cl.nodeLeftTimestamps = map[string]int64{}
		cl.nodeJoinTimestamps = map[string]int64{}
		cl.rebalanceLeftNodeEpochs = map[string]uint64{}
		cl.rebalanceJoinNodeEpochs = map[string]uint64{}
		cl.eventsLock.Unlock()
	}()

	nodes := map[string]*c34NodeModel{}
	model := func(addr string) *c34NodeModel {
		m := nodes[addr]
		if m == nil {
			m = &c34NodeModel{armedJoin: true, armedLeft: true}
			nodes[addr] = m
		}
		return m
	}
	startedLeft := map[uint64]bool{}
	completed := map[uint64]bool{}
	startSeen := map[uint64]int{}
	completeSeen := map[uint64]int{}
	leftEpochSettled := func() bool {
		for e := range startedLeft {
			if completed[e] {
				return true
			}
		}
		return false
	}
	lastMember := map[int]int{} // node -> last membership notification kind
	dups, reorders, emitted, overdueEmissions, gatedEmissions := 0, 0, 0, 0, 0
	peersSeen := map[int]bool{}

	// reorderings are a property of the whole history
	for i, op := range c.Ops {
		switch op.Kind {
		case c34Complete:
			before, after := false, false
			for j, o := range c.Ops {
				if o.Kind == c34Start && o.Epoch == op.Epoch {
					if j < i {
						before = true
					} else {
						after = true
					}
				}
			}
			if !before && after {
				reorders++
			}
		case c34Start:
			if op.Reason != c34ReasonLeft && op.Reason != c34ReasonJoin {
				continue
			}
			want := c34Left
			if op.Reason == c34ReasonJoin {
				want = c34Join
			}
			before, after := false, false
			for j, o := range c.Ops {
				if o.Kind == want && o.Node == op.Node {
					if j < i {
						before = true
					} else {
						after = true
					}
				}
			}
			if !before && after {
				reorders++
			}
		}
	}

	for i, op := range c.Ops {
		overdueNode := ""
		switch op.Kind {
		case c34Overdue:
			addr := c34Nodes[op.Node]
			m := model(addr)
			// a timer exists only for a departure that has been notified
			if m.overdueFired >= m.leftNotifs {
				x.Class("overdue_without_timer_skipped")
				continue
			}
			m.overdueFired++
			overdueNode = addr
			cl.emitOverdueNodeLeft(addr)
		default:
			payload, err := c34Payload(c, op)
			if err != nil {
				x.Failf("harness-encode", "op %d: %v", i, err)
			}
			// the model learns the notification before the code runs: everything the
			// code emits during this step may rely on it
			switch op.Kind {
			case c34Join:
				m := model(c34Nodes[op.Node])
				m.joinNotifs++
				if m.armedJoin {
					m.arrivals++
					m.armedJoin = false
				}
				m.armedLeft = true
				if k, ok := lastMember[op.Node]; ok && k == c34Join {
					dups++
				}
				lastMember[op.Node] = c34Join
				if op.Node != 0 {
					peersSeen[op.Node] = true
				}
			case c34Left:
				m := model(c34Nodes[op.Node])
				m.leftNotifs++
				if m.armedLeft {
					m.departures++
					m.armedLeft = false
				}
				m.armedJoin = true
				if k, ok := lastMember[op.Node]; ok && k == c34Left {
					dups++
				}
				lastMember[op.Node] = c34Left
				peersSeen[op.Node] = true
			case c34Start:
				e := c.Epochs[op.Epoch]
				if op.Reason == c34ReasonLeft {
					startedLeft[e] = true
				}
				startSeen[e]++
				if startSeen[e] > 1 {
					dups++
				}
			case c34Complete:
				e := c.Epochs[op.Epoch]
				completed[e] = true
				completeSeen[e]++
				if completeSeen[e] > 1 {
					dups++
				}
			}
			if err := cl.handleClusterEvent(payload); err != nil {
				x.Failf("handle-error-on-valid-payload", "op %d %s: handleClusterEvent(%s) = %v", i, c34Describe(c, op), payload, err)
			}
		}

		// drain what this step emitted
		var step []*Event
	drain:
		for {
			select {
			case ev := <-cl.events:
				step = append(step, ev)
			default:
				break drain
			}
		}
		x.Logf("op %d: %s -> %d event(s)", i, c34Describe(c, op), len(step))
		var joinedNow, leftNow []string
		for _, ev := range step {
			switch ev.Type {
			case NodeJoined:
				p, ok := ev.Payload.(*NodeJoinedEvent)
				if !ok {
					x.Failf("event-payload-type", "op %d: NodeJoined with payload %T", i, ev.Payload)
				}
				joinedNow = append(joinedNow, p.Address)
			case NodeLeft:
				p, ok := ev.Payload.(*NodeLeftEvent)
				if !ok {
					x.Failf("event-payload-type", "op %d: NodeLeft with payload %T", i, ev.Payload)
				}
				leftNow = append(leftNow, p.Address)
			case LeaderChanged:
				// no engine: never expected, and not part of this property
			}
		}
		sort.Strings(joinedNow)
		sort.Strings(leftNow)
		for _, addr := range joinedNow {
			x.Logf("   emitted NodeJoined(%s)", addr)
			emitted++
			if addr == self {
				x.Failf("self-reported-joined", "op %d %s: NodeJoined emitted for the local node %s", i, c34Describe(c, op), self)
			}
			m := model(addr)
			m.emittedJoin++
			if m.joinNotifs == 0 {
				x.Failf("joined-without-arrival", "op %d %s: NodeJoined(%s) emitted but no node-join notification for it so far", i, c34Describe(c, op), addr)
			}
			if m.emittedJoin > m.arrivals {
				x.Failf("duplicate-node-joined", "op %d %s: NodeJoined(%s) emitted %d times for %d arrival(s) (no node-left notification / NodeLeft event for it in between)", i, c34Describe(c, op), addr, m.emittedJoin, m.arrivals)
			}
		}
		for _, addr := range leftNow {
			x.Logf("   emitted NodeLeft(%s)", addr)
			emitted++
			if addr == self {
				x.Failf("self-reported-left", "op %d %s: NodeLeft emitted for the local node %s", i, c34Describe(c, op), self)
			}
			m := model(addr)
			m.emittedLeft++
			if m.leftNotifs == 0 {
				x.Failf("left-without-departure", "op %d %s: NodeLeft(%s) emitted but no node-left notification for it so far", i, c34Describe(c, op), addr)
			}
			if m.emittedLeft > m.departures {
				x.Failf("duplicate-node-left", "op %d %s: NodeLeft(%s) emitted %d times for %d departure(s) (no node-join notification / NodeJoined event for it in between)", i, c34Describe(c, op), addr, m.emittedLeft, m.departures)
			}
			if addr == overdueNode {
				overdueEmissions++
				continue
			}
			gatedEmissions++
			if !leftEpochSettled() {
				if time.Since(started) > 15*time.Second {
					// a real 30 s safety-net timer may have fired inside a stalled case
					x.Class("inconclusive_case_stalled")
					return
				}
				x.Failf("node-left-before-epoch-complete", "op %d %s: NodeLeft(%s) emitted although no rebalance epoch started for a node-left reason has completed so far (and the timeout action did not fire for it)", i, c34Describe(c, op), addr)
			}
		}
		// emissions are opposite events for what follows
		for _, addr := range joinedNow {
			model(addr).armedLeft = true
		}
		for _, addr := range leftNow {
			model(addr).armedJoin = true
		}
	}

	if dups > 0 {
		x.Class("has_duplicate")
	}
	if reorders > 0 {
		x.Class("has_reordering")
	}
	if len(peersSeen) >= 2 {
		x.Class("two_or_more_peers")
	}
	if emitted > 0 {
		x.Class("emits_events")
	} else {
		x.Class("emits_nothing")
	}
	if overdueEmissions > 0 {
		x.Class("node_left_by_timeout")
	}
	if gatedEmissions > 0 {
		x.Class("node_left_by_epoch")
	}
	for addr, m := range nodes {
		if addr == self && m.joinNotifs > 0 {
			x.Class("self_join_notified")
		}
		if m.emittedJoin >= 2 {
			x.Class("node_joined_twice_after_opposite_event")
		}
		if m.arrivals >= 1 && m.departures >= 1 {
			x.Class("peer_both_joins_and_leaves")
		}
		if m.departures >= 2 && m.emittedLeft == 1 {
			// DESIGN.md observation: the left-filter is never cleared; the property only
			// bounds emissions from above, so this is not a violation
			x.Class("obs_later_departure_without_second_NodeLeft")
		}
	}
	if dups > 0 && reorders > 0 && len(peersSeen) >= 2 && emitted > 0 {
		x.NonTrivial()
	}
}

func TestVF_C34_events(t *testing.T) {
	vfkit.Run(t, vfkit.Spec[c34Case]{
		ID: "C34", Unit: "events",
		Rule: "cases = 1-5 membership changes over the local node and 1-3 peers, each with 0-3 copies of its node-join/node-left notification, 0-2 rebalance-start and 0-2 rebalance-complete notifications for one of 1-4 epochs, positions jittered (62% in order, 28% +-6, 10% +-40), plus 0-4 unconstrained notifications and overdue-timer firings, <= 30 steps; non-trivial = at least one duplicate notification, at least one reordering (complete before its start, or start before the join/left it names), notifications about >= 2 peers and at least one event emitted; distinct = distinct (epochs, op list)",
		Gen:  c34Gen, Exec: c34Exec,
	})
}

//go:build verif

package actor

import (
	"context"
	_ "embed"
	"errors"
	"fmt"
	"runtime"
	"sort"
	"strings"
	"sync"
	"sync/atomic"
	"testing"
	"time"
	"unsafe"

	"pgregory.net/rapid"

	gerrors "github.com/tochemey/goakt/v4/errors"
	"github.com/tochemey/goakt/v4/internal/vfe3"
	"github.com/tochemey/goakt/v4/internal/vfkit"
	"github.com/tochemey/goakt/v4/internal/vfsched"
	"github.com/tochemey/goakt/v4/log"
)

// ---- C15: an Ask returns its own reply or an error; an in-time reply is never lost ----
//
// Unit "system" (engine E4): 2..16 concurrent askers (goroutines and actors) use
// every Ask form against 1..3 fresh responders on a real ActorSystem. Every request
// carries a process-unique token; the responder follows the script carried by the
// request (reply now / after d / never / twice / from a goroutine / reply and
// linger). The shared pools of receive contexts and reply channels are drained to a
// generated depth first, so recycled objects are handed out again at once. Every
// handler logs the identity of the context and the reply channel it was given; every
// caller logs what its Ask returned. The oracle is evaluated over that history.

const (
	c15FormPIDAsk      = iota // sender.Ask(ctx, to, msg, timeout)
	c15FormPkgAsk             // actor.Ask(ctx, to, msg, timeout)
	c15FormSendSync           // sender.SendSync(ctx, name, msg, timeout)
	c15FormPkgBatch           // actor.BatchAsk(ctx, to, timeout, msgs...)
	c15FormPIDBatch           // sender.BatchAsk(ctx, to, msgs, timeout)
	c15FormCtxAsk             // (inside Receive) rctx.Ask(to, msg, timeout)
	c15FormCtxSendSync        // (inside Receive) rctx.SendSync(name, msg, timeout)
	c15FormCtxBatch           // (inside Receive) rctx.BatchAsk(to, msgs, timeout)
	c15FormCount
)

var c15FormNames = [...]string{"pid_ask", "pkg_ask", "pid_sendsync", "pkg_batchask", "pid_batchask", "rctx_ask", "rctx_sendsync", "rctx_batchask"}

const (
	c15ScriptNow    = iota // Response at once
	c15ScriptLate          // sleep DelayUS, then Response
	c15ScriptNever         // no Response
	c15ScriptTwice         // Response twice (second one after DelayUS)
	c15ScriptGo            // Response from a goroutine spawned by the handler (after DelayUS); the handler waits for it
	c15ScriptLinger        // Response at once, then the handler keeps running for DelayUS
	c15ScriptCount
)

var c15ScriptNames = [...]string{"now", "late", "never", "twice", "goroutine", "linger"}

const (
	c15Generous      = 20 * time.Second // "generous" caller timeout
	c15Medium        = 1 * time.Second  // see c15Run.medium
	c15InTimeMargin  = 10 * time.Second // a reply given later than this after the Ask started is not judged
	c15ReturnCap     = 90 * time.Second
	c15HandledCap    = 20 * time.Second
	c15MailboxKinds  = 3
	c15FpForeign     = "ask-reply-delivered-to-other-ask"
	c15FpStaleSend   = "ask-stale-reply-after-timeout-lands-in-recycled-channel"
	c15FpLost        = "ask-in-time-reply-lost"
	c15FpStaleClose  = "ask-reply-dropped-stale-close-on-recycled-context"
	c15FpClosedEarly = "ask-reply-path-closed-before-first-response"
	c15FpNoReply     = "ask-nil-reply-without-error"
	c15FpBatchShape  = "batchask-wrong-number-or-order-of-replies"
)

type c15Item struct {
	Script  int `json:"script"`
	DelayUS int `json:"delay_us"`
}

type c15AskSpec struct {
	Form      int       `json:"form"`
	Resp      int       `json:"resp"`
	Items     []c15Item `json:"items"` // one, or 1..4 for the batch forms
	Short     bool      `json:"short"`
	TimeoutUS int       `json:"timeout_us"` // short timeouts only; generous = c15Generous
	PauseUS   int       `json:"pause_us"`   // pause before the call
}

type c15AskerSpec struct {
	Actor bool         `json:"actor"` // asks are made from inside an actor's Receive (rctx forms)
	Asks  []c15AskSpec `json:"asks"`
}

type c15Case struct {
	Responders []int          `json:"responders"` // mailbox kind per responder
	Askers     []c15AskerSpec `json:"askers"`
	CtxDepth   int            `json:"ctx_depth"` // receive-context pool drained to this depth (-1: left as it is)
	ChDepth    int            `json:"ch_depth"`  // reply-channel pool drained to this depth (-1: left as it is)
	NoiseSeed  uint64         `json:"noise_seed"`
	NoiseProb  float64        `json:"noise_prob"`
	NoiseSleep int            `json:"noise_sleep"`
}

// ---- messages, history -------------------------------------------------------------

type c15Req struct {
	Token    uint64
	Script   int
	DelayUS  int
	Generous bool
	run      *c15Run
	cancel   context.CancelFunc // generous asks made with a cancellable context
}

type c15Rep struct {
	Token uint64
	Ord   int
}

// c15Handled is what the responder observed when it handled one request.
type c15Handled struct {
	ts              int64 // logical time of the handler's start
	ctx             *ReceiveContext
	ch              chan any
	closedOnArrival bool
	closedAtRespond bool // reply path already marked closed when the first Response was about to be made
	responded       int
	resps           [][2]int64 // logical [start,end] of every Response call
	respondedTs     int64
	respondedWall   time.Time
	doneTs          int64
}

type c15Run struct {
	clock    atomic.Int64
	mu       sync.Mutex
	handled  map[uint64]*c15Handled
	handledN atomic.Int64
	puts     []c15Put // reply channels going back to the pool (hook in putResponseChannel)
	medium   bool     // finding c15FpStaleClose is listed: generous asks that cannot be cancelled wait c15Medium only
}

func (r *c15Run) tick() int64 { return r.clock.Add(1) }

type c15Put struct {
	ch chan any
	ts int64
}

var c15Cur atomic.Pointer[c15Run]

func c15OnPut(ch chan any) {
	if r := c15Cur.Load(); r != nil {
		r.mu.Lock()
		r.puts = append(r.puts, c15Put{ch, r.tick()})
		r.mu.Unlock()
	}
}

// c15RawClosed reads responseClosed without passing through the yielding shim.
func c15RawClosed(ctx *ReceiveContext) *atomic.Bool {
	return (*atomic.Bool)(unsafe.Pointer(&ctx.responseClosed))
}

type c15Responder struct{}

func (c15Responder) PreStart(*Context) error { return nil }
func (c15Responder) PostStop(*Context) error { return nil }

func (c15Responder) Receive(ctx *ReceiveContext) {
	if b, ok := ctx.Message().(*c15Barrier); ok {
		close(b.done)
		return
	}
	m, ok := ctx.Message().(*c15Req)
	if !ok {
		return
	}
	run := m.run
	h := &c15Handled{ts: run.tick(), ctx: ctx, ch: ctx.response, closedOnArrival: c15RawClosed(ctx).Load()}
	run.mu.Lock()
	run.handled[m.Token] = h
	run.mu.Unlock()
	respond := func(ord int) {
		if ord == 1 && m.Generous && c15RawClosed(ctx).Load() {
			// the caller of a generous Ask is still waiting, yet its reply path is closed:
			// Response is going to drop the reply
			h.closedAtRespond = true
			if m.cancel != nil {
				defer m.cancel() // do not wait 20 s for a reply that was observably dropped
			}
		}
		iv := [2]int64{run.tick(), 0}
		ctx.Response(&c15Rep{Token: m.Token, Ord: ord})
		iv[1] = run.tick()
		h.resps = append(h.resps, iv)
		h.responded++
		if ord == 1 {
			h.respondedWall = time.Now()
			h.respondedTs = run.tick()
		}
	}
	d := time.Duration(m.DelayUS) * time.Microsecond
	switch m.Script {
	case c15ScriptNow:
		respond(1)
	case c15ScriptLate:
		c15Sleep(d)
		respond(1)
	case c15ScriptNever:
	case c15ScriptTwice:
		respond(1)
		c15Sleep(d)
		respond(2)
	case c15ScriptGo:
		done := make(chan struct{})
		go func() {
			defer close(done)
			c15Sleep(d)
			respond(1)
		}()
		<-done
	case c15ScriptLinger:
		respond(1)
		c15Sleep(d)
	}
	h.doneTs = run.tick()
	run.handledN.Add(1)
}

// c15Sleep waits for d; short waits spin (with Gosched) because the runtime's
// timer granularity is far above a few hundred microseconds on a busy machine.
func c15Sleep(d time.Duration) {
	if d <= 0 {
		return
	}
	if d >= 2*time.Millisecond {
		time.Sleep(d)
		return
	}
	end := time.Now().Add(d)
	for time.Now().Before(end) {
		c15Gosched()
	}
}

type c15Barrier struct{ done chan struct{} }

type c15Nop struct{}

func (c15Nop) PreStart(*Context) error { return nil }
func (c15Nop) PostStop(*Context) error { return nil }
func (c15Nop) Receive(*ReceiveContext) {}

// c15AskRec is one Ask-form call made by an asker.
type c15AskRec struct {
	asker, idx int
	spec       c15AskSpec
	tokens     []uint64
	startTs    int64
	startWall  time.Time
	retTs      int64
	retWall    time.Time
	replies    []any // per item (nil when the call failed)
	err        error
	nReplies   int // batch: number of values found on the returned channel
	medium     bool
}

type c15Go struct {
	asker int
	spec  c15AskerSpec
	env   *c15Env
	out   chan []*c15AskRec
}

type c15AskerActor struct{}

func (c15AskerActor) PreStart(*Context) error { return nil }
func (c15AskerActor) PostStop(*Context) error { return nil }
func (c15AskerActor) Receive(ctx *ReceiveContext) {
	g, ok := ctx.Message().(*c15Go)
	if !ok {
		return
	}
	g.out <- g.env.runAsker(g.asker, g.spec, ctx)
}

// c15Env is the per-case environment shared by the askers.
type c15Env struct {
	run        *c15Run
	responders []*PID
	sender     *PID
}

var c15Token atomic.Uint64

func (e *c15Env) runAsker(asker int, spec c15AskerSpec, rctx *ReceiveContext) []*c15AskRec {
	var out []*c15AskRec
	for i, a := range spec.Asks {
		c15Sleep(time.Duration(a.PauseUS) * time.Microsecond)
		out = append(out, e.doAsk(asker, i, a, rctx))
	}
	return out
}

func (e *c15Env) doAsk(asker, idx int, a c15AskSpec, rctx *ReceiveContext) *c15AskRec {
	rec := &c15AskRec{asker: asker, idx: idx, spec: a}
	to := e.responders[a.Resp]
	timeout := c15Generous
	// A generous ask whose reply path is observably closed when its responder is about to
	// reply is released at once through its context instead of sitting out 20 s. That is
	// only possible (and only safe) for a single ask made with a context of its own: a
	// batch shares one context among its asks, and an ask made from inside an actor
	// runs on a non-cancellable context.
	cancellable := !a.Short && rctx == nil && !c15IsBatch(a.Form)
	if a.Short {
		timeout = time.Duration(a.TimeoutUS) * time.Microsecond
	} else if !cancellable && e.run.medium {
		// While the stale-close finding is listed, a generous ask that cannot be released
		// would sit out 20 s each time the finding strikes. It waits 1 s instead; a
		// failure of such a call is then judged only when it has the shape of the listed
		// finding (excluded) and is otherwise inconclusive, never a violation.
		timeout = c15Medium
		rec.medium = true
	}
	cctx := context.Background()
	var cancel context.CancelFunc
	if cancellable {
		cctx, cancel = context.WithCancel(cctx)
		defer cancel()
	}
	msgs := make([]any, len(a.Items))
	for i, it := range a.Items {
		tok := c15Token.Add(1)
		rec.tokens = append(rec.tokens, tok)
		msgs[i] = &c15Req{Token: tok, Script: it.Script, DelayUS: it.DelayUS, Generous: !a.Short, run: e.run, cancel: cancel}
	}
	rec.replies = make([]any, len(a.Items))
	collect := func(ch chan any, err error) {
		rec.err = err
		if err != nil || ch == nil {
			return
		}
		// the returned channel is closed and holds the replies in request order
		for v := range ch {
			if rec.nReplies < len(rec.replies) {
				rec.replies[rec.nReplies] = v
			}
			rec.nReplies++
		}
	}
	rec.startWall = time.Now()
	rec.startTs = e.run.tick()
	switch a.Form {
	case c15FormPIDAsk:
		rec.replies[0], rec.err = e.sender.Ask(cctx, to, msgs[0], timeout)
	case c15FormPkgAsk:
		rec.replies[0], rec.err = Ask(cctx, to, msgs[0], timeout)
	case c15FormSendSync:
		rec.replies[0], rec.err = e.sender.SendSync(cctx, to.Name(), msgs[0], timeout)
	case c15FormPkgBatch:
		collect(BatchAsk(cctx, to, timeout, msgs...))
	case c15FormPIDBatch:
		collect(e.sender.BatchAsk(cctx, to, msgs, timeout))
	case c15FormCtxAsk:
		rec.replies[0] = rctx.Ask(to, msgs[0], timeout)
		rec.err = rctx.getError()
		rctx.Err(nil)
	case c15FormCtxSendSync:
		rec.replies[0] = rctx.SendSync(to.Name(), msgs[0], timeout)
		rec.err = rctx.getError()
		rctx.Err(nil)
	case c15FormCtxBatch:
		ch := rctx.BatchAsk(to, msgs, timeout)
		collect(ch, rctx.getError())
		rctx.Err(nil)
	}
	rec.retTs = e.run.tick()
	rec.retWall = time.Now()
	if rec.err != nil {
		for i := range rec.replies {
			rec.replies[i] = nil
		}
	}
	return rec
}

// ---- generator -----------------------------------------------------------------------

func c15IsBatch(form int) bool {
	return form == c15FormPkgBatch || form == c15FormPIDBatch || form == c15FormCtxBatch
}

func c15GenItem(t *rapid.T, short bool, timeoutUS int) c15Item {
	var it c15Item
	if short {
		it.Script = rapid.SampledFrom([]int{c15ScriptNow, c15ScriptLate, c15ScriptLate, c15ScriptLate, c15ScriptNever, c15ScriptNever, c15ScriptTwice, c15ScriptGo, c15ScriptGo, c15ScriptLinger}).Draw(t, "script")
	} else {
		it.Script = rapid.SampledFrom([]int{c15ScriptNow, c15ScriptNow, c15ScriptNow, c15ScriptLate, c15ScriptTwice, c15ScriptGo, c15ScriptLinger}).Draw(t, "script")
	}
	switch {
	case it.Script == c15ScriptNow || it.Script == c15ScriptNever:
	case short && rapid.IntRange(0, 2).Draw(t, "nearDeadline") != 0:
		// aim the reply at the caller's deadline: the race the property is about
		d := timeoutUS + rapid.IntRange(-600, 200).Draw(t, "skew")
		if d < 0 {
			d = 0
		}
		it.DelayUS = d
	default:
		it.DelayUS = rapid.SampledFrom([]int{0, 50, 200, 500, 1000, 2500, 6000}).Draw(t, "delay")
	}
	return it
}

func c15Gen(t *rapid.T) c15Case {
	var c c15Case
	nr := rapid.SampledFrom([]int{1, 1, 2, 2, 3}).Draw(t, "responders")
	for i := 0; i < nr; i++ {
		c.Responders = append(c.Responders, rapid.SampledFrom([]int{0, 0, 1, 1, 2}).Draw(t, "mailbox"))
	}
	na := rapid.OneOf(rapid.IntRange(2, 5), rapid.IntRange(2, 16)).Draw(t, "askers")
	for i := 0; i < na; i++ {
		var as c15AskerSpec
		as.Actor = rapid.IntRange(0, 2).Draw(t, "actorAsker") == 0
		n := rapid.IntRange(1, 4).Draw(t, "asks")
		for j := 0; j < n; j++ {
			var a c15AskSpec
			if as.Actor {
				a.Form = rapid.SampledFrom([]int{c15FormCtxAsk, c15FormCtxAsk, c15FormCtxSendSync, c15FormCtxBatch}).Draw(t, "form")
			} else {
				a.Form = rapid.SampledFrom([]int{c15FormPIDAsk, c15FormPIDAsk, c15FormPkgAsk, c15FormPkgAsk, c15FormSendSync, c15FormPkgBatch, c15FormPIDBatch}).Draw(t, "form")
			}
			a.Resp = rapid.IntRange(0, nr-1).Draw(t, "resp")
			a.Short = rapid.IntRange(0, 9).Draw(t, "short") < 6
			if a.Short {
				a.TimeoutUS = rapid.SampledFrom([]int{300, 500, 1000, 1000, 2000, 3000, 5000}).Draw(t, "timeout")
			}
			a.PauseUS = rapid.SampledFrom([]int{0, 0, 0, 100, 300, 1000, 2000}).Draw(t, "pause")
			ni := 1
			if c15IsBatch(a.Form) {
				ni = rapid.IntRange(1, 4).Draw(t, "batch")
			}
			for k := 0; k < ni; k++ {
				a.Items = append(a.Items, c15GenItem(t, a.Short, a.TimeoutUS))
			}
			as.Asks = append(as.Asks, a)
		}
		c.Askers = append(c.Askers, as)
	}
	c.CtxDepth = rapid.SampledFrom([]int{0, 0, 0, 1, 2, 3, 4, -1}).Draw(t, "ctxDepth")
	c.ChDepth = rapid.SampledFrom([]int{0, 0, 0, 1, 2, 3, 4, -1}).Draw(t, "chDepth")
	c.NoiseSeed = rapid.Uint64().Draw(t, "noiseSeed")
	c.NoiseProb = rapid.SampledFrom([]float64{0, 0.01, 0.05, 0.05, 0.2}).Draw(t, "noiseProb")
	c.NoiseSleep = rapid.SampledFrom([]int{0, 50, 300, 300, 1500}).Draw(t, "noiseSleep")
	return c
}

// ---- system under test -------------------------------------------------------------

var (
	c15Sys    ActorSystem
	c15Sender *PID
	c15Seq    atomic.Int64
)

func c15Start(t *testing.T) {
	ctx := context.Background()
	sys, err := NewActorSystem("vfC15", WithLogger(log.DiscardLogger))
	if err != nil {
		t.Fatalf("NewActorSystem: %v", err)
	}
	if err := sys.Start(ctx); err != nil {
		t.Fatalf("Start: %v", err)
	}
	t.Cleanup(func() { _ = sys.Stop(context.Background()) })
	s, err := sys.Spawn(ctx, "c15-sender", c15Nop{}, WithLongLived())
	if err != nil {
		t.Fatalf("spawn sender: %v", err)
	}
	c15Sys, c15Sender = sys, s
	vfC15PutHook = c15OnPut
}

func c15Mailbox(kind int) []SpawnOption {
	switch kind {
	case 1:
		return []SpawnOption{WithMailbox(NewNonBlockingBoundedMailbox(1024))}
	case 2:
		return []SpawnOption{WithMailbox(NewUnboundedStablePriorityMailbox(func(any, any) bool { return false }))}
	}
	return nil // default UnboundedMailbox
}

// c15Drain empties both pools and refills them with fresh objects up to the given
// depth (-1: a full context pool / 64 reply channels, the state of an idle process).
// Starting every case from fresh objects keeps a stale reply that a previous case
// left in a pooled channel from leaking into this one.
func c15Drain(ctxDepth, chDepth int) {
	if ctxDepth < 0 {
		ctxDepth = contextPoolSize
	}
	if chDepth < 0 {
		chDepth = 64
	}
	for {
		select {
		case <-contextCh:
			continue
		default:
		}
		break
	}
	for i := 0; i < ctxDepth; i++ {
		select {
		case contextCh <- new(ReceiveContext):
		default:
		}
	}
	for {
		select {
		case <-responseCh:
			continue
		default:
		}
		break
	}
	for i := 0; i < chDepth; i++ {
		select {
		case responseCh <- make(chan any, 1):
		default:
		}
	}
}

// ---- execution + oracle --------------------------------------------------------------

type c15ItemRef struct {
	rec *c15AskRec
	i   int
}

func c15Exec(x *vfkit.X, c c15Case) {
	ctx := context.Background()
	run := &c15Run{handled: map[uint64]*c15Handled{}, medium: x.Known(c15FpStaleClose) && c.CtxDepth >= 0}
	env := &c15Env{run: run, sender: c15Sender}
	c15Cur.Store(run)
	defer c15Cur.Store(nil)
	seq := c15Seq.Add(1)
	var spawned []*PID
	defer func() {
		vfsched.SetNoise(0, 0, 0)
		for _, p := range spawned {
			_ = p.Shutdown(ctx)
		}
	}()
	for i, kind := range c.Responders {
		p, err := c15Sys.Spawn(ctx, fmt.Sprintf("c15-r-%d-%d", seq, i), c15Responder{}, c15Mailbox(kind)...)
		if err != nil {
			x.Failf("harness-spawn", "spawn responder: %v", err)
		}
		spawned = append(spawned, p)
		env.responders = append(env.responders, p)
		x.Class(fmt.Sprintf("mailbox_%d", kind))
	}
	askerPIDs := make([]*PID, len(c.Askers))
	for i, as := range c.Askers {
		if as.Actor {
			p, err := c15Sys.Spawn(ctx, fmt.Sprintf("c15-a-%d-%d", seq, i), c15AskerActor{})
			if err != nil {
				x.Failf("harness-spawn", "spawn asker: %v", err)
			}
			spawned = append(spawned, p)
			askerPIDs[i] = p
		}
	}

	c15Drain(c.CtxDepth, c.ChDepth)
	x.Class(fmt.Sprintf("ctx_depth_%d", c.CtxDepth))
	x.Class(fmt.Sprintf("ch_depth_%d", c.ChDepth))
	vfsched.SetNoise(c.NoiseSeed, c.NoiseProb, c.NoiseSleep)
	if c.NoiseProb > 0 {
		x.Class("noise_on")
	}

	out := make(chan []*c15AskRec, len(c.Askers))
	total := 0
	for i, as := range c.Askers {
		for _, a := range as.Asks {
			total += len(a.Items)
		}
		if as.Actor {
			if err := Tell(ctx, askerPIDs[i], &c15Go{asker: i, spec: as, env: env, out: out}); err != nil {
				x.Failf("harness-tell", "Tell asker: %v", err)
			}
			continue
		}
		i, as := i, as
		go func() { out <- env.runAsker(i, as, nil) }()
	}
	var recs []*c15AskRec
	capT := time.NewTimer(c15ReturnCap)
	defer capT.Stop()
	for n := 0; n < len(c.Askers); n++ {
		select {
		case rs := <-out:
			recs = append(recs, rs...)
		case <-capT.C:
			vfsched.SetNoise(0, 0, 0)
			x.Class("inconclusive_asker_stuck")
			return
		}
	}
	vfsched.SetNoise(0, 0, 0)
	// every request that was sent is handled eventually (its caller may be long gone):
	// a barrier message behind them in every responder's (FIFO) mailbox
	quiet := true
	for _, p := range env.responders {
		done := make(chan struct{})
		if err := Tell(ctx, p, &c15Barrier{done: done}); err != nil {
			quiet = false
			continue
		}
		select {
		case <-done:
		case <-time.After(c15HandledCap):
			quiet = false
		}
	}
	if !quiet {
		x.Class("inconclusive_not_all_handled")
		return
	}
	c15Judge(x, c, run, recs)
}

func c15Judge(x *vfkit.X, c c15Case, run *c15Run, recs []*c15AskRec) {
	sort.Slice(recs, func(i, j int) bool { return recs[i].startTs < recs[j].startTs })
	run.mu.Lock()
	handled := make(map[uint64]*c15Handled, len(run.handled))
	for k, v := range run.handled {
		handled[k] = v
	}
	puts := append([]c15Put(nil), run.puts...)
	run.mu.Unlock()
	// pooledDuringResponse: the reply channel of h went back to the pool while one of
	// h's Response calls was in progress (claimed by the CAS, not sent yet)
	pooledDuringResponse := func(h *c15Handled) bool {
		for _, iv := range h.resps {
			for _, p := range puts {
				if p.ch == h.ch && p.ts > iv[0] && p.ts < iv[1] {
					return true
				}
			}
		}
		return false
	}
	owner := map[uint64]c15ItemRef{}
	for _, r := range recs {
		for i, tok := range r.tokens {
			owner[tok] = c15ItemRef{r, i}
		}
	}
	describe := func(r *c15AskRec) string {
		s := fmt.Sprintf("asker%d.ask%d %s resp=%d short=%v timeout=%dus tokens=%v start@%d ret@%d err=%v", r.asker, r.idx, c15FormNames[r.spec.Form], r.spec.Resp, r.spec.Short, r.spec.TimeoutUS, r.tokens, r.startTs, r.retTs, r.err)
		for i, tok := range r.tokens {
			it := r.spec.Items[i]
			s += fmt.Sprintf(" | item%d token=%d script=%s delay=%dus", i, tok, c15ScriptNames[it.Script], it.DelayUS)
			if h := handled[tok]; h != nil {
				s += fmt.Sprintf(" handled@%d..%d ctx=%p ch=%p closedOnArrival=%v closedAtRespond=%v responses=%v", h.ts, h.doneTs, h.ctx, h.ch, h.closedOnArrival, h.closedAtRespond, h.resps)
			} else {
				s += " not-handled"
			}
			if rep, ok := r.replies[i].(*c15Rep); ok {
				s += fmt.Sprintf(" got=token%d/ord%d", rep.Token, rep.Ord)
			}
		}
		return s
	}
	dump := func() {
		for _, r := range recs {
			x.Logf("%s", describe(r))
		}
		for _, p := range puts {
			x.Logf("reply channel %p pooled @%d", p.ch, p.ts)
		}
	}
	// staleCloser: another call whose receive context is the one `tok` was later
	// delivered in, and that had not returned yet when `tok`'s call started — the
	// only callers whose final responseClosed.Store(true) can hit tok's context.
	staleCloser := func(tok uint64, of *c15AskRec) *c15AskRec {
		hb := handled[tok]
		if hb == nil {
			return nil
		}
		for t2, ha := range handled {
			o, ok := owner[t2]
			if !ok || o.rec == of || ha.ctx != hb.ctx || ha.ts >= hb.ts {
				continue
			}
			if o.rec.retTs > of.startTs {
				return o.rec
			}
		}
		return nil
	}

	timedOut, reuse, overlap := false, false, false
	for _, r := range recs {
		x.Class("form_" + c15FormNames[r.spec.Form])
		for _, it := range r.spec.Items {
			x.Class("script_" + c15ScriptNames[it.Script])
		}
		if r.err != nil {
			timedOut = true
			if r.spec.Short {
				x.Class("short_error")
			}
		} else if r.spec.Short {
			x.Class("short_reply")
		} else {
			x.Class("generous_reply")
		}
	}
	// non-trivial: a failed ask and a later successful ask that was served through the
	// same context or the same reply channel object
	for _, rb := range recs {
		if rb.err != nil {
			continue
		}
		for _, tb := range rb.tokens {
			hb := handled[tb]
			if hb == nil {
				continue
			}
			for ta, ha := range handled {
				oa, ok := owner[ta]
				if !ok || oa.rec == rb || ha.ts >= hb.ts {
					continue
				}
				if ha.ctx == hb.ctx {
					x.Class("context_reused")
					if oa.rec.retTs > rb.startTs {
						overlap = true
					}
				}
				if ha.ch == hb.ch && ha.ch != nil {
					x.Class("channel_reused")
				}
				if oa.rec.err != nil && (ha.ctx == hb.ctx || (ha.ch == hb.ch && ha.ch != nil)) {
					reuse = true
				}
			}
		}
	}
	if overlap {
		x.Class("context_reused_while_previous_caller_pending")
	}
	if timedOut && reuse {
		x.NonTrivial()
	}

	for _, r := range recs {
		batch := c15IsBatch(r.spec.Form)
		if r.err == nil {
			if batch && r.nReplies != len(r.tokens) {
				dump()
				x.Failf(c15FpBatchShape, "BatchAsk of %d messages returned %d replies without an error: %s", len(r.tokens), r.nReplies, describe(r))
			}
			for i, tok := range r.tokens {
				rep, ok := r.replies[i].(*c15Rep)
				if !ok {
					dump()
					x.Failf(c15FpNoReply, "Ask returned neither a reply nor an error (reply=%v): %s", r.replies[i], describe(r))
				}
				if rep.Token == tok {
					continue
				}
				// a reply that the target gave to another message
				if batch {
					for j, t2 := range r.tokens {
						if t2 == rep.Token && j != i {
							dump()
							x.Failf(c15FpBatchShape, "BatchAsk replies are not in request order (position %d holds the reply to message %d): %s", i, j, describe(r))
						}
					}
				}
				fp := c15FpForeign
				detail := "the reply belongs to a request that is not part of this case"
				if oa, ok := owner[rep.Token]; ok {
					detail = "the reply belongs to: " + describe(oa.rec)
					ha, hb := handled[rep.Token], handled[tok]
					// the listed stale-send shape: the owner's caller had given up (or had itself
					// been handed a foreign reply) and pooled the channel while the owner's
					// Response call was between its CAS and its send
					if (oa.rec.err != nil || c15GotForeign(oa.rec)) && ha != nil && (hb == nil || ha.ch == hb.ch) && pooledDuringResponse(ha) {
						fp = c15FpStaleSend
					}
				}
				if x.Known(fp) && fp == c15FpStaleSend {
					x.Class("excluded_known_stale_send")
					continue
				}
				dump()
				x.Failf(fp, "Ask for token %d returned the reply to token %d: %s ;; %s", tok, rep.Token, describe(r), detail)
			}
			continue
		}
		// the call failed
		if r.spec.Short {
			continue // a short timeout may or may not beat the reply
		}
		if !errors.Is(r.err, gerrors.ErrRequestTimeout) {
			dump()
			x.Failf("ask-unexpected-error", "an Ask to a running actor failed with %v: %s", r.err, describe(r))
		}
		// generous timeout: every script of a generous ask replies. A batch stops at its
		// first failing ask, so the request that failed is the last one that was sent
		// (all responders have passed the barrier: handled == sent).
		var tok uint64
		idx := -1
		for i, t2 := range r.tokens {
			if handled[t2] != nil {
				tok, idx = t2, i
			}
		}
		if idx < 0 {
			x.Class("inconclusive_generous_never_handled")
			continue
		}
		h := handled[tok]
		if h.responded == 0 || h.doneTs == 0 {
			x.Class("inconclusive_generous_handler_unfinished")
			continue
		}
		if h.respondedWall.Sub(r.startWall) > c15InTimeMargin {
			x.Class("inconclusive_generous_slow_reply")
			continue
		}
		fp := c15FpLost
		detail := ""
		if a := staleCloser(tok, r); a != nil {
			fp = c15FpStaleClose
			detail = " ;; the context was still referenced by: " + describe(a)
		}
		if fp == c15FpStaleClose && x.Known(fp) {
			x.Class("excluded_known_stale_close")
			continue
		}
		if r.medium {
			x.Class("inconclusive_medium_timeout")
			continue
		}
		dump()
		x.Failf(fp, "a reply given %v after the Ask started (timeout %v, returned after %v) was lost: %s%s", h.respondedWall.Sub(r.startWall), c15Generous, r.retWall.Sub(r.startWall), describe(r), detail)
	}
}

func c15Gosched() { runtime.Gosched() }

// c15GotForeign: the call returned, without an error, a reply to another request.
func c15GotForeign(r *c15AskRec) bool {
	if r.err != nil {
		return false
	}
	for i, tok := range r.tokens {
		if rep, ok := r.replies[i].(*c15Rep); ok && rep.Token != tok {
			return true
		}
	}
	return false
}

func TestVF_C15_system(t *testing.T) {
	c15Start(t)
	vfkit.Run(t, vfkit.Spec[c15Case]{
		ID: "C15", Unit: "system",
		Rule: "cases = 2..16 concurrent askers (goroutines and actors) x 1..4 calls over all Ask forms (PID.Ask, Ask, SendSync, BatchAsk, rctx.Ask/SendSync/BatchAsk) against 1..3 fresh responders (3 mailbox kinds) with per-request scripts now/late/never/twice/goroutine/linger, short (0.3..5 ms) or generous (20 s) caller timeouts, context and reply-channel pools drained to depth 0..4, seeded schedule noise; non-trivial = the case contains a failed ask and a later successful ask that was served through the same ReceiveContext or the same reply channel object (pointer identity logged by the handlers); distinct = distinct cases",
		Gen:  c15Gen, Exec: c15Exec,
		ReplayReps: 50,
	})
}

// ---- unit "window" (engine E3) ---------------------------------------------------------
//
// The reply path in isolation under the deterministic scheduler: the real
// getContext / build / Response / recycleContext / putResponseChannel and the real
// pools, with the caller's side of Ask (pid.go Ask, api.go Ask: wait for the reply
// or the timer, then responseClosed.Store(true) and putResponseChannel) and the
// mailbox's side (the consumed context is recycled) written out as logical
// threads. Every atomic operation is a scheduling point; when the timer of a
// short ask fires is a scheduling decision.

// The caller's side of Ask cannot run under the cooperative scheduler (it blocks in
// a select on a real timer), so it is written out below. To stay a faithful copy it
// follows the source it was copied from: pid.go is embedded and the shape of
// PID.Ask's three select branches is read from it.
//
//	c15wCallerCurrent : every branch ends with responseClosed.Store(true); putResponseChannel(ch)
//	c15wCallerFixed   : (proposed_fix.diff) reply branch: putResponseChannel(ch); other branches: nothing
//	c15wCallerUnknown : anything else -> the unit judges nothing (class inconclusive_caller_side_changed)
//
//go:embed pid.go
var c15PidSrc string

const (
	c15wCallerUnknown = iota
	c15wCallerCurrent
	c15wCallerFixed
)

func c15wCallerShape() int {
	i := strings.Index(c15PidSrc, "func (pid *PID) Ask(")
	if i < 0 {
		return c15wCallerUnknown
	}
	body := c15PidSrc[i:]
	if j := strings.Index(body, "\n}\n"); j > 0 {
		body = body[:j]
	}
	stores := strings.Count(body, "receiveContext.responseClosed.Store(true)")
	puts := strings.Count(body, "putResponseChannel(responseCh)")
	sel := strings.Count(body, "case ")
	switch {
	case sel == 3 && stores == 3 && puts == 3:
		return c15wCallerCurrent
	case sel == 3 && stores == 0 && puts == 1 && strings.Contains(body, "case result := <-responseCh:\n\t\ttimers.Put(timer)\n\t\tputResponseChannel(responseCh)"):
		return c15wCallerFixed
	}
	return c15wCallerUnknown
}

type c15wAsk struct {
	Short     bool `json:"short"`      // a timer thread may fire at any time after the enqueue
	Script    int  `json:"script"`     // c15ScriptNow / c15ScriptNever / c15ScriptTwice
	PickTimer bool `json:"pick_timer"` // reply and timer both ready: the select takes the timer
}

type c15wCase struct {
	Asks     []c15wAsk `json:"asks"`
	CtxDepth int       `json:"ctx_depth"`
	ChDepth  int       `json:"ch_depth"`
	Recycle  bool      `json:"recycle"` // the mailbox recycles the consumed context right after the handler (next Dequeue call)
}

func c15wGen(t *rapid.T) c15wCase {
	var c c15wCase
	n := rapid.IntRange(2, 4).Draw(t, "asks")
	for i := 0; i < n; i++ {
		var a c15wAsk
		a.Short = rapid.IntRange(0, 2).Draw(t, "short") != 0
		if a.Short {
			a.Script = rapid.SampledFrom([]int{c15ScriptNow, c15ScriptNow, c15ScriptNever, c15ScriptTwice}).Draw(t, "script")
		} else {
			a.Script = rapid.SampledFrom([]int{c15ScriptNow, c15ScriptNow, c15ScriptTwice}).Draw(t, "script")
		}
		a.PickTimer = rapid.Bool().Draw(t, "pickTimer")
		c.Asks = append(c.Asks, a)
	}
	c.CtxDepth = rapid.SampledFrom([]int{0, 0, 1, 2}).Draw(t, "ctxDepth")
	c.ChDepth = rapid.SampledFrom([]int{0, 0, 1, 2}).Draw(t, "chDepth")
	c.Recycle = rapid.IntRange(0, 3).Draw(t, "recycle") != 0
	return c
}

type c15wPut struct {
	ch chan any
	ts int
}

type c15wResp struct{ start, end int }

type c15wAskState struct {
	rc        *ReceiveContext
	ch        chan any
	inbox     *ReceiveContext
	startTs   int
	builtTs   int
	fired     bool
	timedOut  bool
	result    any
	closeTs   int
	retTs     int
	done      bool
	arrClosed bool
	resps     []c15wResp
	handled   bool
}

func c15wExec(x *vfkit.X, c c15wCase) {
	shape := c15wCallerShape()
	if shape == c15wCallerUnknown {
		x.Class("inconclusive_caller_side_changed")
		return
	}
	c15Drain(c.CtxDepth, c.ChDepth)
	n := len(c.Asks)
	st := make([]*c15wAskState, n)
	toks := make([]uint64, n)
	for i := range st {
		st[i] = &c15wAskState{}
		toks[i] = c15Token.Add(1)
	}
	var clock vfe3.Clock
	var puts []c15wPut
	vfC15PutHook = func(ch chan any) { puts = append(puts, c15wPut{ch, clock.Tick()}) }
	defer func() { vfC15PutHook = nil }()
	s := vfsched.New()
	s.MaxSteps = 4000
	for i := 0; i < n; i++ {
		i := i
		a, q := c.Asks[i], st[i]
		s.Go(fmt.Sprintf("asker%d", i), func() {
			q.startTs = clock.Tick()
			rc := getContext()
			rc.build(context.Background(), nil, nil, &c15Req{Token: toks[i]}, false)
			q.rc, q.ch = rc, rc.response
			q.builtTs = clock.Tick()
			q.inbox = rc // doReceive: the context is now owned by the target's mailbox
			vfsched.OpEnd()
			ch := q.ch
			vfsched.BlockUntil(func() bool { return len(ch) > 0 || q.fired })
			take := len(ch) > 0
			if take && q.fired && a.PickTimer {
				take = false
			}
			if take {
				q.result = <-ch
			} else {
				q.timedOut = true
			}
			q.closeTs = clock.Tick()
			switch shape {
			case c15wCallerCurrent:
				rc.responseClosed.Store(true)
				putResponseChannel(ch)
			case c15wCallerFixed:
				if take {
					putResponseChannel(ch)
				}
			}
			q.retTs = clock.Tick()
			q.done = true
			vfsched.OpEnd()
		})
		s.Go(fmt.Sprintf("responder%d", i), func() {
			vfsched.BlockUntil(func() bool { return q.inbox != nil })
			rc := q.inbox
			q.arrClosed = c15RawClosed(rc).Load()
			reps := 0
			switch a.Script {
			case c15ScriptNow:
				reps = 1
			case c15ScriptTwice:
				reps = 2
			}
			for k := 1; k <= reps; k++ {
				r := c15wResp{start: clock.Tick()}
				rc.Response(&c15Rep{Token: toks[i], Ord: k})
				r.end = clock.Tick()
				q.resps = append(q.resps, r)
				vfsched.OpEnd()
			}
			q.handled = true
			if c.Recycle {
				recycleContext(rc)
			}
			vfsched.OpEnd()
		})
		if a.Short {
			s.Go(fmt.Sprintf("timer%d", i), func() {
				vfsched.BlockUntil(func() bool { return q.inbox != nil })
				q.fired = true
			})
		}
	}
	out := s.Run(vfe3.Picker(x))
	for _, th := range s.Threads() {
		if th.Panic != nil {
			x.Failf("panic", "thread %s panicked: %v\n%s", th.Name, th.Panic, th.Stack)
		}
	}
	x.Note("steps", s.Steps)
	describe := func(i int) string {
		q := st[i]
		return fmt.Sprintf("ask%d token=%d short=%v script=%s ctx=%p ch=%p start@%d built@%d close@%d ret@%d fired=%v timedOut=%v done=%v closedOnArrival=%v responses=%v result=%v",
			i, toks[i], c.Asks[i].Short, c15ScriptNames[c.Asks[i].Script], q.rc, q.ch, q.startTs, q.builtTs, q.closeTs, q.retTs, q.fired, q.timedOut, q.done, q.arrClosed, q.resps, q.result)
	}
	dump := func() {
		for i := range st {
			x.Logf("%s", describe(i))
		}
		for _, p := range puts {
			x.Logf("put ch=%p @%d", p.ch, p.ts)
		}
	}
	if out == vfsched.StepBudget {
		x.Class("inconclusive_step_budget")
		return
	}
	if s.Preempts > 0 {
		x.Class("preempted")
	}
	anyTimeout, reuse := false, false
	for i, q := range st {
		if q.timedOut {
			anyTimeout = true
			x.Class("timed_out")
		}
		for j, p := range st {
			if j == i || p.rc == nil || q.rc == nil || p.builtTs >= q.builtTs {
				continue
			}
			if p.rc == q.rc {
				x.Class("context_reused")
				if !p.done || p.retTs > q.startTs {
					x.Class("context_reused_while_previous_caller_pending")
				}
			}
			if p.ch == q.ch {
				x.Class("channel_reused")
			}
			if p.timedOut && q.done && !q.timedOut && (p.rc == q.rc || p.ch == q.ch) {
				reuse = true
			}
		}
	}
	if anyTimeout && reuse && s.Preempts > 0 {
		x.NonTrivial()
	}
	for i, q := range st {
		a := c.Asks[i]
		if q.done && !q.timedOut {
			rep, ok := q.result.(*c15Rep)
			if !ok {
				dump()
				x.Failf(c15FpNoReply, "the caller took %v from its reply channel: %s", q.result, describe(i))
			}
			if rep.Token == toks[i] {
				continue
			}
			fp, detail := c15FpForeign, ""
			for j, p := range st {
				if toks[j] != rep.Token {
					continue
				}
				detail = " ;; the reply belongs to " + describe(j)
				if p.timedOut && p.ch == q.ch {
					// was the channel pooled while that Response call was in progress?
					for _, r := range p.resps {
						for _, pt := range puts {
							if pt.ch == p.ch && pt.ts > r.start && pt.ts < r.end {
								fp = c15FpStaleSend
							}
						}
					}
				}
			}
			if fp == c15FpStaleSend && x.Known(fp) {
				x.Class("excluded_known_stale_send")
				continue
			}
			dump()
			x.Failf(fp, "the caller of token %d received the reply to token %d: %s%s", toks[i], rep.Token, describe(i), detail)
		}
		if q.done || q.rc == nil {
			continue
		}
		// the caller is still waiting and nothing can wake it up any more
		if out != vfsched.Deadlock || a.Short || !q.handled {
			continue
		}
		fp, detail := c15FpLost, ""
		for j, p := range st {
			if j != i && p.rc == q.rc && p.builtTs < q.builtTs && (!p.done || p.retTs > q.startTs) {
				fp = c15FpStaleClose
				detail = " ;; the context was still referenced by " + describe(j)
			}
		}
		if fp == c15FpStaleClose && x.Known(fp) {
			x.Class("excluded_known_stale_close")
			continue
		}
		dump()
		x.Failf(fp, "the target replied, the caller has no timeout pending and waits forever: %s%s", describe(i), detail)
	}
	if out == vfsched.Deadlock {
		x.Class("ended_with_blocked_caller")
	}
}

func TestVF_C15_window(t *testing.T) {
	vfkit.Run(t, vfkit.Spec[c15wCase]{
		ID: "C15", Unit: "window",
		Rule: "cases = 2..4 Ask exchanges as logical threads (caller side of Ask, responder calling the real ReceiveContext.Response once/twice/never, mailbox recycling the consumed context, a timer thread per short ask) over the real context and reply-channel pools drained to depth 0..2, under a drawn pre-emption-bounded interleaving of every atomic operation; non-trivial = a timed-out ask and a later successful ask that shared the context or the reply channel object, with >=1 forced pre-emption; distinct = distinct (program, schedule)",
		Gen:  c15wGen, Exec: c15wExec,
	})
}

//go:build verif

package actor

// vfC15PutHook is called at the top of putResponseChannel (prologue injected by the
// build overlay of check C15): the moment a reply channel goes back to the pool.
var vfC15PutHook func(ch chan any)

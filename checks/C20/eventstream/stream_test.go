//go:build verif

package eventstream

import (
	"fmt"
	"sort"
	"strings"
	"testing"

	"pgregory.net/rapid"

	"github.com/tochemey/goakt/v4/internal/vfe3"
	"github.com/tochemey/goakt/v4/internal/vfkit"
	"github.com/tochemey/goakt/v4/internal/vfsched"
)

// C20 (stream level): every event published on a topic is delivered exactly once, in
// publish order per publisher, to each subscriber subscribed when it was published, and
// never to a subscriber that had unsubscribed. Engine E3 on eventstream + internal/queue.

type c20sPub struct {
	Topic int `json:"topic"`
}

type c20sSubOp struct {
	Kind  int `json:"kind"` // 0 drain (Iterator), 1 subscribe, 2 unsubscribe
	Topic int `json:"topic"`
}

type c20sCase struct {
	Publishers  [][]c20sPub   `json:"publishers"`
	Subscribers [][]c20sSubOp `json:"subscribers"` // one logical thread per subscriber
}

func c20sGen(t *rapid.T) c20sCase {
	var c c20sCase
	np := rapid.IntRange(1, 3).Draw(t, "publishers")
	for p := 0; p < np; p++ {
		n := rapid.IntRange(1, 4).Draw(t, "events")
		var evs []c20sPub
		for i := 0; i < n; i++ {
			evs = append(evs, c20sPub{Topic: rapid.IntRange(0, 1).Draw(t, "topic")})
		}
		c.Publishers = append(c.Publishers, evs)
	}
	ns := rapid.IntRange(1, 2).Draw(t, "subscribers")
	for s := 0; s < ns; s++ {
		n := rapid.IntRange(1, 7).Draw(t, "subOps")
		ops := []c20sSubOp{{Kind: 1, Topic: rapid.IntRange(0, 1).Draw(t, "firstTopic")}}
		for i := 0; i < n; i++ {
			ops = append(ops, c20sSubOp{Kind: rapid.SampledFrom([]int{0, 0, 0, 1, 2}).Draw(t, "kind"), Topic: rapid.IntRange(0, 1).Draw(t, "topic")})
		}
		c.Subscribers = append(c.Subscribers, ops)
	}
	return c
}

type c20sEvent struct {
	Pub, Seq, Topic int
}

type c20sInterval struct{ inv, ret int }

type c20sAct struct {
	kind, topic int
	iv          c20sInterval
}

func c20sExec(x *vfkit.X, c c20sCase) {
	stream := New()
	defer stream.Close()
	clock := &vfe3.Clock{}
	topics := []string{"t0", "t1"}
	pubIv := map[c20sEvent]c20sInterval{}
	subs := make([]Subscriber, len(c.Subscribers))
	acts := make([][]c20sAct, len(c.Subscribers))
	recv := make([][]c20sEvent, len(c.Subscribers))
	recvAt := make([][]int, len(c.Subscribers))
	var garbage []string
	for i := range subs {
		subs[i] = stream.AddSubscriber()
	}
	s := vfsched.New()
	s.MaxSteps = 12000
	for pi, evs := range c.Publishers {
		pi, evs := pi, evs
		s.Go(fmt.Sprintf("pub%d", pi), func() {
			for seq, e := range evs {
				ev := c20sEvent{Pub: pi, Seq: seq, Topic: e.Topic}
				inv := clock.Tick()
				stream.Publish(topics[e.Topic], ev)
				pubIv[ev] = c20sInterval{inv, clock.Tick()}
				vfsched.OpEnd()
			}
		})
	}
	drain := func(si int) {
		for m := range subs[si].Iterator() {
			at := clock.Tick()
			ev, ok := m.Payload().(c20sEvent)
			if !ok {
				garbage = append(garbage, fmt.Sprintf("subscriber %d received payload %T", si, m.Payload()))
				continue
			}
			if m.Topic() != topics[ev.Topic] {
				garbage = append(garbage, fmt.Sprintf("subscriber %d: event %+v arrived with topic %q", si, ev, m.Topic()))
			}
			recv[si] = append(recv[si], ev)
			recvAt[si] = append(recvAt[si], at)
		}
	}
	for si, ops := range c.Subscribers {
		si, ops := si, ops
		s.Go(fmt.Sprintf("sub%d", si), func() {
			for _, op := range ops {
				inv := clock.Tick()
				switch op.Kind {
				case 0:
					drain(si)
				case 1:
					stream.Subscribe(subs[si], topics[op.Topic])
				case 2:
					stream.Unsubscribe(subs[si], topics[op.Topic])
				}
				acts[si] = append(acts[si], c20sAct{kind: op.Kind, topic: op.Topic, iv: c20sInterval{inv, clock.Tick()}})
				vfsched.OpEnd()
			}
		})
	}
	out := s.Run(vfe3.Picker(x))
	for _, th := range s.Threads() {
		if th.Panic != nil {
			x.Failf("stream:panic", "thread %s panicked: %v\n%s", th.Name, th.Panic, th.Stack)
		}
	}
	if out == vfsched.StepBudget {
		x.Class("inconclusive_step_budget")
		return
	}
	if out == vfsched.Deadlock {
		x.Failf("stream:deadlock", "no runnable thread: %s", s.Describe())
	}
	for si := range subs {
		drain(si)
		drain(si)
	}
	if s.Preempts > 0 {
		x.Class("preempted")
	}
	if len(garbage) > 0 {
		x.Failf("stream:garbage-delivered", "%s", strings.Join(garbage, "; "))
	}
	describe := func(si int) string {
		var b strings.Builder
		fmt.Fprintf(&b, "subscriber %d actions:", si)
		for _, a := range acts[si] {
			fmt.Fprintf(&b, " [%d..%d %s t%d]", a.iv.inv, a.iv.ret, []string{"drain", "subscribe", "unsubscribe"}[a.kind], a.topic)
		}
		b.WriteString(" | publishes:")
		keys := make([]c20sEvent, 0, len(pubIv))
		for k := range pubIv {
			keys = append(keys, k)
		}
		sort.Slice(keys, func(i, j int) bool { return pubIv[keys[i]].inv < pubIv[keys[j]].inv })
		for _, k := range keys {
			fmt.Fprintf(&b, " [%d..%d p%d#%d t%d]", pubIv[k].inv, pubIv[k].ret, k.Pub, k.Seq, k.Topic)
		}
		fmt.Fprintf(&b, " | received: %v", recv[si])
		return b.String()
	}
	concurrent := false
	for si := range subs {
		// membership of subscriber si in a topic over time: must = definitely subscribed for the
		// whole publish interval; may = possibly subscribed at some point of it.
		for ev, iv := range pubIv {
			must, may := c20sMember(acts[si], ev.Topic, iv)
			n := 0
			for _, r := range recv[si] {
				if r == ev {
					n++
				}
			}
			if must != may {
				concurrent = true
			}
			switch {
			case n > 1:
				x.Failf("stream:event-delivered-twice", "event %+v delivered %d times to one subscriber; %s", ev, n, describe(si))
			case n == 0 && must:
				x.Failf("stream:event-lost", "event %+v was published while the subscriber was subscribed and was never delivered; %s", ev, describe(si))
			case n == 1 && !may:
				x.Failf("stream:event-delivered-to-unsubscribed", "event %+v was delivered although the subscriber was not subscribed to its topic during the publish; %s", ev, describe(si))
			}
		}
		// publish order per publisher
		last := map[int]int{}
		for _, r := range recv[si] {
			if prev, ok := last[r.Pub]; ok && r.Seq < prev {
				x.Failf("stream:publisher-order-violated", "events of publisher %d arrived out of order; %s", r.Pub, describe(si))
			}
			last[r.Pub] = r.Seq
		}
	}
	if concurrent {
		x.Class("publish_concurrent_with_(un)subscribe")
	}
	if s.Preempts > 0 && len(c.Publishers) >= 2 {
		x.NonTrivial()
	}
}

// c20sMember derives, from the completed subscribe/unsubscribe actions of one subscriber
// (sequential, in program order), whether it was certainly (must) / possibly (may)
// subscribed to the topic during the publish interval: the possible membership states are
// the state left by the actions that completed before the publish started plus the state
// after every action that overlaps the publish.
func c20sMember(acts []c20sAct, topic int, pub c20sInterval) (must, may bool) {
	state := false
	must, may = false, false
	first := true
	note := func(st bool) {
		if first {
			must, may, first = st, st, false
			return
		}
		must = must && st
		may = may || st
	}
	overlapping := false
	for _, a := range acts {
		if a.kind == 0 || a.topic != topic {
			continue
		}
		switch {
		case a.iv.ret < pub.inv:
			state = a.kind == 1
		case a.iv.inv > pub.ret:
			// after the publish: irrelevant
		default:
			if !overlapping {
				note(state)
				overlapping = true
			}
			state = a.kind == 1
			note(state)
		}
	}
	if !overlapping {
		note(state)
	}
	return must, may
}

func TestVF_C20_stream(t *testing.T) {
	vfkit.Run(t, vfkit.Spec[c20sCase]{
		ID: "C20", Unit: "stream",
		Rule: "cases = 1-3 publisher threads x 1-4 events on 2 topics, 1-2 subscribers each with its own thread running a subscribe/unsubscribe/drain(Iterator) script, under a drawn pre-emption-bounded interleaving of every atomic/lock operation of eventstream and internal/queue; non-trivial = >=2 publishers and >=1 forced pre-emption; distinct = distinct (program, schedule)",
		Gen:  c20sGen, Exec: c20sExec,
	})
}

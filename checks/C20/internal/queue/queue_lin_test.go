//go:build verif

package queue

import (
	"fmt"
	"strings"
	"testing"

	"pgregory.net/rapid"

	"github.com/tochemey/goakt/v4/internal/vfe3"
	"github.com/tochemey/goakt/v4/internal/vfkit"
	"github.com/tochemey/goakt/v4/internal/vfsched"
)

// C20 (component level): the lock-free queue behind every event-stream subscriber
// never loses, duplicates or reorders events under concurrent producers and one
// consumer. Engine E3: queue.go is import-swapped, the node pool is a
// deterministic LIFO free list so immediate node reuse (ABA) is reachable.

type c20qCase struct {
	Producers []int `json:"producers"` // number of Enqueue calls per producer thread
	Consumer  []int `json:"consumer"`  // 0 Dequeue, 1 IsEmpty
	Prefill   int   `json:"prefill"`   // values enqueued and dequeued sequentially before the run (warms the node pool)
}

func c20qGen(t *rapid.T) c20qCase {
	c := c20qCase{Prefill: rapid.IntRange(0, 3).Draw(t, "prefill")}
	np := rapid.IntRange(2, 3).Draw(t, "producers")
	for i := 0; i < np; i++ {
		c.Producers = append(c.Producers, rapid.IntRange(1, 3).Draw(t, "enqs"))
	}
	n := rapid.IntRange(1, 8).Draw(t, "consumerOps")
	for i := 0; i < n; i++ {
		c.Consumer = append(c.Consumer, rapid.SampledFrom([]int{0, 0, 0, 0, 1}).Draw(t, "cop"))
	}
	return c
}

const (
	c20qEnq = iota
	c20qDeq
	c20qEmpty
)

func c20qExec(x *vfkit.X, c c20qCase) {
	q := NewQueue()
	for i := 0; i < c.Prefill; i++ {
		q.Enqueue(-1000 - i)
	}
	for i := 0; i < c.Prefill; i++ {
		if v := q.Dequeue(); v == nil {
			x.Failf("queue:sequential-prefill-lost", "sequential prefill value lost")
		}
	}
	clock := &vfe3.Clock{}
	var hist []vfe3.Op
	var garbage []string
	nextID := 0
	s := vfsched.New()
	s.MaxSteps = 8000
	for pi, n := range c.Producers {
		pi, n := pi, n
		s.Go(fmt.Sprintf("prod%d", pi), func() {
			for i := 0; i < n; i++ {
				id := nextID
				nextID++
				inv := clock.Tick()
				q.Enqueue(id)
				ret := clock.Tick()
				hist = append(hist, vfe3.Op{Inv: inv, Ret: ret, Thread: pi, Name: "enq", Arg: [3]int{c20qEnq, pi}, Res: [2]int{id}})
				vfsched.OpEnd()
			}
		})
	}
	deq := func(thread int) int {
		inv := clock.Tick()
		v := q.Dequeue()
		ret := clock.Tick()
		id := -1
		if v != nil {
			n, ok := v.(int)
			if !ok {
				garbage = append(garbage, fmt.Sprintf("Dequeue returned %T", v))
				id = -2
			} else {
				id = n
			}
		}
		hist = append(hist, vfe3.Op{Inv: inv, Ret: ret, Thread: thread, Name: "deq", Arg: [3]int{c20qDeq}, Res: [2]int{id}})
		return id
	}
	s.Go("consumer", func() {
		for _, k := range c.Consumer {
			if k == 0 {
				deq(100)
			} else {
				inv := clock.Tick()
				e := q.IsEmpty()
				ret := clock.Tick()
				r := 0
				if e {
					r = 1
				}
				hist = append(hist, vfe3.Op{Inv: inv, Ret: ret, Thread: 100, Name: "isEmpty", Arg: [3]int{c20qEmpty}, Res: [2]int{r}})
			}
			vfsched.OpEnd()
		}
	})
	out := s.Run(vfe3.Picker(x))
	for _, th := range s.Threads() {
		if th.Panic != nil {
			x.Failf("queue:panic", "thread %s panicked: %v\n%s", th.Name, th.Panic, th.Stack)
		}
	}
	if out == vfsched.StepBudget {
		x.Class("inconclusive_step_budget")
		return
	}
	if out == vfsched.Deadlock {
		x.Failf("queue:deadlock", "no runnable thread: %s", s.Describe())
	}
	nils := 0
	for i := 0; i < 40 && nils < 2; i++ {
		if deq(200) == -1 {
			nils++
		} else {
			nils = 0
		}
	}
	overlap := false
	for i := range hist {
		for j := range hist {
			if hist[i].Thread != hist[j].Thread && hist[i].Thread < 200 && hist[j].Thread < 200 && hist[i].Inv < hist[j].Ret && hist[j].Inv < hist[i].Ret {
				overlap = true
			}
		}
	}
	if overlap {
		x.Class("overlapping_ops")
	}
	if s.Preempts > 0 {
		x.Class("preempted")
	}
	if c.Prefill > 0 {
		x.Class("pool_warm")
	}
	if overlap && s.Preempts > 0 {
		x.NonTrivial()
	}
	if len(garbage) > 0 {
		x.Failf("queue:garbage-dequeued", "%s; history: %s", strings.Join(garbage, "; "), vfe3.FormatOps(hist))
	}
	seen := map[int]int{}
	for _, op := range hist {
		if op.Arg[0] == c20qDeq && op.Res[0] >= 0 {
			seen[op.Res[0]]++
		}
	}
	for id := 0; id < nextID; id++ {
		if seen[id] == 0 {
			x.Failf("queue:enqueued-value-never-dequeued", "value %d was enqueued but never dequeued (also not by the final sequential drain); history: %s", id, vfe3.FormatOps(hist))
		}
		if seen[id] > 1 {
			x.Failf("queue:value-dequeued-twice", "value %d dequeued %d times; history: %s", id, seen[id], vfe3.FormatOps(hist))
		}
	}
	for id := range seen {
		if id >= nextID {
			x.Failf("queue:foreign-value-dequeued", "value %d was never enqueued in this case; history: %s", id, vfe3.FormatOps(hist))
		}
	}
	// linearizability against a FIFO queue. IsEmpty()==false is tolerated while any other
	// operation overlaps (the counter lags the links by design; the property is about lost
	// events, and reporting non-empty early loses nothing).
	overl := map[int]bool{}
	for _, o := range hist {
		for _, e := range hist {
			if e.Inv != o.Inv && e.Inv < o.Ret && o.Inv < e.Ret {
				overl[o.Inv] = true
			}
		}
	}
	step := func(st []int, op vfe3.Op) ([]int, bool) {
		switch op.Arg[0] {
		case c20qEnq:
			return append(append([]int(nil), st...), op.Res[0]), true
		case c20qDeq:
			if op.Res[0] < 0 {
				return st, len(st) == 0
			}
			if len(st) == 0 || st[0] != op.Res[0] {
				return st, false
			}
			return append([]int(nil), st[1:]...), true
		default:
			// IsEmpty/Length are counter snapshots that lag the links in both directions; the
			// property (no event lost, duplicated or reordered) does not speak about them, so
			// they are exercised for interference only and never judged.
			return st, true
		}
	}
	key := func(st []int) string { return fmt.Sprint(st) }
	if len(hist) <= 40 && !vfe3.Linearizable(hist, []int(nil), step, key) {
		x.Failf("queue:not-linearizable", "history has no FIFO linearization: %s", vfe3.FormatOps(hist))
	}
}

func TestVF_C20_queue(t *testing.T) {
	vfkit.Run(t, vfkit.Spec[c20qCase]{
		ID: "C20", Unit: "queue",
		Rule: "cases = 2-3 producer threads x 1-3 Enqueue + one consumer thread with a Dequeue/IsEmpty script on internal/queue.Queue (node pool = deterministic LIFO, optionally pre-warmed), under a drawn pre-emption-bounded interleaving of every atomic operation; non-trivial = operations of different threads overlap and >=1 forced pre-emption; distinct = distinct (program, schedule)",
		Gen:  c20qGen, Exec: c20qExec,
	})
}

//go:build verif

package actor

import (
	"context"
	"fmt"
	"hash/fnv"
	"math"
	"sort"
	"strconv"
	"sync"
	"sync/atomic"
	"testing"
	"time"

	"pgregory.net/rapid"

	"github.com/tochemey/goakt/v4/hash"
	"github.com/tochemey/goakt/v4/internal/vfkit"
	"github.com/tochemey/goakt/v4/log"
)

// ---- C21: routers distribute messages according to their strategy ------------------
//
// Oracles come from the property statement and the doc comments of RoutingStrategy:
//   RoundRobinRouting  "sends each incoming message to the next routee in order, cycling
//                       back to the first after the last"
//   FanOutRouting      "broadcasts every message to all currently available routees"
//   ConsistentHashRouting "routes messages with the same key to the same routee. Adding
//                       or removing routees only remaps keys that were assigned to the
//                       changed node; all other mappings are stable"
// Which routee is "first" is not specified anywhere, so any cyclic order is accepted
// as long as it is the same for the whole run.

// ---- shared: recording routee, barriers ----------------------------------------------

type c21Recorder struct {
	mu     sync.Mutex
	byMsg  map[int][]string // message seq -> routee names that received it (in arrival order)
	total  int
	expect int
	done   chan struct{}
	closed bool
}

func c21NewRecorder(expect int) *c21Recorder {
	return &c21Recorder{byMsg: map[int][]string{}, expect: expect, done: make(chan struct{})}
}

func (r *c21Recorder) record(routee string, seq int) {
	r.mu.Lock()
	r.byMsg[seq] = append(r.byMsg[seq], routee)
	r.total++
	if r.expect > 0 && r.total >= r.expect && !r.closed {
		r.closed = true
		close(r.done)
	}
	r.mu.Unlock()
}

func (r *c21Recorder) snapshot() map[int][]string {
	r.mu.Lock()
	defer r.mu.Unlock()
	out := make(map[int][]string, len(r.byMsg))
	for k, v := range r.byMsg {
		out[k] = append([]string(nil), v...)
	}
	return out
}

type c21Msg struct {
	Seq int
	Key string
	Rec *c21Recorder
}

type c21Barrier struct{}
type c21BarrierAck struct{}

// c21Routee is the routee kind: the router creates instances with reflect.New,
// so all state travels in the message.
type c21Routee struct{}

func (*c21Routee) PreStart(*Context) error { return nil }
func (*c21Routee) PostStop(*Context) error { return nil }
func (*c21Routee) Receive(ctx *ReceiveContext) {
	switch m := ctx.Message().(type) {
	case *c21Msg:
		m.Rec.record(ctx.Self().Name(), m.Seq)
	case *c21Barrier:
		ctx.Response(&c21BarrierAck{})
	}
}

const c21AskTimeout = 60 * time.Second

type c21Env struct {
	x      *vfkit.X
	ctx    context.Context
	sys    ActorSystem
	impl   *actorSystem
	router *PID
	r      *router
}

// c21Start starts a local actor system and spawns a router exactly as user code does.
func c21Start(x *vfkit.X, pool int, opts ...RouterOption) *c21Env {
	ctx := context.Background()
	sys, err := NewActorSystem("vfC21", WithLogger(log.DiscardLogger))
	if err != nil {
		panic(err)
	}
	if err := sys.Start(ctx); err != nil {
		panic(err)
	}
	e := &c21Env{x: x, ctx: ctx, sys: sys, impl: sys.(*actorSystem)}
	pid, err := sys.SpawnRouter(ctx, "pool", pool, &c21Routee{}, opts...)
	if err != nil {
		e.stop()
		panic(fmt.Sprintf("SpawnRouter: %v", err))
	}
	e.router = pid
	e.r = pid.Actor().(*router)
	return e
}

func (e *c21Env) stop() {
	sctx, cancel := context.WithTimeout(context.Background(), 60*time.Second)
	defer cancel()
	_ = e.sys.Stop(sctx)
}

// routees is a barrier on the router (everything told to it earlier from this
// goroutine has been handled when the reply arrives) and returns the membership.
// ok=false means the barrier was inconclusive (timeout), never a verdict.
func (e *c21Env) routees(fpDead string) (names []string, ok bool) {
	reply, err := Ask(e.ctx, e.router, &GetRoutees{}, c21AskTimeout)
	if err != nil {
		if !e.router.IsRunning() {
			e.x.Failf(fpDead, "the router is no longer running after routing (%v)", err)
		}
		e.x.Class("inconclusive_router_barrier")
		return nil, false
	}
	rs, isRoutees := reply.(*Routees)
	if !isRoutees {
		e.x.Class("inconclusive_router_barrier")
		return nil, false
	}
	names = append([]string(nil), rs.Names()...)
	sort.Strings(names)
	return names, true
}

// flush is a barrier on every named routee: mailboxes are FIFO and the router's
// Tell to a routee completed before this Ask was enqueued.
func (e *c21Env) flush(names []string) bool {
	for _, n := range names {
		pid, found := e.impl.findRoutee(n)
		if !found {
			e.x.Class("inconclusive_routee_gone")
			return false
		}
		if _, err := Ask(e.ctx, pid, &c21Barrier{}, c21AskTimeout); err != nil {
			e.x.Class("inconclusive_routee_barrier")
			return false
		}
	}
	return true
}

// ---- round robin ------------------------------------------------------------------------

type c21RRCase struct {
	Pool     int   `json:"pool"`     // n routees
	Messages int   `json:"messages"` // k routed messages
	Preset   int   `json:"preset"`   // 0: counter untouched, 1: counter = Counter, 2: counter = MaxUint32 - Back (crosses the wrap when Back < k)
	Counter  int64 `json:"counter"`
	Back     int   `json:"back"`
}

func c21GenRR(t *rapid.T) c21RRCase {
	var c c21RRCase
	c.Pool = rapid.SampledFrom([]int{1, 2, 2, 3, 3, 4, 5, 6, 7, 8}).Draw(t, "pool")
	c.Messages = rapid.OneOf(rapid.IntRange(1, 24), rapid.IntRange(1, 200)).Draw(t, "messages")
	c.Preset = rapid.SampledFrom([]int{0, 0, 1, 2, 2, 2}).Draw(t, "preset")
	switch c.Preset {
	case 1:
		c.Counter = rapid.OneOf(rapid.Int64Range(0, 16), rapid.Int64Range(0, math.MaxUint32), rapid.SampledFrom([]int64{math.MaxInt32 - 1, math.MaxInt32, math.MaxInt32 + 1})).Draw(t, "counter")
	case 2:
		c.Back = rapid.IntRange(0, c.Messages+2).Draw(t, "back")
	}
	return c
}

func c21ExecRR(x *vfkit.X, c c21RRCase) {
	n, k := c.Pool, c.Messages
	start := uint32(0)
	switch c.Preset {
	case 1:
		start = uint32(c.Counter)
	case 2:
		start = math.MaxUint32 - uint32(c.Back)
	}
	// the counter is incremented before use: message j (0-based) sees value start+j+1
	wrapAt := -1 // index of the message that sees the counter wrap to 0
	if d := uint64(math.MaxUint32) - uint64(start); d < uint64(k) {
		wrapAt = int(d)
	}
	if wrapAt >= 0 && x.Known("rr-counter-wrap-index-negative") {
		// known finding: stay below the wrap so the search continues behind it
		start = math.MaxUint32 - uint32(k) - 1
		wrapAt = -1
		x.Class("wrap_avoided_known_finding")
	}
	e := c21Start(x, n, WithRoutingStrategy(RoundRobinRouting))
	defer e.stop()
	names, ok := e.routees("rr-router-died")
	if !ok {
		return
	}
	if len(names) != n {
		x.Failf("router-pool-size-wrong", "router spawned with pool %d reports %d routees", n, len(names))
	}
	if c.Preset != 0 {
		atomic.StoreUint32(&e.r.roundRobinNext, start)
	}
	rec := c21NewRecorder(0)
	for j := 0; j < k; j++ {
		if err := Tell(e.ctx, e.router, NewBroadcast(&c21Msg{Seq: j, Rec: rec})); err != nil {
			x.Failf("rr-router-died", "Tell to the router failed at message %d: %v", j, err)
		}
	}
	if _, ok := e.routees("rr-router-died"); !ok {
		return
	}
	if !e.flush(names) {
		return
	}
	got := rec.snapshot()

	x.Class("pool_" + strconv.Itoa(n))
	if wrapAt >= 0 {
		x.Class("crosses_wrap")
	}
	if n >= 2 && (k >= 2*n || wrapAt >= 0) {
		x.NonTrivial()
	}

	member := map[string]bool{}
	for _, nm := range names {
		member[nm] = true
	}
	seq := make([]string, k)
	for j := 0; j < k; j++ {
		d := got[j]
		if len(d) == 0 {
			if j == wrapAt {
				x.Failf("rr-counter-wrap-index-negative", "pool=%d: the message that makes the round-robin counter wrap to 0 (message %d of %d, counter preset %d) was dropped; the router handled every broadcast and every routee mailbox is flushed", n, j+1, k, start)
			}
			x.Failf("rr-message-lost", "pool=%d: message %d of %d reached no routee (counter preset %d)", n, j+1, k, start)
		}
		if len(d) > 1 {
			x.Failf("rr-message-duplicated", "pool=%d: message %d of %d was delivered to %v", n, j+1, k, d)
		}
		if !member[d[0]] {
			x.Failf("rr-foreign-routee", "message %d delivered to %q which is not a routee of the router", j+1, d[0])
		}
		seq[j] = d[0]
	}
	if x.Known("rr-routee-order-not-cyclic") {
		// known finding: the per-message routee order is not fixed; only
		// conservation (checked above) can be demanded behind it.
		x.Class("order_unchecked_known_finding")
		return
	}
	// any fixed cyclic order: the first n messages hit n distinct routees and
	// message j goes where message j-n went.
	if c21Cyclic(seq, n) {
		return
	}
	fp := "rr-routee-order-not-cyclic"
	if wrapAt >= 0 {
		// cyclic on both sides of the wrap (split before or after the message that
		// sees the counter at 0) means the wrap itself restarts the cycle
		if (c21Cyclic(seq[:wrapAt], n) && c21Cyclic(seq[wrapAt:], n)) || (c21Cyclic(seq[:wrapAt+1], n) && c21Cyclic(seq[wrapAt+1:], n)) {
			fp = "rr-counter-wrap-breaks-cycle"
		}
	}
	for j := 0; j < k; j++ {
		if j >= n {
			if seq[j] != seq[j-n] {
				x.Failf(fp, "pool=%d (counter preset %d, wraps at message %d): message %d went to %s but message %d went to %s; routee sequence %v", n, start, wrapAt+1, j+1, seq[j], j+1-n, seq[j-n], c21Short(seq))
			}
			continue
		}
		for i := 0; i < j; i++ {
			if seq[i] == seq[j] {
				x.Failf(fp, "pool=%d (counter preset %d, wraps at message %d): messages %d and %d (both within the first round) went to the same routee %s; routee sequence %v", n, start, wrapAt+1, i+1, j+1, seq[j], c21Short(seq))
			}
		}
	}
}

func c21Cyclic(seq []string, n int) bool {
	for j := range seq {
		if j >= n {
			if seq[j] != seq[j-n] {
				return false
			}
			continue
		}
		for i := 0; i < j; i++ {
			if seq[i] == seq[j] {
				return false
			}
		}
	}
	return true
}

func c21Short(seq []string) []string {
	out := make([]string, 0, len(seq))
	for i, s := range seq {
		if i >= 24 {
			out = append(out, "...")
			break
		}
		// keep only the routee index
		for p := len(s) - 1; p >= 0; p-- {
			if s[p] < '0' || s[p] > '9' {
				s = s[p+1:]
				break
			}
		}
		out = append(out, s)
	}
	return out
}

func TestVF_C21_roundrobin(t *testing.T) {
	vfkit.Run(t, vfkit.Spec[c21RRCase]{
		ID: "C21", Unit: "roundrobin",
		Rule: "cases = pool size 1..8, 1..200 broadcasts told to a real round-robin router of a started local actor system, round-robin counter untouched / preset to any uint32 / preset just below the uint32 wrap so the run crosses it; delivery is read after a router barrier (Ask GetRoutees) and a barrier on every routee, so no wall-clock wait decides; non-trivial = pool >= 2 and (messages >= 2*pool or the counter wraps inside the run); distinct = distinct case",
		Gen:  c21GenRR, Exec: c21ExecRR, ReplayReps: 5,
	})
}

// ---- fan-out ---------------------------------------------------------------------------

type c21FanCase struct {
	Pool     int `json:"pool"`
	Messages int `json:"messages"`
}

func c21GenFan(t *rapid.T) c21FanCase {
	return c21FanCase{
		Pool:     rapid.SampledFrom([]int{1, 2, 3, 3, 4, 5, 6, 8}).Draw(t, "pool"),
		Messages: rapid.OneOf(rapid.IntRange(1, 10), rapid.IntRange(1, 120)).Draw(t, "messages"),
	}
}

// c21FanWait is the margin after which a fan-out delivery that has not arrived is
// called missing. Fan-out sends from detached goroutines, so no mailbox barrier
// covers it; the sends are runnable goroutines doing a non-blocking enqueue, and
// the margin is four to five orders of magnitude above their latency.
const c21FanWait = 20 * time.Second

func c21ExecFan(x *vfkit.X, c c21FanCase) {
	n, k := c.Pool, c.Messages
	opts := []RouterOption{WithRoutingStrategy(FanOutRouting)}
	e := c21Start(x, n, opts...)
	defer e.stop()
	names, ok := e.routees("fanout-router-died")
	if !ok {
		return
	}
	if len(names) != n {
		x.Failf("router-pool-size-wrong", "router spawned with pool %d reports %d routees", n, len(names))
	}
	rec := c21NewRecorder(n * k)
	for j := 0; j < k; j++ {
		if err := Tell(e.ctx, e.router, NewBroadcast(&c21Msg{Seq: j, Rec: rec})); err != nil {
			x.Failf("fanout-router-died", "Tell to the router failed at message %d: %v", j, err)
		}
	}
	if _, ok := e.routees("fanout-router-died"); !ok {
		return
	}
	timer := time.NewTimer(c21FanWait)
	complete := false
	select {
	case <-rec.done:
		complete = true
	case <-timer.C:
	}
	timer.Stop()
	if !e.flush(names) {
		return
	}
	got := rec.snapshot()
	x.Class("pool_" + strconv.Itoa(n))
	if n >= 2 && k >= 2 {
		x.NonTrivial()
	}
	for j := 0; j < k; j++ {
		per := map[string]int{}
		for _, r := range got[j] {
			per[r]++
		}
		for _, nm := range names {
			if per[nm] > 1 {
				x.Failf("fanout-duplicate-delivery", "pool=%d: message %d of %d reached routee %s %d times", n, j+1, k, nm, per[nm])
			}
		}
		for r := range per {
			found := false
			for _, nm := range names {
				if nm == r {
					found = true
				}
			}
			if !found {
				x.Failf("fanout-foreign-routee", "message %d delivered to %q which is not a routee", j+1, r)
			}
		}
	}
	for j := 0; j < k; j++ {
		per := map[string]int{}
		for _, r := range got[j] {
			per[r]++
		}
		for _, nm := range names {
			if per[nm] == 0 {
				x.Failf("fanout-missing-delivery", "pool=%d: message %d of %d never reached routee %s (waited %v after the router had handled every broadcast; complete=%v)", n, j+1, k, nm, c21FanWait, complete)
			}
		}
	}
}

func TestVF_C21_fanout(t *testing.T) {
	vfkit.Run(t, vfkit.Spec[c21FanCase]{
		ID: "C21", Unit: "fanout",
		Rule: "cases = pool size 1..8 and 1..120 broadcasts told to a real fan-out router; every (message, routee) pair must be delivered exactly once; duplicates are decided after mailbox barriers, a missing delivery only after a 20 s margin; non-trivial = pool >= 2 and messages >= 2; distinct = distinct (pool, messages)",
		Gen:  c21GenFan, Exec: c21ExecFan, ReplayReps: 3,
	})
}

// ---- consistent hash through the router ----------------------------------------------------

type c21HashCase struct {
	Pool   int      `json:"pool"`
	VNodes int      `json:"vnodes"` // 0 = default
	Hasher int      `json:"hasher"` // 0 default (xxh3), 1 fnv-1a 64
	Keys   []string `json:"keys"`
	Order  []int    `json:"order"` // phase-1 message order: indices into Keys (each key at least once)
	Delta  int      `json:"delta"` // pool adjustment between the phases (0 none, <0 scale down, >0 scale up)
}

type c21FNV struct{}

func (c21FNV) HashCode(key []byte) uint64 {
	h := fnv.New64a()
	_, _ = h.Write(key)
	return h.Sum64()
}

var _ hash.Hasher = c21FNV{}

func c21GenKeys(t *rapid.T, lo, hi int) []string {
	n := rapid.OneOf(rapid.IntRange(lo, hi), rapid.IntRange(min(10, hi), hi)).Draw(t, "nkeys")
	seen := map[string]bool{}
	var keys []string
	for len(keys) < n {
		var k string
		switch rapid.IntRange(0, 2).Draw(t, "key_kind") {
		case 0:
			k = "order-" + strconv.Itoa(rapid.IntRange(0, 100000).Draw(t, "key_num"))
		case 1:
			k = rapid.StringMatching(`[a-zA-Z0-9_\-]{1,12}`).Draw(t, "key_str")
		default:
			k = rapid.StringN(1, 8, 24).Draw(t, "key_any")
		}
		if k == "" || seen[k] {
			k = k + "#" + strconv.Itoa(len(keys))
		}
		if seen[k] {
			continue
		}
		seen[k] = true
		keys = append(keys, k)
	}
	return keys
}

func c21GenHash(t *rapid.T) c21HashCase {
	var c c21HashCase
	c.Pool = rapid.SampledFrom([]int{1, 2, 3, 3, 4, 5, 6, 8}).Draw(t, "pool")
	c.VNodes = rapid.SampledFrom([]int{0, 0, 1, 2, 16, 150}).Draw(t, "vnodes")
	c.Hasher = rapid.SampledFrom([]int{0, 0, 1}).Draw(t, "hasher")
	c.Keys = c21GenKeys(t, 1, 50)
	for i := range c.Keys {
		c.Order = append(c.Order, i)
	}
	extra := rapid.IntRange(0, len(c.Keys)*2).Draw(t, "extra")
	for i := 0; i < extra; i++ {
		c.Order = append(c.Order, rapid.IntRange(0, len(c.Keys)-1).Draw(t, "dup_key"))
	}
	// a drawn permutation of the message order
	for i := len(c.Order) - 1; i > 0; i-- {
		j := rapid.IntRange(0, i).Draw(t, "swap")
		c.Order[i], c.Order[j] = c.Order[j], c.Order[i]
	}
	switch rapid.IntRange(0, 5).Draw(t, "delta_kind") {
	case 0:
		c.Delta = 0
	case 1, 2:
		c.Delta = rapid.IntRange(1, 3).Draw(t, "up")
	default:
		if c.Pool > 1 {
			c.Delta = -rapid.IntRange(1, c.Pool-1).Draw(t, "down")
		}
	}
	return c
}

func c21ExecHash(x *vfkit.X, c c21HashCase) {
	opts := []RouterOption{WithConsistentHashRouter(func(msg any) string {
		if m, ok := msg.(*c21Msg); ok {
			return m.Key
		}
		return ""
	})}
	if c.VNodes != 0 {
		opts = append(opts, WithConsistentHashVirtualNodes(c.VNodes))
	}
	if c.Hasher == 1 {
		opts = append(opts, WithConsistentHashHasher(c21FNV{}))
	}
	e := c21Start(x, c.Pool, opts...)
	defer e.stop()
	names, ok := e.routees("hash-router-died")
	if !ok {
		return
	}
	if len(names) != c.Pool {
		x.Failf("router-pool-size-wrong", "router spawned with pool %d reports %d routees", c.Pool, len(names))
	}
	x.Class("pool_" + strconv.Itoa(c.Pool))
	x.Class("vnodes_" + strconv.Itoa(c.VNodes))

	phase := func(label string, names []string, order []int) (owner map[string]string, ok bool) {
		rec := c21NewRecorder(0)
		for j, ki := range order {
			if err := Tell(e.ctx, e.router, NewBroadcast(&c21Msg{Seq: j, Key: c.Keys[ki], Rec: rec})); err != nil {
				x.Failf("hash-router-died", "%s: Tell to the router failed at message %d: %v", label, j, err)
			}
		}
		if _, ok := e.routees("hash-router-died"); !ok {
			return nil, false
		}
		if !e.flush(names) {
			return nil, false
		}
		got := rec.snapshot()
		owner = map[string]string{}
		member := map[string]bool{}
		for _, nm := range names {
			member[nm] = true
		}
		for j, ki := range order {
			d := got[j]
			key := c.Keys[ki]
			if len(d) == 0 {
				x.Failf("hash-message-lost", "%s: message %d (key %q) reached no routee", label, j+1, key)
			}
			if len(d) > 1 {
				x.Failf("hash-message-duplicated", "%s: message %d (key %q) was delivered to %v", label, j+1, key, d)
			}
			if !member[d[0]] {
				x.Failf("hash-foreign-routee", "%s: message %d (key %q) delivered to %q which is not a current routee %v", label, j+1, key, d[0], names)
			}
			if prev, seen := owner[key]; seen && prev != d[0] {
				x.Failf("hash-equal-keys-different-routees", "%s (pool=%d vnodes=%d hasher=%d): key %q went to %s and to %s while membership was unchanged", label, len(names), c.VNodes, c.Hasher, key, prev, d[0])
			}
			owner[key] = d[0]
		}
		return owner, true
	}

	before, ok := phase("phase 1", names, c.Order)
	if !ok {
		return
	}
	if c.Delta == 0 {
		if len(c.Keys) >= 10 && c.Pool >= 2 {
			x.Class("no_membership_change")
		}
		// a second pass over the same keys must agree with the first
		again, ok := phase("phase 1b", names, c.Order)
		if !ok {
			return
		}
		for k, o := range before {
			if again[k] != o {
				x.Failf("hash-equal-keys-different-routees", "key %q went to %s, later to %s, membership unchanged (pool=%d)", k, o, again[k], c.Pool)
			}
		}
		return
	}
	if err := Tell(e.ctx, e.router, NewAdjustRouterPoolSize(int32(c.Delta))); err != nil {
		x.Failf("hash-router-died", "Tell(AdjustRouterPoolSize) failed: %v", err)
	}
	after, ok := e.routees("hash-router-died")
	if !ok {
		return
	}
	if len(after) != c.Pool+c.Delta {
		x.Failf("router-pool-size-wrong", "pool %d adjusted by %+d reports %d routees", c.Pool, c.Delta, len(after))
	}
	still := map[string]bool{}
	for _, nm := range after {
		still[nm] = true
	}
	was := map[string]bool{}
	for _, nm := range names {
		was[nm] = true
	}
	if c.Delta < 0 {
		x.Class("scale_down")
		for _, nm := range after {
			if !was[nm] {
				x.Failf("router-pool-membership-wrong", "after scaling down, %s is a routee that did not exist before", nm)
			}
		}
	} else {
		x.Class("scale_up")
		for _, nm := range names {
			if !still[nm] {
				x.Failf("router-pool-membership-wrong", "after scaling up, routee %s disappeared", nm)
			}
		}
	}
	// every key three times: stickiness must also hold on the new membership
	var order2 []int
	for pass := 0; pass < 3; pass++ {
		for i := range c.Keys {
			order2 = append(order2, i)
		}
	}
	now, ok := phase("phase 2", after, order2)
	if !ok {
		return
	}
	if len(c.Keys) >= 10 {
		x.NonTrivial()
	}
	moved := 0
	for _, key := range c.Keys {
		o, n2 := before[key], now[key]
		if o == n2 {
			continue
		}
		moved++
		if c.Delta < 0 && still[o] {
			x.Failf("hash-removal-moved-unowned-key", "pool %d -> %d (vnodes=%d hasher=%d): key %q moved from %s, which is still a routee, to %s", c.Pool, len(after), c.VNodes, c.Hasher, key, o, n2)
		}
		if c.Delta > 0 && was[n2] {
			x.Failf("hash-addition-moved-key-between-old-routees", "pool %d -> %d (vnodes=%d hasher=%d): key %q moved from %s to the old routee %s", c.Pool, len(after), c.VNodes, c.Hasher, key, o, n2)
		}
	}
	if moved > 0 {
		x.Class("some_keys_moved")
	}
}

func TestVF_C21_hashrouter(t *testing.T) {
	vfkit.Run(t, vfkit.Spec[c21HashCase]{
		ID: "C21", Unit: "hashrouter",
		Rule: "cases = pool 1..8, virtual nodes {default,1,2,16,150}, hasher {xxh3, fnv-1a}, 1..50 distinct non-empty keys each told at least once in a drawn order to a real consistent-hash router, then one AdjustRouterPoolSize (down by 1..pool-1, up by 1..3, or none) and every key told three more times; read after router and routee barriers; non-trivial = at least 10 keys and a membership change; distinct = distinct case",
		Gen:  c21GenHash, Exec: c21ExecHash, ReplayReps: 3,
	})
}

// ---- the ring itself (metamorphic) ------------------------------------------------------------

type c21RingCase struct {
	Members []string `json:"members"` // distinct
	VNodes  int      `json:"vnodes"`  // <= 0 means default
	Hasher  int      `json:"hasher"`
	Keys    []string `json:"keys"`
	Remove  int      `json:"remove"` // index of the member to remove
	Add     string   `json:"add"`    // a new member
	Perm    []int    `json:"perm"`   // permutation of the member indices
}

func c21GenRing(t *rapid.T) c21RingCase {
	var c c21RingCase
	n := rapid.IntRange(1, 8).Draw(t, "members")
	style := rapid.IntRange(0, 2).Draw(t, "member_style")
	for i := 0; i < n; i++ {
		switch style {
		case 0:
			// the shape router ids have: an address ending in <router>Routee<i>
			c.Members = append(c.Members, "goakt://vfC21@127.0.0.1:0/poolRoutee"+strconv.Itoa(i))
		case 1:
			c.Members = append(c.Members, "m"+strconv.Itoa(i))
		default:
			c.Members = append(c.Members, rapid.StringMatching(`[a-z]{1,6}`).Draw(t, "member")+"-"+strconv.Itoa(i))
		}
	}
	c.VNodes = rapid.SampledFrom([]int{-1, 0, 1, 1, 2, 3, 16, 16, 150}).Draw(t, "vnodes")
	c.Hasher = rapid.SampledFrom([]int{0, 0, 1}).Draw(t, "hasher")
	c.Keys = c21GenKeys(t, 1, 50)
	c.Remove = rapid.IntRange(0, n-1).Draw(t, "remove")
	c.Add = "added-" + strconv.Itoa(rapid.IntRange(0, 999).Draw(t, "add"))
	for i := 0; i < n; i++ {
		c.Perm = append(c.Perm, i)
	}
	for i := n - 1; i > 0; i-- {
		j := rapid.IntRange(0, i).Draw(t, "perm_swap")
		c.Perm[i], c.Perm[j] = c.Perm[j], c.Perm[i]
	}
	return c
}

func c21ExecRing(x *vfkit.X, c c21RingCase) {
	var h hash.Hasher
	if c.Hasher == 1 {
		h = c21FNV{}
	}
	ring := newConsistentHashRing(h, c.VNodes)
	wantV := c.VNodes
	if wantV <= 0 {
		wantV = 150 // documented default of WithConsistentHashVirtualNodes
	}
	if ring.lookup("anything") != "" {
		x.Failf("ring-empty-lookup-nonempty", "lookup on an empty ring returned a member")
	}
	members := append([]string(nil), c.Members...)
	ring.set(members)
	if ring.len() != len(members)*wantV {
		x.Failf("ring-vnode-count-wrong", "%d members x %d virtual nodes, ring holds %d points", len(members), wantV, ring.len())
	}
	isMember := func(list []string, m string) bool {
		for _, v := range list {
			if v == m {
				return true
			}
		}
		return false
	}
	base := map[string]string{}
	owned := 0
	for _, k := range c.Keys {
		m := ring.lookup(k)
		if !isMember(members, m) {
			x.Failf("ring-lookup-non-member", "lookup(%q) = %q which is not one of %v", k, m, members)
		}
		if again := ring.lookup(k); again != m {
			x.Failf("ring-lookup-unstable", "lookup(%q) returned %q then %q on the same ring", k, m, again)
		}
		base[k] = m
		if m == members[c.Remove] {
			owned++
		}
	}
	x.Class("members_" + strconv.Itoa(len(members)))
	x.Class("vnodes_" + strconv.Itoa(wantV))
	if owned > 0 {
		x.Class("removed_member_owned_keys")
	}
	if len(c.Keys) >= 10 && len(members) >= 2 {
		x.NonTrivial()
	}

	// (1) the ring is a function of the member set, not of the order of set()
	perm := make([]string, len(members))
	for i, p := range c.Perm {
		perm[i] = members[p]
	}
	ring2 := newConsistentHashRing(h, c.VNodes)
	ring2.set(perm)
	for _, k := range c.Keys {
		if m := ring2.lookup(k); m != base[k] {
			x.Failf("ring-depends-on-member-order", "lookup(%q) = %q with members %v but %q with the same members in order %v", k, base[k], members, m, perm)
		}
	}
	// (2) set() replaces all previous members: removal of one member
	removed := members[c.Remove]
	var rest []string
	for i, m := range members {
		if i != c.Remove {
			rest = append(rest, m)
		}
	}
	ring.set(rest)
	if ring.len() != len(rest)*wantV {
		x.Failf("ring-set-does-not-replace", "after set(%d members) the ring holds %d points, want %d", len(rest), ring.len(), len(rest)*wantV)
	}
	for _, k := range c.Keys {
		m := ring.lookup(k)
		if len(rest) == 0 {
			if m != "" {
				x.Failf("ring-empty-lookup-nonempty", "lookup(%q) = %q after the last member was removed", k, m)
			}
			continue
		}
		if !isMember(rest, m) {
			x.Failf("ring-lookup-non-member", "after removing %q lookup(%q) = %q, members are %v", removed, k, m, rest)
		}
		if base[k] != removed && m != base[k] {
			x.Failf("ring-removal-moved-unowned-key", "removing %q moved key %q from %q to %q (vnodes=%d, members %v)", removed, k, base[k], m, wantV, members)
		}
	}
	// (3) adding the member back restores the original mapping
	ring.set(members)
	for _, k := range c.Keys {
		if m := ring.lookup(k); m != base[k] {
			x.Failf("ring-not-restored", "after removing and re-adding %q, key %q maps to %q instead of %q", removed, k, m, base[k])
		}
	}
	// (4) adding a new member only takes keys over
	grown := append(append([]string(nil), members...), c.Add)
	ring.set(grown)
	for _, k := range c.Keys {
		m := ring.lookup(k)
		if m != base[k] && m != c.Add {
			x.Failf("ring-addition-moved-key-between-old-members", "adding %q moved key %q from %q to %q", c.Add, k, base[k], m)
		}
	}
}

func TestVF_C21_ring(t *testing.T) {
	vfkit.Run(t, vfkit.Spec[c21RingCase]{
		ID: "C21", Unit: "ring",
		Rule: "cases = 1..8 distinct member ids (router-id shaped, short, random), virtual nodes {default via <=0, 1, 2, 3, 16, 150}, hasher {xxh3, fnv-1a}, 1..50 distinct keys, one member to remove, one to add, a permutation of the members; metamorphic relations on consistentHashRing.set/lookup; non-trivial = at least 10 keys and at least 2 members; distinct = distinct case",
		Gen:  c21GenRing, Exec: c21ExecRing,
	})
}

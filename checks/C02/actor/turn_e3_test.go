//go:build verif

package actor

import (
	"fmt"
	"testing"

	"github.com/tochemey/goakt/v4/internal/vfkit"
	"github.com/tochemey/goakt/v4/internal/vfsched"
)

// C02 (component level, engine E3): every accepted message is handled exactly once and an
// actor with a pending message is always scheduled: at the exact quiescent end state (all
// producers finished, every worker parked in the ready queue's cond) no mailbox holds a
// message — a lost wake-up is decided by end-state inspection, not by a timeout.
func c02Exec(x *vfkit.X, c vfTurnCase) {
	res := vfTurnExec(x, c)
	for _, th := range res.Sched.Threads() {
		if th.Panic != nil {
			x.Failf("turn:panic", "thread %s panicked: %v\n%s", th.Name, th.Panic, th.Stack)
		}
	}
	x.Class("kind_" + c.Kind)
	if res.Sched.Preempts > 0 {
		x.Class("preempted")
	}
	if len(c.Producers) >= 2 && res.Sched.Preempts > 0 {
		x.NonTrivial()
	}
	handled := map[int]int{}
	for _, e := range res.Events {
		if e.Kind == "enter" {
			handled[e.ID]++
			if handled[e.ID] > 1 {
				x.Failf("turn:message-handled-twice", "message %d was handled %d times (mailbox %s)", e.ID, handled[e.ID], c.Kind)
			}
		}
	}
	switch res.Outcome {
	case vfsched.StepBudget:
		x.Class("inconclusive_step_budget")
		return
	case vfsched.Deadlock:
		if !res.Quiescent {
			x.Failf("turn:deadlock-before-quiescence", "no runnable thread before quiescence: %s", res.Sched.Describe())
		}
		x.Failf("turn:worker-did-not-exit-after-close", "%s", res.Sched.Describe())
	}
	if !res.Quiescent {
		return
	}
	for a, left := range res.LeftInBoxes {
		if left > 0 {
			x.Failf("turn:lost-wakeup:"+c.Kind, "every worker is parked and every producer finished, but actor %d still has %d queued message(s) (dispatch state %d, mailbox %s): nobody will ever schedule it", a, left, res.StuckState[a], c.Kind)
		}
	}
	for _, m := range res.Sent {
		if handled[m.ID] == 0 {
			x.Failf("turn:accepted-message-never-handled:"+c.Kind, "message %d (actor %d, producer %d seq %d) was accepted by doReceive but never handled; mailboxes are empty at quiescence (mailbox %s)", m.ID, m.Actor, m.Producer, m.Seq, c.Kind)
		}
	}
	_ = fmt.Sprint
}

func TestVF_C02_turn(t *testing.T) {
	vfkit.Run(t, vfkit.Spec[vfTurnCase]{
		ID: "C02", Unit: "turn",
		Rule: "cases as C01/turn (bare PIDs, 9 mailbox kinds, real dispatcher + worker loops, 1-3 producers x 1-4 doReceive) with a closer thread that inspects the exact quiescent end state; non-trivial = >=2 producers and >=1 forced pre-emption; distinct = distinct (program, schedule)",
		Gen:  vfTurnGen(vfTurnAllKinds), Exec: c02Exec,
	})
}

//go:build verif

package address

import (
	"fmt"
	"net/netip"
	"strings"
	"testing"
	"unicode"

	"pgregory.net/rapid"

	"github.com/tochemey/goakt/v4/internal/vfkit"
)

// C26: for every valid actor address, parsing its string form yields an address
// equal to it with the same parent name, and the host:port extracted from the
// string equals the address's host and port. Parsing any string never panics.

const c26FpIPv6 = "parse-rejects-ipv6-host"

// ---- generators ----------------------------------------------------------------

const (
	c26Alnum = "abcdefghijklmnopqrstuvwxyzABCDEFGHIJKLMNOPQRSTUVWXYZ0123456789"
	c26Tail  = c26Alnum + "-_." + "-_." // the validation pattern's full alphabet, punctuation boosted
)

// c26Ident builds a string matching ^[a-zA-Z0-9][a-zA-Z0-9-_.]*$ of the given length.
func c26Ident(t *rapid.T, label string, n int) string {
	var b strings.Builder
	b.WriteByte(c26Alnum[rapid.IntRange(0, len(c26Alnum)-1).Draw(t, label+"_c0")])
	if n > 24 {
		// long identifiers: a drawn short block repeated (keeps the draw count small)
		blk := make([]byte, rapid.IntRange(1, 7).Draw(t, label+"_blk_n"))
		for i := range blk {
			blk[i] = c26Tail[rapid.IntRange(0, len(c26Tail)-1).Draw(t, label+"_blk")]
		}
		for b.Len() < n {
			b.Write(blk)
		}
		return b.String()[:n]
	}
	for i := 1; i < n; i++ {
		b.WriteByte(c26Tail[rapid.IntRange(0, len(c26Tail)-1).Draw(t, label+"_c")])
	}
	return b.String()
}

func c26Name(t *rapid.T, label string) string {
	n := rapid.SampledFrom([]int{1, 1, 2, 3, 4, 5, 6, 8, 10, 12, 16, 24, 64, 254, 255}).Draw(t, label+"_len")
	s := c26Ident(t, label, n)
	// Validate matches the pattern against strings.TrimSpace(name): names with outer
	// white space are accepted by address validation, so they are in the domain (rare).
	if n <= 253 && rapid.IntRange(0, 49).Draw(t, label+"_ws") == 0 {
		ws := rapid.SampledFrom([]string{" ", "\t", "\n"}).Draw(t, label+"_wsc")
		if rapid.Bool().Draw(t, label+"_ws_lead") {
			s = ws + s
		} else {
			s += ws
		}
	}
	return s
}

func c26System(t *rapid.T) string {
	n := rapid.SampledFrom([]int{1, 1, 2, 3, 4, 5, 6, 8, 10, 16, 40, 300}).Draw(t, "sys_len")
	return c26Ident(t, "sys", n)
}

func c26DNSLabel(t *rapid.T) string {
	const lower = "abcdefghijklmnopqrstuvwxyz0123456789"
	n := rapid.IntRange(1, 10).Draw(t, "lbl_n")
	b := make([]byte, n)
	for i := range b {
		if i > 0 && i < n-1 && rapid.IntRange(0, 7).Draw(t, "lbl_h") == 0 {
			b[i] = '-'
			continue
		}
		b[i] = lower[rapid.IntRange(0, len(lower)-1).Draw(t, "lbl_c")]
	}
	return string(b)
}

func c26IPv6(t *rapid.T) string {
	switch rapid.IntRange(0, 9).Draw(t, "v6_kind") {
	case 0:
		return "::1"
	case 1:
		return "::"
	case 2:
		// full, uncompressed form
		g := make([]string, 8)
		for i := range g {
			g[i] = fmt.Sprintf("%04x", rapid.Uint16().Draw(t, "v6_g"))
		}
		return strings.Join(g, ":")
	case 3:
		// v4-mapped
		return fmt.Sprintf("::ffff:%d.%d.%d.%d", rapid.IntRange(0, 255).Draw(t, "m_a"), rapid.IntRange(0, 255).Draw(t, "m_b"), rapid.IntRange(0, 255).Draw(t, "m_c"), rapid.IntRange(0, 255).Draw(t, "m_d"))
	case 4:
		// link-local with a zone
		return fmt.Sprintf("fe80::%x%%%s", rapid.Uint16Range(1, 0xffff).Draw(t, "ll_g"), rapid.SampledFrom([]string{"eth0", "en0", "1", "lo"}).Draw(t, "zone"))
	default:
		// canonical compressed text of 8 groups with generated zero runs
		var a [16]byte
		for i := 0; i < 8; i++ {
			var g uint16
			switch rapid.IntRange(0, 2).Draw(t, "v6_z") {
			case 0:
				g = 0
			case 1:
				g = uint16(rapid.IntRange(1, 0xff).Draw(t, "v6_small"))
			default:
				g = rapid.Uint16().Draw(t, "v6_any")
			}
			a[2*i], a[2*i+1] = byte(g>>8), byte(g)
		}
		s := netip.AddrFrom16(a).String()
		if rapid.IntRange(0, 5).Draw(t, "v6_upper") == 0 {
			s = strings.ToUpper(s)
		}
		return s
	}
}

func c26Host(t *rapid.T) string {
	switch rapid.IntRange(0, 9).Draw(t, "host_kind") {
	case 0, 1, 2:
		// DNS names
		if rapid.IntRange(0, 5).Draw(t, "dns_local") == 0 {
			return rapid.SampledFrom([]string{"localhost", "node-1", "a", "goakt-0.goakt.default.svc.cluster.local", "EXAMPLE.com", "example.com."}).Draw(t, "dns_fixed")
		}
		n := rapid.IntRange(1, 4).Draw(t, "dns_n")
		parts := make([]string, n)
		for i := range parts {
			parts[i] = c26DNSLabel(t)
		}
		return strings.Join(parts, ".")
	case 3, 4, 5:
		if rapid.IntRange(0, 4).Draw(t, "v4_fixed") == 0 {
			return rapid.SampledFrom([]string{"127.0.0.1", "0.0.0.0", "255.255.255.255", "10.0.0.1"}).Draw(t, "v4_b")
		}
		return fmt.Sprintf("%d.%d.%d.%d", rapid.IntRange(0, 255).Draw(t, "a"), rapid.IntRange(0, 255).Draw(t, "b"), rapid.IntRange(0, 255).Draw(t, "c"), rapid.IntRange(0, 255).Draw(t, "d"))
	default:
		return c26IPv6(t)
	}
}

func c26Port(t *rapid.T) int {
	if rapid.IntRange(0, 2).Draw(t, "port_kind") == 0 {
		return rapid.SampledFrom([]int{0, 1, 9, 10, 80, 999, 1000, 9000, 32767, 32768, 65534, 65535}).Draw(t, "port_b")
	}
	return rapid.IntRange(0, 65535).Draw(t, "port")
}

func c26SwapCase(s string) string {
	return strings.Map(func(r rune) rune {
		if unicode.IsUpper(r) {
			return unicode.ToLower(r)
		}
		return unicode.ToUpper(r)
	}, s)
}

type c26Case struct {
	System string `json:"system"`
	Name   string `json:"name"`
	Host   string `json:"host"`
	Port   int    `json:"port"`
	// Parent chain, nearest first; empty = no parent. Each ancestor lives on the same
	// host/port; its system is the child's, optionally with the letter case swapped
	// (Validate compares systems case-insensitively).
	Parents []c26Anc `json:"parents,omitempty"`
}

type c26Anc struct {
	Name     string `json:"name"`
	SwapCase bool   `json:"swap_case,omitempty"`
}

func c26Gen(t *rapid.T) c26Case {
	c := c26Case{System: c26System(t), Name: c26Name(t, "name"), Host: c26Host(t), Port: c26Port(t)}
	depth := rapid.SampledFrom([]int{0, 0, 0, 1, 1, 1, 2}).Draw(t, "depth")
	prev := c.Name
	for i := 0; i < depth; i++ {
		n := c26Name(t, "parent")
		if n == prev {
			n += "x" // by construction: a parent never carries its child's name
			if len(n) > 255 {
				n = "p"
			}
		}
		c.Parents = append(c.Parents, c26Anc{Name: n, SwapCase: rapid.IntRange(0, 5).Draw(t, "swap") == 0})
		prev = n
	}
	return c
}

func (c c26Case) build() *Address {
	var parent *Address
	for i := len(c.Parents) - 1; i >= 0; i-- {
		sys := c.System
		if c.Parents[i].SwapCase {
			sys = c26SwapCase(sys)
		}
		parent = NewWithParent(c.Parents[i].Name, sys, c.Host, c.Port, parent)
	}
	if parent == nil && len(c.Name)%2 == 0 {
		return New(c.Name, c.System, c.Host, c.Port)
	}
	return NewWithParent(c.Name, c.System, c.Host, c.Port, parent)
}

// ---- round trip ------------------------------------------------------------------

func c26Exec(x *vfkit.X, c c26Case) {
	a := c.build()
	if err := a.Validate(); err != nil {
		// the only filter: what address validation itself rejects is outside the domain
		x.Class("rejected_by_validate")
		x.Note("validate_error", err.Error())
		return
	}
	x.Class("accepted_by_validate")
	ipv6 := strings.Contains(c.Host, ":")
	hasParent := len(c.Parents) > 0
	switch {
	case ipv6:
		x.Class("host_ipv6")
	case strings.Count(c.Host, ".") == 3 && strings.Trim(c.Host, "0123456789.") == "":
		x.Class("host_ipv4")
	default:
		x.Class("host_dns")
	}
	if hasParent {
		x.Class(fmt.Sprintf("parents=%d", len(c.Parents)))
	}
	if strings.ContainsAny(c.Name, "-_.") {
		x.Class("name_with_punctuation")
	}
	if strings.TrimSpace(c.Name) != c.Name {
		x.Class("name_outer_whitespace")
	}
	if len(c.Name) >= 254 {
		x.Class("name_len>=254")
	}
	if ipv6 || hasParent || strings.ContainsAny(c.Name, "-_.") {
		x.NonTrivial()
	}

	s := a.String()

	// host:port extracted from the text form == the address's host and port
	hp, ok := HostPortOf(s)
	if !ok || hp != a.HostPort() {
		fp := "hostportof-mismatch"
		if ipv6 {
			fp = "hostportof-mismatch-ipv6"
		}
		x.Failf(fp, "HostPortOf(%q) = (%q, %v), want (%q, true)", s, hp, ok, a.HostPort())
	}
	if want := FormatHostPort(c.Host, c.Port); a.HostPort() != want {
		x.Failf("hostport-format-mismatch", "HostPort() = %q but FormatHostPort(%q, %d) = %q", a.HostPort(), c.Host, c.Port, want)
	}

	p, err := Parse(s)
	if err != nil {
		if ipv6 {
			if x.Known(c26FpIPv6) {
				// listed defect: the text form of an IPv6-host address is not parseable.
				// Everything that does not need Parse was checked above; report the hit.
				x.Class("known_ipv6_parse_rejection")
			}
			x.Failf(c26FpIPv6, "address with IPv6 host %q passes Validate, String() = %q, but Parse fails: %v", c.Host, s, err)
		}
		x.Failf("parse-rejects-valid-address", "address passes Validate, String() = %q, but Parse fails: %v", s, err)
	}
	if p == nil {
		x.Failf("parse-nil-without-error", "Parse(%q) returned nil, nil", s)
	}
	if !p.Equals(a) || !a.Equals(p) {
		x.Failf("parse-not-equal", "Parse(%q) = {system=%q host=%q port=%d name=%q}, not Equals the original {system=%q host=%q port=%d name=%q}", s, p.System(), p.Host(), p.Port(), p.Name(), a.System(), a.Host(), a.Port(), a.Name())
	}
	if p.System() != c.System || p.Host() != c.Host || p.Port() != c.Port || p.Name() != c.Name {
		x.Failf("parse-field-mismatch", "Parse(%q) = {system=%q host=%q port=%d name=%q}, want {system=%q host=%q port=%d name=%q}", s, p.System(), p.Host(), p.Port(), p.Name(), c.System, c.Host, c.Port, c.Name)
	}
	pp := p.Parent()
	if hasParent {
		if pp == nil || pp.Name() != c.Parents[0].Name {
			got := "<no parent>"
			if pp != nil {
				got = pp.Name()
			}
			x.Failf("parse-parent-name-mismatch", "Parse(%q): parent name %q, want %q", s, got, c.Parents[0].Name)
		}
	} else if pp != nil && !pp.Equals(NoSender()) {
		x.Failf("parse-invents-parent", "Parse(%q): parent %q although the address has none", s, pp.Name())
	}
	// the assumption the remote-tell receiver lookup is built on (actor/remote_server.go
	// deliverRemoteTellMessage): Parse(s).String() == s for a string produced by String()
	if p.String() != s {
		x.Failf("parse-string-not-canonical", "Parse(%q).String() = %q", s, p.String())
	}
	if p.HostPort() != a.HostPort() {
		x.Failf("parse-hostport-mismatch", "Parse(%q).HostPort() = %q, want %q", s, p.HostPort(), a.HostPort())
	}
	// documented: ParseWithIncarnationID restores a validatable address
	q, err := ParseWithIncarnationID(s, a.IncarnationID())
	if err != nil || q == nil {
		x.Failf("parse-with-incarnation-fails", "ParseWithIncarnationID(%q, %q) fails: %v", s, a.IncarnationID(), err)
	}
	if verr := q.Validate(); verr != nil {
		x.Failf("parse-with-incarnation-not-valid", "ParseWithIncarnationID(%q, id) does not pass Validate: %v", s, verr)
	}
	if !q.SameIncarnation(a) {
		x.Failf("parse-with-incarnation-differs", "ParseWithIncarnationID(%q, id) is not the same incarnation as the original", s)
	}
}

func TestVF_C26_roundtrip(t *testing.T) {
	vfkit.Run(t, vfkit.Spec[c26Case]{
		ID: "C26", Unit: "roundtrip",
		Rule: "cases = addresses built with New/NewWithParent by construction (system and names from the validation pattern's full alphabet, lengths 1..255; hosts: DNS names, IPv4, IPv6 incl. ::1, ::, full, compressed, v4-mapped, zoned; ports 0..65535 boundary-biased; 0..2 ancestors on the same host/port with a different name) and filtered only by Validate()==nil (rejections counted in class rejected_by_validate); non-trivial = accepted address with an IPv6 host, or a parent, or a name using . - _; distinct = distinct (system, name, host, port, parents)",
		Gen:  c26Gen, Exec: c26Exec,
	})
}

// ---- Parse never panics -----------------------------------------------------------

type c26StrCase struct {
	S  string `json:"s"`
	ID string `json:"id"`
}

var c26Frags = []string{
	"", "", "a", "sys", "Sys-1_x.y", "/", "//", "@", "@@", ":", "::", "://", "goakt", "goakt://", "%", "%zz", "[", "]", "[::1]", "::1",
	"127.0.0.1", "host", " ", "\t", "\n", "\x00", "\xff", "é", "日本", "‮", "0", "80", "9000", "65535", "65536", "-1", "+5", "0x10", "1e3",
	"2147483647", "2147483648", "-2147483648", "-2147483649", "9223372036854775807", "9223372036854775808", "99999999999999999999999999", "٨٠", " 80", "80 ", "?", "#", "\\",
}

func c26GenStr(t *rapid.T) c26StrCase {
	var c c26StrCase
	frag := rapid.OneOf(rapid.SampledFrom(c26Frags), rapid.StringN(0, 6, 12), rapid.StringOfN(rapid.RuneFrom([]rune("goakt:/@.0123456789-_ ")), 0, 8, 16))
	switch rapid.IntRange(0, 9).Draw(t, "kind") {
	case 0:
		c.S = rapid.String().Draw(t, "any")
	case 1:
		// arbitrary bytes (invalid UTF-8 included)
		c.S = string(rapid.SliceOfN(rapid.Byte(), 0, 40).Draw(t, "bytes"))
	case 2, 3, 4:
		// the grammar with every terminal and non-terminal replaceable
		scheme := rapid.SampledFrom([]string{"goakt", "goakt", "goakt", "goakt", "GOAKT", "", "http", "goakt ", "goakt://goakt"}).Draw(t, "scheme")
		sep := rapid.SampledFrom([]string{"://", "://", "://", "://", ":/", ":", "", "://://", "//"}).Draw(t, "sep")
		at := rapid.SampledFrom([]string{"@", "@", "@", "@", "", "@@"}).Draw(t, "at")
		colon := rapid.SampledFrom([]string{":", ":", ":", ":", "", "::"}).Draw(t, "colon")
		slash := rapid.SampledFrom([]string{"/", "/", "/", "/", "", "//"}).Draw(t, "slash")
		c.S = scheme + sep + frag.Draw(t, "system") + at + frag.Draw(t, "host") + colon + frag.Draw(t, "port") + slash + frag.Draw(t, "path")
		if rapid.IntRange(0, 2).Draw(t, "more_path") == 0 {
			c.S += rapid.SampledFrom([]string{"/", "//", ""}).Draw(t, "slash2") + frag.Draw(t, "path2")
		}
		if rapid.IntRange(0, 5).Draw(t, "more_path3") == 0 {
			c.S += "/" + frag.Draw(t, "path3")
		}
	case 5, 6:
		// free concatenation of fragments
		n := rapid.IntRange(0, 9).Draw(t, "nfrag")
		var b strings.Builder
		for i := 0; i < n; i++ {
			b.WriteString(frag.Draw(t, "frag"))
		}
		c.S = b.String()
	default:
		// a valid canonical string with one or two byte-level edits
		base := c26Gen(t).build().String()
		bs := []byte(base)
		edits := rapid.IntRange(0, 2).Draw(t, "edits")
		for e := 0; e < edits && len(bs) > 0; e++ {
			pos := rapid.IntRange(0, len(bs)-1).Draw(t, "pos")
			switch rapid.IntRange(0, 2).Draw(t, "edit_kind") {
			case 0:
				bs = append(bs[:pos], bs[pos+1:]...)
			case 1:
				bs[pos] = rapid.SampledFrom([]byte("/@:%[] \x00a0-")).Draw(t, "repl")
			default:
				ins := rapid.SampledFrom([]byte("/@:%[] \x00a0-")).Draw(t, "ins")
				bs = append(bs[:pos], append([]byte{ins}, bs[pos:]...)...)
			}
		}
		c.S = string(bs)
	}
	c.ID = rapid.SampledFrom([]string{"", "not-a-uuid", "00000000-0000-0000-0000-000000000000", "6ba7b810-9dad-11d1-80b4-00c04fd430c8", "{6ba7b810-9dad-11d1-80b4-00c04fd430c8}", "urn:uuid:6ba7b810-9dad-11d1-80b4-00c04fd430c8"}).Draw(t, "id")
	return c
}

func c26NoPanic(x *vfkit.X, what, in string, f func()) {
	defer func() {
		if p := recover(); p != nil {
			x.Failf("panic-in-"+what, "%s(%q) panicked: %v", what, in, p)
		}
	}()
	f()
}

func c26ExecStr(x *vfkit.X, c c26StrCase) {
	var p *Address
	var err error
	c26NoPanic(x, "Parse", c.S, func() { p, err = Parse(c.S) })
	c26NoPanic(x, "HostPortOf", c.S, func() { _, _ = HostPortOf(c.S) })
	c26NoPanic(x, "ParseWithIncarnationID", c.S, func() { _, _ = ParseWithIncarnationID(c.S, c.ID) })

	// non-trivial by input shape: the string gets past the scheme and reaches the
	// system/host/port/path splitting
	if rest, ok := strings.CutPrefix(c.S, "goakt://"); ok && strings.Contains(rest, "@") && strings.Contains(rest, "/") {
		x.NonTrivial()
		x.Class("reaches_host_port_split")
	}
	switch {
	case err == nil && p == nil:
		x.Failf("parse-nil-without-error", "Parse(%q) returned nil, nil", c.S)
	case err == nil:
		x.Class("outcome_parsed")
		// accessors of whatever Parse accepted must not panic either
		c26NoPanic(x, "accessors-after-Parse", c.S, func() {
			_ = p.String()
			_ = p.HostPort()
			_ = p.Validate()
			_ = p.Parent().Name()
			_ = p.Equals(p)
		})
		// informational only (the property is silent here): is the accepted string canonical?
		if p.String() != c.S {
			x.Class("parsed_but_not_canonical")
		}
	case strings.Contains(err.Error(), "required"):
		x.Class("outcome_empty")
	case strings.Contains(err.Error(), "protocol"):
		x.Class("outcome_bad_scheme")
	case strings.Contains(err.Error(), "format"):
		x.Class("outcome_bad_format")
	default:
		x.Class("outcome_bad_port")
	}
}

func TestVF_C26_parse_nopanic(t *testing.T) {
	vfkit.Run(t, vfkit.Spec[c26StrCase]{
		ID: "C26", Unit: "parse_nopanic",
		Rule: "cases = arbitrary strings: rapid unicode strings, raw bytes, the address grammar with every terminal/non-terminal replaced by hostile fragments (empty parts, doubled separators, NUL, brackets, huge/negative/non-ASCII ports), free fragment concatenations, and valid canonical strings with 0..2 byte edits; non-trivial = string starts with goakt:// and contains @ and / after it (reaches the host/port/path splitting); distinct = distinct strings",
		Gen:  c26GenStr, Exec: c26ExecStr,
	})
}

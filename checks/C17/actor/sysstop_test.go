//go:build verif

package actor

import (
	"context"
	"fmt"
	"runtime"
	"strings"
	"sync"
	"sync/atomic"
	"testing"
	"time"

	"pgregory.net/rapid"

	"github.com/tochemey/goakt/v4/internal/vfkit"
	"github.com/tochemey/goakt/v4/internal/vfsched"
	"github.com/tochemey/goakt/v4/log"
	"github.com/tochemey/goakt/v4/reentrancy"
)

// ---- C17: stopping the actor system tears down every actor exactly once -----------
//
// One real ActorSystem per case: a generated forest (<= 12 actors, depth <= 3),
// 0..5 grains of two kinds (some reentrancy-enabled), 0..6 sender goroutines that
// keep sending (Tell / Ask to actors, TellGrain / AskGrain to grains) while
// ActorSystem.Stop is called, and go on sending after it returned. Actors and
// grains log PreStart/PostStop, OnActivate/OnDeactivate and every handler entry
// and exit with logical timestamps from one atomic counter; Stop's call interval
// is stamped with the same counter.

const (
	c17Tell = iota
	c17Ask
	c17TellGrain
	c17AskGrain
	c17Poison // like c17Tell, plus one PoisonPill sent when the stop is announced: the target stops itself while the system stops

	c17FpSkip = "system-stop-does-not-wait-for-actor-stopping-itself"
	c17FpLate = "handler-entered-after-stop-returned"

	c17Cap        = 20 * time.Second
	c17AskTimeout = 50 * time.Millisecond
)

var c17ModeNames = []string{"Tell", "Ask", "TellGrain", "AskGrain", "Tell+PoisonPill"}

type c17NodeSpec struct {
	Parent    int `json:"parent"`
	Think     int `json:"think_us"`    // handler duration
	PostThink int `json:"poststop_us"` // PostStop duration
}

type c17GrainSpec struct {
	Kind      int  `json:"kind"` // 0 / 1: two grain types
	Reentrant bool `json:"reentrant"`
	Think     int  `json:"think_us"`
	// DeactivateAfterMs > 0: the grain is not long-lived, it passivates after that
	// idle time (WithGrainDeactivateAfter); it gets exactly one message, StaggerMs
	// after the previous passivating grain got its message, and no sender ever
	// addresses it, so its idle deadline is that message + DeactivateAfterMs.
	DeactivateAfterMs int `json:"deactivate_after_ms"`
	StaggerMs         int `json:"stagger_ms"`
	DeactWork         int `json:"ondeactivate_us"` // duration of OnDeactivate
}

type c17Sender struct {
	Mode   int `json:"mode"`
	Target int `json:"target"` // index into nodes (Tell/Ask) or grains
	Gap    int `json:"gap_us"` // pause between two sends
}

type c17Case struct {
	Nodes     []c17NodeSpec  `json:"nodes"`
	Grains    []c17GrainSpec `json:"grains"`
	Senders   []c17Sender    `json:"senders"`
	StopAfter int            `json:"stop_after_us"` // traffic runs this long before Stop is called
	PillLead  int            `json:"pill_lead_us"`  // Tell+PoisonPill senders are told about the stop this long before it is called
	// With a passivating grain in the case Stop is issued StopOffsetMs after the idle
	// deadline of the FIRST passivating grain (negative: before it); StopAfter is ignored.
	StopOffsetMs int     `json:"stop_offset_ms"`
	NoiseSeed    uint64  `json:"noise_seed"`
	NoiseProb    float64 `json:"noise_prob"`
	NoiseSleep   int     `json:"noise_sleep_us"`
}

func c17Depths(nodes []c17NodeSpec) []int {
	d := make([]int, len(nodes))
	for i, n := range nodes {
		if n.Parent >= 0 {
			d[i] = d[n.Parent] + 1
		} else {
			d[i] = 1
		}
	}
	return d
}

func c17Gen(t *rapid.T) c17Case {
	var c c17Case
	c.NoiseSeed = rapid.Uint64().Draw(t, "noise-seed")
	c.NoiseProb = rapid.SampledFrom([]float64{0, 0.01, 0.05, 0.05, 0.2}).Draw(t, "noise-prob")
	c.NoiseSleep = rapid.SampledFrom([]int{0, 50, 300}).Draw(t, "noise-sleep")
	n := rapid.OneOf(rapid.IntRange(0, 3), rapid.IntRange(3, 12), rapid.IntRange(6, 12)).Draw(t, "actors")
	kids := map[int]int{}
	for i := 0; i < n; i++ {
		spec := c17NodeSpec{Parent: -1,
			Think:     rapid.SampledFrom([]int{0, 0, 20, 100, 400}).Draw(t, "think"),
			PostThink: rapid.SampledFrom([]int{0, 0, 50, 300}).Draw(t, "post-think")}
		if i > 0 {
			depths := c17Depths(c.Nodes)
			var cands []int
			for j := range c.Nodes {
				if depths[j] < 3 && kids[j] < 4 {
					cands = append(cands, j)
				}
			}
			if len(cands) > 0 && rapid.IntRange(0, 3).Draw(t, "as-child") > 0 {
				spec.Parent = rapid.SampledFrom(cands).Draw(t, "parent")
				kids[spec.Parent]++
			}
		}
		c.Nodes = append(c.Nodes, spec)
	}
	ng := rapid.SampledFrom([]int{0, 1, 1, 2, 3, 5}).Draw(t, "grains")
	// a third of the cases with grains let some of them passivate around the stop
	passivating := ng > 0 && rapid.IntRange(0, 2).Draw(t, "passivating-grains") == 0
	idle := rapid.SampledFrom([]int{100, 200, 300}).Draw(t, "deactivate-after")
	var longLived []int
	for i := 0; i < ng; i++ {
		g := c17GrainSpec{
			Kind:      rapid.IntRange(0, 1).Draw(t, "grain-kind"),
			Reentrant: rapid.IntRange(0, 2).Draw(t, "reentrant") == 0,
			Think:     rapid.SampledFrom([]int{0, 0, 20, 100, 400}).Draw(t, "grain-think"),
		}
		if passivating && (i == 0 || rapid.IntRange(0, 3).Draw(t, "this-one-passivates") > 0) {
			g.DeactivateAfterMs = idle
			g.Reentrant = rapid.IntRange(0, 3).Draw(t, "passivating-reentrant") == 0
			// the idle deadlines of the passivating grains are spread over the window
			// in which the stop is issued
			g.StaggerMs = rapid.SampledFrom([]int{0, 4, 8, 12}).Draw(t, "stagger")
			g.DeactWork = rapid.SampledFrom([]int{2000, 5000, 10000}).Draw(t, "ondeactivate-work")
		} else {
			longLived = append(longLived, i)
		}
		c.Grains = append(c.Grains, g)
	}
	if passivating {
		c.StopOffsetMs = rapid.OneOf(rapid.IntRange(-30, 30), rapid.IntRange(-10, 25), rapid.SampledFrom([]int{-90, -60, 80, 150})).Draw(t, "stop-offset")
	}
	ns := rapid.IntRange(0, 6).Draw(t, "senders")
	for i := 0; i < ns; i++ {
		var s c17Sender
		toGrain := len(longLived) > 0 && (len(c.Nodes) == 0 || rapid.IntRange(0, 2).Draw(t, "to-grain") == 0)
		switch {
		case toGrain:
			s.Mode = rapid.SampledFrom([]int{c17TellGrain, c17AskGrain}).Draw(t, "grain-mode")
			s.Target = rapid.SampledFrom(longLived).Draw(t, "grain-target") // passivating grains get no traffic
		case len(c.Nodes) > 0:
			s.Mode = rapid.SampledFrom([]int{c17Tell, c17Tell, c17Tell, c17Ask, c17Ask, c17Poison}).Draw(t, "mode")
			s.Target = rapid.IntRange(0, len(c.Nodes)-1).Draw(t, "target")
		default:
			continue
		}
		s.Gap = rapid.SampledFrom([]int{0, 0, 20, 100}).Draw(t, "gap")
		c.Senders = append(c.Senders, s)
	}
	c.StopAfter = rapid.SampledFrom([]int{0, 50, 200, 1000, 3000}).Draw(t, "stop-after")
	c.PillLead = rapid.SampledFrom([]int{0, 0, 20, 100, 500}).Draw(t, "pill-lead")
	return c
}

// ---- instrumentation -------------------------------------------------------------------

type c17Env struct {
	clock atomic.Int64
}

func (e *c17Env) tick() int64 { return e.clock.Add(1) }

func c17Busy(d time.Duration) {
	if d <= 0 {
		return
	}
	if d >= 200*time.Microsecond {
		time.Sleep(d)
		return
	}
	end := time.Now().Add(d)
	for time.Now().Before(end) {
		runtime.Gosched()
	}
}

// c17Unit is the record of one actor or grain.
type c17Unit struct {
	name      string
	parent    *c17Unit
	think     time.Duration
	postThink time.Duration

	mu          sync.Mutex
	starts      int // successful PreStart / OnActivate
	stops       int // PostStop / OnDeactivate entries
	startAt     int64
	stopEnter   int64
	stopExit    int64
	lastEnter   int64 // latest handler entry
	lastExit    int64
	handled     int
	lateEntries []int64 // handler entries that happened after the stop hook of this unit was entered
	inStop      int     // stop hooks currently running
	stopOverlap bool
	stopEnters  []int64
	passivates  bool
}

func (u *c17Unit) handle(e *c17Env, fn func()) {
	u.mu.Lock()
	now := e.tick()
	u.lastEnter = now
	u.handled++
	if u.stopEnter != 0 {
		u.lateEntries = append(u.lateEntries, now)
	}
	u.mu.Unlock()
	c17Busy(u.think)
	fn()
	u.mu.Lock()
	u.lastExit = e.tick()
	u.mu.Unlock()
}

func (u *c17Unit) started(e *c17Env) {
	u.mu.Lock()
	u.starts++
	u.startAt = e.tick()
	u.mu.Unlock()
}

func (u *c17Unit) stopping(e *c17Env) {
	u.mu.Lock()
	u.stops++
	u.inStop++
	if u.inStop > 1 {
		u.stopOverlap = true // two stop hooks of one actor / grain run at the same time
	}
	now := e.tick()
	if u.stopEnter == 0 {
		u.stopEnter = now
	}
	u.stopEnters = append(u.stopEnters, now)
	u.mu.Unlock()
	c17Busy(u.postThink)
	u.mu.Lock()
	u.inStop--
	if u.stopExit == 0 {
		u.stopExit = e.tick()
	}
	u.mu.Unlock()
}

type c17Msg struct{ Seq int }

type c17Actor struct {
	env *c17Env
	u   *c17Unit
}

func (a *c17Actor) PreStart(*Context) error { a.u.started(a.env); return nil }
func (a *c17Actor) PostStop(*Context) error { a.u.stopping(a.env); return nil }
func (a *c17Actor) Receive(ctx *ReceiveContext) {
	m, ok := ctx.Message().(*c17Msg)
	if !ok {
		return
	}
	a.u.handle(a.env, func() { ctx.Response(m) })
}

// two grain kinds (the kind of a grain is its Go type)
type c17GrainA struct {
	env *c17Env
	u   *c17Unit
}

type c17GrainB struct{ c17GrainA }

func (g *c17GrainA) OnActivate(context.Context, *GrainProps) error   { g.u.started(g.env); return nil }
func (g *c17GrainA) OnDeactivate(context.Context, *GrainProps) error { g.u.stopping(g.env); return nil }
func (g *c17GrainA) OnReceive(ctx *GrainContext) {
	m, ok := ctx.Message().(*c17Msg)
	if !ok {
		ctx.Unhandled()
		return
	}
	g.u.handle(g.env, func() {
		if ctx.synchronous || ctx.requestID != "" {
			ctx.Response(m)
		} else {
			ctx.NoErr() // TellGrain waits for this acknowledgement
		}
	})
}

type c17Send struct {
	issued    int64 // logical time right before the call
	returned  int64
	err       error
	afterStop bool // issued after Stop had returned
}

// ---- execution -------------------------------------------------------------------------

func c17Exec(x *vfkit.X, c c17Case) {
	ctx := context.Background()
	sysI, err := NewActorSystem("vfC17", WithLogger(log.DiscardLogger))
	if err != nil {
		panic(err)
	}
	if err := sysI.Start(ctx); err != nil {
		panic(err)
	}
	sys := sysI.(*actorSystem)
	e := &c17Env{}
	stopCalled := false
	defer func() {
		vfsched.SetNoise(0, 0, 0)
		if !stopCalled {
			_ = sys.Stop(context.Background())
		}
	}()
	if !c17AwaitGuardians(sys) {
		x.Class("inconclusive_guardians_not_started")
		return
	}

	var actors []*c17Unit
	var pids []*PID
	for i, spec := range c.Nodes {
		u := &c17Unit{name: fmt.Sprintf("a%d", i), think: time.Duration(spec.Think) * time.Microsecond, postThink: time.Duration(spec.PostThink) * time.Microsecond}
		var pid *PID
		var err error
		if spec.Parent < 0 {
			pid, err = sys.Spawn(ctx, u.name, &c17Actor{env: e, u: u}, WithLongLived())
		} else {
			u.parent = actors[spec.Parent]
			pid, err = pids[spec.Parent].SpawnChild(ctx, u.name, &c17Actor{env: e, u: u}, WithLongLived())
		}
		if err != nil {
			panic(fmt.Sprintf("building the forest: %v", err))
		}
		actors = append(actors, u)
		pids = append(pids, pid)
	}
	var grains []*c17Unit
	var idents []*GrainIdentity
	for i, spec := range c.Grains {
		u := &c17Unit{name: fmt.Sprintf("g%d", i), think: time.Duration(spec.Think) * time.Microsecond,
			postThink: time.Duration(spec.DeactWork) * time.Microsecond, passivates: spec.DeactivateAfterMs > 0}
		opts := []GrainOption{WithLongLivedGrain()}
		if spec.DeactivateAfterMs > 0 {
			opts = []GrainOption{WithGrainDeactivateAfter(time.Duration(spec.DeactivateAfterMs) * time.Millisecond)}
		}
		if spec.Reentrant {
			opts = append(opts, WithGrainReentrancy(reentrancy.New(reentrancy.WithMode(reentrancy.AllowAll))))
		}
		factory := func(context.Context) (Grain, error) {
			if spec.Kind == 0 {
				return &c17GrainA{env: e, u: u}, nil
			}
			return &c17GrainB{c17GrainA{env: e, u: u}}, nil
		}
		id, err := sys.GrainIdentity(ctx, u.name, factory, opts...)
		if err != nil {
			panic(fmt.Sprintf("activating grain: %v", err))
		}
		grains = append(grains, u)
		idents = append(idents, id)
	}

	vfsched.SetNoise(c.NoiseSeed, c.NoiseProb, c.NoiseSleep)

	// senders
	var stopReturned, aboutToStop atomic.Bool
	pillSent := make([]bool, len(c.Senders))
	sendCtx, cancelSends := context.WithCancel(context.Background())
	defer cancelSends()
	sends := make([][]c17Send, len(c.Senders))
	var wg sync.WaitGroup
	for si, s := range c.Senders {
		wg.Add(1)
		go func() {
			defer wg.Done()
			defer func() {
				if p := recover(); p != nil {
					sends[si] = append(sends[si], c17Send{issued: e.tick(), err: fmt.Errorf("PANIC: %v", p)})
				}
			}()
			post := 0
			for seq := 0; seq < 20000 && post < 3; seq++ {
				after := stopReturned.Load()
				rec := c17Send{issued: e.tick(), afterStop: after}
				msg := &c17Msg{Seq: seq}
				switch s.Mode {
				case c17Tell:
					rec.err = Tell(sendCtx, pids[s.Target], msg)
				case c17Poison:
					// the pill goes out as soon as the main goroutine announces the stop,
					// so that the actor's own stop and the system stop overlap
					if !pillSent[si] && aboutToStop.Load() {
						pillSent[si] = true
						rec.err = Tell(sendCtx, pids[s.Target], new(PoisonPill))
					} else {
						rec.err = Tell(sendCtx, pids[s.Target], msg)
					}
				case c17Ask:
					_, rec.err = Ask(sendCtx, pids[s.Target], msg, c17AskTimeout)
				case c17TellGrain:
					rec.err = sys.TellGrain(sendCtx, idents[s.Target], msg)
				case c17AskGrain:
					_, rec.err = sys.AskGrain(sendCtx, idents[s.Target], msg, c17AskTimeout)
				}
				rec.returned = e.tick()
				// keep the first sends, everything around the stop, and the sends after it
				if len(sends[si]) < 4000 {
					sends[si] = append(sends[si], rec)
				}
				if after {
					post++
				}
				c17Busy(time.Duration(s.Gap) * time.Microsecond)
			}
		}()
	}

	// the passivating grains get their one and only message now; the stop is
	// issued StopOffsetMs after the idle deadline of the first of them
	var focusDeadline time.Time
	for i, spec := range c.Grains {
		if spec.DeactivateAfterMs == 0 {
			continue
		}
		time.Sleep(time.Duration(spec.StaggerMs) * time.Millisecond)
		if _, err := sys.AskGrain(ctx, idents[i], &c17Msg{Seq: -1}, 5*time.Second); err != nil {
			x.Class("inconclusive_passivating_grain_not_reachable")
			vfsched.SetNoise(0, 0, 0)
			cancelSends()
			stopCalled = true
			_ = sys.Stop(ctx)
			stopReturned.Store(true)
			wg.Wait()
			return
		}
		if focusDeadline.IsZero() {
			focusDeadline = time.Now().Add(time.Duration(spec.DeactivateAfterMs) * time.Millisecond)
		}
	}
	if focusDeadline.IsZero() {
		c17Busy(time.Duration(c.StopAfter) * time.Microsecond)
	} else if d := time.Until(focusDeadline.Add(time.Duration(c.StopOffsetMs) * time.Millisecond)); d > 0 {
		time.Sleep(d)
	}
	aboutToStop.Store(true)
	if c.PillLead > 0 {
		c17Busy(time.Duration(c.PillLead) * time.Microsecond)
	}
	stopBegin := e.tick()
	stopCalled = true
	stopErr := sys.Stop(ctx)
	stopEnd := e.tick()
	stopReturned.Store(true)

	// the senders make their sends after the stop; in-flight ones that wait for an
	// answer which will never come are released through their context
	released := make(chan struct{})
	go func() { wg.Wait(); close(released) }()
	select {
	case <-released:
	case <-time.After(400 * time.Millisecond):
		cancelSends()
		select {
		case <-released:
		case <-time.After(c17Cap):
			x.Class("inconclusive_sender_did_not_return")
			vfsched.SetNoise(0, 0, 0)
			<-released
			return
		}
	}
	// give a handler that would (wrongly) still run a chance to show up
	wait := 20 * time.Millisecond
	if vfkit.Thorough() {
		wait = 100 * time.Millisecond
	}
	time.Sleep(wait)
	vfsched.SetNoise(0, 0, 0)

	c17Judge(x, c, actors, grains, sends, stopBegin, stopEnd, stopErr)
}

// c17AwaitGuardians waits until the root, system and user guardians have handled
// their PostStart. Their handlers use fields that are only set there, while a
// Terminated (control message, system mailbox) can overtake PostStart: a top-level
// actor that stops before the user guardian's first turn makes the guardian panic
// and the system shut itself down (defect outside this property, reported
// separately). The check keeps out of that window by construction.
func c17AwaitGuardians(sys *actorSystem) bool {
	deadline := time.Now().Add(15 * time.Second)
	for {
		ready := true
		for _, g := range []*PID{sys.getRootGuardian(), sys.getSystemGuardian(), sys.getUserGuardian()} {
			if g == nil || g.ProcessedCount() < 1 || g.schedState.Load() != dispatchIdle {
				ready = false
			}
		}
		if ready {
			return true
		}
		if time.Now().After(deadline) {
			return false
		}
		time.Sleep(50 * time.Microsecond)
	}
}

func c17Judge(x *vfkit.X, c c17Case, actors, grains []*c17Unit, sends [][]c17Send, stopBegin, stopEnd int64, stopErr error) {
	desc := func() string {
		var b strings.Builder
		b.WriteString("forest:")
		for i, n := range c.Nodes {
			if n.Parent < 0 {
				fmt.Fprintf(&b, " a%d", i)
			} else {
				fmt.Fprintf(&b, " a%d<a%d", i, n.Parent)
			}
		}
		fmt.Fprintf(&b, "; grains: %d; senders:", len(c.Grains))
		for _, s := range c.Senders {
			if s.Mode == c17TellGrain || s.Mode == c17AskGrain {
				fmt.Fprintf(&b, " %s(g%d)", c17ModeNames[s.Mode], s.Target)
			} else {
				fmt.Fprintf(&b, " %s(a%d)", c17ModeNames[s.Mode], s.Target)
			}
		}
		fmt.Fprintf(&b, "; Stop called after %dus", c.StopAfter)
		for gi, g := range c.Grains {
			if g.DeactivateAfterMs > 0 {
				fmt.Fprintf(&b, "; g%d passivates after %dms idle (reentrant=%v, OnDeactivate %dus)", gi, g.DeactivateAfterMs, g.Reentrant, g.DeactWork)
			}
		}
		if c.StopOffsetMs != 0 {
			fmt.Fprintf(&b, "; Stop issued %+dms from the first idle deadline", c.StopOffsetMs)
		}
		return b.String()
	}
	x.Logf("Stop [%d..%d] err=%v", stopBegin, stopEnd, stopErr)
	for _, u := range append(append([]*c17Unit(nil), actors...), grains...) {
		x.Logf("%s starts=%d stops=%d start=%d stop=[%d..%d] handled=%d lastHandler=[%d..%d] late=%v", u.name, u.starts, u.stops, u.startAt, u.stopEnter, u.stopExit, u.handled, u.lastEnter, u.lastExit, u.lateEntries)
	}
	inFlight, afterStopSends := 0, 0
	for si, list := range sends {
		for _, s := range list {
			if s.issued < stopEnd && s.returned > stopBegin {
				inFlight++
			}
			if s.afterStop {
				afterStopSends++
			}
			if s.err != nil && strings.HasPrefix(s.err.Error(), "PANIC:") {
				x.Failf("send-panics-during-system-stop", "sender %d (%s): %v\n%s", si, c17ModeNames[c.Senders[si].Mode], s.err, desc())
			}
		}
	}

	// classification
	depths := c17Depths(c.Nodes)
	deep := false
	for _, d := range depths {
		if d >= 2 {
			deep = true
		}
	}
	if inFlight > 0 {
		x.Class("traffic_in_flight_at_stop")
	}
	if len(grains) > 0 {
		x.Class("with_grains")
	}
	for _, g := range c.Grains {
		if g.Reentrant {
			x.Class("with_reentrant_grain")
			break
		}
	}
	if deep {
		x.Class("forest_depth_2plus")
	}
	if c.NoiseProb > 0 {
		x.Class("noise_on")
	}
	for _, sd := range c.Senders {
		if sd.Mode == c17Poison {
			x.Class("with_poison_pill_in_traffic")
			break
		}
	}
	nearDeadline := false
	for gi, g := range c.Grains {
		if g.DeactivateAfterMs == 0 {
			continue
		}
		x.Class("with_passivating_grain")
		if c.StopOffsetMs >= -30 && c.StopOffsetMs <= 30 {
			x.Class("stop_within_30ms_of_idle_deadline")
			nearDeadline = true
		}
		u := grains[gi]
		switch {
		case u.stopEnter != 0 && u.stopExit != 0 && u.stopExit < stopBegin:
			x.Class("grain_passivated_before_stop")
		case u.stopEnter != 0 && u.stopEnter < stopBegin:
			x.Class("grain_passivation_in_progress_when_stop_began")
		case u.stopEnter != 0:
			x.Class("grain_deactivated_by_stop_before_idle_deadline")
		}
		if !g.Reentrant {
			x.Class("passivating_grain_not_reentrant")
		}
	}
	if nearDeadline {
		x.NonTrivial()
	}
	if len(grains) > 0 && deep && inFlight > 0 {
		x.NonTrivial()
	}

	if stopErr != nil {
		x.Failf("system-stop-returns-error", "Stop returned %v (every PostStop / OnDeactivate hook of the case returns nil)\n%s", stopErr, desc())
	}

	// F-C17-1 (same root cause as C09's parent-stop-skips-child-being-stopped-concurrently):
	// an actor that is stopping itself (PoisonPill in the traffic) when the system stop
	// reaches its parent is skipped by freeChildren and nobody waits for it.
	poisoned := map[*c17Unit]bool{}
	for _, sd := range c.Senders {
		if sd.Mode == c17Poison {
			poisoned[actors[sd.Target]] = true
		}
	}
	underPoison := func(u *c17Unit) bool {
		for p := u; p != nil; p = p.parent {
			if poisoned[p] {
				return true
			}
		}
		return false
	}
	knownSkip := x.Known(c17FpSkip)
	skipSeen, lateSeen := 0, 0
	defer func() {
		// nothing else was wrong: count the case as an observation of the listed finding
		if p := recover(); p != nil {
			panic(p)
		}
		if lateSeen > 0 {
			x.Failf(c17FpLate, "accepted shape of the listed finding seen %d time(s)\n%s", lateSeen, desc())
		}
		if skipSeen > 0 && knownSkip {
			x.Failf(c17FpSkip, "accepted shape of the listed finding seen %d time(s)\n%s", skipSeen, desc())
		}
	}()
	skip := func(u *c17Unit, what string) bool {
		if !underPoison(u) {
			return false
		}
		if !knownSkip {
			x.Failf(c17FpSkip, "%s: %s; the actor (or its ancestor) was stopping itself after a PoisonPill when ActorSystem.Stop reached its parent, whose freeChildren only shuts down running or suspended children and does not wait for one that is already stopping\n%s", u.name, what, desc())
		}
		skipSeen++
		x.Class("known_system_stop_skips_self_stopping_actor")
		return true
	}

	// exactly once
	for _, u := range actors {
		if u.starts == 1 && u.stops == 0 && skip(u, "PostStop had not run when Stop returned") {
			continue
		}
		if u.starts == 1 && u.stops != 1 {
			x.Failf(fmt.Sprintf("poststop-ran-%d-times", u.stops), "actor %s: PreStart ran once, PostStop ran %d time(s) by the time Stop returned\n%s", u.name, u.stops, desc())
		}
	}
	for _, u := range append(append([]*c17Unit(nil), actors...), grains...) {
		if u.stopOverlap {
			x.Failf("stop-hook-overlaps-itself", "%s: two runs of its PostStop/OnDeactivate hook overlapped (entries at t=%v; Stop call [%d..%d])\n%s", u.name, u.stopEnters, stopBegin, stopEnd, desc())
		}
	}
	for _, u := range grains {
		if u.starts != u.stops {
			x.Failf(fmt.Sprintf("grain-activated-%d-deactivated-%d", u.starts, u.stops), "grain %s: OnActivate succeeded %d time(s), OnDeactivate ran %d time(s) by the time Stop returned\n%s", u.name, u.starts, u.stops, desc())
		}
	}
	// children before parents
	for _, u := range actors {
		if u.parent == nil || u.stopExit == 0 || u.parent.stopEnter == 0 {
			continue // a hook that never ran is the business of the exactly-once clause above
		}
		if !(u.stopExit < u.parent.stopEnter) {
			if poisoned[u] && skip(u, fmt.Sprintf("left PostStop at t=%d, its parent %s entered PostStop at t=%d", u.stopExit, u.parent.name, u.parent.stopEnter)) {
				continue
			}
			x.Failf("parent-poststop-before-child-poststop", "actor %s left PostStop at t=%d, its parent %s entered PostStop at t=%d\n%s", u.name, u.stopExit, u.parent.name, u.parent.stopEnter, desc())
		}
	}
	// every hook ran before Stop returned
	for _, u := range append(append([]*c17Unit(nil), actors...), grains...) {
		if u.stopExit == 0 || u.stopExit > stopEnd {
			if skip(u, fmt.Sprintf("PostStop completed at t=%d, Stop returned at t=%d", u.stopExit, stopEnd)) {
				continue
			}
			x.Failf("stop-hook-after-stop-returned", "%s: PostStop/OnDeactivate completed at t=%d, Stop returned at t=%d\n%s", u.name, u.stopExit, stopEnd, desc())
		}
	}
	// no user handler starts after Stop returned
	for _, u := range append(append([]*c17Unit(nil), actors...), grains...) {
		if u.lastEnter > stopEnd {
			// F-C17-2: stops are performed off the actor's turn and do not wait for a
			// turn in flight: the one invocation the worker had already committed to
			// when the actor was reset can begin after Stop returned. Accepted while
			// listed: exactly one such entry, on an actor (not a grain), after its own
			// PostStop.
			after := 0
			for _, t := range u.lateEntries {
				if t > stopEnd {
					after++
				}
			}
			isActor := false
			for _, a := range actors {
				if a == u {
					isActor = true
				}
			}
			if isActor && after == 1 && len(u.lateEntries) > 0 && x.Known(c17FpLate) {
				x.Class("known_handler_entered_after_stop_returned")
				lateSeen++
				continue
			}
			x.Failf(c17FpLate, "%s: a handler was entered at t=%d, Stop had returned at t=%d (PostStop/OnDeactivate of it ran at [%d..%d])\n%s", u.name, u.lastEnter, stopEnd, u.stopEnter, u.stopExit, desc())
		}
		if u.lastExit > stopEnd || (u.lastEnter > u.lastExit) {
			x.Class("handler_in_flight_when_stop_returned")
		}
		if len(u.lateEntries) > 0 {
			x.Class("handler_entered_after_own_stop_hook_began")
		}
	}
	// every send issued after the return fails
	for si, list := range sends {
		for _, s := range list {
			if s.afterStop && s.err == nil {
				// F-C17-1, worst form: the subtree of an actor that was stopping itself is
				// never stopped (the tree was reset under it) and still accepts messages
				if m := c.Senders[si].Mode; (m == c17Tell || m == c17Ask || m == c17Poison) && skip(actors[c.Senders[si].Target], "still accepts messages after Stop returned") {
					continue
				}
				x.Failf("send-after-stop-accepted", "sender %d: %s issued at t=%d, after Stop had returned (t=%d), returned nil\n%s", si, c17ModeNames[c.Senders[si].Mode], s.issued, stopEnd, desc())
			}
		}
	}
	if afterStopSends > 0 {
		x.Class("sends_after_stop_checked")
	}
}

func TestVF_C17_sysstop(t *testing.T) {
	vfkit.Run(t, vfkit.Spec[c17Case]{
		ID: "C17", Unit: "sysstop",
		Rule: "cases = one real ActorSystem with a generated forest (0..12 actors, depth <= 3), 0..5 long-lived grains of two kinds (some reentrancy-enabled), 0..6 sender goroutines doing Tell/Ask/TellGrain/AskGrain in a loop with handler think times, ActorSystem.Stop called after 0..3 ms of traffic, 3 more sends per sender after it returned, E4 schedule noise; in a third of the cases with grains some grains are not long-lived but passivate after 100/200/300 ms of idleness (one message each, staggered by 0..12 ms, OnDeactivate taking 2..10 ms, no sender addresses them) and Stop is issued -30..+30 ms (or far) from the first such idle deadline; non-trivial = (>= 1 grain and a forest of depth >= 2 and at least one send whose call interval overlaps the Stop call) or (a passivating grain and Stop within 30 ms of its idle deadline); distinct = distinct generated programs",
		Gen:  c17Gen, Exec: c17Exec,
		ReplayReps: 20,
	})
}
